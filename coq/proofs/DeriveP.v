(* C16: lemmas about the model of the derive macros (model/Derive.v). *)
From Coq Require Import ZArith Decimal DecimalPos DecimalN DecimalZ.
From V.model Require Import Base Deb822Lex Deb822Parse Grammar Lossy LossySpec Derive.
From V.proofs Require Import BaseP LossyRtP.

(* ================================================================== 1. std functions of the codecs *)
(* ---- decimal numerals ---- *)
Lemma chars_uint_chars u : chars_uint (uint_chars u) = Some u.
Proof. induction u; cbn [uint_chars chars_uint]; try reflexivity; rewrite IHu; reflexivity. Qed.

Definition is_digit (c : N) : bool := (48 <=? c)%N && (c <=? 57)%N.
Lemma uint_chars_digits u : forallb is_digit (uint_chars u) = true.
Proof. induction u; cbn [uint_chars forallb]; try reflexivity; rewrite IHu; reflexivity. Qed.
Lemma uint_chars_nonnil u : u <> Nil -> uint_chars u <> [].
Proof. destruct u; cbn; congruence. Qed.

Lemma N_to_uint_nonnil n : N.to_uint n <> Nil.
Proof. destruct n as [|p]; cbn; [discriminate|apply Unsigned.to_uint_nonnil]. Qed.

(* stripping an optional sign leaves a digit string untouched *)
Lemma digits_no_sign s : forallb is_digit s = true ->
  match s with 43%N :: (_ :: _) as r => r | _ => s end = s.
Proof.
  destruct s as [|c r]; [reflexivity|]. cbn [forallb]. intros H. apply andb_true_iff in H. destruct H as [Hc _].
  unfold is_digit in Hc. destruct c as [|p]; [reflexivity|].
  repeat (match goal with |- context [match ?q with xI _ => _ | xO _ => _ | xH => _ end] => is_var q; destruct q end);
    try reflexivity; vm_compute in Hc; discriminate.
Qed.

Lemma parse_print_dec bits n : (n < 2 ^ bits)%N -> parse_udec bits (print_dec n) = Some n.
Proof.
  intros Hn. unfold parse_udec, print_dec.
  rewrite (digits_no_sign _ (uint_chars_digits _)).
  pose proof (uint_chars_nonnil _ (N_to_uint_nonnil n)) as Hne.
  destruct (uint_chars (N.to_uint n)) as [|c r] eqn:Ec; [congruence|]. rewrite <- Ec.
  rewrite chars_uint_chars. cbv zeta. rewrite DecimalN.Unsigned.of_to.
  apply N.ltb_lt in Hn. rewrite Hn. reflexivity.
Qed.

Lemma digits_no_sign2 s : forallb is_digit s = true ->
  match s with
  | 43%N :: (_ :: _) as r => (false, r)
  | 45%N :: (_ :: _) as r => (true, r)
  | _ => (false, s)
  end = (false, s).
Proof.
  destruct s as [|c r]; [reflexivity|]. cbn [forallb]. intros H. apply andb_true_iff in H. destruct H as [Hc _].
  unfold is_digit in Hc. destruct c as [|p]; [reflexivity|].
  repeat (match goal with |- context [match ?q with xI _ => _ | xO _ => _ | xH => _ end] => is_var q; destruct q end);
    try reflexivity; vm_compute in Hc; discriminate.
Qed.

Definition int_in_range (bits : N) (z : Z) : Prop := (- Z.of_N (2 ^ (bits - 1)) <= z < Z.of_N (2 ^ (bits - 1)))%Z.

Lemma parse_print_int bits z : int_in_range bits z -> parse_int bits (print_int z) = Some z.
Proof.
  intros [Hlo Hhi]. unfold parse_int, print_int.
  assert (Hz : Z.of_int (Z.to_int z) = z) by apply DecimalZ.of_to.
  destruct (Z.to_int z) as [u|u] eqn:Eu.
  - assert (Hu : u <> Nil).
    { destruct z as [|p|p]; cbn in Eu; inversion Eu; [discriminate|apply Unsigned.to_uint_nonnil]. }
    rewrite (digits_no_sign2 _ (uint_chars_digits _)).
    pose proof (uint_chars_nonnil _ Hu) as Hne.
    destruct (uint_chars u) as [|c r] eqn:Ec; [congruence|]. rewrite <- Ec.
    rewrite chars_uint_chars. cbv zeta. rewrite Hz.
    apply Z.leb_le in Hlo. apply Z.ltb_lt in Hhi. rewrite Hlo, Hhi. reflexivity.
  - assert (Hu : u <> Nil).
    { destruct z as [|p|p]; cbn in Eu; inversion Eu. apply Unsigned.to_uint_nonnil. }
    pose proof (uint_chars_nonnil _ Hu) as Hne.
    destruct (uint_chars u) as [|c r] eqn:Ec; [congruence|].
    change (match 45%N :: c :: r with
            | 43%N :: (_ :: _) as r0 => (false, r0)
            | 45%N :: (_ :: _) as r0 => (true, r0)
            | _ => (false, 45%N :: c :: r)
            end) with (true, c :: r).
    cbv iota beta. rewrite <- Ec. rewrite chars_uint_chars. cbv zeta. rewrite Hz.
    apply Z.leb_le in Hlo. apply Z.ltb_lt in Hhi. rewrite Hlo, Hhi. reflexivity.
Qed.

(* ---- split_whitespace ∘ join " " ---- *)
Definition ws_free (s : str) : bool := forallb (fun c => negb (is_ws c)) s.
Definition ws_item (s : str) : bool := match s with [] => false | _ => ws_free s end.

Lemma split_ws_go_app l : forall s acc, ws_free l = true -> split_ws_go (l ++ s) acc = split_ws_go s (acc ++ l).
Proof.
  induction l as [|c r IH]; intros s acc H; [rewrite app_nil_r; reflexivity|].
  cbn [ws_free forallb] in H. apply andb_true_iff in H. destruct H as [Hc Hr]. apply negb_true_iff in Hc.
  cbn [app split_ws_go]. rewrite Hc, (IH s (acc ++ [c]) Hr), <- app_assoc. reflexivity.
Qed.

Lemma split_ws_join_sep c l : is_ws c = true -> forallb ws_item l = true -> split_ws (join [c] l) = l.
Proof.
  intros Hc. unfold split_ws. induction l as [|x r IH]; [reflexivity|]. intros H.
  cbn [forallb] in H. apply andb_true_iff in H. destruct H as [Hx Hr].
  assert (Hne : x <> []) by (destruct x; [discriminate|congruence]).
  assert (Hf : ws_free x = true) by (destruct x; [discriminate|exact Hx]).
  destruct r as [|y r'].
  - cbn [join]. rewrite <- (app_nil_r x) at 1. rewrite split_ws_go_app by exact Hf.
    cbn [split_ws_go app]. destruct x; [congruence|reflexivity].
  - rewrite join_cons2 by discriminate. rewrite split_ws_go_app by exact Hf.
    cbn [app split_ws_go]. rewrite Hc.
    destruct x as [|c0 x']; [congruence|]. cbn [app]. rewrite IH by exact Hr. reflexivity.
Qed.
Lemma split_ws_join l : forallb ws_item l = true -> split_ws (join [32%N] l) = l.
Proof. apply split_ws_join_sep. reflexivity. Qed.
Lemma split_ws_join_lf l : forallb ws_item l = true -> split_ws (join [10%N] l) = l.
Proof. apply split_ws_join_sep. reflexivity. Qed.

(* ---- split('\n') ∘ join "\n" ---- *)
Lemma split_lf_join_nolf ls : ls <> [] -> forallb no_lf ls = true -> split_lf (join [LF] ls) = ls.
Proof.
  unfold split_lf. induction ls as [|l r IH]; [congruence|]. intros _ H.
  cbn [forallb] in H. apply andb_true_iff in H. destruct H as [Hl Hr].
  destruct r as [|l2 r2].
  - cbn [join]. rewrite <- (app_nil_r l) at 1. rewrite split_lf_go_app by exact Hl. reflexivity.
  - rewrite join_cons2 by discriminate. rewrite split_lf_go_app by exact Hl.
    cbn [app split_lf_go]. change (LF =? 10)%N with true. cbv iota. rewrite IH; [reflexivity|discriminate|exact Hr].
Qed.

(* ================================================================== 2. list-level facts *)
Lemma str_eqb_neq a b : a <> b -> str_eqb a b = false.
Proof. intros H. destruct (str_eqb a b) eqn:E; [apply str_eqb_eq in E; contradiction|reflexivity]. Qed.
Lemma str_eqb_sym a b : str_eqb a b = str_eqb b a.
Proof.
  destruct (str_eqb a b) eqn:E.
  - apply str_eqb_eq in E. subst. symmetry. apply str_eqb_refl.
  - destruct (str_eqb b a) eqn:E2; [|reflexivity]. apply str_eqb_eq in E2. subst. rewrite str_eqb_refl in E. discriminate.
Qed.

Lemma existsb_str_In k l : existsb (str_eqb k) l = true <-> In k l.
Proof.
  rewrite existsb_exists. split.
  - intros (x & Hx & E). apply str_eqb_eq in E. subst. exact Hx.
  - intros H. exists k. split; [exact H|apply str_eqb_refl].
Qed.
Lemma nodup_keys_NoDup ks : nodup_keys ks = true <-> NoDup ks.
Proof.
  induction ks as [|k r IH]; cbn [nodup_keys]; [split; [constructor|reflexivity]|].
  rewrite andb_true_iff, negb_true_iff, IH. split.
  - intros [H1 H2]. constructor; [|exact H2]. intros Hin. apply existsb_str_In in Hin. congruence.
  - intros H. inversion H as [|? ? Hn Hr]; subst. split; [|exact Hr].
    destruct (existsb (str_eqb k) r) eqn:E; [|reflexivity]. apply existsb_str_In in E. contradiction.
Qed.

Lemma l_get_none_iff l k : l_get l k = None <-> ~ In k (map fst l).
Proof.
  induction l as [|[n v] r IH]; cbn [l_get map fst In]; [tauto|].
  destruct (str_eqb n k) eqn:E.
  - apply str_eqb_eq in E. subst. split; [discriminate|intros H; exfalso; apply H; left; reflexivity].
  - rewrite IH. split; [intros H [H1|H1]; [subst; rewrite str_eqb_refl in E; discriminate|contradiction]|tauto].
Qed.

Lemma l_get_cons_other k v l k' : str_eqb k k' = false -> l_get ((k, v) :: l) k' = l_get l k'.
Proof. intros H. cbn [l_get]. rewrite H. reflexivity. Qed.

(* filtering by a predicate on names that rejects k is blind to set k / remove k *)
Lemma filter_l_set (P : str -> bool) l k v : P k = false ->
  filter (fun f => P (fst f)) (l_set l k v) = filter (fun f => P (fst f)) l.
Proof.
  intros HP. destruct (l_set_spec l k v) as [(a & x & b & E1 & E2 & E3)|[E1 E2]].
  - rewrite E3, E1, !filter_app. cbn [filter fst]. rewrite HP. reflexivity.
  - rewrite E2, filter_app. cbn [filter fst]. rewrite HP, app_nil_r. reflexivity.
Qed.
Lemma filter_l_remove (P : str -> bool) l k : P k = false ->
  filter (fun f => P (fst f)) (l_remove l k) = filter (fun f => P (fst f)) l.
Proof.
  intros HP. unfold l_remove. induction l as [|[n v] r IH]; [reflexivity|]. cbn [filter fst].
  destruct (str_eqb n k) eqn:E; cbn [negb].
  - apply str_eqb_eq in E. subst n. rewrite HP. exact IH.
  - cbn [filter fst]. rewrite IH. reflexivity.
Qed.

(* ================================================================== 3. the expansion, over any codecs *)
Section Ext.
Variable E : Type.
Variable ext_print : N -> E -> str.
Variable ext_parse : N -> str -> option E.
(* the values of each external codec for which printing then parsing is claimed to be the identity *)
Variable ext_dom : N -> E -> Prop.

Notation uval := (uval E).
Notation sval := (list (option (Derive.uval E))).
Notation ser := (ser E ext_print).
Notation de := (de E ext_parse).
Notation from_field := (from_field E ext_parse).
Notation from_fields := (from_fields E ext_parse).
Notation to_items := (to_items E ext_print).

(* THE assumption about external codecs (validated by the `derive` stream on the real functions) *)
Definition ext_rt_law : Prop := forall i e, ext_dom i e -> ext_parse i (ext_print i e) = Some e.

(* the representable values of a (serialiser, deserialiser) pair: those the pair round-trips *)
Definition val_dom (s : ser_id) (d : de_id) (v : uval) : Prop :=
  match s, d, v with
  | SStr, DStr, VStr _ => True
  | SBool, DBool, VBool _ => True
  | SYesNo, DYesNo, VBool _ => True
  | SJaNee, DJa, VBool _ => True
  | SNum, DNum bits, VNum n => (n < 2 ^ bits)%N
  | SInt, DInt bits, VInt z => int_in_range bits z
  | SJoinWs, DSplitWs, VList l => forallb ws_item l = true          (* items non-empty, no white space *)
  | SJoinNl, DSplitWs, VList l => forallb ws_item l = true          (* one item per line, read back by split_whitespace *)
  | SJoinNl, DSplitNl, VList l => l <> [] /\ forallb no_lf l = true   (* at least one item, no LF inside *)
  | SJoinNl, DSplitNlE, VList l => forallb no_lf l = true /\ l <> [[]]   (* no LF inside; not the list holding one empty item *)
  | SJoinNl, DLines, VList l => forallb no_eol l = true /\ last l [1%N] <> []   (* no LF/CR, last item non-empty *)
  | SExt i, DExt j, VExt e => i = j /\ ext_dom i e
  | _, _, _ => False
  end.

Lemma val_dom_rt_pair s d v : val_dom s d v -> rt_pair s d = true.
Proof.
  destruct s, d; cbn; try contradiction; try reflexivity; destruct v; try contradiction.
  intros [-> _]. apply N.eqb_refl.
Qed.

Theorem codec_rt s d v : ext_rt_law -> val_dom s d v -> exists t, ser s v = Some t /\ de d t = Some v.
Proof.
  intros Hext. destruct s, d; cbn [val_dom]; try contradiction; destruct v; try contradiction; intros H; cbn [Derive.ser Derive.de].
  - eexists; split; reflexivity.
  - eexists; split; [reflexivity|]. destruct b; reflexivity.
  - eexists; split; [reflexivity|]. destruct b; reflexivity.
  - eexists; split; [reflexivity|]. destruct b; reflexivity.
  - eexists; split; [reflexivity|]. rewrite parse_print_dec by exact H. reflexivity.
  - eexists; split; [reflexivity|]. rewrite parse_print_int by exact H. reflexivity.
  - eexists; split; [reflexivity|]. rewrite split_ws_join by exact H. reflexivity.
  - eexists; split; [reflexivity|]. rewrite split_ws_join_lf by exact H. reflexivity.
  - destruct H as [H1 H2]. eexists; split; [reflexivity|]. change [10%N] with [LF]. rewrite split_lf_join_nolf by assumption. reflexivity.
  - destruct H as [H1 H2]. eexists; split; [reflexivity|]. destruct l as [|x r]; [reflexivity|].
    change [10%N] with [LF]. rewrite split_lf_join_nolf by (discriminate || assumption).
    destruct (join [LF] (x :: r)) eqn:Ej; [|reflexivity]. exfalso.
    destruct r as [|y r']; [cbn in Ej; subst x; apply H2; reflexivity|].
    rewrite join_cons2 in Ej by discriminate. destruct x; discriminate.
  - destruct H as [H1 H2]. eexists; split; [reflexivity|]. change [10%N] with [LF]. rewrite lines_join by assumption. reflexivity.
  - destruct H as [<- H]. eexists; split; [reflexivity|]. rewrite (Hext _ _ H). reflexivity.
Qed.

(* ---- struct values ---- *)
(* typed: every present value is accepted by its serialiser; mandatory fields are present *)
Definition fval_typed (f : fieldspec) (x : option uval) : Prop :=
  match x with None => f_opt f = true | Some u => exists t, ser (f_ser f) u = Some t end.
(* representable: additionally in the round-trip domain of the field's codec pair *)
Definition fval_ok (f : fieldspec) (x : option uval) : Prop :=
  match x with None => f_opt f = true | Some u => val_dom (f_ser f) (f_de f) u end.
Definition val_typed (fs : list fieldspec) (v : sval) : Prop := Forall2 fval_typed fs v.
Definition val_ok (fs : list fieldspec) (v : sval) : Prop := Forall2 fval_ok fs v.

(* what a field prints to *)
Definition fprint (f : fieldspec) (x : option uval) : option str :=
  match x with None => None | Some u => ser (f_ser f) u end.

Lemma val_ok_typed fs v : ext_rt_law -> val_ok fs v -> val_typed fs v.
Proof.
  intros Hext H. induction H as [|f x fs v Hx _ IH]; constructor; [|exact IH].
  destruct x as [u|]; [|exact Hx]. destruct (codec_rt _ _ _ Hext Hx) as (t & Ht & _). exists t. exact Ht.
Qed.

(* the items to_paragraph builds: present fields, in declaration order *)
Fixpoint present_items (fs : list fieldspec) (v : sval) : list (str * str) :=
  match fs, v with
  | f :: r, x :: xs => match fprint f x with Some s => (f_key f, s) :: present_items r xs | None => present_items r xs end
  | _, _ => []
  end.
Fixpoint present_keys (fs : list fieldspec) (v : sval) : list str :=
  match fs, v with
  | f :: r, x :: xs => match x with Some _ => f_key f :: present_keys r xs | None => present_keys r xs end
  | _, _ => []
  end.

Lemma to_items_typed fs v : val_typed fs v -> to_items fs v = Some (present_items fs v).
Proof.
  intros H. induction H as [|f x fs v Hx _ IH]; [reflexivity|]. cbn [Derive.to_items present_items fprint].
  destruct x as [u|]; cbn [fprint].
  - destruct Hx as (t & Ht). rewrite Ht, IH. reflexivity.
  - cbn in Hx. rewrite Hx. exact IH.
Qed.
Lemma present_items_keys fs v : val_typed fs v -> map fst (present_items fs v) = present_keys fs v.
Proof.
  intros H. induction H as [|f x fs v Hx _ IH]; [reflexivity|]. cbn [present_items present_keys fprint].
  destruct x as [u|]; cbn [fprint]; [|exact IH]. destruct Hx as (t & Ht). rewrite Ht. cbn [map fst]. rewrite IH. reflexivity.
Qed.
Lemma present_keys_incl fs v k : In k (present_keys fs v) -> In k (map f_key fs).
Proof.
  revert v. induction fs as [|f r IH]; intros [|x xs]; cbn [present_keys map]; try contradiction.
  destruct x; cbn [In]; [intros [H|H]; [left; exact H|right; eapply IH; exact H]|intros H; right; eapply IH; exact H].
Qed.
Lemma present_items_incl fs v k : In k (map fst (present_items fs v)) -> In k (map f_key fs).
Proof.
  revert v. induction fs as [|f r IH]; intros [|x xs]; cbn [present_items map]; try contradiction.
  destruct (fprint f x); cbn [map fst In]; [intros [H|H]; [left; exact H|right; eapply IH; exact H]|intros H; right; eapply IH; exact H].
Qed.

(* ---- reading: from_fields is determined by what get returns for the struct's keys ---- *)
Lemma from_fields_ext get1 get2 fs : (forall k, In k (map f_key fs) -> get1 k = get2 k) ->
  from_fields get1 fs = from_fields get2 fs.
Proof.
  induction fs as [|f r IH]; intros H; [reflexivity|]. cbn [Derive.from_fields].
  unfold Derive.from_field. rewrite (H (f_key f)) by (left; reflexivity).
  rewrite IH by (intros k Hk; apply H; right; exact Hk). reflexivity.
Qed.

Lemma from_fields_of_gets get fs v : ext_rt_law -> val_ok fs v ->
  Forall2 (fun f x => get (f_key f) = fprint f x) fs v -> from_fields get fs = DOk v.
Proof.
  intros Hext Hok Hg. induction Hok as [|f x fs v Hx _ IH]; [reflexivity|].
  inversion Hg as [|? ? ? ? Hgx Hgr]; subst. cbn [Derive.from_fields]. unfold Derive.from_field. rewrite Hgx.
  destruct x as [u|]; cbn [fprint].
  - destruct (codec_rt _ _ _ Hext Hx) as (t & Ht & Hd). rewrite Ht, Hd, (IH Hgr). reflexivity.
  - cbn in Hx. rewrite Hx, (IH Hgr). reflexivity.
Qed.

Lemma Forall2_get_cons k s (L : list (str * str)) fs (v : sval) :
  Forall (fun g => str_eqb k (f_key g) = false) fs ->
  Forall2 (fun f x => l_get L (f_key f) = fprint f x) fs v ->
  Forall2 (fun f x => l_get ((k, s) :: L) (f_key f) = fprint f x) fs v.
Proof.
  intros Hne H. induction H as [|g y r0 xs0 Hgy _ IH2]; constructor.
  - inversion Hne; subst. rewrite l_get_cons_other by assumption. exact Hgy.
  - inversion Hne; subst. apply IH2. assumption.
Qed.

(* what l_get returns on the items of to_paragraph *)
Lemma present_items_get fs v : NoDup (map f_key fs) -> length fs = length v ->
  Forall2 (fun f x => l_get (present_items fs v) (f_key f) = fprint f x) fs v.
Proof.
  revert v. induction fs as [|f r IH]; intros [|x xs] Hnd Hlen; try discriminate; [constructor|].
  cbn [map] in Hnd. inversion Hnd as [|? ? Hn Hr]; subst. cbn [length] in Hlen. injection Hlen as Hlen.
  specialize (IH xs Hr Hlen). cbn [present_items]. constructor.
  - destruct (fprint f x) as [s|] eqn:Ep.
    + cbn [l_get]. rewrite str_eqb_refl. reflexivity.
    + apply l_get_none_iff. intros Hin. apply Hn. eapply present_items_incl. exact Hin.
  - assert (Hne : Forall (fun g => str_eqb (f_key f) (f_key g) = false) r).
    { apply Forall_forall. intros g Hg. apply str_eqb_neq. intros E0. apply Hn. rewrite E0. apply in_map. exact Hg. }
    destruct (fprint f x) as [s|]; [|exact IH].
    apply Forall2_get_cons; assumption.
Qed.

Lemma Forall2_length_eq {A B} (R : A -> B -> Prop) l1 l2 : Forall2 R l1 l2 -> length l1 = length l2.
Proof. induction 1; cbn; congruence. Qed.

(* ---- errors: the first field, in declaration order, that cannot be read decides ---- *)
Definition field_reads (get : str -> option str) (f : fieldspec) : Prop := exists x, from_field get f = DOk x.

Lemma from_fields_first_error get a f b e : Forall (field_reads get) a -> from_field get f = DErr e ->
  from_fields get (a ++ f :: b) = DErr e.
Proof.
  intros Ha Hf. induction Ha as [|g a (x & Hx) _ IH]; cbn [app Derive.from_fields].
  - rewrite Hf. reflexivity.
  - rewrite Hx, IH. reflexivity.
Qed.
Lemma from_fields_error_inv get fs e : from_fields get fs = DErr e ->
  exists a f b, fs = a ++ f :: b /\ Forall (field_reads get) a /\ from_field get f = DErr e.
Proof.
  induction fs as [|f r IH]; cbn [Derive.from_fields]; [discriminate|].
  destruct (from_field get f) as [x|e0] eqn:Ef.
  - destruct (from_fields get r) as [xs|e1] eqn:Er; [discriminate|]. intros H. injection H as <-.
    destruct (IH eq_refl) as (a & g & b & E1 & E2 & E3). exists (f :: a), g, b. subst r. repeat split; [|exact E3].
    constructor; [exists x; exact Ef|exact E2].
  - intros H. injection H as <-. exists [], f, r. repeat split; [constructor|exact Ef].
Qed.
Lemma from_field_error get f e : from_field get f = DErr e ->
  (e = Missing (f_key f) /\ f_opt f = false /\ get (f_key f) = None) \/
  (e = Parsing (f_key f) /\ exists s, get (f_key f) = Some s /\ de (f_de f) s = None).
Proof.
  unfold Derive.from_field. destruct (get (f_key f)) as [s|].
  - destruct (de (f_de f) s) eqn:Ed; [discriminate|]. intros H. injection H as <-. right. split; [reflexivity|]. exists s. split; [reflexivity|exact Ed].
  - destruct (f_opt f); [discriminate|]. intros H. injection H as <-. left. repeat split.
Qed.
Lemma from_fields_ok_iff get fs : (exists v, from_fields get fs = DOk v) <-> Forall (field_reads get) fs.
Proof.
  induction fs as [|f r IH]; cbn [Derive.from_fields]; [split; [constructor|exists []; reflexivity]|]. split.
  - intros (v & Hv). destruct (from_field get f) as [x|] eqn:Ef; [|discriminate].
    destruct (from_fields get r) as [xs|] eqn:Er; [|discriminate]. constructor; [exists x; exact Ef|apply IH; exists xs; reflexivity].
  - intros H. inversion H as [|? ? (x & Hx) Hr]; subst. apply IH in Hr. destruct Hr as (xs & Hxs). rewrite Hx, Hxs. eexists; reflexivity.
Qed.

(* ---- update on the list model ---- *)
Fixpoint l_update (fs : list fieldspec) (v : sval) (l : list (str * str)) : option (list (str * str)) :=
  match fs, v with
  | [], [] => Some l
  | f :: r, x :: xs =>
    match x with
    | None => if f_opt f then l_update r xs (l_remove l (f_key f)) else None
    | Some u => match ser (f_ser f) u with Some s => l_update r xs (l_set l (f_key f) s) | None => None end
    end
  | _, _ => None
  end.

Definition owned (fs : list fieldspec) (k : str) : bool := existsb (str_eqb k) (map f_key fs).
Definition not_owned_items (fs : list fieldspec) (l : list (str * str)) : list (str * str) :=
  filter (fun kv => negb (owned fs (fst kv))) l.

Lemma owned_In fs k : owned fs k = true <-> In k (map f_key fs).
Proof. apply existsb_str_In. Qed.

Lemma l_update_spec fs : forall v l, NoDup (map f_key fs) -> val_typed fs v ->
  exists l', l_update fs v l = Some l' /\
    Forall2 (fun f x => l_get l' (f_key f) = fprint f x) fs v /\
    (forall k, ~ In k (map f_key fs) -> l_get l' k = l_get l k) /\
    (forall P : str -> bool, (forall k, In k (map f_key fs) -> P k = false) ->
        filter (fun kv => P (fst kv)) l' = filter (fun kv => P (fst kv)) l).
Proof.
  induction fs as [|f r IH]; intros v l Hnd Hty; inversion Hty as [|? x ? xs Hx Hr]; subst.
  - exists l. split; [reflexivity|]. split; [constructor|]. split; reflexivity.
  - cbn [map] in Hnd. inversion Hnd as [|? ? Hn Hnr]; subst.
    set (l1 := match x with
               | None => l_remove l (f_key f)
               | Some u => match ser (f_ser f) u with Some s => l_set l (f_key f) s | None => l end
               end).
    destruct (IH xs l1 Hnr Hr) as (l' & Hu & Hget & Hother & Hfilt).
    assert (Hstep : l_update (f :: r) (x :: xs) l = l_update r xs l1).
    { cbn [l_update]. unfold l1. destruct x as [u|]; [destruct Hx as (t & Ht); rewrite Ht; reflexivity|cbn in Hx; rewrite Hx; reflexivity]. }
    assert (Hk1 : l_get l1 (f_key f) = fprint f x).
    { unfold l1. destruct x as [u|]; cbn [fprint].
      - destruct Hx as (t & Ht). rewrite Ht. apply l_get_set_same.
      - apply l_remove_spec. }
    assert (Hk2 : forall k, k <> f_key f -> l_get l1 k = l_get l k).
    { intros k Hne. unfold l1. destruct x as [u|].
      - destruct (ser (f_ser f) u); [|reflexivity]. apply l_get_set_other. apply str_eqb_neq. congruence.
      - apply l_remove_spec. apply str_eqb_neq. exact Hne. }
    assert (Hk3 : forall P : str -> bool, P (f_key f) = false ->
                  filter (fun kv => P (fst kv)) l1 = filter (fun kv => P (fst kv)) l).
    { intros P HP. unfold l1. destruct x as [u|].
      - destruct (ser (f_ser f) u); [|reflexivity]. apply filter_l_set. exact HP.
      - apply filter_l_remove. exact HP. }
    exists l'. rewrite Hstep. split; [exact Hu|]. split; [|split].
    + constructor; [|exact Hget]. rewrite Hother by exact Hn. exact Hk1.
    + intros k Hk. cbn [map In] in Hk. rewrite Hother by tauto. apply Hk2. intros ->. apply Hk. left. reflexivity.
    + intros P HP. rewrite Hfilt by (intros k Hk; apply HP; right; exact Hk). apply Hk3. apply HP. left. reflexivity.
Qed.

(* ================================================================== 4. over any paragraph back-end *)
(* The laws a back-end has to satisfy: its observer [pl_items] maps get / set / remove / collect
   onto the list operations of the lossy paragraph (proved for the list in proofs/LossyRtP.v). *)
Record ParaLaws (PL : ParaLike) : Prop := mk_para_laws {
  law_get : forall p k, pl_get PL p k = l_get (pl_items PL p) k;
  law_set : forall p k v, pl_items PL (pl_set PL p k v) = l_set (pl_items PL p) k v;
  law_remove : forall p k, pl_items PL (pl_remove PL p k) = l_remove (pl_items PL p) k;
  law_of_list : forall l, pl_items PL (pl_of_list PL l) = l }.

Section Backend.
Variable PL : ParaLike.
Hypothesis laws : ParaLaws PL.
Notation from_paragraph := (from_paragraph E ext_parse PL).
Notation to_paragraph := (to_paragraph E ext_print PL).
Notation update_paragraph := (update_paragraph E ext_print PL).

Lemma from_paragraph_items fs p : from_paragraph fs p = from_fields (l_get (pl_items PL p)) fs.
Proof. unfold Derive.from_paragraph. apply from_fields_ext. intros k _. apply (law_get _ laws). Qed.

Lemma update_paragraph_items fs : forall v p,
  match update_paragraph fs v p with
  | Some p' => l_update fs v (pl_items PL p) = Some (pl_items PL p')
  | None => l_update fs v (pl_items PL p) = None
  end.
Proof.
  induction fs as [|f r IH]; intros [|x xs] p; cbn [Derive.update_paragraph l_update]; try reflexivity.
  destruct x as [u|].
  - destruct (ser (f_ser f) u) as [s|]; [|reflexivity]. specialize (IH xs (pl_set PL p (f_key f) s)).
    rewrite (law_set _ laws) in IH. exact IH.
  - destruct (f_opt f); [|reflexivity]. specialize (IH xs (pl_remove PL p (f_key f))).
    rewrite (law_remove _ laws) in IH. exact IH.
Qed.

(* round trip; the paragraph lists the present fields in declaration order under their keys *)
Theorem derive_rt_order fs v : ext_rt_law -> NoDup (map f_key fs) -> val_ok fs v ->
  exists p, to_paragraph fs v = Some p /\
            from_paragraph fs p = DOk v /\
            pl_items PL p = present_items fs v /\
            map fst (pl_items PL p) = present_keys fs v.
Proof.
  intros Hext Hnd Hok. pose proof (val_ok_typed _ _ Hext Hok) as Hty.
  unfold Derive.to_paragraph. rewrite (to_items_typed _ _ Hty). eexists. split; [reflexivity|].
  rewrite from_paragraph_items, (law_of_list _ laws). split; [|split; [reflexivity|apply present_items_keys; exact Hty]].
  apply from_fields_of_gets; [exact Hext|exact Hok|].
  apply present_items_get; [exact Hnd|eapply Forall2_length_eq; exact Hok].
Qed.

(* to_paragraph alone (structs deriving only ToDeb822): order and omission *)
Theorem derive_order fs v : val_typed fs v ->
  exists p, to_paragraph fs v = Some p /\ pl_items PL p = present_items fs v /\
            map fst (pl_items PL p) = present_keys fs v.
Proof.
  intros Hty. unfold Derive.to_paragraph. rewrite (to_items_typed _ _ Hty). eexists. split; [reflexivity|].
  rewrite (law_of_list _ laws). split; [reflexivity|apply present_items_keys; exact Hty].
Qed.

Theorem derive_update fs v p : ext_rt_law -> NoDup (map f_key fs) -> val_ok fs v ->
  exists p', update_paragraph fs v p = Some p' /\
    from_paragraph fs p' = DOk v /\
    (forall k, ~ In k (map f_key fs) -> pl_get PL p' k = pl_get PL p k) /\
    not_owned_items fs (pl_items PL p') = not_owned_items fs (pl_items PL p) /\
    Forall2 (fun f x => x = None -> ~ In (f_key f) (map fst (pl_items PL p'))) fs v /\
    Forall2 (fun f x => pl_get PL p' (f_key f) = fprint f x) fs v.
Proof.
  intros Hext Hnd Hok. pose proof (val_ok_typed _ _ Hext Hok) as Hty.
  destruct (l_update_spec fs v (pl_items PL p) Hnd Hty) as (l' & Hu & Hget & Hother & Hfilt).
  pose proof (update_paragraph_items fs v p) as Hh. destruct (update_paragraph fs v p) as [p'|]; [|congruence].
  rewrite Hu in Hh. injection Hh as Hl'. exists p'. split; [reflexivity|].
  assert (Hget' : Forall2 (fun f x => pl_get PL p' (f_key f) = fprint f x) fs v).
  { clear - Hget Hl' laws. subst l'. induction Hget; constructor; [rewrite (law_get _ laws); assumption|assumption]. }
  split; [|split; [|split; [|split]]].
  - rewrite from_paragraph_items, <- Hl'. apply from_fields_of_gets; assumption.
  - intros k Hk. rewrite !(law_get _ laws), <- Hl'. apply Hother. exact Hk.
  - unfold not_owned_items. rewrite <- Hl'. apply (Hfilt (fun k => negb (owned fs k))).
    intros k Hk. apply negb_false_iff, owned_In. exact Hk.
  - rewrite <- Hl'. clear - Hget. induction Hget as [|f x fs v Hx _ IH]; constructor; [|exact IH].
    intros ->. cbn [fprint] in Hx. apply l_get_none_iff. exact Hx.
  - exact Hget'.
Qed.

(* only typedness is needed for the part of update that does not read back *)
Theorem derive_update_frame fs v p : NoDup (map f_key fs) -> val_typed fs v ->
  exists p', update_paragraph fs v p = Some p' /\
    (forall k, ~ In k (map f_key fs) -> pl_get PL p' k = pl_get PL p k) /\
    not_owned_items fs (pl_items PL p') = not_owned_items fs (pl_items PL p) /\
    Forall2 (fun f x => pl_get PL p' (f_key f) = fprint f x) fs v.
Proof.
  intros Hnd Hty.
  destruct (l_update_spec fs v (pl_items PL p) Hnd Hty) as (l' & Hu & Hget & Hother & Hfilt).
  pose proof (update_paragraph_items fs v p) as Hh. destruct (update_paragraph fs v p) as [p'|]; [|congruence].
  rewrite Hu in Hh. injection Hh as Hl'. exists p'. split; [reflexivity|]. split; [|split].
  - intros k Hk. rewrite !(law_get _ laws), <- Hl'. apply Hother. exact Hk.
  - unfold not_owned_items. rewrite <- Hl'. apply (Hfilt (fun k => negb (owned fs k))).
    intros k Hk. apply negb_false_iff, owned_In. exact Hk.
  - clear - Hget Hl' laws. subst l'. induction Hget; constructor; [rewrite (law_get _ laws); assumption|assumption].
Qed.

(* errors name the field: the first field in declaration order that cannot be read *)
Theorem derive_missing a f b p : Forall (field_reads (pl_get PL p)) a ->
  f_opt f = false -> pl_get PL p (f_key f) = None ->
  from_paragraph (a ++ f :: b) p = DErr (Missing (f_key f)).
Proof.
  intros Ha Ho Hg. apply from_fields_first_error; [exact Ha|]. unfold Derive.from_field. rewrite Hg, Ho. reflexivity.
Qed.
Theorem derive_parse_error a f b p s : Forall (field_reads (pl_get PL p)) a ->
  pl_get PL p (f_key f) = Some s -> de (f_de f) s = None ->
  from_paragraph (a ++ f :: b) p = DErr (Parsing (f_key f)).
Proof.
  intros Ha Hg Hd. apply from_fields_first_error; [exact Ha|]. unfold Derive.from_field. rewrite Hg, Hd. reflexivity.
Qed.
Theorem derive_error_sound fs p e : from_paragraph fs p = DErr e ->
  exists a f b, fs = a ++ f :: b /\ Forall (field_reads (pl_get PL p)) a /\
    ((e = Missing (f_key f) /\ f_opt f = false /\ pl_get PL p (f_key f) = None) \/
     (e = Parsing (f_key f) /\ exists s, pl_get PL p (f_key f) = Some s /\ de (f_de f) s = None)).
Proof.
  intros H. destruct (from_fields_error_inv _ _ _ H) as (a & f & b & E1 & E2 & E3).
  exists a, f, b. split; [exact E1|]. split; [exact E2|]. apply from_field_error. exact E3.
Qed.
Theorem derive_total fs p : (exists v, from_paragraph fs p = DOk v) <-> Forall (field_reads (pl_get PL p)) fs.
Proof. apply from_fields_ok_iff. Qed.
End Backend.

(* ---- both back-ends behave alike: everything factors through pl_items ---- *)
Theorem derive_backend_independent PL1 PL2 : ParaLaws PL1 -> ParaLaws PL2 -> forall fs v,
  (match Derive.to_paragraph E ext_print PL1 fs v, Derive.to_paragraph E ext_print PL2 fs v with
   | Some p1, Some p2 => pl_items PL1 p1 = pl_items PL2 p2
   | None, None => True
   | _, _ => False
   end) /\
  (forall p1 p2, pl_items PL1 p1 = pl_items PL2 p2 ->
     Derive.from_paragraph E ext_parse PL1 fs p1 = Derive.from_paragraph E ext_parse PL2 fs p2 /\
     match Derive.update_paragraph E ext_print PL1 fs v p1, Derive.update_paragraph E ext_print PL2 fs v p2 with
     | Some q1, Some q2 => pl_items PL1 q1 = pl_items PL2 q2
     | None, None => True
     | _, _ => False
     end).
Proof.
  intros L1 L2 fs v. split.
  - unfold Derive.to_paragraph. destruct (to_items fs v); [|exact I]. rewrite (law_of_list _ L1), (law_of_list _ L2). reflexivity.
  - intros p1 p2 Hp. split.
    + rewrite (from_paragraph_items PL1 L1), (from_paragraph_items PL2 L2), Hp. reflexivity.
    + pose proof (update_paragraph_items PL1 L1 fs v p1) as H1. pose proof (update_paragraph_items PL2 L2 fs v p2) as H2.
      rewrite Hp in H1.
      destruct (Derive.update_paragraph E ext_print PL1 fs v p1), (Derive.update_paragraph E ext_print PL2 fs v p2); try congruence; exact I.
Qed.
End Ext.

(* ================================================================== 5. the lossy back-end satisfies the laws *)
Theorem lossy_laws : ParaLaws lossy_para_like.
Proof. constructor; reflexivity. Qed.

(* ================================================================== 6. the tree model of lossless::Paragraph satisfies the laws *)
Section TreeInd.
  Variable K : Type.
  Variable P : elem K -> Prop.
  Hypothesis Htok : forall k s, P (Tok k s).
  Hypothesis Hnode : forall k cs, Forall P cs -> P (Node k cs).
  Fixpoint elem_ind' (e : elem K) : P e :=
    match e with
    | Tok k s => Htok k s
    | Node k cs => Hnode k cs ((fix go (l : list (elem K)) : Forall P l :=
                                  match l with
                                  | [] => Forall_nil P
                                  | x :: r => Forall_cons x (elem_ind' x) (go r)
                                  end) cs)
    end.
End TreeInd.

(* the (name, value) a child of a PARAGRAPH node contributes to items() *)
Definition item_of (c : tree) : list (str * str) :=
  if is_node c && is_kind ENTRY c
  then match entry_key c with Some k => [(k, entry_value c)] | None => [] end
  else [].

Lemma flat_map_filter {A B} (f : A -> list B) (g : A -> bool) l :
  flat_map f (filter g l) = flat_map (fun x => if g x then f x else []) l.
Proof. induction l as [|x r IH]; [reflexivity|]. cbn [filter flat_map]. destruct (g x); cbn [flat_map]; rewrite IH; reflexivity. Qed.

Lemma ll_items_flat cs : ll_items cs = flat_map item_of cs.
Proof.
  unfold ll_items, items, entries, node_children_of_kind, ll_node. cbn [children].
  rewrite flat_map_filter. apply flat_map_ext. intros c. unfold item_of. reflexivity.
Qed.

Lemma is_entry_with_key_item k c :
  is_entry_with_key k c = match item_of c with [(n, _)] => str_eqb n k | _ => false end.
Proof.
  unfold is_entry_with_key, item_of. destruct (is_node c && is_kind ENTRY c); [|reflexivity].
  cbn [andb]. destruct (entry_key c); reflexivity.
Qed.
Lemma item_of_cases c : item_of c = [] \/ exists n v, item_of c = [(n, v)].
Proof.
  unfold item_of. destruct (is_node c && is_kind ENTRY c); [|left; reflexivity].
  destruct (entry_key c) as [n|]; [right; eexists; eexists; reflexivity|left; reflexivity].
Qed.

Lemma ll_get_items cs k : ll_get cs k = l_get (ll_items cs) k.
Proof.
  rewrite ll_items_flat. unfold ll_get, get, entries, node_children_of_kind, ll_node. cbn [children].
  induction cs as [|c r IH]; [reflexivity|]. cbn [filter flat_map]. unfold item_of at 1.
  destruct (is_node c && is_kind ENTRY c) eqn:Ec; [|exact IH]. cbn [filter].
  destruct (entry_key c) as [n|] eqn:Ek; cbn [opt_str_eqb app].
  - cbn [l_get]. destruct (str_eqb n k); [reflexivity|exact IH].
  - exact IH.
Qed.

(* ---- Entry::new ---- *)
Definition tok_texts (K : kind) (l : list tree) : list str :=
  flat_map (fun c => match c with Tok k' s => if kind_eqb k' K then [s] else [] | Node _ _ => [] end) l.
Lemma token_texts_children K e : token_texts_of_kind K e = tok_texts K (children e).
Proof. reflexivity. Qed.

Lemma tok_texts_cons K c l : tok_texts K (c :: l) =
  (match c with Tok k' s => if kind_eqb k' K then [s] else [] | Node _ _ => [] end) ++ tok_texts K l.
Proof. reflexivity. Qed.
Ltac kind_eqb_compute :=
  repeat match goal with
         | |- context [kind_eqb ?a ?b] =>
           is_constructor a; is_constructor b;
           let r := eval vm_compute in (kind_eqb a b) in change (kind_eqb a b) with r
         end.
Lemma value_lines_key b ls : tok_texts KEY (value_lines b ls) = [].
Proof.
  revert b. induction ls as [|l r IH]; intros b; [reflexivity|].
  destruct b; cbn [value_lines app]; rewrite !tok_texts_cons; kind_eqb_compute; cbn [app]; apply IH.
Qed.
Lemma value_lines_value b ls : tok_texts VALUE (value_lines b ls) = ls.
Proof.
  revert b. induction ls as [|l r IH]; intros b; [reflexivity|].
  destruct b; cbn [value_lines app]; rewrite !tok_texts_cons; kind_eqb_compute; cbn [app]; rewrite IH; reflexivity.
Qed.

Lemma item_of_new_entry k v : item_of (new_entry k v) = [(k, v)].
Proof.
  unfold item_of, new_entry. cbn [is_node is_kind ekind andb]. change (kind_eqb ENTRY ENTRY) with true. cbv iota.
  unfold entry_key, entry_value. rewrite !token_texts_children. cbn [children].
  assert (Hk : tok_texts KEY (Tok KEY k :: Tok COLON [58%N] :: Tok WHITESPACE [32%N] :: value_lines true (split_lf v)) = [k]).
  { rewrite !tok_texts_cons. kind_eqb_compute. cbn [app]. rewrite value_lines_key. reflexivity. }
  assert (Hv : tok_texts VALUE (Tok KEY k :: Tok COLON [58%N] :: Tok WHITESPACE [32%N] :: value_lines true (split_lf v)) = split_lf v).
  { rewrite !tok_texts_cons. kind_eqb_compute. cbn [app]. apply value_lines_value. }
  rewrite Hk, Hv. change [10%N] with [LF]. rewrite join_split_lf. reflexivity.
Qed.

Lemma ll_items_of_list l : ll_items (ll_of_list l) = l.
Proof.
  rewrite ll_items_flat. unfold ll_of_list. induction l as [|[k v] r IH]; [reflexivity|].
  cbn [map flat_map fst snd]. rewrite item_of_new_entry, IH. reflexivity.
Qed.

(* ---- list-level set with a known decomposition ---- *)
Lemma l_set_existing_decomp a k x b v : l_get a k = None ->
  l_set_existing (a ++ (k, x) :: b) k v = Some (a ++ (k, v) :: b).
Proof.
  induction a as [|[n y] r IH]; intros H; cbn [app l_set_existing].
  - rewrite str_eqb_refl. reflexivity.
  - cbn [l_get] in H. destruct (str_eqb n k); [discriminate|]. rewrite (IH H). reflexivity.
Qed.
Lemma l_set_existing_none l k v : l_get l k = None -> l_set_existing l k v = None.
Proof.
  induction l as [|[n y] r IH]; intros H; [reflexivity|]. cbn [l_set_existing]. cbn [l_get] in H.
  destruct (str_eqb n k); [discriminate|]. rewrite (IH H). reflexivity.
Qed.

Lemma items_no_key a k : forallb (fun x => negb (is_entry_with_key k x)) a = true -> l_get (flat_map item_of a) k = None.
Proof.
  induction a as [|c r IH]; [reflexivity|]. cbn [forallb flat_map]. intros H. apply andb_true_iff in H. destruct H as [Hc Hr].
  rewrite is_entry_with_key_item in Hc. destruct (item_of_cases c) as [E0|(n & v & E0)]; rewrite E0 in *; cbn [app].
  - apply IH. exact Hr.
  - cbn [l_get]. apply negb_true_iff in Hc. rewrite Hc. apply IH. exact Hr.
Qed.

Lemma replace_first_entry_spec cs k e :
  match replace_first_entry cs k e with
  | Some cs' => exists a c b, cs = a ++ c :: b /\ cs' = a ++ e :: b /\ is_entry_with_key k c = true /\
                              forallb (fun x => negb (is_entry_with_key k x)) a = true
  | None => forallb (fun x => negb (is_entry_with_key k x)) cs = true
  end.
Proof.
  induction cs as [|c r IH]; [reflexivity|]. cbn [replace_first_entry forallb].
  destruct (is_entry_with_key k c) eqn:Ec.
  - exists [], c, r. repeat split. exact Ec.
  - destruct (replace_first_entry r k e) as [r'|].
    + destruct IH as (a & c0 & b & E1 & E2 & E3 & E4). exists (c :: a), c0, b. subst. repeat split; [exact E3|].
      cbn [forallb]. rewrite Ec, E4. reflexivity.
    + cbn [negb andb]. exact IH.
Qed.

(* ---- ensure_trailing_newline does not change what items() reports ---- *)
Lemma ensure_nl_children_eq k cs : children (ensure_nl (Node k cs)) = ensure_nl_children cs.
Proof. reflexivity. Qed.
Lemma ensure_nl_children_nil : ensure_nl_children [] = [].
Proof. reflexivity. Qed.
Lemma ensure_nl_children_one x : ensure_nl_children [x] =
  match x with
  | Tok k' _ => if kind_eqb k' NEWLINE then [x] else [x; Tok NEWLINE [10%N]]
  | Node _ _ => [ensure_nl x]
  end.
Proof. destruct x; reflexivity. Qed.
Lemma ensure_nl_children_cons x y r : ensure_nl_children (x :: y :: r) = x :: ensure_nl_children (y :: r).
Proof. reflexivity. Qed.
Lemma ensure_nl_node k cs : ensure_nl (Node k cs) = Node k (ensure_nl_children cs).
Proof. reflexivity. Qed.

Lemma tok_texts_ensure K cs : kind_eqb NEWLINE K = false -> tok_texts K (ensure_nl_children cs) = tok_texts K cs.
Proof.
  intros HK. induction cs as [|x r IH]; [reflexivity|]. destruct r as [|y r'].
  - rewrite ensure_nl_children_one. destruct x as [k' s|k' cs']; [|reflexivity].
    destruct (kind_eqb k' NEWLINE); [reflexivity|]. rewrite !tok_texts_cons, HK. reflexivity.
  - rewrite ensure_nl_children_cons, !(tok_texts_cons K x), IH. reflexivity.
Qed.

Lemma item_of_ensure x : item_of (ensure_nl x) = item_of x.
Proof.
  destruct x as [k s|k cs]; [reflexivity|]. rewrite ensure_nl_node. unfold item_of.
  cbn [is_node is_kind ekind]. unfold entry_key, entry_value. rewrite !token_texts_children. cbn [children].
  rewrite !tok_texts_ensure by reflexivity. reflexivity.
Qed.

Lemma items_ensure cs : flat_map item_of (ensure_nl_children cs) = flat_map item_of cs.
Proof.
  induction cs as [|x r IH]; [reflexivity|]. destruct r as [|y r'].
  - rewrite ensure_nl_children_one. destruct x as [k' s|k' cs'].
    + destruct (kind_eqb k' NEWLINE); reflexivity.
    + cbn [flat_map]. rewrite item_of_ensure. reflexivity.
  - rewrite ensure_nl_children_cons. cbn [flat_map]. rewrite IH. reflexivity.
Qed.

Lemma forallb_ensure k cs : forallb (fun x => negb (is_entry_with_key k x)) cs = true ->
  l_get (flat_map item_of (ensure_nl_children cs)) k = None.
Proof. intros H. rewrite items_ensure. apply items_no_key. exact H. Qed.

Lemma ll_items_set sk cs k v : ll_items (ll_set sk cs k v) = l_set (ll_items cs) k v.
Proof.
  rewrite !ll_items_flat. unfold ll_set.
  pose proof (replace_first_entry_spec cs k (new_entry k v)) as H.
  destruct (replace_first_entry cs k (new_entry k v)) as [cs'|].
  - destruct H as (a & c & b & E1 & E2 & E3 & E4). subst cs cs'. rewrite !flat_map_app. cbn [flat_map].
    rewrite item_of_new_entry. rewrite is_entry_with_key_item in E3.
    destruct (item_of_cases c) as [E0|(n & x & E0)]; rewrite E0 in E3; [discriminate|].
    apply str_eqb_eq in E3. subst n. rewrite E0. cbn [app]. unfold l_set.
    rewrite l_set_existing_decomp by (apply items_no_key; exact E4). reflexivity.
  - assert (Hn : l_get (flat_map item_of cs) k = None) by (apply items_no_key; exact H).
    unfold l_set. rewrite (l_set_existing_none _ _ _ Hn). unfold l_insert.
    destruct sk; rewrite flat_map_app; cbn [flat_map]; rewrite item_of_new_entry, ?items_ensure, app_nil_r; reflexivity.
Qed.

Lemma ll_items_remove_all cs k :
  ll_items (filter (fun c => negb (is_entry_with_key k c)) cs) = l_remove (ll_items cs) k.
Proof.
  rewrite !ll_items_flat. unfold l_remove. induction cs as [|c r IH]; [reflexivity|]. cbn [filter flat_map].
  rewrite filter_app, <- IH. rewrite is_entry_with_key_item.
  destruct (item_of_cases c) as [E0|(n & x & E0)]; rewrite E0; cbn [negb filter app flat_map fst].
  - rewrite E0. reflexivity.
  - destruct (str_eqb n k); cbn [negb]; [reflexivity|]. cbn [flat_map]. rewrite E0. reflexivity.
Qed.

Theorem lossless_laws sk rk : ll_variants_ok sk rk = true -> ParaLaws (lossless_para_like sk rk).
Proof.
  intros Hv. constructor; cbn [pl_get pl_set pl_remove pl_of_list pl_items pl_T lossless_para_like].
  - apply ll_get_items.
  - intros p k v. apply ll_items_set.
  - intros p k. destruct rk; try (destruct sk; discriminate). apply ll_items_remove_all.
  - apply ll_items_of_list.
Qed.

(* the variant of remove the code had before 392c6dc does NOT satisfy the remove law *)
Lemma lossless_remove_first_refuted :
  let p := ll_of_list [([65], [49]); ([65], [50])]%N in
  ll_get (ll_remove LlRemoveFirst p [65%N]) [65%N] = Some [50%N].
Proof. vm_compute. reflexivity. Qed.

(* ================================================================== 7. layout: comments and the text of foreign fields *)
(* A piece of a printed paragraph: (the field it belongs to, if any; its text).  Over an update the
   foreign pieces keep their order, label and text, except that line ends may be appended to a piece
   and pieces consisting of line ends only may appear (the lossless set() terminates an
   unterminated last line before it appends a field). *)
Notation piece := (option str * str)%type.
Definition piece_ext (x y : piece) : Prop := fst x = fst y /\ exists n, snd y = snd x ++ repeat LF n.
Definition lf_piece (y : piece) : Prop := fst y = None /\ exists n, snd y = repeat LF n.
Inductive lay_rel : list piece -> list piece -> Prop :=
| lr_nil : lay_rel [] []
| lr_keep x y l l' : piece_ext x y -> lay_rel l l' -> lay_rel (x :: l) (y :: l')
| lr_ins y l l' : lf_piece y -> lay_rel l l' -> lay_rel l (y :: l').

Lemma piece_ext_refl x : piece_ext x x.
Proof. split; [reflexivity|]. exists 0. cbn. rewrite app_nil_r. reflexivity. Qed.
Lemma piece_ext_trans x y z : piece_ext x y -> piece_ext y z -> piece_ext x z.
Proof.
  intros [H1 (n & Hn)] [H2 (m & Hm)]. split; [congruence|]. exists (n + m). rewrite Hm, Hn, <- app_assoc, repeat_app. reflexivity.
Qed.
Lemma lf_piece_ext x y : lf_piece x -> piece_ext x y -> lf_piece y.
Proof.
  intros [H1 (n & Hn)] [H2 (m & Hm)]. split; [congruence|]. exists (n + m). rewrite Hm, Hn, repeat_app. reflexivity.
Qed.
Lemma lay_rel_refl l : lay_rel l l.
Proof. induction l; [constructor|apply lr_keep; [apply piece_ext_refl|assumption]]. Qed.
Lemma lay_rel_trans b c : lay_rel b c -> forall a, lay_rel a b -> lay_rel a c.
Proof.
  induction 1 as [|x y b c Hxy _ IH|y b c Hy _ IH]; intros a H1.
  - exact H1.
  - inversion H1 as [|x0 ? a' ? Hx0 Ha'|? ? ? Hlf Ha']; subst.
    + apply lr_keep; [eapply piece_ext_trans; eassumption|apply IH; exact Ha'].
    + apply lr_ins; [eapply lf_piece_ext; eassumption|apply IH; exact Ha'].
  - apply lr_ins; [exact Hy|apply IH; exact H1].
Qed.
Lemma lay_rel_app a a' b b' : lay_rel a a' -> lay_rel b b' -> lay_rel (a ++ b) (a' ++ b').
Proof. induction 1; intros Hb; cbn [app]; [exact Hb|apply lr_keep; auto|apply lr_ins; auto]. Qed.

Record LayoutLaws (PL : ParaLike) (render : str -> str -> str) : Prop := mk_layout_laws {
  law_lay_set : forall p k v,
    match lay_set_existing (pl_layout PL p) k (render k v) with
    | Some l => pl_layout PL (pl_set PL p k v) = l
    | None => exists l0, lay_rel (pl_layout PL p) l0 /\
                         pl_layout PL (pl_set PL p k v) = l0 ++ [(Some k, render k v)]
    end;
  law_lay_remove : forall p k, pl_layout PL (pl_remove PL p k) = lay_remove (pl_layout PL p) k }.

Section LayoutSteps.
Variable G : option str -> bool.
Notation keep := (fun x : piece => G (fst x)).

Lemma lab_is_label k (x : piece) : lab_is k x = true -> fst x = Some k.
Proof.
  unfold lab_is. destruct x as [[n|] t]; cbn [fst opt_str_eqb]; [|discriminate]. intros H. apply str_eqb_eq in H. congruence.
Qed.

Lemma filter_lay_set_existing l k t l' : G (Some k) = false -> lay_set_existing l k t = Some l' ->
  filter keep l' = filter keep l.
Proof.
  intros HG. revert l'. induction l as [|x r IH]; intros l' H; cbn [lay_set_existing] in H; [discriminate|].
  destruct (lab_is k x) eqn:El.
  - injection H as <-. cbn [filter fst]. rewrite (lab_is_label _ _ El), HG. reflexivity.
  - destruct (lay_set_existing r k t) as [r'|]; [|discriminate]. injection H as <-. cbn [filter]. rewrite (IH r' eq_refl). reflexivity.
Qed.
Lemma filter_lay_remove l k : G (Some k) = false -> filter keep (lay_remove l k) = filter keep l.
Proof.
  intros HG. unfold lay_remove. induction l as [|x r IH]; [reflexivity|]. cbn [filter].
  destruct (lab_is k x) eqn:El; cbn [negb].
  - rewrite (lab_is_label _ _ El), HG. exact IH.
  - cbn [filter]. rewrite IH. reflexivity.
Qed.
Lemma lay_rel_filter l l0 : lay_rel l l0 -> lay_rel (filter keep l) (filter keep l0).
Proof.
  induction 1 as [|x y l l0 [Hl Ht] _ IH|y l l0 Hy _ IH]; [constructor| |]; cbn [filter].
  - rewrite <- Hl. destruct (G (fst x)); [apply lr_keep; [split; assumption|exact IH]|exact IH].
  - destruct (G (fst y)); [apply lr_ins; assumption|exact IH].
Qed.
End LayoutSteps.

Section LayoutThm.
Variable E : Type.
Variable ext_print : N -> E -> str.
Variable PL : ParaLike.
Variable render : str -> str -> str.
Hypothesis lay : LayoutLaws PL render.

Lemma update_layout_gen (G : option str -> bool) fs : forall (v : list (option (uval E))) p p',
  (forall f, In f fs -> G (Some (f_key f)) = false) ->
  update_paragraph E ext_print PL fs v p = Some p' ->
  lay_rel (filter (fun x => G (fst x)) (pl_layout PL p)) (filter (fun x => G (fst x)) (pl_layout PL p')).
Proof.
  induction fs as [|f r IH]; intros [|x xs] p p' HG H; cbn [update_paragraph] in H; try discriminate.
  - injection H as <-. apply lay_rel_refl.
  - assert (HGf : G (Some (f_key f)) = false) by (apply HG; left; reflexivity).
    assert (HGr : forall g, In g r -> G (Some (f_key g)) = false) by (intros g Hg; apply HG; right; exact Hg).
    destruct x as [u|].
    + destruct (ser E ext_print (f_ser f) u) as [s|]; [|discriminate].
      eapply lay_rel_trans; [apply (IH xs _ _ HGr H)|].
      pose proof (law_lay_set _ _ lay p (f_key f) s) as Hs.
      destruct (lay_set_existing (pl_layout PL p) (f_key f) (render (f_key f) s)) as [l|] eqn:El.
      * rewrite Hs, (filter_lay_set_existing G _ _ _ _ HGf El). apply lay_rel_refl.
      * destruct Hs as (l0 & H0 & ->). rewrite filter_app. cbn [filter fst]. rewrite HGf, app_nil_r.
        apply lay_rel_filter. exact H0.
    + destruct (f_opt f); [|discriminate].
      eapply lay_rel_trans; [apply (IH xs _ _ HGr H)|].
      rewrite (law_lay_remove _ _ lay), (filter_lay_remove G _ _ HGf). apply lay_rel_refl.
Qed.

(* pieces that are comments / separators (no label) or belong to a field the struct does not own *)
Definition foreign_piece (fs : list fieldspec) (x : piece) : bool :=
  match fst x with Some k => negb (owned fs k) | None => true end.

Theorem derive_update_layout fs v p p' : update_paragraph E ext_print PL fs v p = Some p' ->
  lay_rel (filter (foreign_piece fs) (pl_layout PL p)) (filter (foreign_piece fs) (pl_layout PL p')).
Proof.
  intros H. apply (update_layout_gen (fun o => match o with Some k => negb (owned fs k) | None => true end) fs v p p'); [|exact H].
  intros f Hf. apply negb_false_iff, owned_In, in_map. exact Hf.
Qed.
End LayoutThm.

(* ---- the lossy paragraph: each field is one piece, printed by Display for Field ---- *)
Lemma lossy_lay_set_existing p k v :
  lay_set_existing (pl_layout lossy_para_like p) k (print_field (k, v)) =
  match l_set_existing p k v with Some p' => Some (pl_layout lossy_para_like p') | None => None end.
Proof.
  cbn [pl_layout lossy_para_like]. induction p as [|[n x] r IH]; [reflexivity|].
  cbn [map lay_set_existing l_set_existing fst]. unfold lab_is at 1. cbn [fst opt_str_eqb].
  destruct (str_eqb n k) eqn:En.
  - apply str_eqb_eq in En. subst n. reflexivity.
  - rewrite IH. destruct (l_set_existing r k v); reflexivity.
Qed.
Theorem lossy_layout_laws : LayoutLaws lossy_para_like (fun k v => print_field (k, v)).
Proof.
  constructor.
  - intros p k v. rewrite lossy_lay_set_existing. cbn [pl_set lossy_para_like]. unfold l_set.
    destruct (l_set_existing p k v) as [p'|]; [reflexivity|].
    exists (pl_layout lossy_para_like p). split; [apply lay_rel_refl|].
    cbn [pl_layout lossy_para_like]. unfold l_insert. rewrite map_app. reflexivity.
  - intros p k. cbn [pl_layout pl_remove lossy_para_like]. unfold l_remove, lay_remove.
    induction p as [|[n x] r IH]; [reflexivity|]. cbn [filter map fst]. unfold lab_is at 1. cbn [fst opt_str_eqb].
    destruct (str_eqb n k); cbn [negb]; [exact IH|]. cbn [map]. rewrite IH. reflexivity.
Qed.

(* ---- the lossless paragraph: each child of the PARAGRAPH node is one piece ---- *)
Definition ll_piece (c : tree) : piece := (if is_node c && is_kind ENTRY c then entry_key c else None, text c).
Lemma ll_layout_map cs : ll_layout cs = map ll_piece cs.
Proof. reflexivity. Qed.
Lemma lab_is_ll_piece k c : lab_is k (ll_piece c) = is_entry_with_key k c.
Proof.
  unfold lab_is, ll_piece, is_entry_with_key. cbn [fst]. destruct (is_node c && is_kind ENTRY c); reflexivity.
Qed.
Lemma entry_key_new_entry k v : entry_key (new_entry k v) = Some k.
Proof.
  unfold entry_key, new_entry. rewrite token_texts_children. cbn [children].
  rewrite !tok_texts_cons. kind_eqb_compute. cbn [app]. reflexivity.
Qed.
Lemma ll_piece_new_entry k v : ll_piece (new_entry k v) = (Some k, text (new_entry k v)).
Proof. unfold ll_piece. rewrite entry_key_new_entry. reflexivity. Qed.

Lemma ensure_nl_text : forall e : tree, exists n, text (ensure_nl e) = text e ++ repeat LF n.
Proof.
  apply (elem_ind' kind (fun e => exists n, text (ensure_nl e) = text e ++ repeat LF n)).
  - intros k s. exists 0. cbn. rewrite app_nil_r. reflexivity.
  - intros k cs IH. rewrite ensure_nl_node, !text_node. induction cs as [|x r IHr]; [exists 0; reflexivity|].
    inversion IH as [|? ? Hx Hr]; subst. destruct r as [|y r'].
    + rewrite ensure_nl_children_one. destruct x as [k' s|k' cs'].
      * destruct (kind_eqb k' NEWLINE); [exists 0; rewrite app_nil_r; reflexivity|].
        exists 1. unfold texts. cbn [flat_map text repeat]. rewrite !app_nil_r. reflexivity.
      * destruct Hx as (n & Hn). exists n. unfold texts. cbn [flat_map]. rewrite !app_nil_r. exact Hn.
    + rewrite ensure_nl_children_cons. destruct (IHr Hr) as (n & Hn). exists n.
      rewrite (texts_cons x), (texts_cons x (y :: r')), Hn, app_assoc. reflexivity.
Qed.
Lemma ll_piece_ensure x : piece_ext (ll_piece x) (ll_piece (ensure_nl x)).
Proof.
  split.
  - destruct x as [k s|k cs]; [reflexivity|]. rewrite ensure_nl_node. unfold ll_piece. cbn [fst is_node is_kind ekind].
    unfold entry_key. rewrite !token_texts_children. cbn [children]. rewrite tok_texts_ensure by reflexivity. reflexivity.
  - unfold ll_piece. cbn [snd]. apply ensure_nl_text.
Qed.
Lemma ll_layout_ensure cs : lay_rel (ll_layout cs) (ll_layout (ensure_nl_children cs)).
Proof.
  rewrite !ll_layout_map. induction cs as [|x r IH]; [constructor|]. destruct r as [|y r'].
  - rewrite ensure_nl_children_one. destruct x as [k' s|k' cs'].
    + destruct (kind_eqb k' NEWLINE) eqn:Ek; [apply lay_rel_refl|].
      cbn [map]. apply lr_keep; [apply piece_ext_refl|]. apply lr_ins; [|constructor].
      split; [reflexivity|]. exists 1. reflexivity.
    + cbn [map]. apply lr_keep; [apply ll_piece_ensure|constructor].
  - rewrite ensure_nl_children_cons. cbn [map] in *. apply lr_keep; [apply piece_ext_refl|exact IH].
Qed.

Lemma ll_lay_set_existing_some a c b k t : is_entry_with_key k c = true ->
  forallb (fun x => negb (is_entry_with_key k x)) a = true ->
  lay_set_existing (map ll_piece (a ++ c :: b)) k t = Some (map ll_piece a ++ (Some k, t) :: map ll_piece b).
Proof.
  intros Hc. induction a as [|x a IH]; intros Ha; cbn [app map lay_set_existing].
  - rewrite lab_is_ll_piece, Hc. reflexivity.
  - cbn [forallb] in Ha. apply andb_true_iff in Ha. destruct Ha as [Hx Ha]. apply negb_true_iff in Hx.
    rewrite lab_is_ll_piece, Hx, (IH Ha). reflexivity.
Qed.
Lemma ll_lay_set_existing_none cs k t : forallb (fun x => negb (is_entry_with_key k x)) cs = true ->
  lay_set_existing (map ll_piece cs) k t = None.
Proof.
  induction cs as [|x r IH]; intros H; [reflexivity|]. cbn [forallb] in H. apply andb_true_iff in H. destruct H as [Hx Hr].
  apply negb_true_iff in Hx. cbn [map lay_set_existing]. rewrite lab_is_ll_piece, Hx, (IH Hr). reflexivity.
Qed.

Theorem lossless_layout_laws sk rk : ll_variants_ok sk rk = true ->
  LayoutLaws (lossless_para_like sk rk) (fun k v => text (new_entry k v)).
Proof.
  intros Hv. constructor; cbn [pl_layout pl_set pl_remove pl_T lossless_para_like].
  - intros cs k v. rewrite !ll_layout_map. unfold ll_set.
    pose proof (replace_first_entry_spec cs k (new_entry k v)) as H.
    destruct (replace_first_entry cs k (new_entry k v)) as [cs'|].
    + destruct H as (a & c & b & E1 & E2 & E3 & E4). subst cs cs'.
      rewrite (ll_lay_set_existing_some _ _ _ _ _ E3 E4). rewrite ll_layout_map, map_app. cbn [map]. rewrite ll_piece_new_entry. reflexivity.
    + rewrite (ll_lay_set_existing_none _ _ _ H).
      destruct sk; try discriminate.
      * exists (map ll_piece cs). split; [apply lay_rel_refl|]. rewrite ll_layout_map, map_app. cbn [map]. rewrite ll_piece_new_entry. reflexivity.
      * exists (map ll_piece (ensure_nl_children cs)). split; [rewrite <- !ll_layout_map; apply ll_layout_ensure|].
        rewrite ll_layout_map, map_app. cbn [map]. rewrite ll_piece_new_entry. reflexivity.
  - intros cs k. destruct rk; try (destruct sk; discriminate). cbn [ll_remove]. rewrite (ll_layout_map cs), (ll_layout_map (filter _ cs)). unfold lay_remove.
    induction cs as [|x r IH]; [reflexivity|]. cbn [filter map]. rewrite lab_is_ll_piece.
    destruct (is_entry_with_key k x); cbn [negb]; [exact IH|]. cbn [map]. rewrite IH. reflexivity.
Qed.

(* the printed paragraph is the concatenation of the pieces *)
Lemma lossless_text cs : pl_text (lossless_para_like LlSetEnsureNl LlRemoveAll) cs = text (ll_node cs).
Proof.
  unfold pl_text, ll_node. cbn [pl_layout lossless_para_like]. rewrite ll_layout_map, text_node.
  induction cs as [|x r IH]; [reflexivity|]. cbn [map flat_map snd ll_piece]. rewrite IH, texts_cons. reflexivity.
Qed.
Lemma lossy_text p : pl_text lossy_para_like p = print_para p.
Proof.
  unfold pl_text, print_para. cbn [pl_layout lossy_para_like]. induction p as [|f r IH]; [reflexivity|].
  cbn [map flat_map snd]. rewrite IH. reflexivity.
Qed.

(* ================================================================== 8. what the decidable table check gives *)
Lemma ok_struct_nodup s : ok_struct s = true -> NoDup (map f_key (s_fields s)).
Proof. unfold ok_struct. intros H. apply andb_true_iff in H. apply nodup_keys_NoDup. apply H. Qed.

Lemma ok_struct_pairs s : ok_struct s = true -> s_from s = true -> s_to s = true ->
  Forall (fun f => rt_pair (f_ser f) (f_de f) = true) (s_fields s).
Proof.
  unfold ok_struct. intros H Hf Ht. apply andb_true_iff in H. destruct H as [_ H]. rewrite Hf, Ht in H.
  apply Forall_forall. intros f Hin. rewrite forallb_forall in H. specialize (H f Hin).
  unfold ok_field in H. cbn [negb andb orb] in H. apply andb_true_iff in H. apply H.
Qed.
Lemma ok_struct_recognised s : ok_struct s = true ->
  Forall (fun f => (s_to s = true -> f_ser f <> SUnrecognised) /\ (s_from s = true -> f_de f <> DUnrecognised)) (s_fields s).
Proof.
  unfold ok_struct. intros H. apply andb_true_iff in H. destruct H as [_ H].
  apply Forall_forall. intros f Hin. rewrite forallb_forall in H. specialize (H f Hin).
  unfold ok_field in H. apply andb_true_iff in H. destruct H as [H _]. apply andb_true_iff in H. destruct H as [H1 H2].
  split; intros Hs; rewrite Hs in *; cbn [negb orb] in *; intros E0; rewrite E0 in *; discriminate.
Qed.

(* an accepted pair has representable values (the table check does not make the theorems vacuous) *)
Lemma rt_pair_inhabited (E : Type) (ext_dom : N -> E -> Prop) s d :
  rt_pair s d = true -> (forall i, exists e, ext_dom i e) -> exists v : uval E, val_dom E ext_dom s d v.
Proof.
  intros H Hext. destruct s, d; cbn in H; try discriminate.
  - exists (VStr []). exact I.
  - exists (VBool true). exact I.
  - exists (VBool true). exact I.
  - exists (VBool true). exact I.
  - exists (VNum 0). cbn. apply N.neq_0_lt_0. apply N.pow_nonzero. discriminate.
  - exists (VInt 0). cbn. unfold int_in_range.
    assert (0 < 2 ^ (bits - 1))%N by (apply N.neq_0_lt_0; apply N.pow_nonzero; discriminate). lia.
  - exists (VList []). reflexivity.
  - exists (VList []). reflexivity.
  - exists (VList [[]]). cbn. split; [discriminate|reflexivity].
  - exists (VList []). cbn. split; [reflexivity|discriminate].
  - exists (VList []). cbn. split; [reflexivity|discriminate].
  - apply N.eqb_eq in H. subst id0. destruct (Hext id) as (e & He). exists (VExt e). cbn. split; [reflexivity|exact He].
Qed.

(* the pair the apt-sources PDiffs field has (default ToString, deserialize_yesno) never round-trips *)
Lemma bool_yesno_pair_refuted (E : Type) ext_print ext_parse b :
  exists t, ser E ext_print SBool (VBool b) = Some t /\ de E ext_parse DYesNo t = None.
Proof. destruct b; eexists; split; reflexivity. Qed.

(* the round trip alone, under the name DESIGN.md uses *)
Theorem derive_rt (E : Type) ext_print ext_parse ext_dom (PL : ParaLike) : ParaLaws PL ->
  forall fs (v : list (option (uval E))),
  ext_rt_law E ext_print ext_parse ext_dom -> NoDup (map f_key fs) -> val_ok E ext_dom fs v ->
  exists p, to_paragraph E ext_print PL fs v = Some p /\ from_paragraph E ext_parse PL fs p = DOk v.
Proof.
  intros HL fs v Hext Hnd Hok. destruct (derive_rt_order E ext_print ext_parse ext_dom PL HL fs v Hext Hnd Hok) as (p & H1 & H2 & _).
  exists p. split; assumption.
Qed.
