(* C16: lemmas about the model of the derive macros (model/Derive.v). *)
From Coq Require Import ZArith Decimal DecimalPos DecimalN DecimalZ.
From V.model Require Import Base Deb822Lex Deb822Parse Grammar Lossy LossySpec Derive.
From V.proofs Require Import BaseP LossyRtP.
Set Default Timeout 60.

(* ================================================================== 1. std functions of the codecs *)
(* ---- decimal numerals ---- *)
Lemma chars_uint_chars u : chars_uint (uint_chars u) = Some u.
Proof. induction u; cbn [uint_chars chars_uint]; try reflexivity; rewrite IHu; reflexivity. Qed.

Definition is_digit (c : N) : bool := (48 <=? c)%N && (c <=? 57)%N.
Lemma uint_chars_digits u : forallb is_digit (uint_chars u) = true.
Proof. induction u; cbn [uint_chars forallb]; try reflexivity; rewrite IHu; reflexivity. Qed.
Lemma uint_chars_nonnil u : u <> Nil -> uint_chars u <> [].
Proof. destruct u; cbn; congruence. Qed.

Lemma N_to_uint_nonnil n : N.to_uint n <> Nil.
Proof. destruct n as [|p]; cbn; [discriminate|apply Unsigned.to_uint_nonnil]. Qed.

(* stripping an optional sign leaves a digit string untouched *)
Lemma digits_no_sign s : forallb is_digit s = true ->
  match s with 43%N :: (_ :: _) as r => r | _ => s end = s.
Proof.
  destruct s as [|c r]; [reflexivity|]. cbn [forallb]. intros H. apply andb_true_iff in H. destruct H as [Hc _].
  unfold is_digit in Hc. destruct c as [|p]; [reflexivity|].
  repeat (match goal with |- context [match ?q with xI _ => _ | xO _ => _ | xH => _ end] => is_var q; destruct q end);
    try reflexivity; vm_compute in Hc; discriminate.
Qed.

Lemma parse_print_dec bits n : (n < 2 ^ bits)%N -> parse_udec bits (print_dec n) = Some n.
Proof.
  intros Hn. unfold parse_udec, print_dec.
  rewrite (digits_no_sign _ (uint_chars_digits _)).
  pose proof (uint_chars_nonnil _ (N_to_uint_nonnil n)) as Hne.
  destruct (uint_chars (N.to_uint n)) as [|c r] eqn:Ec; [congruence|]. rewrite <- Ec.
  rewrite chars_uint_chars. cbv zeta. rewrite DecimalN.Unsigned.of_to.
  apply N.ltb_lt in Hn. rewrite Hn. reflexivity.
Qed.

Lemma digits_no_sign2 s : forallb is_digit s = true ->
  match s with
  | 43%N :: (_ :: _) as r => (false, r)
  | 45%N :: (_ :: _) as r => (true, r)
  | _ => (false, s)
  end = (false, s).
Proof.
  destruct s as [|c r]; [reflexivity|]. cbn [forallb]. intros H. apply andb_true_iff in H. destruct H as [Hc _].
  unfold is_digit in Hc. destruct c as [|p]; [reflexivity|].
  repeat (match goal with |- context [match ?q with xI _ => _ | xO _ => _ | xH => _ end] => is_var q; destruct q end);
    try reflexivity; vm_compute in Hc; discriminate.
Qed.

Definition int_in_range (bits : N) (z : Z) : Prop := (- Z.of_N (2 ^ (bits - 1)) <= z < Z.of_N (2 ^ (bits - 1)))%Z.

Lemma parse_print_int bits z : int_in_range bits z -> parse_int bits (print_int z) = Some z.
Proof.
  intros [Hlo Hhi]. unfold parse_int, print_int.
  assert (Hz : Z.of_int (Z.to_int z) = z) by apply DecimalZ.of_to.
  destruct (Z.to_int z) as [u|u] eqn:Eu.
  - assert (Hu : u <> Nil).
    { destruct z as [|p|p]; cbn in Eu; inversion Eu; [discriminate|apply Unsigned.to_uint_nonnil]. }
    rewrite (digits_no_sign2 _ (uint_chars_digits _)).
    pose proof (uint_chars_nonnil _ Hu) as Hne.
    destruct (uint_chars u) as [|c r] eqn:Ec; [congruence|]. rewrite <- Ec.
    rewrite chars_uint_chars. cbv zeta. rewrite Hz.
    apply Z.leb_le in Hlo. apply Z.ltb_lt in Hhi. rewrite Hlo, Hhi. reflexivity.
  - assert (Hu : u <> Nil).
    { destruct z as [|p|p]; cbn in Eu; inversion Eu. apply Unsigned.to_uint_nonnil. }
    pose proof (uint_chars_nonnil _ Hu) as Hne.
    destruct (uint_chars u) as [|c r] eqn:Ec; [congruence|].
    change (match 45%N :: c :: r with
            | 43%N :: (_ :: _) as r0 => (false, r0)
            | 45%N :: (_ :: _) as r0 => (true, r0)
            | _ => (false, 45%N :: c :: r)
            end) with (true, c :: r).
    cbv iota beta. rewrite <- Ec. rewrite chars_uint_chars. cbv zeta. rewrite Hz.
    apply Z.leb_le in Hlo. apply Z.ltb_lt in Hhi. rewrite Hlo, Hhi. reflexivity.
Qed.

(* ---- split_whitespace ∘ join " " ---- *)
Definition ws_free (s : str) : bool := forallb (fun c => negb (is_ws c)) s.
Definition ws_item (s : str) : bool := match s with [] => false | _ => ws_free s end.

Lemma split_ws_go_app l : forall s acc, ws_free l = true -> split_ws_go (l ++ s) acc = split_ws_go s (acc ++ l).
Proof.
  induction l as [|c r IH]; intros s acc H; [rewrite app_nil_r; reflexivity|].
  cbn [ws_free forallb] in H. apply andb_true_iff in H. destruct H as [Hc Hr]. apply negb_true_iff in Hc.
  cbn [app split_ws_go]. rewrite Hc, (IH s (acc ++ [c]) Hr), <- app_assoc. reflexivity.
Qed.

Lemma split_ws_join l : forallb ws_item l = true -> split_ws (join [32%N] l) = l.
Proof.
  unfold split_ws. induction l as [|x r IH]; [reflexivity|]. intros H.
  cbn [forallb] in H. apply andb_true_iff in H. destruct H as [Hx Hr].
  assert (Hne : x <> []) by (destruct x; [discriminate|congruence]).
  assert (Hf : ws_free x = true) by (destruct x; [discriminate|exact Hx]).
  destruct r as [|y r'].
  - cbn [join]. rewrite <- (app_nil_r x) at 1. rewrite split_ws_go_app by exact Hf.
    cbn [split_ws_go app]. destruct x; [congruence|reflexivity].
  - rewrite join_cons2 by discriminate. rewrite split_ws_go_app by exact Hf.
    cbn [app split_ws_go]. change (is_ws 32) with true. cbv iota.
    destruct x as [|c x']; [congruence|]. cbn [app]. rewrite IH by exact Hr. reflexivity.
Qed.

(* ---- split('\n') ∘ join "\n" ---- *)
Lemma split_lf_join_nolf ls : ls <> [] -> forallb no_lf ls = true -> split_lf (join [LF] ls) = ls.
Proof.
  unfold split_lf. induction ls as [|l r IH]; [congruence|]. intros _ H.
  cbn [forallb] in H. apply andb_true_iff in H. destruct H as [Hl Hr].
  destruct r as [|l2 r2].
  - cbn [join]. rewrite <- (app_nil_r l) at 1. rewrite split_lf_go_app by exact Hl. reflexivity.
  - rewrite join_cons2 by discriminate. rewrite split_lf_go_app by exact Hl.
    cbn [app split_lf_go]. change (LF =? 10)%N with true. cbv iota. rewrite IH; [reflexivity|discriminate|exact Hr].
Qed.
