(* Lemmas about the std string / integer function models of CodecStr.v (C18). *)
From V.model Require Import Base CodecStr.
From V.proofs Require Import BaseP.

Local Open Scope N_scope.

(* ------------------------------------------------------------------ string equality *)
Lemma str_eqb_refl (s : str) : str_eqb s s = true.
Proof.
  unfold str_eqb. induction s as [|c r IH]; cbn [list_eqb]; [reflexivity|].
  rewrite N.eqb_refl, IH. reflexivity.
Qed.

Lemma str_eqb_eq (a b : str) : str_eqb a b = true <-> a = b.
Proof.
  split.
  - unfold str_eqb. revert b. induction a as [|x a IH]; intros [|y b] H; cbn [list_eqb] in H;
      try discriminate; [reflexivity|].
    apply andb_prop in H. destruct H as [Hx Hr]. apply N.eqb_eq in Hx. subst y.
    f_equal. apply IH. exact Hr.
  - intros ->. apply str_eqb_refl.
Qed.

Lemma str_eqb_neq (a b : str) : str_eqb a b = false <-> a <> b.
Proof.
  split.
  - intros H E. apply str_eqb_eq in E. congruence.
  - intros H. destruct (str_eqb a b) eqn:E; [|reflexivity]. apply str_eqb_eq in E. contradiction.
Qed.

(* ------------------------------------------------------------------ tokens *)
Definition nows (t : str) : bool := forallb (fun c => negb (is_ws c)) t.
Definition is_token (t : str) : bool := negb (is_empty t) && nows t.

Lemma nows_app (a b : str) : nows (a ++ b) = nows a && nows b.
Proof. unfold nows. apply forallb_app. Qed.

Lemma is_token_nonempty (t : str) : is_token t = true -> t <> [].
Proof. destruct t; cbn; [discriminate|discriminate]. Qed.

Lemma is_token_nows (t : str) : is_token t = true -> nows t = true.
Proof. unfold is_token. intros H. apply andb_prop in H. apply H. Qed.

Lemma space_is_ws : is_ws 32 = true.
Proof. reflexivity. Qed.

(* ------------------------------------------------------------------ split_whitespace *)
Lemma sw_nows_app (t r : str) :
  nows t = true -> sw (t ++ r) = (t ++ fst (sw r), snd (sw r)).
Proof.
  induction t as [|c t IH]; intros H.
  - cbn [app]. destruct (sw r); reflexivity.
  - cbn [nows forallb] in H. apply andb_prop in H. destruct H as [Hc Ht].
    cbn [app sw]. rewrite (IH Ht). cbn [fst snd].
    apply negb_true_iff in Hc. rewrite Hc. reflexivity.
Qed.

Lemma sw_space (r : str) : sw (32 :: r) = ([], push_tok (fst (sw r)) (snd (sw r))).
Proof. cbn [sw]. destruct (sw r) as [cur acc]. rewrite space_is_ws. reflexivity. Qed.

Lemma sw_join (x : str) (l : list str) :
  Forall (fun t => is_token t = true) (x :: l) -> sw (join_sp (x :: l)) = (x, l).
Proof.
  revert x. induction l as [|y l IH]; intros x H.
  - cbn [join_sp]. inversion H as [|? ? Hx _]; subst.
    rewrite <- (app_nil_r x) at 1. rewrite sw_nows_app by (apply is_token_nows; exact Hx).
    cbn. rewrite app_nil_r. reflexivity.
  - inversion H as [|? ? Hx Hr]; subst.
    change (join_sp (x :: y :: l)) with (x ++ 32 :: join_sp (y :: l)).
    rewrite sw_nows_app by (apply is_token_nows; exact Hx).
    rewrite sw_space. rewrite (IH y Hr). cbn [fst snd].
    inversion Hr as [|? ? Hy _]; subst.
    destruct y as [|c y]; [discriminate Hy|]. cbn [push_tok]. rewrite app_nil_r. reflexivity.
Qed.

Lemma split_ws_join (l : list str) :
  Forall (fun t => is_token t = true) l -> split_ws (join_sp l) = l.
Proof.
  destruct l as [|x l]; intros H; [reflexivity|].
  unfold split_ws. rewrite (sw_join x l H).
  inversion H as [|? ? Hx _]; subst. destruct x; [discriminate Hx|]. reflexivity.
Qed.

Lemma join_sp_cons (x : str) (r : list str) :
  join_sp (x :: r) = x ++ flat_map (fun y => 32 :: y) r.
Proof.
  revert x. induction r as [|y r IH]; intros x.
  - cbn. rewrite app_nil_r. reflexivity.
  - change (join_sp (x :: y :: r)) with (x ++ 32 :: join_sp (y :: r)).
    rewrite (IH y). reflexivity.
Qed.

Lemma join_sp_app (l m : list str) :
  l <> [] -> join_sp (l ++ m) = join_sp l ++ flat_map (fun x => 32 :: x) m.
Proof.
  destruct l as [|x l]; intros H; [contradiction|].
  cbn [app]. rewrite !join_sp_cons, flat_map_app, app_assoc. reflexivity.
Qed.

(* ------------------------------------------------------------------ prefixes *)
Lemma strip_prefix_app (p s : str) : strip_prefix p (p ++ s) = Some s.
Proof.
  induction p as [|a p IH]; cbn [app strip_prefix]; [destruct s; reflexivity|].
  rewrite N.eqb_refl. exact IH.
Qed.

Lemma strip_prefix_some (p s r : str) : strip_prefix p s = Some r -> s = p ++ r.
Proof.
  revert s. induction p as [|a p IH]; intros s H.
  - destruct s; cbn in H; inversion H; reflexivity.
  - destruct s as [|b s]; cbn [strip_prefix] in H; [discriminate|].
    destruct (a =? b) eqn:E; [|discriminate]. apply N.eqb_eq in E. subst b.
    cbn [app]. f_equal. apply IH. exact H.
Qed.

Lemma strip_prefix_starts (p s : str) :
  strip_prefix p s = None <-> starts_with p s = false.
Proof.
  revert s. induction p as [|a p IH]; intros s.
  - destruct s; cbn; split; discriminate.
  - destruct s as [|b s]; cbn [strip_prefix starts_with]; [split; reflexivity|].
    destruct (a =? b); cbn [andb]; [apply IH|split; reflexivity].
Qed.

Lemma starts_with_app (p s : str) : starts_with p (p ++ s) = true.
Proof.
  induction p as [|a p IH]; cbn [app starts_with]; [destruct s; reflexivity|].
  rewrite N.eqb_refl. exact IH.
Qed.

Lemma starts_with_split (p s : str) : starts_with p s = true -> s = p ++ skipn (length p) s.
Proof.
  revert s. induction p as [|a p IH]; intros s H; [reflexivity|].
  destruct s as [|b s]; cbn [starts_with] in H; [discriminate|].
  apply andb_prop in H. destruct H as [E H]. apply N.eqb_eq in E. subst b.
  cbn [length skipn app]. f_equal. apply IH. exact H.
Qed.

(* starts_with only looks at the first |p| characters *)
Lemma starts_with_long (p y r : str) :
  (length p <= length y)%nat -> starts_with p (y ++ r) = starts_with p y.
Proof.
  revert y. induction p as [|a p IH]; intros y H.
  - destruct y; destruct r; reflexivity.
  - destruct y as [|b y]; cbn [length] in H; [lia|].
    cbn [app starts_with]. rewrite IH by lia. reflexivity.
Qed.

(* ------------------------------------------------------------------ substring search *)
Lemma find_sub_some (pat s a b : str) :
  find_sub pat s = Some (a, b) -> s = a ++ b /\ starts_with pat b = true.
Proof.
  revert a b. induction s as [|c s IH]; intros a b H.
  - cbn [find_sub] in H. destruct (starts_with pat []) eqn:E; [|discriminate].
    inversion H; subst. split; [reflexivity|exact E].
  - cbn [find_sub] in H. destruct (starts_with pat (c :: s)) eqn:E.
    + inversion H; subst. split; [reflexivity|exact E].
    + destruct (find_sub pat s) as [[a' b']|] eqn:F; [|discriminate].
      inversion H; subst. destruct (IH a' b eq_refl) as [-> Hs]. split; [reflexivity|exact Hs].
Qed.

(* if the first occurrence in x ++ pat is the appended one, so it is in x ++ pat ++ r *)
Lemma find_sub_extend (pat x r : str) :
  find_sub pat (x ++ pat) = Some (x, pat) -> find_sub pat (x ++ pat ++ r) = Some (x, pat ++ r).
Proof.
  induction x as [|c x IH]; intros H.
  - cbn [app]. destruct (pat ++ r) eqn:E; cbn [find_sub];
      rewrite <- E, starts_with_app; reflexivity.
  - cbn [app find_sub] in H |- *.
    destruct (starts_with pat (c :: x ++ pat)) eqn:E; [inversion H as [[H1 H2]]; discriminate H1|].
    destruct (find_sub pat (x ++ pat)) as [[a b]|] eqn:F; [|discriminate].
    inversion H; subst a b.
    assert (E' : starts_with pat (c :: x ++ pat ++ r) = false).
    { change (c :: x ++ pat ++ r) with ((c :: x) ++ pat ++ r).
      rewrite app_assoc. rewrite starts_with_long; [exact E|]. cbn [app length]. rewrite app_length. lia. }
    rewrite E'. rewrite (IH eq_refl). reflexivity.
Qed.

Lemma find_sub_none_contains (pat s : str) :
  contains_sub pat s = false -> find_sub pat s = None.
Proof. unfold contains_sub. destruct (find_sub pat s); [discriminate|reflexivity]. Qed.

(* ------------------------------------------------------------------ split_once(char), split(char) *)
Lemma split_once_some (d : char) (s a b : str) :
  split_once d s = Some (a, b) -> s = a ++ d :: b /\ contains_char d a = false.
Proof.
  revert a b. induction s as [|c s IH]; intros a b H; cbn [split_once] in H; [discriminate|].
  destruct (c =? d) eqn:E.
  - inversion H; subst. apply N.eqb_eq in E. subst c. split; reflexivity.
  - destruct (split_once d s) as [[a' b']|]; [|discriminate]. inversion H; subst.
    destruct (IH a' b eq_refl) as [-> Hc]. split; [reflexivity|].
    cbn [contains_char existsb]. rewrite E. exact Hc.
Qed.

Lemma split_once_none (d : char) (s : str) :
  split_once d s = None <-> contains_char d s = false.
Proof.
  induction s as [|c s IH]; cbn [split_once contains_char existsb]; [split; reflexivity|].
  destruct (c =? d); cbn [orb]; [split; discriminate|].
  destruct (split_once d s) as [[a b]|].
  - split; [discriminate|]. intros H. apply IH in H. discriminate.
  - split; [intros _; apply IH; reflexivity|reflexivity].
Qed.

Lemma split_once_app (d : char) (a b : str) :
  contains_char d a = false -> split_once d (a ++ d :: b) = Some (a, b).
Proof.
  induction a as [|c a IH]; intros H.
  - cbn [app split_once]. rewrite N.eqb_refl. reflexivity.
  - cbn [contains_char existsb] in H. apply orb_false_iff in H. destruct H as [Hc Ha].
    cbn [app split_once]. rewrite Hc. rewrite (IH Ha). reflexivity.
Qed.

Lemma split_char_app (d : char) (a b : str) :
  contains_char d a = false -> split_char d (a ++ d :: b) = a :: split_char d b.
Proof.
  induction a as [|c a IH]; intros H.
  - cbn [app split_char]. rewrite N.eqb_refl. reflexivity.
  - cbn [contains_char existsb] in H. apply orb_false_iff in H. destruct H as [Hc Ha].
    cbn [app split_char]. rewrite Hc. rewrite (IH Ha). reflexivity.
Qed.

Lemma split_char_plain (d : char) (a : str) :
  contains_char d a = false -> split_char d a = [a].
Proof.
  induction a as [|c a IH]; intros H; [reflexivity|].
  cbn [contains_char existsb] in H. apply orb_false_iff in H. destruct H as [Hc Ha].
  cbn [split_char]. rewrite Hc. rewrite (IH Ha). reflexivity.
Qed.

(* the pieces of split(char), joined by the character again, are the text *)
Fixpoint join_char (d : char) (l : list str) : str :=
  match l with
  | [] => []
  | [x] => x
  | x :: r => x ++ d :: join_char d r
  end.

Lemma split_char_nonempty (d : char) (s : str) : split_char d s <> [].
Proof.
  induction s as [|c s IH]; cbn [split_char]; [discriminate|].
  destruct (c =? d); [discriminate|]. destruct (split_char d s); [contradiction|discriminate].
Qed.

Lemma join_split_char (d : char) (s : str) : join_char d (split_char d s) = s.
Proof.
  induction s as [|c s IH]; [reflexivity|].
  cbn [split_char]. destruct (c =? d) eqn:E.
  - apply N.eqb_eq in E. subst c.
    pose proof (split_char_nonempty d s) as NE.
    destruct (split_char d s) as [|p ps] eqn:S; [contradiction|].
    cbn [join_char app] in *. rewrite IH. reflexivity.
  - pose proof (split_char_nonempty d s) as NE.
    destruct (split_char d s) as [|p ps] eqn:S; [contradiction|].
    destruct ps as [|q ps]; cbn [join_char app] in *; rewrite <- IH; reflexivity.
Qed.

(* ------------------------------------------------------------------ trim *)
Definition no_lead_ws (s : str) : bool := match s with [] => true | c :: _ => negb (is_ws c) end.
Definition no_trail_ws (s : str) : bool := no_lead_ws (rev s).

Lemma trim_start_id (s : str) : no_lead_ws s = true -> trim_start s = s.
Proof.
  destruct s as [|c s]; intros H; [reflexivity|]. cbn [no_lead_ws] in H.
  apply negb_true_iff in H. cbn [trim_start]. rewrite H. reflexivity.
Qed.

Lemma trim_end_id (s : str) : no_trail_ws s = true -> trim_end s = s.
Proof. unfold no_trail_ws, trim_end. intros H. rewrite trim_start_id by exact H. apply rev_involutive. Qed.

Lemma trim_id (s : str) : no_lead_ws s = true -> no_trail_ws s = true -> trim s = s.
Proof. intros H1 H2. unfold trim. rewrite trim_start_id by exact H1. apply trim_end_id. exact H2. Qed.

Lemma no_trail_ws_app (a b : str) : b <> [] -> no_trail_ws (a ++ b) = no_trail_ws b.
Proof.
  unfold no_trail_ws. intros H. rewrite rev_app_distr.
  destruct (rev b) as [|c r] eqn:E.
  - apply (f_equal (@rev N)) in E. rewrite rev_involutive in E. contradiction.
  - reflexivity.
Qed.

Lemma no_lead_ws_app (a b : str) : a <> [] -> no_lead_ws (a ++ b) = no_lead_ws a.
Proof. destruct a; [contradiction|reflexivity]. Qed.

Lemma trim_end_snoc_ws (s : str) (c : char) : is_ws c = true -> trim_end (s ++ [c]) = trim_end s.
Proof. intros H. unfold trim_end. rewrite rev_app_distr. cbn [rev app trim_start]. rewrite H. reflexivity. Qed.

Lemma strip_suffix_char_snoc (d : char) (s : str) : strip_suffix_char d (s ++ [d]) = Some s.
Proof.
  unfold strip_suffix_char. rewrite rev_app_distr. cbn [rev app]. rewrite N.eqb_refl.
  rewrite rev_involutive. reflexivity.
Qed.

(* ------------------------------------------------------------------ usize *)
Definition dval (acc : N) (s : str) : N := fold_left (fun a c => a * 10 + (c - 48)) s acc.

Lemma dval_ge (s : str) (acc : N) : acc <= dval acc s.
Proof.
  revert acc. induction s as [|c s IH]; intros acc; cbn [dval fold_left]; [lia|].
  specialize (IH (acc * 10 + (c - 48))). unfold dval in IH. lia.
Qed.

Lemma dval_app (a b : str) (acc : N) : dval acc (a ++ b) = dval (dval acc a) b.
Proof. unfold dval. apply fold_left_app. Qed.

Lemma parse_digits_ok (s : str) (acc : N) :
  forallb is_digit s = true -> dval acc s < usize_limit -> parse_digits acc s = Ok (dval acc s).
Proof.
  revert acc. induction s as [|c s IH]; intros acc Hd Hv; [reflexivity|].
  cbn [forallb] in Hd. apply andb_prop in Hd. destruct Hd as [Hc Hs].
  cbn [parse_digits]. rewrite Hc.
  cbn [dval fold_left] in Hv |- *.
  pose proof (dval_ge s (acc * 10 + (c - 48))) as G. unfold dval in G.
  assert (L : (acc * 10 + (c - 48) <? usize_limit) = true) by (apply N.ltb_lt; lia).
  rewrite L. apply IH; [exact Hs|exact Hv].
Qed.

(* what the reader accepts is made of digits, and its value is the digit value *)
Lemma parse_digits_inv (s : str) (acc n : N) :
  parse_digits acc s = Ok n -> forallb is_digit s = true /\ n = dval acc s /\ n < usize_limit \/ s = [] /\ n = acc.
Proof.
  revert acc. induction s as [|c s IH]; intros acc H.
  - right. cbn in H. inversion H. split; reflexivity.
  - left. cbn [parse_digits] in H. destruct (is_digit c) eqn:Hc; [|discriminate].
    destruct (acc * 10 + (c - 48) <? usize_limit) eqn:L; [|discriminate].
    apply N.ltb_lt in L.
    destruct (IH _ H) as [[Hd [Hn Hl]]|[Hs Hn]].
    + cbn [forallb]. rewrite Hc, Hd. split; [reflexivity|]. split; [exact Hn|exact Hl].
    + subst s. cbn [forallb]. rewrite Hc. split; [reflexivity|]. split; [subst n; reflexivity|subst n; exact L].
Qed.

Lemma digit_not_ws (c : char) : is_digit c = true -> is_ws c = false.
Proof.
  unfold is_digit, is_ws. intros H. apply andb_prop in H. destruct H as [H1 H2].
  apply N.leb_le in H1. apply N.leb_le in H2.
  repeat match goal with
  | |- (_ || _)%bool = false => apply orb_false_iff; split
  | |- (_ && _)%bool = false => apply andb_false_iff
  end; try (apply N.eqb_neq; lia); try (right; apply N.leb_gt; lia); try (left; apply N.leb_gt; lia).
Qed.

Lemma digits_nows (s : str) : forallb is_digit s = true -> nows s = true.
Proof.
  induction s as [|c s IH]; intros H; [reflexivity|].
  cbn [forallb] in H. apply andb_prop in H. destruct H as [Hc Hs].
  cbn [nows forallb]. rewrite (digit_not_ws c Hc). cbn. apply IH. exact Hs.
Qed.

(* canonical decimal text: digits, no sign, no leading zero (except "0" itself) *)
Definition canon_dec (s : str) : bool :=
  match s with
  | [] => false
  | c :: r => forallb is_digit s && (negb (c =? 48) || is_empty r)
  end.

(* lia is kept away from div/mod terms: they are named first *)
Lemma divmod10 (n : N) : exists q d, n / 10 = q /\ n mod 10 = d /\ n = 10 * q + d /\ d < 10.
Proof.
  exists (n / 10), (n mod 10). split; [reflexivity|]. split; [reflexivity|]. split.
  - apply N.div_mod. discriminate.
  - apply N.mod_lt. discriminate.
Qed.

Lemma digit_range (c : char) : is_digit c = true <-> 48 <= c /\ c <= 57.
Proof.
  unfold is_digit. rewrite andb_true_iff, !N.leb_le. reflexivity.
Qed.

Lemma div10_lt_pow (q d : N) (f : nat) : 10 * q + d < 2 ^ N.of_nat (S f) -> q < 2 ^ N.of_nat f.
Proof.
  intros H. rewrite Nat2N.inj_succ, N.pow_succ_r' in H.
  remember (2 ^ N.of_nat f) as P. lia.
Qed.

Lemma to_digits_spec (fuel : nat) : forall (n : N) (acc : str),
  n < 2 ^ N.of_nat fuel ->
  exists k, to_digits fuel n acc = k ++ acc /\ canon_dec k = true /\ (forall a, dval a k = a * 10 ^ N.of_nat (length k) + n).
Proof.
  induction fuel as [|f IH]; intros n acc H.
  - cbn in H. assert (n = 0) by lia. subst n. exists [48]. cbn. split; [reflexivity|]. split; [reflexivity|].
    intros a. unfold dval. cbn. lia.
  - cbn [to_digits]. destruct (divmod10 n) as (q & d & Eq & Ed & En & Ld). rewrite Eq, Ed.
    assert (Dg : is_digit (48 + d) = true) by (apply digit_range; lia).
    destruct (q =? 0) eqn:E.
    + apply N.eqb_eq in E. exists [48 + d]. split; [reflexivity|]. split.
      * cbn [canon_dec forallb is_empty]. rewrite Dg. cbn. apply orb_true_r.
      * intros a. unfold dval. cbn [fold_left length]. change (N.of_nat 1) with 1.
        replace (48 + d - 48) with d by lia. lia.
    + apply N.eqb_neq in E.
      assert (Hq : q < 2 ^ N.of_nat f) by (apply (div10_lt_pow q d); rewrite <- En; exact H).
      destruct (IH q ((48 + d) :: acc) Hq) as [k [Hk [Hc Hv]]].
      exists (k ++ [48 + d]). split; [rewrite Hk, <- app_assoc; reflexivity|]. split.
      * (* canonical: k is canonical with a non-zero value, so its head is not '0' *)
        destruct k as [|c r]; [discriminate Hc|].
        cbn [canon_dec] in Hc. apply andb_prop in Hc. destruct Hc as [Hd Hz].
        cbn [app canon_dec]. change (c :: r ++ [48 + d]) with ((c :: r) ++ [48 + d]).
        rewrite forallb_app. rewrite Hd. cbn [forallb].
        rewrite Dg. cbn [andb].
        destruct (c =? 48) eqn:C; cbn [negb orb] in Hz |- *; [|reflexivity].
        destruct r; [|discriminate Hz].
        exfalso. apply N.eqb_eq in C. subst c. specialize (Hv 0). unfold dval in Hv. cbn in Hv. lia.
      * intros a. rewrite dval_app, Hv. unfold dval at 1. cbn [fold_left].
        rewrite app_length. cbn [length]. rewrite Nat.add_1_r, Nat2N.inj_succ, N.pow_succ_r'.
        replace (48 + d - 48) with d by lia. remember (10 ^ N.of_nat (length k)) as P. lia.
Qed.

Lemma print_usize_spec (n : N) :
  canon_dec (print_usize n) = true /\ dval 0 (print_usize n) = n.
Proof.
  unfold print_usize.
  destruct (to_digits_spec (N.to_nat (N.size n)) n []) as [k [Hk [Hc Hv]]].
  { rewrite N2Nat.id. apply N.size_gt. }
  rewrite Hk, app_nil_r. split; [exact Hc|]. rewrite Hv. lia.
Qed.

Lemma canon_dec_digits (s : str) : canon_dec s = true -> forallb is_digit s = true /\ s <> [].
Proof.
  destruct s as [|c r]; [discriminate|]. cbn [canon_dec]. intros H. apply andb_prop in H.
  split; [apply H|discriminate].
Qed.

Lemma canon_dec_token (s : str) : canon_dec s = true -> is_token s = true.
Proof.
  intros H. destruct (canon_dec_digits s H) as [Hd Hn]. unfold is_token.
  rewrite (digits_nows s Hd). destruct s; [contradiction|reflexivity].
Qed.

Lemma parse_usize_digits (s : str) :
  canon_dec s = true -> dval 0 s < usize_limit -> parse_usize s = Ok (dval 0 s).
Proof.
  intros Hc Hv. destruct (canon_dec_digits s Hc) as [Hd Hn].
  destruct s as [|c r]; [contradiction|]. cbn [parse_usize].
  assert (c =? 43 = false).
  { cbn [forallb] in Hd. apply andb_prop in Hd. destruct Hd as [Hc' _]. unfold is_digit in Hc'.
    apply andb_prop in Hc'. destruct Hc' as [H1 _]. apply N.leb_le in H1. apply N.eqb_neq. lia. }
  rewrite H. apply parse_digits_ok; assumption.
Qed.

(* T::from_str(&n.to_string()) == Ok(n) for usize *)
Theorem usize_roundtrip (n : N) : n < usize_limit -> parse_usize (print_usize n) = Ok n.
Proof.
  intros H. destruct (print_usize_spec n) as [Hc Hv].
  rewrite parse_usize_digits; [rewrite Hv; reflexivity|exact Hc|rewrite Hv; exact H].
Qed.

(* the printer reproduces a canonical decimal text *)
Lemma to_digits_canon (b : str) : forall (fuel : nat) (acc : str),
  canon_dec b = true -> dval 0 b < 2 ^ N.of_nat fuel -> to_digits fuel (dval 0 b) acc = b ++ acc.
Proof.
  induction b as [|c b' IH] using rev_ind; intros fuel acc Hc Hv; [discriminate Hc|].
  destruct (canon_dec_digits _ Hc) as [Hd _]. rewrite forallb_app in Hd. apply andb_prop in Hd.
  destruct Hd as [Hd' Hdc]. cbn [forallb] in Hdc. apply andb_prop in Hdc. destruct Hdc as [Hdc _].
  apply digit_range in Hdc.
  rewrite dval_app in Hv |- *. unfold dval at 1 in Hv. unfold dval at 1. cbn [fold_left] in Hv |- *.
  set (m := dval 0 b') in *.
  destruct (divmod10 (m * 10 + (c - 48))) as (q & d & Eq & Ed & En & Ld).
  assert (q = m /\ d = c - 48) by lia. destruct H as [-> ->].
  destruct b' as [|h t].
  - (* single digit *)
    subst m. unfold dval in *. cbn [fold_left] in *. cbn [app].
    destruct fuel as [|f]; cbn [to_digits]; rewrite ?Eq, ?Ed; clear Eq Ed; rewrite ?N.eqb_refl; cbv iota; f_equal; lia.
  - (* at least two digits: the head is not '0', so m > 0 *)
    assert (Hc' : canon_dec (h :: t) = true).
    { cbn [app canon_dec] in Hc. apply andb_prop in Hc. destruct Hc as [_ Hz].
      cbn [canon_dec]. rewrite Hd'. cbn [andb].
      destruct (h =? 48); cbn [negb orb] in Hz |- *; [|reflexivity].
      destruct t; discriminate Hz. }
    assert (Hpos : 0 < m).
    { cbn [app canon_dec] in Hc. apply andb_prop in Hc. destruct Hc as [_ Hz].
      destruct (h =? 48) eqn:E; cbn [negb orb] in Hz; [destruct t; discriminate Hz|].
      apply N.eqb_neq in E. cbn [forallb] in Hd'. apply andb_prop in Hd'. destruct Hd' as [Hh _].
      apply digit_range in Hh.
      subst m. unfold dval. cbn [fold_left]. pose proof (dval_ge t (0 * 10 + (h - 48))) as G.
      unfold dval in G. lia. }
    destruct fuel as [|f].
    + change (2 ^ N.of_nat 0) with 1 in Hv. clear Eq Ed. lia.
    + cbn [to_digits]. rewrite Eq, Ed.
      assert (Z : (m =? 0) = false) by (apply N.eqb_neq; clear Eq Ed; lia). rewrite Z.
      replace (48 + (c - 48)) with c by (clear Eq Ed; lia).
      rewrite IH; [rewrite <- app_assoc; reflexivity|exact Hc'|].
      apply (div10_lt_pow m (c - 48)). rewrite <- En. exact Hv.
Qed.

Theorem usize_canonical (s : str) (n : N) :
  canon_dec s = true -> parse_usize s = Ok n -> print_usize n = s.
Proof.
  intros Hc Hp. destruct (canon_dec_digits s Hc) as [Hd Hn].
  assert (n = dval 0 s).
  { destruct s as [|c r]; [contradiction|]. cbn [parse_usize] in Hp.
    destruct (c =? 43) eqn:E.
    - exfalso. apply N.eqb_eq in E. subst c. cbn in Hd. discriminate Hd.
    - destruct (parse_digits_inv _ _ _ Hp) as [[_ [Hv _]]|[Hs _]]; [exact Hv|discriminate Hs]. }
  subst n. unfold print_usize.
  rewrite to_digits_canon; [apply app_nil_r|exact Hc|].
  rewrite N2Nat.id. apply N.size_gt.
Qed.
