(* The lexer's outputs, characterised: a token list is what rlex produces for the concatenation of
   its texts exactly when it is [lexable] (every token has the kind and extent its first character
   dictates; no two WHITESPACE and no two IDENT tokens are adjacent). *)
From V.model Require Import Base RelLex RelParse RelAcc RelGrammar RelGrammarAll.
From V.proofs Require Import BaseP RelLexP RelGrammarLexP.
From Coq Require Import ZifyBool.

Lemma rttext_of_eq ts : rttext_of ts = rttext ts.
Proof. reflexivity. Qed.

Lemma single_not_ws c k : single_char_kind c = Some k -> is_rel_ws c = false.
Proof.
  unfold single_char_kind. intros H.
  repeat match type of H with
  | context [(c =? ?v)%N] => destruct (N.eqb_spec c v) as [->|_]; [reflexivity|]
  end. discriminate.
Qed.

Lemma ws_not_ident c : is_rel_ws c = true -> is_ident_char c = false.
Proof. unfold is_rel_ws, is_ident_char, is_ascii_alnum. lia. Qed.

Lemma rkind_eqb_eq a b : rkind_eqb a b = true -> a = b.
Proof. destruct a, b; cbn; intros H; try reflexivity; discriminate. Qed.
Lemma rkind_eqb_refl a : rkind_eqb a a = true.
Proof. destruct a; reflexivity. Qed.

(* the first character of a valid token of another kind ends a run *)
Lemma valid_head_not_ws k c w : tok_valid (k, c :: w) = true -> k <> WHITESPACE -> is_rel_ws c = false.
Proof.
  unfold tok_valid. cbn [fst snd]. intros H Hk.
  destruct (single_char_kind c) as [k0|] eqn:E; [eapply single_not_ws; exact E|].
  destruct (is_rel_ws c); [|reflexivity]. apply andb_true_iff in H. destruct H as [H _]. apply rkind_eqb_eq in H. congruence.
Qed.
Lemma valid_head_not_ident k c w : tok_valid (k, c :: w) = true -> k <> IDENT -> is_ident_char c = false.
Proof.
  unfold tok_valid. cbn [fst snd]. intros H Hk.
  destruct (single_char_kind c) as [k0|] eqn:E; [eapply single_not_ident; exact E|].
  destruct (is_rel_ws c) eqn:Ew; [apply ws_not_ident, Ew|].
  destruct (is_ident_char c); [|reflexivity]. apply andb_true_iff in H. destruct H as [H _]. apply rkind_eqb_eq in H. congruence.
Qed.

(* ---- lexable => the lexer reproduces the list ---- *)
Lemma lex_valid_token k c w r ts :
  tok_valid (k, c :: w) = true ->
  (k = WHITESPACE -> stops is_rel_ws r) -> (k = IDENT -> stops is_ident_char r) ->
  rlexf r = Ok ts -> rlexf ((c :: w) ++ r) = Ok ((k, c :: w) :: ts).
Proof.
  unfold tok_valid. cbn [fst snd]. intros H Hw Hi Hr. cbn [app]. rewrite rlexf_cons. unfold rlex_step.
  destruct (single_char_kind c) as [k0|] eqn:E.
  - apply andb_true_iff in H. destruct H as [Hk Hn]. apply rkind_eqb_eq in Hk. subst k0. destruct w; [|discriminate].
    cbn [app fst snd]. rewrite Hr. reflexivity.
  - destruct (is_rel_ws c) eqn:Ew.
    + apply andb_true_iff in H. destruct H as [Hk Hall]. apply rkind_eqb_eq in Hk. subst k.
      rewrite (span_app_stop _ w r Hall (Hw eq_refl)). cbn [fst snd]. rewrite Hr. reflexivity.
    + destruct (is_ident_char c) eqn:Ei.
      * apply andb_true_iff in H. destruct H as [Hk Hall]. apply rkind_eqb_eq in Hk. subst k.
        rewrite (span_app_stop _ w r Hall (Hi eq_refl)). cbn [fst snd]. rewrite Hr. reflexivity.
      * apply andb_true_iff in H. destruct H as [Hk Hn]. apply rkind_eqb_eq in Hk. subst k. destruct w; [|discriminate].
        cbn [app fst snd]. rewrite Hr. reflexivity.
Qed.

Theorem lexable_rlex ts : lexable ts = true -> rlex (rttext_of ts) = Ok ts.
Proof.
  rewrite rlex_is_rlexf. induction ts as [|[k s] r IH]; intros H; [reflexivity|].
  cbn [lexable] in H. apply andb_true_iff in H. destruct H as [H Hr]. apply andb_true_iff in H. destruct H as [Hv Ha].
  specialize (IH Hr). unfold rttext_of in *. cbn [map concat snd].
  destruct s as [|c w]; [discriminate|].
  apply lex_valid_token; [exact Hv| | |exact IH].
  - intros ->. destruct r as [|[k' s'] r']; [exact I|]. cbn [lexable] in Hr.
    apply andb_true_iff in Hr. destruct Hr as [Hr _]. apply andb_true_iff in Hr. destruct Hr as [Hv' _].
    destruct s' as [|c' w']; [discriminate|]. cbn [map concat snd app stops].
    apply (valid_head_not_ws k' c' w' Hv'). intros ->. discriminate.
  - intros ->. destruct r as [|[k' s'] r']; [exact I|]. cbn [lexable] in Hr.
    apply andb_true_iff in Hr. destruct Hr as [Hr _]. apply andb_true_iff in Hr. destruct Hr as [Hv' _].
    destruct s' as [|c' w']; [discriminate|]. cbn [map concat snd app stops].
    apply (valid_head_not_ident k' c' w' Hv'). intros ->. discriminate.
Qed.

(* ---- the lexer's output is lexable ---- *)
Lemma rlex_step_valid c r : tok_valid (fst (rlex_step c r)) = true.
Proof.
  unfold rlex_step, tok_valid. destruct (single_char_kind c) as [k|] eqn:E.
  - cbn [fst snd]. rewrite E, rkind_eqb_refl. reflexivity.
  - destruct (is_rel_ws c) eqn:Ew.
    + destruct (span is_rel_ws r) as [w r'] eqn:Es. cbn [fst snd]. rewrite E, Ew. cbn. eapply span_all. exact Es.
    + destruct (is_ident_char c) eqn:Ei.
      * destruct (span is_ident_char r) as [w r'] eqn:Es. cbn [fst snd]. rewrite E, Ew, Ei. cbn. eapply span_all. exact Es.
      * cbn [fst snd]. rewrite E, Ew, Ei. reflexivity.
Qed.

Lemma rlex_step_kind_ws c r : fst (fst (rlex_step c r)) = WHITESPACE -> is_rel_ws c = true.
Proof.
  unfold rlex_step. destruct (single_char_kind c) as [k|] eqn:E.
  - cbn [fst]. intros ->. unfold single_char_kind in E.
    repeat match type of E with context [(c =? ?v)%N] => destruct (c =? v)%N; [discriminate|] end. discriminate.
  - destruct (is_rel_ws c); [reflexivity|]. destruct (is_ident_char c); [destruct (span is_ident_char r)|]; cbn; discriminate.
Qed.
Lemma rlex_step_kind_ident c r : fst (fst (rlex_step c r)) = IDENT -> is_ident_char c = true.
Proof.
  unfold rlex_step. destruct (single_char_kind c) as [k|] eqn:E.
  - cbn [fst]. intros ->. unfold single_char_kind in E.
    repeat match type of E with context [(c =? ?v)%N] => destruct (c =? v)%N; [discriminate|] end. discriminate.
  - destruct (is_rel_ws c); [destruct (span is_rel_ws r); cbn; discriminate|].
    destruct (is_ident_char c); [reflexivity|]. cbn. discriminate.
Qed.

Lemma rlex_step_rest_stops c r :
  (fst (fst (rlex_step c r)) = WHITESPACE -> stops is_rel_ws (snd (rlex_step c r))) /\
  (fst (fst (rlex_step c r)) = IDENT -> stops is_ident_char (snd (rlex_step c r))).
Proof.
  unfold rlex_step. destruct (single_char_kind c) as [k|] eqn:E.
  - cbn [fst snd]. split; intros ->; unfold single_char_kind in E;
      repeat match type of E with context [(c =? ?v)%N] => destruct (c =? v)%N; [discriminate|] end; discriminate.
  - destruct (is_rel_ws c).
    + destruct (span is_rel_ws r) as [w r'] eqn:Es. cbn [fst snd]. split; [intros _; eapply span_stop; exact Es|discriminate].
    + destruct (is_ident_char c).
      * destruct (span is_ident_char r) as [w r'] eqn:Es. cbn [fst snd]. split; [discriminate|intros _; eapply span_stop; exact Es].
      * cbn [fst snd]. split; discriminate.
Qed.

Lemma rlex_go_lexable fuel : forall s ts, rlex_go fuel s = Ok ts -> lexable ts = true.
Proof.
  induction fuel as [|f IH]; intros s ts H.
  - destruct s; [|discriminate]. injection H as <-. reflexivity.
  - destruct s as [|c r]; [injection H as <-; reflexivity|]. cbn [rlex_go] in H.
    pose proof (rlex_step_valid c r) as Hv. pose proof (rlex_step_rest_stops c r) as [Hsw Hsi].
    destruct (rlex_step c r) as [t r'] eqn:Es. cbn [fst snd] in *.
    destruct (rlex_go f r') as [ts'| | |] eqn:Er; try discriminate. injection H as <-.
    cbn [lexable]. rewrite Hv, (IH _ _ Er). cbn [andb]. rewrite andb_true_r.
    destruct ts' as [|t' ts'']; [reflexivity|].
    destruct f as [|f']; [destruct r'; discriminate|]. destruct r' as [|c' r'']; [discriminate|]. cbn [rlex_go] in Er.
    pose proof (rlex_step_kind_ws c' r'') as Kw. pose proof (rlex_step_kind_ident c' r'') as Ki.
    destruct (rlex_step c' r'') as [u r3]. cbn [fst] in Kw, Ki.
    destruct (rlex_go f' r3); try discriminate. injection Er as <- _.
    unfold adj_ok. destruct t as [k x]. cbn [fst] in *. destruct u as [k' x']. cbn [fst] in *.
    destruct k; try reflexivity.
    + (* IDENT *) destruct k'; try reflexivity. specialize (Hsi eq_refl). cbn in Hsi. rewrite (Ki eq_refl) in Hsi. discriminate.
    + (* WHITESPACE *) destruct k'; try reflexivity. specialize (Hsw eq_refl). cbn in Hsw. rewrite (Kw eq_refl) in Hsw. discriminate.
Qed.

Theorem rlex_lexable s ts : rlex s = Ok ts -> lexable ts = true /\ rttext_of ts = s.
Proof.
  intros H. split; [eapply rlex_go_lexable; exact H|].
  destruct (rlex_total_partition s) as (ts' & E & Ht & _). rewrite E in H. injection H as <-. exact Ht.
Qed.

Theorem lexable_iff ts : lexable ts = true <-> rlex (rttext_of ts) = Ok ts.
Proof. split; [apply lexable_rlex|]. intros H. apply (rlex_lexable _ _ H). Qed.
