(* Lemmas about RelEdit.v (C11), operands built by RelationBuilder (and so by From<lossy::Relation>):
   what the machine builds for `compile o` when the records of the operands have a qualifier, an
   architecture list or profile groups (RelEditSpec.rel_spec = RSBuild), and the machine = tree
   function theorem for those operations on ANY tree (bop_step_tree), with
   RelEditSpec.brel_tree / bentry_tree as the operand trees. *)
From V.model Require Import Base RelLex RelParse RelEdit RelEditSpec RelEditTree.
From V.proofs Require Import BaseP RelEditP RelEditStP RelEditHistP RelEditTreeP RelEditReplaceP.

(* ------------------------------------------------------------------ one step on the relation under construction *)
(* the register dst holds the root of tree te, a RELATION with children cs; the step makes them cs';
   nothing else that existed before moves *)
Definition rstep (m : M unit) (dst : nat) (cs cs' : list rtree) : Prop :=
  forall ts rs te rr, nth_error rs dst = Some (Some (mk_hnd te [])) ->
    nth_error ts te = Some (mk_slot true rr (Node RELATION cs)) ->
    exists ts' F, runs m (mk_state ts rs) tt (mk_state ts' (map (option_map F) rs)) /\
      nth_error ts' te = Some (mk_slot true rr (Node RELATION cs')) /\
      (forall g, h_tid g < length ts -> above te [] g -> F g = g) /\
      (forall j, j <> te -> j < length ts -> nth_error ts' j = nth_error ts j).
Lemma len_le_nth {A} (l : list A) n : (forall j, j < n -> nth_error l j <> None) -> n <= length l.
Proof.
  intros H. destruct (Nat.le_gt_cases n (length l)) as [L|L]; [exact L|]. exfalso. apply (H (length l) L). apply nth_error_None. lia.
Qed.
Lemma rstep_len ts ts' te (s : slot) : nth_error ts' te = Some s ->
  (forall j, j <> te -> j < length ts -> nth_error ts' j = nth_error ts j) -> length ts <= length ts'.
Proof.
  intros Ht O. apply len_le_nth. intros j Hj. destruct (Nat.eq_dec j te) as [->|Hn]; [congruence|].
  rewrite (O j Hn Hj). apply nth_error_Some. exact Hj.
Qed.
Lemma rstep_id dst cs : rstep (ret tt) dst cs cs.
Proof. intros ts rs te rr Hr HT. exists ts, (fun g => g). rewrite map_option_map_id. repeat split; auto. Qed.
Lemma rstep_seq m1 m2 dst cs0 cs1 cs2 : rstep m1 dst cs0 cs1 -> rstep m2 dst cs1 cs2 -> rstep (m1 ;; m2) dst cs0 cs2.
Proof.
  intros H1 H2 ts rs te rr Hr HT. pose proof (nth_error_Some_lt _ _ _ HT) as Hlt.
  destruct (H1 ts rs te rr Hr HT) as (ts1 & F1 & R1 & T1 & A1 & O1).
  pose proof (rstep_len ts ts1 te _ T1 O1) as L1.
  assert (Hr1 : nth_error (map (option_map F1) rs) dst = Some (Some (mk_hnd te []))).
  { rewrite (nth_error_map_reg F1 _ _ _ Hr). now rewrite A1 by (auto using above_self). }
  destruct (H2 ts1 _ te rr Hr1 T1) as (ts2 & F2 & R2 & T2 & A2 & O2).
  exists ts2, (fun g => F2 (F1 g)). rewrite <- map_option_map_comp. split; [rbind; [exact R1|exact R2]|]. split; [exact T2|]. split.
  - intros g Hg Ha. rewrite A1 by assumption. apply A2; [lia|exact Ha].
  - intros j Hj Hl. rewrite O2 by lia. now apply O1.
Qed.

Lemma rstep_archqual dst n rest q : Forall (fun x => node_is ARCHQUAL x = false) rest ->
  rstep (relation_set_archqual dst q) dst (Tok IDENT n :: rest) (Tok IDENT n :: archqual_node q :: rest).
Proof.
  intros Hno ts rs te rr Hr HT.
  destruct (splice_new_insert_spec_o ts rs dst te rr (Node RELATION (Tok IDENT n :: rest)) [] RELATION
              (Tok IDENT n :: rest) 1 (archqual_node q) Hr HT eq_refl ltac:(cbn; lia)) as (ts' & F & R & T' & A & O).
  exists ts', F. split; [|split; [exact T'|split; [exact A|exact O]]].
  unfold relation_set_archqual. rbind; [apply runs_get_reg; exact Hr|].
  rbind; [eapply runs_children_of; [exact HT|reflexivity]|]. cbn [children s_tree].
  assert (E : find_index (node_is ARCHQUAL) (Tok IDENT n :: rest) = None).
  { cbn [find_index]. change (node_is ARCHQUAL (Tok IDENT n)) with false. cbn iota.
    clear -Hno. induction Hno as [|x r Hx _ IH]; [reflexivity|]. cbn [find_index]. now rewrite Hx, IH. }
  rewrite E. change (after_name (Tok IDENT n :: rest)) with 1. exact R.
Qed.
Lemma find_index_none_F {A} (p : A -> bool) l : Forall (fun x => p x = false) l -> find_index p l = None.
Proof. induction 1 as [|x r Hx _ IH]; [reflexivity|]. cbn. now rewrite Hx, IH. Qed.
Lemma last_index_none_F {A} (p : A -> bool) l : Forall (fun x => p x = false) l -> last_index p l = None.
Proof. induction 1 as [|x r Hx _ IH]; [reflexivity|]. cbn. now rewrite IH, Hx. Qed.
Lemma last_index_snoc_F {A} (p : A -> bool) a x : p x = true -> last_index p (a ++ [x]) = Some (length a).
Proof. intros H. induction a as [|y r IH]; cbn [app last_index length]; [now rewrite H|]. now rewrite IH. Qed.
Lemma insert_at_len {A} (new l : list A) : insert_at (length l) new l = l ++ new.
Proof. unfold insert_at. rewrite firstn_all, skipn_all. now rewrite app_nil_r. Qed.
Lemma rstep_archs dst cs a : Forall (fun x => node_is ARCHITECTURES x = false) cs -> Forall (fun x => node_is PROFILES x = false) cs ->
  rstep (relation_set_architectures_v fixed dst a) dst cs (cs ++ [t_space; architectures_node a]).
Proof.
  intros Hna Hnp ts rs te rr Hr HT.
  destruct (m_insert_fresh_spec [t_space; architectures_node a] ts rs dst te rr (Node RELATION cs) [] RELATION cs (length cs) Hr HT eq_refl (le_n _))
    as (ts' & F & R & L & T' & O & A & _).
  exists ts', F. split; [|split; [|split; [exact A|exact O]]].
  - unfold relation_set_architectures_v. rbind; [apply runs_get_reg; exact Hr|].
    rbind; [eapply runs_node_of; [exact HT|reflexivity]|]. cbn [children s_tree].
    rewrite (find_index_none_F _ _ Hna). unfold architectures_pos. rewrite (find_index_none_F _ _ Hnp). cbn [fx_in_place fixed]. exact R.
  - rewrite T'. cbn [upd_path]. now rewrite insert_at_len.
Qed.
Definition prof_elems (gs : list (list profile)) : list rtree := flat_map (fun g => [t_space; profiles_node g]) gs.
Lemma prof_pos base done : Forall (fun x => node_is PROFILES x = false) base ->
  match last_index (node_is PROFILES) (base ++ prof_elems done) with Some i => S i | None => length (base ++ prof_elems done) end
  = length (base ++ prof_elems done).
Proof.
  intros Hb. destruct (list_snoc_cases done) as [->|(d' & g & ->)].
  - cbn [prof_elems flat_map]. rewrite app_nil_r, (last_index_none_F _ _ Hb). reflexivity.
  - unfold prof_elems. rewrite flat_map_app. cbn [flat_map]. rewrite app_nil_r.
    replace (base ++ flat_map (fun g0 => [t_space; profiles_node g0]) d' ++ [t_space; profiles_node g])
      with ((base ++ flat_map (fun g0 => [t_space; profiles_node g0]) d' ++ [t_space]) ++ [profiles_node g])
      by (rewrite <- !app_assoc; reflexivity).
    rewrite last_index_snoc_F by reflexivity. rewrite !app_length. cbn [length]. lia.
Qed.
Lemma rstep_profile dst base done g : Forall (fun x => node_is PROFILES x = false) base ->
  rstep (relation_add_profile_v fixed dst g) dst (base ++ prof_elems done) (base ++ prof_elems (done ++ [g])).
Proof.
  intros Hb ts rs te rr Hr HT. set (cs := base ++ prof_elems done) in *.
  destruct (m_insert_fresh_spec [t_space; profiles_node g] ts rs dst te rr (Node RELATION cs) [] RELATION cs (length cs) Hr HT eq_refl (le_n _))
    as (ts' & F & R & L & T' & O & A & _).
  exists ts', F. split; [|split; [|split; [exact A|exact O]]].
  - unfold relation_add_profile_v. rbind; [apply runs_get_reg; exact Hr|].
    rbind; [eapply runs_node_of; [exact HT|reflexivity]|]. cbn [children s_tree fx_in_place fixed]. fold cs.
    unfold cs at 1 2. rewrite (prof_pos base done Hb). fold cs. exact R.
  - rewrite T'. cbn [upd_path]. rewrite insert_at_len. unfold cs, prof_elems. rewrite flat_map_app. cbn [flat_map]. now rewrite app_nil_r, <- app_assoc.
Qed.
Lemma rstep_profiles dst base gs : Forall (fun x => node_is PROFILES x = false) base -> forall done,
  rstep (add_profiles_v fixed dst gs) dst (base ++ prof_elems done) (base ++ prof_elems (done ++ gs)).
Proof.
  intros Hb. induction gs as [|g rest IH]; intros done; cbn [add_profiles_v].
  - rewrite app_nil_r. apply rstep_id.
  - eapply rstep_seq; [apply rstep_profile; exact Hb|]. replace (done ++ g :: rest) with ((done ++ [g]) ++ rest) by (now rewrite <- app_assoc). apply IH.
Qed.
Lemma rstep_profiles0 dst base gs : Forall (fun x => node_is PROFILES x = false) base ->
  rstep (add_profiles_v fixed dst gs) dst base (base ++ prof_elems gs).
Proof.
  intros Hb. pose proof (rstep_profiles dst base gs Hb []) as H. change (prof_elems []) with (@nil rtree) in H.
  rewrite app_nil_r in H. exact H.
Qed.

(* ------------------------------------------------------------------ RelationBuilder::build *)
Definition bbase (name : str) (ver : verspec) (q : option str) : list rtree :=
  Tok IDENT name :: (match q with Some q => [archqual_node q] | None => [] end) ++
  (match ver with Some (vc, s) => [t_space; version_node vc s] | None => [] end).
Lemma bbase_no k name ver q : k = ARCHITECTURES \/ k = PROFILES -> Forall (fun x => node_is k x = false) (bbase name ver q).
Proof. intros [-> | ->]; destruct q; destruct ver as [[vc s]|]; repeat constructor. Qed.
Lemma brel_tree_eq r : brel_tree r =
  Node RELATION ((bbase (rr_name r) (rr_ver r) (rr_qual r) ++ (match rr_archs r with Some a => [t_space; architectures_node a] | None => [] end))
                 ++ prof_elems (rr_profs r)).
Proof. unfold brel_tree, bbase, prof_elems. cbn [app]. now rewrite <- !app_assoc. Qed.

Lemma builder_runs name ver q archs profs ts rs dst :
  exists ts' F,
    runs (builder_build_v fixed dst name ver q archs profs) (mk_state ts rs) tt
         (mk_state ts' (map (option_map F) (set_reg_l dst (Some (mk_hnd (length ts) [])) rs))) /\
    nth_error ts' (length ts) = Some (mk_slot true 0 (brel_tree (mk_relrec name q ver archs profs))) /\
    F (mk_hnd (length ts) []) = mk_hnd (length ts) [] /\
    (forall g, h_tid g < length ts -> F g = g) /\
    (forall j, j < length ts -> nth_error ts' j = nth_error ts j).
Proof.
  set (te := length ts). set (ts0 := ts ++ [mk_slot true 0 (relation_new name ver)]).
  set (rs0 := set_reg_l dst (Some (mk_hnd te [])) rs).
  assert (Hr0 : nth_error rs0 dst = Some (Some (mk_hnd te []))) by apply nth_error_set_reg_l_eq.
  assert (HT0 : nth_error ts0 te = Some (mk_slot true 0 (Node RELATION (Tok IDENT name :: match ver with Some (vc, s) => [t_space; version_node vc s] | None => [] end))))
    by apply nth_error_app_at.
  assert (S : rstep ((match q with Some q0 => relation_set_archqual dst q0 | None => ret tt end) ;;
                     (match archs with Some a => relation_set_architectures_v fixed dst a | None => ret tt end) ;;
                     add_profiles_v fixed dst profs) dst
                    (Tok IDENT name :: match ver with Some (vc, s) => [t_space; version_node vc s] | None => [] end)
                    ((bbase name ver q ++ (match archs with Some a => [t_space; architectures_node a] | None => [] end)) ++ prof_elems profs)).
  { eapply rstep_seq; [|eapply rstep_seq].
    - instantiate (1 := bbase name ver q). destruct q as [q0|]; [|apply rstep_id].
      apply rstep_archqual. destruct ver as [[vc s]|]; repeat constructor.
    - instantiate (1 := bbase name ver q ++ (match archs with Some a => [t_space; architectures_node a] | None => [] end)).
      destruct archs as [a|]; [|rewrite app_nil_r; apply rstep_id].
      apply rstep_archs; apply bbase_no; auto.
    - apply rstep_profiles0. apply Forall_app. split; [apply bbase_no; auto|destruct archs; repeat constructor]. }
  destruct (S ts0 rs0 te 0 Hr0 HT0) as (ts' & F & R & T' & A & O).
  assert (Lt0 : length ts0 = Datatypes.S te) by (unfold ts0, te; rewrite app_length; cbn; lia).
  exists ts', F. split; [|split; [|split; [|split]]].
  - unfold builder_build_v. rbind; [apply runs_alloc|]. fold ts0 te. rbind; [apply runs_set_reg|]. fold rs0. exact R.
  - rewrite T', brel_tree_eq. reflexivity.
  - apply A; [cbn [h_tid]; lia|apply above_self].
  - intros g Hg. apply A; [unfold te in *; lia|]. apply above_other. unfold te in *. lia.
  - intros j Hj. rewrite O; [unfold ts0; now rewrite nth_error_app1|unfold te; lia|lia].
Qed.
Lemma brel_new r : rr_qual r = None -> rr_archs r = None -> rr_profs r = [] -> brel_tree r = relation_new (rr_name r) (rr_ver r).
Proof. intros Hq Ha Hp. unfold brel_tree, relation_new. rewrite Hq, Ha, Hp. cbn [app flat_map]. now rewrite !app_nil_r. Qed.

(* build_relation for the record of an operand *)
Lemma build_relation_runs r ts rs dst :
  exists ts' F,
    runs (build_relation fixed dst (rel_spec r)) (mk_state ts rs) tt
         (mk_state ts' (map (option_map F) (set_reg_l dst (Some (mk_hnd (length ts) [])) rs))) /\
    nth_error ts' (length ts) = Some (mk_slot true 0 (brel_tree r)) /\
    F (mk_hnd (length ts) []) = mk_hnd (length ts) [] /\
    (forall g, h_tid g < length ts -> F g = g) /\
    (forall j, j < length ts -> nth_error ts' j = nth_error ts j).
Proof.
  destruct r as [n q v a p]. unfold rel_spec. cbn [rr_name rr_qual rr_ver rr_archs rr_profs].
  assert (Hb : exists ts' F,
    runs (build_relation fixed dst (RSBuild n v q a p)) (mk_state ts rs) tt
         (mk_state ts' (map (option_map F) (set_reg_l dst (Some (mk_hnd (length ts) [])) rs))) /\
    nth_error ts' (length ts) = Some (mk_slot true 0 (brel_tree (mk_relrec n q v a p))) /\
    F (mk_hnd (length ts) []) = mk_hnd (length ts) [] /\
    (forall g, h_tid g < length ts -> F g = g) /\
    (forall j, j < length ts -> nth_error ts' j = nth_error ts j)) by apply builder_runs.
  destruct q as [q0|]; [exact Hb|]. destruct a as [a0|]; [exact Hb|]. destruct p as [|p0 pr]; [|exact Hb].
  exists (ts ++ [mk_slot true 0 (relation_new n v)]), (fun g => g). rewrite map_option_map_id. split; [|split; [|split; [|split]]]; auto.
  - cbn [build_relation]. rbind; [apply runs_alloc|]. apply runs_set_reg.
  - rewrite brel_new by reflexivity. apply nth_error_app_at.
  - intros j Hj. now rewrite nth_error_app1.
Qed.

(* the trees (greens) of the alternatives of an entry operand, built one after the other in temporaries *)
Lemma build_greens_runs e : forall ts rs,
  exists ts' F,
    runs (build_relation_greens fixed (map rel_spec e)) (mk_state ts rs) (map brel_tree e) (mk_state ts' (map (option_map F) rs)) /\
    length ts <= length ts' /\
    (forall g, h_tid g < length ts -> F g = g) /\
    (forall j, j < length ts -> nth_error ts' j = nth_error ts j).
Proof.
  induction e as [|r e IH]; intros ts rs.
  - exists ts, (fun g => g). rewrite map_option_map_id. split; [apply runs_ret|auto].
  - destruct (build_relation_runs r ts (rs ++ [Some (mk_hnd 0 [])]) (length rs)) as (ts1 & F1 & R1 & T1 & S1 & A1 & O1).
    assert (L1 : length ts < length ts1) by (apply nth_error_Some; congruence).
    destruct (IH ts1 (map (option_map F1) rs)) as (ts2 & F2 & R2 & L2 & A2 & O2).
    exists ts2, (fun g => F2 (F1 g)). rewrite <- map_option_map_comp. split; [|split; [lia|split]].
    + cbn [map build_relation_greens]. rbind.
      { eapply runs_eq; [apply runs_scoped|reflexivity|].
        - rbind; [apply runs_push_tmp|]. rbind; [exact R1|]. rewrite set_reg_l_app_len.
          unfold node_of_reg. rbind; [apply runs_get_reg; rewrite map_app, <- (map_length (option_map F1) rs); apply nth_error_app_at|].
          cbn [option_map map]. rewrite S1. eapply runs_node_of; [exact T1|reflexivity].
        - cbn [regs]. now rewrite firstn_map_app_len. }
      rbind; [exact R2|]. rdone.
    + intros g Hg. rewrite (A1 g Hg). apply A2. lia.
    + intros j Hj. rewrite O2 by lia. now apply O1.
Qed.

(* ------------------------------------------------------------------ the operands in the registers of `compile` *)
Lemma new_rel_runs_b r ts tid ri T a b c d :
  nth_error ts tid = Some (mk_slot true ri T) ->
  exists ts' a' b' c' txt,
    runs (run_op fixed (ONewRel 1 (rel_spec r))) (st5 ts (mk_hnd tid []) a b c d) (4%N, txt)
         (st5 ts' (mk_hnd tid []) a' b' c' (Some (mk_hnd (length ts) []))) /\
    nth_error ts' tid = Some (mk_slot true ri T) /\
    nth_error ts' (length ts) = Some (mk_slot true 0 (brel_tree r)) /\ length ts <> tid.
Proof.
  intros HT. pose proof (nth_error_Some_lt _ _ _ HT) as Hlt.
  destruct (build_relation_runs r ts [Some (mk_hnd tid []); a; b; c; d] 4) as (ts' & F & R & T' & S & A & O).
  exists ts', (option_map F a), (option_map F b), (option_map F c), (Some (text (brel_tree r))).
  split; [|split; [rewrite O by exact Hlt; exact HT|split; [exact T'|lia]]].
  cbn [run_op]. change (rreg 1) with 4. unfold st5. eapply runs_try_build; [exact R|].
  cbn [set_reg_l map option_map]. rewrite S, (A (mk_hnd tid [])) by exact Hlt.
  unfold reg_text, node_of_reg. rbind; [rbind; [apply runs_get_reg; reflexivity|]; eapply runs_node_of; [exact T'|reflexivity]|]. rdone.
Qed.
Lemma new_entry_runs_b e ts tid ri T a b c d :
  nth_error ts tid = Some (mk_slot true ri T) ->
  exists ts' te a' b' d' txt,
    runs (run_op fixed (ONewEntry 1 (entry_spec e))) (st5 ts (mk_hnd tid []) a b c d) (4%N, txt)
         (st5 ts' (mk_hnd tid []) a' b' (Some (mk_hnd te [])) d') /\
    nth_error ts' tid = Some (mk_slot true ri T) /\
    nth_error ts' te = Some (mk_slot true 0 (bentry_tree e)) /\ te <> tid.
Proof.
  intros HT. pose proof (nth_error_Some_lt _ _ _ HT) as Hlt.
  destruct (build_greens_runs e ts [Some (mk_hnd tid []); a; b; c; d]) as (ts1 & F & R & L & A & O).
  exists (ts1 ++ [mk_slot true 0 (bentry_tree e)]), (length ts1), (option_map F a), (option_map F b), (option_map F d), (Some (text (bentry_tree e))).
  split; [|split; [apply nth_error_app_l; rewrite O by exact Hlt; exact HT|split; [apply nth_error_app_at|lia]]].
  cbn [run_op]. change (ereg 1) with 3. unfold st5. eapply runs_try_build.
  - unfold build_entry, entry_spec. rbind; [exact R|]. rbind; [apply runs_alloc|]. apply runs_set_reg.
  - cbn [map option_map set_reg_l]. rewrite (A (mk_hnd tid [])) by exact Hlt.
    unfold reg_text, node_of_reg. rbind; [rbind; [apply runs_get_reg; reflexivity|]; eapply runs_node_of; [apply nth_error_app_at|reflexivity]|]. rdone.
Qed.

Lemma snoc_nonws_b a (x : rtree) : ws_elem x = false -> ws_prefix_len (rev (a ++ [x])) = 0.
Proof. intros H. rewrite rev_app_distr. cbn. now rewrite H. Qed.
Lemma brel_no_ws r : ws_prefix_len (children (brel_tree r)) = 0 /\ ws_prefix_len (rev (children (brel_tree r))) = 0.
Proof.
  split; [reflexivity|].
  assert (H : exists a x, children (brel_tree r) = a ++ [x] /\ ws_elem x = false).
  { destruct r as [n q v ar p]. unfold brel_tree. cbn [children rr_name rr_qual rr_ver rr_archs rr_profs].
    set (Q := match q with Some q0 => [archqual_node q0] | None => [] end).
    set (V := match v with Some (vc, ver) => [t_space; version_node vc ver] | None => [] end).
    destruct (list_snoc_cases p) as [->|(p' & g & ->)].
    - cbn [flat_map]. destruct ar as [a0|].
      + exists (Tok IDENT n :: Q ++ V ++ [t_space]), (architectures_node a0). split; [|reflexivity].
        cbn [app]. rewrite ?app_nil_r, <- !app_assoc. reflexivity.
      + cbn [app]. rewrite ?app_nil_r. unfold V. destruct v as [[vc ver]|].
        * exists (Tok IDENT n :: Q ++ [t_space]), (version_node vc ver). split; [|reflexivity]. cbn [app]. now rewrite <- app_assoc.
        * rewrite ?app_nil_r. unfold Q. destruct q as [q0|].
          -- exists [Tok IDENT n], (archqual_node q0). split; reflexivity.
          -- exists [], (Tok IDENT n). split; reflexivity.
    - rewrite flat_map_app. cbn [flat_map]. rewrite app_nil_r.
      exists (Tok IDENT n :: Q ++ V ++ (match ar with Some a0 => [t_space; architectures_node a0] | None => [] end)
              ++ flat_map (fun g0 => [t_space; profiles_node g0]) p' ++ [t_space]), (profiles_node g). split; [|reflexivity].
      cbn [app]. rewrite <- !app_assoc. reflexivity. }
  destruct H as (a & x & -> & Hx). now apply snoc_nonws_b.
Qed.

(* ------------------------------------------------------------------ the machine computes bt_op's functions *)
Theorem bop_step_tree o T T' st :
  is_node T = true -> ereplace_ready o T -> holds st T -> bt_op o T = Ok T' ->
  exists st', run_ops fixed (compile o) st = Ok st' /\ holds st' T'.
Proof.
  intros HnT Hready Hst Ht. unfold bt_op in Ht.
  destruct o; cbn [btop] in Ht; try (apply (op_step_tree_all _ T T' st); [reflexivity|exact HnT|exact Hready|exact Hst|exact Ht]).
  - (* push *)
    destruct Hst as (ts & tid & ri & a & b & c & d & -> & HT). cbn [tt_op] in Ht. injection Ht as <-.
    destruct T as [kT sT|kT csT]; [discriminate|].
    destruct (new_entry_runs_b e ts tid ri _ a b c d HT) as (ts1 & te & a1 & b1 & d1 & txt & R1 & T1 & E1 & Ne).
    destruct (push_runs ts1 tid ri kT csT a1 b1 d1 te [] _ (bentry_tree e) T1 E1 eq_refl) as (ts2 & a2 & b2 & d2 & R2 & T2).
    eexists. split.
    + cbn [compile]. eapply run_ops_cons; [exact R1|]. eapply run_ops_cons; [exact R2|reflexivity].
    + eapply holds_st5. exact T2.
  - (* insert *)
    destruct Hst as (ts & tid & ri & a & b & c & d & -> & HT). cbn [tt_op] in Ht. injection Ht as <-.
    destruct T as [kT sT|kT csT]; [discriminate|].
    destruct (new_entry_runs_b e ts tid ri _ a b c d HT) as (ts1 & te & a1 & b1 & d1 & txt & R1 & T1 & E1 & Ne).
    destruct (insert_runs i ts1 tid ri kT csT a1 b1 d1 te [] _ (bentry_tree e) T1 E1 eq_refl) as (ts2 & a2 & b2 & d2 & R2 & T2).
    eexists. split.
    + cbn [compile]. eapply run_ops_cons; [exact R1|]. eapply run_ops_cons; [exact R2|reflexivity].
    + eapply holds_st5. exact T2.
  - (* replace *)
    destruct Hst as (ts & tid & ri & a & b & c & d & -> & HT). cbn [tt_op] in Ht.
    destruct (entry_pos T i) as [ci|] eqn:Ep; [|discriminate]. injection Ht as <-.
    destruct (entry_pos_split _ _ _ Ep) as (k & pre & E & post & -> & <- & PE).
    destruct (new_entry_runs_b e ts tid ri _ a b c d HT) as (ts1 & te & a1 & b1 & d1 & txt & R1 & T1 & E1 & Ne).
    destruct (replace_runs_gen k pre E post _ ts1 tid ri a1 b1 d1 te 0 i T1 Ep E1 ltac:(congruence))
      as (ts2 & a2 & b2 & d2 & R2 & T2).
    eexists. split.
    + cbn [compile]. eapply run_ops_cons; [exact R1|]. eapply run_ops_cons; [exact R2|reflexivity].
    + eapply holds_st5. rewrite T2. cbn [children set_children ekind]. now rewrite replace_at_split.
  - (* Entry::push *)
    destruct Hst as (ts & tid & ri & a & b & c & d & -> & HT). cbn [tt_op] in Ht.
    destruct (entry_pos T i) as [ci|] eqn:Ep; [|discriminate]. injection Ht as <-.
    destruct (entry_pos_split _ _ _ Ep) as (k & pre & E & post & -> & <- & PE).
    destruct (new_rel_runs_b r ts tid ri _ a b c d HT) as (ts1 & a1 & b1 & c1 & txt & R1 & T1 & N1 & Ne).
    pose proof (get_entry_runs_gen _ i (length pre) ts1 tid ri a1 b1 c1 (Some (mk_hnd (length ts) [])) T1 Ep) as R2.
    destruct (is_entry_node _ PE) as (ecs & ->).
    destruct (epush_runs_gen k pre ENTRY ecs post (brel_tree r) ts1 tid ri b1 c1 (length ts) [] _ T1 N1 eq_refl)
      as (ts3 & a3 & b3 & c3 & x & R3 & T3).
    eexists. split.
    + cbn [compile]. eapply run_ops_cons; [exact R1|]. eapply run_ops_cons; [exact R2|].
      eapply run_ops_cons; [exact R3|reflexivity].
    + eapply holds_st5. rewrite T3. f_equal. f_equal. cbn [upd_path]. now rewrite upd_nth_app_r.
  - (* Entry::replace *)
    cbn [ereplace_ready] in Hready.
    destruct Hst as (ts & tid & ri & a & b & c & d & -> & HT). cbn [tt_op] in Ht.
    destruct (rel_pos T i j) as [[ci cj]|] eqn:Ep; [|destruct (entry_pos T i); discriminate]. injection Ht as <-.
    destruct (rel_pos_inv _ _ _ _ _ Ep) as (E & P1 & P2 & P3 & _).
    destruct (entry_pos_split _ _ _ P1) as (k & epre & E' & epost & -> & <- & PE).
    unfold child_at in P2. cbn [children] in P2. rewrite nth_error_app_len in P2. injection P2 as <-.
    destruct (is_entry_node _ PE) as (ecs & ->). cbn [children] in *.
    destruct (nth_index_split _ _ _ _ P3) as (pre & x & post & -> & <- & Px).
    destruct (is_relation_node _ Px) as (ocs & ->).
    assert (Hh : ws_prefix_len ocs = 0).
    { apply (Hready (length epre) (length pre) (Node RELATION ocs) eq_refl).
      cbn [get_path children]. rewrite nth_error_app_len. cbn [children]. now rewrite nth_error_app_len. }
    destruct (new_rel_runs_b r ts tid ri _ a b c d HT) as (ts1 & a1 & b1 & c1 & txt & R1 & T1 & N1 & Ne).
    pose proof (get_entry_runs_gen _ i (length epre) ts1 tid ri a1 b1 c1 (Some (mk_hnd (length ts) [])) T1 P1) as R2.
    destruct (brel_no_ws r) as [Wh Wt].
    destruct (ereplace_runs_new k epre epost pre ocs post (children (brel_tree r)) j ts1 tid ri b1 c1 (length ts) 0
                T1 N1 ltac:(congruence) P3 Hh Wh Wt) as (ts3 & a3 & b3 & c3 & xx & R3 & T3).
    eexists. split.
    + cbn [compile]. eapply run_ops_cons; [exact R1|]. eapply run_ops_cons; [exact R2|].
      eapply run_ops_cons; [exact R3|reflexivity].
    + eapply holds_st5. rewrite T3. f_equal. f_equal. cbn [upd_path]. rewrite upd_nth_app_r. cbn [upd_path].
      now rewrite upd_nth_app_r.
Qed.
