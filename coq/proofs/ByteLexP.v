(* Boundary safety of the deb822 lexer at the byte level (C01/C02): the byte-level transcription
   ByteLex.v never reaches a slicing panic and computes exactly the token list of the char-level
   model Deb822Lex.v, for every input.  The reason is stated once, over the character classes
   REGENERATED FROM THE SOURCE (gen/Classes_gen.v): every constant-width slice follows a guard
   that forces a one-byte character (`:`; is_newline; is_indent are subsets of ASCII); every other
   slice is at an offset returned by `find` (or the length), or is `c.len_utf8()` wide. *)
From V.model Require Import Base Utf8 Deb822Lex ByteLex.
From V.gen Require Import Classes_gen ByteSites_gen.
From V.proofs Require Import BaseP Utf8P Deb822LexP SourceTablesP.

(* ------------------------------------------------------------------ the class facts *)
(* a class all of whose members are below 128: decided on the generated formula.  If the source
   class grows a member >= 128 (say U+0085 in is_newline, two bytes) the `lia` fails. *)
Ltac ascii_class :=
  intros c H; apply ulen_ascii;
  repeat match type of H with
  | context [(?a =? ?b)%N] =>
      let E := fresh "E" in destruct (a =? b)%N eqn:E; [apply N.eqb_eq in E; subst; lia|]
  end; cbn in H; discriminate H.

Lemma is_newline_src_one_byte : forall c, is_newline_src c = true -> ulen c = 1.
Proof. unfold is_newline_src. ascii_class. Qed.
Lemma is_indent_src_one_byte : forall c, is_indent_src c = true -> ulen c = 1.
Proof. unfold is_indent_src. ascii_class. Qed.
Lemma colon_one_byte : ulen 58 = 1.
Proof. reflexivity. Qed.

Lemma is_newline_one_byte c : is_newline c = true -> ulen c = 1.
Proof. rewrite is_newline_src_eq. apply is_newline_src_one_byte. Qed.
Lemma is_indent_one_byte c : is_indent c = true -> ulen c = 1.
Proof. rewrite is_indent_src_eq. apply is_indent_src_one_byte. Qed.

(* the first character of a KEY token belongs to the class the rest of the token is scanned with *)
Lemma initial_key_char_src_is_key_char c :
  is_valid_initial_key_char_src c = true -> is_valid_key_char_src c = true.
Proof. unfold is_valid_initial_key_char_src. intros H. apply andb_prop in H. apply H. Qed.
Lemma initial_key_char_is_key_char c : is_valid_initial_key_char c = true -> is_valid_key_char c = true.
Proof. rewrite is_valid_initial_key_char_src_eq, is_valid_key_char_src_eq. apply initial_key_char_src_is_key_char. Qed.

(* ------------------------------------------------------------------ the slices of the arms *)
Lemma split_one (c : char) (r : str) : ulen c = 1 -> split_at_b (c :: r) 1 = Ok ([c], r).
Proof. intros H. rewrite <- H. apply split_at_b_first. Qed.

Lemma split_one_multibyte (c : char) (r : str) :
  ulen c <> 1 -> split_at_b (c :: r) 1 = Panic site_not_boundary.
Proof. intros H. pose proof (ulen_pos c). apply split_at_b_inside; lia. Qed.

Lemma split_find_span (p : char -> bool) (s : str) :
  split_find p s = Ok (span (fun x => negb (p x)) s).
Proof. apply split_at_find. Qed.

Lemma span_head {A} (p : A -> bool) (c : A) (r : list A) :
  p c = true -> span p (c :: r) = let '(a, b) := span p r in (c :: a, b).
Proof. intros H. cbn [span]. rewrite H. reflexivity. Qed.

(* ------------------------------------------------------------------ one step *)
(* the char-level state abstracts the source's: colon_count > 0, indent > 0 *)
Definition st_rel (st : lst) (b : bst) : Prop :=
  sol st = b_sol b /\ colon st = negb (b_colon b =? 0) /\ ind st = negb (b_indent b =? 0).

Lemma blex_step_refines st b c r t st' r' :
  st_rel st b -> lex_step st c r = Ok (t, st', r') ->
  exists b', blex_step b (c :: r) c = Ok (t, b', r') /\ st_rel st' b'.
Proof.
  destruct st as [s co i]. destruct b as [bs bc bi]. unfold st_rel. cbn [sol colon ind b_sol b_colon b_indent].
  intros (-> & -> & ->) H. unfold lex_step in H. unfold blex_step.
  cbn [sol colon ind b_sol b_colon b_indent] in *. rewrite !negb_involutive in H.
  rewrite <- andb_assoc in H.
  destruct ((c =? 58)%N && ((bc =? 0) && (bi =? 0))) eqn:A1.
  { (* COLON: &input[1..] after the guard c = ':' *)
    apply andb_prop in A1. destruct A1 as [Ec A1]. apply N.eqb_eq in Ec. subst c.
    injection H as <- <- <-. unfold slice_from_b. rewrite (split_one 58 r colon_one_byte).
    cbn [rmap bind snd]. eexists. split; [reflexivity|].
    cbn [b_sol b_colon b_indent]. repeat split. destruct bc; reflexivity. }
  destruct (is_newline c) eqn:A2.
  { (* NEWLINE: split_at(1) after the guard is_newline(c) *)
    injection H as <- <- <-. rewrite (split_one c r (is_newline_one_byte c A2)). cbn [bind].
    eexists. split; [reflexivity|]. repeat split. }
  destruct (is_indent c) eqn:A3.
  { (* INDENT / WHITESPACE: split at find(!is_indent) *)
    rewrite split_find_span.
    rewrite (span_ext (fun x => negb (negb (is_indent x))) is_indent) by (intros x; apply negb_involutive).
    rewrite (span_head is_indent c r A3). destruct (span is_indent r) as [w rr]. cbn [bind].
    destruct bs; injection H as <- <- <-; (eexists; split; [reflexivity|]); repeat split.
    cbn [b_indent len_b]. pose proof (ulen_pos c). destruct (ulen c + len_b w) eqn:E; [lia|reflexivity]. }
  destruct ((c =? 35)%N && bs) eqn:A4.
  { (* COMMENT: split at find(is_newline) *)
    rewrite split_find_span. rewrite (span_head (fun x => negb (is_newline x)) c r) by (rewrite A2; reflexivity).
    destruct (span (fun x => negb (is_newline x)) r) as [w rr]. cbn [bind].
    injection H as <- <- <-. eexists. split; [reflexivity|]. repeat split. }
  assert (A5' : is_valid_initial_key_char c && bs && (bi =? 0) =
                is_valid_initial_key_char c && (bs && (bi =? 0))).
  { rewrite andb_assoc. reflexivity. }
  rewrite A5' in H. clear A5'.
  destruct (is_valid_initial_key_char c && (bs && (bi =? 0))) eqn:A5.
  { (* KEY: split at find(!is_valid_key_char) *)
    apply andb_prop in A5. destruct A5 as [Ek A5].
    rewrite split_find_span.
    rewrite (span_ext (fun x => negb (negb (is_valid_key_char x))) is_valid_key_char) by (intros x; apply negb_involutive).
    rewrite (span_head is_valid_key_char c r (initial_key_char_is_key_char c Ek)).
    destruct (span is_valid_key_char r) as [w rr]. cbn [bind].
    injection H as <- <- <-. eexists. split; [reflexivity|]. repeat split. }
  assert (A6' : negb bs || negb (bi =? 0) = negb bs || (0 <? bi)).
  { destruct bi; reflexivity. }
  rewrite A6' in H. clear A6'.
  destruct (negb bs || (0 <? bi)) eqn:A6.
  { (* VALUE: split at find(is_newline) *)
    rewrite split_find_span. rewrite (span_head (fun x => negb (is_newline x)) c r) by (rewrite A2; reflexivity).
    destruct (span (fun x => negb (is_newline x)) r) as [w rr]. cbn [bind].
    injection H as <- <- <-. eexists. split; [reflexivity|]. repeat split. }
  (* ERROR: split_at(c.len_utf8()) *)
  rewrite split_at_b_first. cbn [bind]. injection H as <- <- <-.
  eexists. split; [reflexivity|]. repeat split.
Qed.

(* ------------------------------------------------------------------ the written-out closure is the table *)
Lemma tstep_lex_arms st input c : tstep lex_arms st input c = blex_step st input c.
Proof.
  unfold lex_arms, blex_step, tstep, arm_fires, run_arm, split_find.
  cbn [a_guard a_conds a_slice a_upds a_emit guard_holds cond_holds forallb cls_pred do_slice
       find_pred fold_left do_upd do_emit kind_of_code b_sol b_colon b_indent].
  rewrite !andb_true_r. cbn [andb].
  repeat match goal with
  | |- (if ?b then _ else _) = (if ?b then _ else _) => destruct b
  end;
  unfold slice_from_b, rmap, bind;
  match goal with |- context [split_at_b input ?o] => destruct (split_at_b input o) as [[a b]| | |] end;
  try reflexivity; try (destruct (b_sol st); reflexivity); destruct st; reflexivity.
Qed.

(* ------------------------------------------------------------------ the whole lexer *)
Lemma tlex_go_refines fuel : forall st b s ts,
  st_rel st b -> lex_go fuel st s = Ok ts -> tlex_go lex_arms fuel b s = Ok ts.
Proof.
  induction fuel as [|f IH]; intros st b s ts R H.
  - destruct s; cbn in H |- *; [exact H|discriminate].
  - destruct s as [|c r]; [exact H|]. cbn [lex_go] in H. cbn [tlex_go].
    destruct (lex_step st c r) as [[[t st'] r']| | |] eqn:E; try discriminate.
    destruct (lex_go f st' r') as [ts'| | |] eqn:E2; try discriminate.
    injection H as <-.
    destruct (blex_step_refines st b c r t st' r' R E) as (b' & Eb & R').
    rewrite tstep_lex_arms, Eb. rewrite (IH st' b' r' ts' R' E2). reflexivity.
Qed.

Lemma st_rel_init sol0 : st_rel (lst_init sol0) (bst_init sol0).
Proof. destruct sol0; repeat split. Qed.

(* For EVERY input: the byte-level lexer returns a token list — no slice is off a character
   boundary or out of range, the fuel suffices — and it is the char-level lexer's list. *)
Theorem bytelex_safe (sol0 : bool) (s : str) :
  exists ts, bytelex_ sol0 s = Ok ts /\ lex_ sol0 s = Ok ts.
Proof.
  destruct (lex_total sol0 s) as [ts E]. exists ts. split; [|exact E].
  unfold bytelex_. unfold lex_ in E. exact (tlex_go_refines _ _ _ _ _ (st_rel_init sol0) E).
Qed.

Corollary bytelex_eq (sol0 : bool) (s : str) : bytelex_ sol0 s = lex_ sol0 s.
Proof. destruct (bytelex_safe sol0 s) as (ts & -> & ->). reflexivity. Qed.

(* the byte-level lexer partitions its input into non-empty tokens *)
Corollary bytelex_partition (sol0 : bool) (s : str) : exists ts,
  bytelex_ sol0 s = Ok ts /\ concat (map snd ts) = s /\ Forall (fun t => snd t <> []) ts.
Proof.
  destruct (bytelex_safe sol0 s) as (ts & E & El). exists ts. split; [exact E|].
  exact (lex_partition sol0 s ts El).
Qed.

(* ------------------------------------------------------------------ tie to the source *)
(* the arms translate/bytesites.py read from src/lex.rs on this run are the transcribed ones *)
Lemma lex_arms_src_ok : lex_sites_recognised = true /\ lex_arms_src = lex_arms.
Proof. split; reflexivity. Qed.

Theorem bytelex_src_safe (sol0 : bool) (s : str) :
  exists ts, tlex_go lex_arms_src (length s) (bst_init sol0) s = Ok ts /\ lex_ sol0 s = Ok ts.
Proof. rewrite (proj2 lex_arms_src_ok). apply bytelex_safe. Qed.

(* ------------------------------------------------------------------ the defect fixed by d200b95 *)
(* the pre-fix ERROR arm (`split_at(1)`) panics on "é" — and on every character of more than one
   byte in column 0 that is not a key character *)
Lemma bytelex_prefix_refuted : bytelex_prefix [233%N] = Panic site_not_boundary.
Proof. reflexivity. Qed.

Lemma bytelex_prefix_panics (c : char) (r : str) :
  (128 <= c)%N -> bytelex_prefix (c :: r) = Panic site_not_boundary.
Proof.
  intros Hc. assert (U : ulen c <> 1) by (intros U; apply ulen_ascii in U; lia).
  unfold bytelex_prefix. cbn [length tlex_go].
  assert (N1 : (c =? 58)%N = false) by (apply N.eqb_neq; lia).
  assert (N2 : is_newline c = false).
  { destruct (is_newline c) eqn:E; [|reflexivity]. apply is_newline_one_byte in E. contradiction. }
  assert (N3 : is_indent c = false).
  { destruct (is_indent c) eqn:E; [|reflexivity]. apply is_indent_one_byte in E. contradiction. }
  assert (N4 : (c =? 35)%N = false) by (apply N.eqb_neq; lia).
  assert (N5 : is_valid_initial_key_char c = false).
  { unfold is_valid_initial_key_char, is_valid_key_char, is_ascii_graphic.
    replace (c <=? 126)%N with false by (symmetry; apply N.leb_gt; lia).
    rewrite andb_false_r. cbn [andb]. apply andb_false_r. }
  unfold lex_arms_prefix, lex_arms. cbn [firstn app tstep].
  unfold arm_fires.
  cbn [a_guard a_conds guard_holds cond_holds forallb cls_pred bst_init b_sol b_colon b_indent].
  rewrite N1, N2, N3, N4, N5. cbn [andb negb orb Nat.ltb Nat.leb Nat.eqb].
  unfold run_arm. cbn [a_slice do_slice]. rewrite (split_one_multibyte c r U). reflexivity.
Qed.
