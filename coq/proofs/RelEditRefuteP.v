(* Lemmas about RelEdit.v (C11), part 4: concrete witnesses, by evaluation.  For every defect
   of the shipped code: the failing history on [shipped], the same history on the variant that
   lacks only that fix (so each fix is necessary), and on [fixed].  Generated texts are spelled
   out as code points. *)
From V.model Require Import Base RelLex RelParse RelEdit RelEditSpec.

Definition without_insert_first : variant := mk_variant false true true true true true true true true true true.
Definition without_append_sep : variant := mk_variant true false true true true true true true true true true.
Definition without_pipe : variant := mk_variant true true false true true true true true true true true.
Definition without_mut_root : variant := mk_variant true true true false true true true true true true true.
Definition without_add_profile : variant := mk_variant true true true true false true true true true true true.
Definition without_entry_push : variant := mk_variant true true true true true false true true true true true.
Definition without_builder_archs : variant := mk_variant true true true true true true false true true true true.
Definition without_version_pos : variant := mk_variant true true true true true true true false true true true.
Definition without_remove_last : variant := mk_variant true true true true true true true true false true true.
Definition without_first_substvar : variant := mk_variant true true true true true true true true true false true.
Definition without_replace_ws : variant := mk_variant true true true true true true true true true true false.

(* insert(0, b) into "a": the separator is left out, the names fuse *)
Lemma insert_first_shipped :
  run_text shipped (IStrict [97]%N) [ONewEntry 1 (ESParse [98]%N); OInsert 0 1] = Ok [98; 97]%N.
Proof. vm_compute. reflexivity. Qed.
Lemma insert_first_needed :
  run_text without_insert_first (IStrict [97]%N) [ONewEntry 1 (ESParse [98]%N); OInsert 0 1] = Ok [98; 97]%N.
Proof. vm_compute. reflexivity. Qed.
Lemma insert_first_fixed :
  run_text fixed (IStrict [97]%N) [ONewEntry 1 (ESParse [98]%N); OInsert 0 1] = Ok [98; 44; 32; 97]%N.
Proof. vm_compute. reflexivity. Qed.

(* Entry::from(vec![a, b]).remove_relation(0): the '|' is stored under kind COMMA, "Unexpected node" *)
Lemma pipe_shipped :
  run_text shipped (IFromVec [ESFromVec [(RSSimple [97]%N); (RSSimple [98]%N)]]) [OGetEntry 0 0; OERemoveRel 0 0] = Panic 43%N.
Proof. vm_compute. reflexivity. Qed.
Lemma pipe_needed :
  run_text without_pipe (IFromVec [ESFromVec [(RSSimple [97]%N); (RSSimple [98]%N)]]) [OGetEntry 0 0; OERemoveRel 0 0] = Panic 43%N.
Proof. vm_compute. reflexivity. Qed.
Lemma pipe_fixed :
  run_text fixed (IFromVec [ESFromVec [(RSSimple [97]%N); (RSSimple [98]%N)]]) [OGetEntry 0 0; OERemoveRel 0 0] = Ok [98]%N.
Proof. vm_compute. reflexivity. Qed.

(* set_architectures on a relation inside a field: the re-built relation is an immutable tree *)
Lemma mut_root_shipped :
  run_text shipped (IStrict [97; 44; 32; 98]%N) [OGetEntry 0 0; OGetRel 0 0 0; OSetArchs 0 [[97; 109; 100; 54; 52]%N]] = Panic 30%N.
Proof. vm_compute. reflexivity. Qed.
Lemma mut_root_needed :
  run_text without_mut_root (IStrict [97; 44; 32; 98]%N) [OGetEntry 0 0; OGetRel 0 0 0; OSetArchs 0 [[97; 109; 100; 54; 52]%N]] = Panic 30%N.
Proof. vm_compute. reflexivity. Qed.
Lemma mut_root_fixed :
  run_text fixed (IStrict [97; 44; 32; 98]%N) [OGetEntry 0 0; OGetRel 0 0 0; OSetArchs 0 [[97; 109; 100; 54; 52]%N]] = Ok [97; 32; 91; 97; 109; 100; 54; 52; 93; 44; 32; 98]%N.
Proof. vm_compute. reflexivity. Qed.

Lemma mut_root_twice_shipped :
  run_text shipped INew [ONewRel 0 (RSSimple [97]%N); OSetArchs 0 [[97; 109; 100; 54; 52]%N]; OSetArchs 0 [[105; 51; 56; 54]%N]] = Panic 33%N.
Proof. vm_compute. reflexivity. Qed.
Lemma mut_root_builder_shipped :
  run_text shipped INew [ONewRel 0 (RSBuild [97]%N None None [] [[PEnabled [120]%N]; [PEnabled [121]%N]])] = Panic 33%N.
Proof. vm_compute. reflexivity. Qed.
Lemma mut_root_builder_fixed :
  run_text fixed INew [ONewEntry 1 (ESFromVec [RSBuild [97]%N None None [] [[PEnabled [120]%N]; [PDisabled [121]%N]]]); OPush 1] = Ok [97; 32; 60; 120; 62; 32; 60; 33; 121; 62]%N.
Proof. vm_compute. reflexivity. Qed.

(* add_profile replaces the first profile group *)
Lemma add_profile_shipped :
  run_text shipped (IStrict [97; 32; 60; 120; 62]%N) [OGetEntry 0 0; OGetRel 0 0 0; OAddProfile 0 [PEnabled [121]%N]] = Ok [97; 32; 60; 121; 62]%N.
Proof. vm_compute. reflexivity. Qed.
Lemma add_profile_needed :
  run_text without_add_profile (IStrict [97; 32; 60; 120; 62]%N) [OGetEntry 0 0; OGetRel 0 0 0; OAddProfile 0 [PEnabled [121]%N]] = Ok [97; 32; 60; 121; 62]%N.
Proof. vm_compute. reflexivity. Qed.
Lemma add_profile_fixed :
  run_text fixed (IStrict [97; 32; 60; 120; 62]%N) [OGetEntry 0 0; OGetRel 0 0 0; OAddProfile 0 [PEnabled [121]%N]] = Ok [97; 32; 60; 120; 62; 32; 60; 121; 62]%N.
Proof. vm_compute. reflexivity. Qed.

(* Entry::push through a handle: the entry is replaced by a copy of the whole ROOT *)
Lemma entry_push_shipped :
  run_text shipped (IStrict [97; 44; 32; 98]%N) [ONewRel 1 (RSSimple [99]%N); OGetEntry 0 0; OEPush 0 1] = Ok [97; 32; 124; 32; 99; 44; 32; 98; 44; 32; 98]%N.
Proof. vm_compute. reflexivity. Qed.
Lemma entry_push_needed :
  run_text without_entry_push (IStrict [97; 44; 32; 98]%N) [ONewRel 1 (RSSimple [99]%N); OGetEntry 0 0; OEPush 0 1] = Ok [97; 32; 124; 32; 99; 44; 32; 98; 44; 32; 98]%N.
Proof. vm_compute. reflexivity. Qed.
Lemma entry_push_fixed :
  run_text fixed (IStrict [97; 44; 32; 98]%N) [ONewRel 1 (RSSimple [99]%N); OGetEntry 0 0; OEPush 0 1] = Ok [97; 32; 124; 32; 99; 44; 32; 98]%N.
Proof. vm_compute. reflexivity. Qed.

(* push after a trailing comma duplicates the separator *)
Lemma append_sep_shipped :
  run_text shipped (IStrict [97; 44; 32]%N) [ONewEntry 1 (ESParse [122]%N); OPush 1] = Ok [97; 44; 32; 44; 32; 122]%N.
Proof. vm_compute. reflexivity. Qed.
Lemma append_sep_needed :
  run_text without_append_sep (IStrict [97; 44; 32]%N) [ONewEntry 1 (ESParse [122]%N); OPush 1] = Ok [97; 44; 32; 44; 32; 122]%N.
Proof. vm_compute. reflexivity. Qed.
Lemma append_sep_fixed :
  run_text fixed (IStrict [97; 44; 32]%N) [ONewEntry 1 (ESParse [122]%N); OPush 1] = Ok [97; 44; 32; 122]%N.
Proof. vm_compute. reflexivity. Qed.

Lemma append_sep_substvar_shipped :
  run_text shipped (IRelaxed [36; 123; 120; 125]%N) [ONewEntry 1 (ESParse [98]%N); OPush 1] = Ok [36; 123; 120; 125; 98]%N.
Proof. vm_compute. reflexivity. Qed.
Lemma append_sep_substvar_fixed :
  run_text fixed (IRelaxed [36; 123; 120; 125]%N) [ONewEntry 1 (ESParse [98]%N); OPush 1] = Ok [36; 123; 120; 125; 44; 32; 98]%N.
Proof. vm_compute. reflexivity. Qed.

(* RelationBuilder::build always sets an (empty) architecture list *)
Lemma builder_archs_shipped :
  run_text shipped INew [ONewEntry 1 (ESFromVec [RSBuild [97]%N None None [] []]); OPush 1] = Ok [97; 32; 91; 93]%N.
Proof. vm_compute. reflexivity. Qed.
Lemma builder_archs_needed :
  run_text without_builder_archs INew [ONewEntry 1 (ESFromVec [RSBuild [97]%N None None [] []]); OPush 1] = Ok [97; 32; 91; 93]%N.
Proof. vm_compute. reflexivity. Qed.
Lemma builder_archs_fixed :
  run_text fixed INew [ONewEntry 1 (ESFromVec [RSBuild [97]%N None None [] []]); OPush 1] = Ok [97]%N.
Proof. vm_compute. reflexivity. Qed.

(* set_version puts the constraint between the name and its qualifier *)
Lemma version_pos_shipped :
  run_text shipped (IStrict [97; 58; 97; 110; 121]%N) [OGetEntry 0 0; OGetRel 0 0 0; OSetVersion 0 (Some (VGe, [49]%N))] = Ok [97; 32; 40; 62; 61; 32; 49; 41; 58; 97; 110; 121]%N.
Proof. vm_compute. reflexivity. Qed.
Lemma version_pos_needed :
  run_text without_version_pos (IStrict [97; 58; 97; 110; 121]%N) [OGetEntry 0 0; OGetRel 0 0 0; OSetVersion 0 (Some (VGe, [49]%N))] = Ok [97; 32; 40; 62; 61; 32; 49; 41; 58; 97; 110; 121]%N.
Proof. vm_compute. reflexivity. Qed.
Lemma version_pos_fixed :
  run_text fixed (IStrict [97; 58; 97; 110; 121]%N) [OGetEntry 0 0; OGetRel 0 0 0; OSetVersion 0 (Some (VGe, [49]%N))] = Ok [97; 58; 97; 110; 121; 32; 40; 62; 61; 32; 49; 41]%N.
Proof. vm_compute. reflexivity. Qed.

Lemma version_pos_unreadable : reads_clean [97; 32; 40; 62; 61; 32; 49; 41; 58; 97; 110; 121]%N = false /\ reads_clean [97; 58; 97; 110; 121; 32; 40; 62; 61; 32; 49; 41]%N = true.
Proof. vm_compute. split; reflexivity. Qed.

(* removing the only alternative leaves an empty entry and its separator *)
Lemma remove_last_shipped :
  run_text shipped (IStrict [97; 44; 32; 98]%N) [OGetEntry 0 0; OGetRel 0 0 0; ORRemove 0] = Ok [44; 32; 98]%N.
Proof. vm_compute. reflexivity. Qed.
Lemma remove_last_needed :
  run_text without_remove_last (IStrict [97; 44; 32; 98]%N) [OGetEntry 0 0; OGetRel 0 0 0; ORRemove 0] = Ok [44; 32; 98]%N.
Proof. vm_compute. reflexivity. Qed.
Lemma remove_last_fixed :
  run_text fixed (IStrict [97; 44; 32; 98]%N) [OGetEntry 0 0; OGetRel 0 0 0; ORRemove 0] = Ok [98]%N.
Proof. vm_compute. reflexivity. Qed.

(* removing the first entry after a substitution variable leaves the separator dangling *)
Lemma first_substvar_shipped :
  run_text shipped (IRelaxed [36; 123; 120; 125; 44; 32; 98]%N) [ORemoveEntry 0] = Ok [36; 123; 120; 125; 44; 32]%N.
Proof. vm_compute. reflexivity. Qed.
Lemma first_substvar_needed :
  run_text without_first_substvar (IRelaxed [36; 123; 120; 125; 44; 32; 98]%N) [ORemoveEntry 0] = Ok [36; 123; 120; 125; 44; 32]%N.
Proof. vm_compute. reflexivity. Qed.
Lemma first_substvar_fixed :
  run_text fixed (IRelaxed [36; 123; 120; 125; 44; 32; 98]%N) [ORemoveEntry 0] = Ok [36; 123; 120; 125]%N.
Proof. vm_compute. reflexivity. Qed.

(* Entry::replace with a relation that ends in white space deletes its name *)
Lemma replace_ws_shipped :
  run_text shipped (IStrict [97; 32; 124; 32; 98]%N) [ONewRel 1 (RSParse [99; 32]%N); OGetEntry 0 0; OEReplace 0 1 1] = Ok [97; 32; 124; 32; 32]%N.
Proof. vm_compute. reflexivity. Qed.
Lemma replace_ws_needed :
  run_text without_replace_ws (IStrict [97; 32; 124; 32; 98]%N) [ONewRel 1 (RSParse [99; 32]%N); OGetEntry 0 0; OEReplace 0 1 1] = Ok [97; 32; 124; 32; 32]%N.
Proof. vm_compute. reflexivity. Qed.
Lemma replace_ws_fixed :
  run_text fixed (IStrict [97; 32; 124; 32; 98]%N) [ONewRel 1 (RSParse [99; 32]%N); OGetEntry 0 0; OEReplace 0 1 1] = Ok [97; 32; 124; 32; 99]%N.
Proof. vm_compute. reflexivity. Qed.

(* the recorded finding (class c11-handle-after-rebuild): an entry handle obtained before
   Relations::push keeps pointing into the old tree; a later edit through it is not visible *)
Lemma stale_handle_shipped :
  run_text shipped (IStrict [97; 44; 32; 98]%N) [OGetEntry 0 0; ONewEntry 1 (ESParse [99]%N); OPush 1; ONewRel 1 (RSSimple [120]%N); OEPush 0 1] = Ok [97; 44; 32; 98; 44; 32; 99]%N.
Proof. vm_compute. reflexivity. Qed.
Lemma stale_handle_fixed :
  run_text fixed (IStrict [97; 44; 32; 98]%N) [OGetEntry 0 0; ONewEntry 1 (ESParse [99]%N); OPush 1; ONewRel 1 (RSSimple [120]%N); OEPush 0 1] = Ok [97; 44; 32; 98; 44; 32; 99]%N.
Proof. vm_compute. reflexivity. Qed.
Lemma fresh_handle_fixed :
  run_text fixed (IStrict [97; 44; 32; 98]%N) [ONewEntry 1 (ESParse [99]%N); OPush 1; OGetEntry 0 0; ONewRel 1 (RSSimple [120]%N); OEPush 0 1] = Ok [97; 32; 124; 32; 120; 44; 32; 98; 44; 32; 99]%N.
Proof. vm_compute. reflexivity. Qed.
