(* Completeness of the liberal layouts: every token list that the parser reads WITHOUT ERROR is the
   token list of a liberal layout.  Inversion of the parser state machine: a routine that leaves
   the error count unchanged has consumed exactly the tokens of one piece of a layout.
   Only the remaining tokens and the error count of a state matter here; since the tree is a
   function of the layout's tokens (RelGrammarAllParseP.parse_atoks), it comes for free. *)
From V.model Require Import Base RelLex RelParse RelAcc RelGrammar RelGrammarAll.
From V.proofs Require Import BaseP RelLexP RelParseP RelGrammarLexP RelGrammarParseP RelLexInvP RelGrammarAllParseP.

Transparent bump skip_ws error expect in_node out_of_fuel version_text version_run cur_is_vtok.

Notation T := toks (only parsing).
Notation E := nerr (only parsing).
Definition vts (ts : list rtoken) : Prop := Forall (fun t => tok_valid t = true) ts.

(* ---- error count ---- *)
Lemma E_le_step a b : step a b -> nerr a <= nerr b.
Proof. intros (_ & _ & H). exact H. Qed.
Lemma L_le_step a b : step a b -> length (toks b) <= length (toks a).
Proof. intros (_ & H & _). exact H. Qed.

Lemma E_bump s : nerr (bump s) = nerr s.
Proof. unfold bump. destruct (toks s) as [|[k x] r]; reflexivity. Qed.
Lemma E_error s : nerr (error s) = S (nerr s).
Proof. unfold error, in_node. cbn [nerr]. destruct (current _); [rewrite E_bump|]; reflexivity. Qed.
Lemma E_skip_ws s : nerr (skip_ws s) = nerr s.
Proof. unfold skip_ws. destruct (skip_ws_l (toks s)). reflexivity. Qed.
Lemma E_reset s : nerr (reset s) = nerr s.
Proof. reflexivity. Qed.
Lemma T_reset s : toks (reset s) = toks s.
Proof. reflexivity. Qed.
Lemma E_in_node k body s : nerr (in_node k body s) = nerr (body (reset s)).
Proof. reflexivity. Qed.

(* ---- valid tokens: punctuation has its canonical text ---- *)
Definition kind_char (k : rkind) : option N :=
  match k with
  | COLON => Some 58 | PIPE => Some 124 | COMMA => Some 44 | L_PARENS => Some 40 | R_PARENS => Some 41
  | L_BRACKET => Some 91 | R_BRACKET => Some 93 | NOT => Some 33 | DOLLAR => Some 36 | L_CURLY => Some 123
  | R_CURLY => Some 125 | L_ANGLE => Some 60 | R_ANGLE => Some 62 | EQUAL => Some 61 | NEWLINE => Some 10
  | _ => None
  end%N.
Lemma single_kind_char c k : single_char_kind c = Some k -> kind_char k = Some c.
Proof.
  unfold single_char_kind. intros H.
  repeat match type of H with
  | context [(c =? ?v)%N] => destruct (N.eqb_spec c v) as [->|_]; [injection H as <-; reflexivity|]
  end. discriminate.
Qed.
Lemma valid_punct k s c : tok_valid (k, s) = true -> kind_char k = Some c -> s = [c].
Proof.
  unfold tok_valid. cbn [fst snd]. intros H Hk. destruct s as [|c0 w]; [discriminate|].
  destruct (single_char_kind c0) as [k0|] eqn:E0.
  - apply andb_true_iff in H. destruct H as [H1 H2]. apply rkind_eqb_eq in H1. subst k0. destruct w; [|discriminate].
    apply single_kind_char in E0. rewrite E0 in Hk. injection Hk as <-. reflexivity.
  - destruct (is_rel_ws c0); [|destruct (is_ident_char c0)]; apply andb_true_iff in H; destruct H as [H1 _];
      apply rkind_eqb_eq in H1; subst k; discriminate.
Qed.

Lemma vts_app a b : vts (a ++ b) -> vts a /\ vts b.
Proof. unfold vts. intros H. apply Forall_app in H. exact H. Qed.
Lemma vts_cons t r : vts (t :: r) -> tok_valid t = true /\ vts r.
Proof. unfold vts. intros H. inversion H; subst. split; assumption. Qed.

(* ---- skip_ws ---- *)
Lemma skip_ws_l_split ts : exists w, wsk w = true /\ ts = w ++ snd (skip_ws_l ts) /\ nowsk (snd (skip_ws_l ts)).
Proof.
  induction ts as [|[k s] t IH]; [exists []; repeat split|].
  cbn [skip_ws_l]. destruct (is_ws_kind k) eqn:Ek.
  - destruct IH as (w & Hw & E & Hn). destruct (skip_ws_l t) as [e r]. cbn [snd] in *.
    exists ((k, s) :: w). split; [cbn [wsk forallb fst]; rewrite Ek; exact Hw|]. split; [cbn [app]; f_equal; exact E|exact Hn].
  - cbn [snd]. exists []. split; [reflexivity|]. split; [reflexivity|]. unfold nowsk. cbn. exact Ek.
Qed.

Lemma T_skip_ws s : toks (skip_ws s) = snd (skip_ws_l (toks s)).
Proof. unfold skip_ws. destruct (skip_ws_l (toks s)). reflexivity. Qed.

Lemma skip_split s : exists w, wsk w = true /\ toks s = w ++ toks (skip_ws s) /\ nowsk (toks (skip_ws s)).
Proof. rewrite T_skip_ws. apply skip_ws_l_split. Qed.

Lemma skip_ws_l_nowsk ts : nowsk ts -> skip_ws_l ts = ([], ts).
Proof. destruct ts as [|[k s] t]; [reflexivity|]. unfold nowsk. cbn. intros ->. reflexivity. Qed.

Lemma T_skip_idem s : toks (skip_ws (skip_ws s)) = toks (skip_ws s).
Proof.
  destruct (skip_split s) as (w & _ & _ & Hn). rewrite (T_skip_ws (skip_ws s)). rewrite (skip_ws_l_nowsk _ Hn). reflexivity.
Qed.

Lemma peek_T s : peek_past_ws s = hd_kind (toks (skip_ws s)).
Proof. rewrite <- current_skip_ws. unfold current. destruct (toks (skip_ws s)) as [|[k x] r]; reflexivity. Qed.

Lemma current_T s : current s = hd_kind (toks s).
Proof. unfold current. destruct (toks s) as [|[k x] r]; reflexivity. Qed.

Lemma T_bump s k x r : toks s = (k, x) :: r -> toks (bump s) = r.
Proof. unfold bump. intros ->. reflexivity. Qed.

(* an error-free expect has matched *)
Lemma inv_expect k s : nerr (expect k s) = nerr s -> exists x, toks s = (k, x) :: toks (expect k s).
Proof.
  unfold expect, cur_is. rewrite current_T. destruct (toks s) as [|[k' x] r] eqn:Et; cbn [hd_kind].
  - rewrite E_error. lia.
  - destruct (rkind_eqb k' k) eqn:Ek; [|rewrite E_error; lia]. intros _. apply rkind_eqb_eq in Ek. subst k'.
    exists x. unfold bump. rewrite Et. reflexivity.
Qed.

(* a state equal up to out/flag behaves the same on tokens: we only ever use T and E *)

(* ================= ${ ... } ================= *)
Lemma inv_substvar_loop fuel : forall s, length (toks s) < fuel -> vts (toks s) ->
  nerr (substvar_loop fuel s) = nerr s ->
  exists body, toks s = map vpiece_tok body ++ toks (substvar_loop fuel s) /\
               match hd_kind (toks (substvar_loop fuel s)) with Some R_CURLY | None => True | _ => False end.
Proof.
  induction fuel as [|f IH]; intros s Hf Hv Hc; [lia|]. cbn [substvar_loop] in *. rewrite current_T in *.
  destruct (toks s) as [|[k x] r] eqn:Et; cbn [hd_kind] in *.
  - exists []. rewrite Et. split; [reflexivity|exact I].
  - destruct (vts_cons _ _ Hv) as [Hvt Hvr].
    assert (Hb : toks (bump s) = r) by (apply (T_bump s k x r Et)).
    assert (Herr : nerr (substvar_loop f (error s)) = nerr s -> False).
    { intros H. pose proof (E_le_step _ _ (pres_substvar_loop f (error s))). rewrite E_error in *. lia. }
    destruct k; try (exfalso; apply Herr; exact Hc).
    + (* IDENT *) destruct (IH (bump s)) as (body & Eb & Hh); [rewrite Hb; cbn in Hf; lia|rewrite Hb; exact Hvr|rewrite E_bump; exact Hc|].
      exists (VId x :: body). rewrite Hb in Eb. cbn [map vpiece_tok app]. rewrite Eb at 1. split; [reflexivity|exact Hh].
    + (* COLON *) destruct (IH (bump s)) as (body & Eb & Hh); [rewrite Hb; cbn in Hf; lia|rewrite Hb; exact Hvr|rewrite E_bump; exact Hc|].
      rewrite (valid_punct COLON x 58 Hvt eq_refl).
      exists (VColon :: body). rewrite Hb in Eb. cbn [map vpiece_tok app t_colon]. rewrite Eb at 1. split; [reflexivity|exact Hh].
    + (* R_CURLY *) exists []. rewrite Et. split; [reflexivity|exact I].
Qed.

Lemma inv_parse_substvar s : hd_kind (toks s) = Some DOLLAR -> vts (toks s) ->
  nerr (parse_substvar s) = nerr s ->
  exists body, toks s = asubst_toks body ++ toks (parse_substvar s).
Proof.
  intros Hd Hv Hc. unfold parse_substvar in *. rewrite E_in_node in Hc. rewrite toks_in_node. cbv zeta in *.
  set (s0 := reset s) in *.
  destruct (toks s) as [|[k x] r] eqn:Et; [discriminate|]. cbn [hd_kind] in Hd. injection Hd as ->.
  destruct (vts_cons _ _ Hv) as [Hvt Hvr]. rewrite (valid_punct DOLLAR x 36 Hvt eq_refl) in *.
  assert (T1 : toks (bump s0) = r) by (apply (T_bump s0 DOLLAR [36%N] r); exact Et).
  set (s1 := bump s0) in *.
  set (s2 := if cur_is s1 L_CURLY then bump s1 else error s1) in *.
  set (s3 := substvar_loop (loop_fuel s2) s2) in *.
  assert (M1 : nerr s1 = nerr s) by (unfold s1; rewrite E_bump; reflexivity).
  assert (M2 : nerr s1 <= nerr s2) by (unfold s2; destruct (cur_is s1 L_CURLY); [rewrite E_bump; lia|rewrite E_error; lia]).
  assert (M3 : nerr s2 <= nerr s3) by (apply E_le_step, pres_substvar_loop).
  assert (M4 : nerr s3 <= nerr (if cur_is s3 R_CURLY then bump s3 else error s3))
    by (destruct (cur_is s3 R_CURLY); [rewrite E_bump; lia|rewrite E_error; lia]).
  assert (K2 : nerr s2 = nerr s1) by lia. assert (K3 : nerr s3 = nerr s2) by lia.
  assert (K4 : nerr (if cur_is s3 R_CURLY then bump s3 else error s3) = nerr s3) by lia.
  clear M1 M2 M3 M4 Hc.
  (* L_CURLY *)
  assert (C2 : exists r2, r = (L_CURLY, [123%N]) :: r2 /\ toks s2 = r2).
  { clear K3 K4. unfold s2 in *. unfold cur_is in *. rewrite current_T in *. rewrite T1 in *.
    destruct r as [|[k2 x2] r2]; cbn [hd_kind] in *; [rewrite E_error in K2; lia|].
    destruct (rkind_eqb k2 L_CURLY) eqn:Ek; [|rewrite E_error in K2; lia].
    apply rkind_eqb_eq in Ek. subst k2. destruct (vts_cons _ _ Hvr) as [Hv2 _].
    rewrite (valid_punct L_CURLY x2 123 Hv2 eq_refl). exists r2. split; [reflexivity|]. apply (T_bump s1 L_CURLY x2 r2 T1). }
  destruct C2 as (r2 & -> & T2).
  destruct (inv_substvar_loop (loop_fuel s2) s2) as (body & Eb & Hh);
    [unfold loop_fuel; lia|rewrite T2; apply (vts_cons _ _ Hvr)|exact K3|]. fold s3 in Eb, Hh.
  (* R_CURLY *)
  unfold cur_is in K4 |- *. rewrite current_T in K4 |- *.
  destruct (toks s3) as [|[k3 x3] r3] eqn:E3; cbn [hd_kind] in *; [rewrite E_error in K4; lia|].
  destruct (rkind_eqb k3 R_CURLY) eqn:Ek; [|rewrite E_error in K4; lia].
  apply rkind_eqb_eq in Ek. subst k3.
  assert (Hv3 : tok_valid (R_CURLY, x3) = true).
  { rewrite T2 in Eb. destruct (vts_cons _ _ Hvr) as [_ Hvr2]. rewrite Eb in Hvr2. apply vts_app in Hvr2. destruct Hvr2 as [_ H3].
    apply (vts_cons _ _ H3). }
  rewrite (valid_punct R_CURLY x3 125 Hv3 eq_refl) in *.
  exists body. rewrite (T_bump s3 R_CURLY [125%N] r3 E3). unfold asubst_toks. cbn [app]. rewrite T2 in Eb. rewrite Eb.
  rewrite <- app_assoc. reflexivity.
Qed.

(* ================= ( op version ) ================= *)
Lemma nowsk_wsk_nil w x : wsk w = true -> nowsk (w ++ x) -> w = [].
Proof.
  destruct w as [|[k s] t]; [reflexivity|]. cbn [wsk forallb fst app]. unfold nowsk. cbn [hd_kind]. intros H Hn.
  apply andb_true_iff in H. destruct H as [H _]. congruence.
Qed.

Lemma inv_bump_constraint ts : vts ts ->
  exists op, op_ok op = true /\ ts = map op_tok op ++ snd (bump_constraint ts) /\
             match hd_kind (snd (bump_constraint ts)) with Some L_ANGLE | Some R_ANGLE | Some EQUAL => False | _ => True end.
Proof.
  induction ts as [|[k x] r IH]; intros Hv; [exists []; repeat split|].
  destruct (vts_cons _ _ Hv) as [Hvt Hvr]. specialize (IH Hvr). destruct IH as (op & Hop & Er & Hh).
  cbn [bump_constraint]. destruct (bump_constraint r) as [e r'] eqn:Eb. cbn [snd] in *.
  destruct k; try (exists []; cbn [map app snd hd_kind]; repeat split; fail).
  - rewrite (valid_punct L_ANGLE x 60 Hvt eq_refl). exists (60%N :: op). cbn [snd]. split; [cbn; exact Hop|]. split; [cbn [map app]; rewrite Er at 1; reflexivity|exact Hh].
  - rewrite (valid_punct R_ANGLE x 62 Hvt eq_refl). exists (62%N :: op). cbn [snd]. split; [cbn; exact Hop|]. split; [cbn [map app]; rewrite Er at 1; reflexivity|exact Hh].
  - rewrite (valid_punct EQUAL x 61 Hvt eq_refl). exists (61%N :: op). cbn [snd]. split; [cbn; exact Hop|]. split; [cbn [map app]; rewrite Er at 1; reflexivity|exact Hh].
Qed.

Lemma T_constraint_node s : toks (constraint_node s) = snd (bump_constraint (toks s)).
Proof. unfold constraint_node. rewrite toks_in_node. cbn [reset toks]. destruct (bump_constraint (toks s)). reflexivity. Qed.
Lemma E_constraint_node s : nerr (constraint_node s) = nerr s.
Proof. unfold constraint_node. rewrite E_in_node. cbn [reset toks nerr]. destruct (bump_constraint (toks s)). reflexivity. Qed.

Lemma cur_is_vtok_T s : cur_is_vtok s = match hd_kind (toks s) with Some IDENT | Some COLON => true | _ => false end.
Proof. unfold cur_is_vtok, cur_is. rewrite current_T. destruct (hd_kind (toks s)) as [k|]; [destruct k|]; reflexivity. Qed.

Lemma E_version_run fuel : forall s, length (toks s) < fuel -> nerr (version_run fuel s) = nerr s.
Proof.
  induction fuel as [|f IH]; intros s Hf; [lia|]. cbn [version_run]. rewrite cur_is_vtok_T.
  destruct (toks s) as [|[k x] r] eqn:Et; cbn [hd_kind]; [reflexivity|].
  assert (Hb : toks (bump s) = r) by (apply (T_bump s k x r Et)).
  destruct k; try reflexivity; (rewrite IH; [apply E_bump|rewrite Hb; cbn in Hf; lia]).
Qed.

Lemma inv_version_run fuel : forall s, length (toks s) < fuel -> vts (toks s) ->
  exists ver, toks s = map vpiece_tok ver ++ toks (version_run fuel s) /\ cur_is_vtok (version_run fuel s) = false /\
              (cur_is_vtok s = true -> ver <> []).
Proof.
  induction fuel as [|f IH]; intros s Hf Hv; [lia|]. cbn [version_run]. 
  destruct (cur_is_vtok s) eqn:Ec.
  2:{ exists []. split; [reflexivity|]. split; [exact Ec|discriminate]. }
  rewrite cur_is_vtok_T in Ec.
  destruct (toks s) as [|[k x] r] eqn:Et; cbn [hd_kind] in Ec; [discriminate|].
  destruct (vts_cons _ _ Hv) as [Hvt Hvr].
  assert (Hb : toks (bump s) = r) by (apply (T_bump s k x r Et)).
  destruct (IH (bump s)) as (ver & Er & Hstop & _); [rewrite Hb; cbn in Hf; lia|rewrite Hb; exact Hvr|].
  rewrite Hb in Er.
  destruct k; try discriminate.
  - exists (VId x :: ver). cbn [map vpiece_tok app]. rewrite Er at 1. split; [reflexivity|]. split; [exact Hstop|discriminate].
  - rewrite (valid_punct COLON x 58 Hvt eq_refl). exists (VColon :: ver). cbn [map vpiece_tok app t_colon]. rewrite Er at 1.
    split; [reflexivity|]. split; [exact Hstop|discriminate].
Qed.

Lemma inv_version_text s : vts (toks s) -> nerr (version_text s) = nerr s ->
  exists ver, ver <> [] /\ toks s = map vpiece_tok ver ++ toks (version_text s) /\ cur_is_vtok (version_text s) = false.
Proof.
  intros Hv Hc. unfold version_text in *. destruct (cur_is_vtok s) eqn:Ec; [|rewrite E_error in Hc; lia].
  destruct (inv_version_run (loop_fuel s) s) as (ver & Er & Hstop & Hne); [unfold loop_fuel; lia|exact Hv|].
  exists ver. split; [apply Hne, Ec|]. split; assumption.
Qed.

Lemma E_version_text_le s : nerr s <= nerr (version_text s).
Proof. apply E_le_step, step_version_text. Qed.

Lemma inv_rel_version s : vts (toks s) -> nerr (rel_version s) = nerr s ->
  (peek_is s L_PARENS = false /\ rel_version s = s) \/
  (exists w1 op w2 ver w3, aver_ok (mk_aver [] w1 op w2 ver w3) = true /\
     toks (skip_ws s) = aver_body_toks (mk_aver [] w1 op w2 ver w3) ++ toks (rel_version s)).
Proof.
  intros Hv Hc. unfold rel_version in *. destruct (peek_is s L_PARENS) eqn:Ep; [right|left; split; reflexivity].
  cbv zeta in *. rewrite E_in_node in Hc. rewrite toks_in_node.
  unfold peek_is in Ep. rewrite peek_T in Ep.
  destruct (skip_split s) as (w0 & Hw0 & Es & _).
  assert (Hv1 : vts (toks (skip_ws s))) by (rewrite Es in Hv; apply (vts_app _ _ Hv)).
  set (s1 := reset (skip_ws s)) in *. change (toks (skip_ws s)) with (toks s1) in *.
  destruct (toks s1) as [|[k x] r] eqn:E1; cbn [hd_kind] in Ep; [discriminate|].
  destruct (rkind_eqb k L_PARENS) eqn:Ek; [|discriminate]. apply rkind_eqb_eq in Ek. subst k.
  destruct (vts_cons _ _ Hv1) as [Hvt Hvr]. rewrite (valid_punct L_PARENS x 40 Hvt eq_refl) in *.
  set (s2 := bump s1) in *. assert (T2 : toks s2 = r) by (apply (T_bump s1 L_PARENS [40%N] r E1)).
  destruct (skip_split s2) as (w1 & Hw1 & Es2 & Hn2). set (s3 := skip_ws s2) in *.
  rewrite T2 in Es2. assert (Hv3 : vts (toks s3)) by (rewrite Es2 in Hvr; apply (vts_app _ _ Hvr)).
  destruct (inv_bump_constraint (toks s3) Hv3) as (op & Hop & Eop & Hhop). rewrite <- T_constraint_node in Eop, Hhop.
  set (s4 := constraint_node s3) in *.
  assert (Hv4 : vts (toks s4)) by (rewrite Eop in Hv3; apply (vts_app _ _ Hv3)).
  destruct (skip_split s4) as (w2 & Hw2 & Es4 & Hn4). set (s5 := skip_ws s4) in *.
  assert (Hv5 : vts (toks s5)) by (rewrite Es4 in Hv4; apply (vts_app _ _ Hv4)).
  set (s6 := version_text s5) in *.
  set (s7 := skip_ws s6) in *.
  assert (M : nerr s1 = nerr s /\ nerr s2 = nerr s1 /\ nerr s3 = nerr s2 /\ nerr s4 = nerr s3 /\ nerr s5 = nerr s4
              /\ nerr s5 <= nerr s6 /\ nerr s7 = nerr s6 /\ nerr s7 <= nerr (expect R_PARENS s7)).
  { unfold s1, s2, s3, s4, s5, s7.
    repeat split; first [apply E_skip_ws|apply E_bump|apply E_constraint_node|apply E_version_text_le|apply E_le_step, step_expect]. }
  destruct M as (M1 & M2 & M3 & M4 & M5 & M6 & M7 & M8).
  assert (K6 : nerr s6 = nerr s5) by lia. assert (K8 : nerr (expect R_PARENS s7) = nerr s7) by lia.
  destruct (inv_version_text s5 Hv5 K6) as (ver & Hne & Ever & Hstop). fold s6 in Ever, Hstop.
  destruct (skip_split s6) as (w3 & Hw3 & Es6 & Hn6). fold s7 in Es6, Hn6.
  destruct (inv_expect R_PARENS s7 K8) as (x9 & E9).
  assert (Hv9 : tok_valid (R_PARENS, x9) = true).
  { rewrite Ever in Hv5. apply vts_app in Hv5. destruct Hv5 as [_ H6]. rewrite Es6 in H6. apply vts_app in H6. destruct H6 as [_ H7].
    rewrite E9 in H7. apply (vts_cons _ _ H7). }
  rewrite (valid_punct R_PARENS x9 41 Hv9 eq_refl) in E9.
  exists w1, op, w2, ver, w3. split.
  - unfold aver_ok. cbn [av_ws0 av_ws1 av_op av_ws2 av_ver av_ws3]. rewrite Hw1, Hop, Hw2, Hw3. cbn [wsk forallb andb].
    destruct ver; [congruence|]. cbn [nonempty andb].
    destruct op as [|c cs]; [|reflexivity]. cbn [nonempty orb map app] in *.
    rewrite <- Eop in Es4. rewrite Es4 in Hn2. rewrite (nowsk_wsk_nil w2 _ Hw2 Hn2). reflexivity.
  - unfold aver_body_toks. cbn [av_ws1 av_op av_ws2 av_ver av_ws3]. cbn [app]. f_equal.
    rewrite Es2, Eop, Es4, Ever, Es6, E9. rewrite <- !app_assoc. reflexivity.
Qed.

(* ================= [ ... ] ================= *)
Lemma inv_arch_loop fuel : forall s, length (toks s) < fuel -> vts (toks s) ->
  nerr (arch_loop fuel s) = nerr s ->
  exists atoms w1, forallb (fun wa => wsk (fst wa)) atoms = true /\ wsk w1 = true /\
    toks s = flat_map watom_toks atoms ++ w1 ++ (R_BRACKET, [93%N]) :: toks (arch_loop fuel s).
Proof.
  induction fuel as [|f IH]; intros s Hf Hv Hc; [lia|]. cbn [arch_loop] in *. cbv zeta in *.
  destruct (skip_split s) as (w & Hw & Es & Hn). set (s1 := skip_ws s) in *.
  assert (Hv1 : vts (toks s1)) by (rewrite Es in Hv; apply (vts_app _ _ Hv)).
  assert (L1 : length (toks s1) <= length (toks s)) by (rewrite Es, app_length; lia).
  assert (N1 : nerr s1 = nerr s) by apply E_skip_ws.
  rewrite current_T in *.
  destruct (toks s1) as [|[k x] r] eqn:E1; cbn [hd_kind] in *.
  - rewrite E_error in Hc. lia.
  - destruct (vts_cons _ _ Hv1) as [Hvt Hvr].
    assert (Hb : toks (bump s1) = r) by (apply (T_bump s1 k x r E1)).
    assert (Herr : nerr (arch_loop f (error s1)) = nerr s -> False).
    { intros H. pose proof (E_le_step _ _ (pres_arch_loop f (error s1))) as M. rewrite E_error in M. lia. }
    assert (Hrec : nerr (arch_loop f (bump s1)) = nerr s ->
              exists atoms w1, forallb (fun wa => wsk (fst wa)) atoms = true /\ wsk w1 = true /\
                r = flat_map watom_toks atoms ++ w1 ++ (R_BRACKET, [93%N]) :: toks (arch_loop f (bump s1))).
    { intros H. destruct (IH (bump s1)) as (atoms & w1 & Ha & Hw1 & Er); [rewrite Hb; cbn in L1; lia|rewrite Hb; exact Hvr| |].
      - rewrite E_bump. lia.
      - rewrite Hb in Er. exists atoms, w1. repeat split; assumption. }
    destruct k; try (exfalso; apply Herr; exact Hc).
    + (* IDENT *) destruct (Hrec Hc) as (atoms & w1 & Ha & Hw1 & Er).
      exists ((w, AId x) :: atoms), w1. split; [cbn [forallb fst]; rewrite Hw; exact Ha|]. split; [exact Hw1|].
      rewrite Es. cbn [flat_map]. unfold watom_toks at 1. cbn [fst snd atom_tok]. rewrite Er at 1. rewrite <- !app_assoc. reflexivity.
    + (* R_BRACKET *) pose proof (valid_punct R_BRACKET x 93 Hvt eq_refl) as Ex; subst x. exists [], w. split; [reflexivity|]. split; [exact Hw|].
      rewrite Es, Hb. reflexivity.
    + (* NOT *) destruct (Hrec Hc) as (atoms & w1 & Ha & Hw1 & Er). pose proof (valid_punct NOT x 33 Hvt eq_refl) as Ex; subst x.
      exists ((w, ANot) :: atoms), w1. split; [cbn [forallb fst]; rewrite Hw; exact Ha|]. split; [exact Hw1|].
      rewrite Es. cbn [flat_map]. unfold watom_toks at 1. cbn [fst snd atom_tok]. rewrite Er at 1. rewrite <- !app_assoc. reflexivity.
Qed.

Lemma inv_rel_archs s : vts (toks s) -> nerr (rel_archs s) = nerr s ->
  (peek_is s L_BRACKET = false /\ rel_archs s = s) \/
  (exists atoms w1, agroup_ok (mk_agroup [] atoms w1) = true /\
     toks (skip_ws s) = agroup_body_toks (mk_agroup [] atoms w1) ++ toks (rel_archs s)).
Proof.
  intros Hv Hc. unfold rel_archs in *. destruct (peek_is s L_BRACKET) eqn:Ep; [right|left; split; reflexivity].
  cbv zeta in *. rewrite E_in_node in Hc. rewrite toks_in_node.
  unfold peek_is in Ep. rewrite peek_T in Ep.
  destruct (skip_split s) as (w0 & Hw0 & Es & _).
  assert (Hv1 : vts (toks (skip_ws s))) by (rewrite Es in Hv; apply (vts_app _ _ Hv)).
  set (s1 := reset (skip_ws s)) in *. change (toks (skip_ws s)) with (toks s1) in *.
  destruct (toks s1) as [|[k x] r] eqn:E1; cbn [hd_kind] in Ep; [discriminate|].
  destruct (rkind_eqb k L_BRACKET) eqn:Ek; [|discriminate]. apply rkind_eqb_eq in Ek. subst k.
  destruct (vts_cons _ _ Hv1) as [Hvt Hvr]. pose proof (valid_punct L_BRACKET x 91 Hvt eq_refl) as Ex; subst x.
  set (s2 := bump s1) in *. assert (T2 : toks s2 = r) by (apply (T_bump s1 L_BRACKET [91%N] r E1)).
  destruct (inv_arch_loop (loop_fuel s2) s2) as (atoms & w1 & Ha & Hw1 & Er);
    [unfold loop_fuel; lia|rewrite T2; exact Hvr| |].
  - rewrite Hc. unfold s2, s1. rewrite E_bump. cbn [reset nerr]. rewrite E_skip_ws. reflexivity.
  - exists atoms, w1. split; [unfold agroup_ok; cbn [ag_ws0 ag_atoms ag_ws1]; rewrite Ha, Hw1; reflexivity|].
    unfold agroup_body_toks. cbn [ag_atoms ag_ws1 app]. f_equal. rewrite <- T2, Er. rewrite <- !app_assoc. reflexivity.
Qed.

(* ================= < ... > ================= *)
Lemma inv_profile_loop fuel : forall s, length (toks s) < fuel -> vts (toks s) ->
  nerr (profile_loop fuel s) = nerr s ->
  exists terms w1, forallb (fun wp => wsk (fst wp) && pterm_ok (snd wp)) terms = true /\ wsk w1 = true /\
    toks s = flat_map wpterm_toks terms ++ w1 ++ (R_ANGLE, [62%N]) :: toks (profile_loop fuel s).
Proof.
  induction fuel as [|f IH]; intros s Hf Hv Hc; [lia|]. cbn [profile_loop] in *. cbv zeta in *.
  destruct (skip_split s) as (w & Hw & Es & Hn). set (s1 := skip_ws s) in *.
  assert (Hv1 : vts (toks s1)) by (rewrite Es in Hv; apply (vts_app _ _ Hv)).
  assert (L1 : length (toks s1) <= length (toks s)) by (rewrite Es, app_length; lia).
  assert (N1 : nerr s1 = nerr s) by apply E_skip_ws.
  rewrite current_T in *.
  destruct (toks s1) as [|[k x] r] eqn:E1; cbn [hd_kind] in *.
  - rewrite E_error in Hc. lia.
  - destruct (vts_cons _ _ Hv1) as [Hvt Hvr].
    assert (Hb : toks (bump s1) = r) by (apply (T_bump s1 k x r E1)).
    assert (Herr : nerr (profile_loop f (error s1)) = nerr s -> False).
    { intros H. pose proof (E_le_step _ _ (pres_profile_loop f (error s1))) as M. rewrite E_error in M. lia. }
    destruct k; try (exfalso; apply Herr; exact Hc).
    + (* IDENT *) destruct (IH (bump s1)) as (terms & w1 & Ha & Hw1 & Er); [rewrite Hb; cbn in L1; lia|rewrite Hb; exact Hvr|rewrite E_bump; lia|].
      rewrite Hb in Er.
      exists ((w, PId x) :: terms), w1. split; [cbn [forallb fst snd pterm_ok]; rewrite Hw; exact Ha|]. split; [exact Hw1|].
      rewrite Es. cbn [flat_map]. unfold wpterm_toks at 1. cbn [fst snd pterm_toks]. rewrite Er at 1. rewrite <- !app_assoc. reflexivity.
    + (* NOT: then white space, then a name *)
      pose proof (valid_punct NOT x 33 Hvt eq_refl) as Ex; subst x.
      set (s2 := bump s1) in *.
      destruct (skip_split s2) as (wn & Hwn & Es2 & Hn2). set (s3 := skip_ws s2) in *. rewrite Hb in Es2.
      assert (M3 : nerr s3 = nerr s) by (unfold s3, s2; rewrite E_skip_ws, E_bump; exact N1).
      assert (M4 : nerr s3 <= nerr (expect IDENT s3)) by (apply E_le_step, step_expect).
      assert (M5 : nerr (expect IDENT s3) <= nerr (profile_loop f (expect IDENT s3))) by (apply E_le_step, pres_profile_loop).
      assert (K4 : nerr (expect IDENT s3) = nerr s3) by lia.
      destruct (inv_expect IDENT s3 K4) as (name & E3).
      assert (Hv4 : vts (toks (expect IDENT s3))).
      { rewrite Es2 in Hvr. apply vts_app in Hvr. destruct Hvr as [_ H3]. rewrite E3 in H3. apply (vts_cons _ _ H3). }
      destruct (IH (expect IDENT s3)) as (terms & w1 & Ha & Hw1 & Er); [|exact Hv4|lia|].
      { assert (length (toks s3) <= length r) by (rewrite Es2, app_length; lia). rewrite E3 in H. cbn [length] in *. lia. }
      exists ((w, PNot wn name) :: terms), w1. split; [cbn [forallb fst snd pterm_ok]; rewrite Hw, Hwn; exact Ha|]. split; [exact Hw1|].
      rewrite Es. cbn [flat_map]. unfold wpterm_toks at 1. cbn [fst snd pterm_toks]. rewrite Es2, E3. rewrite Er at 1.
      cbn [app]. repeat (rewrite <- app_assoc; cbn [app]). reflexivity.
    + (* R_ANGLE *) pose proof (valid_punct R_ANGLE x 62 Hvt eq_refl) as Ex; subst x. exists [], w. split; [reflexivity|]. split; [exact Hw|].
      rewrite Es, Hb. reflexivity.
Qed.

Lemma inv_profiles_while fuel : forall s, length (toks s) < fuel -> vts (toks s) ->
  nerr (profiles_while fuel s) = nerr s ->
  exists ps, forallb pgroup_ok ps = true /\ toks s = flat_map pgroup_toks ps ++ toks (profiles_while fuel s) /\
             peek_is (profiles_while fuel s) L_ANGLE = false.
Proof.
  induction fuel as [|f IH]; intros s Hf Hv Hc; [lia|]. cbn [profiles_while] in *.
  destruct (peek_is s L_ANGLE) eqn:Ep.
  2:{ exists []. split; [reflexivity|]. split; [reflexivity|exact Ep]. }
  cbv zeta in *.
  unfold peek_is in Ep. rewrite peek_T in Ep.
  destruct (skip_split s) as (w0 & Hw0 & Es & _).
  assert (Hv1 : vts (toks (skip_ws s))) by (rewrite Es in Hv; apply (vts_app _ _ Hv)).
  set (body := fun st : pst => profile_loop (loop_fuel (bump st)) (bump st)) in *.
  set (s' := in_node PROFILES body (skip_ws s)) in *.
  assert (T' : toks s' = toks (body (reset (skip_ws s)))) by reflexivity.
  assert (E' : nerr s' = nerr (body (reset (skip_ws s)))) by reflexivity.
  set (s1 := reset (skip_ws s)) in *. change (toks (skip_ws s)) with (toks s1) in *.
  destruct (toks s1) as [|[k x] r] eqn:E1; cbn [hd_kind] in Ep; [discriminate|].
  destruct (rkind_eqb k L_ANGLE) eqn:Ek; [|discriminate]. apply rkind_eqb_eq in Ek. subst k.
  destruct (vts_cons _ _ Hv1) as [Hvt Hvr]. pose proof (valid_punct L_ANGLE x 60 Hvt eq_refl) as Ex. subst x.
  set (s2 := bump s1) in *. assert (T2 : toks s2 = r) by (apply (T_bump s1 L_ANGLE [60%N] r E1)).
  assert (N2 : nerr s2 = nerr s) by (unfold s2, s1; rewrite E_bump; cbn [reset nerr]; apply E_skip_ws).
  assert (M1 : nerr s2 <= nerr s') by (rewrite E'; unfold body; fold s2; apply E_le_step, pres_profile_loop).
  assert (M2 : nerr s' <= nerr (profiles_while f s')) by (apply E_le_step, pres_profiles_while).
  destruct (inv_profile_loop (loop_fuel s2) s2) as (terms & w1 & Ha & Hw1 & Er);
    [unfold loop_fuel; lia|rewrite T2; exact Hvr|change (profile_loop (loop_fuel s2) s2) with (body s1); rewrite <- E'; lia|].
  change (profile_loop (loop_fuel s2) s2) with (body s1) in Er. rewrite <- T' in Er.
  assert (L' : length (toks s') < f).
  { assert (length (toks s) = length w0 + S (length r)) by (rewrite Es, app_length; reflexivity).
    rewrite <- T2, Er in H. rewrite !app_length in H. cbn [length] in H. lia. }
  assert (Hv' : vts (toks s')).
  { rewrite <- T2 in Hvr. rewrite Er in Hvr. apply vts_app in Hvr. destruct Hvr as [_ H]. apply vts_app in H. destruct H as [_ H].
    apply (vts_cons _ _ H). }
  destruct (IH s' L' Hv') as (ps & Hps & Eps & Hend); [lia|].
  exists (mk_pgroup w0 terms w1 :: ps). split.
  - cbn [forallb]. unfold pgroup_ok at 1. cbn [pg_ws0 pg_terms pg_ws1]. rewrite Hw0, Ha, Hw1. exact Hps.
  - split; [|exact Hend]. rewrite Es. cbn [flat_map]. unfold pgroup_toks at 1, pgroup_body_toks. cbn [pg_ws0 pg_terms pg_ws1].
    rewrite <- T2, Er, Eps. repeat (rewrite <- app_assoc; cbn [app]). reflexivity.
Qed.

(* ================= a relation ================= *)
Definition set_av_ws0 (w : list rtoken) (v : aver) : aver := mk_aver w (av_ws1 v) (av_op v) (av_ws2 v) (av_ver v) (av_ws3 v).
Definition set_ag_ws0 (w : list rtoken) (g : agroup) : agroup := mk_agroup w (ag_atoms g) (ag_ws1 g).
Definition set_pg_ws0 (w : list rtoken) (g : pgroup) : pgroup := mk_pgroup w (pg_terms g) (pg_ws1 g).

Lemma wsk_app a b : wsk (a ++ b) = wsk a && wsk b.
Proof. apply forallb_app. Qed.

(* the version stage, with white space W consumed earlier and not yet attributed *)
Lemma stage_version s W : wsk W = true -> vts (toks s) -> nerr (rel_version s) = nerr s ->
  exists v W', opt_ok aver_ok v = true /\ wsk W' = true /\
    W ++ toks s = opt_toks aver_toks v ++ W' ++ toks (rel_version s).
Proof.
  intros HW Hv Hc. destruct (inv_rel_version s Hv Hc) as [[_ ->]|(w1 & op & w2 & ver & w3 & Hok & Eb)].
  - exists None, W. repeat split; assumption || reflexivity.
  - destruct (skip_split s) as (w0 & Hw0 & Es & _).
    exists (Some (mk_aver (W ++ w0) w1 op w2 ver w3)), []. split.
    + cbn [opt_ok]. unfold aver_ok in *. cbn [av_ws0 av_ws1 av_op av_ws2 av_ver av_ws3] in *. rewrite wsk_app, HW, Hw0. exact Hok.
    + split; [reflexivity|]. cbn [opt_toks app]. unfold aver_toks. cbn [av_ws0]. rewrite Es, Eb. rewrite <- !app_assoc. reflexivity.
Qed.

Lemma stage_archs s W : wsk W = true -> vts (toks s) -> nerr (rel_archs s) = nerr s ->
  exists a W', opt_ok agroup_ok a = true /\ wsk W' = true /\
    W ++ toks s = opt_toks agroup_toks a ++ W' ++ toks (rel_archs s).
Proof.
  intros HW Hv Hc. destruct (inv_rel_archs s Hv Hc) as [[_ ->]|(atoms & w1 & Hok & Eb)].
  - exists None, W. repeat split; assumption || reflexivity.
  - destruct (skip_split s) as (w0 & Hw0 & Es & _).
    exists (Some (mk_agroup (W ++ w0) atoms w1)), []. split.
    + cbn [opt_ok]. unfold agroup_ok in *. cbn [ag_ws0 ag_atoms ag_ws1] in *. rewrite wsk_app, HW, Hw0. exact Hok.
    + split; [reflexivity|]. cbn [opt_toks app]. unfold agroup_toks. cbn [ag_ws0]. rewrite Es, Eb. rewrite <- !app_assoc. reflexivity.
Qed.

Lemma stage_profiles s W fuel : length (toks s) < fuel -> wsk W = true -> vts (toks s) -> nerr (profiles_while fuel s) = nerr s ->
  exists ps W', forallb pgroup_ok ps = true /\ wsk W' = true /\
    W ++ toks s = flat_map pgroup_toks ps ++ W' ++ toks (profiles_while fuel s).
Proof.
  intros Hf HW Hv Hc. destruct (inv_profiles_while fuel s Hf Hv Hc) as (ps & Hps & Eps & _).
  destruct ps as [|g ps'].
  - exists [], W. repeat split; try assumption. cbn [flat_map app] in *. rewrite <- Eps. reflexivity.
  - cbn [forallb] in Hps. apply andb_true_iff in Hps. destruct Hps as [Hg Hps']. 
    exists (set_pg_ws0 (W ++ pg_ws0 g) g :: ps'), []. split.
    + cbn [forallb]. rewrite Hps', andb_true_r. unfold pgroup_ok in *. cbn [set_pg_ws0 pg_ws0 pg_terms pg_ws1].
      andb_split Hg. rewrite wsk_app, HW, Hg, W1, W0. reflexivity.
    + split; [reflexivity|]. rewrite Eps. cbn [flat_map app]. unfold pgroup_toks at 1 3. cbn [set_pg_ws0 pg_ws0].
      unfold pgroup_body_toks. cbn [pg_terms pg_ws1]. rewrite <- !app_assoc. reflexivity.
Qed.

Lemma E_rel_version_le s : nerr s <= nerr (rel_version s).
Proof.
  unfold rel_version. destruct (peek_is s L_PARENS); [|lia]. cbv zeta. rewrite E_in_node.
  pose proof (E_skip_ws s). 
  set (s1 := reset (skip_ws s)). assert (nerr s1 = nerr s) by (unfold s1; cbn [reset nerr]; assumption).
  pose proof (E_bump s1). pose proof (E_skip_ws (bump s1)). pose proof (E_constraint_node (skip_ws (bump s1))).
  pose proof (E_skip_ws (constraint_node (skip_ws (bump s1)))).
  pose proof (E_version_text_le (skip_ws (constraint_node (skip_ws (bump s1))))).
  pose proof (E_skip_ws (version_text (skip_ws (constraint_node (skip_ws (bump s1)))))).
  pose proof (E_le_step _ _ (step_expect R_PARENS (skip_ws (version_text (skip_ws (constraint_node (skip_ws (bump s1)))))))).
  lia.
Qed.
Lemma E_rel_archs_le s : nerr s <= nerr (rel_archs s).
Proof.
  unfold rel_archs. destruct (peek_is s L_BRACKET); [|lia]. cbv zeta. rewrite E_in_node.
  pose proof (E_skip_ws s). set (s1 := reset (skip_ws s)). assert (nerr s1 = nerr s) by (unfold s1; cbn [reset nerr]; assumption).
  pose proof (E_bump s1). pose proof (E_le_step _ _ (pres_arch_loop (loop_fuel (bump s1)) (bump s1))). lia.
Qed.

Lemma E_after_name_le s : nerr s <= nerr (rel_after_name s).
Proof.
  unfold rel_after_name. destruct (peek_past_ws s) as [k|]; [|rewrite E_skip_ws; lia].
  destruct k; try (rewrite E_error, E_skip_ws; lia); try (rewrite E_skip_ws; lia); try lia.
  cbv zeta. rewrite E_skip_ws, E_in_node. set (s1 := reset (skip_ws s)).
  pose proof (E_le_step _ _ (step_expect IDENT (skip_ws (bump s1)))) as M. rewrite E_skip_ws, E_bump in M.
  unfold s1 in M at 1. cbn [reset nerr] in M. rewrite E_skip_ws in M. exact M.
Qed.

Lemma stage_after_name s : vts (toks s) -> nerr (rel_after_name s) = nerr s ->
  exists q W', opt_ok aqual_ok q = true /\ wsk W' = true /\
    toks s = opt_toks aqual_toks q ++ W' ++ toks (rel_after_name s).
Proof.
  intros Hv Hc. unfold rel_after_name in *. rewrite peek_T in *.
  destruct (skip_split s) as (w0 & Hw0 & Es & Hn0).
  assert (Hv1 : vts (toks (skip_ws s))) by (rewrite Es in Hv; apply (vts_app _ _ Hv)).
  assert (Hopen : exists q W', opt_ok aqual_ok q = true /\ wsk W' = true /\ toks s = opt_toks aqual_toks q ++ W' ++ toks (skip_ws s))
    by (exists None, w0; repeat split; assumption).
  destruct (hd_kind (toks (skip_ws s))) as [k|] eqn:Ehd; [|exact Hopen].
  destruct k; try (rewrite E_error, E_skip_ws in Hc; lia); try exact Hopen;
    try (exists None, []; repeat split; reflexivity).
  (* COLON *)
  clear Hopen. destruct (toks (skip_ws s)) as [|[k x] r] eqn:E1; [discriminate|]. cbn [hd_kind] in Ehd. injection Ehd as ->.
  cbv zeta in *. rewrite E_skip_ws, E_in_node in Hc. rewrite T_skip_ws, toks_in_node. rewrite <- T_skip_ws.
  destruct (vts_cons _ _ Hv1) as [Hvt Hvr]. pose proof (valid_punct COLON x 58 Hvt eq_refl) as Ex. subst x.
  set (s1 := reset (skip_ws s)) in *. assert (T1 : toks s1 = (COLON, [58%N]) :: r) by exact E1.
  set (s2 := bump s1) in *. assert (T2 : toks s2 = r) by (apply (T_bump s1 COLON [58%N] r T1)).
  destruct (skip_split s2) as (w1 & Hw1 & Es2 & _). set (s3 := skip_ws s2) in *. rewrite T2 in Es2.
  assert (K : nerr (expect IDENT s3) = nerr s3).
  { pose proof (E_le_step _ _ (step_expect IDENT s3)). unfold s3, s2, s1 in *. rewrite E_skip_ws, E_bump in *. cbn [reset nerr] in *. rewrite E_skip_ws in *. lia. }
  destruct (inv_expect IDENT s3 K) as (qn & E3).
  set (s4 := in_node ARCHQUAL (fun st => expect IDENT (skip_ws (bump st))) (skip_ws s)) in *.
  assert (T4 : toks s4 = toks (expect IDENT s3)) by reflexivity.
  destruct (skip_split s4) as (w' & Hw' & Es4 & _).
  exists (Some (mk_aqual w0 w1 qn)), w'. split; [cbn [opt_ok]; unfold aqual_ok; cbn [aq_ws0 aq_ws1]; rewrite Hw0, Hw1; reflexivity|].
  split; [exact Hw'|]. cbn [opt_toks]. unfold aqual_toks, t_colon. cbn [aq_ws0 aq_ws1 aq_name].
  rewrite Es, Es2, E3, <- T4, Es4. repeat (rewrite <- app_assoc; cbn [app]).
  rewrite (T_skip_ws s4), (T_skip_ws (expect IDENT s3)), T4. reflexivity.
Qed.

Lemma E_pipeline_le s : nerr s <= nerr (rel_pipeline s).
Proof.
  unfold rel_pipeline. cbv zeta. pose proof (E_rel_version_le s). pose proof (E_rel_archs_le (rel_version s)).
  pose proof (E_le_step _ _ (pres_profiles_while (loop_fuel (rel_archs (rel_version s))) (rel_archs (rel_version s)))). lia.
Qed.

Theorem inv_parse_relation s : vts (toks s) -> nerr (parse_relation s) = nerr s ->
  exists r rest, arel_ok r = true /\ nowsk rest /\ toks s = arel_toks r ++ rest /\ toks (skip_ws (parse_relation s)) = rest.
Proof.
  intros Hv Hc. rewrite parse_relation_pipeline in *. rewrite E_in_node in Hc.
  assert (TS : toks (skip_ws (in_node RELATION (fun st : pst => rel_pipeline (rel_after_name (expect IDENT st))) s)) =
               toks (skip_ws (rel_pipeline (rel_after_name (expect IDENT (reset s)))))).
  { rewrite !T_skip_ws, toks_in_node. reflexivity. }
  rewrite TS. clear TS.
  set (s0 := reset s) in *. set (s1 := expect IDENT s0) in *. set (s2 := rel_after_name s1) in *.
  set (s3 := rel_version s2) in *. set (s4 := rel_archs s3) in *.
  assert (P : rel_pipeline s2 = profiles_while (loop_fuel s4) s4) by reflexivity. rewrite P in *.
  set (s5 := profiles_while (loop_fuel s4) s4) in *.
  pose proof (E_le_step _ _ (step_expect IDENT s0)) as M1. fold s1 in M1.
  pose proof (E_after_name_le s1) as M2. fold s2 in M2.
  pose proof (E_rel_version_le s2) as M3. fold s3 in M3.
  pose proof (E_rel_archs_le s3) as M4. fold s4 in M4.
  pose proof (E_le_step _ _ (pres_profiles_while (loop_fuel s4) s4)) as M5. fold s5 in M5.
  assert (N0 : nerr s0 = nerr s) by reflexivity.
  assert (K1 : nerr s1 = nerr s0) by lia. assert (K2 : nerr s2 = nerr s1) by lia. assert (K3 : nerr s3 = nerr s2) by lia.
  assert (K4 : nerr s4 = nerr s3) by lia. assert (K5 : nerr s5 = nerr s4) by lia.
  destruct (inv_expect IDENT s0 K1) as (name & E0). fold s1 in E0. change (toks s0) with (toks s) in E0.
  assert (Hv1 : vts (toks s1)) by (rewrite E0 in Hv; apply (vts_cons _ _ Hv)).
  destruct (stage_after_name s1 Hv1 K2) as (q & W2 & Hq & HW2 & E1). fold s2 in E1.
  assert (Hv2 : vts (toks s2)) by (rewrite E1 in Hv1; apply vts_app in Hv1; destruct Hv1 as [_ H]; apply (vts_app _ _ H)).
  destruct (stage_version s2 W2 HW2 Hv2 K3) as (v & W3 & Hvok & HW3 & E2). fold s3 in E2.
  assert (Hv3 : vts (toks s3)).
  { assert (H : vts (W2 ++ toks s2)) by (rewrite E1 in Hv1; apply (vts_app _ _ Hv1)).
    rewrite E2 in H. apply vts_app in H. destruct H as [_ H]. apply (vts_app _ _ H). }
  destruct (stage_archs s3 W3 HW3 Hv3 K4) as (a & W4 & Haok & HW4 & E3). fold s4 in E3.
  assert (Hv4 : vts (toks s4)).
  { assert (H : vts (W3 ++ toks s3)).
    { assert (H : vts (W2 ++ toks s2)) by (rewrite E1 in Hv1; apply (vts_app _ _ Hv1)). rewrite E2 in H. apply (vts_app _ _ H). }
    rewrite E3 in H. apply vts_app in H. destruct H as [_ H]. apply (vts_app _ _ H). }
  destruct (stage_profiles s4 W4 (loop_fuel s4)) as (ps & W5 & Hps & HW5 & E4); [unfold loop_fuel; lia|exact HW4|exact Hv4|exact K5|].
  fold s5 in E4.
  destruct (skip_split s5) as (w5 & Hw5 & E5 & Hn5).
  exists (mk_arel name q v a ps (W5 ++ w5)), (toks (skip_ws s5)). split.
  - unfold arel_ok. cbn [a_qual a_ver a_archs a_profs a_trail]. rewrite Hq, Hvok, Haok, Hps, wsk_app, HW5, Hw5. reflexivity.
  - split; [exact Hn5|]. split; [|reflexivity].
    unfold arel_toks, arel_core_toks. cbn [a_name a_qual a_ver a_archs a_profs a_trail].
    rewrite E5 in E4. rewrite E4 in E3. rewrite E3 in E2. rewrite E2 in E1. rewrite E0, E1.
    cbn [app]. repeat (rewrite <- app_assoc; cbn [app]). reflexivity.
Qed.

(* ================= an entry ================= *)
Lemma arel_toks_len r : 1 <= length (arel_toks r).
Proof. unfold arel_toks, arel_core_toks. cbn [app length]. lia. Qed.

Lemma entry_loop_S f s : entry_loop (S f) s =
  match peek_past_ws (parse_relation s) with
  | Some COMMA => parse_relation s
  | Some PIPE => entry_loop f (skip_ws (bump (skip_ws (parse_relation s))))
  | None => skip_ws (parse_relation s)
  | _ => entry_loop f (error (skip_ws (parse_relation s)))
  end.
Proof. cbn [entry_loop]. destruct (peek_past_ws (parse_relation s)) as [k|]; [destruct k|]; reflexivity. Qed.

Lemma inv_entry_loop fuel : forall s, length (toks s) < fuel -> vts (toks s) ->
  nerr (entry_loop fuel s) = nerr s ->
  exists r alts rest, arel_ok r = true /\ forallb aalt_ok alts = true /\ root_sep rest /\
    toks s = arels_toks r alts ++ rest /\ toks (skip_ws (entry_loop fuel s)) = rest.
Proof.
  induction fuel as [|f IH]; intros s Hf Hv Hc; [lia|]. rewrite entry_loop_S in *.
  set (s' := parse_relation s) in *.
  pose proof (E_le_step _ _ (pres_parse_relation s)) as M1. fold s' in M1.
  assert (Herr : nerr (entry_loop f (error (skip_ws s'))) = nerr s -> False).
  { intros H. pose proof (E_le_step _ _ (pres_entry_loop f (error (skip_ws s')))) as M. rewrite E_error, E_skip_ws in M. lia. }
  assert (K1 : nerr s' = nerr s).
  { destruct (peek_past_ws s') as [k|]; [|rewrite E_skip_ws in Hc; lia].
    destruct k; try (exfalso; apply Herr; exact Hc); [|lia].
    pose proof (E_le_step _ _ (pres_entry_loop f (skip_ws (bump (skip_ws s'))))) as M. rewrite !E_skip_ws, E_bump, E_skip_ws in M. lia. }
  destruct (inv_parse_relation s Hv K1) as (r & rest1 & Hr & Hn1 & Es & Er1). fold s' in Er1.
  rewrite peek_T, Er1 in Hc. rewrite peek_T, Er1.
  assert (Hv1 : vts rest1) by (rewrite Es in Hv; apply (vts_app _ _ Hv)).
  destruct rest1 as [|[k x] r2] eqn:Erest; cbn [hd_kind] in *.
  - (* end of input *) exists r, [], []. repeat split; try assumption; try exact I.
    + cbn [arels_toks]. rewrite Es, !app_nil_r. reflexivity.
    + rewrite T_skip_idem. exact Er1.
  - destruct (vts_cons _ _ Hv1) as [Hvt Hvr].
    destruct k; try (exfalso; apply Herr; exact Hc).
    + (* PIPE *) pose proof (valid_punct PIPE x 124 Hvt eq_refl) as Ex. subst x.
      set (s1 := skip_ws s') in *.
      set (s2 := bump s1) in *. assert (T2 : toks s2 = r2) by (apply (T_bump s1 PIPE [124%N] r2 Er1)).
      destruct (skip_split s2) as (w & Hw & Es2 & _). set (s3 := skip_ws s2) in *. rewrite T2 in Es2.
      assert (N3 : nerr s3 = nerr s) by (unfold s3, s2, s1; rewrite E_skip_ws, E_bump, E_skip_ws; exact K1).
      assert (L3 : length (toks s3) < f).
      { assert (H : length (toks s) = length (arel_toks r) + S (length r2)) by (rewrite Es, app_length; reflexivity).
        rewrite Es2, app_length in H. pose proof (arel_toks_len r). lia. }
      assert (Hv3 : vts (toks s3)) by (rewrite Es2 in Hvr; apply (vts_app _ _ Hvr)).
      destruct (IH s3 L3 Hv3) as (r' & alts' & rest & Hr' & Ha' & Hs & E3 & Eend); [lia|].
      exists r, ((w, r') :: alts'), rest. split; [exact Hr|]. split.
      * cbn [forallb]. unfold aalt_ok at 1. cbn [fst snd]. rewrite Hw, Hr'. exact Ha'.
      * split; [exact Hs|]. split; [|exact Eend]. cbn [arels_toks]. rewrite Es, Es2, E3. repeat (rewrite <- app_assoc; cbn [app]). reflexivity.
    + (* COMMA *) exists r, [], ((COMMA, x) :: r2). repeat split; try assumption; try exact I.
      cbn [arels_toks]. rewrite Es, app_nil_r. reflexivity.
Qed.

Lemma inv_parse_entry s : hd_kind (toks s) = Some IDENT -> vts (toks s) -> nerr (parse_entry s) = nerr s ->
  exists r alts rest, arel_ok r = true /\ forallb aalt_ok alts = true /\ root_sep rest /\
    toks s = arels_toks r alts ++ rest /\ toks (skip_ws (parse_entry s)) = rest.
Proof.
  intros Hh Hv Hc. unfold parse_entry in *. cbv zeta in *. rewrite E_in_node in Hc.
  assert (Hn : nowsk (toks s)) by (unfold nowsk; rewrite Hh; reflexivity).
  assert (Ts : toks (skip_ws s) = toks s) by (rewrite T_skip_ws, (skip_ws_l_nowsk _ Hn); reflexivity).
  set (s1 := reset (skip_ws s)) in *. assert (T1 : toks s1 = toks s) by exact Ts.
  assert (N1 : nerr s1 = nerr s) by (unfold s1; cbn [reset nerr]; apply E_skip_ws).
  destruct (inv_entry_loop (S (S (length (toks s1)))) s1) as (r & alts & rest & Hr & Ha & Hs & E1 & Eend);
    [lia|rewrite T1; exact Hv|lia|].
  exists r, alts, rest. split; [exact Hr|]. split; [exact Ha|]. split; [exact Hs|]. split; [rewrite <- T1; exact E1|].
  rewrite T_skip_ws, toks_in_node. rewrite <- T_skip_ws. exact Eend.
Qed.

(* ================= the field ================= *)
Lemma inv_root_loop a fuel : forall s, length (toks s) < fuel -> vts (toks s) -> nowsk (toks s) ->
  nerr (root_loop a fuel s) = nerr s ->
  exists i more, aitem_ok a i = true /\ forallb (amore_ok a) more = true /\ toks s = aitems_toks i more.
Proof.
  induction fuel as [|f IH]; intros s Hf Hv Hn Hc; [lia|]. cbn [root_loop] in *. rewrite current_T in *.
  destruct (toks s) as [|[c x] r] eqn:Et; cbn [hd_kind] in *.
  - exists AEmpty, []. repeat split.
  - cbv zeta in *.
    set (s1 := match c with
               | IDENT => parse_entry s
               | COMMA => s
               | DOLLAR => if a then parse_substvar s else error s
               | _ => error s
               end) in *.
    set (s2 := skip_ws s1) in *.
    (* the tail: what follows the item *)
    assert (Tail : forall it, aitem_ok a it = true -> nerr s2 = nerr s ->
              toks s = aitem_toks it ++ toks s2 -> exists i more, aitem_ok a i = true /\ forallb (amore_ok a) more = true /\
                 (c, x) :: r = aitems_toks i more).
    { intros it Hit N2 E2. rewrite <- Et.
      assert (Hn2 : nowsk (toks s2)) by (destruct (skip_split s1) as (_ & _ & _ & H); exact H).
      assert (Hv2 : vts (toks s2)) by (rewrite Et in E2; rewrite E2 in Hv; apply (vts_app _ _ Hv)).
      rewrite current_T in Hc.
      destruct (toks s2) as [|[k2 x2] r2] eqn:E2t; cbn [hd_kind] in Hc.
      - exists it, []. split; [exact Hit|]. split; [reflexivity|]. cbn [aitems_toks]. rewrite E2. reflexivity.
      - destruct (vts_cons _ _ Hv2) as [Hvt2 Hvr2].
        assert (Herr : nerr (root_loop a f (skip_ws (error s2))) = nerr s -> False).
        { intros H. pose proof (E_le_step _ _ (pres_root_loop a f (skip_ws (error s2)))) as M. rewrite E_skip_ws, E_error in M. lia. }
        destruct k2; try (exfalso; apply Herr; exact Hc).
        pose proof (valid_punct COMMA x2 44 Hvt2 eq_refl) as Ex. subst x2.
        set (s3 := bump s2) in *. assert (T3 : toks s3 = r2) by (apply (T_bump s2 COMMA [44%N] r2 E2t)).
        destruct (skip_split s3) as (w & Hw & Es3 & Hn4). set (s4 := skip_ws s3) in *. rewrite T3 in Es3.
        assert (L4 : length (toks s4) < f).
        { assert (H : length (toks s) = length (aitem_toks it) + S (length r2)) by (rewrite E2, app_length; reflexivity).
          rewrite Es3, app_length in H. rewrite Et in H. cbn [length] in H, Hf. lia. }
        assert (Hv4 : vts (toks s4)) by (rewrite Es3 in Hvr2; apply (vts_app _ _ Hvr2)).
        destruct (IH s4 L4 Hv4 Hn4) as (i' & more' & Hi' & Hm' & E4).
        { rewrite Hc. unfold s4, s3. rewrite E_skip_ws, E_bump. symmetry. exact N2. }
        exists it, ((w, i') :: more'). split; [exact Hit|]. split.
        + cbn [forallb]. unfold amore_ok at 1. cbn [fst snd]. rewrite Hw, Hi'. exact Hm'.
        + cbn [aitems_toks]. rewrite E2, Es3, E4. reflexivity. }
    assert (M2 : nerr s1 <= nerr (match current s2 with
                                 | Some COMMA => root_loop a f (skip_ws (bump s2))
                                 | None => s2
                                 | _ => root_loop a f (skip_ws (error s2)) end)).
    { assert (nerr s2 = nerr s1) by apply E_skip_ws.
      destruct (current s2) as [k|]; [|lia].
      destruct k; match goal with |- _ <= nerr (root_loop a f ?y) => pose proof (E_le_step _ _ (pres_root_loop a f y)) as M end;
        rewrite !E_skip_ws, ?E_bump, ?E_error in M; lia. }
    assert (Herr1 : s1 = error s -> False).
    { intros H. rewrite H, E_error in M2. lia. }
    destruct c; try (exfalso; apply Herr1; reflexivity).
    + (* IDENT: an entry *)
      pose proof (E_le_step _ _ (pres_parse_entry s)) as M1. fold s1 in M1.
      assert (K1 : nerr (parse_entry s) = nerr s) by (fold s1; lia).
      destruct (inv_parse_entry s) as (r0 & alts & rest & Hr & Ha & Hs & E1 & Eend); [rewrite Et; reflexivity|rewrite Et; exact Hv|exact K1|].
      fold s1 in Eend. fold s2 in Eend.
      apply (Tail (AEntry r0 alts)); [cbn [aitem_ok]; rewrite Hr, Ha; reflexivity|unfold s2; rewrite E_skip_ws; lia|].
      rewrite Eend. exact E1.
    + (* COMMA: an empty item *)
      apply (Tail AEmpty); [reflexivity|unfold s2, s1; apply E_skip_ws|].
      cbn [aitem_toks app]. unfold s2, s1. rewrite T_skip_ws, Et, (skip_ws_l_nowsk _ Hn). reflexivity.
    + (* DOLLAR *)
      destruct a; [|exfalso; apply Herr1; reflexivity].
      pose proof (E_le_step _ _ (pres_parse_substvar s)) as M1. fold s1 in M1.
      assert (K1 : nerr (parse_substvar s) = nerr s) by (fold s1; lia).
      destruct (inv_parse_substvar s) as (body & E1); [rewrite Et; reflexivity|rewrite Et; exact Hv|exact K1|]. fold s1 in E1.
      destruct (skip_split s1) as (trail & Htr & Es1 & _). fold s2 in Es1.
      apply (Tail (ASubst body trail)); [cbn [aitem_ok]; rewrite Htr; reflexivity|unfold s2; rewrite E_skip_ws; lia|].
      cbn [aitem_toks]. rewrite E1, Es1. rewrite <- app_assoc. reflexivity.
Qed.

Theorem complete_tokens a ts t : parse_tokens a ts = Ok (t, 0) -> vts ts ->
  exists g, ashape a g = true /\ atoks g = ts /\ atree_of g = t.
Proof.
  intros Hp Hv.
  assert (Hg : exists g, ashape a g = true /\ atoks g = ts).
  { unfold parse_tokens in Hp.
    set (body := fun st : pst => root_loop a (loop_fuel (skip_ws st)) (skip_ws st)) in *.
    set (s0 := mk_pst ts [] 0 0%N) in *.
    assert (N : nerr (in_node ROOT body s0) = 0).
    { destruct (flag (in_node ROOT body s0) =? 0)%N.
      - destruct (RelParse.out (in_node ROOT body s0)) as [|t0 [|t1 l]]; try discriminate. injection Hp as _ H. exact H.
      - destruct (flag (in_node ROOT body s0) =? 1)%N; discriminate. }
    rewrite E_in_node in N. unfold body in N.
    set (s1 := skip_ws (reset s0)) in *.
    destruct (skip_split (reset s0)) as (lead & Hl & Es & Hn). fold s1 in Es, Hn. change (toks (reset s0)) with ts in Es.
    destruct (inv_root_loop a (loop_fuel s1) s1) as (i & more & Hi & Hm & E1);
      [unfold loop_fuel; lia|rewrite Es in Hv; apply (vts_app _ _ Hv)|exact Hn|rewrite N; unfold s1; rewrite E_skip_ws; reflexivity|].
    exists (mk_afield lead i more). split.
    - unfold ashape. cbn [af_lead af_first af_rest]. rewrite Hl, Hi, Hm. reflexivity.
    - unfold atoks. cbn [af_lead af_first af_rest]. rewrite Es, E1. reflexivity. }
  destruct Hg as (g & Hs & Eg). exists g. split; [exact Hs|]. split; [exact Eg|].
  pose proof (parse_atoks a g Hs) as P. rewrite Eg, Hp in P. injection P as <-. reflexivity.
Qed.

Lemma lexable_vts ts : lexable ts = true -> vts ts.
Proof.
  induction ts as [|t r IH]; intros H; [constructor|]. cbn [lexable] in H.
  apply andb_true_iff in H. destruct H as [H Hr]. apply andb_true_iff in H. destruct H as [Hv _].
  constructor; [exact Hv|apply IH, Hr].
Qed.

(* every text the reader accepts without error is the rendering of a liberal layout *)
Theorem complete_text s a t : RelParse.parse s a = Ok (t, 0) ->
  exists g, awf a g = true /\ arender g = s /\ atree_of g = t.
Proof.
  unfold RelParse.parse. intros H. destruct (rlex s) as [ts| | |] eqn:El; try discriminate.
  destruct (rlex_lexable s ts El) as [Hlx Htx].
  destruct (complete_tokens a ts t H (lexable_vts ts Hlx)) as (g & Hs & Eg & Et).
  exists g. split; [unfold awf; rewrite Hs, Eg, Hlx; reflexivity|]. split; [unfold arender; rewrite Eg; exact Htx|exact Et].
Qed.
