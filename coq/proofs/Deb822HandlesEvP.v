(* C04 (4) and C05's history theorem in their full domain (every rename), for histories issued
   through handles obtained at any time: handles_history + the "every" theorems. *)
From V.model Require Import Base Deb822Lex Deb822Parse Grammar Lossy Deb822Edit LiveDoc LiveTree Deb822Store Deb822Handles.
From V.proofs Require Import BaseP Deb822EditP LiveDocP LiveParaP LiveDocEvP LiveParaEvP Deb822HandlesP.

Theorem handles_C05_every prog d nregs : lwf d = true ->
  let a0 := astart (ltree_of d) nregs in
  let tr := htrace prog a0 in
  Forall op_dom2 tr ->
  exists st' t', run_hops prog (start_state (ltree_of d) nregs) = Ok st' /\
    root_tree st' = Ok t' /\
    live_tree t' (fold_left astep2 tr d) /\ lwf (fold_left astep2 tr d) = true /\
    doc_items t' = fold_left sstep2 tr (doc_items (ltree_of d)) /\
    (forall k, reg_tree k st' = denotes (hsteps prog a0) k) /\
    exists t'', from_str (text t') = Ok t'' /\ doc_items t'' = nonempty_paras (doc_items t').
Proof.
  intros Hw a0 tr Hok. destruct (handles_history prog (ltree_of d) nregs (live_doc_ok d)) as (st' & Rn & Hroot & Hregs & _).
  destruct (C05_history_every tr d Hw Hok) as (E1 & E2 & E3 & E4).
  exists st', (fold_left tstep2 tr (ltree_of d)). split; [exact Rn|]. split; [exact Hroot|]. auto.
Qed.

Theorem handles_C04_every prog d nregs : lwf d = true -> forallb field_only prog = true ->
  let a0 := astart (ltree_of d) nregs in
  let tr := fops_of (htrace prog a0) in
  Forall op_dom tr ->
  exists st' t', run_hops prog (start_state (ltree_of d) nregs) = Ok st' /\
    root_tree st' = Ok t' /\
    live_tree t' (fold_left astep tr d) /\ lwf (fold_left astep tr d) = true /\
    doc_items t' = fold_left sstep tr (doc_items (ltree_of d)) /\
    (forall k, reg_tree k st' = denotes (hsteps prog a0) k) /\
    exists t'', from_str (text t') = Ok t'' /\ doc_items t'' = nonempty_paras (doc_items t').
Proof.
  intros Hw Hf a0 tr Hok. destruct (handles_history prog (ltree_of d) nregs (live_doc_ok d)) as (st' & Rn & Hroot & Hregs & _).
  fold a0 in Hroot. rewrite (htrace_field_only prog a0 Hf), fold_tstep2_DF in Hroot. fold tr in Hroot.
  destruct (C04_history_every tr d Hw Hok) as (E1 & E2 & E3 & E4).
  exists st', (fold_left tstep tr (ltree_of d)). split; [exact Rn|]. split; [exact Hroot|]. auto.
Qed.
