(* Lemmas about model/Pgp.v (strip_pgp_signature), property C19. *)
From V.model Require Import Base Pgp.

(* ------------------------------------------------------------------ string equality *)

Lemma str_eqb_eq (a b : str) : str_eqb a b = true <-> a = b.
Proof.
  unfold str_eqb. revert b; induction a as [|x a IH]; intros [|y b]; cbn [list_eqb]; split; intros H;
    try reflexivity; try discriminate.
  - apply andb_true_iff in H as [H1 H2]. apply N.eqb_eq in H1. apply IH in H2. now subst.
  - injection H as -> ->. rewrite N.eqb_refl. cbn. now apply IH.
Qed.

Lemma str_eqb_refl (a : str) : str_eqb a a = true.
Proof. now apply str_eqb_eq. Qed.

Lemma str_eqb_neq (a b : str) : a <> b -> str_eqb a b = false.
Proof.
  intros H. destruct (str_eqb a b) eqn:E; [|reflexivity]. apply str_eqb_eq in E. contradiction.
Qed.

Lemma str_eqb_false (a b : str) : str_eqb a b = false -> a <> b.
Proof. intros E ->. rewrite str_eqb_refl in E. discriminate. Qed.

(* ------------------------------------------------------------------ strip_suffix(char) *)

Lemma strip_suffix_snoc (c : char) (l : str) : strip_suffix_char c (l ++ [c]) = Some l.
Proof.
  unfold strip_suffix_char. rewrite rev_app_distr. cbn [rev app]. rewrite N.eqb_refl.
  now rewrite rev_involutive.
Qed.

Lemma strip_suffix_snoc_other (c x : char) (l : str) : x <> c -> strip_suffix_char c (l ++ [x]) = None.
Proof.
  intros H. unfold strip_suffix_char. rewrite rev_app_distr. cbn [rev app].
  apply N.eqb_neq in H. now rewrite H.
Qed.

Lemma strip_suffix_some (c : char) (l l' : str) : strip_suffix_char c l = Some l' -> l = l' ++ [c].
Proof.
  unfold strip_suffix_char. destruct (rev l) as [|x r] eqn:E; [discriminate|].
  destruct (x =? c)%N eqn:Ex; [|discriminate]. intros H. injection H as <-.
  apply N.eqb_eq in Ex. subst x. rewrite <- (rev_involutive l), E. reflexivity.
Qed.

Lemma strip_suffix_none (c : char) (l : str) : strip_suffix_char c l = None -> forall l', l <> l' ++ [c].
Proof.
  intros H l' ->. rewrite strip_suffix_snoc in H. discriminate.
Qed.

Lemma strip_suffix_nil (c : char) : strip_suffix_char c [] = None.
Proof. reflexivity. Qed.

Lemma last_snoc (l : str) (x d : char) : last (l ++ [x]) d = x.
Proof. apply last_last. Qed.

Lemma no_lf_strip (p : str) : no_lf p -> strip_suffix_char LF p = None.
Proof.
  intros H. destruct (strip_suffix_char LF p) as [l'|] eqn:E; [|reflexivity].
  apply strip_suffix_some in E. subst p. exfalso. apply H. apply in_or_app. right. now left.
Qed.

Lemma chomp_cr_id (l : str) : no_cr_end l -> chomp_cr l = l.
Proof.
  unfold no_cr_end, chomp_cr. intros H. destruct (strip_suffix_char CR l) as [l'|] eqn:E; [|reflexivity].
  apply strip_suffix_some in E. subst l. rewrite last_snoc in H. contradiction.
Qed.

Lemma chomp_cr_snoc (l : str) : chomp_cr (l ++ [CR]) = l.
Proof. unfold chomp_cr. now rewrite strip_suffix_snoc. Qed.

Lemma Forall_chomp_cr_id (ls : list str) : Forall no_cr_end ls -> map chomp_cr ls = ls.
Proof.
  induction 1 as [|l ls H _ IH]; cbn [map]; [reflexivity|]. now rewrite chomp_cr_id, IH.
Qed.

(* ------------------------------------------------------------------ lines() *)

Lemma split_app_line (l r : str) :
  no_lf l -> split_inclusive_lf (l ++ LF :: r) = (l ++ [LF]) :: split_inclusive_lf r.
Proof.
  unfold no_lf. induction l as [|c l IH]; intros H.
  - cbn [app split_inclusive_lf]. now rewrite N.eqb_refl.
  - cbn [app split_inclusive_lf].
    assert (Hc : (c =? LF)%N = false).
    { apply N.eqb_neq. intros ->. apply H. now left. }
    rewrite Hc, IH; [reflexivity|]. intros Hin. apply H. now right.
Qed.

Lemma split_partial (p : str) : no_lf p -> p <> [] -> split_inclusive_lf p = [p].
Proof.
  unfold no_lf. induction p as [|c p IH]; intros H Hne; [contradiction|].
  cbn [split_inclusive_lf].
  assert (Hc : (c =? LF)%N = false).
  { apply N.eqb_neq. intros ->. apply H. now left. }
  rewrite Hc. destruct p as [|d p]; [reflexivity|].
  rewrite IH; [reflexivity| |discriminate]. intros Hin. apply H. now right.
Qed.

Lemma lines_map_line (l : str) : lines_map (l ++ [LF]) = chomp_cr l.
Proof. unfold lines_map, chomp_cr. now rewrite strip_suffix_snoc. Qed.

Lemma lines_map_partial (p : str) : no_lf p -> lines_map p = p.
Proof. intros H. unfold lines_map. now rewrite no_lf_strip. Qed.

Lemma lines_nil : lines [] = [].
Proof. reflexivity. Qed.

Lemma lines_app_line (l r : str) : no_lf l -> lines (l ++ LF :: r) = chomp_cr l :: lines r.
Proof.
  intros H. unfold lines. rewrite split_app_line by exact H. cbn [map]. now rewrite lines_map_line.
Qed.

Lemma lines_partial (p : str) : no_lf p -> p <> [] -> lines p = [p].
Proof.
  intros H Hne. unfold lines. rewrite split_partial by assumption. cbn [map].
  now rewrite lines_map_partial.
Qed.

Lemma unlines_cons (l : str) (ls : list str) : unlines (l :: ls) = l ++ LF :: unlines ls.
Proof. unfold unlines. cbn [flat_map]. now rewrite <- app_assoc. Qed.

Lemma unlines_nil : unlines [] = [].
Proof. reflexivity. Qed.

Lemma unlines_app (a b : list str) : unlines (a ++ b) = unlines a ++ unlines b.
Proof. unfold unlines. apply flat_map_app. Qed.

Lemma lines_unlines_app (ls : list str) (r : str) :
  Forall no_lf ls -> lines (unlines ls ++ r) = map chomp_cr ls ++ lines r.
Proof.
  induction 1 as [|l ls H _ IH]; [reflexivity|].
  rewrite unlines_cons, <- app_assoc. cbn [app map].
  rewrite lines_app_line by exact H. now rewrite IH.
Qed.

Lemma lines_unlines (ls : list str) : Forall no_lf ls -> lines (unlines ls) = map chomp_cr ls.
Proof.
  intros H. rewrite <- (app_nil_r (unlines ls)), lines_unlines_app by exact H.
  rewrite lines_nil. apply app_nil_r.
Qed.

Lemma split_nonempty (s : str) : s <> [] -> split_inclusive_lf s <> [].
Proof.
  destruct s as [|c r]; [contradiction|]. intros _. cbn [split_inclusive_lf].
  destruct (c =? LF)%N; [discriminate|]. destruct (split_inclusive_lf r); discriminate.
Qed.

Lemma lines_nonempty (s : str) : s <> [] -> lines s <> [].
Proof.
  intros H. unfold lines. pose proof (split_nonempty s H) as Hs.
  destruct (split_inclusive_lf s); [contradiction|discriminate].
Qed.

(* ------------------------------------------------------------------ list helpers *)

Lemma firstn_app_le {A} (n : nat) (a b : list A) : n <= length a -> firstn n (a ++ b) = firstn n a.
Proof.
  intros H. rewrite firstn_app. replace (n - length a) with 0 by lia. cbn [firstn]. apply app_nil_r.
Qed.

Lemma firstn_app_ge {A} (n : nat) (a b : list A) :
  length a <= n -> firstn n (a ++ b) = a ++ firstn (n - length a) b.
Proof. intros H. rewrite firstn_app, firstn_all2 by lia. reflexivity. Qed.

Lemma Forall_firstn_ {A} (P : A -> Prop) (n : nat) (l : list A) : Forall P l -> Forall P (firstn n l).
Proof.
  intros H. revert n. induction H as [|x l Hx _ IH]; intros [|n]; cbn [firstn]; auto.
Qed.

Lemma Forall_map_ {A B} (P : B -> Prop) (f : A -> B) (l : list A) :
  Forall (fun x => P (f x)) l -> Forall P (map f l).
Proof. induction 1; cbn [map]; auto. Qed.

(* ------------------------------------------------------------------ the three loops *)

Definition nonempty (l : str) : Prop := l <> [].

Lemma read_metadata_app (hs rest : list str) (m : str) :
  Forall nonempty hs -> read_metadata (hs ++ [] :: rest) m = Ok (m ++ unlines hs, rest).
Proof.
  intros H. revert m. induction H as [|h hs Hh _ IH]; intros m.
  - cbn [app read_metadata]. now rewrite unlines_nil, app_nil_r.
  - cbn [app read_metadata]. destruct h as [|c h]; [now elim Hh|].
    rewrite IH, unlines_cons. f_equal. f_equal. rewrite <- !app_assoc. reflexivity.
Qed.

Lemma read_metadata_trunc (hs : list str) (m : str) :
  Forall nonempty hs -> read_metadata hs m = Err E_MissingPayload.
Proof.
  intros H. revert m. induction H as [|h hs Hh _ IH]; intros m; cbn [read_metadata]; [reflexivity|].
  destruct h as [|c h]; [now elim Hh|]. apply IH.
Qed.

Lemma read_payload_app (ps rest : list str) (p : str) :
  Forall (fun l => l <> BEGIN_SIG) ps ->
  read_payload (ps ++ BEGIN_SIG :: rest) p = Ok (p ++ unlines ps, rest).
Proof.
  intros H. revert p. induction H as [|l ps Hl _ IH]; intros p.
  - cbn [app read_payload]. rewrite str_eqb_refl. now rewrite unlines_nil, app_nil_r.
  - cbn [app read_payload]. rewrite (str_eqb_neq _ _ Hl).
    rewrite IH, unlines_cons. f_equal. f_equal. rewrite <- !app_assoc. reflexivity.
Qed.

Lemma read_payload_trunc (ps : list str) (p : str) :
  Forall (fun l => l <> BEGIN_SIG) ps -> read_payload ps p = Err E_MissingPgpSignature.
Proof.
  intros H. revert p. induction H as [|l ps Hl _ IH]; intros p; cbn [read_payload]; [reflexivity|].
  rewrite (str_eqb_neq _ _ Hl). apply IH.
Qed.

Lemma read_signature_app (ss rest : list str) (s : str) :
  Forall (fun l => l <> END_SIG) ss ->
  read_signature (ss ++ END_SIG :: rest) s = Ok (s ++ concat ss, rest).
Proof.
  intros H. revert s. induction H as [|l ss Hl _ IH]; intros s.
  - cbn [app read_signature concat]. rewrite str_eqb_refl. now rewrite app_nil_r.
  - cbn [app read_signature concat]. rewrite (str_eqb_neq _ _ Hl).
    rewrite IH. f_equal. f_equal. rewrite <- !app_assoc. reflexivity.
Qed.

Lemma read_signature_trunc (ss : list str) (s : str) :
  Forall (fun l => l <> END_SIG) ss -> read_signature ss s = Err E_TruncatedPgpSignature.
Proof.
  intros H. revert s. induction H as [|l ss Hl _ IH]; intros s; cbn [read_signature]; [reflexivity|].
  rewrite (str_eqb_neq _ _ Hl). apply IH.
Qed.

(* inversions: what a loop's success says about the lines it consumed *)
Lemma read_metadata_inv (ls : list str) (m m' : str) (rest : list str) :
  read_metadata ls m = Ok (m', rest) ->
  exists hs, ls = hs ++ [] :: rest /\ Forall nonempty hs /\ m' = m ++ unlines hs.
Proof.
  revert m. induction ls as [|l ls IH]; intros m H; cbn [read_metadata] in H; [discriminate|].
  destruct l as [|c l].
  - injection H as <- <-. exists []. repeat split; [constructor|]. now rewrite unlines_nil, app_nil_r.
  - apply IH in H as (hs & -> & Hhs & ->). exists ((c :: l) :: hs). repeat split.
    + constructor; [discriminate|exact Hhs].
    + rewrite unlines_cons, <- !app_assoc. reflexivity.
Qed.

Lemma read_payload_inv (ls : list str) (p p' : str) (rest : list str) :
  read_payload ls p = Ok (p', rest) ->
  exists ps, ls = ps ++ BEGIN_SIG :: rest /\ Forall (fun l => l <> BEGIN_SIG) ps /\ p' = p ++ unlines ps.
Proof.
  revert p. induction ls as [|l ls IH]; intros p H; cbn [read_payload] in H; [discriminate|].
  destruct (str_eqb l BEGIN_SIG) eqn:E.
  - apply str_eqb_eq in E. subst l. injection H as <- <-. exists []. repeat split; [constructor|].
    now rewrite unlines_nil, app_nil_r.
  - apply str_eqb_false in E. apply IH in H as (ps & -> & Hps & ->). exists (l :: ps). repeat split.
    + constructor; assumption.
    + rewrite unlines_cons, <- !app_assoc. reflexivity.
Qed.

Lemma read_signature_inv (ls : list str) (s s' : str) (rest : list str) :
  read_signature ls s = Ok (s', rest) ->
  exists ss, ls = ss ++ END_SIG :: rest /\ Forall (fun l => l <> END_SIG) ss /\ s' = s ++ concat ss.
Proof.
  revert s. induction ls as [|l ls IH]; intros s H; cbn [read_signature] in H; [discriminate|].
  destruct (str_eqb l END_SIG) eqn:E.
  - apply str_eqb_eq in E. subst l. injection H as <- <-. exists []. repeat split; [constructor|].
    cbn [concat]. now rewrite app_nil_r.
  - apply str_eqb_false in E. apply IH in H as (ss & -> & Hss & ->). exists (l :: ss). repeat split.
    + constructor; assumption.
    + cbn [concat]. rewrite <- !app_assoc. reflexivity.
Qed.

(* the loops only ever fail with their own error value *)
Lemma read_metadata_res (ls : list str) (m : str) :
  (exists v, read_metadata ls m = Ok v) \/ read_metadata ls m = Err E_MissingPayload.
Proof.
  revert m. induction ls as [|l ls IH]; intros m; cbn [read_metadata]; [now right|].
  destruct l; [left; eauto|apply IH].
Qed.

Lemma read_payload_res (ls : list str) (p : str) :
  (exists v, read_payload ls p = Ok v) \/ read_payload ls p = Err E_MissingPgpSignature.
Proof.
  revert p. induction ls as [|l ls IH]; intros p; cbn [read_payload]; [now right|].
  destruct (str_eqb l BEGIN_SIG); [left; eauto|apply IH].
Qed.

Lemma read_signature_res (ls : list str) (s : str) :
  (exists v, read_signature ls s = Ok v) \/ read_signature ls s = Err E_TruncatedPgpSignature.
Proof.
  revert s. induction ls as [|l ls IH]; intros s; cbn [read_signature]; [now right|].
  destruct (str_eqb l END_SIG); [left; eauto|apply IH].
Qed.

(* ------------------------------------------------------------------ strip_lines on a well-formed line list *)

Lemma wrap_lines_app (hs ps ss extra : list str) :
  wrap_lines hs ps ss ++ extra = BEGIN_SIGNED :: hs ++ [] :: ps ++ BEGIN_SIG :: ss ++ END_SIG :: extra.
Proof.
  unfold wrap_lines. cbn [app]. f_equal. rewrite <- app_assoc. cbn [app]. f_equal. f_equal.
  rewrite <- app_assoc. cbn [app]. f_equal. f_equal. rewrite <- app_assoc. reflexivity.
Qed.

Lemma wrap_lines_length (hs ps ss : list str) :
  length (wrap_lines hs ps ss) = 4 + length hs + length ps + length ss.
Proof. unfold wrap_lines. cbn [length]. repeat (rewrite app_length; cbn [length]). lia. Qed.

Lemma strip_lines_wrap (input : str) (hs ps ss extra : list str) :
  Forall nonempty hs -> Forall (fun l => l <> BEGIN_SIG) ps -> Forall (fun l => l <> END_SIG) ss ->
  strip_lines input (wrap_lines hs ps ss ++ extra) =
  match extra with
  | [] => Ok (unlines ps, Some (concat ss))
  | _ :: _ => Err E_JunkAfterPgpSignature
  end.
Proof.
  intros Hh Hp Hs. rewrite wrap_lines_app. cbn [strip_lines]. rewrite str_eqb_refl. cbn [negb].
  rewrite read_metadata_app by exact Hh. cbn [bind].
  rewrite read_payload_app by exact Hp. cbn [bind].
  rewrite read_signature_app by exact Hs. cbn [bind app]. reflexivity.
Qed.

(* every cut after k >= 1 complete lines, short of the whole message *)
Lemma strip_lines_cut (input : str) (hs ps ss : list str) (k : nat) :
  Forall nonempty hs -> Forall (fun l => l <> BEGIN_SIG) ps -> Forall (fun l => l <> END_SIG) ss ->
  0 < k -> k < length (wrap_lines hs ps ss) ->
  strip_lines input (firstn k (wrap_lines hs ps ss)) = cut_result k hs ps.
Proof.
  intros Hh Hp Hs Hk0 Hk. rewrite wrap_lines_length in Hk.
  destruct k as [|k1]; [lia|]. unfold wrap_lines.
  cbn [firstn strip_lines]. rewrite str_eqb_refl. cbn [negb].
  unfold cut_result.
  destruct (Nat.leb_spec (S k1) (1 + length hs)) as [L1|L1].
  - (* inside the headers *)
    rewrite firstn_app_le by lia.
    rewrite read_metadata_trunc by (apply Forall_firstn_; exact Hh). reflexivity.
  - rewrite firstn_app_ge by lia.
    destruct (k1 - length hs) as [|k2] eqn:E2; [lia|]. cbn [firstn].
    rewrite read_metadata_app by exact Hh. cbn [bind].
    destruct (Nat.leb_spec (S k1) (2 + length hs + length ps)) as [L2|L2].
    + (* inside the payload *)
      rewrite firstn_app_le by lia.
      rewrite read_payload_trunc by (apply Forall_firstn_; exact Hp). reflexivity.
    + rewrite firstn_app_ge by lia.
      destruct (k2 - length ps) as [|k3] eqn:E3; [lia|]. cbn [firstn].
      rewrite read_payload_app by exact Hp. cbn [bind].
      (* inside the signature *)
      rewrite firstn_app_le by lia.
      rewrite read_signature_trunc by (apply Forall_firstn_; exact Hs). reflexivity.
Qed.

(* ------------------------------------------------------------------ markers *)

Lemma no_lf_b (l : str) : forallb (fun c => negb (c =? LF)%N) l = true -> no_lf l.
Proof.
  unfold no_lf. induction l as [|c l IH]; cbn [forallb In]; intros H; [tauto|].
  apply andb_true_iff in H as [H1 H2]. intros [->|Hin]; [discriminate|]. now apply IH.
Qed.

Lemma no_lf_BEGIN_SIGNED : no_lf BEGIN_SIGNED. Proof. apply no_lf_b. reflexivity. Qed.
Lemma no_lf_BEGIN_SIG : no_lf BEGIN_SIG. Proof. apply no_lf_b. reflexivity. Qed.
Lemma no_lf_END_SIG : no_lf END_SIG. Proof. apply no_lf_b. reflexivity. Qed.
Lemma no_lf_nil : no_lf []. Proof. intros []. Qed.
Lemma chomp_BEGIN_SIGNED : chomp_cr BEGIN_SIGNED = BEGIN_SIGNED. Proof. reflexivity. Qed.
Lemma chomp_BEGIN_SIG : chomp_cr BEGIN_SIG = BEGIN_SIG. Proof. reflexivity. Qed.
Lemma chomp_END_SIG : chomp_cr END_SIG = END_SIG. Proof. reflexivity. Qed.
Lemma chomp_nil : chomp_cr [] = []. Proof. reflexivity. Qed.

Lemma no_lf_wrap_lines (hs ps ss : list str) :
  Forall no_lf (hs ++ ps ++ ss) -> Forall no_lf (wrap_lines hs ps ss).
Proof.
  intros H. apply Forall_app in H as [Hh H]. apply Forall_app in H as [Hp Hs].
  unfold wrap_lines. constructor; [exact no_lf_BEGIN_SIGNED|].
  apply Forall_app. split; [exact Hh|]. constructor; [exact no_lf_nil|].
  apply Forall_app. split; [exact Hp|]. constructor; [exact no_lf_BEGIN_SIG|].
  apply Forall_app. split; [exact Hs|]. constructor; [exact no_lf_END_SIG|constructor].
Qed.

Lemma map_chomp_wrap_lines (hs ps ss : list str) :
  map chomp_cr (wrap_lines hs ps ss) = wrap_lines (map chomp_cr hs) (map chomp_cr ps) (map chomp_cr ss).
Proof.
  unfold wrap_lines. cbn [map]. rewrite map_app. cbn [map]. rewrite map_app. cbn [map].
  rewrite map_app. cbn [map].
  now rewrite chomp_BEGIN_SIGNED, chomp_BEGIN_SIG, chomp_END_SIG, chomp_nil.
Qed.

Lemma firstn_map_ {A B} (f : A -> B) (n : nat) (l : list A) : firstn n (map f l) = map f (firstn n l).
Proof. revert n. induction l as [|x l IH]; intros [|n]; cbn [firstn map]; try reflexivity. now rewrite IH. Qed.

Lemma cut_result_map (k : nat) (hs ps : list str) (f : str -> str) :
  cut_result k (map f hs) (map f ps) = cut_result k hs ps.
Proof. unfold cut_result. now rewrite !map_length. Qed.

Lemma no_dash_not_BEGIN_SIG (l : str) : no_dash_start l -> l <> BEGIN_SIG.
Proof. intros H ->. apply H. reflexivity. Qed.

Lemma pgp_dom_dom_cr (hs ps ss : list str) : pgp_dom hs ps ss -> pgp_dom_cr hs ps ss.
Proof.
  intros (Hlf & Hcr & Hh & Hp & Hs). split; [exact Hlf|].
  apply Forall_app in Hcr as [Hch Hcr]. apply Forall_app in Hcr as [Hcp Hcs].
  repeat split.
  - rewrite Forall_forall in *. intros l Hl. rewrite chomp_cr_id by auto. auto.
  - rewrite Forall_forall in *. intros l Hl. rewrite chomp_cr_id by auto. apply no_dash_not_BEGIN_SIG. auto.
  - rewrite Forall_forall in *. intros l Hl. rewrite chomp_cr_id by auto. auto.
Qed.

(* ------------------------------------------------------------------ whole-function results *)

(* the complete message, possibly followed by more text *)
Lemma strip_wrap_cr (hs ps ss : list str) (extra : str) :
  pgp_dom_cr hs ps ss ->
  strip_pgp_signature (wrap hs ps ss ++ extra) =
  match extra with
  | [] => Ok (unlines (map chomp_cr ps), Some (concat (map chomp_cr ss)))
  | _ :: _ => Err E_JunkAfterPgpSignature
  end.
Proof.
  intros (Hlf & Hh & Hp & Hs). unfold strip_pgp_signature, wrap.
  rewrite lines_unlines_app by (apply no_lf_wrap_lines; exact Hlf).
  rewrite map_chomp_wrap_lines.
  rewrite strip_lines_wrap; try (apply Forall_map_; assumption).
  destruct extra as [|c e]; [reflexivity|].
  pose proof (lines_nonempty (c :: e)) as Hne.
  destruct (lines (c :: e)); [now elim Hne|reflexivity].
Qed.

Lemma strip_cut_cr (hs ps ss : list str) (k : nat) :
  pgp_dom_cr hs ps ss -> k < length (wrap_lines hs ps ss) ->
  strip_pgp_signature (cut_lines k hs ps ss) = cut_result k hs ps.
Proof.
  intros (Hlf & Hh & Hp & Hs) Hk. unfold strip_pgp_signature, cut_lines.
  rewrite lines_unlines by (apply Forall_firstn_, no_lf_wrap_lines; exact Hlf).
  destruct k as [|k1]; [reflexivity|].
  rewrite <- firstn_map_, map_chomp_wrap_lines.
  rewrite strip_lines_cut; try (apply Forall_map_; assumption); try lia.
  - apply cut_result_map.
  - rewrite wrap_lines_length in *. now rewrite !map_length.
Qed.

Lemma map_chomp_id_of_dom (hs ps ss : list str) :
  Forall no_cr_end (hs ++ ps ++ ss) -> map chomp_cr ps = ps /\ map chomp_cr ss = ss.
Proof.
  intros H. apply Forall_app in H as [_ H]. apply Forall_app in H as [Hp Hs].
  split; now apply Forall_chomp_cr_id.
Qed.

Lemma strip_wrap_ok (hs ps ss : list str) :
  pgp_dom hs ps ss -> strip_pgp_signature (wrap hs ps ss) = Ok (unlines ps, Some (concat ss)).
Proof.
  intros H. pose proof (pgp_dom_dom_cr _ _ _ H) as Hc. destruct H as (_ & Hcr & _).
  destruct (map_chomp_id_of_dom _ _ _ Hcr) as [Ep Es].
  rewrite <- (app_nil_r (wrap hs ps ss)), (strip_wrap_cr _ _ _ [] Hc). now rewrite Ep, Es.
Qed.

Lemma strip_wrap_junk (hs ps ss : list str) (extra : str) :
  pgp_dom hs ps ss -> extra <> [] ->
  strip_pgp_signature (wrap hs ps ss ++ extra) = Err E_JunkAfterPgpSignature.
Proof.
  intros H Hne. rewrite (strip_wrap_cr _ _ _ extra (pgp_dom_dom_cr _ _ _ H)).
  destruct extra; [contradiction|reflexivity].
Qed.

Lemma strip_cut (hs ps ss : list str) (k : nat) :
  pgp_dom hs ps ss -> k < length (wrap_lines hs ps ss) ->
  strip_pgp_signature (cut_lines k hs ps ss) = cut_result k hs ps.
Proof. intros H. apply strip_cut_cr, pgp_dom_dom_cr, H. Qed.

Lemma cut_lines_all (hs ps ss : list str) (k : nat) :
  length (wrap_lines hs ps ss) <= k -> cut_lines k hs ps ss = wrap hs ps ss.
Proof. intros H. unfold cut_lines, wrap. now rewrite firstn_all2. Qed.

(* ------------------------------------------------------------------ unsigned text *)

Lemma strip_unsigned_hd (s : str) :
  hd_error (lines s) <> Some BEGIN_SIGNED -> strip_pgp_signature s = Ok (s, None).
Proof.
  unfold strip_pgp_signature, strip_lines. destruct (lines s) as [|f r]; [reflexivity|].
  cbn [hd_error]. intros H. rewrite str_eqb_neq; [reflexivity|]. congruence.
Qed.

Lemma no_lf_cons (c : char) (s : str) : c <> LF -> no_lf s -> no_lf (c :: s).
Proof. unfold no_lf. intros Hc Hs [E|Hin]; [now apply Hc|now apply Hs]. Qed.

Lemma no_lf_app (a b : str) : no_lf a -> no_lf b -> no_lf (a ++ b).
Proof. unfold no_lf. intros Ha Hb Hin. apply in_app_or in Hin as [H|H]; auto. Qed.

Lemma no_lf_app_l (a b : str) : no_lf (a ++ b) -> no_lf a.
Proof. unfold no_lf. intros H Hin. apply H, in_or_app. now left. Qed.

Lemma split_line_cases (s : str) : no_lf s \/ exists l r, s = l ++ LF :: r /\ no_lf l.
Proof.
  induction s as [|c s IH]; [left; exact no_lf_nil|].
  destruct (N.eq_dec c LF) as [->|Hc].
  - right. exists [], s. split; [reflexivity|exact no_lf_nil].
  - destruct IH as [H|(l & r & -> & Hl)].
    + left. now apply no_lf_cons.
    + right. exists (c :: l), r. split; [reflexivity|now apply no_lf_cons].
Qed.

(* the first line of s, as lines() sees it, is m  <->  s is m alone, or m followed by LF or CR LF *)
Lemma first_line_iff (m s : str) :
  no_lf m -> no_cr_end m -> m <> [] ->
  (hd_error (lines s) = Some m <->
   s = m \/ (exists r, s = m ++ LF :: r) \/ (exists r, s = m ++ CR :: LF :: r)).
Proof.
  intros Hlf Hcr Hne. split.
  - intros H. destruct (split_line_cases s) as [Hs|(l & r & -> & Hl)].
    + destruct s as [|c s]; [discriminate|].
      rewrite lines_partial in H by (assumption || discriminate). cbn [hd_error] in H.
      injection H as <-. now left.
    + rewrite lines_app_line in H by exact Hl. cbn [hd_error] in H. injection H as H.
      unfold chomp_cr in H. destruct (strip_suffix_char CR l) as [l'|] eqn:E.
      * apply strip_suffix_some in E. subst l l'. right; right. exists r.
        rewrite <- app_assoc. reflexivity.
      * subst l. right; left. now exists r.
  - intros [->|[(r & ->)|(r & ->)]].
    + rewrite lines_partial by assumption. reflexivity.
    + rewrite lines_app_line by exact Hlf. now rewrite chomp_cr_id.
    + change (m ++ CR :: LF :: r) with (m ++ [CR] ++ LF :: r). rewrite app_assoc.
      rewrite lines_app_line.
      * now rewrite chomp_cr_snoc.
      * apply no_lf_app; [exact Hlf|]. intros [E|[]]. discriminate.
Qed.

Lemma no_cr_end_BEGIN_SIGNED : no_cr_end BEGIN_SIGNED.
Proof. intros H. vm_compute in H. discriminate. Qed.

Lemma marker_first_line_iff (s : str) : hd_error (lines s) = Some BEGIN_SIGNED <-> marker_first_line s.
Proof.
  apply first_line_iff; [exact no_lf_BEGIN_SIGNED|exact no_cr_end_BEGIN_SIGNED|discriminate].
Qed.

Lemma strip_unsigned (s : str) : ~ marker_first_line s -> strip_pgp_signature s = Ok (s, None).
Proof. intros H. apply strip_unsigned_hd. intros E. now apply H, marker_first_line_iff. Qed.

(* the result is a pass-through only when the first line is not the marker *)
Lemma strip_signed_not_none (s : str) :
  marker_first_line s -> forall p, strip_pgp_signature s <> Ok (p, None).
Proof.
  intros H p. apply marker_first_line_iff in H. unfold strip_pgp_signature, strip_lines.
  destruct (lines s) as [|f r]; [discriminate|]. cbn [hd_error] in H. injection H as ->.
  rewrite str_eqb_refl. cbn [negb].
  destruct (read_metadata r []) as [[m l1]| | |]; cbn [bind]; try discriminate.
  destruct (read_payload l1 []) as [[pl l2]| | |]; cbn [bind]; try discriminate.
  destruct (read_signature l2 []) as [[sg l3]| | |]; cbn [bind]; try discriminate.
  destruct l3; discriminate.
Qed.

Lemma strip_none_is_input (s p : str) : strip_pgp_signature s = Ok (p, None) -> p = s.
Proof.
  unfold strip_pgp_signature, strip_lines.
  destruct (lines s) as [|f r]; [intros H; now injection H as <-|].
  destruct (negb (str_eqb f BEGIN_SIGNED)); [intros H; now injection H as <-|].
  destruct (read_metadata r []) as [[m l1]| | |]; cbn [bind]; try discriminate.
  destruct (read_payload l1 []) as [[pl l2]| | |]; cbn [bind]; try discriminate.
  destruct (read_signature l2 []) as [[sg l3]| | |]; cbn [bind]; try discriminate.
  destruct l3; discriminate.
Qed.

(* ------------------------------------------------------------------ soundness: a signed result
   always comes from a line structure of exactly the clear-sign shape *)
Lemma strip_signed_inv (s p sg : str) :
  strip_pgp_signature s = Ok (p, Some sg) ->
  exists hs ps ss, lines s = wrap_lines hs ps ss /\
    Forall nonempty hs /\ Forall (fun l => l <> BEGIN_SIG) ps /\ Forall (fun l => l <> END_SIG) ss /\
    p = unlines ps /\ sg = concat ss.
Proof.
  unfold strip_pgp_signature, strip_lines.
  destruct (lines s) as [|f r]; [discriminate|].
  destruct (str_eqb f BEGIN_SIGNED) eqn:Ef; cbn [negb]; [|discriminate].
  apply str_eqb_eq in Ef. subst f.
  destruct (read_metadata r []) as [[m l1]| | |] eqn:E1; cbn [bind]; try discriminate.
  destruct (read_payload l1 []) as [[pl l2]| | |] eqn:E2; cbn [bind]; try discriminate.
  destruct (read_signature l2 []) as [[sg' l3]| | |] eqn:E3; cbn [bind]; try discriminate.
  destruct l3 as [|x l3]; [|discriminate]. intros H. injection H as <- <-.
  apply read_metadata_inv in E1 as (hs & -> & Hh & _).
  apply read_payload_inv in E2 as (ps & -> & Hp & ->).
  apply read_signature_inv in E3 as (ss & -> & Hs & ->).
  exists hs, ps, ss. repeat split; assumption || reflexivity.
Qed.

(* ------------------------------------------------------------------ totality: a value or one of
   the four error kinds, never a panic, never out of fuel (there is no fuel) *)
Lemma strip_total (s : str) :
  (exists p o, strip_pgp_signature s = Ok (p, o)) \/
  strip_pgp_signature s = Err E_MissingPayload \/
  strip_pgp_signature s = Err E_MissingPgpSignature \/
  strip_pgp_signature s = Err E_TruncatedPgpSignature \/
  strip_pgp_signature s = Err E_JunkAfterPgpSignature.
Proof.
  unfold strip_pgp_signature, strip_lines.
  destruct (lines s) as [|f r]; [left; eauto|].
  destruct (negb (str_eqb f BEGIN_SIGNED)); [left; eauto|].
  destruct (read_metadata_res r []) as [([m l1] & ->)| ->]; cbn [bind]; [|tauto].
  destruct (read_payload_res l1 []) as [([pl l2] & ->)| ->]; cbn [bind]; [|tauto].
  destruct (read_signature_res l2 []) as [([sg l3] & ->)| ->]; cbn [bind]; [|tauto].
  destruct l3; [left; eauto|tauto].
Qed.

(* ------------------------------------------------------------------ cuts at every character *)

Lemma firstn_unlines (ls : list str) (n : nat) :
  n < length (unlines ls) ->
  exists k p q, nth_error ls k = Some (p ++ q) /\
    firstn n (unlines ls) = unlines (firstn k ls) ++ p /\
    n = length (unlines (firstn k ls)) + length p.
Proof.
  revert n. induction ls as [|l ls IH]; intros n Hn.
  - cbn in Hn. lia.
  - rewrite unlines_cons in *. rewrite app_length in Hn. cbn [length] in Hn.
    destruct (Nat.le_gt_cases n (length l)) as [Hle|Hgt].
    + exists 0, (firstn n l), (skipn n l). split; [cbn [nth_error]; now rewrite firstn_skipn|].
      cbn [firstn]. rewrite unlines_nil. cbn [app length]. split.
      * apply firstn_app_le; exact Hle.
      * rewrite firstn_length. lia.
    + destruct (IH (n - length l - 1)) as (k & p & q & Hnth & Hf & Hlen); [lia|].
      exists (S k), p, q. split; [exact Hnth|]. cbn [firstn]. rewrite unlines_cons.
      rewrite firstn_app_ge by lia. replace (n - length l) with (S (n - length l - 1)) by lia.
      cbn [firstn]. rewrite Hf. rewrite <- app_assoc. cbn [app]. split; [reflexivity|].
      rewrite app_length. cbn [length]. lia.
Qed.

Lemma Some_inj {A} (x y : A) : Some x = Some y -> x = y.
Proof. congruence. Qed.

Lemma firstn_S_nth {A} (l : list A) (k : nat) (x : A) :
  nth_error l k = Some x -> firstn (S k) l = firstn k l ++ [x].
Proof.
  revert k. induction l as [|y l IH]; intros [|k] H; cbn [nth_error] in H; try discriminate.
  - injection H as ->. reflexivity.
  - cbn [firstn app]. f_equal. now apply IH.
Qed.

(* a cut after k lines followed by lines that are inert in the region the cut falls in *)
Lemma strip_lines_cut_tail (input : str) (hs ps ss : list str) (k : nat) (tail : list str) :
  Forall nonempty hs -> Forall (fun l => l <> BEGIN_SIG) ps -> Forall (fun l => l <> END_SIG) ss ->
  0 < k -> k < length (wrap_lines hs ps ss) ->
  (k <= 1 + length hs -> Forall nonempty tail) ->
  (1 + length hs < k -> k <= 2 + length hs + length ps -> Forall (fun l => l <> BEGIN_SIG) tail) ->
  (2 + length hs + length ps < k -> Forall (fun l => l <> END_SIG) tail) ->
  strip_lines input (firstn k (wrap_lines hs ps ss) ++ tail) = cut_result k hs ps.
Proof.
  intros Hh Hp Hs Hk0 Hk T1 T2 T3. rewrite wrap_lines_length in Hk.
  destruct k as [|k1]; [lia|]. unfold wrap_lines.
  cbn [firstn app strip_lines]. rewrite str_eqb_refl. cbn [negb].
  unfold cut_result.
  destruct (Nat.leb_spec (S k1) (1 + length hs)) as [L1|L1].
  - rewrite firstn_app_le by lia.
    rewrite read_metadata_trunc; [reflexivity|].
    apply Forall_app. split; [apply Forall_firstn_; exact Hh|apply T1; lia].
  - rewrite firstn_app_ge by lia.
    destruct (k1 - length hs) as [|k2] eqn:E2; [lia|]. cbn [firstn].
    rewrite <- app_assoc. cbn [app].
    rewrite read_metadata_app by exact Hh. cbn [bind].
    destruct (Nat.leb_spec (S k1) (2 + length hs + length ps)) as [L2|L2].
    + rewrite firstn_app_le by lia.
      rewrite read_payload_trunc; [reflexivity|].
      apply Forall_app. split; [apply Forall_firstn_; exact Hp|apply T2; lia].
    + rewrite firstn_app_ge by lia.
      destruct (k2 - length ps) as [|k3] eqn:E3; [lia|]. cbn [firstn].
      rewrite <- app_assoc. cbn [app].
      rewrite read_payload_app by exact Hp. cbn [bind].
      rewrite firstn_app_le by lia.
      rewrite read_signature_trunc; [reflexivity|].
      apply Forall_app. split; [apply Forall_firstn_; exact Hs|apply T3; lia].
Qed.

Lemma nth_wrap_payload_region (hs ps ss : list str) (k : nat) (l : str) :
  1 + length hs < k -> k <= 2 + length hs + length ps ->
  nth_error (wrap_lines hs ps ss) k = Some l -> In l ps \/ l = BEGIN_SIG.
Proof.
  intros H1 H2. unfold wrap_lines. destruct k as [|k1]; [lia|]. cbn [nth_error].
  rewrite nth_error_app2 by lia.
  destruct (k1 - length hs) as [|k2] eqn:E2; [lia|]. cbn [nth_error].
  destruct (Nat.lt_ge_cases k2 (length ps)) as [Hlt|Hge].
  - rewrite nth_error_app1 by exact Hlt. intros H. left. eapply nth_error_In; exact H.
  - rewrite nth_error_app2 by exact Hge. replace (k2 - length ps) with 0 by lia.
    cbn [nth_error]. intros H. injection H as <-. now right.
Qed.

Lemma nth_wrap_sig_region (hs ps ss : list str) (k : nat) (l : str) :
  2 + length hs + length ps < k ->
  nth_error (wrap_lines hs ps ss) k = Some l -> In l ss \/ l = END_SIG.
Proof.
  intros H1. unfold wrap_lines. destruct k as [|k1]; [lia|]. cbn [nth_error].
  rewrite nth_error_app2 by lia.
  destruct (k1 - length hs) as [|k2] eqn:E2; [lia|]. cbn [nth_error].
  rewrite nth_error_app2 by lia.
  destruct (k2 - length ps) as [|k3] eqn:E3; [lia|]. cbn [nth_error].
  destruct (Nat.lt_ge_cases k3 (length ss)) as [Hlt|Hge].
  - rewrite nth_error_app1 by exact Hlt. intros H. left. eapply nth_error_In; exact H.
  - rewrite nth_error_app2 by exact Hge.
    destruct (k3 - length ss) as [|k4]; cbn [nth_error].
    + intros H. injection H as <-. now right.
    + destruct k4; discriminate.
Qed.

Lemma is_prefix_app (p q : str) : is_prefix p (p ++ q) = true.
Proof. induction p as [|c p IH]; cbn [is_prefix app]; [reflexivity|]. now rewrite N.eqb_refl, IH. Qed.

Lemma proper_prefix_neq (p q m : str) : p ++ q = m -> q <> [] -> p <> m.
Proof.
  intros E Hq ->. apply Hq. rewrite <- (app_nil_r m) in E at 2. now apply app_inv_head in E.
Qed.

Lemma no_cr_end_wrap_lines (hs ps ss : list str) :
  Forall no_cr_end (hs ++ ps ++ ss) -> Forall no_cr_end (wrap_lines hs ps ss).
Proof.
  intros H. apply Forall_app in H as [Hh H]. apply Forall_app in H as [Hp Hs].
  assert (M : forall m : str, last m 0%N <> CR -> no_cr_end m) by (intros m Hm; exact Hm).
  unfold wrap_lines. constructor; [apply M; vm_compute; discriminate|].
  apply Forall_app. split; [exact Hh|]. constructor; [apply M; vm_compute; discriminate|].
  apply Forall_app. split; [exact Hp|]. constructor; [apply M; vm_compute; discriminate|].
  apply Forall_app. split; [exact Hs|]. constructor; [apply M; vm_compute; discriminate|constructor].
Qed.

Lemma strip_cutc (hs ps ss : list str) :
  pgp_dom hs ps ss -> Forall (fun l => is_prefix END_SIG l = false) ss ->
  forall k p q, nth_error (wrap_lines hs ps ss) k = Some (p ++ q) ->
  (p <> [] -> q = [] -> S k < length (wrap_lines hs ps ss)) ->
  strip_pgp_signature (cut_lines k hs ps ss ++ p) = cutc_result (cut_lines k hs ps ss ++ p) k p q hs ps.
Proof.
  intros Hdom Hpre k p q Hnth Hlast.
  pose proof (pgp_dom_dom_cr _ _ _ Hdom) as Hc.
  destruct Hdom as (Hlf & Hcr & Hh & Hp & Hs).
  assert (Hk : k < length (wrap_lines hs ps ss)) by (apply nth_error_Some; congruence).
  destruct p as [|c p'].
  - rewrite app_nil_r. cbn [cutc_result]. apply strip_cut_cr; assumption.
  - pose proof (no_lf_wrap_lines _ _ _ Hlf) as HL. pose proof (no_cr_end_wrap_lines _ _ _ Hcr) as HC.
    assert (Hpl : no_lf (c :: p')).
    { rewrite Forall_forall in HL. eapply no_lf_app_l, HL, nth_error_In, Hnth. }
    assert (Hlines : lines (cut_lines k hs ps ss ++ c :: p') = firstn k (wrap_lines hs ps ss) ++ [c :: p']).
    { unfold cut_lines. rewrite lines_unlines_app by (apply Forall_firstn_; exact HL).
      rewrite Forall_chomp_cr_id by (apply Forall_firstn_; exact HC).
      rewrite lines_partial by (assumption || discriminate). reflexivity. }
    assert (Hh' : Forall nonempty hs) by exact Hh.
    assert (Hp' : Forall (fun l => l <> BEGIN_SIG) ps).
    { rewrite Forall_forall in *. intros l Hl. apply no_dash_not_BEGIN_SIG. auto. }
    unfold strip_pgp_signature. rewrite Hlines. cbn [cutc_result].
    destruct q as [|d q'].
    + rewrite app_nil_r in Hnth. rewrite <- (firstn_S_nth _ _ _ Hnth).
      apply strip_lines_cut; try assumption; [lia|]. apply Hlast; [discriminate|reflexivity].
    + destruct k as [|k'].
      * cbn [firstn app]. unfold wrap_lines in Hnth. cbn [nth_error] in Hnth. apply Some_inj in Hnth.
        cbn [strip_lines]. rewrite str_eqb_neq; [reflexivity|].
        eapply proper_prefix_neq; [symmetry; exact Hnth|discriminate].
      * apply strip_lines_cut_tail; try assumption; try lia.
        -- intros _. constructor; [discriminate|constructor].
        -- intros R1 R2. constructor; [|constructor].
           destruct (nth_wrap_payload_region _ _ _ _ _ R1 R2 Hnth) as [Hin| E].
           ++ rewrite Forall_forall in Hp. specialize (Hp _ Hin). intros E. apply Hp.
              cbn [app hd]. injection E as -> _. reflexivity.
           ++ eapply proper_prefix_neq; [exact E|discriminate].
        -- intros R. constructor; [|constructor].
           destruct (nth_wrap_sig_region _ _ _ _ _ R Hnth) as [Hin| E].
           ++ rewrite Forall_forall in Hpre. specialize (Hpre _ Hin). intros E.
              rewrite <- E, is_prefix_app in Hpre. discriminate.
           ++ eapply proper_prefix_neq; [exact E|discriminate].
Qed.

Lemma cut_result_S (k : nat) (hs ps : list str) :
  cut_result (S k) hs ps = Err E_MissingPayload \/ cut_result (S k) hs ps = Err E_MissingPgpSignature \/
  cut_result (S k) hs ps = Err E_TruncatedPgpSignature.
Proof.
  unfold cut_result. destruct (S k <=? 1 + length hs); [tauto|].
  destruct (S k <=? 2 + length hs + length ps); tauto.
Qed.

Lemma strip_cut_chars (hs ps ss : list str) (n : nat) :
  pgp_dom hs ps ss -> Forall (fun l => is_prefix END_SIG l = false) ss ->
  n + 1 < length (wrap hs ps ss) ->
  exists k p q, nth_error (wrap_lines hs ps ss) k = Some (p ++ q) /\
    cut_chars n hs ps ss = cut_lines k hs ps ss ++ p /\
    strip_pgp_signature (cut_chars n hs ps ss) = cutc_result (cut_chars n hs ps ss) k p q hs ps.
Proof.
  intros Hdom Hpre Hn. unfold cut_chars, wrap in *.
  destruct (firstn_unlines (wrap_lines hs ps ss) n) as (k & p & q & Hnth & Hf & Hlen); [lia|].
  exists k, p, q. split; [exact Hnth|]. split; [exact Hf|]. rewrite Hf.
  apply strip_cutc; try assumption.
  intros Hp ->. rewrite app_nil_r in Hnth.
  assert (Hk : k < length (wrap_lines hs ps ss)) by (apply nth_error_Some; congruence).
  destruct (Nat.lt_ge_cases (S k) (length (wrap_lines hs ps ss))) as [Hlt|Hge]; [exact Hlt|exfalso].
  pose proof (firstn_S_nth _ _ _ Hnth) as E. rewrite firstn_all2 in E by lia.
  rewrite E, unlines_app, app_length in Hn at 1. rewrite unlines_cons, unlines_nil, app_length in Hn.
  cbn [length] in Hn. lia.
Qed.

(* readable corollary: nothing cut short is ever presented as a signed message; a pass-through
   happens only while the cut is still inside the first line *)
Lemma strip_cut_chars_class (hs ps ss : list str) (n : nat) :
  pgp_dom hs ps ss -> Forall (fun l => is_prefix END_SIG l = false) ss ->
  n + 1 < length (wrap hs ps ss) ->
  (strip_pgp_signature (cut_chars n hs ps ss) = Ok (cut_chars n hs ps ss, None) /\ n < length BEGIN_SIGNED) \/
  strip_pgp_signature (cut_chars n hs ps ss) = Err E_MissingPayload \/
  strip_pgp_signature (cut_chars n hs ps ss) = Err E_MissingPgpSignature \/
  strip_pgp_signature (cut_chars n hs ps ss) = Err E_TruncatedPgpSignature.
Proof.
  intros Hdom Hpre Hn.
  destruct (strip_cut_chars hs ps ss n Hdom Hpre Hn) as (k & p & q & Hnth & Hx & ->).
  assert (Hlen : length (cut_chars n hs ps ss) = n).
  { unfold cut_chars. apply firstn_length_le. lia. }
  unfold cutc_result. destruct p as [|c p'].
  - destruct k as [|k']; [|right; apply cut_result_S].
    left. rewrite Hx in *. unfold cut_lines in *. cbn [firstn] in *. rewrite unlines_nil in *.
    cbn [app length] in *. split; [reflexivity|]. subst n. cbn. lia.
  - destruct q as [|d q']; [right; apply cut_result_S|].
    destruct k as [|k']; [|right; apply cut_result_S].
    left. split; [reflexivity|]. unfold wrap_lines in Hnth. cbn [nth_error] in Hnth.
    apply Some_inj in Hnth. rewrite Hx in Hlen. unfold cut_lines in Hlen. cbn [firstn] in Hlen.
    rewrite unlines_nil in Hlen. cbn [app] in Hlen.
    apply (f_equal (@length _)) in Hnth. rewrite app_length in Hnth. cbn [length] in Hnth, Hlen. lia.
Qed.

(* the message without its final "\n" is still complete *)
Lemma strip_wrap_no_final_newline (hs ps ss : list str) (body : str) :
  pgp_dom hs ps ss -> wrap hs ps ss = body ++ [LF] ->
  strip_pgp_signature body = Ok (unlines ps, Some (concat ss)).
Proof.
  intros Hdom Hb. destruct Hdom as (Hlf & Hcr & Hh & Hp & Hs).
  set (init := BEGIN_SIGNED :: hs ++ [] :: ps ++ BEGIN_SIG :: ss).
  assert (Ew : wrap_lines hs ps ss = init ++ [END_SIG]).
  { unfold wrap_lines, init. cbn [app]. f_equal. rewrite <- app_assoc. cbn [app]. f_equal. f_equal.
    rewrite <- app_assoc. reflexivity. }
  assert (Eb : body = unlines init ++ END_SIG).
  { unfold wrap in Hb. rewrite Ew, unlines_app, unlines_cons, unlines_nil in Hb.
    rewrite app_assoc in Hb.
    apply app_inj_tail in Hb as [Hb _]. now symmetry. }
  pose proof (no_lf_wrap_lines _ _ _ Hlf) as HL. pose proof (no_cr_end_wrap_lines _ _ _ Hcr) as HC.
  rewrite Ew in HL, HC. apply Forall_app in HL as [HL _]. apply Forall_app in HC as [HC _].
  unfold strip_pgp_signature. rewrite Eb, lines_unlines_app by exact HL.
  rewrite lines_partial by (exact no_lf_END_SIG || discriminate).
  rewrite Forall_chomp_cr_id by exact HC. rewrite <- Ew, <- (app_nil_r (wrap_lines hs ps ss)).
  rewrite strip_lines_wrap.
  - reflexivity.
  - exact Hh.
  - rewrite Forall_forall in *. intros l Hl. apply no_dash_not_BEGIN_SIG. auto.
  - exact Hs.
Qed.

(* ------------------------------------------------------------------ the domain is decidable *)
Lemma pgp_domb_ok (hs ps ss : list str) : pgp_domb hs ps ss = true -> pgp_dom hs ps ss.
Proof.
  unfold pgp_domb, pgp_dom. intros H.
  apply andb_true_iff in H as [H Hs]. apply andb_true_iff in H as [H Hp].
  apply andb_true_iff in H as [Hl Hh].
  rewrite forallb_forall in Hl, Hh, Hp, Hs. rewrite !Forall_forall.
  repeat split.
  - intros l Hin. specialize (Hl l Hin). unfold line_okb in Hl. apply andb_true_iff in Hl as [Hl _].
    now apply no_lf_b.
  - intros l Hin. specialize (Hl l Hin). unfold line_okb in Hl. apply andb_true_iff in Hl as [_ Hl].
    unfold no_cr_end. intros E. rewrite E in Hl. discriminate.
  - intros l Hin. specialize (Hh l Hin). intros ->. discriminate.
  - intros l Hin. specialize (Hp l Hin). unfold no_dash_start. intros E. rewrite E in Hp. discriminate.
  - intros l Hin. specialize (Hs l Hin). intros ->. rewrite str_eqb_refl in Hs. discriminate.
Qed.

(* ------------------------------------------------------------------ the cut theorem, regions spelt out *)
Lemma strip_cut_regions (hs ps ss : list str) :
  pgp_dom hs ps ss ->
  length (wrap_lines hs ps ss) = 4 + length hs + length ps + length ss /\
  forall k, k < 4 + length hs + length ps + length ss ->
    (k = 0 -> strip_pgp_signature (cut_lines k hs ps ss) = Ok ([], None)) /\
    (1 <= k <= 1 + length hs -> strip_pgp_signature (cut_lines k hs ps ss) = Err E_MissingPayload) /\
    (2 + length hs <= k <= 2 + length hs + length ps ->
       strip_pgp_signature (cut_lines k hs ps ss) = Err E_MissingPgpSignature) /\
    (3 + length hs + length ps <= k ->
       strip_pgp_signature (cut_lines k hs ps ss) = Err E_TruncatedPgpSignature).
Proof.
  intros Hdom. split; [apply wrap_lines_length|]. intros k Hk.
  rewrite (strip_cut hs ps ss k Hdom) by (rewrite wrap_lines_length; exact Hk).
  unfold cut_result. repeat split.
  - intros ->. reflexivity.
  - intros [H1 H2]. destruct k as [|k']; [lia|].
    destruct (Nat.leb_spec (S k') (1 + length hs)); [reflexivity|lia].
  - intros [H1 H2]. destruct k as [|k']; [lia|].
    destruct (Nat.leb_spec (S k') (1 + length hs)); [lia|].
    destruct (Nat.leb_spec (S k') (2 + length hs + length ps)); [reflexivity|lia].
  - intros H1. destruct k as [|k']; [lia|].
    destruct (Nat.leb_spec (S k') (1 + length hs)); [lia|].
    destruct (Nat.leb_spec (S k') (2 + length hs + length ps)); [lia|reflexivity].
Qed.

Lemma strip_cut_never_signed (hs ps ss : list str) (k : nat) :
  pgp_dom hs ps ss -> k < length (wrap_lines hs ps ss) ->
  forall p sg, strip_pgp_signature (cut_lines k hs ps ss) <> Ok (p, Some sg).
Proof.
  intros Hdom Hk p sg. rewrite (strip_cut hs ps ss k Hdom Hk).
  destruct k as [|k']; [discriminate|].
  destruct (cut_result_S k' hs ps) as [-> | [-> | ->]]; discriminate.
Qed.
