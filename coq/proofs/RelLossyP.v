(* Lemmas about the lossy relations reader and printer (model/RelLossy.v):
   totality of both FromStr entry points, the print/parse round trip, the pre-fix refutations,
   the concrete debversion model. *)
From V.model Require Import Base RelLex RelLossy.
From V.proofs Require Import BaseP RelLexP.
From Coq Require Import ZifyBool.

(* ================================================================== A. the lexer, fuel-free *)
Lemma rlex_go_mono f : forall s ts, rlex_go f s = Ok ts -> forall f', f <= f' -> rlex_go f' s = Ok ts.
Proof.
  induction f as [|f IH]; intros s ts H f' Hle.
  - destruct s; cbn in H; [|discriminate]. destruct f'; exact H.
  - destruct s as [|c r]; [destruct f'; exact H|].
    destruct f' as [|f']; [lia|]. cbn [rlex_go] in *.
    destruct (rlex_step c r) as [t r'].
    destruct (rlex_go f r') as [ts'| | |] eqn:E; try discriminate.
    rewrite (IH _ _ E f') by lia. exact H.
Qed.

Lemma rlex_cons c r t r' ts :
  rlex_step c r = (t, r') -> rlex r' = Ok ts -> rlex (c :: r) = Ok (t :: ts).
Proof.
  intros Hs Hr. unfold rlex in *. cbn [length rlex_go]. rewrite Hs.
  destruct (rlex_step_spec _ _ _ _ Hs) as (_ & _ & Hl).
  rewrite (rlex_go_mono _ _ _ Hr (length r) Hl). reflexivity.
Qed.

Lemma rlex_nil : rlex [] = Ok [].
Proof. reflexivity. Qed.

(* what may follow an IDENT token without being glued to it *)
Definition sep_start (rest : str) : Prop :=
  match rest with [] => True | c :: _ => is_ident_char c = false end.

Lemma ident_char_plain c :
  is_ident_char c = true -> single_char_kind c = None /\ is_rel_ws c = false.
Proof.
  intros H. unfold single_char_kind, is_rel_ws.
  repeat match goal with
         | |- context [N.eqb c ?k] => destruct (N.eqb_spec c k) as [->|_]; [vm_compute in H; discriminate|]
         end.
  split; reflexivity.
Qed.

Lemma span_exact {A} (p : A -> bool) (w rest : list A) :
  forallb p w = true -> match rest with [] => True | c :: _ => p c = false end ->
  span p (w ++ rest) = (w, rest).
Proof.
  induction w as [|c w IH]; intros Hw Hr.
  - cbn. destruct rest as [|c r]; [reflexivity|]. cbn. rewrite Hr. reflexivity.
  - cbn [forallb] in Hw. apply andb_true_iff in Hw. destruct Hw as [Hc Hw].
    cbn [app span]. rewrite Hc, (IH Hw Hr). reflexivity.
Qed.

(* a maximal run of identifier characters is one IDENT token *)
Lemma rlex_ident w rest ts :
  ident_ok w = true -> sep_start rest -> rlex rest = Ok ts -> rlex (w ++ rest) = Ok ((IDENT, w) :: ts).
Proof.
  intros Hw Hs Hr. destruct w as [|c w]; [discriminate|]. cbn [ident_ok] in Hw.
  cbn [forallb] in Hw. apply andb_true_iff in Hw. destruct Hw as [Hc Hw].
  cbn [app]. eapply rlex_cons; [|exact Hr].
  unfold rlex_step. destruct (ident_char_plain c Hc) as [-> ->]. rewrite Hc.
  rewrite (span_exact is_ident_char w rest Hw Hs). reflexivity.
Qed.

Lemma rlex_single c k rest ts :
  single_char_kind c = Some k -> rlex rest = Ok ts -> rlex (c :: rest) = Ok ((k, [c]) :: ts).
Proof.
  intros Hk Hr. eapply rlex_cons; [|exact Hr]. unfold rlex_step. rewrite Hk. reflexivity.
Qed.

(* a single space followed by something that is not relation whitespace *)
Lemma rlex_space rest ts :
  match rest with [] => True | c :: _ => is_rel_ws c = false end ->
  rlex rest = Ok ts -> rlex (32%N :: rest) = Ok ((WHITESPACE, [32%N]) :: ts).
Proof.
  intros Hs Hr. eapply rlex_cons; [|exact Hr]. unfold rlex_step.
  change (single_char_kind 32%N) with (@None rkind). change (is_rel_ws 32%N) with true. cbv iota.
  pose proof (span_exact is_rel_ws [] rest eq_refl Hs) as E. cbn [app] in E. rewrite E. reflexivity.
Qed.

(* ================================================================== B. the tokens of a printed relation *)
Definition tSP : rtoken := (WHITESPACE, [32%N]).

(* a possibly negated name: architectures ("!amd64") and profile terms *)
Definition term_text (t : bool * str) : str := (if fst t then [33%N] else []) ++ snd t.
Definition term_toks (t : bool * str) : list rtoken := (if fst t then [(NOT, [33%N])] else []) ++ [(IDENT, snd t)].
Definition arch_term (a : str) : bool * str :=
  match a with c :: r => if (c =? 33)%N then (true, r) else (false, a) | [] => (false, []) end.
Definition prof_term (p : bprofile) : bool * str :=
  match p with Enabled s => (false, s) | Disabled s => (true, s) end.

Fixpoint tk_join (l : list (list rtoken)) : list rtoken :=
  match l with [] => [] | [x] => x | x :: r => x ++ tSP :: tk_join r end.

Definition tk_aq (q : option str) : list rtoken :=
  match q with Some s => [(COLON, [58%N]); (IDENT, s)] | None => [] end.
Definition tk_vc (c : vconstraint) : list rtoken :=
  match c with
  | VC_ge => [(R_ANGLE, [62]); (EQUAL, [61])] | VC_le => [(L_ANGLE, [60]); (EQUAL, [61])]
  | VC_eq => [(EQUAL, [61])] | VC_gt => [(R_ANGLE, [62]); (R_ANGLE, [62])]
  | VC_lt => [(L_ANGLE, [60]); (L_ANGLE, [60])]
  end%N.
Definition tk_ver (o : option (vconstraint * list rtoken)) : list rtoken :=
  match o with
  | Some (c, vt) => tSP :: (L_PARENS, [40%N]) :: tk_vc c ++ tSP :: vt ++ [(R_PARENS, [41%N])]
  | None => []
  end.
Definition tk_terms (open close : rtoken) (ts : list (bool * str)) : list rtoken :=
  tSP :: open :: tk_join (map term_toks ts) ++ [close].
Definition tk_archs (o : option (list str)) : list rtoken :=
  match o with
  | Some a => tk_terms (L_BRACKET, [91%N]) (R_BRACKET, [93%N]) (map arch_term a)
  | None => []
  end.
Definition tk_group (g : list bprofile) : list rtoken :=
  tk_terms (L_ANGLE, [60%N]) (R_ANGLE, [62%N]) (map prof_term g).
Definition tk_profs (ps : list (list bprofile)) : list rtoken := flat_map tk_group ps.

Lemma join_cons2 sep x l : l <> [] -> join sep (x :: l) = x ++ sep ++ join sep l.
Proof. destruct l; [congruence|reflexivity]. Qed.
Lemma tk_join_cons2 x l : l <> [] -> tk_join (x :: l) = x ++ tSP :: tk_join l.
Proof. destruct l; [congruence|reflexivity]. Qed.

Lemma arch_term_text a : arch_ok a = true -> term_text (arch_term a) = a /\ ident_ok (snd (arch_term a)) = true.
Proof.
  unfold arch_ok, arch_term, term_text. destruct a as [|c r]; [discriminate|].
  destruct (N.eqb_spec c 33) as [->|_]; cbn [fst snd]; intros H; split; try reflexivity; exact H.
Qed.
Lemma prof_term_text p : profile_ok p = true -> term_text (prof_term p) = profile_print p /\ ident_ok (snd (prof_term p)) = true.
Proof. destruct p; cbn; intros H; split; try reflexivity; exact H. Qed.

Lemma ident_ok_head w : ident_ok w = true -> exists c r, w = c :: r /\ is_ident_char c = true.
Proof.
  destruct w as [|c r]; [discriminate|]. cbn [ident_ok forallb]. intros H.
  apply andb_true_iff in H. exists c, r. split; [reflexivity|apply H].
Qed.

(* one term followed by something that cannot be glued to its name *)
Lemma rlex_term t rest ts :
  ident_ok (snd t) = true -> sep_start rest -> rlex rest = Ok ts ->
  rlex (term_text t ++ rest) = Ok (term_toks t ++ ts).
Proof.
  destruct t as [[|] n]; unfold term_text, term_toks; cbn [fst snd app]; intros Hn Hs Hr.
  - apply rlex_single; [reflexivity|]. apply rlex_ident; assumption.
  - apply rlex_ident; assumption.
Qed.

Lemma term_text_head t : ident_ok (snd t) = true ->
  exists c r, term_text t = c :: r /\ is_rel_ws c = false /\ is_ident_char c || (c =? 33)%N = true.
Proof.
  destruct t as [[|] n]; unfold term_text; cbn [fst snd app]; intros Hn.
  - exists 33%N, n. repeat split; reflexivity.
  - destruct (ident_ok_head n Hn) as (c & r & -> & Hc). exists c, r.
    split; [reflexivity|]. split; [apply ident_char_plain; exact Hc|]. rewrite Hc. reflexivity.
Qed.

(* space-separated terms up to a closing bracket *)
Lemma rlex_terms terms : forall rest ts,
  Forall (fun t => ident_ok (snd t) = true) terms -> sep_start rest -> rlex rest = Ok ts ->
  rlex (join [32%N] (map term_text terms) ++ rest) = Ok (tk_join (map term_toks terms) ++ ts).
Proof.
  induction terms as [|t r IH]; intros rest ts Hall Hs Hr; [exact Hr|].
  inversion Hall as [|? ? Ht Hrr]; subst.
  destruct r as [|t2 r2].
  - cbn [map join tk_join]. apply rlex_term; assumption.
  - change (map term_text (t :: t2 :: r2)) with (term_text t :: map term_text (t2 :: r2)).
    change (map term_toks (t :: t2 :: r2)) with (term_toks t :: map term_toks (t2 :: r2)).
    rewrite join_cons2 by discriminate. rewrite tk_join_cons2 by discriminate.
    rewrite <- !app_assoc. cbn [app].
    specialize (IH rest ts Hrr Hs Hr).
    inversion Hrr as [|? ? Ht2 _]; subst.
    destruct (term_text_head t2 Ht2) as (c & w & E & Hws & _).
    apply rlex_term; [exact Ht|reflexivity|].
    apply rlex_space; [|exact IH].
    cbn [map join]. destruct r2; cbn [map join app]; rewrite E; exact Hws.
Qed.

(* the printed version: identifier characters and ':' only, then ')' *)
Definition idcolon_kind (t : rtoken) : Prop := fst t = IDENT \/ fst t = COLON.

Lemma span_ident_split s :
  exists w r, s = w ++ r /\ span is_ident_char s = (w, r) /\ forallb is_ident_char w = true /\ sep_start r.
Proof.
  destruct (span is_ident_char s) as [w r] eqn:E. exists w, r.
  split; [symmetry; eapply span_app; exact E|]. split; [reflexivity|].
  split; [eapply span_all; exact E|]. pose proof (span_stop _ _ _ _ E) as H. destruct r; [exact I|exact H].
Qed.

Lemma rlex_version_text n : forall s rest ts,
  length s <= n -> version_text_ok s = true -> sep_start rest -> rlex rest = Ok ts ->
  exists vt, rlex (s ++ rest) = Ok (vt ++ ts) /\ Forall idcolon_kind vt /\ concat (map snd vt) = s.
Proof.
  induction n as [|n IH]; intros s rest ts Hl Hok Hs Hr.
  - destruct s; [|cbn in Hl; lia]. exists []. repeat split; [exact Hr|constructor].
  - destruct s as [|c s']; [exists []; repeat split; [exact Hr|constructor]|].
    unfold version_text_ok in Hok. cbn [forallb] in Hok. apply andb_true_iff in Hok. destruct Hok as [Hc Hok].
    destruct (is_ident_char c) eqn:Ec.
    + destruct (span_ident_split s') as (w & r & -> & _ & Hw & Hsr).
      assert (Hokr : version_text_ok r = true).
      { unfold version_text_ok in *. rewrite forallb_app in Hok. apply andb_true_iff in Hok. apply Hok. }
      destruct (IH r rest ts) as (vt & E & Hk & Hc2); [cbn in Hl; rewrite app_length in Hl; lia|exact Hokr|exact Hs|exact Hr|].
      exists ((IDENT, c :: w) :: vt). split; [|split].
      * replace ((c :: w ++ r) ++ rest) with ((c :: w) ++ r ++ rest) by (cbn [app]; rewrite <- app_assoc; reflexivity).
        change (((IDENT, c :: w) :: vt) ++ ts) with ((IDENT, c :: w) :: vt ++ ts).
        apply rlex_ident; [cbn [ident_ok forallb]; rewrite Ec, Hw; reflexivity| |exact E].
        destruct r as [|c2 r2]; [exact Hs|exact Hsr].
      * constructor; [left; reflexivity|exact Hk].
      * cbn [map concat snd]. rewrite Hc2. reflexivity.
    + cbn [orb] in Hc. apply N.eqb_eq in Hc. subst c.
      destruct (IH s' rest ts) as (vt & E & Hk & Hc2); [cbn in Hl; lia|exact Hok|exact Hs|exact Hr|].
      exists ((COLON, [58%N]) :: vt). split; [|split].
      * cbn [app]. apply rlex_single; [reflexivity|exact E].
      * constructor; [right; reflexivity|exact Hk].
      * cbn [map concat snd app]. rewrite Hc2. reflexivity.
Qed.

Lemma sep_start_app a b : sep_start a -> sep_start b -> sep_start (a ++ b).
Proof. destruct a; intros Ha Hb; [exact Hb|exact Ha]. Qed.

(* " [" terms "]" and " <" terms ">" *)
Lemma rlex_bracketed o c ko kc terms rest ts :
  single_char_kind o = Some ko -> single_char_kind c = Some kc ->
  is_rel_ws o = false -> is_ident_char c = false ->
  Forall (fun t => ident_ok (snd t) = true) terms -> rlex rest = Ok ts ->
  rlex ([32%N; o] ++ join [32%N] (map term_text terms) ++ [c] ++ rest)
  = Ok (tk_terms (ko, [o]) (kc, [c]) terms ++ ts).
Proof.
  intros Ho Hc Hwo Hic Hall Hr. unfold tk_terms. cbn [app]. rewrite <- app_assoc. cbn [app].
  apply rlex_space; [exact Hwo|]. apply rlex_single; [exact Ho|].
  apply rlex_terms; [exact Hall|exact Hic|]. apply rlex_single; [exact Hc|exact Hr].
Qed.

Section RoundTrip.
  Variable V : Type.
  Variable vparse : str -> option V.
  Variable vprint : V -> str.

  Definition aq_text (q : option str) : str := match q with Some q => 58%N :: q | None => [] end.
  Definition ver_text (o : option (vconstraint * V)) : str :=
    match o with Some (c, v) => [32; 40]%N ++ vc_print c ++ [32%N] ++ vprint v ++ [41%N] | None => [] end.
  Definition archs_text (o : option (list str)) : str :=
    match o with Some a => [32; 91]%N ++ join [32%N] a ++ [93%N] | None => [] end.
  Definition group_text (g : list bprofile) : str := [32; 60]%N ++ join [32%N] (map profile_print g) ++ [62%N].

  Lemma print_relation_pieces n q a v ps :
    print_relation vprint (mkRel n q a v ps) = n ++ aq_text q ++ ver_text v ++ archs_text a ++ flat_map group_text ps.
  Proof. reflexivity. Qed.

  Lemma map_arch_terms a : forallb arch_ok a = true ->
    map term_text (map arch_term a) = a /\ Forall (fun t => ident_ok (snd t) = true) (map arch_term a).
  Proof.
    induction a as [|x r IH]; [intros _; split; [reflexivity|constructor]|].
    cbn [forallb]. intros H. apply andb_true_iff in H. destruct H as [Hx Hr].
    destruct (IH Hr) as [E F]. destruct (arch_term_text x Hx) as [Ex Fx].
    cbn [map]. rewrite Ex, E. split; [reflexivity|constructor; assumption].
  Qed.
  Lemma map_prof_terms g : forallb profile_ok g = true ->
    map term_text (map prof_term g) = map profile_print g /\ Forall (fun t => ident_ok (snd t) = true) (map prof_term g).
  Proof.
    induction g as [|x r IH]; [intros _; split; [reflexivity|constructor]|].
    cbn [forallb]. intros H. apply andb_true_iff in H. destruct H as [Hx Hr].
    destruct (IH Hr) as [E F]. destruct (prof_term_text x Hx) as [Ex Fx].
    cbn [map]. rewrite Ex, E. split; [reflexivity|constructor; assumption].
  Qed.

  Lemma lex_profs ps : forallb (forallb profile_ok) ps = true ->
    rlex (flat_map group_text ps) = Ok (tk_profs ps).
  Proof.
    induction ps as [|g r IH]; [reflexivity|]. cbn [forallb]. intros H.
    apply andb_true_iff in H. destruct H as [Hg Hr]. specialize (IH Hr).
    destruct (map_prof_terms g Hg) as [E F].
    cbn [flat_map]. unfold tk_profs. cbn [flat_map]. fold (tk_profs r). unfold group_text, tk_group.
    rewrite <- E. rewrite <- !app_assoc.
    apply (rlex_bracketed 60%N 62%N L_ANGLE R_ANGLE); try reflexivity; assumption.
  Qed.

  Lemma lex_archs a rest ts : match a with Some l => forallb arch_ok l = true | None => True end ->
    rlex rest = Ok ts -> rlex (archs_text a ++ rest) = Ok (tk_archs a ++ ts).
  Proof.
    destruct a as [l|]; [|intros _ Hr; exact Hr]. intros Hl Hr.
    destruct (map_arch_terms l Hl) as [E F]. unfold archs_text, tk_archs.
    rewrite <- E at 1. rewrite <- !app_assoc.
    apply (rlex_bracketed 91%N 93%N L_BRACKET R_BRACKET); try reflexivity; assumption.
  Qed.

  Lemma lex_vc c rest ts : rlex rest = Ok ts -> rlex (vc_print c ++ rest) = Ok (tk_vc c ++ ts).
  Proof.
    intros Hr. destruct c; cbn [vc_print tk_vc app];
      repeat (apply rlex_single; [reflexivity|]); exact Hr.
  Qed.

  Lemma lex_ver v rest ts :
    match v with Some (_, x) => version_text_ok (vprint x) = true | None => True end ->
    rlex rest = Ok ts ->
    exists vt, rlex (ver_text v ++ rest) = Ok (tk_ver (option_map (fun cv => (fst cv, vt)) v) ++ ts)
               /\ Forall idcolon_kind vt
               /\ match v with Some (_, x) => concat (map snd vt) = vprint x | None => True end.
  Proof.
    destruct v as [[c x]|]; [|intros _ Hr; exists []; repeat split; [exact Hr|constructor]].
    intros Hx Hr.
    destruct (rlex_version_text (length (vprint x)) (vprint x) (41%N :: rest) ((R_PARENS, [41%N]) :: ts))
      as (vt & E & Hk & Hc); [lia|exact Hx|reflexivity|apply rlex_single; [reflexivity|exact Hr]|].
    exists vt. split; [|split; [exact Hk|exact Hc]].
    unfold ver_text, tk_ver. cbn [option_map fst]. repeat first [rewrite <- app_assoc | progress cbn [app]].
    apply rlex_space; [reflexivity|]. apply rlex_single; [reflexivity|].
    apply lex_vc. 
    apply rlex_space.
    - destruct (vprint x) as [|c0 w] eqn:Ev; [reflexivity|]. cbn [app].
      unfold version_text_ok in Hx. cbn [forallb] in Hx. apply andb_true_iff in Hx. destruct Hx as [Hc0 _].
      apply orb_true_iff in Hc0. destruct Hc0 as [Hc0|Hc0]; [apply ident_char_plain; exact Hc0|].
      apply N.eqb_eq in Hc0. subst c0. reflexivity.
    - exact E.
  Qed.

  Lemma lex_aq q rest ts : match q with Some s => ident_ok s = true | None => True end ->
    sep_start rest -> rlex rest = Ok ts -> rlex (aq_text q ++ rest) = Ok (tk_aq q ++ ts).
  Proof.
    destruct q as [s|]; [|intros _ _ Hr; exact Hr]. intros Hs Hst Hr. cbn [aq_text tk_aq app].
    apply rlex_single; [reflexivity|]. apply rlex_ident; assumption.
  Qed.

  Lemma sep_start_aq q : sep_start (aq_text q).
  Proof. destruct q; reflexivity. Qed.
  Lemma sep_start_ver v : sep_start (ver_text v).
  Proof. destruct v as [[c x]|]; reflexivity. Qed.
  Lemma sep_start_archs a : sep_start (archs_text a).
  Proof. destruct a; reflexivity. Qed.
  Lemma sep_start_profs ps : sep_start (flat_map group_text ps).
  Proof. destruct ps; reflexivity. Qed.

  Lemma lex_print_relation n q a v ps :
    relation_ok vparse vprint (mkRel n q a v ps) ->
    exists vt, rlex (print_relation vprint (mkRel n q a v ps))
               = Ok ((IDENT, n) :: tk_aq q ++ tk_ver (option_map (fun cv => (fst cv, vt)) v) ++ tk_archs a ++ tk_profs ps)
               /\ Forall idcolon_kind vt
               /\ match v with Some (_, x) => concat (map snd vt) = vprint x | None => True end.
  Proof.
    intros (Hn & Hq & Hv & Ha & Hp). cbn [r_name r_archqual r_version r_archs r_profiles] in *.
    pose proof (lex_profs ps Hp) as Lp.
    pose proof (lex_archs a _ _ Ha Lp) as La.
    destruct (lex_ver v _ _ ltac:(destruct v as [[c x]|]; [apply Hv|exact I]) La) as (vt & Lv & Hk & Hc).
    exists vt. split; [|split; [exact Hk|exact Hc]].
    rewrite print_relation_pieces.
    change ((IDENT, n) :: ?l) with ([(IDENT, n)] ++ l).
    apply rlex_ident; [exact Hn| |].
    - apply sep_start_app; [apply sep_start_aq|]. apply sep_start_app; [apply sep_start_ver|].
      apply sep_start_app; [apply sep_start_archs|apply sep_start_profs].
    - apply lex_aq; [exact Hq| |exact Lv].
      apply sep_start_app; [apply sep_start_ver|]. apply sep_start_app; [apply sep_start_archs|apply sep_start_profs].
  Qed.

  (* ---------------- the reader on those tokens ---------------- *)
  (* kind of the first token that is not whitespace *)
  Definition fk (ts : list rtoken) : option rkind :=
    match eat_whitespace ts with [] => None | t :: _ => Some (fst t) end.

  Lemma eat_whitespace_idem ts : eat_whitespace (eat_whitespace ts) = eat_whitespace ts.
  Proof.
    induction ts as [|[k s] r IH]; [reflexivity|]. destruct k; try reflexivity; exact IH.
  Qed.
  Lemma eat_whitespace_length ts : length (eat_whitespace ts) <= length ts.
  Proof.
    induction ts as [|[k s] r IH]; [cbn; lia|]. destruct k; cbn [eat_whitespace length]; lia.
  Qed.

  Lemma read_archqual_skip ts : fk ts <> Some COLON ->
    read_archqual (eat_whitespace ts) = Ok (None, eat_whitespace ts).
  Proof.
    unfold fk. destruct (eat_whitespace ts) as [|[k s] r]; [reflexivity|].
    destruct k; try reflexivity. cbn. congruence.
  Qed.
  Lemma read_version_skip ts : fk ts <> Some L_PARENS ->
    read_version vparse (eat_whitespace ts) = Ok (None, eat_whitespace ts).
  Proof.
    unfold fk. destruct (eat_whitespace ts) as [|[k s] r]; [reflexivity|].
    destruct k; try reflexivity. cbn. congruence.
  Qed.
  Lemma read_architectures_skip ts : fk ts <> Some L_BRACKET ->
    read_architectures (eat_whitespace ts) = Ok (None, eat_whitespace ts).
  Proof.
    unfold fk. destruct (eat_whitespace ts) as [|[k s] r]; [reflexivity|].
    destruct k; try reflexivity. cbn. congruence.
  Qed.

  Lemma fk_profs ps : fk (tk_profs ps) = None \/ fk (tk_profs ps) = Some L_ANGLE.
  Proof. destruct ps; [left|right]; reflexivity. Qed.
  Lemma fk_archs a rest : fk (tk_archs a ++ rest) = Some L_BRACKET \/ fk (tk_archs a ++ rest) = fk rest.
  Proof. destruct a; [left|right]; reflexivity. Qed.
  Lemma fk_ver v rest : fk (tk_ver v ++ rest) = Some L_PARENS \/ fk (tk_ver v ++ rest) = fk rest.
  Proof. destruct v as [[c vt]|]; [left|right]; reflexivity. Qed.

  (* version *)
  Lemma read_constraint_vc c r acc :
    read_constraint (tk_vc c ++ tSP :: r) acc = (acc ++ vc_print c, tSP :: r).
  Proof.
    destruct c; cbn [tk_vc app read_constraint tSP vc_print]; rewrite <- ?app_assoc; reflexivity.
  Qed.
  Lemma eat_whitespace_vc c r : eat_whitespace (tk_vc c ++ r) = tk_vc c ++ r.
  Proof. destruct c; reflexivity. Qed.
  Lemma vc_of_str_print c : vc_of_str (vc_print c) = Some c.
  Proof. destruct c; reflexivity. Qed.
  Lemma eat_whitespace_idcolon vt t rest : Forall idcolon_kind vt -> fst t = R_PARENS ->
    eat_whitespace (vt ++ t :: rest) = vt ++ t :: rest.
  Proof.
    intros H Ht. destruct vt as [|[k s] r].
    - destruct t as [k s]. cbn in Ht. subst k. reflexivity.
    - inversion H as [|? ? Hk _]; subst. destruct Hk as [Hk|Hk]; cbn in Hk; subst k; reflexivity.
  Qed.
  Lemma read_version_string_idcolon vt : forall acc s rest, Forall idcolon_kind vt ->
    read_version_string (vt ++ (R_PARENS, s) :: rest) acc = Ok (acc ++ concat (map snd vt), (R_PARENS, s) :: rest).
  Proof.
    induction vt as [|[k w] r IH]; intros acc s rest H.
    - cbn. rewrite app_nil_r. reflexivity.
    - inversion H as [|? ? Hk Hr]; subst.
      destruct Hk as [Hk|Hk]; cbn in Hk; subst k; cbn [app read_version_string map concat snd];
        rewrite (IH _ _ _ Hr), <- app_assoc; reflexivity.
  Qed.

  Lemma read_version_take c vt x rest :
    Forall idcolon_kind vt -> vparse (concat (map snd vt)) = Some x ->
    read_version vparse (eat_whitespace (tk_ver (Some (c, vt)) ++ rest)) = Ok (Some (c, x), rest).
  Proof.
    intros Hk Hx. unfold tk_ver. cbn [app]. change (eat_whitespace (tSP :: ?l)) with (eat_whitespace l).
    cbn [eat_whitespace read_version]. rewrite <- app_assoc. rewrite eat_whitespace_vc.
    cbn [app]. rewrite read_constraint_vc. cbn [app]. rewrite vc_of_str_print.
    change (eat_whitespace (tSP :: ?l)) with (eat_whitespace l).
    rewrite <- app_assoc. cbn [app].
    rewrite (eat_whitespace_idcolon vt (R_PARENS, [41%N]) rest Hk eq_refl).
    rewrite (read_version_string_idcolon vt [] _ rest Hk). cbn [app]. rewrite Hx. reflexivity.
  Qed.

  (* bracketed terms *)
  Lemma read_archs_terms terms : forall acc t rest, fst t = R_BRACKET ->
    read_archs (tk_join (map term_toks terms) ++ t :: rest) acc = Ok (acc ++ map term_text terms, rest).
  Proof.
    assert (Hend : forall acc t rest, fst t = R_BRACKET -> read_archs (t :: rest) acc = Ok (acc, rest)).
    { intros acc [k s] rest Hk. cbn in Hk. subst k. reflexivity. }
    assert (Hone : forall (t : bool * str) acc l,
               read_archs (term_toks t ++ l) acc = read_archs l (acc ++ [term_text t])).
    { intros [[|] n] acc l; reflexivity. }
    induction terms as [|t1 r IH]; intros acc t rest Ht.
    - cbn [map tk_join app]. rewrite app_nil_r. apply Hend. exact Ht.
    - destruct r as [|t2 r2].
      + cbn [map tk_join]. rewrite Hone. rewrite (Hend _ t rest Ht). reflexivity.
      + change (map term_toks (t1 :: t2 :: r2)) with (term_toks t1 :: map term_toks (t2 :: r2)).
        rewrite tk_join_cons2 by discriminate. rewrite <- app_assoc. rewrite Hone.
        cbn [app tSP read_archs]. rewrite (IH _ t rest Ht). rewrite <- app_assoc. reflexivity.
  Qed.

  Lemma read_architectures_take terms o t rest : fst t = R_BRACKET ->
    read_architectures (eat_whitespace (tk_terms (L_BRACKET, o) t terms ++ rest)) = Ok (Some (map term_text terms), rest).
  Proof.
    intros Ht. unfold tk_terms. cbn [app]. change (eat_whitespace (tSP :: ?l)) with (eat_whitespace l).
    cbn [eat_whitespace read_architectures]. rewrite <- app_assoc. cbn [app].
    rewrite (read_archs_terms terms [] t rest Ht). reflexivity.
  Qed.

  Definition term_profile (t : bool * str) : bprofile := if fst t then Disabled (snd t) else Enabled (snd t).
  Lemma term_profile_prof p : term_profile (prof_term p) = p.
  Proof. destruct p; reflexivity. Qed.

  Lemma read_group_terms terms : forall acc t rest, fst t = R_ANGLE ->
    read_profile_group (tk_join (map term_toks terms) ++ t :: rest) acc = Ok (acc ++ map term_profile terms, rest).
  Proof.
    assert (Hend : forall acc t rest, fst t = R_ANGLE -> read_profile_group (t :: rest) acc = Ok (acc, rest)).
    { intros acc [k s] rest Hk. cbn in Hk. subst k. reflexivity. }
    assert (Hone : forall (t : bool * str) acc l,
               read_profile_group (term_toks t ++ l) acc = read_profile_group l (acc ++ [term_profile t])).
    { intros [[|] n] acc l; reflexivity. }
    induction terms as [|t1 r IH]; intros acc t rest Ht.
    - cbn [map tk_join app]. rewrite app_nil_r. apply Hend. exact Ht.
    - destruct r as [|t2 r2].
      + cbn [map tk_join]. rewrite Hone. rewrite (Hend _ t rest Ht). reflexivity.
      + change (map term_toks (t1 :: t2 :: r2)) with (term_toks t1 :: map term_toks (t2 :: r2)).
        rewrite tk_join_cons2 by discriminate. rewrite <- app_assoc. rewrite Hone.
        cbn [app tSP read_profile_group]. rewrite (IH _ t rest Ht). rewrite <- app_assoc. reflexivity.
  Qed.

  Lemma read_profiles_take ps : forall fuel acc, length ps <= fuel ->
    read_profiles fuel (eat_whitespace (tk_profs ps)) acc = Ok (acc ++ ps, []).
  Proof.
    induction ps as [|g r IH]; intros fuel acc Hf.
    - cbn. rewrite app_nil_r. destruct fuel; reflexivity.
    - destruct fuel as [|f]; [cbn in Hf; lia|].
      unfold tk_profs. cbn [flat_map]. fold (tk_profs r). unfold tk_group, tk_terms. cbn [app].
      change (eat_whitespace (tSP :: ?l)) with (eat_whitespace l). cbn [eat_whitespace read_profiles].
      rewrite <- app_assoc. cbn [app].
      rewrite (read_group_terms (map prof_term g) [] (R_ANGLE, [62%N]) (tk_profs r) eq_refl). cbn [app].
      rewrite map_map. rewrite (map_ext _ (fun p => p) term_profile_prof), map_id.
      rewrite IH by (cbn in Hf; lia). rewrite <- app_assoc. reflexivity.
  Qed.

  Lemma length_profs ps : length ps <= length (eat_whitespace (tk_profs ps)).
  Proof.
    destruct ps as [|g r]; [cbn; lia|].
    unfold tk_profs. cbn [flat_map]. fold (tk_profs r). unfold tk_group, tk_terms. cbn [app].
    change (eat_whitespace (tSP :: ?l)) with (eat_whitespace l). cbn [eat_whitespace length].
    rewrite !app_length. cbn [length].
    assert (length r <= length (tk_profs r)).
    { clear. induction r as [|g r IH]; [cbn; lia|]. unfold tk_profs. cbn [flat_map]. fold (tk_profs r).
      rewrite app_length. unfold tk_group, tk_terms. cbn [length]. lia. }
    lia.
  Qed.

  Lemma fk_tail v a ps :
    let k := fk (tk_ver v ++ tk_archs a ++ tk_profs ps) in
    k = None \/ k = Some L_PARENS \/ k = Some L_BRACKET \/ k = Some L_ANGLE.
  Proof. destruct v as [[c vt]|], a, ps; cbn; auto. Qed.

  Lemma relation_from_tokens_rt n q a v ps vt :
    Forall idcolon_kind vt ->
    match v with Some (_, x) => vparse (concat (map snd vt)) = Some x | None => True end ->
    match a with Some l => forallb arch_ok l = true | None => True end ->
    relation_from_tokens vparse
      ((IDENT, n) :: tk_aq q ++ tk_ver (option_map (fun cv => (fst cv, vt)) v) ++ tk_archs a ++ tk_profs ps)
    = Ok (mkRel n q a v ps).
  Proof.
    intros Hk Hv Ha. unfold relation_from_tokens. cbn [read_name bind].
    (* archqual *)
    assert (E2 : forall T2, fk T2 <> Some COLON ->
               read_archqual (eat_whitespace (tk_aq q ++ T2)) = Ok (q, match q with Some _ => T2 | None => eat_whitespace T2 end)).
    { intros T2 H2. destruct q as [s|]; [reflexivity|]. cbn [tk_aq app]. apply read_archqual_skip. exact H2. }
    rewrite E2.
    2:{ pose proof (fk_tail (option_map (fun cv => (fst cv, vt)) v) a ps) as H. cbv zeta in H.
        destruct H as [H|[H|[H|H]]]; rewrite H; discriminate. }
    cbn [bind].
    assert (E2' : eat_whitespace (match q with Some _ => tk_ver (option_map (fun cv => (fst cv, vt)) v) ++ tk_archs a ++ tk_profs ps
                                        | None => eat_whitespace (tk_ver (option_map (fun cv => (fst cv, vt)) v) ++ tk_archs a ++ tk_profs ps) end)
                  = eat_whitespace (tk_ver (option_map (fun cv => (fst cv, vt)) v) ++ tk_archs a ++ tk_profs ps)).
    { destruct q; [reflexivity|apply eat_whitespace_idem]. }
    rewrite E2'. clear E2 E2'.
    (* version *)
    assert (E3 : read_version vparse (eat_whitespace (tk_ver (option_map (fun cv => (fst cv, vt)) v) ++ tk_archs a ++ tk_profs ps))
                 = Ok (v, match v with Some _ => tk_archs a ++ tk_profs ps | None => eat_whitespace (tk_archs a ++ tk_profs ps) end)).
    { destruct v as [[c x]|].
      - cbn [option_map fst]. apply read_version_take; assumption.
      - cbn [option_map tk_ver app]. apply read_version_skip.
        pose proof (fk_tail None a ps) as H. cbv zeta in H. cbn [tk_ver app] in H.
        destruct H as [H|[H|[H|H]]]; rewrite H; try discriminate.
        exfalso. destruct a, ps; cbn in H; discriminate. }
    rewrite E3. cbn [bind]. clear E3.
    assert (E3' : eat_whitespace (match v with Some _ => tk_archs a ++ tk_profs ps | None => eat_whitespace (tk_archs a ++ tk_profs ps) end)
                  = eat_whitespace (tk_archs a ++ tk_profs ps)).
    { destruct v; [reflexivity|apply eat_whitespace_idem]. }
    rewrite E3'. clear E3'.
    (* architectures *)
    assert (E4 : read_architectures (eat_whitespace (tk_archs a ++ tk_profs ps))
                 = Ok (a, match a with Some _ => tk_profs ps | None => eat_whitespace (tk_profs ps) end)).
    { destruct a as [l|].
      - unfold tk_archs. rewrite read_architectures_take by reflexivity.
        destruct (map_arch_terms l Ha) as [-> _]. reflexivity.
      - cbn [tk_archs app]. apply read_architectures_skip.
        destruct (fk_profs ps) as [H|H]; rewrite H; discriminate. }
    rewrite E4. cbn [bind]. clear E4.
    (* profiles *)
    assert (E5 : forall t4, t4 = tk_profs ps \/ t4 = eat_whitespace (tk_profs ps) ->
               read_profiles (S (length t4)) (eat_whitespace t4) [] = Ok (ps, [])).
    { intros t4 [->| ->]; [|rewrite eat_whitespace_idem];
        rewrite read_profiles_take; try reflexivity.
      - pose proof (length_profs ps). pose proof (eat_whitespace_length (tk_profs ps)). lia.
      - pose proof (length_profs ps). lia. }
    rewrite E5 by (destruct a; [left|right]; reflexivity).
    reflexivity.
  Qed.

  (* Relation::from_str (r.to_string()) = Ok(r) *)
  Theorem relation_rt r : relation_ok vparse vprint r ->
    relation_from_str vparse (print_relation vprint r) = Ok r.
  Proof.
    destruct r as [n q a v ps]. intros Hok.
    destruct (lex_print_relation n q a v ps Hok) as (vt & E & Hk & Hc).
    unfold relation_from_str. rewrite E. cbn [bind].
    destruct Hok as (_ & _ & Hv & Ha & _). cbn [r_version r_archs] in Hv, Ha.
    apply relation_from_tokens_rt; [exact Hk| |exact Ha].
    destruct v as [[c x]|]; [|exact I]. rewrite Hc. apply Hv.
  Qed.

  (* ---------------- the characters of a printed relation ---------------- *)
  (* everything Display writes for a valid relation *)
  Definition ptext_char (c : char) : bool :=
    is_ident_char c || (c =? 58)%N || (c =? 32)%N || (c =? 40)%N || (c =? 41)%N || (c =? 91)%N
    || (c =? 93)%N || (c =? 60)%N || (c =? 62)%N || (c =? 33)%N || (c =? 61)%N.

  Lemma forallb_impl {A} (p q : A -> bool) l :
    (forall x, p x = true -> q x = true) -> forallb p l = true -> forallb q l = true.
  Proof.
    intros H. induction l as [|x r IH]; [reflexivity|]. cbn [forallb]. intros Hl.
    apply andb_true_iff in Hl. destruct Hl as [Hx Hr]. rewrite (H x Hx), (IH Hr). reflexivity.
  Qed.
  Lemma forallb_map_eq {A B} (p : B -> bool) (f : A -> B) l : forallb p (map f l) = forallb (fun x => p (f x)) l.
  Proof. induction l as [|x r IH]; [reflexivity|]. cbn. rewrite IH. reflexivity. Qed.

  Lemma forallb_join_str p sep items :
    forallb p sep = true -> forallb (forallb p) items = true -> forallb p (join sep items) = true.
  Proof.
    intros Hs. induction items as [|x r IH]; [reflexivity|]. cbn [forallb]. intros H.
    apply andb_true_iff in H. destruct H as [Hx Hr]. destruct r as [|y r']; [exact Hx|].
    rewrite join_cons2 by discriminate. rewrite !forallb_app, Hx, Hs. cbn [andb]. apply IH. exact Hr.
  Qed.

  Lemma ident_ok_ptext s : ident_ok s = true -> forallb ptext_char s = true.
  Proof.
    destruct s as [|c r]; [discriminate|]. unfold ident_ok. apply forallb_impl.
    intros x Hx. unfold ptext_char. rewrite Hx. reflexivity.
  Qed.
  Lemma arch_ok_ptext s : arch_ok s = true -> forallb ptext_char s = true.
  Proof.
    unfold arch_ok. destruct s as [|c r]; [discriminate|]. destruct (N.eqb_spec c 33) as [->|_].
    - intros H. cbn [forallb]. rewrite (ident_ok_ptext r H). reflexivity.
    - apply ident_ok_ptext.
  Qed.
  Lemma profile_ok_ptext p : profile_ok p = true -> forallb ptext_char (profile_print p) = true.
  Proof.
    destruct p as [s|s]; cbn [profile_ok profile_print]; intros H.
    - apply ident_ok_ptext. exact H.
    - cbn [forallb]. rewrite (ident_ok_ptext s H). reflexivity.
  Qed.
  Lemma version_text_ptext s : version_text_ok s = true -> forallb ptext_char s = true.
  Proof.
    unfold version_text_ok. apply forallb_impl. intros c. unfold ptext_char. lia.
  Qed.

  Lemma print_relation_ptext r : relation_ok vparse vprint r -> forallb ptext_char (print_relation vprint r) = true.
  Proof.
    destruct r as [n q a v ps]. intros (Hn & Hq & Hv & Ha & Hp).
    cbn [r_name r_archqual r_version r_archs r_profiles] in *.
    rewrite print_relation_pieces. rewrite !forallb_app.
    rewrite (ident_ok_ptext n Hn). cbn [andb].
    assert (Eq : forallb ptext_char (aq_text q) = true).
    { destruct q as [s|]; [|reflexivity]. cbn [aq_text forallb]. rewrite (ident_ok_ptext s Hq). reflexivity. }
    assert (Ev : forallb ptext_char (ver_text v) = true).
    { destruct v as [[c x]|]; [|reflexivity]. unfold ver_text. rewrite !forallb_app.
      rewrite (version_text_ptext _ (proj1 Hv)). destruct c; reflexivity. }
    assert (Ea : forallb ptext_char (archs_text a) = true).
    { destruct a as [l|]; [|reflexivity]. unfold archs_text. rewrite !forallb_app.
      rewrite forallb_join_str; [reflexivity|reflexivity|].
      eapply forallb_impl; [|exact Ha]. apply arch_ok_ptext. }
    assert (Ep : forallb ptext_char (flat_map group_text ps) = true).
    { clear -Hp. induction ps as [|g r IH]; [reflexivity|]. cbn [forallb] in Hp.
      apply andb_true_iff in Hp. destruct Hp as [Hg Hr]. cbn [flat_map]. rewrite forallb_app, (IH Hr), andb_true_r.
      unfold group_text. rewrite !forallb_app. rewrite forallb_join_str; [reflexivity|reflexivity|].
      rewrite forallb_map_eq. eapply forallb_impl; [|exact Hg]. apply profile_ok_ptext. }
    rewrite Eq, Ev, Ea, Ep. reflexivity.
  Qed.

  (* ---------------- first and last character, trim, split ---------------- *)
  Definition first_ok (s : str) : Prop := exists c r, s = c :: r /\ is_unicode_ws c = false.
  Definition last_ok (s : str) : Prop := exists r c, s = r ++ [c] /\ is_unicode_ws c = false.

  Lemma ident_char_not_ws c : is_ident_char c = true -> is_unicode_ws c = false.
  Proof. unfold is_ident_char, is_ascii_alnum, is_unicode_ws. lia. Qed.

  Lemma ident_ok_first s : ident_ok s = true -> first_ok s.
  Proof.
    intros H. destruct (ident_ok_head s H) as (c & r & -> & Hc). exists c, r. split; [reflexivity|].
    apply ident_char_not_ws. exact Hc.
  Qed.
  Lemma ident_ok_last s : ident_ok s = true -> last_ok s.
  Proof.
    intros H. destruct s as [|c0 r0]; [discriminate|]. unfold ident_ok in H.
    destruct (exists_last (l := c0 :: r0) ltac:(discriminate)) as (r & c & E). rewrite E in *.
    exists r, c. split; [reflexivity|]. rewrite forallb_app in H. apply andb_true_iff in H.
    destruct H as [_ H]. cbn [forallb] in H. rewrite andb_true_r in H. apply ident_char_not_ws. exact H.
  Qed.
  Lemma last_ok_app_r a b : last_ok b -> last_ok (a ++ b).
  Proof. intros (r & c & -> & H). exists (a ++ r), c. rewrite app_assoc. split; [reflexivity|exact H]. Qed.
  Lemma first_ok_app_l a b : first_ok a -> first_ok (a ++ b).
  Proof. intros (c & r & -> & H). exists c, (r ++ b). split; [reflexivity|exact H]. Qed.
  Lemma last_ok_end a c : is_unicode_ws c = false -> last_ok (a ++ [c]).
  Proof. intros H. exists a, c. split; [reflexivity|exact H]. Qed.

  Lemma print_relation_first r : relation_ok vparse vprint r -> first_ok (print_relation vprint r).
  Proof.
    destruct r as [n q a v ps]. intros (Hn & _). cbn [r_name] in Hn. rewrite print_relation_pieces.
    apply first_ok_app_l, ident_ok_first. exact Hn.
  Qed.

  Lemma exists_last_or_nil {A} (l : list A) : l = [] \/ exists l' x, l = l' ++ [x].
  Proof. destruct l as [|a r]; [left; reflexivity|right]. destruct (exists_last (l := a :: r) ltac:(discriminate)) as (l' & x & E). exists l', x. exact E. Qed.

  Lemma print_relation_last r : relation_ok vparse vprint r -> last_ok (print_relation vprint r).
  Proof.
    destruct r as [n q a v ps]. intros (Hn & Hq & _). cbn [r_name r_archqual] in Hn, Hq.
    rewrite print_relation_pieces.
    destruct (exists_last_or_nil ps) as [->|(ps' & g & ->)].
    2:{ rewrite flat_map_app. cbn [flat_map]. rewrite app_nil_r. unfold group_text at 2.
        rewrite !app_assoc. apply last_ok_end. reflexivity. }
    cbn [flat_map]. rewrite app_nil_r.
    destruct a as [l|].
    { unfold archs_text. rewrite !app_assoc. apply last_ok_end. reflexivity. }
    cbn [archs_text]. rewrite app_nil_r.
    destruct v as [[c x]|].
    { unfold ver_text. rewrite !app_assoc. apply last_ok_end. reflexivity. }
    cbn [ver_text]. rewrite app_nil_r.
    destruct q as [s|].
    { apply last_ok_app_r. cbn [aq_text]. change (58%N :: s) with ([58%N] ++ s). apply last_ok_app_r, ident_ok_last. exact Hq. }
    cbn [aq_text]. rewrite app_nil_r. apply ident_ok_last. exact Hn.
  Qed.

  Lemma trim_start_ws w s : forallb is_unicode_ws w = true -> first_ok s -> trim_start (w ++ s) = s.
  Proof.
    intros Hw (c & r & -> & Hc). induction w as [|x w IH].
    - cbn [app trim_start]. rewrite Hc. reflexivity.
    - cbn [forallb] in Hw. apply andb_true_iff in Hw. destruct Hw as [Hx Hw].
      cbn [app trim_start]. rewrite Hx. apply IH. exact Hw.
  Qed.
  Lemma forallb_rev {A} (p : A -> bool) l : forallb p (rev l) = forallb p l.
  Proof.
    induction l as [|x r IH]; [reflexivity|]. cbn [rev forallb]. rewrite forallb_app, IH. cbn [forallb].
    rewrite andb_true_r. apply andb_comm.
  Qed.
  Lemma trim_end_ws s w : forallb is_unicode_ws w = true -> last_ok s -> trim_end (s ++ w) = s.
  Proof.
    intros Hw (r & c & -> & Hc). unfold trim_end. rewrite rev_app_distr, rev_app_distr. cbn [rev app].
    rewrite trim_start_ws; [|rewrite forallb_rev; exact Hw|exists c, (rev r); split; [reflexivity|exact Hc]].
    cbn [rev]. rewrite rev_involutive. reflexivity.
  Qed.
  Lemma trim_pad w1 s w2 :
    forallb is_unicode_ws w1 = true -> forallb is_unicode_ws w2 = true -> first_ok s -> last_ok s ->
    trim (w1 ++ s ++ w2) = s.
  Proof.
    intros H1 H2 Hf Hl. unfold trim. rewrite trim_start_ws; [|exact H1|apply first_ok_app_l; exact Hf].
    apply trim_end_ws; assumption.
  Qed.

  Lemma split_on_go_app sep a : forall rest acc, forallb (fun c => negb (c =? sep)%N) a = true ->
    split_on_go sep (a ++ rest) acc = split_on_go sep rest (acc ++ a).
  Proof.
    induction a as [|c r IH]; intros rest acc H; [rewrite app_nil_r; reflexivity|].
    cbn [forallb] in H. apply andb_true_iff in H. destruct H as [Hc Hr]. apply negb_true_iff in Hc.
    cbn [app split_on_go]. rewrite Hc, (IH _ _ Hr), <- app_assoc. reflexivity.
  Qed.
  Lemma split_on_last sep a : forallb (fun c => negb (c =? sep)%N) a = true -> split_on sep a = [a].
  Proof.
    intros H. unfold split_on. rewrite <- (app_nil_r a) at 1. rewrite split_on_go_app by exact H. reflexivity.
  Qed.
  Lemma split_on_piece sep a b : forallb (fun c => negb (c =? sep)%N) a = true ->
    split_on sep (a ++ sep :: b) = a :: split_on sep b.
  Proof.
    intros H. unfold split_on. rewrite split_on_go_app by exact H. cbn [split_on_go app].
    rewrite N.eqb_refl. reflexivity.
  Qed.

  Lemma ptext_no_sep sep s : ptext_char sep = false -> forallb ptext_char s = true ->
    forallb (fun c => negb (c =? sep)%N) s = true.
  Proof.
    intros Hs. apply forallb_impl. intros c Hc. apply negb_true_iff.
    destruct (N.eqb_spec c sep) as [->|_]; [congruence|reflexivity].
  Qed.

  (* ---------------- alternatives and entries ---------------- *)
  Definition alts_ok (e : list (relation V)) : Prop := e <> [] /\ Forall (relation_ok vparse vprint) e.

  Lemma print_entry_cons r e : e <> [] ->
    print_entry vprint (r :: e) = print_relation vprint r ++ [32; 124; 32]%N ++ print_entry vprint e.
  Proof. intros H. unfold print_entry. cbn [map]. apply join_cons2. destruct e; [congruence|discriminate]. Qed.

  Lemma read_alternatives_cons p rest r : trim p <> [] -> relation_from_str vparse (trim p) = Ok r ->
    read_alternatives vparse (p :: rest) = bind (read_alternatives vparse rest) (fun rs => Ok (r :: rs)).
  Proof.
    intros Hne Hr. cbn [read_alternatives]. destruct (trim p) eqn:E; [congruence|]. rewrite Hr. reflexivity.
  Qed.
  Lemma read_entries_cons e rest alts : trim e <> [] ->
    read_alternatives vparse (split_on 124%N (trim e)) = Ok alts ->
    read_entries vparse (e :: rest) = bind (read_entries vparse rest) (fun ents => Ok (alts :: ents)).
  Proof.
    intros Hne Hr. cbn [read_entries]. destruct (trim e) eqn:E; [congruence|]. rewrite Hr. reflexivity.
  Qed.
  Lemma first_ok_nonempty s : first_ok s -> s <> [].
  Proof. intros (c & r & -> & _). discriminate. Qed.

  Lemma read_alternatives_rt e : forall w, alts_ok e -> forallb is_unicode_ws w = true ->
    forallb (fun c => negb (c =? 124)%N) w = true ->
    read_alternatives vparse (split_on 124%N (w ++ print_entry vprint e)) = Ok e.
  Proof.
    induction e as [|r e IH]; intros w [Hne Hall] Hw Hw2; [congruence|].
    inversion Hall as [|? ? Hr He]; subst.
    pose proof (print_relation_ptext r Hr) as Hp.
    pose proof (ptext_no_sep 124%N _ eq_refl Hp) as Hnp.
    pose proof (print_relation_first r Hr) as Hf. pose proof (print_relation_last r Hr) as Hl.
    destruct e as [|r2 e2].
    - unfold print_entry. cbn [map join]. rewrite split_on_last by (rewrite forallb_app, Hw2, Hnp; reflexivity).
      assert (Et : trim (w ++ print_relation vprint r) = print_relation vprint r).
      { rewrite <- (app_nil_r (print_relation vprint r)) at 1. apply trim_pad; try assumption; reflexivity. }
      rewrite (read_alternatives_cons _ _ r); [reflexivity|rewrite Et; apply first_ok_nonempty; exact Hf|].
      rewrite Et. apply relation_rt. exact Hr.
    - rewrite print_entry_cons by discriminate.
      replace (w ++ print_relation vprint r ++ [32; 124; 32]%N ++ print_entry vprint (r2 :: e2))
        with ((w ++ print_relation vprint r ++ [32%N]) ++ 124%N :: [32%N] ++ print_entry vprint (r2 :: e2))
        by (rewrite <- !app_assoc; reflexivity).
      rewrite split_on_piece by (rewrite !forallb_app, Hw2, Hnp; reflexivity).
      assert (Et : trim (w ++ print_relation vprint r ++ [32%N]) = print_relation vprint r)
        by (apply trim_pad; try assumption; reflexivity).
      rewrite (read_alternatives_cons _ _ r); [|rewrite Et; apply first_ok_nonempty; exact Hf|rewrite Et; apply relation_rt; exact Hr].
      rewrite IH; [reflexivity|split; [discriminate|exact He]|reflexivity|reflexivity].
  Qed.

  Lemma print_entry_props e : alts_ok e ->
    forallb (fun c => negb (c =? 44)%N) (print_entry vprint e) = true
    /\ first_ok (print_entry vprint e) /\ last_ok (print_entry vprint e).
  Proof.
    induction e as [|r e IH]; intros [Hne Hall]; [congruence|].
    inversion Hall as [|? ? Hr He]; subst.
    pose proof (ptext_no_sep 44%N _ eq_refl (print_relation_ptext r Hr)) as Hnp.
    destruct e as [|r2 e2].
    - unfold print_entry. cbn [map join]. split; [exact Hnp|]. split; [apply print_relation_first|apply print_relation_last]; exact Hr.
    - rewrite print_entry_cons by discriminate.
      destruct IH as (I1 & I2 & I3); [split; [discriminate|exact He]|].
      split; [rewrite !forallb_app, Hnp, I1; reflexivity|].
      split; [apply first_ok_app_l, print_relation_first; exact Hr|].
      apply last_ok_app_r, last_ok_app_r. exact I3.
  Qed.

  Lemma print_relations_cons e es : es <> [] ->
    print_relations vprint (e :: es) = print_entry vprint e ++ [44; 32]%N ++ print_relations vprint es.
  Proof. intros H. unfold print_relations. cbn [map]. apply join_cons2. destruct es; [congruence|discriminate]. Qed.

  Lemma read_entries_rt es : forall w, Forall alts_ok es -> es <> [] -> forallb is_unicode_ws w = true ->
    forallb (fun c => negb (c =? 44)%N) w = true ->
    read_entries vparse (split_on 44%N (w ++ print_relations vprint es)) = Ok es.
  Proof.
    induction es as [|e es IH]; intros w Hall Hne Hw Hw2; [congruence|].
    inversion Hall as [|? ? He Hes]; subst.
    destruct (print_entry_props e He) as (Hnc & Hf & Hl).
    assert (Halt : read_alternatives vparse (split_on 124%N (print_entry vprint e)) = Ok e)
      by (apply (read_alternatives_rt e [] He); reflexivity).
    assert (Et : trim (w ++ print_entry vprint e) = print_entry vprint e).
    { rewrite <- (app_nil_r (print_entry vprint e)) at 1. apply trim_pad; try assumption; reflexivity. }
    destruct es as [|e2 es2].
    - unfold print_relations. cbn [map join]. rewrite split_on_last by (rewrite forallb_app, Hw2, Hnc; reflexivity).
      rewrite (read_entries_cons _ _ e); [reflexivity|rewrite Et; apply first_ok_nonempty; exact Hf|rewrite Et; exact Halt].
    - rewrite print_relations_cons by discriminate.
      replace (w ++ print_entry vprint e ++ [44; 32]%N ++ print_relations vprint (e2 :: es2))
        with ((w ++ print_entry vprint e) ++ 44%N :: [32%N] ++ print_relations vprint (e2 :: es2))
        by (rewrite <- !app_assoc; reflexivity).
      rewrite split_on_piece by (rewrite !forallb_app, Hw2, Hnc; reflexivity).
      rewrite (read_entries_cons _ _ e); [|rewrite Et; apply first_ok_nonempty; exact Hf|rewrite Et; exact Halt].
      rewrite IH; [reflexivity|exact Hes|discriminate|reflexivity|reflexivity].
  Qed.

  (* Relations::from_str (rs.to_string()) = Ok(rs) *)
  Theorem relations_rt rs : relations_ok vparse vprint rs ->
    relations_from_str vparse (print_relations vprint rs) = Ok rs.
  Proof.
    intros Hok. destruct rs as [|e es]; [reflexivity|].
    assert (Hall : Forall alts_ok (e :: es)) by exact Hok.
    pose proof (read_entries_rt (e :: es) [] Hall ltac:(discriminate) eq_refl eq_refl) as H. cbn [app] in H.
    unfold relations_from_str.
    assert (Hf : first_ok (print_relations vprint (e :: es))).
    { inversion Hall as [|? ? He _]; subst. destruct (print_entry_props e He) as (_ & Hf & _).
      destruct es; [exact Hf|]. rewrite print_relations_cons by discriminate. apply first_ok_app_l. exact Hf. }
    pose proof (first_ok_nonempty _ Hf) as Hne. revert H Hne.
    destruct (print_relations vprint (e :: es)) eqn:E; intros H Hne; [congruence|exact H].
  Qed.
End RoundTrip.

(* ================================================================== C. totality *)
Definition fine {A} (r : res A) : Prop := is_value_or_error r = true.

Lemma fine_bind {A B} (r : res A) (f : A -> res B) :
  fine r -> (forall a, r = Ok a -> fine (f a)) -> fine (bind r f).
Proof. destruct r; cbn; intros H Hf; try discriminate; [apply Hf; reflexivity|reflexivity]. Qed.

Lemma fine_cases {A} (r : res A) : fine r -> (exists a, r = Ok a) \/ (exists e, r = Err e).
Proof. destruct r; cbn; intros H; try discriminate; [left|right]; eexists; reflexivity. Qed.

Lemma list_len_ind {A} (P : list A -> Prop) :
  (forall l, (forall l', length l' < length l -> P l') -> P l) -> forall l, P l.
Proof.
  intros H l. remember (length l) as n eqn:E. revert l E.
  induction n as [n IH] using lt_wf_ind. intros l ->. apply H. intros l' Hl. exact (IH _ Hl l' eq_refl).
Qed.

Section Total.
  Variable V : Type.
  Variable vparse : str -> option V.

  Lemma read_version_string_fine ts : forall acc, fine (read_version_string ts acc).
  Proof.
    induction ts as [|[k s] r IH]; intros acc; [reflexivity|].
    destruct k; try reflexivity; cbn [read_version_string]; apply IH.
  Qed.

  Lemma read_version_fine ts : fine (read_version vparse ts).
  Proof.
    unfold read_version. destruct ts as [|[k s] r]; [reflexivity|]. destruct k; try reflexivity.
    destruct (read_constraint (eat_whitespace r) []) as [c r1].
    destruct (vc_of_str c); [|reflexivity].
    pose proof (read_version_string_fine (eat_whitespace r1) []) as H.
    destruct (read_version_string (eat_whitespace r1) []) as [[vs r2]| | |]; try exact H.
    destruct (vparse vs); [|reflexivity].
    destruct (eat_whitespace r2) as [|[k' s'] r3]; [reflexivity|]. destruct k'; reflexivity.
  Qed.

  Lemma read_archs_fine ts : forall acc, fine (read_archs ts acc).
  Proof.
    induction ts as [ts IH] using list_len_ind.
    intros acc. destruct ts as [|[k s] r]; [reflexivity|].
    destruct k; try reflexivity; cbn [read_archs].
    - apply IH. cbn. lia.
    - destruct r as [|[k2 s2] r2]; [reflexivity|]. destruct k2; try reflexivity. apply IH. cbn. lia.
    - apply IH. cbn. lia.
    - apply IH. cbn. lia.
  Qed.

  Lemma read_architectures_fine ts : fine (read_architectures ts).
  Proof.
    unfold read_architectures. destruct ts as [|[k s] r]; [reflexivity|]. destruct k; try reflexivity.
    pose proof (read_archs_fine r []) as H. destruct (read_archs r []) as [[a r']| | |]; exact H.
  Qed.

  Lemma read_profile_group_spec ts : forall acc,
    fine (read_profile_group ts acc) /\
    forall g r, read_profile_group ts acc = Ok (g, r) -> length r < length ts.
  Proof.
    induction ts as [ts IH] using list_len_ind.
    intros acc. destruct ts as [|[k s] r]; [split; [reflexivity|discriminate]|].
    destruct k; try (split; [reflexivity|discriminate]); cbn [read_profile_group].
    - destruct (IH r ltac:(cbn; lia) (acc ++ [Enabled s])) as [F L]. split; [exact F|].
      intros g r' E. specialize (L g r' E). cbn. lia.
    - destruct r as [|[k2 s2] r2]; [split; [reflexivity|discriminate]|].
      destruct k2; try (split; [reflexivity|discriminate]).
      destruct (IH r2 ltac:(cbn; lia) (acc ++ [Disabled s2])) as [F L]. split; [exact F|].
      intros g r' E. specialize (L g r' E). cbn. lia.
    - split; [reflexivity|]. intros g r' E. inversion E; subst. cbn. lia.
    - destruct (IH r ltac:(cbn; lia) acc) as [F L]. split; [exact F|].
      intros g r' E. specialize (L g r' E). cbn. lia.
    - destruct (IH r ltac:(cbn; lia) acc) as [F L]. split; [exact F|].
      intros g r' E. specialize (L g r' E). cbn. lia.
  Qed.

  Lemma eat_whitespace_len ts : length (eat_whitespace ts) <= length ts.
  Proof.
    induction ts as [|[k s] r IH]; [cbn; lia|]. destruct k; cbn [eat_whitespace length]; lia.
  Qed.

  (* the fuel handed to the profile loop suffices *)
  Lemma read_profiles_fine fuel : forall ts acc, length ts <= fuel -> fine (read_profiles fuel ts acc).
  Proof.
    induction fuel as [|f IH]; intros ts acc Hl.
    - destruct ts; [reflexivity|cbn in Hl; lia].
    - destruct ts as [|[k s] r]; [reflexivity|]. destruct k; try reflexivity. cbn [read_profiles].
      destruct (read_profile_group_spec r []) as [F L].
      destruct (read_profile_group r []) as [[g r']| | |]; try exact F.
      apply IH. specialize (L g r' eq_refl). pose proof (eat_whitespace_len r'). cbn in Hl. lia.
  Qed.

  Lemma relation_from_tokens_fine ts : fine (relation_from_tokens vparse ts).
  Proof.
    unfold relation_from_tokens.
    apply fine_bind; [destruct ts as [|[k s] r]; [reflexivity|destruct k; reflexivity]|]. intros [name t1] _.
    apply fine_bind.
    { unfold read_archqual. destruct (eat_whitespace t1) as [|[k s] r]; [reflexivity|]. destruct k; try reflexivity.
      destruct (eat_whitespace r) as [|[k2 s2] r2]; [reflexivity|]. destruct k2; reflexivity. }
    intros [aq t2] _. apply fine_bind; [apply read_version_fine|]. intros [ver t3] _.
    apply fine_bind; [apply read_architectures_fine|]. intros [archs t4] _.
    apply fine_bind; [apply read_profiles_fine; pose proof (eat_whitespace_len t4); lia|]. intros [profs t5] _.
    destruct (eat_whitespace t5); reflexivity.
  Qed.

  Theorem relation_from_str_fine s : fine (relation_from_str vparse s).
  Proof.
    unfold relation_from_str. destruct (rlex_total_partition s) as (ts & E & _). rewrite E. cbn [bind].
    apply relation_from_tokens_fine.
  Qed.

  Lemma read_alternatives_fine ps : fine (read_alternatives vparse ps).
  Proof.
    induction ps as [|p r IH]; [reflexivity|]. cbn [read_alternatives].
    destruct (trim p) eqn:E; [reflexivity|]. rewrite <- E.
    apply fine_bind; [apply relation_from_str_fine|]. intros x _.
    apply fine_bind; [exact IH|]. intros xs _. reflexivity.
  Qed.

  Lemma read_entries_fine es : fine (read_entries vparse es).
  Proof.
    induction es as [|e r IH]; [reflexivity|]. cbn [read_entries].
    destruct (trim e) eqn:E; [exact IH|]. rewrite <- E.
    apply fine_bind; [apply read_alternatives_fine|]. intros x _.
    apply fine_bind; [exact IH|]. intros xs _. reflexivity.
  Qed.

  Theorem relations_from_str_fine s : fine (relations_from_str vparse s).
  Proof. unfold relations_from_str. destruct s; [reflexivity|apply read_entries_fine]. Qed.
End Total.

(* ================================================================== D. the concrete debversion model *)
Lemma dec_go_digits fuel : forall n acc, forallb is_digit acc = true -> forallb is_digit (dec_digits_go fuel n acc) = true.
Proof.
  induction fuel as [|f IH]; intros n acc Ha; [exact Ha|]. cbn [dec_digits_go].
  assert (Hd : forallb is_digit ((48 + n mod 10)%N :: acc) = true).
  { cbn [forallb]. rewrite Ha, andb_true_r. pose proof (N.mod_lt n 10 ltac:(lia)) as Hm. generalize dependent (n mod 10)%N. intros d Hd. unfold is_digit. lia. }
  destruct (n <? 10)%N; [exact Hd|apply IH; exact Hd].
Qed.

Lemma dec_go_nonempty f : forall n (acc : str), acc <> [] -> dec_digits_go f n acc <> [].
Proof.
  induction f as [|f IH]; intros n acc Ha; [exact Ha|]. cbn [dec_digits_go].
  destruct (n <? 10)%N; [discriminate|apply IH; discriminate].
Qed.
Lemma dec_digits_nonempty n : dec_digits n <> [].
Proof.
  unfold dec_digits. cbn [dec_digits_go]. destruct (n <? 10)%N; [discriminate|apply dec_go_nonempty; discriminate].
Qed.
Lemma dec_digits_digits n : forallb is_digit (dec_digits n) = true.
Proof. apply dec_go_digits. reflexivity. Qed.

Definition dec_step (a c : N) : N := (a * 10 + (c - 48))%N.
Lemma dec_go_value fuel : forall n acc, (n < 2 ^ N.of_nat fuel)%N ->
  fold_left dec_step (dec_digits_go fuel n acc) 0%N = fold_left dec_step acc n.
Proof.
  induction fuel as [|f IH]; intros n acc Hn.
  - cbn in Hn. assert (n = 0%N) by lia. subst n. reflexivity.
  - cbn [dec_digits_go]. destruct (N.ltb_spec n 10) as [Hlt|Hge].
    + cbn [fold_left]. unfold dec_step at 2. rewrite N.mod_small by exact Hlt. f_equal. lia.
    + rewrite IH.
      * cbn [fold_left]. f_equal. unfold dec_step. pose proof (N.div_mod n 10 ltac:(lia)) as Hdm.
        clear Hn IH. generalize dependent (n / 10)%N. intros q. generalize (n mod 10)%N. intros m Hq. lia.
      * rewrite Nat2N.inj_succ, N.pow_succ_r' in Hn.
        apply N.div_lt_upper_bound; [lia|]. clear IH. generalize dependent (2 ^ N.of_nat f)%N. intros; lia.
Qed.
Lemma dec_digits_value n : dec_value (dec_digits n) = n.
Proof.
  unfold dec_value, dec_digits. change (fun a c : N => (a * 10 + (c - 48))%N) with dec_step.
  rewrite dec_go_value; [reflexivity|].
  rewrite Nat2N.inj_succ, N2Nat.id. destruct n as [|p]; [reflexivity|].
  apply N.log2_lt_pow2; lia.
Qed.

Lemma revision_char_facts c : is_revision_char c = true ->
  is_ident_char c = true /\ (c =? 45)%N = false /\ (c =? 58)%N = false.
Proof. unfold is_revision_char, is_ident_char, is_ascii_alnum. lia. Qed.
Lemma digit_facts c : is_digit c = true -> is_ident_char c = true /\ (c =? 58)%N = false.
Proof. unfold is_digit, is_ident_char, is_ascii_alnum. lia. Qed.
Lemma upstream_char_iff c : is_upstream_char c = is_ident_char c || (c =? 58)%N.
Proof. unfold is_upstream_char, is_ident_char, is_ascii_alnum. lia. Qed.

Lemma split_revision_some up r : up <> [] -> r <> [] -> forallb is_revision_char r = true ->
  split_revision (up ++ 45%N :: r) = (up, Some r).
Proof.
  intros Hu Hr Hc. unfold split_revision.
  rewrite rev_app_distr. cbn [rev]. rewrite <- app_assoc. cbn [app].
  rewrite (span_exact (fun c => negb (c =? 45)%N) (rev r) (45%N :: rev up)).
  - destruct (rev up) as [|x xs] eqn:Eu; [apply (f_equal (@rev _)) in Eu; rewrite rev_involutive in Eu; cbn in Eu; congruence|].
    destruct (rev r) as [|y ys] eqn:Er; [apply (f_equal (@rev _)) in Er; rewrite rev_involutive in Er; cbn in Er; congruence|].
    rewrite <- Er, <- Eu. rewrite forallb_rev, Hc, !rev_involutive. reflexivity.
  - rewrite forallb_rev. eapply forallb_impl; [|exact Hc]. intros c H.
    destruct (revision_char_facts c H) as (_ & -> & _). reflexivity.
  - reflexivity.
Qed.

Lemma split_revision_none up : forallb (fun c => negb (c =? 45)%N) up = true -> split_revision up = (up, None).
Proof.
  intros H. unfold split_revision. rewrite <- (app_nil_r (rev up)).
  rewrite (span_exact (fun c => negb (c =? 45)%N) (rev up) []); [reflexivity|rewrite forallb_rev; exact H|exact I].
Qed.

Lemma match_nonempty {A B} (l : list A) (x f : B) : l <> [] -> match l with [] => x | _ :: _ => f end = f.
Proof. destruct l; [congruence|reflexivity]. Qed.

Theorem dv_canonical_ok v : dv_canonical v = true -> version_ok dv_parse dv_print v.
Proof.
  destruct v as [ep up rv]. unfold dv_canonical. cbn [dv_epoch dv_upstream dv_revision].
  intros H. apply andb_true_iff in H. destruct H as [H Hrv].
  apply andb_true_iff in H. destruct H as [H Hup].
  apply andb_true_iff in H. destruct H as [Hep Hne].
  assert (Hune : up <> []) by (destruct up; [discriminate|discriminate]).
  (* the revision part *)
  set (rtext := match rv with Some r => 45%N :: r | None => [] end).
  assert (Hrt : forallb is_ident_char rtext = true).
  { unfold rtext. destruct rv as [r|]; [|reflexivity].
    assert (Hr : forallb is_revision_char r = true) by (destruct r; [discriminate|exact Hrv]).
    change (forallb is_ident_char (45%N :: r)) with (is_ident_char 45%N && forallb is_ident_char r).
    change (is_ident_char 45%N) with true. cbn [andb].
    eapply forallb_impl; [|exact Hr]. intros c Hc. apply revision_char_facts. exact Hc. }
  assert (Hsplit : split_revision (up ++ rtext) = (up, rv)).
  { unfold rtext. destruct rv as [r|].
    - destruct r as [|c0 r0]; [discriminate|]. apply split_revision_some; [exact Hune|discriminate|exact Hrv].
    - rewrite app_nil_r. apply split_revision_none. eapply forallb_impl; [|exact Hup].
      intros c Hc. apply orb_true_iff in Hc.
      destruct Hc as [Hc|Hc]; apply andb_true_iff in Hc; destruct Hc as [Hc1 Hc2].
      + rewrite orb_false_r in Hc2. exact Hc2.
      + apply N.eqb_eq in Hc1. subst c. reflexivity. }
  assert (Hupchars : forallb (fun c => is_ident_char c || (c =? 58)%N) up = true).
  { eapply forallb_impl; [|exact Hup]. intros c Hc. apply orb_true_iff in Hc. destruct Hc as [Hc|Hc];
      apply andb_true_iff in Hc; destruct Hc as [Hc _]; rewrite Hc; [reflexivity|apply orb_true_r]. }
  assert (Hbody : forallb (fun c => is_ident_char c || (c =? 58)%N) (up ++ rtext) = true).
  { rewrite forallb_app, Hupchars. cbn [andb]. eapply forallb_impl; [|exact Hrt]. intros c ->. reflexivity. }
  destruct ep as [e|].
  - (* with an epoch *)
    assert (Hprint : dv_print (mkDv (Some e) up rv) = dec_digits e ++ 58%N :: (up ++ rtext)).
    { unfold dv_print. cbn [dv_epoch dv_upstream dv_revision]. fold rtext. rewrite <- !app_assoc. reflexivity. }
    assert (Hdig : forallb (fun c => is_ident_char c || (c =? 58)%N) (dec_digits e) = true).
    { eapply forallb_impl; [|apply dec_digits_digits]. intros c Hc. destruct (digit_facts c Hc) as [-> _]. reflexivity. }
    split.
    + unfold version_text_ok. rewrite Hprint, forallb_app, Hdig. cbn [andb forallb]. exact Hbody.
    + unfold dv_parse. rewrite Hprint.
      assert (Hall : forallb is_upstream_char (dec_digits e ++ 58%N :: up ++ rtext) = true).
      { apply (forallb_impl (fun c => is_ident_char c || (c =? 58)%N)); [intros c Hc; rewrite upstream_char_iff; exact Hc|].
        rewrite forallb_app, Hdig. cbn [andb forallb]. exact Hbody. }
      rewrite Hall. cbn [negb].
      rewrite (span_exact is_digit (dec_digits e) (58%N :: up ++ rtext) (dec_digits_digits e) eq_refl).
      pose proof (dec_digits_nonempty e) as Hd. destruct (dec_digits e) as [|d0 ds] eqn:Ed; [congruence|].
      rewrite N.eqb_refl.
      rewrite match_nonempty by (destruct up; [congruence|discriminate]).
      rewrite <- Ed. unfold parse_u32. rewrite dec_digits_value. rewrite Hep. rewrite Hsplit. reflexivity.
  - (* without an epoch: no ':' anywhere *)
    assert (Hprint : dv_print (mkDv None up rv) = up ++ rtext).
    { unfold dv_print. cbn [dv_epoch dv_upstream dv_revision app]. fold rtext. reflexivity. }
    assert (Hnocolon : forallb (fun c => negb (c =? 58)%N) (up ++ rtext) = true).
    { rewrite forallb_app. apply andb_true_iff. split.
      - eapply forallb_impl; [|exact Hup]. intros c Hc. apply orb_true_iff in Hc.
        destruct Hc as [Hc|Hc]; apply andb_true_iff in Hc; destruct Hc as [Hc1 Hc2]; [|discriminate].
        unfold is_ident_char, is_ascii_alnum in Hc1. lia.
      - eapply forallb_impl; [|exact Hrt]. intros c Hc. unfold is_ident_char, is_ascii_alnum in Hc. lia. }
    split.
    + unfold version_text_ok. rewrite Hprint. exact Hbody.
    + unfold dv_parse. rewrite Hprint.
      assert (Hall : forallb is_upstream_char (up ++ rtext) = true).
      { apply (forallb_impl (fun c => is_ident_char c || (c =? 58)%N)); [intros c Hc; rewrite upstream_char_iff; exact Hc|exact Hbody]. }
      rewrite Hall. cbn [negb].
      destruct (span is_digit (up ++ rtext)) as [ds rest] eqn:Es.
      assert (Hplain : match up ++ rtext with [] => None | _ :: _ => let '(u, r) := split_revision (up ++ rtext) in Some (mkDv None u r) end
                       = Some (mkDv None up rv)).
      { rewrite match_nonempty by (destruct up; [congruence|discriminate]). rewrite Hsplit. reflexivity. }
      destruct ds as [|d0 ds']; [exact Hplain|]. destruct rest as [|c body]; [exact Hplain|].
      assert (Hc : (c =? 58)%N = false).
      { pose proof (span_app _ _ _ _ Es) as Ea. rewrite <- Ea in Hnocolon. rewrite forallb_app in Hnocolon.
        apply andb_true_iff in Hnocolon. destruct Hnocolon as [_ Hn]. cbn [forallb] in Hn.
        apply andb_true_iff in Hn. destruct Hn as [Hn _]. apply negb_true_iff in Hn. exact Hn. }
      rewrite Hc. exact Hplain.
Qed.

(* ================================================================== E. the pre-fix code (the old_ definitions) violates the property *)
(* witnesses; each was replayed on the unpatched /repo through the streams rel-lossy-old and
   rel-lossy-text-old (model and implementation agree on them) *)
Definition w_negated_arch : relation dversion :=            (* a [!amd64] *)
  mkRel [97%N] None (Some [[33; 97; 109; 100; 54; 52]%N]) None [].
Definition w_two_terms : relation dversion :=               (* a <x !y> *)
  mkRel [97%N] None None None [[Enabled [120%N]; Disabled [121%N]]].

Lemma w_negated_arch_ok : relation_ok dv_parse dv_print w_negated_arch.
Proof. repeat split. Qed.
Lemma w_two_terms_ok : relation_ok dv_parse dv_print w_two_terms.
Proof. repeat split. Qed.

(* DESIGN §5 row 12: a negated architecture is printed as "a [!amd64]" and rejected when read *)
Lemma old_negated_arch_refuted :
  old_print_relation dv_print w_negated_arch = [97; 32; 91; 33; 97; 109; 100; 54; 52; 93]%N /\
  old_relation_from_str dv_parse (old_print_relation dv_print w_negated_arch) = Err 7%N /\
  old_relations_from_str dv_parse (old_print_relations dv_print [[w_negated_arch]]) = Err 7%N.
Proof. vm_compute. repeat split. Qed.

(* DESIGN §5 row 19: a group of two terms is printed "a <x, !y>"; Relation::from_str reads that as
   two groups and loses the negation, Relations::from_str (which splits at ',') rejects it *)
Lemma old_profile_separator_refuted :
  old_print_relation dv_print w_two_terms = [97; 32; 60; 120; 44; 32; 33; 121; 62]%N /\
  old_relation_from_str dv_parse (old_print_relation dv_print w_two_terms)
    = Ok (mkRel [97%N] None None None [[Enabled [120%N]]; [Enabled [121%N]]]) /\
  old_relations_from_str dv_parse (old_print_relations dv_print [[w_two_terms]]) = Err 8%N.
Proof. vm_compute. repeat split. Qed.

(* DESIGN §5 row 13: the Policy spelling "a <x !y>" of that group is read as TWO groups *)
Lemma old_profile_group_split_refuted :
  old_relation_from_str dv_parse [97; 32; 60; 120; 32; 33; 121; 62]%N
  = Ok (mkRel [97%N] None None None [[Enabled [120%N]]; [Disabled [121%N]]]).
Proof. vm_compute. reflexivity. Qed.

(* DESIGN §5 row 30: "a < x >" is read as two EMPTY groups (the name x is dropped), and the value
   read is printed as "a <> <>", which the reader then rejects *)
Lemma old_profile_whitespace_refuted :
  old_relation_from_str dv_parse [97; 32; 60; 32; 120; 32; 62]%N = Ok (mkRel [97%N] None None None [[]; []]) /\
  old_relation_from_str dv_parse (old_print_relation dv_print (mkRel [97%N] None None None [[]; []])) = Err 8%N.
Proof. vm_compute. repeat split. Qed.

(* audit A4: a line break inside a relation (a folded field) is rejected by the reader of /repo 5517d72;
   the patched reader takes it, also between ':' and the qualifier *)
Lemma oldnl_newline_refuted :
  oldnl_relation_from_str dv_parse [97; 10; 32; 40; 62; 61; 32; 49; 41]%N = Err 9%N /\          (* "a\n (>= 1)" *)
  oldnl_relation_from_str dv_parse [97; 32; 40; 62; 61; 10; 32; 49; 41]%N = Err 4%N /\          (* "a (>=\n 1)" *)
  oldnl_relation_from_str dv_parse [97; 32; 91; 10; 32; 98; 93]%N = Err 7%N /\                  (* "a [\n b]" *)
  oldnl_relation_from_str dv_parse [97; 32; 60; 10; 32; 98; 62]%N = Err 8%N /\                  (* "a <\n b>" *)
  oldnl_relation_from_str dv_parse [97; 58; 32; 98]%N = Err 2%N /\                              (* "a: b" *)
  oldnl_relations_from_str dv_parse [97; 10; 32; 40; 62; 61; 32; 49; 41; 44; 32; 98]%N = Err 9%N. (* "a\n (>= 1), b" *)
Proof. vm_compute. repeat split. Qed.
Lemma newline_fixed :
  relation_from_str dv_parse [97; 10; 32; 40; 62; 61; 32; 49; 41]%N = Ok (mkRel [97%N] None None (Some (VC_ge, mkDv None [49%N] None)) []) /\
  relation_from_str dv_parse [97; 32; 40; 62; 61; 10; 32; 49; 41]%N = Ok (mkRel [97%N] None None (Some (VC_ge, mkDv None [49%N] None)) []) /\
  relation_from_str dv_parse [97; 32; 91; 10; 32; 98; 93]%N = Ok (mkRel [97%N] None (Some [[98%N]]) None []) /\
  relation_from_str dv_parse [97; 32; 60; 10; 32; 98; 62]%N = Ok (mkRel [97%N] None None None [[Enabled [98%N]]]) /\
  relation_from_str dv_parse [97; 58; 32; 98]%N = Ok (mkRel [97%N] (Some [98%N]) None None []) /\
  relations_from_str dv_parse [97; 10; 32; 40; 62; 61; 32; 49; 41; 44; 32; 98]%N
    = Ok [[mkRel [97%N] None None (Some (VC_ge, mkDv None [49%N] None)) []]; [mkRel [98%N] None None None []]].
Proof. vm_compute. repeat split. Qed.

(* the same inputs on the patched code *)
Lemma new_witnesses_fixed :
  relation_from_str dv_parse (print_relation dv_print w_negated_arch) = Ok w_negated_arch /\
  relation_from_str dv_parse (print_relation dv_print w_two_terms) = Ok w_two_terms /\
  print_relation dv_print w_two_terms = [97; 32; 60; 120; 32; 33; 121; 62]%N /\
  relation_from_str dv_parse [97; 32; 60; 32; 120; 32; 62]%N = Ok (mkRel [97%N] None None None [[Enabled [120%N]]]).
Proof. vm_compute. repeat split. Qed.

(* ================================================================== F. the decidable domain *)
Lemma relation_okb_ok r : relation_okb r = true -> relation_ok dv_parse dv_print r.
Proof.
  unfold relation_okb, relation_ok. intros H.
  apply andb_true_iff in H. destruct H as [H Hp]. apply andb_true_iff in H. destruct H as [H Ha].
  apply andb_true_iff in H. destruct H as [H Hv]. apply andb_true_iff in H. destruct H as [Hn Hq].
  split; [exact Hn|]. split; [destruct (r_archqual r); [exact Hq|exact I]|].
  split; [destruct (r_version r) as [[c v]|]; [apply dv_canonical_ok; exact Hv|exact I]|].
  split; [destruct (r_archs r); [exact Ha|exact I]|exact Hp].
Qed.

Lemma relations_okb_ok rs : relations_okb rs = true -> relations_ok dv_parse dv_print rs.
Proof.
  unfold relations_okb, relations_ok. intros H. apply Forall_forall. intros e He.
  rewrite forallb_forall in H. specialize (H e He). destruct e as [|r e']; [discriminate|].
  split; [discriminate|]. apply Forall_forall. intros x Hx. rewrite forallb_forall in H.
  apply relation_okb_ok, H, Hx.
Qed.

Theorem relation_rt_dv r : relation_okb r = true ->
  relation_from_str dv_parse (print_relation dv_print r) = Ok r.
Proof. intros H. apply relation_rt, relation_okb_ok, H. Qed.
Theorem relations_rt_dv rs : relations_okb rs = true ->
  relations_from_str dv_parse (print_relations dv_print rs) = Ok rs.
Proof. intros H. apply relations_rt, relations_okb_ok, H. Qed.

(* the side conditions cannot be dropped *)
Lemma empty_entry_needed :
  relations_from_str dv_parse (print_relations dv_print [[] : list (relation dversion)]) = Ok [].
Proof. reflexivity. Qed.
Lemma canonical_version_needed :      (* upstream "1-2" without a revision is read as upstream "1", revision "2" *)
  let v := mkDv None [49; 45; 50]%N None in
  dv_parse (dv_print v) = Some (mkDv None [49%N] (Some [50%N])) /\
  relation_from_str dv_parse (print_relation dv_print (mkRel [97%N] None None (Some (VC_eq, v)) []))
  = Ok (mkRel [97%N] None None (Some (VC_eq, mkDv None [49%N] (Some [50%N]))) []).
Proof. vm_compute. split; reflexivity. Qed.
Lemma ident_name_needed :             (* a name with a space in it *)
  relation_from_str dv_parse (print_relation dv_print (mkRel [97; 32; 98]%N None None None [] : relation dversion)) = Err 9%N.
Proof. vm_compute. reflexivity. Qed.

(* ================================================================== G. what the reader returns is in the domain *)
Definition tok_ok (t : rtoken) : Prop := fst t = IDENT -> ident_ok (snd t) = true.

Lemma single_char_kind_not_ident c k : single_char_kind c = Some k -> k <> IDENT.
Proof.
  unfold single_char_kind.
  repeat match goal with |- context [if ?b then _ else _] => destruct b; [intros H; inversion H; discriminate|] end.
  discriminate.
Qed.

Lemma rlex_step_tok_ok c r t r' : rlex_step c r = (t, r') -> tok_ok t.
Proof.
  unfold rlex_step. destruct (single_char_kind c) as [k|] eqn:Ek.
  - intros H. inversion H; subst. intros Hk. cbn in Hk. apply single_char_kind_not_ident in Ek. congruence.
  - destruct (is_rel_ws c).
    + destruct (span is_rel_ws r) as [w rr]. intros H. inversion H; subst. intros Hk. discriminate.
    + destruct (is_ident_char c) eqn:Ec.
      * destruct (span is_ident_char r) as [w rr] eqn:Es. intros H. inversion H; subst. intros _.
        cbn [snd ident_ok forallb]. rewrite Ec. cbn [andb]. eapply span_all. exact Es.
      * intros H. inversion H; subst. intros Hk. discriminate.
Qed.

Lemma rlex_go_tok_ok f : forall s ts, rlex_go f s = Ok ts -> Forall tok_ok ts.
Proof.
  induction f as [|f IH]; intros s ts H.
  - destruct s; cbn in H; [inversion H; constructor|discriminate].
  - destruct s as [|c r]; [cbn in H; inversion H; constructor|]. cbn [rlex_go] in H.
    destruct (rlex_step c r) as [t r'] eqn:Es.
    destruct (rlex_go f r') as [ts'| | |] eqn:E; try discriminate. inversion H; subst.
    constructor; [eapply rlex_step_tok_ok; exact Es|eapply IH; exact E].
Qed.
Lemma rlex_tok_ok s ts : rlex s = Ok ts -> Forall tok_ok ts.
Proof. apply rlex_go_tok_ok. Qed.

(* the domain without the condition on the version (which is about the external parser) *)
Definition relation_shape_ok {V} (r : relation V) : Prop :=
  ident_ok (r_name r) = true
  /\ match r_archqual r with Some q => ident_ok q = true | None => True end
  /\ match r_archs r with Some a => forallb arch_ok a = true | None => True end
  /\ forallb (forallb profile_ok) (r_profiles r) = true.

Section ReaderRange.
  Variable V : Type.
  Variable vparse : str -> option V.

  Lemma eat_whitespace_forall (P : rtoken -> Prop) ts : Forall P ts -> Forall P (eat_whitespace ts).
  Proof.
    induction ts as [|[k s] r IH]; intros H; [exact H|]. inversion H; subst.
    destruct k; try exact H; cbn [eat_whitespace]; apply IH; assumption.
  Qed.

  Lemma read_constraint_forall (P : rtoken -> Prop) ts : forall acc, Forall P ts -> Forall P (snd (read_constraint ts acc)).
  Proof.
    induction ts as [|[k s] r IH]; intros acc H; [exact H|]. inversion H; subst.
    destruct k; try exact H; cbn [read_constraint]; apply IH; assumption.
  Qed.

  Lemma read_version_string_forall (P : rtoken -> Prop) ts : forall acc vs r, Forall P ts ->
    read_version_string ts acc = Ok (vs, r) -> Forall P r.
  Proof.
    induction ts as [|[k s] t IH]; intros acc vs r H E; [cbn in E; inversion E; constructor|].
    inversion H; subst. destruct k; try discriminate; cbn [read_version_string] in E;
      try (inversion E; subst; exact H); eapply IH; eassumption.
  Qed.

  Lemma read_version_forall (P : rtoken -> Prop) ts v r : Forall P ts ->
    read_version vparse ts = Ok (v, r) -> Forall P r.
  Proof.
    intros H E. unfold read_version in E. destruct ts as [|[k s] t]; [inversion E; subst; exact H|].
    inversion H; subst.
    destruct k; try (inversion E; subst; exact H).
    pose proof (read_constraint_forall P (eat_whitespace t) [] (eat_whitespace_forall P t ltac:(assumption))) as Hc.
    destruct (read_constraint (eat_whitespace t) []) as [c r1]. cbn [snd] in Hc.
    destruct (vc_of_str c); [|discriminate].
    destruct (read_version_string (eat_whitespace r1) []) as [[vs r2]| | |] eqn:E2; try discriminate.
    pose proof (read_version_string_forall P _ _ _ _ (eat_whitespace_forall P r1 Hc) E2) as Hr2.
    destruct (vparse vs); [|discriminate].
    pose proof (eat_whitespace_forall P r2 Hr2) as Hr3.
    destruct (eat_whitespace r2) as [|[k' s'] r3]; [discriminate|]. inversion Hr3; subst.
    destruct k'; try discriminate. inversion E; subst. assumption.
  Qed.

  Lemma read_archs_range ts : forall acc a r, Forall tok_ok ts -> forallb arch_ok acc = true ->
    read_archs ts acc = Ok (a, r) -> forallb arch_ok a = true /\ Forall tok_ok r.
  Proof.
    induction ts as [ts IH] using list_len_ind. intros acc a r H Ha E.
    destruct ts as [|[k s] t]; [discriminate|]. inversion H as [|? ? Hk Ht]; subst.
    destruct k; try discriminate; cbn [read_archs] in E.
    - eapply (IH t); [cbn; lia|exact Ht| |exact E].
      rewrite forallb_app, Ha. cbn [forallb andb]. rewrite andb_true_r.
      specialize (Hk eq_refl). cbn [snd] in Hk. unfold arch_ok. destruct s as [|c0 w]; [discriminate|].
      destruct (N.eqb_spec c0 33) as [->|_]; [|exact Hk]. cbn [ident_ok forallb] in Hk. discriminate.
    - inversion E; subst. split; assumption.
    - destruct t as [|[k2 s2] t2]; [discriminate|]. inversion Ht as [|? ? Hk2 Ht2]; subst.
      destruct k2; try discriminate.
      eapply (IH t2); [cbn; lia|exact Ht2| |exact E].
      rewrite forallb_app, Ha. cbn [forallb andb]. rewrite andb_true_r.
      specialize (Hk2 eq_refl). cbn [snd] in Hk2. unfold arch_ok. rewrite N.eqb_refl. exact Hk2.
    - eapply (IH t); [cbn; lia|exact Ht|exact Ha|exact E].
    - eapply (IH t); [cbn; lia|exact Ht|exact Ha|exact E].
  Qed.

  Lemma read_profile_group_range ts : forall acc g r, Forall tok_ok ts -> forallb profile_ok acc = true ->
    read_profile_group ts acc = Ok (g, r) -> forallb profile_ok g = true /\ Forall tok_ok r.
  Proof.
    induction ts as [ts IH] using list_len_ind. intros acc g r H Ha E.
    destruct ts as [|[k s] t]; [discriminate|]. inversion H as [|? ? Hk Ht]; subst.
    destruct k; try discriminate; cbn [read_profile_group] in E.
    - eapply (IH t); [cbn; lia|exact Ht| |exact E].
      rewrite forallb_app, Ha. cbn [forallb andb profile_ok]. rewrite andb_true_r. exact (Hk eq_refl).
    - destruct t as [|[k2 s2] t2]; [discriminate|]. inversion Ht as [|? ? Hk2 Ht2]; subst.
      destruct k2; try discriminate.
      eapply (IH t2); [cbn; lia|exact Ht2| |exact E].
      rewrite forallb_app, Ha. cbn [forallb andb profile_ok]. rewrite andb_true_r. exact (Hk2 eq_refl).
    - inversion E; subst. split; assumption.
    - eapply (IH t); [cbn; lia|exact Ht|exact Ha|exact E].
    - eapply (IH t); [cbn; lia|exact Ht|exact Ha|exact E].
  Qed.

  Lemma read_profiles_range fuel : forall ts acc ps r, Forall tok_ok ts ->
    forallb (forallb profile_ok) acc = true ->
    read_profiles fuel ts acc = Ok (ps, r) -> forallb (forallb profile_ok) ps = true.
  Proof.
    induction fuel as [|f IH]; intros ts acc ps r H Ha E.
    - destruct ts as [|[k s] t]; [inversion E; subst; exact Ha|]. destruct k; inversion E; subst; exact Ha.
    - destruct ts as [|[k s] t]; [inversion E; subst; exact Ha|]. inversion H; subst.
      destruct k; try (inversion E; subst; exact Ha). cbn [read_profiles] in E.
      destruct (read_profile_group t []) as [[g r']| | |] eqn:Eg; try discriminate.
      destruct (read_profile_group_range t [] g r' ltac:(assumption) eq_refl Eg) as [Hg Hr'].
      eapply IH; [apply eat_whitespace_forall; exact Hr'| |exact E].
      rewrite forallb_app, Ha. cbn [forallb]. rewrite Hg. reflexivity.
  Qed.

  Lemma bind_ok {A B} (x : res A) (f : A -> res B) b : bind x f = Ok b -> exists a, x = Ok a /\ f a = Ok b.
  Proof. destruct x; cbn; intros H; try discriminate. exists a. split; [reflexivity|exact H]. Qed.

  Theorem relation_from_str_range s r : relation_from_str vparse s = Ok r -> relation_shape_ok r.
  Proof.
    unfold relation_from_str. intros H. apply bind_ok in H. destruct H as (ts & El & H).
    pose proof (rlex_tok_ok _ _ El) as Hts. unfold relation_from_tokens in H.
    apply bind_ok in H. destruct H as ([name t1] & E1 & H).
    apply bind_ok in H. destruct H as ([aq t2] & E2 & H).
    apply bind_ok in H. destruct H as ([ver t3] & E3 & H).
    apply bind_ok in H. destruct H as ([archs t4] & E4 & H).
    apply bind_ok in H. destruct H as ([profs t5] & E5 & H).
    destruct (eat_whitespace t5); [|discriminate]. inversion H; subst. clear H.
    (* name *)
    unfold read_name in E1. destruct ts as [|[k n] t]; [discriminate|]. inversion Hts as [|? ? Hk Ht]; subst.
    destruct k; try discriminate. inversion E1; subst. clear E1.
    (* qualifier *)
    pose proof (eat_whitespace_forall tok_ok t1 Ht) as Ht1.
    assert (Hq : match aq with Some q => ident_ok q = true | None => True end /\ Forall tok_ok t2).
    { unfold read_archqual in E2. destruct (eat_whitespace t1) as [|[k w] u]; [inversion E2; subst; split; [exact I|constructor]|].
      inversion Ht1 as [|? ? Hk1 Hu]; subst.
      destruct k; try (inversion E2; subst; split; [exact I|exact Ht1]).
      pose proof (eat_whitespace_forall tok_ok u Hu) as Hu'.
      destruct (eat_whitespace u) as [|[k2 s2] u2]; [discriminate|]. inversion Hu' as [|? ? Hk2 Hu2]; subst.
      destruct k2; try discriminate. inversion E2; subst. split; [exact (Hk2 eq_refl)|exact Hu2]. }
    destruct Hq as [Hq Ht2].
    pose proof (read_version_forall tok_ok _ _ _ (eat_whitespace_forall tok_ok t2 Ht2) E3) as Ht3.
    pose proof (eat_whitespace_forall tok_ok t3 Ht3) as Ht3'.
    assert (Ha : match archs with Some a => forallb arch_ok a = true | None => True end /\ Forall tok_ok t4).
    { unfold read_architectures in E4. destruct (eat_whitespace t3) as [|[k w] u]; [inversion E4; subst; split; [exact I|constructor]|].
      inversion Ht3' as [|? ? Hk1 Hu]; subst.
      destruct k; try (inversion E4; subst; split; [exact I|exact Ht3']).
      destruct (read_archs u []) as [[a r']| | |] eqn:Ea; try discriminate. inversion E4; subst.
      exact (read_archs_range u [] a t4 Hu eq_refl Ea). }
    destruct Ha as [Ha Ht4].
    pose proof (read_profiles_range _ _ [] _ _ (eat_whitespace_forall tok_ok t4 Ht4) eq_refl E5) as Hp.
    repeat split; cbn [r_name r_archqual r_archs r_profiles]; try assumption. exact (Hk eq_refl).
  Qed.

  (* hence: whatever Relation::from_str returns is read back from its own printed form, as soon as
     the external version printer/parser agree on the version it contains *)
  Theorem relation_reread (vprint : V -> str) s r : relation_from_str vparse s = Ok r ->
    match r_version r with Some (_, v) => version_ok vparse vprint v | None => True end ->
    relation_from_str vparse (print_relation vprint r) = Ok r.
  Proof.
    intros H Hv. destruct (relation_from_str_range s r H) as (Hn & Hq & Ha & Hp).
    apply relation_rt. unfold relation_ok.
    split; [exact Hn|]. split; [exact Hq|]. split; [exact Hv|]. split; [exact Ha|exact Hp].
  Qed.

  Lemma split_on_go_nonempty sep s : forall acc, split_on_go sep s acc <> [].
  Proof. induction s as [|c r IH]; intros acc; cbn; [discriminate|]. destruct (c =? sep)%N; [discriminate|apply IH]. Qed.

  Lemma read_alternatives_range ps : forall e, read_alternatives vparse ps = Ok e ->
    length e = length ps /\ Forall relation_shape_ok e.
  Proof.
    induction ps as [|p rest IH]; intros e H; [inversion H; split; [reflexivity|constructor]|].
    cbn [read_alternatives] in H. destruct (trim p) as [|c0 w] eqn:Et; [discriminate|]. rewrite <- Et in H.
    apply bind_ok in H. destruct H as (r & Er & H). apply bind_ok in H. destruct H as (rs & Ers & H).
    inversion H; subst. destruct (IH rs Ers) as [Hl Hf]. split; [cbn; lia|].
    constructor; [eapply relation_from_str_range; exact Er|exact Hf].
  Qed.

  Definition entry_shape_ok (e : list (relation V)) : Prop := e <> [] /\ Forall relation_shape_ok e.

  Lemma read_entries_range es : forall rs, read_entries vparse es = Ok rs -> Forall entry_shape_ok rs.
  Proof.
    induction es as [|e rest IH]; intros rs H; [inversion H; constructor|].
    cbn [read_entries] in H. destruct (trim e) as [|c0 w] eqn:Et; [apply IH; exact H|]. rewrite <- Et in H.
    apply bind_ok in H. destruct H as (alts & Ea & H). apply bind_ok in H. destruct H as (ents & Ee & H).
    inversion H; subst. constructor; [|apply IH; exact Ee].
    destruct (read_alternatives_range _ _ Ea) as [Hl Hf]. split; [|exact Hf].
    intros ->. cbn in Hl. unfold split_on in Hl.
    pose proof (split_on_go_nonempty 124%N (trim e) []) as Hne. destruct (split_on_go 124%N (trim e) []); [congruence|discriminate].
  Qed.

  Theorem relations_from_str_range s rs : relations_from_str vparse s = Ok rs -> Forall entry_shape_ok rs.
  Proof.
    unfold relations_from_str. destruct s; [intros H; inversion H; constructor|apply read_entries_range].
  Qed.

  Theorem relations_reread (vprint : V -> str) s rs : relations_from_str vparse s = Ok rs ->
    Forall (Forall (fun r => match r_version r with Some (_, v) => version_ok vparse vprint v | None => True end)) rs ->
    relations_from_str vparse (print_relations vprint rs) = Ok rs.
  Proof.
    intros H Hv. pose proof (relations_from_str_range s rs H) as Hs. apply relations_rt.
    unfold relations_ok. clear H. induction rs as [|e rs IH]; [constructor|].
    inversion Hs as [|? ? [Hne He] Hs']; subst. inversion Hv as [|? ? Hve Hv']; subst.
    constructor; [|apply IH; assumption]. split; [exact Hne|].
    clear -He Hve. induction e as [|r e IH]; [constructor|].
    inversion He as [|? ? (Hn & Hq & Ha & Hp) He']; subst. inversion Hve as [|? ? Hvr Hve']; subst.
    constructor; [|apply IH; assumption].
    unfold relation_ok. split; [exact Hn|]. split; [exact Hq|]. split; [exact Hvr|]. split; [exact Ha|exact Hp].
  Qed.
End ReaderRange.

(* ================================================================== H. the debversion model re-reads whatever it read *)
Definition rev_text (r : option str) : str := match r with Some x => 45%N :: x | None => [] end.

Lemma split_revision_join b u r : split_revision b = (u, r) -> u ++ rev_text r = b.
Proof.
  unfold split_revision. destruct (span (fun c => negb (c =? 45)%N) (rev b)) as [rsuf rpre] eqn:Es.
  pose proof (span_app _ _ _ _ Es) as Ea.
  assert (Hnone : (b, @None str) = (u, r) -> u ++ rev_text r = b).
  { intros H. inversion H; subst. cbn. apply app_nil_r. }
  destruct rpre as [|d rp]; [exact Hnone|].
  destruct rp as [|x xs]; [exact Hnone|]. destruct rsuf as [|y ys]; [exact Hnone|].
  destruct (forallb is_revision_char (y :: ys)); [|exact Hnone].
  intros H. inversion H; subst. clear H Hnone.
  pose proof (span_stop _ _ _ _ Es) as Hd. cbn in Hd. apply negb_false_iff, N.eqb_eq in Hd. subst d.
  apply (f_equal (@rev _)) in Ea. rewrite rev_involutive, rev_app_distr in Ea.
  cbn [rev_text]. rewrite <- Ea. cbn [rev]. rewrite <- !app_assoc. reflexivity.
Qed.

Lemma dv_print_plain u r : dv_print (mkDv None u r) = u ++ rev_text r.
Proof. unfold dv_print. cbn [dv_epoch dv_upstream dv_revision app]. destruct r; reflexivity. Qed.
Lemma dv_print_epoch e u r : dv_print (mkDv (Some e) u r) = dec_digits e ++ 58%N :: (u ++ rev_text r).
Proof. unfold dv_print. cbn [dv_epoch dv_upstream dv_revision]. rewrite <- !app_assoc. destruct r; reflexivity. Qed.

Lemma dv_parse_cases s v : dv_parse s = Some v ->
  forallb is_upstream_char s = true /\
  (dv_print v = s \/
   exists ds e body u r, ds <> [] /\ forallb is_digit ds = true /\ s = ds ++ 58%N :: body /\ body <> []
                         /\ parse_u32 ds = Some e /\ split_revision body = (u, r) /\ v = mkDv (Some e) u r).
Proof.
  unfold dv_parse. destruct (forallb is_upstream_char s) eqn:Hall; [|discriminate]. cbn [negb].
  destruct (span is_digit s) as [ds rest] eqn:Es. intros H. split; [reflexivity|].
  set (plain := match s with [] => None | _ :: _ => let '(u, r) := split_revision s in Some (mkDv None u r) end) in H.
  assert (Hplain : plain = Some v -> dv_print v = s).
  { unfold plain. destruct s as [|c0 s0] eqn:Hs; [discriminate|]. rewrite <- Hs.
    destruct (split_revision s) as [u r] eqn:Esp. intros E. inversion E; subst v.
    rewrite dv_print_plain. apply split_revision_join. exact Esp. }
  destruct ds as [|d0 ds']; [left; apply Hplain; exact H|].
  destruct rest as [|c body]; [left; apply Hplain; exact H|].
  destruct (N.eqb_spec c 58) as [->|_]; [|left; apply Hplain; exact H].
  destruct body as [|b0 body']; [left; apply Hplain; exact H|].
  destruct (parse_u32 (d0 :: ds')) as [e|] eqn:Ep; [|discriminate].
  destruct (split_revision (b0 :: body')) as [u r] eqn:Esp. inversion H; subst v.
  right. exists (d0 :: ds'), e, (b0 :: body'), u, r.
  split; [discriminate|]. split; [eapply span_all; exact Es|]. split; [symmetry; eapply span_app; exact Es|].
  split; [discriminate|]. repeat split; assumption.
Qed.

Theorem dv_parse_stable s v : dv_parse s = Some v -> version_ok dv_parse dv_print v.
Proof.
  intros H. destruct (dv_parse_cases s v H) as [Hall [Hp|(ds & e & body & u & r & Hne & Hd & -> & Hb & Hpu & Hsp & ->)]].
  - unfold version_ok. rewrite Hp. split; [|exact H]. unfold version_text_ok.
    eapply forallb_impl; [|exact Hall]. intros c Hc. rewrite <- upstream_char_iff. exact Hc.
  - pose proof (split_revision_join _ _ _ Hsp) as Ej. unfold version_ok. rewrite dv_print_epoch, Ej.
    rewrite forallb_app in Hall. apply andb_true_iff in Hall. destruct Hall as [_ Hall].
    assert (Hall' : forallb is_upstream_char (dec_digits e ++ 58%N :: body) = true).
    { rewrite forallb_app. apply andb_true_iff. split; [|exact Hall].
      eapply forallb_impl; [|apply dec_digits_digits]. intros c Hc. rewrite upstream_char_iff.
      destruct (digit_facts c Hc) as [-> _]. reflexivity. }
    split.
    + unfold version_text_ok. eapply forallb_impl; [|exact Hall']. intros c Hc. rewrite <- upstream_char_iff. exact Hc.
    + unfold dv_parse. rewrite Hall'. cbn [negb].
      rewrite (span_exact is_digit (dec_digits e) (58%N :: body) (dec_digits_digits e) eq_refl).
      pose proof (dec_digits_nonempty e) as Hdn. destruct (dec_digits e) as [|d0 dd] eqn:Ed; [congruence|].
      rewrite N.eqb_refl. rewrite match_nonempty by exact Hb.
      rewrite <- Ed. unfold parse_u32 in *. rewrite dec_digits_value.
      destruct (dec_value ds <=? 4294967295)%N eqn:El; [|discriminate]. inversion Hpu; subst e. rewrite El.
      rewrite Hsp. reflexivity.
Qed.

(* closed forms: for the modelled debversion, every value a reader returns is read back from its
   own printed form — on all strings, no side condition *)
Theorem relation_reread_dv s r : relation_from_str dv_parse s = Ok r ->
  relation_from_str dv_parse (print_relation dv_print r) = Ok r.
Proof.
  intros H. apply (relation_reread dversion dv_parse dv_print s r H).
  unfold relation_from_str in H. apply bind_ok in H. destruct H as (ts & _ & H).
  unfold relation_from_tokens in H.
  apply bind_ok in H. destruct H as ([name t1] & _ & H).
  apply bind_ok in H. destruct H as ([aq t2] & _ & H).
  apply bind_ok in H. destruct H as ([ver t3] & E3 & H).
  apply bind_ok in H. destruct H as ([archs t4] & _ & H).
  apply bind_ok in H. destruct H as ([profs t5] & _ & H).
  destruct (eat_whitespace t5); [|discriminate]. inversion H; subst. cbn [r_version].
  destruct ver as [[c v]|]; [|exact I].
  unfold read_version in E3. destruct (eat_whitespace t2) as [|[k w] u]; [discriminate|].
  destruct k; try discriminate.
  destruct (read_constraint (eat_whitespace u) []) as [cs r1]. destruct (vc_of_str cs); [|discriminate].
  destruct (read_version_string (eat_whitespace r1) []) as [[vs r2]| | |]; try discriminate.
  destruct (dv_parse vs) as [v'|] eqn:Ev; [|discriminate].
  destruct (eat_whitespace r2) as [|[k' w'] r3]; [discriminate|]. destruct k'; try discriminate.
  inversion E3; subst. eapply dv_parse_stable. exact Ev.
Qed.

Section ParsedVersions.
  Variable V : Type.
  Variable vparse : str -> option V.

  Definition version_parsed (r : relation V) : Prop :=
    match r_version r with Some (_, v) => exists vs, vparse vs = Some v | None => True end.

  Lemma relation_version_parsed s r : relation_from_str vparse s = Ok r -> version_parsed r.
  Proof.
    intros H. unfold relation_from_str in H. apply bind_ok in H. destruct H as (ts & _ & H).
    unfold relation_from_tokens in H.
    apply bind_ok in H. destruct H as ([name t1] & _ & H).
    apply bind_ok in H. destruct H as ([aq t2] & _ & H).
    apply bind_ok in H. destruct H as ([ver t3] & E3 & H).
    apply bind_ok in H. destruct H as ([archs t4] & _ & H).
    apply bind_ok in H. destruct H as ([profs t5] & _ & H).
    destruct (eat_whitespace t5); [|discriminate]. inversion H; subst. unfold version_parsed. cbn [r_version].
    destruct ver as [[c v]|]; [|exact I].
    unfold read_version in E3. destruct (eat_whitespace t2) as [|[k w] u]; [discriminate|].
    destruct k; try discriminate.
    destruct (read_constraint (eat_whitespace u) []) as [cs r1]. destruct (vc_of_str cs); [|discriminate].
    destruct (read_version_string (eat_whitespace r1) []) as [[vs r2]| | |]; try discriminate.
    destruct (vparse vs) as [v'|] eqn:Ev; [|discriminate].
    destruct (eat_whitespace r2) as [|[k' w'] r3]; [discriminate|]. destruct k'; try discriminate.
    inversion E3; subst. exists vs. exact Ev.
  Qed.

  Lemma read_alternatives_parsed ps : forall e, read_alternatives vparse ps = Ok e -> Forall version_parsed e.
  Proof.
    induction ps as [|p rest IH]; intros e H; [inversion H; constructor|].
    cbn [read_alternatives] in H. destruct (trim p) as [|c0 w] eqn:Et; [discriminate|]. rewrite <- Et in H.
    apply bind_ok in H. destruct H as (r & Er & H). apply bind_ok in H. destruct H as (rs & Ers & H).
    inversion H; subst. constructor; [eapply relation_version_parsed; exact Er|apply IH; exact Ers].
  Qed.

  Lemma read_entries_parsed es : forall rs, read_entries vparse es = Ok rs -> Forall (Forall version_parsed) rs.
  Proof.
    induction es as [|e rest IH]; intros rs H; [inversion H; constructor|].
    cbn [read_entries] in H. destruct (trim e) as [|c0 w] eqn:Et; [apply IH; exact H|]. rewrite <- Et in H.
    apply bind_ok in H. destruct H as (alts & Ea & H). apply bind_ok in H. destruct H as (ents & Ee & H).
    inversion H; subst. constructor; [eapply read_alternatives_parsed; exact Ea|apply IH; exact Ee].
  Qed.

  Lemma relations_versions_parsed s rs : relations_from_str vparse s = Ok rs -> Forall (Forall version_parsed) rs.
  Proof.
    unfold relations_from_str. destruct s; [intros H; inversion H; constructor|apply read_entries_parsed].
  Qed.
End ParsedVersions.

Theorem relations_reread_dv s rs : relations_from_str dv_parse s = Ok rs ->
  relations_from_str dv_parse (print_relations dv_print rs) = Ok rs.
Proof.
  intros H. apply (relations_reread dversion dv_parse dv_print s rs H).
  pose proof (relations_versions_parsed dversion dv_parse s rs H) as Hp.
  eapply Forall_impl; [|exact Hp]. intros e He. eapply Forall_impl; [|exact He].
  intros r Hr. unfold version_parsed in Hr. destruct (r_version r) as [[c v]|]; [|exact I].
  destruct Hr as (vs & Ev). eapply dv_parse_stable. exact Ev.
Qed.
