(* Proof obligations that tie the hand-written lexer models to tables regenerated from the Rust
   sources by translate/classes.py on every run.  A source edit to a character class, to a
   single-character token arm or to the numbering of SyntaxKind changes coq/gen/Classes_gen.v and
   breaks one of these lemmas (C01 and C09 import this file). *)
From V.model Require Import Base Deb822Lex RelLex.
From V.gen Require Import Classes_gen.
From Coq Require Import Lia.

Lemma classes_recognised_ok : classes_recognised = true.
Proof. reflexivity. Qed.

(* two boolean formulas over comparisons of c with constants are equal: decided by case analysis
   on every comparison (so a reordering or a logically equivalent rewrite of the Rust predicate
   does not break the obligation, a change of meaning does) *)
Ltac class_eq :=
  intros;
  repeat match goal with
  | |- context [(?a =? ?b)%N] =>
      let E := fresh "E" in destruct (a =? b)%N eqn:E; [apply N.eqb_eq in E; subst|apply N.eqb_neq in E]
  | |- context [(?a <=? ?b)%N] =>
      let E := fresh "E" in destruct (a <=? b)%N eqn:E; [apply N.leb_le in E|apply N.leb_gt in E]
  end; cbn; first [reflexivity | exfalso; lia | lia].

(* the character classes of src/common.rs *)
Lemma is_indent_src_eq c : is_indent c = is_indent_src c.
Proof. unfold is_indent, is_indent_src. class_eq. Qed.
Lemma is_newline_src_eq c : is_newline c = is_newline_src c.
Proof. unfold is_newline, is_newline_src. class_eq. Qed.
Lemma is_valid_key_char_src_eq c : is_valid_key_char c = is_valid_key_char_src c.
Proof. unfold is_valid_key_char, is_valid_key_char_src, is_ascii_graphic. class_eq. Qed.
Lemma is_valid_initial_key_char_src_eq c : is_valid_initial_key_char c = is_valid_initial_key_char_src c.
Proof. unfold is_valid_initial_key_char, is_valid_initial_key_char_src, is_valid_key_char, is_valid_key_char_src, is_ascii_graphic. class_eq. Qed.

(* the character classes of the relations lexer *)
Lemma is_rel_ws_src_eq c : is_rel_ws c = is_whitespace_src c.
Proof. unfold is_rel_ws, is_whitespace_src. class_eq. Qed.
Lemma is_ident_char_src_eq c : is_ident_char c = is_valid_ident_char_src c.
Proof. unfold is_ident_char, is_valid_ident_char_src, is_ascii_alnum. class_eq. Qed.

(* the single-character arms: same characters, same kinds, same order of precedence (the arms are
   disjoint, so order is immaterial once the characters are pairwise different) *)
Lemma single_char_arms_ok :
  forallb (fun ck => match single_char_kind (fst ck) with
                     | Some k => (rkind_code k =? snd ck)%N
                     | None => false
                     end) single_char_arms_src = true /\
  length single_char_arms_src = 15 /\
  NoDup (map fst single_char_arms_src).
Proof.
  split; [vm_compute; reflexivity|]. split; [reflexivity|].
  repeat (constructor; [cbn; intuition discriminate|]). constructor.
Qed.
(* ... and no other character is a single-character token: single_char_kind answers Some only on
   the 15 listed characters *)
Lemma single_char_only c k : single_char_kind c = Some k -> In c (map fst single_char_arms_src).
Proof.
  unfold single_char_kind. intros H.
  repeat match type of H with
  | (if (c =? ?n)%N then _ else _) = _ =>
      let E := fresh "E" in destruct (c =? n)%N eqn:E;
      [apply N.eqb_eq in E; subst c; cbn; tauto|]
  end. discriminate.
Qed.

(* the numbering of the SyntaxKind enums *)
Lemma deb822_kind_values_ok :
  map kind_code [KEY; VALUE; Deb822Lex.COLON; INDENT; Deb822Lex.NEWLINE; Deb822Lex.WHITESPACE; COMMENT; Deb822Lex.ERROR;
                 Deb822Lex.ROOT; PARAGRAPH; Deb822Lex.ENTRY; EMPTY_LINE] = deb822_kind_values_src.
Proof. reflexivity. Qed.
Lemma rel_kind_values_ok :
  map rkind_code [IDENT; RelLex.COLON; PIPE; COMMA; L_PARENS; R_PARENS; L_BRACKET; R_BRACKET; NOT; L_ANGLE; R_ANGLE;
                  EQUAL; RelLex.WHITESPACE; RelLex.NEWLINE; DOLLAR; L_CURLY; R_CURLY; RelLex.ERROR; RelLex.ROOT; RelLex.ENTRY;
                  RELATION; ARCHQUAL; VERSION; CONSTRAINT; ARCHITECTURES; PROFILES; SUBSTVAR] = rel_kind_values_src.
Proof. reflexivity. Qed.
