(* C11, separators, on the liberal live layouts (RelLiveAll.v): the tree of a well-formed layout
   has the shape of a field, and every abstract operation does to its slots what the slot model
   RelEditSpec.sstep says (through RelSepsP.insert_slots / remove_slots). *)
From V.model Require Import Base RelLex RelParse RelAcc RelGrammar RelGrammarAll.
From V.model Require Import RelEdit RelEditSpec RelEditTree RelLiveAll.
From V.proofs Require Import BaseP RelEditP RelSepsP RelLiveAllP RelLiveAllStepP RelLiveAllWfP.

Definition rk (x : relem) : ckind :=
  match x with RW _ => KOther | RC => KComma | RE _ => KItem SEntry | RS _ => KItem SSubst end.
Lemma ck_rt x : ck (rt x) = rk x.
Proof.
  destruct x as [w| |e|body]; try reflexivity. pose proof (ws_elem_rt (RW w)) as H. cbn [is_rw] in H. now apply ck_ws.
Qed.
Lemma sep_rt l : forall cur, separated (negb (is_sempty cur)) l = true -> sep_from cur (map rt l) = true.
Proof.
  induction l as [|x r IH]; intros cur H; [reflexivity|]. cbn [map sep_from]. rewrite ck_rt.
  destruct x as [w| |e|body]; cbn [rk separated] in *.
  - pose proof (ws_elem_rt (RW w)) as Hw. cbn [is_rw] in Hw. rewrite Hw. now apply IH.
  - now apply (IH SEmpty).
  - apply andb_prop in H as [H1 H2]. rewrite negb_involutive in H1. rewrite H1. now apply (IH SEntry).
  - apply andb_prop in H as [H1 H2]. rewrite negb_involutive in H1. rewrite H1. now apply (IH SSubst).
Qed.
Theorem shape_ltree b l : lwf b l = true -> field_shape (ltree l) = true.
Proof. unfold lwf, field_shape, ltree. intros H. apply andb_prop in H as [_ H]. cbn [children]. now apply (sep_rt l SEmpty). Qed.

Lemma slots_replace_re l ci e e' : nth_error l ci = Some (RE e) ->
  tree_slots (ltree (replace_at ci (RE e') l)) = tree_slots (ltree l).
Proof.
  intros H. unfold tree_slots, ltree. cbn [children]. apply slots_same.
  rewrite !map_map. revert ci H. induction l as [|x r IH]; intros [|ci] H; cbn [nth_error] in H; try discriminate.
  - injection H as ->. unfold replace_at. cbn. reflexivity.
  - specialize (IH ci H). unfold replace_at in *. change (skipn (S (S ci)) (x :: r)) with (skipn (S ci) r). cbn [firstn app map]. now rewrite IH.
Qed.
Lemma nth_error_entry l i ci e : nth_entry l i = Some (ci, e) -> nth_error l ci = Some (RE e).
Proof. intros H. destruct (nth_entry_inv _ _ _ _ H) as (pre & post & -> & <- & _). apply nth_error_app_len. Qed.
Lemma entries_count l : count_if is_re l = length (lentries l).
Proof. induction l as [|x r IH]; [reflexivity|]. rewrite count_cons, IH. destruct x; reflexivity. Qed.

Lemma insert_slots_l b l idx le : lwf b l = true ->
  tree_slots (ltree (a_insert l idx le)) = s_insert idx (tree_slots (ltree l)).
Proof.
  intros Hw. rewrite <- insert_commute. unfold relations_insert_green.
  pose proof (insert_slots (children (ltree l)) idx (lentry_tree le) (shape_ltree b l Hw) eq_refl) as H.
  destruct (insert_plan fixed (children (ltree l)) idx (lentry_tree le)) as [pos new]. exact H.
Qed.
Lemma remove_at_slots b l idx ci l' : lwf b l = true -> nth_index is_re idx l = Some ci -> a_remove_at l ci = Some l' ->
  tree_slots (ltree l') = s_remove idx (tree_slots (ltree l)).
Proof.
  intros Hw Hi Hr. unfold tree_slots, ltree. cbn [children].
  apply (remove_slots (map rt l) idx ci (map rt l')).
  - exact (shape_ltree b l Hw).
  - rewrite (nth_index_map rt is_entry is_re) by apply is_entry_rt. exact Hi.
  - now rewrite remove_at_commute, Hr.
Qed.

(* one operation *)
Theorem a_op_slots b o l l' : lwf b l = true -> a_op o l = Some l' ->
  tree_slots (ltree l') = sstep (fst (lcontent l)) (tree_slots (ltree l)) o.
Proof.
  intros Hw H. destruct o; cbn [a_op sstep] in *.
  - destruct (operand_lentry e) as [le|]; [|discriminate]. injection H as <-. unfold a_push.
    rewrite (insert_slots_l b l _ le Hw). unfold s_insert, tree_slots.
    rewrite entry_slot_none; [reflexivity|exact (shape_ltree b l Hw)|].
    unfold ltree. cbn [children]. rewrite (nth_index_map rt is_entry is_re) by apply is_entry_rt. apply nthi_beyond. lia.
  - destruct (operand_lentry e) as [le|]; [|discriminate]. injection H as <-. apply (insert_slots_l b l i le Hw).
  - destruct (operand_lentry e) as [le|]; [|discriminate]. unfold a_replace in H.
    destruct (nth_index is_re i l) as [ci|] eqn:E; [|discriminate]. injection H as <-.
    destruct (nth_index_re_split _ _ _ E) as (pre & e0 & post & -> & <- & _). apply (slots_replace_re _ _ e0). apply nth_error_app_len.
  - unfold a_remove_entry in H. destruct (nth_index is_re i l) as [ci|] eqn:E; [|discriminate]. now apply (remove_at_slots b l i ci l').
  - unfold a_on_entry in H. destruct (nth_entry l i) as [[ci e]|] eqn:E; [|discriminate]. injection H as <-.
    apply (slots_replace_re _ _ e). now apply (nth_error_entry l i).
  - destruct (nth_entry l i) as [[ci e]|] eqn:E; [|discriminate]. destruct (j <? n_rels e); [|discriminate]. injection H as <-.
    apply (slots_replace_re _ _ e). now apply (nth_error_entry l i).
  - unfold a_remove_relation in H. destruct (nth_entry l i) as [[ci e]|] eqn:E; [|discriminate].
    destruct (j <? n_rels e) eqn:Ej; [|discriminate].
    destruct (nth_entry_entries _ _ _ _ E) as (pre & post & El & Lp & Li).
    assert (Hn : nth_error (fst (lcontent l)) i = Some (lentry_content e)).
    { rewrite lcontent_entries. cbn [fst]. rewrite El, lentries_split, map_app, <- Li, <- (map_length lentry_content (lentries pre)). apply nth_error_app_len. }
    rewrite Hn. pose proof (length_content e) as Hl.
    destruct (a_remove_rel e j) as [e'|] eqn:Er.
    + injection H as <-. rewrite (slots_replace_re l ci e e' (nth_error_entry l i ci e E)).
      assert (n_rels e >= 2).
      { apply Nat.ltb_lt in Ej. unfold a_remove_rel, n_rels in *. destruct j as [|j].
        - destruct (e_alts e); [discriminate|cbn; lia].
        - cbn in Ej. lia. }
      destruct (lentry_content e) as [|x [|y r]]; cbn [length] in Hl; try lia. reflexivity.
    + assert (n_rels e = 1).
      { unfold a_remove_rel, n_rels in *. destruct j as [|j]; [|discriminate]. destruct (e_alts e) as [|[[? ?] ?] ?]; [reflexivity|discriminate]. }
      destruct (lentry_content e) as [|x [|y r]]; cbn [length] in Hl; try lia.
      destruct (nth_entry_inv _ _ _ _ E) as (_ & _ & _ & _ & Hi). now apply (remove_at_slots b l i ci l').
  - unfold a_on_relation in H. destruct (nth_entry l i) as [[ci e]|] eqn:E; [|discriminate]. destruct (j <? n_rels e); [|discriminate]. injection H as <-.
    apply (slots_replace_re _ _ e). now apply (nth_error_entry l i).
  - unfold a_on_relation in H. destruct (nth_entry l i) as [[ci e]|] eqn:E; [|discriminate]. destruct (j <? n_rels e); [|discriminate]. injection H as <-.
    apply (slots_replace_re _ _ e). now apply (nth_error_entry l i).
  - unfold a_on_relation in H. destruct (nth_entry l i) as [[ci e]|] eqn:E; [|discriminate]. destruct (j <? n_rels e); [|discriminate]. injection H as <-.
    apply (slots_replace_re _ _ e). now apply (nth_error_entry l i).
  - unfold a_on_relation in H. destruct (nth_entry l i) as [[ci e]|] eqn:E; [|discriminate]. destruct (j <? n_rels e); [|discriminate]. injection H as <-.
    apply (slots_replace_re _ _ e). now apply (nth_error_entry l i).
  - unfold a_on_relation in H. destruct (nth_entry l i) as [[ci e]|] eqn:E; [|discriminate]. destruct (j <? n_rels e); [|discriminate]. injection H as <-.
    apply (slots_replace_re _ _ e). now apply (nth_error_entry l i).
Qed.
