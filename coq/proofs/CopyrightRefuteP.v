(* The code as shipped ([shipped], and every variant that lacks one of the four proposed fixes)
   violates C17: concrete witnesses, by evaluation.  Each witness below was replayed on the real
   code through the `glob` / `copyright` streams (docs/cones/C17.md, known_findings.jsonl). *)
From V.model Require Import Base Deb822Lex Deb822Parse Glob Copyright CopyrightSpec.
From V.proofs Require Import GlobP CopyrightP.

Definition two_lines (a b : str) : str := a ++ [10%N] ++ b.

Module Wit.
  Import Coq.Strings.String.
  Local Open Scope string_scope.
  Definition L := s2l.
  Definition header : para := [(L "Format", L "https://www.debian.org/doc/packaging-manuals/copyright-format/1.0/")].

  (* defect 24: Files: a?b, path "a\nb" *)
  Definition g_q : str := L "a?b".
  Definition p_lf : str := [97; 10; 98]%N.

  (* defect 23: Files: a/* b/*  (one line), path a/x *)
  Definition d_ws : doc :=
    [header;
     [(L "Files", L "a/* b/*"); (L "Copyright", L "c"); (L "License", L "MIT")]].
  Definition p_ax : str := L "a/x".

  (* a stand-alone licence paragraph that consists of the name only, before one with text *)
  Definition d_name : doc :=
    [header;
     [(L "Files", L "*"); (L "Copyright", L "c"); (L "License", L "X")];
     [(L "License", L "X")];
     [(L "License", two_lines (L "X") (L "the text"))]].
  Definition p_f : str := L "f".

  (* a header that carries the licence of the package as a whole (legal in DEP-5) *)
  Definition d_hdr : doc :=
    [[(L "Format", L "x"); (L "License", two_lines (L "MIT") (L "header text"))];
     [(L "Files", L "*"); (L "Copyright", L "c"); (L "License", L "MIT")];
     [(L "License", two_lines (L "MIT") (L "real text"))]].

  (* the same four as texts, through the deb822 reader *)
  Definition t_ws : str := L "Format: x

Files: a/* b/*
Copyright: c
License: MIT
".
End Wit.
Import Wit.

(* one fix missing at a time *)
Definition no_dotall : variant := mk_variant false true true true.
Definition no_lossy_ws : variant := mk_variant true false true true.
Definition no_lp_name : variant := mk_variant true true false true.
Definition no_skip_header : variant := mk_variant true true true false.

Lemma q_matches : glob_matches g_q p_lf.
Proof.
  unfold g_q, p_lf. cbn.
  apply gm_lit; [reflexivity|]. apply gm_one. apply gm_lit; [reflexivity|]. constructor.
Qed.

(* defect 24 *)
Lemma glob_clause_shipped_refuted : ~ glob_clause false.
Proof.
  intro H. destruct (H g_q eq_refl p_lf) as [b [E Hb]].
  vm_compute in E. injection E as <-.
  destruct Hb as [_ Hb]. specialize (Hb q_matches). discriminate.
Qed.

(* defect 23: the lossy reader does not find the paragraph the lossless reader finds *)
Lemma agree_clause_no_lossy_ws_refuted : ~ agree_clause no_lossy_ws.
Proof.
  intro H. destruct (ly_of_doc no_lossy_ws d_ws) as [c| | |] eqn:E; try (vm_compute in E; discriminate).
  destruct (H d_ws c E p_ax) as [F _].
  vm_compute in E. injection E as <-. vm_compute in F. exact F.
Qed.

(* name-only licence paragraph: lossless skips it, lossy returns it *)
Lemma agree_clause_no_lp_name_refuted : ~ agree_clause no_lp_name.
Proof.
  intro H. destruct (ly_of_doc no_lp_name d_name) as [c| | |] eqn:E; try (vm_compute in E; discriminate).
  destruct (H d_name c E p_f) as [_ [F _]].
  vm_compute in E. injection E as <-. vm_compute in F. discriminate.
Qed.

(* ... and that is also a violation of the licence rule by the lossless reader alone *)
Lemma lookup_clause_no_lp_name_refuted : ~ lookup_clause no_lp_name.
Proof.
  intro H.
  assert (V : doc_valid d_name).
  { intros p g Hp Hg. vm_compute in Hp. destruct Hp as [<-|[]]. vm_compute in Hg.
    destruct Hg as [<-|[]]. reflexivity. }
  destruct (H d_name p_f V) as [r [ans [Er [_ [Ea Hl]]]]].
  vm_compute in Er. injection Er as <-. vm_compute in Ea. injection Ea as <-.
  cbn [licence_answer] in Hl. vm_compute in Hl.
  destruct Hl as [n [q [En [Hq Ha]]]]. injection En as <-.
  destruct q as [q'|].
  - (* the first paragraph named X is the name-only one, whose licence is Name "X" *)
    destruct Hq as [pre [post [El [Hn Hpre]]]].
    destruct pre as [|x pre].
    + cbn in El. injection El as <- <-. vm_compute in Ha. discriminate.
    + cbn in El. injection El as <- El. exfalso. apply (Hpre _ (or_introl eq_refl)).
      eexists. split; reflexivity.
  - apply (Hq _ (or_introl eq_refl)). eexists. split; reflexivity.
Qed.

(* header licence: lossless returns the header's text, lossy the stand-alone paragraph's *)
Lemma agree_clause_no_skip_header_refuted : ~ agree_clause no_skip_header.
Proof.
  intro H. destruct (ly_of_doc no_skip_header d_hdr) as [c| | |] eqn:E; try (vm_compute in E; discriminate).
  destruct (H d_hdr c E p_f) as [_ [F _]].
  vm_compute in E. injection E as <-. vm_compute in F. discriminate.
Qed.

(* the shipped code has all four *)
Lemma agree_clause_shipped_refuted : ~ agree_clause shipped.
Proof.
  intro H. destruct (ly_of_doc shipped d_ws) as [c| | |] eqn:E; try (vm_compute in E; discriminate).
  destruct (H d_ws c E p_ax) as [F _].
  vm_compute in E. injection E as <-. vm_compute in F. exact F.
Qed.

Theorem C17_shipped_refuted_all : ~ C17_full shipped.
Proof. intros [H _]. exact (glob_clause_shipped_refuted H). Qed.

(* the text-level witness for defect 23: both readers accept the text, and disagree *)
Lemma text_witness_lossy_ws :
  exists d c, ll_from_str t_ws = Ok d /\ ly_from_str shipped t_ws = Ok c /\
    wf_doc d /\
    (exists p, ll_find_files shipped d p_ax = Ok (Some (0, p))) /\
    ly_find_files shipped c p_ax = Ok None.
Proof.
  destruct (ll_from_str t_ws) as [d| | |] eqn:Ed; try (vm_compute in Ed; discriminate).
  destruct (ly_from_str shipped t_ws) as [c| | |] eqn:Ec; try (vm_compute in Ec; discriminate).
  exists d, c. split; [reflexivity|]. split; [reflexivity|].
  vm_compute in Ed. injection Ed as <-. vm_compute in Ec. injection Ec as <-.
  split; [vm_compute; auto|]. split; [eexists; vm_compute; reflexivity|vm_compute; reflexivity].
Qed.

(* finding non-utf8-path: with a path that is not valid UTF-8 both readers panic as soon as a
   Files paragraph has a pattern to try (and answer "no match" when none has) *)
Lemma nonutf8_path_witness :
  (exists c, ly_of_doc fixed d_ws = Ok c /\ ly_find_files_nonutf8 c = Panic 13%N /\
             ly_find_license_for_file_nonutf8 c = Panic 13%N) /\
  ll_find_files_nonutf8 fixed d_ws = Panic 13%N /\
  ll_find_license_for_file_nonutf8 fixed d_ws = Panic 13%N /\
  ll_find_files_nonutf8 fixed [header; [(k_Files, []); (k_License, [88%N])]] = Ok None.
Proof.
  split; [eexists; split; [vm_compute; reflexivity|split; vm_compute; reflexivity]|].
  repeat split; vm_compute; reflexivity.
Qed.
