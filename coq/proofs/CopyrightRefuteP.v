(* The code as shipped ([shipped]), the code as committed ([committed]) and every variant that
   lacks one of the fixes violate C17: concrete witnesses, by evaluation.  Each witness below was replayed on the real
   code through the `glob` / `copyright` streams (docs/cones/C17.md, known_findings.jsonl). *)
From V.model Require Import Base Deb822Lex Deb822Parse Glob Copyright CopyrightSpec.
From V.proofs Require Import GlobP CopyrightP.

Definition two_lines (a b : str) : str := a ++ [10%N] ++ b.

Module Wit.
  Import Coq.Strings.String.
  Local Open Scope string_scope.
  Definition L := s2l.
  Definition header : para := [(L "Format", L "https://www.debian.org/doc/packaging-manuals/copyright-format/1.0/")].

  (* defect 24: Files: a?b, path "a\nb" *)
  Definition g_q : str := L "a?b".
  Definition p_lf : str := [97; 10; 98]%N.

  (* defect 23: Files: a/* b/*  (one line), path a/x *)
  Definition d_ws : doc :=
    [header;
     [(L "Files", L "a/* b/*"); (L "Copyright", L "c"); (L "License", L "MIT")]].
  Definition p_ax : str := L "a/x".

  (* a stand-alone licence paragraph that consists of the name only, before one with text *)
  Definition d_name : doc :=
    [header;
     [(L "Files", L "*"); (L "Copyright", L "c"); (L "License", L "X")];
     [(L "License", L "X")];
     [(L "License", two_lines (L "X") (L "the text"))]].
  Definition p_f : str := L "f".

  (* a header that carries the licence of the package as a whole (legal in DEP-5) *)
  Definition d_hdr : doc :=
    [[(L "Format", L "x"); (L "License", two_lines (L "MIT") (L "header text"))];
     [(L "Files", L "*"); (L "Copyright", L "c"); (L "License", L "MIT")];
     [(L "License", two_lines (L "MIT") (L "real text"))]].

  (* an invalid escape in a later paragraph: "Files: zzz\" (audit item 1) *)
  Definition d_bad : doc :=
    [header;
     [(L "Files", L "*"); (L "Copyright", L "c"); (L "License", two_lines (L "MIT") (L "text"))];
     [(L "Files", L "zzz\"); (L "Copyright", L "c"); (L "License", L "GPL")]].

  (* a field name in another case: "files: *" (audit item 2) *)
  Definition d_case : doc :=
    [header;
     [(L "files", L "*"); (L "Copyright", L "c"); (L "License", two_lines (L "MIT") (L "text"))]].
  Definition t_case : str := L "format: x
".

  (* the same as texts, through the deb822 reader *)
  Definition t_ws : str := L "Format: x

Files: a/* b/*
Copyright: c
License: MIT
".
End Wit.
Import Wit.

(* one fix missing at a time *)
Definition no_dotall : variant := mk_variant false true true true true true.
Definition no_lossy_ws : variant := mk_variant true false true true true true.
Definition no_lp_name : variant := mk_variant true true false true true true.
Definition no_skip_header : variant := mk_variant true true true false true true.
Definition no_lenient : variant := mk_variant true true true true false true.
Definition no_lossy_path : variant := mk_variant true true true true true false.

Lemma q_matches : glob_matches g_q p_lf.
Proof.
  unfold g_q, p_lf. cbn.
  apply gm_lit; [reflexivity|]. apply gm_one. apply gm_lit; [reflexivity|]. constructor.
Qed.

(* defect 24 *)
Lemma glob_clause_shipped_refuted : ~ glob_clause false.
Proof.
  intro H. destruct (H g_q eq_refl p_lf) as [b [E Hb]].
  vm_compute in E. injection E as <-.
  destruct Hb as [_ Hb]. specialize (Hb q_matches). discriminate.
Qed.

(* defect 23: the lossy reader does not find the paragraph the lossless reader finds *)
Lemma agree_clause_no_lossy_ws_refuted : ~ agree_clause no_lossy_ws.
Proof.
  intro H. destruct (ly_of_doc no_lossy_ws d_ws) as [c| | |] eqn:E; try (vm_compute in E; discriminate).
  destruct (H d_ws c E p_ax) as [F _].
  vm_compute in E. injection E as <-. vm_compute in F. exact F.
Qed.

(* name-only licence paragraph: lossless skips it, lossy returns it *)
Lemma agree_clause_no_lp_name_refuted : ~ agree_clause no_lp_name.
Proof.
  intro H. destruct (ly_of_doc no_lp_name d_name) as [c| | |] eqn:E; try (vm_compute in E; discriminate).
  destruct (H d_name c E p_f) as [_ [F _]].
  vm_compute in E. injection E as <-. vm_compute in F. discriminate.
Qed.

(* ... and that is also a violation of the licence rule by the lossless reader alone *)
Lemma lookup_clause_no_lp_name_refuted : ~ lookup_clause no_lp_name.
Proof.
  intro H.
  destruct (H d_name p_f eq_refl) as [r [ans [Er [_ [Ea Hl]]]]].
  vm_compute in Er. injection Er as <-. vm_compute in Ea. injection Ea as <-.
  unfold licence_answer in Hl. cbn [licence_answer_w] in Hl. vm_compute in Hl.
  destruct Hl as [n [q [En [Hq Ha]]]]. injection En as <-.
  destruct q as [q'|].
  - (* the first paragraph named X is the name-only one, whose licence is Name "X" *)
    destruct Hq as [pre [post [El [Hn Hpre]]]].
    destruct pre as [|x pre].
    + cbn in El. injection El as <- <-. vm_compute in Ha. discriminate.
    + cbn in El. injection El as <- El. exfalso. apply (Hpre _ (or_introl eq_refl)).
      eexists. split; reflexivity.
  - apply (Hq _ (or_introl eq_refl)). eexists. split; reflexivity.
Qed.

(* header licence: lossless returns the header's text, lossy the stand-alone paragraph's *)
Lemma agree_clause_no_skip_header_refuted : ~ agree_clause no_skip_header.
Proof.
  intro H. destruct (ly_of_doc no_skip_header d_hdr) as [c| | |] eqn:E; try (vm_compute in E; discriminate).
  destruct (H d_hdr c E p_f) as [_ [F _]].
  vm_compute in E. injection E as <-. vm_compute in F. discriminate.
Qed.

(* the shipped code has all four *)
Lemma agree_clause_shipped_refuted : ~ agree_clause shipped.
Proof.
  intro H. destruct (ly_of_doc shipped d_ws) as [c| | |] eqn:E; try (vm_compute in E; discriminate).
  destruct (H d_ws c E p_ax) as [F _].
  vm_compute in E. injection E as <-. vm_compute in F. exact F.
Qed.

Theorem C17_shipped_refuted_all : ~ C17_full shipped.
Proof. intros [H _]. exact (glob_clause_shipped_refuted H). Qed.

(* the text-level witness for defect 23: both readers accept the text, and disagree *)
Lemma text_witness_lossy_ws :
  exists d c, ll_from_str t_ws = Ok d /\ ly_from_str shipped t_ws = Ok c /\
    wf_doc d /\
    (exists p, ll_find_files shipped d p_ax = Ok (Some (0, p))) /\
    ly_find_files shipped c p_ax = Ok None.
Proof.
  destruct (ll_from_str t_ws) as [d| | |] eqn:Ed; try (vm_compute in Ed; discriminate).
  destruct (ly_from_str shipped t_ws) as [c| | |] eqn:Ec; try (vm_compute in Ec; discriminate).
  exists d, c. split; [reflexivity|]. split; [reflexivity|].
  vm_compute in Ed. injection Ed as <-. vm_compute in Ec. injection Ec as <-.
  split; [vm_compute; auto|]. split; [eexists; vm_compute; reflexivity|vm_compute; reflexivity].
Qed.

(* audit item 1: without C17-invalid-glob-escape a pattern with an invalid escape in ANY Files
   paragraph makes find_files / find_license_for_file of BOTH readers panic for EVERY path that
   no earlier pattern of that paragraph matches — here although "*" in the first paragraph does *)
Lemma invalid_escape_witness :
  exact_case d_bad /\ ~ doc_valid d_bad /\
  ll_find_files committed d_bad p_f = Panic 2%N /\
  ll_find_license_for_file committed d_bad p_f = Panic 2%N /\
  (exists c, ly_of_doc committed d_bad = Ok c /\ ly_find_files committed c p_f = Panic 2%N /\
             ly_find_license_for_file committed c p_f = Panic 2%N) /\
  (* with the fix the first paragraph answers *)
  (exists p, ll_find_files fixed d_bad p_f = Ok (Some (0, p))) /\
  ll_find_license_for_file fixed d_bad p_f = Ok (Some (LNamed [77; 73; 84]%N [116; 101; 120; 116]%N)).
Proof.
  split; [reflexivity|]. split.
  { intro V. specialize (V (nth 2 d_bad []) [122; 122; 122; 92]%N).
    assert (E : valid_escapes [122; 122; 122; 92]%N = false) by reflexivity.
    rewrite V in E; [discriminate| |]; vm_compute; auto. }
  split; [vm_compute; reflexivity|]. split; [vm_compute; reflexivity|].
  split; [eexists; split; [vm_compute; reflexivity|split; vm_compute; reflexivity]|].
  split; [eexists; vm_compute; reflexivity|vm_compute; reflexivity].
Qed.

Lemma lookup_clause_committed_refuted : ~ lookup_clause committed /\ ~ lookup_clause no_lenient.
Proof.
  split; intro H; destruct (H d_bad p_f eq_refl) as [r [ans [Er _]]]; vm_compute in Er; discriminate.
Qed.

(* audit item 2: field names are compared exactly by the code.  "files: *" is a Files paragraph
   (Policy 5.1) that no reader sees: find_files answers None although the paragraph matches, and
   the paragraph is listed as a stand-alone licence paragraph; "format: x" is refused as not
   machine readable although it starts with a Format field. *)
Lemma field_name_case_witness :
  Known_field_name_case d_case /\
  ll_find_files fixed d_case p_f = Ok None /\
  ~ is_last_such (fun p => para_matches p p_f) (files_paragraphs d_case) None /\
  List.length (ll_iter_licenses fixed d_case) = 1 /\ licence_paragraphs d_case = [] /\
  starts_with_format_field t_case /\ ll_from_str t_case = Err 2%N /\ ly_from_str fixed t_case = Err 2%N.
Proof.
  split; [reflexivity|]. split; [vm_compute; reflexivity|]. split.
  { intro H. apply (H (nth 1 d_case [])); [vm_compute; auto|].
    exists [42%N]. split; [vm_compute; auto|]. apply (gm_star [] [102%N] []). constructor. }
  split; [reflexivity|]. split; [reflexivity|]. split.
  { exists [102; 111; 114; 109; 97; 116]%N, [32; 120; 10]%N. split; reflexivity. }
  split; vm_compute; reflexivity.
Qed.

(* finding non-utf8-path (before C17-non-utf8-path): with a path that is not valid UTF-8 both
   readers panic as soon as a Files paragraph has a (valid) pattern to try, and answer "no
   match" when none has; with the fix the path is read through to_string_lossy() and these
   functions are not used *)
Lemma nonutf8_path_witness :
  (exists c, ly_of_doc committed d_ws = Ok c /\ ly_find_files_nonutf8 committed c = Panic 13%N /\
             ly_find_license_for_file_nonutf8 committed c = Panic 13%N) /\
  ll_find_files_nonutf8 committed d_ws = Panic 13%N /\
  ll_find_license_for_file_nonutf8 committed d_ws = Panic 13%N /\
  ll_find_files_nonutf8 no_lossy_path d_ws = Panic 13%N /\
  ll_find_files_nonutf8 committed [header; [(k_Files, []); (k_License, [88%N])]] = Ok None.
Proof.
  split; [eexists; split; [vm_compute; reflexivity|split; vm_compute; reflexivity]|].
  repeat split; vm_compute; reflexivity.
Qed.

Theorem C17_committed_refuted_all : ~ C17_full committed.
Proof. intros [_ [H _]]. exact (proj1 lookup_clause_committed_refuted H). Qed.
