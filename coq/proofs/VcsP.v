(* Lemmas about VCS locations (Vcs.v, C18): ParsedVcs FromStr/Display for every combination of
   branch and subpath, Vcs::from_field / to_field. *)
From V.model Require Import Base CodecStr Vcs.
From V.proofs Require Import BaseP CodecStrP.

Local Open Scope N_scope.

(* ------------------------------------------------------------------ the hand regex matcher *)
Lemma space_not_class : re_class 32 = false.
Proof. reflexivity. Qed.

(* y is empty or starts with a space: a match cannot run into it *)
Definition sp_start (y : str) : Prop := y = [] \/ exists y', y = 32 :: y'.

Lemma span_app_stop (r y run r' : str) :
  span re_class r = (run, r') -> sp_start y -> span re_class (r ++ y) = (run, r' ++ y).
Proof.
  revert run r'. induction r as [|c r IH]; intros run r' H Hy.
  - cbn in H. inversion H; subst. cbn [app].
    destruct Hy as [->|[y' ->]]; [reflexivity|]. cbn [span]. rewrite space_not_class. reflexivity.
  - cbn [span app] in H |- *. destruct (re_class c).
    + destruct (span re_class r) as [a b] eqn:E. injection H as <- <-.
      rewrite (IH a b eq_refl Hy). reflexivity.
    + injection H as <- <-. reflexivity.
Qed.

Lemma re_here_app_none (x y : str) :
  x <> [] -> re_here x = None -> sp_start y -> re_here (x ++ y) = None.
Proof.
  intros Hx H Hy. destruct x as [|a [|b r]]; [contradiction| |].
  - cbn [app]. destruct Hy as [->|[y' ->]]; [reflexivity|].
    cbn [re_here]. destruct (a =? 32); reflexivity.
  - cbn [app re_here] in H |- *. destruct ((a =? 32) && (b =? 91))%bool; [|reflexivity].
    destruct (span re_class r) as [run r'] eqn:E.
    rewrite (span_app_stop r y run r' E Hy).
    destruct run as [|c run]; [reflexivity|].
    destruct r' as [|d r''].
    + cbn [app]. destruct Hy as [->|[y' ->]]; reflexivity.
    + cbn [app]. destruct (d =? 93); [discriminate H|reflexivity].
Qed.

Lemma re_find_none_inv (c : char) (x : str) :
  re_find (c :: x) = None -> re_here (c :: x) = None /\ re_find x = None.
Proof.
  cbn [re_find]. destruct (re_here (c :: x)) as [[run rest]|]; [discriminate|].
  destruct (re_find x) as [[[a run] b]|]; [discriminate|]. split; reflexivity.
Qed.

Definition shift (x : str) (r : option (str * str * str)) : option (str * str * str) :=
  match r with Some (a, run, b) => Some (x ++ a, run, b) | None => None end.

(* Lemma A: no match in x, and y cannot be run into: the search in x ++ y is the search in y *)
Lemma re_find_app (x y : str) :
  re_find x = None -> sp_start y -> re_find (x ++ y) = shift x (re_find y).
Proof.
  induction x as [|c x IH]; intros H Hy.
  - cbn [app shift]. destruct (re_find y) as [[[a run] b]|]; reflexivity.
  - destruct (re_find_none_inv c x H) as [Hh Hf].
    change ((c :: x) ++ y) with (c :: (x ++ y)). cbn [re_find].
    change (c :: (x ++ y)) with ((c :: x) ++ y).
    rewrite (re_here_app_none (c :: x) y ltac:(discriminate) Hh Hy).
    rewrite (IH Hf Hy). destruct (re_find y) as [[[a run] b]|]; reflexivity.
Qed.

Definition sub_ok (p : str) : bool := negb (is_empty p) && forallb re_class p.

Lemma span_class_all (p rest : str) :
  forallb re_class p = true -> span re_class (p ++ 93 :: rest) = (p, 93 :: rest).
Proof.
  induction p as [|c p IH]; intros H; [reflexivity|].
  cbn [forallb] in H. apply andb_prop in H. destruct H as [Hc Hp].
  cbn [app span]. rewrite Hc, (IH Hp). reflexivity.
Qed.

Lemma re_here_sub (p rest : str) :
  sub_ok p = true -> re_here ([32; 91] ++ p ++ 93 :: rest) = Some (p, rest).
Proof.
  unfold sub_ok. intros H. apply andb_prop in H. destruct H as [Hn Hc].
  cbn [app re_here]. cbn [N.eqb Pos.eqb andb]. rewrite (span_class_all p rest Hc).
  destruct p; [discriminate Hn|]. reflexivity.
Qed.

Lemma re_find_sub (p rest : str) :
  sub_ok p = true -> re_find ([32; 91] ++ p ++ 93 :: rest) = Some ([], p, rest).
Proof.
  intros H. pose proof (re_here_sub p rest H) as E.
  destruct ([32; 91] ++ p ++ 93 :: rest) eqn:T; cbn [re_find]; rewrite E; reflexivity.
Qed.

(* a successful search splits the text around " [run]" *)
Lemma re_here_some (s run rest : str) :
  re_here s = Some (run, rest) -> s = [32; 91] ++ run ++ 93 :: rest.
Proof.
  destruct s as [|a [|b r]]; cbn [re_here]; try discriminate.
  destruct (a =? 32) eqn:Ea; [|discriminate]. destruct (b =? 91) eqn:Eb; [|discriminate]. cbn [andb].
  apply N.eqb_eq in Ea. apply N.eqb_eq in Eb. subst a b.
  destruct (span re_class r) as [run' r'] eqn:E. apply span_app in E. subst r.
  destruct run' as [|c run']; [discriminate|]. destruct r' as [|d r'']; [discriminate|].
  destruct (d =? 93) eqn:Ed; [|discriminate]. apply N.eqb_eq in Ed. subst d.
  intros H. inversion H; subst. reflexivity.
Qed.

Lemma re_find_some (s a run b : str) :
  re_find s = Some (a, run, b) -> s = a ++ [32; 91] ++ run ++ 93 :: b.
Proof.
  revert a. induction s as [|c s IH]; intros a H.
  - cbn in H. discriminate.
  - cbn [re_find] in H. destruct (re_here (c :: s)) as [[run' rest]|] eqn:E.
    + inversion H; subst. apply re_here_some in E. exact E.
    + destruct (re_find s) as [[[a' run'] b']|]; [|discriminate]. inversion H; subst.
      rewrite (IH a' eq_refl). reflexivity.
Qed.

(* ------------------------------------------------------------------ ParsedVcs round trip *)
Definition is_none {A} (o : option A) : bool := match o with None => true | Some _ => false end.

(* in  u ++ " -b "  the first " -b " is the appended one *)
Definition dash_b_last (u : str) : bool :=
  match find_sub lit_dash_b (u ++ lit_dash_b) with
  | Some (a, _) => str_eqb a u
  | None => false
  end.

(* the values whose text form is their own: the URL does not begin with whitespace and contains
   no bracketed subpath; without a branch it contains no " -b ", with one the first " -b " of
   the text is the printed one; a branch does not begin with a bracketed subpath nor contain one;
   a subpath is non-empty and free of ']' and ' '; the text does not end in whitespace; the URL
   is not empty when something follows it. *)
Definition pvcs_valid (v : parsed_vcs) : bool :=
  let u := repo_url v in
  no_lead_ws u && is_none (re_find u) &&
  match branch v, subpath v with
  | None, None => no_trail_ws u && negb (contains_sub lit_dash_b u)
  | None, Some p => negb (is_empty u) && negb (contains_sub lit_dash_b u) && sub_ok p
  | Some b, None => negb (is_empty u) && dash_b_last u && is_none (re_find (32 :: b)) &&
                    negb (is_empty b) && no_trail_ws b
  | Some b, Some p => negb (is_empty u) && dash_b_last u && is_none (re_find (32 :: b)) && sub_ok p
  end.

Lemma is_none_eq {A} (o : option A) : is_none o = true -> o = None.
Proof. destruct o; [discriminate|reflexivity]. Qed.

Lemma dash_b_last_find (u r : str) :
  dash_b_last u = true -> find_sub lit_dash_b (u ++ lit_dash_b ++ r) = Some (u, lit_dash_b ++ r).
Proof.
  unfold dash_b_last. intros H. apply find_sub_extend.
  destruct (find_sub lit_dash_b (u ++ lit_dash_b)) as [[a b]|] eqn:F; [|discriminate].
  apply str_eqb_eq in H. subst a. destruct (find_sub_some _ _ _ _ F) as [E _].
  apply app_inv_head in E. subst b. reflexivity.
Qed.

Lemma skipn_app_length_4 (b : str) : skipn 4 (lit_dash_b ++ b) = b.
Proof. reflexivity. Qed.

Lemma re_find_dash_b : re_find [32; 45; 98] = None.
Proof. reflexivity. Qed.

Lemma sp_start_cons (y : str) : sp_start (32 :: y).
Proof. right. exists y. reflexivity. Qed.

Lemma nonempty_neq {A} (l : list A) : negb (is_empty l) = true -> l <> [].
Proof. destruct l; [discriminate|discriminate]. Qed.

Theorem pvcs_roundtrip (v : parsed_vcs) :
  pvcs_valid v = true -> parsed_vcs_from_str (parsed_vcs_to_string v) = Ok v.
Proof.
  destruct v as [u b p]. unfold pvcs_valid. cbn [repo_url branch subpath].
  intros H. apply andb_prop in H. destruct H as [H Hrest].
  apply andb_prop in H. destruct H as [Hlead Hre]. apply is_none_eq in Hre.
  unfold parsed_vcs_to_string, parsed_vcs_from_str. cbn [repo_url branch subpath].
  destruct b as [b|]; destruct p as [p|].
  - (* branch and subpath:  u -b b [p] *)
    apply andb_prop in Hrest. destruct Hrest as [H Hp]. apply andb_prop in H. destruct H as [H Hb].
    apply andb_prop in H. destruct H as [Hu Hd]. apply is_none_eq in Hb. apply nonempty_neq in Hu.
    rewrite trim_id.
    2:{ rewrite no_lead_ws_app by exact Hu. exact Hlead. }
    2:{ rewrite app_assoc. rewrite no_trail_ws_app by (destruct p; discriminate).
        unfold no_trail_ws. rewrite !rev_app_distr. reflexivity. }
    (* the regex: skip u, skip " -b", skip " " ++ b, match " [p]" *)
    assert (R : re_find (u ++ (lit_dash_b ++ b) ++ [32; 91] ++ p ++ [93]) =
                Some (u ++ lit_dash_b ++ b, p, [])).
    { rewrite re_find_app; [|exact Hre|apply sp_start_cons].
      change (lit_dash_b ++ b) with ([32; 45; 98] ++ (32 :: b)). rewrite <- app_assoc.
      rewrite re_find_app; [|exact re_find_dash_b|apply sp_start_cons].
      rewrite re_find_app; [|exact Hb|apply sp_start_cons].
      rewrite (re_find_sub p [] Hp). cbn [shift]. rewrite !app_nil_r. reflexivity. }
    rewrite R. rewrite app_nil_r.
    rewrite (dash_b_last_find u b Hd). rewrite skipn_app_length_4. reflexivity.
  - (* branch only:  u -b b *)
    apply andb_prop in Hrest. destruct Hrest as [H Htr]. apply andb_prop in H. destruct H as [H Hbn].
    apply andb_prop in H. destruct H as [H Hb]. apply andb_prop in H. destruct H as [Hu Hd].
    apply is_none_eq in Hb. apply nonempty_neq in Hu. apply nonempty_neq in Hbn.
    rewrite !app_nil_r.
    rewrite trim_id.
    2:{ rewrite no_lead_ws_app by exact Hu. exact Hlead. }
    2:{ rewrite app_assoc. rewrite no_trail_ws_app by exact Hbn. exact Htr. }
    assert (R : re_find (u ++ lit_dash_b ++ b) = None).
    { rewrite re_find_app; [|exact Hre|apply sp_start_cons].
      change (lit_dash_b ++ b) with ([32; 45; 98] ++ (32 :: b)).
      rewrite re_find_app; [|exact re_find_dash_b|apply sp_start_cons].
      rewrite Hb. reflexivity. }
    rewrite R. rewrite (dash_b_last_find u b Hd). rewrite skipn_app_length_4. reflexivity.
  - (* subpath only:  u [p] *)
    apply andb_prop in Hrest. destruct Hrest as [H Hp]. apply andb_prop in H. destruct H as [Hu Hnd].
    apply nonempty_neq in Hu. apply negb_true_iff in Hnd.
    cbn [app].
    rewrite trim_id.
    2:{ rewrite no_lead_ws_app by exact Hu. exact Hlead. }
    2:{ rewrite no_trail_ws_app by discriminate.
        unfold no_trail_ws. change (32 :: 91 :: p ++ [93]) with ([32; 91] ++ p ++ [93]).
        rewrite !rev_app_distr. reflexivity. }
    assert (R : re_find (u ++ [32; 91] ++ p ++ [93]) = Some (u, p, [])).
    { rewrite re_find_app; [|exact Hre|apply sp_start_cons].
      rewrite (re_find_sub p [] Hp). cbn [shift]. rewrite app_nil_r. reflexivity. }
    change (u ++ 32 :: 91 :: p ++ [93]) with (u ++ [32; 91] ++ p ++ [93]).
    rewrite R. rewrite app_nil_r. rewrite (find_sub_none_contains _ _ Hnd). reflexivity.
  - (* neither:  u *)
    apply andb_prop in Hrest. destruct Hrest as [Htr Hnd]. apply negb_true_iff in Hnd.
    cbn [app]. rewrite !app_nil_r.
    rewrite trim_id by assumption. rewrite Hre. rewrite (find_sub_none_contains _ _ Hnd). reflexivity.
Qed.

(* ------------------------------------------------------------------ canonical texts *)
(* nothing to trim, and the bracketed subpath (if there is one) ends the text *)
Definition pvcs_canon (s : str) : bool :=
  str_eqb (trim s) s &&
  match re_find s with
  | Some (_, _, b) => is_empty b
  | None => true
  end.

Lemma find_sub_dash_b_text (s1 url br : str) :
  find_sub lit_dash_b s1 = Some (url, br) -> url ++ lit_dash_b ++ skipn 4 br = s1.
Proof.
  intros F. destruct (find_sub_some _ _ _ _ F) as [E Hst]. apply starts_with_split in Hst.
  change (length lit_dash_b) with 4%nat in Hst. rewrite <- Hst. symmetry. exact E.
Qed.

Lemma Ok_inj {A} (a b : A) : @Ok A a = Ok b -> a = b.
Proof. intros H. injection H. auto. Qed.

Theorem pvcs_canonical (s : str) (v : parsed_vcs) :
  pvcs_canon s = true -> parsed_vcs_from_str s = Ok v -> parsed_vcs_to_string v = s.
Proof.
  unfold pvcs_canon, parsed_vcs_from_str. intros Hc Hp.
  apply andb_prop in Hc. destruct Hc as [Ht Hm]. apply str_eqb_eq in Ht. rewrite Ht in Hp.
  destruct (re_find s) as [[[a run] b]|] eqn:R.
  - destruct b; [|discriminate Hm]. apply re_find_some in R. rewrite app_nil_r in Hp.
    destruct (find_sub lit_dash_b a) as [[url br]|] eqn:F; apply Ok_inj in Hp; subst v;
      unfold parsed_vcs_to_string; cbn [repo_url branch subpath].
    + rewrite app_assoc. rewrite (find_sub_dash_b_text a url br F). symmetry. exact R.
    + cbn [app]. symmetry. exact R.
  - destruct (find_sub lit_dash_b s) as [[url br]|] eqn:F; apply Ok_inj in Hp; subst v;
      unfold parsed_vcs_to_string; cbn [repo_url branch subpath]; rewrite !app_nil_r.
    + apply (find_sub_dash_b_text s url br F).
    + reflexivity.
Qed.

(* the reader never fails and never panics *)
Theorem pvcs_total (s : str) : exists v, parsed_vcs_from_str s = Ok v.
Proof.
  unfold parsed_vcs_from_str. destruct (re_find (trim s)) as [[[a run] b]|];
    match goal with |- context [find_sub lit_dash_b ?x] => destruct (find_sub lit_dash_b x) as [[url br]|] end;
    eexists; reflexivity.
Qed.

(* ------------------------------------------------------------------ every guard is needed *)
Definition pv (u : str) (b p : option str) : parsed_vcs := {| repo_url := u; branch := b; subpath := p |}.
Definition rt_fails (v : parsed_vcs) : Prop :=
  pvcs_valid v = false /\ parsed_vcs_from_str (parsed_vcs_to_string v) <> Ok v.

Lemma pvcs_guard_lead_ws_needed : rt_fails (pv [32; 117] None None).                    (* " u" *)
Proof. split; [reflexivity|]. vm_compute. discriminate. Qed.
Lemma pvcs_guard_trail_ws_needed : rt_fails (pv [117; 32] None None).                   (* "u " *)
Proof. split; [reflexivity|]. vm_compute. discriminate. Qed.
Lemma pvcs_guard_url_bracket_needed : rt_fails (pv [117; 32; 91; 97; 93] None None).    (* "u [a]" *)
Proof. split; [reflexivity|]. vm_compute. discriminate. Qed.
Lemma pvcs_guard_url_dash_b_needed : rt_fails (pv [117; 32; 45; 98; 32; 118] None None). (* "u -b v" *)
Proof. split; [reflexivity|]. vm_compute. discriminate. Qed.
Lemma pvcs_guard_url_empty_needed : rt_fails (pv [] (Some [98]) None).                  (* "" with branch "b" *)
Proof. split; [reflexivity|]. vm_compute. discriminate. Qed.
Lemma pvcs_guard_dash_b_last_needed : rt_fails (pv [117; 32; 45; 98] (Some [120]) None). (* "u -b" with branch "x" *)
Proof. split; [reflexivity|]. vm_compute. discriminate. Qed.
Lemma pvcs_guard_branch_bracket_needed : rt_fails (pv [117] (Some [91; 120; 93]) None). (* branch "[x]" *)
Proof. split; [reflexivity|]. vm_compute. discriminate. Qed.
Lemma pvcs_guard_branch_empty_needed : rt_fails (pv [117] (Some []) None).              (* branch "" *)
Proof. split; [reflexivity|]. vm_compute. discriminate. Qed.
Lemma pvcs_guard_branch_trail_needed : rt_fails (pv [117] (Some [98; 32]) None).        (* branch "b " *)
Proof. split; [reflexivity|]. vm_compute. discriminate. Qed.
Lemma pvcs_guard_sub_empty_needed : rt_fails (pv [117] None (Some [])).                 (* subpath "" *)
Proof. split; [reflexivity|]. vm_compute. discriminate. Qed.
Lemma pvcs_guard_sub_space_needed : rt_fails (pv [117] None (Some [97; 32; 98])).       (* subpath "a b" *)
Proof. split; [reflexivity|]. vm_compute. discriminate. Qed.
Lemma pvcs_guard_sub_bracket_needed : rt_fails (pv [117] None (Some [97; 93])).         (* subpath "a]" *)
Proof. split; [reflexivity|]. vm_compute. discriminate. Qed.

(* ------------------------------------------------------------------ Vcs::from_field / to_field *)
Definition vcs_valid (v : vcs) : bool :=
  match v with
  | Git u b p => pvcs_valid (pv u b p)
  | Bzr u p => pvcs_valid (pv u None p)
  | Hg _ | Svn _ => true
  | Cvs r _ => negb (contains_char 32 r)
  end.

Theorem vcs_roundtrip (v : vcs) :
  vcs_valid v = true ->
  vcs_from_field (fst (vcs_to_field v)) (snd (vcs_to_field v)) = Ok v.
Proof.
  destruct v as [u b p|u p|u|u|r m]; cbn [vcs_valid vcs_to_field fst snd]; intros H.
  - unfold vcs_from_field. cbn [str_eqb list_eqb name_git N.eqb Pos.eqb andb].
    change {| repo_url := u; branch := b; subpath := p |} with (pv u b p).
    rewrite (pvcs_roundtrip _ H). reflexivity.
  - unfold vcs_from_field.
    replace (str_eqb name_bzr name_git) with false by reflexivity.
    replace (str_eqb name_bzr name_bzr) with true by reflexivity.
    replace (match p with Some p0 => u ++ [32; 91] ++ p0 ++ [93] | None => u end)
      with (parsed_vcs_to_string (pv u None p))
      by (unfold parsed_vcs_to_string, pv; cbn [repo_url branch subpath]; destruct p; cbn [app]; rewrite ?app_nil_r; reflexivity).
    rewrite (pvcs_roundtrip _ H). reflexivity.
  - reflexivity.
  - reflexivity.
  - unfold vcs_from_field.
    replace (str_eqb name_cvs name_git) with false by reflexivity.
    replace (str_eqb name_cvs name_bzr) with false by reflexivity.
    replace (str_eqb name_cvs name_hg) with false by reflexivity.
    replace (str_eqb name_cvs name_svn) with false by reflexivity.
    replace (str_eqb name_cvs name_cvs) with true by reflexivity.
    apply negb_true_iff in H. destruct m as [m|].
    + rewrite (split_once_app 32 r m H). reflexivity.
    + apply split_once_none in H. rewrite H. reflexivity.
Qed.

Definition vcs_known_name (n : str) : bool :=
  str_eqb n name_git || str_eqb n name_bzr || str_eqb n name_hg || str_eqb n name_svn || str_eqb n name_cvs.

(* names outside the defined set are rejected *)
Theorem vcs_reject (n s : str) : vcs_known_name n = false -> vcs_from_field n s = Err 1.
Proof.
  unfold vcs_known_name, vcs_from_field. intros H.
  repeat (apply orb_false_iff in H; destruct H as [H ?]).
  repeat match goal with E : str_eqb _ _ = false |- _ => rewrite E; clear E end. reflexivity.
Qed.

Definition vcs_canon (n s : str) : bool :=
  if str_eqb n name_git || str_eqb n name_bzr then pvcs_canon s else true.

Theorem vcs_canonical (n s : str) (v : vcs) :
  vcs_canon n s = true -> vcs_from_field n s = Ok v -> vcs_to_field v = (n, s).
Proof.
  unfold vcs_canon, vcs_from_field. intros Hc Hp.
  destruct (str_eqb n name_git) eqn:Eg.
  { apply str_eqb_eq in Eg. subst n. cbn [orb] in Hc.
    destruct (parsed_vcs_from_str s) as [pvv| | |] eqn:P; try discriminate Hp. cbn [bind] in Hp.
    inversion Hp; subst v. cbn [vcs_to_field]. f_equal.
    rewrite <- (pvcs_canonical s pvv Hc P). destruct pvv; reflexivity. }
  destruct (str_eqb n name_bzr) eqn:Eb.
  { apply str_eqb_eq in Eb. subst n. cbn [orb] in Hc.
    destruct (parsed_vcs_from_str s) as [pvv| | |] eqn:P; try discriminate Hp. cbn [bind] in Hp.
    destruct pvv as [u b p]. cbn [branch repo_url subpath] in Hp. destruct b; [discriminate Hp|].
    inversion Hp; subst v. cbn [vcs_to_field]. f_equal.
    rewrite <- (pvcs_canonical s _ Hc P). unfold parsed_vcs_to_string. cbn [repo_url branch subpath].
    destruct p; cbn [app]; rewrite ?app_nil_r; reflexivity. }
  destruct (str_eqb n name_hg) eqn:Eh.
  { apply str_eqb_eq in Eh. subst n. inversion Hp; subst v. reflexivity. }
  destruct (str_eqb n name_svn) eqn:Es.
  { apply str_eqb_eq in Es. subst n. inversion Hp; subst v. reflexivity. }
  destruct (str_eqb n name_cvs) eqn:Ec; [|discriminate Hp].
  apply str_eqb_eq in Ec. subst n.
  destruct (split_once 32 s) as [[r m]|] eqn:S; inversion Hp; subst v; cbn [vcs_to_field]; f_equal.
  apply split_once_some in S. destruct S as [-> _]. reflexivity.
Qed.

Lemma vcs_guard_cvs_needed :
  exists v, vcs_valid v = false /\ vcs_from_field (fst (vcs_to_field v)) (snd (vcs_to_field v)) <> Ok v.
Proof. exists (Cvs [114; 32; 111] None). split; [reflexivity|]. vm_compute. discriminate. Qed.

Lemma vcs_guard_bzr_needed :      (* a Bzr URL containing " -b " reads as an error *)
  exists v, vcs_valid v = false /\ vcs_from_field (fst (vcs_to_field v)) (snd (vcs_to_field v)) = Err 2.
Proof. exists (Bzr [117; 32; 45; 98; 32; 120] None). split; reflexivity. Qed.
