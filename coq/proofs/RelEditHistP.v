(* Lemmas about RelEdit.v (C11), part 3: every abstract operation, issued to the register
   machine through handles obtained from the current root, takes a constructor-built field to
   the constructor-built field of the list model; histories by induction. *)
From V.model Require Import Base RelLex RelParse RelEdit RelEditSpec RelEditTree.
From V.proofs Require Import BaseP RelEditP RelEditStP.

Lemma run_ops_cons v o rest st x st1 st' :
  runs (run_op v o) st x st1 -> run_ops v rest st1 = Ok st' -> run_ops v (o :: rest) st = Ok st'.
Proof. unfold runs. intros H1 H2. cbn [run_ops]. now rewrite H1. Qed.
Lemma run_ops_app v a b st st1 st' :
  run_ops v a st = Ok st1 -> run_ops v b st1 = Ok st' -> run_ops v (a ++ b) st = Ok st'.
Proof.
  revert st; induction a as [|o r IH]; intros st H1 H2; cbn in *.
  - inversion H1; subst. exact H2.
  - destruct (run_op v o st) as [[x s]| | |]; try discriminate. now apply IH.
Qed.

(* ------------------------------------------------------------------ plainness is kept *)
Lemma forallb_firstn {A} (p : A -> bool) n l : forallb p l = true -> forallb p (firstn n l) = true.
Proof.
  revert n; induction l as [|x r IH]; intros [|n] H; cbn in *; auto.
  apply andb_prop in H. destruct H as [H1 H2]. now rewrite H1, IH.
Qed.
Lemma forallb_skipn {A} (p : A -> bool) n l : forallb p l = true -> forallb p (skipn n l) = true.
Proof.
  revert n; induction l as [|x r IH]; intros [|n] H; cbn in *; auto.
  apply andb_prop in H. destruct H as [H1 H2]. now apply IH.
Qed.
Lemma forallb_l_insert {A} (p : A -> bool) i x l : forallb p l = true -> p x = true -> forallb p (l_insert i x l) = true.
Proof.
  intros H Hx. unfold l_insert. rewrite forallb_app. cbn [forallb].
  now rewrite forallb_firstn, Hx, forallb_skipn.
Qed.
Lemma forallb_l_replace {A} (p : A -> bool) i x l : forallb p l = true -> p x = true -> forallb p (l_replace i x l) = true.
Proof.
  intros H Hx. unfold l_replace. rewrite forallb_app. cbn [forallb].
  now rewrite forallb_firstn, Hx, forallb_skipn.
Qed.
Lemma forallb_l_remove {A} (p : A -> bool) i l : forallb p l = true -> forallb p (l_remove i l) = true.
Proof. intros H. unfold l_remove. rewrite forallb_app. now rewrite forallb_firstn, forallb_skipn. Qed.
Lemma forallb_upd_nth {A} (p : A -> bool) i g l :
  forallb p l = true -> (forall x, p x = true -> p (g x) = true) -> forallb p (upd_nth i g l) = true.
Proof.
  revert i; induction l as [|x r IH]; intros [|i] H Hg; cbn in *; auto;
    apply andb_prop in H; destruct H as [H1 H2].
  - now rewrite Hg, H2.
  - now rewrite H1, IH.
Qed.
Lemma new_only_plain e : forallb new_only e = true -> plain_entry e = true.
Proof.
  unfold plain_entry. induction e as [|r e IH]; cbn; [reflexivity|]. intros H.
  apply andb_prop in H. destruct H as [H1 H2]. rewrite IH by exact H2.
  unfold new_only in H1. apply andb_prop in H1. now rewrite (proj1 H1).
Qed.

(* ------------------------------------------------------------------ operations on one alternative *)
Lemma rel_in_range_split (f : lfield) i j : rel_in_range f i j = true ->
  exists fa ra r0 rb fb, f = fa ++ (ra ++ r0 :: rb) :: fb /\ length fa = i /\ length ra = j.
Proof.
  unfold rel_in_range. destruct (nth_error f i) as [e|] eqn:E; [|discriminate]. intros H.
  apply Nat.ltb_lt in H. destruct (nth_error_split_eq _ _ _ E) as [Ef Li].
  destruct (list_split_at e j H) as (ra & r0 & rb & -> & Lj).
  exists (firstn i f), ra, r0, rb, (skipn (S i) f). now split.
Qed.

Lemma plain_field_split fa e fb : plain_field (fa ++ e :: fb) = true ->
  plain_field fa = true /\ plain_entry e = true /\ plain_field fb = true.
Proof.
  unfold plain_field. rewrite forallb_app. cbn [forallb]. intros H.
  apply andb_prop in H. destruct H as [H1 H2]. apply andb_prop in H2. tauto.
Qed.
Lemma plain_entry_split ra r rb : plain_entry (ra ++ r :: rb) = true ->
  plain_entry ra = true /\ plain r = true /\ plain_entry rb = true.
Proof.
  unfold plain_entry. rewrite forallb_app. cbn [forallb]. intros H.
  apply andb_prop in H. destruct H as [H1 H2]. apply andb_prop in H2. tauto.
Qed.
Lemma plain_field_join fa e fb : plain_field fa = true -> plain_entry e = true -> plain_field fb = true ->
  plain_field (fa ++ e :: fb) = true.
Proof. unfold plain_field. intros H1 H2 H3. rewrite forallb_app. cbn [forallb]. now rewrite H1, H2, H3. Qed.
Lemma plain_entry_join ra r rb : plain_entry ra = true -> plain r = true -> plain_entry rb = true ->
  plain_entry (ra ++ r :: rb) = true.
Proof. unfold plain_entry. intros H1 H2 H3. rewrite forallb_app. cbn [forallb]. now rewrite H1, H2, H3. Qed.

Lemma rel_op_step (m : nat -> M unit) X (g : relrec -> relrec) f i j st :
  wraps X m ->
  (forall r0, plain r0 = true -> node_op m (crel_tree r0) (crel_tree (g r0))) ->
  (forall r0, plain r0 = true -> plain (g r0) = true) ->
  plain_field f = true -> rel_in_range f i j = true -> holds st (cfield_tree f) ->
  exists st', run_ops fixed [OGetEntry 0 i; OGetRel 0 0 j; X] st = Ok st' /\
              holds st' (cfield_tree (l_on_relation i j g f)) /\
              plain_field (l_on_relation i j g f) = true.
Proof.
  intros HX Hop Hg Hp Hr (ts & tid & ri & a & b & c & d & -> & HT).
  destruct (rel_in_range_split f i j Hr) as (fa & ra & r0 & rb & fb & -> & <- & <-).
  destruct (plain_field_split _ _ _ Hp) as (Pa & Pe & Pb).
  destruct (plain_entry_split _ _ _ Pe) as (Pra & Pr0 & Prb).
  destruct (rel_node_op_runs m (g r0) fa ra r0 rb fb ts tid ri c d (Hop r0 Pr0) HT)
    as (ts' & a' & c' & d' & R3 & T3).
  rewrite l_on_relation_split. set (r0' := g r0) in *.
  eexists. split; [|split].
  - eapply run_ops_cons; [apply (get_entry_runs fa (ra ++ r0 :: rb) fb ts tid ri a b c d HT)|].
    eapply run_ops_cons; [apply (get_rel_runs fa ra r0 rb fb ts tid ri b c d HT)|].
    destruct (HX _ _ _ _ _ _ _ _ _ _ _ _ _ R3 T3 (get_path_cfield_rel fa ra r0' rb fb)) as (x & RX).
    eapply run_ops_cons; [exact RX|reflexivity].
  - do 7 eexists. split; [reflexivity|exact T3].
  - apply plain_field_join; auto. apply plain_entry_join; auto. unfold r0'. auto.
Qed.

(* ------------------------------------------------------------------ one operation *)
Notation covered := aop_plain.

Lemma count_entries_cfield f : count_if is_entry (children (cfield_tree f)) = length f.
Proof.
  unfold cfield_tree, relations_from_entries. cbn [children].
  rewrite count_entries_join by apply Forall_entryish_map. apply map_length.
Qed.

#[local] Hint Resolve set_archqual_node_op : core.
Lemma op_step f o st : plain_field f = true -> covered o = true -> aop_in_range f o = true ->
  holds st (cfield_tree f) ->
  exists st', run_ops fixed (compile o) st = Ok st' /\ holds st' (cfield_tree (astep f o)) /\
              plain_field (astep f o) = true.
Proof.
  intros Hp Hc Hr (ts & tid & ri & a & b & c & d & -> & HT).
  destruct o; cbn [aop_plain] in Hc; try discriminate.
  - (* push *)
    destruct (new_entry_runs e ts tid ri _ a b c d Hc HT) as (ts1 & te & txt & R1 & T1 & E1 & Ne).
    assert (ER : exists cs, cfield_tree f = Node ROOT cs) by (eexists; reflexivity). destruct ER as (cs & ER). rewrite ER in T1.
    destruct (push_runs ts1 tid ri ROOT cs a b d te [] _ (centry_tree e) T1 E1 eq_refl) as (ts2 & a2 & b2 & d2 & R2 & T2).
    eexists. split; [|split].
    + cbn [compile]. eapply run_ops_cons; [exact R1|]. eapply run_ops_cons; [exact R2|reflexivity].
    + do 7 eexists. split; [reflexivity|]. rewrite T2. f_equal. f_equal.
      replace (count_if is_entry cs) with (length f) by (rewrite <- count_entries_cfield, ER; reflexivity).
      rewrite <- ER, relations_insert_green_canon.
      cbn [astep]. unfold l_insert. now rewrite firstn_all, skipn_all.
    + cbn [astep]. unfold plain_field. rewrite forallb_app. cbn [forallb].
      unfold plain_field in Hp. now rewrite Hp, new_only_plain.
  - (* insert *)
    destruct (new_entry_runs e ts tid ri _ a b c d Hc HT) as (ts1 & te & txt & R1 & T1 & E1 & Ne).
    assert (ER : exists cs, cfield_tree f = Node ROOT cs) by (eexists; reflexivity). destruct ER as (cs & ER). rewrite ER in T1.
    destruct (insert_runs i ts1 tid ri ROOT cs a b d te [] _ (centry_tree e) T1 E1 eq_refl) as (ts2 & a2 & b2 & d2 & R2 & T2).
    eexists. split; [|split].
    + cbn [compile]. eapply run_ops_cons; [exact R1|]. eapply run_ops_cons; [exact R2|reflexivity].
    + do 7 eexists. split; [reflexivity|]. rewrite T2, <- ER. now rewrite relations_insert_green_canon.
    + cbn [astep]. apply forallb_l_insert; [exact Hp|now apply new_only_plain].
  - (* replace *)
    cbn [aop_in_range] in Hr. apply Nat.ltb_lt in Hr.
    destruct (list_split_at f i Hr) as (fa & e0 & fb & -> & <-).
    destruct (new_entry_runs e ts tid ri _ a b c d Hc HT) as (ts1 & te & txt & R1 & T1 & E1 & Ne).
    destruct (replace_runs fa e0 fb e ts1 tid ri a b d te 0 T1 E1 ltac:(congruence))
      as (ts2 & tid2 & ri2 & a2 & b2 & d2 & R2 & T2).
    eexists. split; [|split].
    + cbn [compile]. eapply run_ops_cons; [exact R1|]. eapply run_ops_cons; [exact R2|reflexivity].
    + do 7 eexists. split; [reflexivity|]. exact T2.
    + cbn [astep]. apply forallb_l_replace; [exact Hp|now apply new_only_plain].
  - (* remove_entry *)
    cbn [aop_in_range] in Hr. apply Nat.ltb_lt in Hr.
    destruct (list_split_at f i Hr) as (fa & e0 & fb & -> & <-).
    destruct (remove_entry_runs fa e0 fb ts tid ri a b c d HT) as (ts2 & a2 & b2 & c2 & d2 & txt & R2 & T2).
    eexists. split; [|split].
    + cbn [compile]. eapply run_ops_cons; [exact R2|reflexivity].
    + do 7 eexists. split; [reflexivity|]. exact T2.
    + cbn [astep]. now apply forallb_l_remove.
  - (* Entry::push *)
    cbn [aop_in_range] in Hr. apply Nat.ltb_lt in Hr.
    destruct (list_split_at f i Hr) as (fa & e0 & fb & -> & <-).
    destruct (new_rel_runs r ts tid ri _ a b c d Hc HT) as (txt & R1 & Ne).
    pose proof (get_entry_runs fa e0 fb (ts ++ [mk_slot true 0 (crel_tree r)]) tid ri a b c
                  (Some (mk_hnd (length ts) [])) (nth_error_app_l _ _ _ _ HT)) as R2.
    destruct (epush_runs fa e0 fb r (ts ++ [mk_slot true 0 (crel_tree r)]) tid ri b c (length ts) 0
                (nth_error_app_l _ _ _ _ HT) (nth_error_app_at _ _)) as (ts3 & a3 & b3 & c3 & x & R3 & T3).
    destruct (plain_field_split _ _ _ Hp) as (Pa & Pe & Pb).
    eexists. split; [|split].
    + cbn [compile]. eapply run_ops_cons; [exact R1|]. eapply run_ops_cons; [exact R2|].
      eapply run_ops_cons; [exact R3|reflexivity].
    + do 7 eexists. split; [reflexivity|]. cbn [astep]. rewrite upd_nth_app_r. exact T3.
    + cbn [astep]. rewrite upd_nth_app_r. apply plain_field_join; auto.
      unfold plain_entry in *. rewrite forallb_app. cbn [forallb]. rewrite Pe.
      unfold new_only in Hc. apply andb_prop in Hc. now rewrite (proj1 Hc).
  - (* Entry::replace *)
    cbn [aop_in_range] in Hr.
    destruct (rel_in_range_split f i j Hr) as (fa & ra & r0 & rb & fb & -> & <- & <-).
    destruct (new_rel_runs r ts tid ri _ a b c d Hc HT) as (txt & R1 & Ne).
    pose proof (get_entry_runs fa (ra ++ r0 :: rb) fb (ts ++ [mk_slot true 0 (crel_tree r)]) tid ri a b c
                  (Some (mk_hnd (length ts) [])) (nth_error_app_l _ _ _ _ HT)) as R2.
    destruct (ereplace_runs fa ra r0 rb fb r (ts ++ [mk_slot true 0 (crel_tree r)]) tid ri b c (length ts) 0
                (nth_error_app_l _ _ _ _ HT) (nth_error_app_at _ _) ltac:(congruence))
      as (ts3 & a3 & b3 & c3 & x & R3 & T3).
    destruct (plain_field_split _ _ _ Hp) as (Pa & Pe & Pb).
    destruct (plain_entry_split _ _ _ Pe) as (Pra & Pr0 & Prb).
    eexists. split; [|split].
    + cbn [compile]. eapply run_ops_cons; [exact R1|]. eapply run_ops_cons; [exact R2|].
      eapply run_ops_cons; [exact R3|reflexivity].
    + do 7 eexists. split; [reflexivity|]. cbn [astep]. rewrite upd_nth_app_r, l_replace_app_len. exact T3.
    + cbn [astep]. rewrite upd_nth_app_r, l_replace_app_len. apply plain_field_join; auto.
      apply plain_entry_join; auto. unfold new_only in Hc. apply andb_prop in Hc. tauto.
  - (* remove_relation *)
    cbn [aop_in_range] in Hr. cbn [compile astep].
    destruct (rel_in_range_split f i j Hr) as (fa & ra & r0 & rb & fb & -> & <- & <-).
    destruct (plain_field_split _ _ _ Hp) as (Pa & Pe & Pb).
    destruct (plain_entry_split _ _ _ Pe) as (Pra & Pr0 & Prb).
    destruct (remove_relation_runs fa ra r0 rb fb ts tid ri b c d HT) as (ts2 & a2 & b2 & c2 & d2 & x & R2 & T2).
    eexists. split; [|split].
    + eapply run_ops_cons; [apply (get_entry_runs fa (ra ++ r0 :: rb) fb ts tid ri a b c d HT)|].
      eapply run_ops_cons; [exact R2|reflexivity].
    + do 7 eexists. split; [reflexivity|exact T2].
    + rewrite l_remove_relation_split. destruct (ra ++ rb) as [|y e'] eqn:E.
      * unfold plain_field in *. rewrite forallb_app. now rewrite Pa, Pb.
      * apply plain_field_join; auto. rewrite <- E. unfold plain_entry in *. rewrite forallb_app. now rewrite Pra, Prb.
  - (* set_version *)
    cbn [aop_in_range] in Hr. cbn [compile astep].
    apply (rel_op_step (fun r => relation_set_version fixed r v) (OSetVersion 0 v) (rr_set_version v) f i j _
             (wraps_through (OSetVersion 0 v) (fun r => relation_set_version fixed r v) eq_refl)); auto.
    all: try (now exists ts, tid, ri, a, b, c, d).
    all: try (intros r0 H0; destruct (plain_inv _ H0) as (n & q0 & v0 & ->); unfold plain in *; cbn in *; now auto).
    intros r0 H0. destruct v as [[vc ver]|]; [now apply set_version_some_node_op|now apply set_version_none_node_op].
  - (* drop_constraint *)
    cbn [aop_in_range] in Hr. cbn [compile astep].
    apply (rel_op_step (fun r => relation_set_version fixed r None) (ODropConstraint 0) (rr_set_version None) f i j _
             wraps_drop_constraint); auto.
    all: try (now exists ts, tid, ri, a, b, c, d).
    all: try (intros r0 H0; destruct (plain_inv _ H0) as (n & q0 & v0 & ->); unfold plain in *; cbn in *; now auto).
    intros r0 H0. now apply set_version_none_node_op.
  - (* set_archqual *)
    cbn [aop_in_range] in Hr. cbn [compile astep].
    apply (rel_op_step (fun r => relation_set_archqual r q) (OSetArchqual 0 q) (rr_set_qual q) f i j _
             (wraps_through (OSetArchqual 0 q) (fun r => relation_set_archqual r q) eq_refl)); auto.
    all: try (now exists ts, tid, ri, a, b, c, d).
    all: try (intros r0 H0; destruct (plain_inv _ H0) as (n & q0 & v & ->); unfold plain in *; cbn in *; now auto).
Qed.

(* ------------------------------------------------------------------ histories *)
Lemma history_holds ops : forall f st, plain_field f = true -> forallb covered ops = true ->
  hist_in_range f ops = true -> holds st (cfield_tree f) ->
  exists st', run_ops fixed (compile_all ops) st = Ok st' /\
              holds st' (cfield_tree (fold_left astep ops f)) /\
              plain_field (fold_left astep ops f) = true.
Proof.
  induction ops as [|o ops IH]; intros f st Hp Hc Hr Hh.
  - exists st. cbn. auto.
  - cbn [forallb] in Hc. apply andb_prop in Hc. destruct Hc as [Hc1 Hc2].
    cbn [hist_in_range] in Hr. apply andb_prop in Hr. destruct Hr as [Hr1 Hr2].
    destruct (op_step f o st Hp Hc1 Hr1 Hh) as (st1 & R1 & H1 & P1).
    destruct (IH _ st1 P1 Hc2 Hr2 H1) as (st' & R2 & H2 & P2).
    exists st'. split; [|split; assumption].
    unfold compile_all. cbn [flat_map]. eapply run_ops_app; [exact R1|exact R2].
Qed.

Lemma holds_root_tree st T : holds st T -> root_tree st = Ok T /\ root_text st = Ok (text T).
Proof.
  intros (ts & tid & ri & a & b & c & d & -> & HT). unfold root_tree, root_text, st5.
  assert (R : runs (node_of_reg 0) (mk_state ts [Some (mk_hnd tid []); a; b; c; d]) T
                   (mk_state ts [Some (mk_hnd tid []); a; b; c; d])).
  { unfold node_of_reg. rbind; [apply runs_get_reg; reflexivity|]. eapply runs_node_of; [exact HT|reflexivity]. }
  unfold runs in R. now rewrite R.
Qed.

(* the constructor-level theorem: every in-range history of the eight operations, from any
   constructor-built field, through handles obtained from the current root *)
Theorem history_constructed ops f st :
  plain_field f = true -> forallb aop_plain ops = true -> hist_in_range f ops = true ->
  state_with_root st (cfield_tree f) ->
  let f' := fold_left astep ops f in
  exists st', run_ops fixed (compile_all ops) st = Ok st' /\
              state_with_root st' (cfield_tree f') /\
              root_tree st' = Ok (cfield_tree f') /\
              structure (cfield_tree f') = Ok f' /\
              root_text st' = Ok (render_field f').
Proof.
  intros Hp Hc Hr Hs f'. apply holds_state_with_root in Hs.
  destruct (history_holds ops f st Hp Hc Hr Hs) as (st' & R & H & P).
  exists st'. destruct (holds_root_tree _ _ H) as [RT RX].
  repeat split; auto.
  - now apply holds_state_with_root.
  - now apply structure_cfield.
  - rewrite RX. now rewrite text_cfield.
Qed.

(* the same from the states the constructors produce *)
Theorem history_from_constructors ops f :
  forallb (forallb new_only) f = true -> forallb aop_plain ops = true -> hist_in_range f ops = true ->
  let f' := fold_left astep ops f in
  exists st0 st', init_state fixed (IFromVec (map entry_spec f)) = Ok st0 /\
                  root_tree st0 = Ok (cfield_tree f) /\
                  run_ops fixed (compile_all ops) st0 = Ok st' /\
                  root_tree st' = Ok (cfield_tree f') /\
                  structure (cfield_tree f') = Ok f' /\
                  root_text st' = Ok (render_field f').
Proof.
  intros Hn Hc Hr f'. destruct (init_from_vec f Hn) as (st0 & I0 & H0).
  assert (Hp : plain_field f = true).
  { unfold plain_field. clear -Hn. induction f as [|e f IH]; [reflexivity|]. cbn in *.
    apply andb_prop in Hn. destruct Hn as [H1 H2]. now rewrite new_only_plain, IH. }
  destruct (history_constructed ops f st0 Hp Hc Hr (proj1 (holds_state_with_root _ _) H0))
    as (st' & R & _ & RT & S & RX).
  exists st0, st'. repeat split; auto. now destruct (holds_root_tree _ _ H0).
Qed.

(* the same from Relations::new() *)
Theorem history_from_new ops :
  forallb aop_plain ops = true -> hist_in_range [] ops = true ->
  let f' := fold_left astep ops [] in
  exists st0 st', init_state fixed INew = Ok st0 /\
                  run_ops fixed (compile_all ops) st0 = Ok st' /\
                  root_tree st' = Ok (cfield_tree f') /\
                  structure (cfield_tree f') = Ok f' /\
                  root_text st' = Ok (render_field f').
Proof.
  intros Hc Hr f'. destruct init_new as (st0 & I0 & H0).
  destruct (history_constructed ops [] st0 eq_refl Hc Hr (proj1 (holds_state_with_root _ _) H0))
    as (st' & R & _ & RT & S & RX).
  exists st0, st'. repeat split; auto.
Qed.
