(* Lemmas about Base.v *)
From V.model Require Import Base.

Lemma span_app {A} (p : A -> bool) (s a b : list A) : span p s = (a, b) -> a ++ b = s.
Proof.
  revert a b; induction s as [|c r IH]; intros a b H; cbn [span] in H.
  - inversion H; reflexivity.
  - destruct (p c).
    + destruct (span p r) as [a' b'] eqn:E. inversion H; subst. cbn. f_equal. apply IH. reflexivity.
    + inversion H; subst. reflexivity.
Qed.

Lemma span_length {A} (p : A -> bool) (s a b : list A) : span p s = (a, b) -> length b <= length s.
Proof.
  intros H. apply span_app in H. subst s. rewrite app_length. lia.
Qed.

Lemma span_all {A} (p : A -> bool) (s a b : list A) : span p s = (a, b) -> forallb p a = true.
Proof.
  revert a b; induction s as [|c r IH]; intros a b H; cbn [span] in H.
  - inversion H; reflexivity.
  - destruct (p c) eqn:Pc.
    + destruct (span p r) as [a' b'] eqn:E. inversion H; subst. cbn. rewrite Pc. cbn. eapply IH. reflexivity.
    + inversion H; subst. reflexivity.
Qed.

Lemma span_stop {A} (p : A -> bool) (s a b : list A) :
  span p s = (a, b) -> match b with [] => True | c :: _ => p c = false end.
Proof.
  revert a b; induction s as [|c r IH]; intros a b H; cbn [span] in H.
  - inversion H; exact I.
  - destruct (p c) eqn:Pc.
    + destruct (span p r) as [a' b'] eqn:E. inversion H; subst. eapply IH. reflexivity.
    + inversion H; subst. exact Pc.
Qed.

Lemma text_node {K} (k : K) (cs : list (elem K)) : text (Node k cs) = texts cs.
Proof.
  unfold texts. cbn [text]. induction cs as [|x r IH]; cbn; [reflexivity|]. now rewrite IH.
Qed.

Lemma texts_app {K} (a b : list (elem K)) : texts (a ++ b) = texts a ++ texts b.
Proof. unfold texts. apply flat_map_app. Qed.

Lemma texts_cons {K} (x : elem K) (l : list (elem K)) : texts (x :: l) = text x ++ texts l.
Proof. reflexivity. Qed.

Lemma texts_nil {K} : @texts K [] = [].
Proof. reflexivity. Qed.

Lemma text_tok {K} (k : K) s : text (Tok k s) = s.
Proof. reflexivity. Qed.

(* induction principle for the nested tree type *)
Section ElemInd.
  Context {K : Type} (P : elem K -> Prop).
  Context (Htok : forall k s, P (Tok k s)).
  Context (Hnode : forall k cs, Forall P cs -> P (Node k cs)).
  Fixpoint elem_ind2 (e : elem K) : P e :=
    match e with
    | Tok k s => Htok k s
    | Node k cs => Hnode k cs ((fix go (l : list (elem K)) : Forall P l :=
                                  match l with
                                  | [] => Forall_nil P
                                  | x :: r => Forall_cons x (elem_ind2 x) (go r)
                                  end) cs)
    end.
End ElemInd.
