(* The LOSSY relations reader (model of the cone of C14, coq/model/RelLossy.v, with its model of
   debversion) on rendered well-formed relationship fields of the lossy clause's domain:
     relations_from_str dv_parse (rrender f) = Ok (the lossy value of rcontent f)
   for every placement of whitespace.  The lossy reader works on the STRING: split(','), trim,
   split('|'), trim, and a fresh lexer run per relation; then a hand-written token reader. *)
From Coq Require Import DecimalN DecimalFacts.
From V.model Require Import Base RelLex RelParse RelAcc RelGrammar.
From V.model Require RelLossy.
From V.proofs Require Import BaseP RelLexP RelGrammarLexP RelGrammarParseP RelGrammarAccP.
From V.proofs Require RelLossyP.

Module L := RelLossy.

(* ================= the two models of u32 parsing / printing agree ================= *)
Definition dstep (a c : N) : N := (a * 10 + (c - 48))%N.

Lemma dec_value_fold l : L.dec_value l = fold_left dstep l 0%N.
Proof. reflexivity. Qed.

Lemma of_uint_acc_fold l : forall acc, forallb is_digit l = true ->
  Npos (Pos.of_uint_acc (uint_of_digits l) acc) = fold_left dstep l (Npos acc).
Proof.
  induction l as [|c r IH]; intros acc H; [reflexivity|].
  cbn [forallb] in H. apply andb_true_iff in H. destruct H as [Hc Hr]. cbn [uint_of_digits fold_left].
  destruct (digit_cases c Hc) as [->|[->|[->|[->|[->|[->|[->|[->|[->| ->]]]]]]]]];
    cbn [N.sub Pos.sub Pos.sub_mask Pos.pred_double Pos.succ_double_mask Pos.double_mask Pos.double_pred_mask Pos.of_uint_acc];
    rewrite (IH _ Hr); f_equal; unfold dstep; lia.
Qed.

Lemma of_uint_fold l : forallb is_digit l = true -> N.of_uint (uint_of_digits l) = L.dec_value l.
Proof.
  rewrite dec_value_fold. induction l as [|c r IH]; intros H; [reflexivity|].
  cbn [forallb] in H. apply andb_true_iff in H. destruct H as [Hc Hr]. cbn [uint_of_digits fold_left].
  unfold N.of_uint in *.
  destruct (digit_cases c Hc) as [->|[->|[->|[->|[->|[->|[->|[->|[->| ->]]]]]]]]];
    cbn [N.sub Pos.sub Pos.sub_mask Pos.pred_double Pos.succ_double_mask Pos.double_mask Pos.double_pred_mask Pos.of_uint];
    [exact (IH Hr)|..]; rewrite (of_uint_acc_fold r _ Hr); reflexivity.
Qed.

(* printing the value of a digit string without leading zero gives the string back *)
Lemma dec_go_canonical p : forallb is_digit p = true ->
  match p with c :: _ => (c =? 48)%N = false | [] => False end ->
  (1 <= L.dec_value p)%N /\
  forall fuel acc, (L.dec_value p < 2 ^ N.of_nat fuel)%N -> L.dec_digits_go fuel (L.dec_value p) acc = p ++ acc.
Proof.
  induction p as [|c q IH] using rev_ind; intros Hd Hh; [contradiction|].
  rewrite forallb_app in Hd. apply andb_true_iff in Hd. destruct Hd as [Hq Hc]. cbn [forallb] in Hc. rewrite andb_true_r in Hc.
  rewrite !dec_value_fold, fold_left_app. cbn [fold_left]. rewrite <- dec_value_fold. unfold dstep.
  assert (Hc9 : (48 <= c <= 57)%N) by (unfold is_digit in Hc; lia).
  destruct q as [|q0 q'].
  - cbn [app] in Hh. apply N.eqb_neq in Hh. change (L.dec_value []) with 0%N.
    split.
    lia.
    intros fuel acc Hf. destruct fuel as [|f]; [change (N.of_nat 0) with 0%N in Hf; rewrite N.pow_0_r in Hf; lia|]. cbn [L.dec_digits_go].
    replace ((0 * 10 + (c - 48)) mod 10)%N with (c - 48)%N by (rewrite N.mod_small; lia).
    replace (0 * 10 + (c - 48) <? 10)%N with true by (symmetry; apply N.ltb_lt; lia).
    cbn [app]. replace (48 + (c - 48))%N with c by lia. reflexivity.
  - destruct (IH Hq Hh) as [H1 Hgo]. set (Q := L.dec_value (q0 :: q')) in *. split; [lia|].
    intros fuel acc Hf. destruct fuel as [|f]; [change (N.of_nat 0) with 0%N in Hf; rewrite N.pow_0_r in Hf; lia|]. cbn [L.dec_digits_go].
    assert (Em : ((Q * 10 + (c - 48)) mod 10 = c - 48)%N).
    { rewrite N.add_comm, N.mod_add by lia. apply N.mod_small. lia. }
    assert (Ed : ((Q * 10 + (c - 48)) / 10 = Q)%N).
    { rewrite N.add_comm, N.div_add by lia. rewrite N.div_small by lia. reflexivity. }
    rewrite Em, Ed. replace (Q * 10 + (c - 48) <? 10)%N with false by (symmetry; apply N.ltb_ge; lia).
    rewrite Hgo.
    + replace (48 + (c - 48))%N with c by lia. rewrite <- app_assoc. reflexivity.
    + rewrite Nat2N.inj_succ, N.pow_succ_r' in Hf. lia.
Qed.

Lemma dec_digits_canonical e : epoch_ok e = true -> L.dec_digits (L.dec_value e) = e.
Proof.
  unfold epoch_ok. intros H. andb_split H.
  destruct e as [|c r]; [discriminate|].
  destruct (N.eqb_spec c 48) as [->|Hc].
  - destruct r as [|c' r']; [reflexivity|]. discriminate.
  - assert (Hh : match c :: r with c0 :: _ => (c0 =? 48)%N = false | [] => False end) by (apply N.eqb_neq; exact Hc).
    destruct (dec_go_canonical (c :: r) W1 Hh) as [H1 Hgo].
    unfold L.dec_digits. rewrite Hgo; [apply app_nil_r|].
    rewrite Nat2N.inj_succ, N2Nat.id. apply N.log2_spec. lia.
Qed.

(* ================= debversion (C14's model) on the versions of the grammar ================= *)
Lemma upstream_is_version_char c : L.is_upstream_char c = is_version_char c.
Proof. reflexivity. Qed.

Lemma dv_plain s : ident_ok s = true ->
  exists d, L.dv_parse s = Some d /\ L.dv_print d = s.
Proof.
  intros H. destruct (ident_ok_inv s H) as (c & w & -> & Hc & Hw).
  assert (Hall : forallb is_ident_char (c :: w) = true) by (cbn [forallb]; rewrite Hc, Hw; reflexivity).
  unfold L.dv_parse.
  replace (forallb L.is_upstream_char (c :: w)) with true by (symmetry; apply (ident_all_version _ Hall)).
  cbn [negb].
  destruct (span L.is_digit (c :: w)) as [ds rest] eqn:Es. pose proof (span_app _ _ _ _ Es) as Hd.
  destruct (L.split_revision (c :: w)) as [u r] eqn:Esp.
  assert (Hp : L.dv_print (L.mkDv None u r) = c :: w).
  { rewrite RelLossyP.dv_print_plain. apply RelLossyP.split_revision_join. exact Esp. }
  destruct ds as [|d0 ds']; [eexists; split; [reflexivity|exact Hp]|].
  destruct rest as [|x body]; [eexists; split; [reflexivity|exact Hp]|].
  assert (Hx : is_ident_char x = true).
  { rewrite <- Hd in Hall. rewrite forallb_app in Hall. apply andb_true_iff in Hall. destruct Hall as [_ Hr].
    cbn [forallb] in Hr. apply andb_true_iff in Hr. apply Hr. }
  rewrite (ident_not_colon x Hx). eexists; split; [reflexivity|exact Hp].
Qed.

Lemma dv_epoch e c w : epoch_ok e = true -> forallb is_version_char (c :: w) = true ->
  exists d, L.dv_parse (e ++ 58%N :: c :: w) = Some d /\ L.dv_print d = e ++ 58%N :: c :: w.
Proof.
  intros He Hs. pose proof (epoch_ident e He) as Hei. pose proof (dec_digits_canonical e He) as Hcan.
  unfold epoch_ok in He. andb_split He.
  destruct (ident_ok_inv e Hei) as (e0 & e' & Ee & He0 & He'). subst e.
  assert (Hall : forallb L.is_upstream_char ((e0 :: e') ++ 58%N :: c :: w) = true).
  { rewrite forallb_app. apply andb_true_iff. split.
    - apply (ident_all_version (e0 :: e')). cbn [forallb]. rewrite He0, He'. reflexivity.
    - change (forallb L.is_upstream_char (58%N :: c :: w)) with (is_version_char 58 && forallb is_version_char (c :: w)).
      rewrite Hs. reflexivity. }
  unfold L.dv_parse. rewrite Hall. cbn [negb].
  rewrite (span_app_stop L.is_digit (e0 :: e') (58%N :: c :: w) W1 eq_refl).
  cbn [N.eqb Pos.eqb].
  unfold L.parse_u32. rewrite <- (of_uint_fold (e0 :: e') W1).
  change 4294967295%N with u32_max. rewrite W.
  destruct (L.split_revision (c :: w)) as [u r] eqn:Esp.
  eexists. split; [reflexivity|].
  rewrite RelLossyP.dv_print_epoch, (of_uint_fold (e0 :: e') W1), Hcan.
  rewrite (RelLossyP.split_revision_join _ _ _ Esp). reflexivity.
Qed.

Lemma dv_vtext v : vclause_ok v = true -> exists d, L.dv_parse (vtext v) = Some d /\ L.dv_print d = vtext v.
Proof.
  intros H. destruct (vclause_ok_inv v H) as (_ & _ & _ & _ & He & Hv & Hm & Hnone).
  unfold vtext. destruct (v_epoch v) as [e|]; cbn [opt_ok] in He.
  - destruct (ident_ok_inv _ Hv) as (c & w & E & Hc & Hw). rewrite E. rewrite <- app_assoc. cbn [app].
    apply dv_epoch; [exact He|].
    change (c :: w ++ flat_map (fun p => 58%N :: p) (v_more v)) with ((c :: w) ++ flat_map (fun p => 58%N :: p) (v_more v)).
    rewrite forallb_app, (pieces_version_chars _ Hm), andb_true_r. apply ident_all_version. cbn [forallb]. rewrite Hc, Hw. reflexivity.
  - rewrite (Hnone eq_refl). cbn [app flat_map]. rewrite app_nil_r. apply dv_plain, Hv.
Qed.

(* ================= the lossy value of a relation ================= *)
Definition vc_of_vop (o : vop) : L.vconstraint :=
  match o with VGe => L.VC_ge | VLe => L.VC_le | VEq => L.VC_eq | VGt => L.VC_gt | VLt => L.VC_lt end.
Definition lossy_profile (t : term) : L.bprofile := if t_neg t then L.Disabled (t_name t) else L.Enabled (t_name t).
Definition lossy_arch (t : term) : str := arch_acc_text (term_arch t).
Definition lossy_version (v : vclause) : option (L.vconstraint * L.dversion) :=
  match L.dv_parse (vtext v) with Some d => Some (vc_of_vop (v_op v), d) | None => None end.
Definition lossy_rel (r : rel) : L.relation L.dversion :=
  L.mkRel (r_name r) (option_map q_name (r_qual r))
          (option_map (fun g => map lossy_arch (g_terms g)) (r_archs r))
          (match r_ver r with Some v => lossy_version v | None => None end)
          (map (fun g => map lossy_profile (g_terms g)) (r_profs r)).

(* ================= the token reader on the tokens of a relation ================= *)
(* (reader of /repo with proposed_fixes/C14-lossy-newlines.patch: NEWLINE is white space wherever
   WHITESPACE is, and white space is skipped after the ":" of a qualifier) *)
Definition wsks (l : list rtoken) : Prop := Forall (fun t => is_ws_kind (fst t) = true) l.

Lemma eat_all l X : wsks l -> L.eat_whitespace (l ++ X) = L.eat_whitespace X.
Proof.
  induction l as [|[k s] t IH]; intros H; [reflexivity|]. inversion H as [|? ? Hk Ht]; subst. cbn [fst] in Hk.
  cbn [app L.eat_whitespace]. destruct k; try discriminate; apply IH, Ht.
Qed.

Lemma eat_ws w X : L.eat_whitespace (ws_toks w ++ X) = L.eat_whitespace X.
Proof. apply eat_all, ws_toks_kinds. Qed.

Lemma eat_idem X : L.eat_whitespace (L.eat_whitespace X) = L.eat_whitespace X.
Proof.
  induction X as [|[k s] r IH]; [reflexivity|]. destruct k; try reflexivity; exact IH.
Qed.

Lemma eat_stop X : match hd_kind X with Some WHITESPACE | Some NEWLINE => False | _ => True end -> L.eat_whitespace X = X.
Proof. destruct X as [|[k s] r]; [reflexivity|]. destruct k; cbn; try reflexivity; contradiction. Qed.

(* ---- :qualifier ---- *)
Lemma read_archqual_some q X :
  L.read_archqual (L.eat_whitespace (qual_toks q ++ X)) = Ok (Some (q_name q), X).
Proof.
  unfold qual_toks. rewrite <- !app_assoc. rewrite eat_ws. cbn [app L.eat_whitespace L.read_archqual].
  rewrite <- app_assoc. rewrite eat_ws. reflexivity.
Qed.

Lemma read_archqual_none X : hd_kind X <> Some COLON -> L.read_archqual X = Ok (None, X).
Proof. destruct X as [|[k s] r]; [reflexivity|]. destruct k; try reflexivity. cbn. congruence. Qed.

(* ---- ( op version ) ---- *)
Lemma rttext_vtext_toks v : rttext (vtext_toks v) = vtext v.
Proof.
  assert (Hp : forall ps, rttext (flat_map (fun p => [(COLON, [58%N]); (IDENT, p)]) ps) = flat_map (fun p => 58%N :: p) ps).
  { induction ps as [|p r IH]; [reflexivity|]. cbn [flat_map app]. unfold rttext in *. cbn [map concat snd app]. rewrite IH. reflexivity. }
  unfold vtext_toks, vtext. destruct (v_epoch v) as [e|]; unfold rttext in *; cbn [app map concat snd]; rewrite Hp; [|reflexivity].
  rewrite <- app_assoc. reflexivity.
Qed.

Lemma read_version_string_run l : forall Y acc,
  Forall (fun t => fst t = IDENT \/ fst t = COLON) l ->
  match hd_kind Y with Some R_PARENS | Some WHITESPACE | Some NEWLINE => True | _ => False end ->
  L.read_version_string (l ++ Y) acc = Ok (acc ++ rttext l, Y).
Proof.
  induction l as [|[k s] t IH]; intros Y acc Hl HY.
  - cbn [app]. unfold rttext. cbn [map concat]. rewrite app_nil_r.
    destruct Y as [|[k s] r]; [contradiction|]. cbn [hd_kind] in HY. destruct k; try contradiction; reflexivity.
  - inversion Hl as [|? ? Hk Ht]; subst. cbn [fst] in Hk. cbn [app].
    destruct Hk as [-> | ->]; cbn [L.read_version_string]; rewrite (IH Y _ Ht HY); unfold rttext; cbn [map concat snd];
      rewrite <- app_assoc; reflexivity.
Qed.

Lemma hd_ws_toks_kind w x k : hd_kind (ws_toks w ++ x) = Some k -> (is_ws_kind k = true \/ hd_kind x = Some k).
Proof.
  pose proof (ws_toks_kinds w) as H. destruct (ws_toks w) as [|[k' s] t]; [right; assumption|].
  inversion H; subst. cbn. intros E. injection E as <-. left. assumption.
Qed.

Lemma read_constraint_stop Y acc :
  match hd_kind Y with Some EQUAL | Some L_ANGLE | Some R_ANGLE => False | _ => True end ->
  L.read_constraint Y acc = (acc, Y).
Proof. destruct Y as [|[k s] r]; [reflexivity|]. cbn [hd_kind]. destruct k; try contradiction; reflexivity. Qed.

Lemma read_constraint_vop o w s Y :
  L.read_constraint (vop_toks o ++ ws_toks w ++ (IDENT, s) :: Y) [] = (vop_text o, ws_toks w ++ (IDENT, s) :: Y).
Proof.
  assert (Hs : forall acc, L.read_constraint (ws_toks w ++ (IDENT, s) :: Y) acc = (acc, ws_toks w ++ (IDENT, s) :: Y)).
  { intros acc. apply read_constraint_stop.
    destruct (hd_kind (ws_toks w ++ (IDENT, s) :: Y)) as [k|] eqn:E; [|exact I].
    destruct (hd_ws_toks_kind _ _ _ E) as [H|H]; [destruct k; try discriminate; exact I|]. cbn in H. injection H as <-. exact I. }
  destruct o; cbn [vop_toks app L.read_constraint]; rewrite Hs; reflexivity.
Qed.

Lemma vc_of_vop_text o : L.vc_of_str (vop_text o) = Some (vc_of_vop o).
Proof. destruct o; reflexivity. Qed.

Lemma read_version_some v d X : L.dv_parse (vtext v) = Some d ->
  L.read_version L.dv_parse (L.eat_whitespace (vclause_toks v ++ X)) = Ok (Some (vc_of_vop (v_op v), d), X).
Proof.
  intros Hp. unfold vclause_toks, vbody_toks. rewrite <- !app_assoc. rewrite eat_ws. cbn [app L.eat_whitespace L.read_version].
  rewrite <- !app_assoc. rewrite eat_ws.
  destruct (hd_vtext v (ws_toks (v_ws3 v) ++ [(R_PARENS, [41%N])] ++ X)) as (s & r & E).
  rewrite E. rewrite (eat_stop (vop_toks (v_op v) ++ _)) by (destruct (v_op v); exact I).
  rewrite read_constraint_vop. rewrite vc_of_vop_text.
  rewrite eat_ws. rewrite <- E.
  rewrite (eat_stop (vtext_toks v ++ _)) by (rewrite vtext_toks_shape; exact I).
  rewrite read_version_string_run; [|apply vtext_toks_kinds|].
  2:{ destruct (hd_kind (ws_toks (v_ws3 v) ++ [(R_PARENS, [41%N])] ++ X)) as [k|] eqn:Eh; [|destruct (ws_toks (v_ws3 v)) as [|[? ?] ?]; discriminate Eh].
      destruct (hd_ws_toks_kind _ _ _ Eh) as [H|H]; [destruct k; try discriminate; exact I|]. cbn in H. injection H as <-. exact I. }
  cbn [app]. rewrite rttext_vtext_toks, Hp. rewrite eat_ws. reflexivity.
Qed.

Lemma read_version_none X : hd_kind X <> Some L_PARENS -> L.read_version L.dv_parse X = Ok (None, X).
Proof. destruct X as [|[k s] r]; [reflexivity|]. destruct k; try reflexivity. cbn. congruence. Qed.

(* ---- [ arch ... ] and < profile ... > ---- *)
Lemma read_archs_ws l : forall X acc, wsks l -> L.read_archs (l ++ X) acc = L.read_archs X acc.
Proof.
  induction l as [|[k s] t IH]; intros X acc H; [reflexivity|]. inversion H as [|? ? Hk Ht]; subst. cbn [fst] in Hk.
  cbn [app L.read_archs]. destruct k; try discriminate; apply IH, Ht.
Qed.
Lemma read_group_ws l : forall X acc, wsks l -> L.read_profile_group (l ++ X) acc = L.read_profile_group X acc.
Proof.
  induction l as [|[k s] t IH]; intros X acc H; [reflexivity|]. inversion H as [|? ? Hk Ht]; subst. cbn [fst] in Hk.
  cbn [app L.read_profile_group]. destruct k; try discriminate; apply IH, Ht.
Qed.

Lemma read_archs_terms terms : forall w1 x X acc,
  L.read_archs (flat_map term_toks terms ++ ws_toks w1 ++ (R_BRACKET, x) :: X) acc = Ok (acc ++ map lossy_arch terms, X).
Proof.
  induction terms as [|[tw b name] r IH]; intros w1 x X acc.
  - cbn [flat_map app map]. rewrite read_archs_ws by apply ws_toks_kinds. rewrite app_nil_r. reflexivity.
  - cbn [flat_map]. unfold term_toks at 1. cbn [t_ws t_neg t_name]. rewrite <- !app_assoc.
    rewrite read_archs_ws by apply ws_toks_kinds.
    destruct b; cbn [neg_toks app L.read_archs]; rewrite IH; rewrite <- app_assoc; reflexivity.
Qed.

Lemma read_architectures_some g X :
  L.read_architectures (L.eat_whitespace (arch_toks g ++ X)) = Ok (Some (map lossy_arch (g_terms g)), X).
Proof.
  unfold arch_toks, arch_body_toks, group_body_toks. rewrite <- !app_assoc. rewrite eat_ws.
  cbn [app L.eat_whitespace L.read_architectures]. rewrite <- !app_assoc. cbn [app].
  rewrite read_archs_terms. reflexivity.
Qed.

Lemma read_architectures_none X : hd_kind X <> Some L_BRACKET -> L.read_architectures X = Ok (None, X).
Proof. destruct X as [|[k s] r]; [reflexivity|]. destruct k; try reflexivity. cbn. congruence. Qed.

Lemma read_group_terms terms : forall w1 x X acc,
  L.read_profile_group (flat_map term_toks terms ++ ws_toks w1 ++ (R_ANGLE, x) :: X) acc = Ok (acc ++ map lossy_profile terms, X).
Proof.
  induction terms as [|[tw b name] r IH]; intros w1 x X acc.
  - cbn [flat_map app map]. rewrite read_group_ws by apply ws_toks_kinds. rewrite app_nil_r. reflexivity.
  - cbn [flat_map]. unfold term_toks at 1. cbn [t_ws t_neg t_name]. rewrite <- !app_assoc.
    rewrite read_group_ws by apply ws_toks_kinds.
    destruct b; cbn [neg_toks app L.read_profile_group]; rewrite IH; rewrite <- app_assoc; reflexivity.
Qed.

Lemma read_profiles_groups ps : forall fuel acc, length ps < fuel ->
  L.read_profiles fuel (L.eat_whitespace (flat_map prof_toks ps)) acc =
  Ok (acc ++ map (fun g => map lossy_profile (g_terms g)) ps, []).
Proof.
  induction ps as [|g r IH]; intros fuel acc Hf.
  - cbn [flat_map map L.eat_whitespace]. rewrite app_nil_r. destruct fuel; reflexivity.
  - destruct fuel as [|f]; [cbn in Hf; lia|].
    cbn [flat_map]. unfold prof_toks at 1, prof_body_toks, group_body_toks. rewrite <- !app_assoc. rewrite eat_ws.
    cbn [app L.eat_whitespace L.read_profiles]. rewrite <- !app_assoc. cbn [app].
    rewrite read_group_terms. rewrite IH by (cbn in Hf; lia).
    cbn [map]. rewrite <- app_assoc. reflexivity.
Qed.

(* ---- a whole relation ---- *)
Lemma hd_eat_vclause v X : hd_kind (L.eat_whitespace (vclause_toks v ++ X)) = Some L_PARENS.
Proof. unfold vclause_toks, vbody_toks. rewrite <- !app_assoc. rewrite eat_ws. reflexivity. Qed.
Lemma hd_eat_arch g X : hd_kind (L.eat_whitespace (arch_toks g ++ X)) = Some L_BRACKET.
Proof. unfold arch_toks, arch_body_toks, group_body_toks. rewrite <- !app_assoc. rewrite eat_ws. reflexivity. Qed.
Lemma hd_eat_profs ps :
  hd_kind (L.eat_whitespace (flat_map prof_toks ps)) = match ps with [] => None | _ :: _ => Some L_ANGLE end.
Proof.
  destruct ps as [|g r]; [reflexivity|]. cbn [flat_map].
  unfold prof_toks at 1, prof_body_toks, group_body_toks. rewrite <- !app_assoc. rewrite eat_ws. reflexivity.
Qed.

Lemma len_eat_profs ps : length ps <= length (L.eat_whitespace (flat_map prof_toks ps)).
Proof.
  destruct ps as [|g r]; [cbn; lia|]. cbn [flat_map].
  unfold prof_toks at 1, prof_body_toks, group_body_toks. rewrite <- !app_assoc.
  rewrite eat_ws. cbn [app L.eat_whitespace length]. rewrite !app_length. pose proof (len_profs r). cbn [length]. lia.
Qed.

Ltac hd_side :=
  first
  [ rewrite hd_eat_vclause; discriminate
  | rewrite hd_eat_arch; discriminate
  | match goal with |- context [flat_map prof_toks ?ps] => rewrite (hd_eat_profs ps); destruct ps; discriminate end ].

Theorem relation_from_core_toks r : wf_rel r = true ->
  L.relation_from_tokens L.dv_parse (rel_core_toks r) = Ok (lossy_rel r).
Proof.
  intros Hwf. unfold wf_rel in Hwf. andb_split Hwf.
  destruct r as [name q v a ps trail]. cbn [r_name r_qual r_ver r_archs r_profs r_trail] in *.
  unfold rel_core_toks, lossy_rel. cbn [r_name r_qual r_ver r_archs r_profs r_trail].
  unfold L.relation_from_tokens. cbn [L.read_name bind].
  assert (Tail : forall fuel n aq ar (ve : option (L.vconstraint * L.dversion)), length ps < fuel ->
     bind (L.read_profiles fuel (L.eat_whitespace (flat_map prof_toks ps)) [])
       (fun '(profs, t5) => match L.eat_whitespace t5 with
                            | [] => Ok (L.mkRel n aq ar ve profs)
                            | _ :: _ => Err 9%N end) =
     Ok (L.mkRel n aq ar ve (map (fun g => map lossy_profile (g_terms g)) ps))).
  { intros fuel n aq ar ve Hf. rewrite (read_profiles_groups ps fuel [] Hf). reflexivity. }
  assert (Lp : length ps < S (length (flat_map prof_toks ps))) by (pose proof (len_profs ps); lia).
  assert (Lp' : length ps < S (length (L.eat_whitespace (flat_map prof_toks ps)))) by (pose proof (len_eat_profs ps); lia).
  destruct q as [q|]; cbn [opt_toks option_map opt_ok app] in *.
  - rewrite (read_archqual_some q _). cbn [bind].
    destruct v as [v|]; cbn [opt_toks opt_ok app] in *.
    + destruct (dv_vtext v W2) as (d & Hp & _). unfold lossy_version. rewrite Hp.
      rewrite (read_version_some v d _ Hp). cbn [bind].
      destruct a as [g|]; cbn [opt_toks option_map opt_ok app] in *.
      * rewrite (read_architectures_some g _). cbn [bind]. apply Tail, Lp.
      * rewrite read_architectures_none by hd_side. cbn [bind]. rewrite eat_idem. apply Tail, Lp'.
    + rewrite read_version_none by (destruct a; cbn [opt_toks opt_ok app] in *; hd_side). cbn [bind]. rewrite eat_idem.
      destruct a as [g|]; cbn [opt_toks option_map opt_ok app] in *.
      * rewrite (read_architectures_some g _). cbn [bind]. apply Tail, Lp.
      * rewrite read_architectures_none by hd_side. cbn [bind]. rewrite eat_idem. apply Tail, Lp'.
  - rewrite read_archqual_none by (destruct v; [|destruct a]; cbn [opt_toks opt_ok app] in *; hd_side). cbn [bind]. rewrite eat_idem.
    destruct v as [v|]; cbn [opt_toks opt_ok app] in *.
    + destruct (dv_vtext v W2) as (d & Hp & _). unfold lossy_version. rewrite Hp.
      rewrite (read_version_some v d _ Hp). cbn [bind].
      destruct a as [g|]; cbn [opt_toks option_map opt_ok app] in *.
      * rewrite (read_architectures_some g _). cbn [bind]. apply Tail, Lp.
      * rewrite read_architectures_none by hd_side. cbn [bind]. rewrite eat_idem. apply Tail, Lp'.
    + rewrite read_version_none by (destruct a; cbn [opt_toks opt_ok app] in *; hd_side). cbn [bind]. rewrite eat_idem.
      destruct a as [g|]; cbn [opt_toks option_map opt_ok app] in *.
      * rewrite (read_architectures_some g _). cbn [bind]. apply Tail, Lp.
      * rewrite read_architectures_none by hd_side. cbn [bind]. rewrite eat_idem. apply Tail, Lp'.
Qed.

(* ================= strings: trim, split, and the characters of a rendered relation ================= *)
Definition rel_core_text (r : rel) : str :=
  r_name r ++ opt_text qual_text (r_qual r) ++ opt_text vclause_text (r_ver r)
  ++ opt_text arch_text (r_archs r) ++ flat_map prof_text (r_profs r).
Definition notrail (r : rel) : rel := mk_rel (r_name r) (r_qual r) (r_ver r) (r_archs r) (r_profs r) [].

Lemma rel_text_core r : rel_text r = rel_core_text r ++ r_trail r.
Proof. unfold rel_text, rel_core_text. rewrite <- !app_assoc. reflexivity. Qed.

Lemma rlex_rel_core r : wf_rel r = true -> rlex (rel_core_text r) = Ok (rel_core_toks r).
Proof.
  intros H.
  assert (H' : wf_rel (notrail r) = true).
  { unfold wf_rel in *. cbn [notrail r_name r_qual r_ver r_archs r_profs r_trail]. andb_split H.
    rewrite H, W3, W2, W1, W0. reflexivity. }
  pose proof (lexes_rel (notrail r) H' [] [] (conj I I) rlexf_nil) as E.
  rewrite !app_nil_r in E. unfold rel_text, rel_toks in E. cbn [notrail r_name r_qual r_ver r_archs r_profs r_trail ws_toks] in E.
  rewrite !app_nil_r in E. rewrite rlex_is_rlexf. exact E.
Qed.

(* ---- whitespace ---- *)
Definition uws (s : str) : bool := forallb L.is_unicode_ws s.

Lemma ws_ok_uws w : ws_ok w = true -> uws w = true.
Proof.
  unfold ws_ok, uws. induction w as [|c r IH]; [reflexivity|]. cbn [forallb]. intros H. apply andb_true_iff in H. destruct H as [Hc Hr].
  rewrite (IH Hr), andb_true_r. destruct (fws_cases c Hc) as [->|[->| ->]]; reflexivity.
Qed.

Lemma ident_not_uws c : is_ident_char c = true -> L.is_unicode_ws c = false.
Proof. unfold is_ident_char, is_ascii_alnum, L.is_unicode_ws. lia. Qed.

Definition nonws_head (s : str) : Prop := match s with c :: _ => L.is_unicode_ws c = false | [] => False end.
Definition nonws_last (s : str) : Prop := exists b c, s = b ++ [c] /\ L.is_unicode_ws c = false.

Lemma trim_start_uws w x : uws w = true -> L.trim_start (w ++ x) = L.trim_start x.
Proof.
  induction w as [|c r IH]; [reflexivity|]. unfold uws. cbn [forallb]. intros H. apply andb_true_iff in H. destruct H as [Hc Hr].
  cbn [app L.trim_start]. rewrite Hc. apply IH, Hr.
Qed.

Lemma trim_start_head x : nonws_head x -> L.trim_start x = x.
Proof. destruct x as [|c r]; [contradiction|]. cbn. intros ->. reflexivity. Qed.

Lemma uws_rev w : uws w = true -> uws (rev w) = true.
Proof.
  unfold uws. intros H. apply forallb_forall. intros c Hc. rewrite forallb_forall in H. apply H. apply in_rev. exact Hc.
Qed.

Lemma trim_core w1 core w2 : uws w1 = true -> uws w2 = true -> nonws_head core -> nonws_last core ->
  L.trim (w1 ++ core ++ w2) = core.
Proof.
  intros H1 H2 Hh (b & c & E & Hc). unfold L.trim, L.trim_end.
  rewrite (trim_start_uws w1 _ H1).
  assert (Hh' : nonws_head (core ++ w2)) by (destruct core; [contradiction|exact Hh]).
  rewrite (trim_start_head _ Hh'). rewrite rev_app_distr, (trim_start_uws _ _ (uws_rev w2 H2)).
  rewrite E, rev_app_distr. cbn [rev app L.trim_start]. rewrite Hc. 
  change (c :: rev b) with ([c] ++ rev b). rewrite <- (rev_involutive [c]) at 1. rewrite <- rev_app_distr, rev_involutive. reflexivity.
Qed.

Lemma trim_uws w : uws w = true -> L.trim w = [].
Proof.
  intros H. unfold L.trim, L.trim_end. rewrite <- (app_nil_r w). rewrite (trim_start_uws w [] H). reflexivity.
Qed.

Lemma nonws_last_app x y : nonws_last y -> nonws_last (x ++ y).
Proof. intros (b & c & -> & Hc). exists (x ++ b), c. rewrite app_assoc. split; [reflexivity|exact Hc]. Qed.

Lemma nonws_last_ident s : ident_ok s = true -> nonws_last s.
Proof.
  intros H. destruct (ident_ok_inv s H) as (c & w & -> & Hc & Hw).
  destruct (exists_last (l := c :: w)) as (b & x & E); [discriminate|]. exists b, x. split; [exact E|].
  apply ident_not_uws.
  assert (Hall : forallb is_ident_char (c :: w) = true) by (cbn [forallb]; rewrite Hc, Hw; reflexivity).
  rewrite E, forallb_app in Hall. apply andb_true_iff in Hall. destruct Hall as [_ Hx]. cbn [forallb] in Hx.
  apply andb_true_iff in Hx. apply Hx.
Qed.

Lemma nonws_last_single x c : L.is_unicode_ws c = false -> nonws_last (x ++ [c]).
Proof. intros H. exists x, c. split; [reflexivity|exact H]. Qed.

Lemma rel_core_head r : wf_rel r = true -> nonws_head (rel_core_text r).
Proof.
  intros H. pose proof (wf_rel_name r H) as Hn. destruct (ident_ok_inv _ Hn) as (c & w & E & Hc & _).
  unfold rel_core_text. rewrite E. cbn. apply ident_not_uws, Hc.
Qed.

Lemma nonws_last_cons x y : nonws_last y -> nonws_last (x :: y).
Proof. intros H. change (x :: y) with ([x] ++ y). apply nonws_last_app, H. Qed.

Lemma group_text_last o c g : L.is_unicode_ws c = false -> nonws_last (group_text o c g).
Proof.
  intros Hc. unfold group_text, group_body_text.
  apply nonws_last_app, nonws_last_cons, nonws_last_app, nonws_last_single, Hc.
Qed.

Lemma rel_core_last r : wf_rel r = true -> nonws_last (rel_core_text r).
Proof.
  intros H. pose proof H as Hwf. unfold wf_rel in H. andb_split H. unfold rel_core_text.
  destruct (r_profs r) as [|p ps] eqn:Ep.
  2:{ rewrite !app_assoc. apply nonws_last_app.
      destruct (exists_last (l := p :: ps)) as (b & g & E); [discriminate|]. rewrite E, flat_map_app.
      apply nonws_last_app. cbn [flat_map]. rewrite app_nil_r. apply group_text_last. reflexivity. }
  cbn [flat_map]. rewrite app_nil_r.
  destruct (r_archs r) as [g|]; cbn [opt_text].
  { rewrite !app_assoc. apply nonws_last_app, group_text_last. reflexivity. }
  rewrite app_nil_r.
  destruct (r_ver r) as [v|]; cbn [opt_text].
  { rewrite app_assoc. apply nonws_last_app. unfold vclause_text, vbody_text.
    apply nonws_last_app, nonws_last_cons, nonws_last_app, nonws_last_app, nonws_last_app, nonws_last_app, nonws_last_single.
    reflexivity. }
  rewrite app_nil_r.
  destruct (r_qual r) as [q|]; cbn [opt_text opt_ok] in *.
  { apply nonws_last_app. unfold qual_ok in W3. apply andb_true_iff in W3. destruct W3 as [_ Hqn]. unfold qual_text.
    apply nonws_last_app, nonws_last_cons, nonws_last_app, nonws_last_ident, Hqn. }
  rewrite app_nil_r. apply nonws_last_ident, H.
Qed.

(* ---- separators: a rendered relation contains neither "," nor "|" ---- *)
Definition nosepc (c : N) : bool := negb (c =? 44)%N && negb (c =? 124)%N.
Definition nosep2 (s : str) : bool := forallb nosepc s.

Lemma nosep2_app a b : nosep2 (a ++ b) = nosep2 a && nosep2 b.
Proof. apply forallb_app. Qed.
Lemma nosep2_cons c s : nosep2 (c :: s) = nosepc c && nosep2 s.
Proof. reflexivity. Qed.

Lemma nosep2_idents s : forallb is_ident_char s = true -> nosep2 s = true.
Proof.
  induction s as [|c r IH]; [reflexivity|]. cbn [forallb]. intros H. apply andb_true_iff in H. destruct H as [Hc Hr].
  rewrite nosep2_cons, (IH Hr), andb_true_r. unfold nosepc.
  destruct (N.eqb_spec c 44) as [->|_]; [discriminate|]. destruct (N.eqb_spec c 124) as [->|_]; [discriminate|]. reflexivity.
Qed.
Lemma nosep2_ident s : ident_ok s = true -> nosep2 s = true.
Proof. intros H. destruct (ident_ok_inv s H) as (c & w & -> & Hc & Hw). apply nosep2_idents. cbn [forallb]. rewrite Hc, Hw. reflexivity. Qed.
Lemma nosep2_ws w : ws_ok w = true -> nosep2 w = true.
Proof.
  unfold ws_ok. induction w as [|c r IH]; [reflexivity|]. cbn [forallb]. intros H. apply andb_true_iff in H. destruct H as [Hc Hr].
  rewrite nosep2_cons, (IH Hr), andb_true_r. destruct (fws_cases c Hc) as [->|[->| ->]]; reflexivity.
Qed.

Lemma nosep2_term f t : term_ok f t = true -> nosep2 (term_text t) = true.
Proof.
  intros H. unfold term_ok in H. andb_split H. unfold term_text. rewrite !nosep2_app, (nosep2_ws _ H), (nosep2_ident _ W).
  destruct (t_neg t); reflexivity.
Qed.
Lemma nosep2_terms_rest l : forallb (term_ok false) l = true -> nosep2 (flat_map term_text l) = true.
Proof.
  induction l as [|t r IH]; [reflexivity|]. cbn [forallb flat_map]. intros H. apply andb_true_iff in H. destruct H as [Ht Hr].
  rewrite nosep2_app, (nosep2_term _ _ Ht), (IH Hr). reflexivity.
Qed.
Lemma nosep2_group o c g : nosepc o = true -> nosepc c = true -> group_ok g = true -> nosep2 (group_text o c g) = true.
Proof.
  intros Ho Hc H. unfold group_ok in H. andb_split H. unfold terms_ok in W0. destruct (g_terms g) as [|t r] eqn:Et; [discriminate|].
  apply andb_true_iff in W0. destruct W0 as [Ht Hr].
  unfold group_text, group_body_text. rewrite Et. cbn [flat_map].
  rewrite nosep2_app, nosep2_cons, !nosep2_app, nosep2_cons. cbn [nosep2 forallb].
  rewrite (nosep2_ws _ H), Ho, (nosep2_term _ _ Ht), (nosep2_terms_rest _ Hr), (nosep2_ws _ W), Hc. reflexivity.
Qed.
Lemma nosep2_profs ps : forallb group_ok ps = true -> nosep2 (flat_map prof_text ps) = true.
Proof.
  induction ps as [|g r IH]; [reflexivity|]. cbn [forallb flat_map]. intros H. apply andb_true_iff in H. destruct H as [Hg Hr].
  rewrite nosep2_app, (IH Hr), andb_true_r. apply nosep2_group; [reflexivity|reflexivity|exact Hg].
Qed.
Lemma nosep2_pieces ps : forallb ident_ok ps = true -> nosep2 (flat_map (fun p => 58%N :: p) ps) = true.
Proof.
  induction ps as [|p r IH]; [reflexivity|]. cbn [forallb flat_map]. intros H. apply andb_true_iff in H. destruct H as [Hp Hr].
  cbn [app]. rewrite nosep2_cons, nosep2_app, (nosep2_ident _ Hp), (IH Hr). reflexivity.
Qed.
Lemma nosep2_vclause v : vclause_ok v = true -> nosep2 (vclause_text v) = true.
Proof.
  intros H. destruct (vclause_ok_inv v H) as (W0 & W1 & W2 & W3 & He & Hv & Hm & _).
  unfold vclause_text, vbody_text, vtext. rewrite nosep2_app, nosep2_cons, !nosep2_app.
  rewrite (nosep2_ws _ W0), (nosep2_ws _ W1), (nosep2_ws _ W2), (nosep2_ws _ W3), (nosep2_ident _ Hv), (nosep2_pieces _ Hm).
  assert (Ho : nosep2 (vop_text (v_op v)) = true) by (destruct (v_op v); reflexivity). rewrite Ho.
  destruct (v_epoch v) as [e|]; cbn [opt_ok] in He; [|reflexivity].
  rewrite nosep2_app, (nosep2_ident _ (epoch_ident e He)). reflexivity.
Qed.
Lemma nosep2_qual q : qual_ok q = true -> nosep2 (qual_text q) = true.
Proof.
  intros H. unfold qual_ok in H. andb_split H. unfold qual_text.
  rewrite nosep2_app, nosep2_cons, nosep2_app, (nosep2_ws _ H), (nosep2_ws _ W0), (nosep2_ident _ W). reflexivity.
Qed.
Lemma nosep2_rel r : wf_rel r = true -> nosep2 (rel_text r) = true.
Proof.
  intros H. unfold wf_rel in H. andb_split H. unfold rel_text. rewrite !nosep2_app.
  rewrite (nosep2_ident _ H), (nosep2_profs _ W0), (nosep2_ws _ W).
  assert (E1 : nosep2 (opt_text qual_text (r_qual r)) = true) by (destruct (r_qual r); [apply nosep2_qual, W3|reflexivity]).
  assert (E2 : nosep2 (opt_text vclause_text (r_ver r)) = true) by (destruct (r_ver r); [apply nosep2_vclause, W2|reflexivity]).
  assert (E3 : nosep2 (opt_text arch_text (r_archs r)) = true)
    by (destruct (r_archs r); [apply nosep2_group; [reflexivity|reflexivity|exact W1]|reflexivity]).
  rewrite E1, E2, E3. reflexivity.
Qed.

Lemma nosep2_sep sep s : nosepc sep = false -> nosep2 s = true -> forallb (fun x => negb (x =? sep)%N) s = true.
Proof.
  intros Hs H. unfold nosep2 in H. rewrite forallb_forall in *. intros x Hx. specialize (H x Hx).
  destruct (N.eqb_spec x sep) as [->|_]; [congruence|reflexivity].
Qed.

(* ---- str::split ---- *)
Lemma split_go_nosep sep a : forall acc, forallb (fun x => negb (x =? sep)%N) a = true -> L.split_on_go sep a acc = [acc ++ a].
Proof.
  induction a as [|c r IH]; intros acc H; [cbn; rewrite app_nil_r; reflexivity|].
  cbn [forallb] in H. apply andb_true_iff in H. destruct H as [Hc Hr]. apply negb_true_iff in Hc.
  cbn [L.split_on_go]. rewrite Hc, (IH _ Hr), <- app_assoc. reflexivity.
Qed.
Lemma split_go_app sep a b : forall acc, forallb (fun x => negb (x =? sep)%N) a = true ->
  L.split_on_go sep (a ++ sep :: b) acc = (acc ++ a) :: L.split_on_go sep b [].
Proof.
  induction a as [|c r IH]; intros acc H.
  - cbn [app L.split_on_go]. rewrite N.eqb_refl, app_nil_r. reflexivity.
  - cbn [forallb] in H. apply andb_true_iff in H. destruct H as [Hc Hr]. apply negb_true_iff in Hc.
    cbn [app L.split_on_go]. rewrite Hc, (IH _ Hr), <- app_assoc. reflexivity.
Qed.

(* ================= a relation, the alternatives of an entry, the entries of a field ================= *)
Theorem relation_from_str_core r : wf_rel r = true ->
  L.relation_from_str L.dv_parse (rel_core_text r) = Ok (lossy_rel r).
Proof.
  intros Hwf. unfold L.relation_from_str. rewrite (rlex_rel_core r Hwf). cbn [bind].
  apply relation_from_core_toks; assumption.
Qed.

Lemma nosep2_rel_core r : wf_rel r = true -> nosep2 (rel_core_text r) = true.
Proof. intros H. pose proof (nosep2_rel r H) as E. rewrite rel_text_core, nosep2_app in E. apply andb_true_iff in E. apply E. Qed.

Lemma wf_rel_trail r : wf_rel r = true -> ws_ok (r_trail r) = true.
Proof. intros H. unfold wf_rel in H. andb_split H. exact W. Qed.

Lemma nonempty_head s : nonws_head s -> s <> [].
Proof. destruct s; [contradiction|discriminate]. Qed.

Fixpoint rels_core_text (r : rel) (alts : list (str * rel)) : str :=
  match alts with
  | [] => rel_core_text r
  | (w, r') :: alts' => rel_text r ++ 124%N :: w ++ rels_core_text r' alts'
  end.
Fixpoint rels_last_trail (r : rel) (alts : list (str * rel)) : str :=
  match alts with [] => r_trail r | (_, r') :: alts' => rels_last_trail r' alts' end.

Lemma rels_text_core alts : forall r, rels_text r alts = rels_core_text r alts ++ rels_last_trail r alts.
Proof.
  induction alts as [|[w r'] alts IH]; intros r; cbn [rels_text rels_core_text rels_last_trail].
  - rewrite app_nil_r. apply rel_text_core.
  - rewrite IH. rewrite <- !app_assoc. cbn [app]. rewrite <- !app_assoc. reflexivity.
Qed.

Definition lossy_alt (wr : str * rel) : L.relation L.dversion := lossy_rel (snd wr).

Lemma read_alts alts : forall r w0, ws_ok w0 = true -> wf_rel r = true ->
  forallb wf_alt alts = true ->
  L.read_alternatives L.dv_parse (L.split_on_go 124%N (w0 ++ rels_core_text r alts) []) =
  Ok (lossy_rel r :: map lossy_alt alts).
Proof.
  induction alts as [|[w r'] alts IH]; intros r w0 Hw0 Hwf Ha; cbn [rels_core_text].
  - rewrite split_go_nosep.
    2:{ apply nosep2_sep; [reflexivity|]. rewrite nosep2_app, (nosep2_ws _ Hw0), (nosep2_rel_core _ Hwf). reflexivity. }
    cbn [app L.read_alternatives map].
    assert (Et : L.trim (w0 ++ rel_core_text r) = rel_core_text r).
    { pose proof (trim_core w0 (rel_core_text r) [] (ws_ok_uws _ Hw0) eq_refl (rel_core_head r Hwf) (rel_core_last r Hwf)) as E.
      rewrite app_nil_r in E. exact E. }
    rewrite Et.
    rewrite RelLossyP.match_nonempty by (apply nonempty_head, rel_core_head, Hwf).
    rewrite (relation_from_str_core r Hwf). reflexivity.
  - cbn [forallb] in Ha. apply andb_true_iff in Ha. destruct Ha as [Hwr Ha].
    unfold wf_alt in Hwr. cbn [fst snd] in Hwr. apply andb_true_iff in Hwr. destruct Hwr as [Hw Hwf'].
    rewrite app_assoc. rewrite split_go_app.
    2:{ apply nosep2_sep; [reflexivity|]. rewrite nosep2_app, (nosep2_ws _ Hw0), (nosep2_rel _ Hwf). reflexivity. }
    cbn [app L.read_alternatives map].
    rewrite rel_text_core.
    rewrite (trim_core w0 (rel_core_text r) (r_trail r) (ws_ok_uws _ Hw0) (ws_ok_uws _ (wf_rel_trail r Hwf)) (rel_core_head r Hwf) (rel_core_last r Hwf)).
    rewrite RelLossyP.match_nonempty by (apply nonempty_head, rel_core_head, Hwf).
    rewrite (relation_from_str_core r Hwf). cbn [bind].
    rewrite (IH r' w Hw Hwf' Ha). reflexivity.
Qed.

Lemma rels_core_head alts r : wf_rel r = true -> nonws_head (rels_core_text r alts).
Proof.
  intros H. destruct alts as [|[w r'] alts]; cbn [rels_core_text]; [apply rel_core_head, H|].
  pose proof (rel_core_head r H) as Hh. rewrite rel_text_core. destruct (rel_core_text r); [contradiction|exact Hh].
Qed.

Lemma rels_core_last alts : forall r, wf_rel r = true -> forallb wf_alt alts = true -> nonws_last (rels_core_text r alts).
Proof.
  induction alts as [|[w r'] alts IH]; intros r H Ha; cbn [rels_core_text]; [apply rel_core_last, H|].
  cbn [forallb] in Ha. apply andb_true_iff in Ha. destruct Ha as [Hwr Ha]. unfold wf_alt in Hwr. cbn [fst snd] in Hwr.
  apply andb_true_iff in Hwr. destruct Hwr as [_ Hwf'].
  apply nonws_last_app, nonws_last_cons, nonws_last_app, IH; assumption.
Qed.

Lemma rels_last_trail_ws alts : forall r, wf_rel r = true -> forallb wf_alt alts = true -> ws_ok (rels_last_trail r alts) = true.
Proof.
  induction alts as [|[w r'] alts IH]; intros r H Ha; cbn [rels_last_trail]; [apply wf_rel_trail, H|].
  cbn [forallb] in Ha. apply andb_true_iff in Ha. destruct Ha as [Hwr Ha]. unfold wf_alt in Hwr. cbn [fst snd] in Hwr.
  apply andb_true_iff in Hwr. destruct Hwr as [_ Hwf']. apply IH; assumption.
Qed.

(* no comma inside an entry *)
Definition nocomma (s : str) : bool := forallb (fun x => negb (x =? 44)%N) s.
Lemma nocomma_app a b : nocomma (a ++ b) = nocomma a && nocomma b.
Proof. apply forallb_app. Qed.
Lemma nocomma_nosep2 s : nosep2 s = true -> nocomma s = true.
Proof. apply nosep2_sep. reflexivity. Qed.
Lemma nocomma_rels alts : forall r, wf_rel r = true -> forallb wf_alt alts = true -> nocomma (rels_text r alts) = true.
Proof.
  induction alts as [|[w r'] alts IH]; intros r H Ha; cbn [rels_text].
  - rewrite app_nil_r. apply nocomma_nosep2, nosep2_rel, H.
  - cbn [forallb] in Ha. apply andb_true_iff in Ha. destruct Ha as [Hwr Ha]. unfold wf_alt in Hwr. cbn [fst snd] in Hwr.
    apply andb_true_iff in Hwr. destruct Hwr as [Hw Hwf'].
    rewrite nocomma_app, (nocomma_nosep2 _ (nosep2_rel r H)). cbn [andb]. unfold nocomma. cbn [forallb N.eqb Pos.eqb negb andb].
    fold (nocomma (w ++ rels_text r' alts)). rewrite nocomma_app, (nocomma_nosep2 _ (nosep2_ws _ Hw)), (IH r' Hwf' Ha). reflexivity.
Qed.

Definition lossy_item_entries (i : item) : list (list (L.relation L.dversion)) :=
  match i with IEntry r alts => [lossy_rel r :: map lossy_alt alts] | _ => [] end.

(* one piece of split(','): leading whitespace and an item *)
Lemma read_entries_piece i w0 rest : ws_ok w0 = true -> wf_item false i = true ->
  L.read_entries L.dv_parse ((w0 ++ item_text i) :: rest) =
  bind (L.read_entries L.dv_parse rest) (fun ents => Ok (lossy_item_entries i ++ ents)).
Proof.
  intros Hw0 Hwf. destruct i as [r alts|seg segs trail|]; cbn [wf_item item_text lossy_item_entries] in *; [| discriminate |].
  - apply andb_true_iff in Hwf. destruct Hwf as [Hr Ha].
    cbn [L.read_entries]. rewrite rels_text_core.
    rewrite (trim_core w0 (rels_core_text r alts) (rels_last_trail r alts) (ws_ok_uws _ Hw0)
               (ws_ok_uws _ (rels_last_trail_ws alts r Hr Ha)) (rels_core_head alts r Hr) (rels_core_last alts r Hr Ha)).
    rewrite RelLossyP.match_nonempty by (apply nonempty_head, rels_core_head, Hr).
    unfold L.split_on. rewrite <- (app_nil_l (rels_core_text r alts)).
    rewrite (read_alts alts r [] eq_refl Hr Ha). cbn [bind app].
    destruct (L.read_entries L.dv_parse rest); reflexivity.
  - cbn [L.read_entries]. rewrite app_nil_r. rewrite (trim_uws w0 (ws_ok_uws _ Hw0)).
    destruct (L.read_entries L.dv_parse rest); reflexivity.
Qed.

Lemma nocomma_item i : wf_item false i = true -> nocomma (item_text i) = true.
Proof.
  destruct i as [r alts|seg segs trail|]; cbn [wf_item item_text]; intros H; [|discriminate|reflexivity].
  apply andb_true_iff in H. destruct H as [Hr Ha]. apply nocomma_rels; assumption.
Qed.

Lemma read_entries_items more : forall i w0, ws_ok w0 = true -> wf_item false i = true ->
  forallb (wf_more false) more = true ->
  L.read_entries L.dv_parse (L.split_on_go 44%N (w0 ++ items_text i more) []) =
  Ok (flat_map lossy_item_entries (i :: map snd more)).
Proof.
  induction more as [|[w i'] more IH]; intros i w0 Hw0 Hwf Hm; cbn [items_text].
  - rewrite app_nil_r. rewrite split_go_nosep.
    2:{ fold (nocomma (w0 ++ item_text i)). rewrite nocomma_app, (nocomma_nosep2 _ (nosep2_ws _ Hw0)), (nocomma_item i Hwf). reflexivity. }
    cbn [app]. rewrite (read_entries_piece i w0 [] Hw0 Hwf). cbn [L.read_entries bind map flat_map]. reflexivity.
  - cbn [forallb] in Hm. apply andb_true_iff in Hm. destruct Hm as [Hwi Hm].
    unfold wf_more in Hwi. cbn [fst snd] in Hwi. apply andb_true_iff in Hwi. destruct Hwi as [Hw Hwf'].
    rewrite app_assoc. rewrite split_go_app.
    2:{ fold (nocomma (w0 ++ item_text i)). rewrite nocomma_app, (nocomma_nosep2 _ (nosep2_ws _ Hw0)), (nocomma_item i Hwf). reflexivity. }
    cbn [app]. rewrite (read_entries_piece i w0 _ Hw0 Hwf). rewrite (IH i' w Hw Hwf' Hm). cbn [bind map snd flat_map]. reflexivity.
Qed.

Lemma relations_from_str_split s : L.relations_from_str L.dv_parse s = L.read_entries L.dv_parse (L.split_on 44%N s).
Proof. destruct s; reflexivity. Qed.

Definition lossy_field (f : rfield) : list (list (L.relation L.dversion)) := flat_map lossy_item_entries (f_items f).

Theorem lossy_rrender f : wf_rfield false f = true ->
  L.relations_from_str L.dv_parse (rrender f) = Ok (lossy_field f).
Proof.
  intros Hwf. unfold wf_rfield in Hwf. andb_split Hwf.
  rewrite relations_from_str_split. unfold rrender, L.split_on, lossy_field, f_items.
  apply read_entries_items; assumption.
Qed.

(* ================= the lossy value in the accessors' type, and the clause ================= *)
Definition vop_of_vc (c : L.vconstraint) : vop :=
  match c with L.VC_ge => VGe | L.VC_le => VLe | L.VC_eq => VEq | L.VC_gt => VGt | L.VC_lt => VLt end.
Definition bprofile_of_lossy (p : L.bprofile) : bprofile :=
  match p with L.Enabled s => Enabled s | L.Disabled s => Disabled s end.
(* lossy::Relation as RelAcc.relc: the Version is shown by its Display text *)
Definition relc_of_lossy (r : L.relation L.dversion) : relc :=
  mk_relc (L.r_name r) (L.r_archqual r)
          (option_map (fun cv => (vop_of_vc (fst cv), L.dv_print (snd cv))) (L.r_version r))
          (L.r_archs r) (map (map bprofile_of_lossy) (L.r_profiles r)).
(* the lossy reader of the cone of C14 with its model of debversion, in that type *)
Definition lossy_model (s : str) : res (list (list relc)) :=
  rmap (map (map relc_of_lossy)) (L.relations_from_str L.dv_parse s).

Lemma relc_of_lossy_rel r : wf_rel r = true -> relc_of_lossy (lossy_rel r) = relx_acc (rel_content r).
Proof.
  intros H. unfold wf_rel in H. andb_split H.
  unfold relc_of_lossy, lossy_rel, relx_acc, rel_content.
  cbn [L.r_name L.r_archqual L.r_version L.r_archs L.r_profiles x_name x_qual x_ver x_archs x_profs]. f_equal.
  - destruct (r_ver r) as [v|]; cbn [option_map opt_ok] in *; [|reflexivity].
    destruct (dv_vtext v W2) as (d & Hp & Hpr). unfold lossy_version. rewrite Hp. cbn [option_map fst snd]. rewrite Hpr.
    destruct (v_op v); reflexivity.
  - destruct (r_archs r) as [g|]; cbn [option_map]; [|reflexivity]. rewrite map_map. reflexivity.
  - rewrite !map_map. apply map_ext. intros g. rewrite !map_map. apply map_ext. intros t.
    unfold lossy_profile, term_profile. destruct (t_neg t); reflexivity.
Qed.

Lemma lossy_field_acc f : wf_rfield false f = true ->
  map (map relc_of_lossy) (lossy_field f) = fst (rcontent_acc f).
Proof.
  intros H. unfold wf_rfield in H. andb_split H. unfold lossy_field, rcontent_acc, rcontent, f_items. cbn [fst].
  assert (Hi : forall i, wf_item false i = true ->
            map (map relc_of_lossy) (lossy_item_entries i) = map (map relx_acc) (item_entries i)).
  { intros i Hw. destruct i as [r alts|seg segs trail|]; cbn [lossy_item_entries item_entries map]; try reflexivity.
    cbn [wf_item] in Hw. apply andb_true_iff in Hw. destruct Hw as [Hr Ha]. rewrite (relc_of_lossy_rel r Hr). do 2 f_equal.
    induction alts as [|[w r1] alts IH]; [reflexivity|]. cbn [forallb] in Ha. apply andb_true_iff in Ha. destruct Ha as [Hwr Ha].
    unfold wf_alt in Hwr. cbn [fst snd] in Hwr. apply andb_true_iff in Hwr. destruct Hwr as [_ Hr1].
    cbn [map snd]. unfold lossy_alt at 1. cbn [snd]. rewrite (relc_of_lossy_rel r1 Hr1), (IH Ha). reflexivity. }
  cbn [flat_map]. rewrite !map_app, (Hi _ W0). f_equal.
  clear -W Hi. induction (f_rest f) as [|[w i] r IH]; [reflexivity|].
  cbn [forallb] in W. apply andb_true_iff in W. destruct W as [Hwi Hr]. unfold wf_more in Hwi. cbn [fst snd] in Hwi.
  apply andb_true_iff in Hwi. destruct Hwi as [_ Hi'].
  cbn [map snd flat_map]. rewrite !map_app, (Hi _ Hi'), (IH Hr). reflexivity.
Qed.

Theorem C10_lossy_all f : wf_rfield false f = true ->
  lossy_model (rrender f) = Ok (fst (rcontent_acc f)) /\
  map (map relc_view) (fst (rcontent_acc f)) = fst (rcontent f).
Proof.
  intros Hwf. split.
  - unfold lossy_model. rewrite (lossy_rrender f Hwf). cbn [rmap bind]. rewrite (lossy_field_acc f Hwf). reflexivity.
  - pose proof (racc_view_content false f Hwf) as E. unfold racc_view in E. apply (f_equal fst) in E. exact E.
Qed.
