(* Debian version ordering: the reference [vcmp] is a total preorder; the transcription of
   debversion's comparison equals it wherever it does not panic (no digit run above i32::MAX). *)
From V.model Require Import Base DebVersion.
From V.proofs Require Import BaseP.
From Coq Require Import ZArith.

(* ------------------------------------------------------------------ comparison functions
   that describe a total preorder: antisymmetric, Eq is a congruence, Lt is transitive *)
Definition cmp_ok {A} (c : A -> A -> comparison) : Prop :=
  (forall x y, c y x = CompOpp (c x y)) /\
  (forall x y z, c x y = Eq -> c x z = c y z) /\
  (forall x y z, c x y = Lt -> c y z = Lt -> c x z = Lt).

Lemma cmp_ok_refl {A} (c : A -> A -> comparison) : cmp_ok c -> forall x, c x x = Eq.
Proof. intros (Ha & _ & _) x. specialize (Ha x x). destruct (c x x); cbn in Ha; congruence. Qed.

Lemma cmp_ok_lt_eq {A} (c : A -> A -> comparison) : cmp_ok c ->
  forall x y z, c x y = Lt -> c y z = Eq -> c x z = Lt.
Proof.
  intros (Ha & He & _) x y z Hxy Hyz.
  assert (Hzy : c z y = Eq) by (rewrite (Ha y z), Hyz; reflexivity).
  pose proof (He z y x Hzy) as H. rewrite (Ha x y), Hxy in H. cbn in H.
  rewrite (Ha z x), H. reflexivity.
Qed.

Lemma cmp_ok_eq_lt {A} (c : A -> A -> comparison) : cmp_ok c ->
  forall x y z, c x y = Eq -> c y z = Lt -> c x z = Lt.
Proof. intros (_ & He & _) x y z Hxy Hyz. rewrite (He x y z Hxy). exact Hyz. Qed.

Lemma cmp_ok_eq_eq {A} (c : A -> A -> comparison) : cmp_ok c ->
  forall x y z, c x y = Eq -> c y z = Eq -> c x z = Eq.
Proof. intros (_ & He & _) x y z Hxy Hyz. rewrite (He x y z Hxy). exact Hyz. Qed.

Lemma cmp_ok_sym_eq {A} (c : A -> A -> comparison) : cmp_ok c ->
  forall x y, c x y = Eq -> c y x = Eq.
Proof. intros (Ha & _) x y H. rewrite (Ha x y), H. reflexivity. Qed.

(* "not greater" is transitive and total *)
Definition cle {A} (c : A -> A -> comparison) (x y : A) : Prop := c x y <> Gt.

Lemma cle_trans {A} (c : A -> A -> comparison) : cmp_ok c ->
  forall x y z, cle c x y -> cle c y z -> cle c x z.
Proof.
  intros Hok x y z Hxy Hyz. unfold cle in *.
  destruct (c x y) eqn:E1; try congruence; destruct (c y z) eqn:E2; try congruence.
  - rewrite (cmp_ok_eq_eq c Hok _ _ _ E1 E2). discriminate.
  - rewrite (cmp_ok_eq_lt c Hok _ _ _ E1 E2). discriminate.
  - rewrite (cmp_ok_lt_eq c Hok _ _ _ E1 E2). discriminate.
  - destruct Hok as (_ & _ & Ht). rewrite (Ht _ _ _ E1 E2). discriminate.
Qed.

Lemma cle_total {A} (c : A -> A -> comparison) : cmp_ok c -> forall x y, cle c x y \/ cle c y x.
Proof.
  intros (Ha & _) x y. unfold cle. rewrite (Ha x y). destruct (c x y); cbn; [left|left|right]; discriminate.
Qed.

Lemma cmp_ok_pull {A B} (f : B -> A) (c : A -> A -> comparison) :
  cmp_ok c -> cmp_ok (fun x y => c (f x) (f y)).
Proof. intros (Ha & He & Ht). repeat split; intros; eauto. Qed.

(* lexicographic combination *)
Lemma cmp_ok_lex {A} (c1 c2 : A -> A -> comparison) :
  cmp_ok c1 -> cmp_ok c2 ->
  cmp_ok (fun x y => match c1 x y with Eq => c2 x y | r => r end).
Proof.
  intros H1 H2. pose proof H1 as (Ha1 & He1 & Ht1). pose proof H2 as (Ha2 & He2 & Ht2).
  repeat split.
  - intros x y. rewrite (Ha1 x y). destruct (c1 x y); cbn; [apply Ha2|reflexivity|reflexivity].
  - intros x y z H. destruct (c1 x y) eqn:E1; try discriminate.
    rewrite (He1 x y z E1). destruct (c1 y z); [apply He2; exact H|reflexivity|reflexivity].
  - intros x y z Hxy Hyz.
    destruct (c1 x y) eqn:E1; try discriminate; destruct (c1 y z) eqn:E2; try discriminate.
    + rewrite (cmp_ok_eq_eq c1 H1 _ _ _ E1 E2). eapply Ht2; eassumption.
    + rewrite (cmp_ok_eq_lt c1 H1 _ _ _ E1 E2). reflexivity.
    + rewrite (cmp_ok_lt_eq c1 H1 _ _ _ E1 E2). reflexivity.
    + rewrite (Ht1 _ _ _ E1 E2). reflexivity.
Qed.

Lemma Zcompare_ok : cmp_ok Z.compare.
Proof.
  repeat split.
  - intros x y. apply Z.compare_antisym.
  - intros x y z H. apply Z.compare_eq in H. subst. reflexivity.
  - intros x y z H1 H2. rewrite Z.compare_lt_iff in *. lia.
Qed.

Lemma Ncompare_ok : cmp_ok N.compare.
Proof.
  repeat split.
  - intros x y. apply N.compare_antisym.
  - intros x y z H. apply N.compare_eq in H. subst. reflexivity.
  - intros x y z H1 H2. rewrite N.compare_lt_iff in *. lia.
Qed.

(* ------------------------------------------------------------------ padded lexicographic *)
Section LexP.
  Context {A : Type}.
  Variable c : A -> A -> comparison.
  Variable d : A.
  Hypothesis Hc : cmp_ok c.

  Lemma lexfrom_ok n : cmp_ok (lexfrom c d n).
  Proof.
    induction n as [|n IH].
    - repeat split; intros; reflexivity || discriminate.
    - change (cmp_ok (fun a b => match c (hd d a) (hd d b) with
                                 | Eq => lexfrom c d n (tl a) (tl b) | r => r end)).
      apply (cmp_ok_lex (fun a b => c (hd d a) (hd d b)) (fun a b => lexfrom c d n (tl a) (tl b))).
      + apply (cmp_ok_pull (hd d) c Hc).
      + apply (cmp_ok_pull (@tl A) (lexfrom c d n) IH).
  Qed.

  Lemma lexfrom_nil k : lexfrom c d k [] [] = Eq.
  Proof. induction k as [|k IH]; cbn; [reflexivity|]. rewrite (cmp_ok_refl c Hc). exact IH. Qed.

  Lemma length_tl (l : list A) n : length l <= S n -> length (tl l) <= n.
  Proof. destruct l; cbn; lia. Qed.

  Lemma lexfrom_stable n : forall k a b, length a <= n -> length b <= n ->
    lexfrom c d (n + k) a b = lexfrom c d n a b.
  Proof.
    induction n as [|n IH]; intros k a b Ha Hb.
    - destruct a; [|cbn in Ha; lia]. destruct b; [|cbn in Hb; lia]. cbn. apply lexfrom_nil.
    - cbn. destruct (c (hd d a) (hd d b)); try reflexivity.
      apply IH; apply length_tl; assumption.
  Qed.

  Lemma lexpad_lexfrom n a b : length a <= n -> length b <= n -> lexpad c d a b = lexfrom c d n a b.
  Proof.
    intros Ha Hb. unfold lexpad.
    replace n with (Nat.max (length a) (length b) + (n - Nat.max (length a) (length b))) by lia.
    symmetry. apply lexfrom_stable; lia.
  Qed.

  Lemma lexpad_ok : cmp_ok (lexpad c d).
  Proof.
    repeat split.
    - intros x y. set (n := Nat.max (length x) (length y)).
      rewrite (lexpad_lexfrom n y x), (lexpad_lexfrom n x y) by lia.
      apply (lexfrom_ok n).
    - intros x y z. set (n := Nat.max (length x) (Nat.max (length y) (length z))).
      rewrite (lexpad_lexfrom n x y), (lexpad_lexfrom n x z), (lexpad_lexfrom n y z) by lia.
      apply (lexfrom_ok n).
    - intros x y z. set (n := Nat.max (length x) (Nat.max (length y) (length z))).
      rewrite (lexpad_lexfrom n x y), (lexpad_lexfrom n x z), (lexpad_lexfrom n y z) by lia.
      apply (lexfrom_ok n).
  Qed.

  (* one step of the comparison, as the loops of the implementation take it *)
  Lemma lexpad_step a b : a <> [] \/ b <> [] ->
    lexpad c d a b = match c (hd d a) (hd d b) with Eq => lexpad c d (tl a) (tl b) | r => r end.
  Proof.
    intros H. unfold lexpad. destruct a as [|x a]; destruct b as [|y b]; cbn [length hd tl].
    - destruct H; congruence.
    - reflexivity.
    - rewrite !Nat.max_0_r. reflexivity.
    - reflexivity.
  Qed.

  Lemma lexpad_nil : lexpad c d [] [] = Eq.
  Proof. reflexivity. Qed.
End LexP.

(* ------------------------------------------------------------------ the reference ordering *)
Lemma nd_cmp_ok : cmp_ok nd_cmp.
Proof. apply lexpad_ok, Zcompare_ok. Qed.

Lemma chunk_cmp_ok : cmp_ok chunk_cmp.
Proof.
  apply (cmp_ok_lex (fun x y : list Z * N => nd_cmp (fst x) (fst y)) (fun x y => N.compare (snd x) (snd y))).
  - apply (cmp_ok_pull fst nd_cmp nd_cmp_ok).
  - apply (cmp_ok_pull snd N.compare Ncompare_ok).
Qed.

Lemma part_cmp_ok : cmp_ok part_cmp.
Proof.
  apply (cmp_ok_pull (fun s => chunks (length s) s) (lexpad chunk_cmp chunk0)).
  apply lexpad_ok, chunk_cmp_ok.
Qed.

Theorem vcmp_ok : cmp_ok vcmp.
Proof.
  apply (cmp_ok_lex (fun x y => N.compare (epoch_of x) (epoch_of y))
           (fun x y => match part_cmp (upstream x) (upstream y) with
                       | Eq => part_cmp (revision_of x) (revision_of y) | r => r end)).
  - apply (cmp_ok_pull epoch_of N.compare Ncompare_ok).
  - apply (cmp_ok_lex (fun x y => part_cmp (upstream x) (upstream y))
             (fun x y => part_cmp (revision_of x) (revision_of y))).
    + apply (cmp_ok_pull upstream part_cmp part_cmp_ok).
    + apply (cmp_ok_pull revision_of part_cmp part_cmp_ok).
Qed.

(* the familiar reading *)
Theorem vcmp_total_preorder :
  (forall x, vcmp x x = Eq) /\
  (forall x y, vcmp y x = CompOpp (vcmp x y)) /\
  (forall x y z, vle x y = true -> vle y z = true -> vle x z = true) /\
  (forall x y, vle x y = true \/ vle y x = true) /\
  (forall x y, veq x y = true <-> vle x y = true /\ vle y x = true) /\
  (forall x y z, veq x y = true -> vcmp x z = vcmp y z /\ vcmp z x = vcmp z y).
Proof.
  pose proof vcmp_ok as Hok. pose proof Hok as (Ha & He & Ht).
  assert (Hle : forall x y, vle x y = true <-> cle vcmp x y).
  { intros x y. unfold vle, cle. destruct (vcmp x y); split; congruence. }
  split; [apply cmp_ok_refl, Hok|]. split; [exact Ha|].
  split; [intros x y z; rewrite !Hle; apply cle_trans, Hok|].
  split; [intros x y; rewrite !Hle; apply cle_total, Hok|].
  split.
  - intros x y. unfold veq, vle. rewrite (Ha x y). destruct (vcmp x y); cbn; intuition congruence.
  - intros x y z H. unfold veq in H. destruct (vcmp x y) eqn:E; try discriminate. split.
    + apply He. exact E.
    + rewrite (Ha x z), (Ha y z). f_equal. apply He. exact E.
Qed.

(* Policy says an absent revision counts as "0" (debversion does that); dpkg compares it as the
   empty string.  The two conventions give the same ordering. *)
Lemma lexpad_default_l {A} (c : A -> A -> comparison) (d : A) (b : list A) :
  cmp_ok c -> lexpad c d [d] b = lexpad c d [] b.
Proof.
  intros Hc. set (n := S (length b)).
  rewrite (lexpad_lexfrom c d Hc n [d] b), (lexpad_lexfrom c d Hc n [] b) by (cbn; lia).
  reflexivity.
Qed.
Lemma lexpad_default_r {A} (c : A -> A -> comparison) (d : A) (a : list A) :
  cmp_ok c -> lexpad c d a [d] = lexpad c d a [].
Proof.
  intros Hc. set (n := S (length a)).
  rewrite (lexpad_lexfrom c d Hc n a [d]), (lexpad_lexfrom c d Hc n a []) by (cbn; lia).
  reflexivity.
Qed.

Lemma part_cmp_zero_empty b :
  part_cmp zero_str b = part_cmp [] b /\ part_cmp b zero_str = part_cmp b [].
Proof.
  unfold part_cmp. change (chunks (length zero_str) zero_str) with [chunk0].
  change (chunks (length (@nil N)) []) with (@nil (list Z * N)).
  split; [apply lexpad_default_l|apply lexpad_default_r]; apply chunk_cmp_ok.
Qed.

Theorem vcmp_absent_revision x y :
  let dpkg v := mk_version (epoch v) (upstream v) (Some (match revision v with Some r => r | None => [] end)) in
  vcmp (dpkg x) (dpkg y) = vcmp x y.
Proof.
  cbv zeta. unfold vcmp, epoch_of, revision_of. cbn [epoch upstream revision].
  destruct (match epoch x with Some e => e | None => 0%N end ?= match epoch y with Some e => e | None => 0%N end)%N; try reflexivity.
  destruct (part_cmp (upstream x) (upstream y)); try reflexivity.
  destruct (revision x) as [rx|], (revision y) as [ry|]; try reflexivity.
  - symmetry. apply (part_cmp_zero_empty rx).
  - symmetry. apply (part_cmp_zero_empty ry).
Qed.

(* ------------------------------------------------------------------ debversion's loops *)
Definition nd_part (s : str) : str := fst (span not_digit s).
Definition after_nd (s : str) : str := snd (span not_digit s).
Definition d_part (s : str) : str := fst (span is_digit (after_nd s)).
Definition tl_str (s : str) : str := snd (span is_digit (after_nd s)).
Definition hd_chunk (s : str) : list Z * N := (map order (nd_part s), num_of_digits 0 (d_part s)).

Lemma tl_str_le s : length (tl_str s) <= length s.
Proof.
  unfold tl_str, after_nd.
  destruct (span not_digit s) as [a s1] eqn:E1. cbn [snd].
  destruct (span is_digit s1) as [b s2] eqn:E2. cbn [snd].
  apply span_length in E1. apply span_length in E2. lia.
Qed.

Lemma tl_str_lt c r : length (tl_str (c :: r)) <= length r.
Proof.
  unfold tl_str, after_nd. cbn [span]. destruct (not_digit c) eqn:Hc.
  - destruct (span not_digit r) as [a s1] eqn:E1. cbn [snd].
    destruct (span is_digit s1) as [b s2] eqn:E2. cbn [snd].
    apply span_length in E1. apply span_length in E2. lia.
  - cbn [snd span]. unfold not_digit in Hc. apply negb_false_iff in Hc. rewrite Hc.
    destruct (span is_digit r) as [b s2] eqn:E2. cbn [snd]. apply span_length in E2. lia.
Qed.

Lemma chunks_unfold f c r :
  chunks (S f) (c :: r) = hd_chunk (c :: r) :: chunks f (tl_str (c :: r)).
Proof.
  unfold hd_chunk, nd_part, d_part, tl_str, after_nd. cbn [chunks].
  destruct (span not_digit (c :: r)) as [nd s1]. cbn [fst snd].
  destruct (span is_digit s1) as [ds s2]. reflexivity.
Qed.

Lemma runs_safe_unfold f c r :
  runs_safe (S f) (c :: r) =
  (num_of_digits 0 (d_part (c :: r)) <=? i32_max)%N && runs_safe f (tl_str (c :: r)).
Proof.
  unfold d_part, tl_str, after_nd. cbn [runs_safe].
  destruct (span not_digit (c :: r)) as [nd s1]. cbn [fst snd].
  destruct (span is_digit s1) as [ds s2]. reflexivity.
Qed.

Lemma chunks_fuel f1 : forall f2 s, length s <= f1 -> length s <= f2 -> chunks f1 s = chunks f2 s.
Proof.
  induction f1 as [|f1 IH]; intros f2 s H1 H2.
  - destruct s; [|cbn in H1; lia]. destruct f2; reflexivity.
  - destruct s as [|c r]; [destruct f2; reflexivity|].
    destruct f2 as [|f2]; [cbn in H2; lia|].
    rewrite !chunks_unfold. f_equal. pose proof (tl_str_lt c r). cbn in H1, H2. apply IH; lia.
Qed.

Lemma runs_safe_fuel f1 : forall f2 s, length s <= f1 -> length s <= f2 -> runs_safe f1 s = runs_safe f2 s.
Proof.
  induction f1 as [|f1 IH]; intros f2 s H1 H2.
  - destruct s; [|cbn in H1; lia]. destruct f2; reflexivity.
  - destruct s as [|c r]; [destruct f2; reflexivity|].
    destruct f2 as [|f2]; [cbn in H2; lia|].
    rewrite !runs_safe_unfold. f_equal. pose proof (tl_str_lt c r). cbn in H1, H2. apply IH; lia.
Qed.

Lemma hd_chunks f s : length s <= f -> hd chunk0 (chunks f s) = hd_chunk s.
Proof.
  intros H. destruct s as [|c r]; [destruct f; reflexivity|].
  destruct f as [|f]; [cbn in H; lia|]. rewrite chunks_unfold. reflexivity.
Qed.

Lemma tl_chunks f s : length s <= S f -> tl (chunks (S f) s) = chunks f (tl_str s).
Proof.
  intros H. destruct s as [|c r]; [destruct f; reflexivity|].
  rewrite chunks_unfold. reflexivity.
Qed.

Lemma chunks_nonempty f s : s <> [] -> length s <= f -> chunks f s <> [].
Proof.
  intros Hs H. destruct s as [|c r]; [congruence|]. destruct f; [cbn in H; lia|].
  rewrite chunks_unfold. discriminate.
Qed.

(* non_digit_cmp *)
Lemma nd_loop_nil lb : nd_loop [] lb = lexpad Z.compare 0%Z [] lb.
Proof.
  induction lb as [|b lb IH]; [reflexivity|].
  rewrite (lexpad_step Z.compare 0%Z) by (right; discriminate). cbn [hd tl].
  cbn [nd_loop] in *. destruct (0 ?= b)%Z; try reflexivity. exact IH.
Qed.

Lemma nd_loop_spec la : forall lb, nd_loop la lb = nd_cmp la lb.
Proof.
  unfold nd_cmp. induction la as [|a la IH]; intros lb; [apply nd_loop_nil|].
  rewrite (lexpad_step Z.compare 0%Z) by (left; discriminate). cbn [hd tl].
  destruct lb as [|b lb]; cbn [nd_loop hd tl].
  - destruct (a ?= 0)%Z; try reflexivity. apply IH.
  - destruct (a ?= b)%Z; try reflexivity. apply IH.
Qed.

Lemma order_r_nondigit c : not_digit c = true -> order_r c = Ok (order c).
Proof.
  unfold not_digit, order_r, order. intros H. apply negb_true_iff in H. rewrite H.
  destruct (c =? 126)%N; [reflexivity|]. destruct (is_alpha c); reflexivity.
Qed.

Lemma mapM_order s : forallb not_digit s = true -> mapM order_r s = Ok (map order s).
Proof.
  induction s as [|c r IH]; intros H; [reflexivity|].
  cbn [forallb] in H. apply andb_true_iff in H. destruct H as [Hc Hr].
  cbn [mapM map]. rewrite (order_r_nondigit c Hc). cbn [bind]. rewrite (IH Hr). reflexivity.
Qed.

Lemma nd_part_all s : forallb not_digit (nd_part s) = true.
Proof.
  unfold nd_part. destruct (span not_digit s) as [a b] eqn:E. cbn [fst]. eapply span_all. exact E.
Qed.

Lemma non_digit_cmp_spec a b :
  non_digit_cmp (nd_part a) (nd_part b) = Ok (nd_cmp (map order (nd_part a)) (map order (nd_part b))).
Proof.
  unfold non_digit_cmp. rewrite (mapM_order _ (nd_part_all a)), (mapM_order _ (nd_part_all b)).
  cbn [bind]. rewrite nd_loop_spec. reflexivity.
Qed.

Lemma vcp_unfold f a b : a <> [] \/ b <> [] ->
  version_cmp_part (S f) a b =
  match non_digit_cmp (nd_part a) (nd_part b) with
  | Ok Eq =>
      bind (digit_run_value (d_part a)) (fun a_num =>
      bind (digit_run_value (d_part b)) (fun b_num =>
        match N.compare a_num b_num with
        | Eq => version_cmp_part f (tl_str a) (tl_str b)
        | r => Ok r
        end))
  | r => r
  end.
Proof.
  intros H. unfold nd_part, d_part, tl_str, after_nd.
  destruct a as [|x a]; destruct b as [|y b]; [destruct H; congruence| | |];
    cbn [version_cmp_part];
    match goal with |- context [span not_digit ?u] => destruct (span not_digit u) as [and_ a1] end;
    try match goal with |- context [span not_digit ?u] => destruct (span not_digit u) as [bnd_ b1] end;
    cbn [fst snd span];
    repeat match goal with |- context [span is_digit ?u] =>
             let p := fresh "p" in let q := fresh "q" in destruct (span is_digit u) as [p q] end;
    reflexivity.
Qed.

Lemma digit_run_value_safe ds :
  (num_of_digits 0 ds <=? i32_max)%N = true -> digit_run_value ds = Ok (num_of_digits 0 ds).
Proof.
  intros H. destruct ds as [|x r]; [reflexivity|]. unfold digit_run_value, parse_i32. rewrite H. reflexivity.
Qed.

(* canonical fuel *)
Definition ch (s : str) : list (list Z * N) := chunks (length s) s.

Lemma tl_str_nil : tl_str [] = [].
Proof. reflexivity. Qed.

Lemma ch_hd s : hd chunk0 (ch s) = hd_chunk s.
Proof. apply hd_chunks. lia. Qed.

Lemma ch_tl s : tl (ch s) = ch (tl_str s).
Proof.
  unfold ch. destruct s as [|c r]; [reflexivity|].
  cbn [length]. rewrite chunks_unfold. cbn [tl].
  pose proof (tl_str_lt c r). apply chunks_fuel; lia.
Qed.

Lemma ch_nonempty s : s <> [] -> ch s <> [].
Proof. intros H. apply chunks_nonempty; [exact H|lia]. Qed.

Lemma str_safe_step s : str_safe s = true ->
  (num_of_digits 0 (d_part s) <=? i32_max)%N = true /\ str_safe (tl_str s) = true.
Proof.
  unfold str_safe. destruct s as [|c r]; [intros _; split; reflexivity|].
  cbn [length]. rewrite runs_safe_unfold. intros H. apply andb_true_iff in H. destruct H as [H1 H2].
  split; [exact H1|]. pose proof (tl_str_lt c r).
  rewrite (runs_safe_fuel (length (tl_str (c :: r))) (length r)); [exact H2|lia|lia].
Qed.

Lemma tl_lengths a b : a <> [] \/ b <> [] -> length (tl_str a) + length (tl_str b) < length a + length b.
Proof.
  intros [H|H].
  - destruct a as [|x a]; [congruence|]. pose proof (tl_str_lt x a). pose proof (tl_str_le b). cbn [length]. lia.
  - destruct b as [|y b]; [congruence|]. pose proof (tl_str_lt y b). pose proof (tl_str_le a). cbn [length]. lia.
Qed.

Lemma vcp_spec fuel : forall a b,
  length a + length b <= fuel -> str_safe a = true -> str_safe b = true ->
  version_cmp_part fuel a b = Ok (lexpad chunk_cmp chunk0 (ch a) (ch b)).
Proof.
  induction fuel as [|fuel IH]; intros a b Hf Sa Sb.
  - destruct a; [|cbn in Hf; lia]. destruct b; [|cbn in Hf; lia]. reflexivity.
  - assert (Hcase : (a = [] /\ b = []) \/ (a <> [] \/ b <> [])).
    { destruct a; [destruct b; [left; split; reflexivity|right; right; discriminate]|right; left; discriminate]. }
    destruct Hcase as [[-> ->]|Hne]; [reflexivity|].
    assert (Hc : ch a <> [] \/ ch b <> []) by (destruct Hne; [left|right]; apply ch_nonempty; assumption).
    rewrite (vcp_unfold fuel a b Hne), (lexpad_step chunk_cmp chunk0 _ _ Hc).
    rewrite !ch_hd, non_digit_cmp_spec.
    unfold chunk_cmp at 1. unfold hd_chunk. cbn [fst snd].
    destruct (nd_cmp (map order (nd_part a)) (map order (nd_part b))); try reflexivity.
    destruct (str_safe_step a Sa) as [Sa1 Sa2]. destruct (str_safe_step b Sb) as [Sb1 Sb2].
    rewrite (digit_run_value_safe _ Sa1), (digit_run_value_safe _ Sb1). cbn [bind].
    destruct (num_of_digits 0 (d_part a) ?= num_of_digits 0 (d_part b))%N; try reflexivity.
    rewrite !ch_tl. pose proof (tl_lengths a b Hne). apply IH; try assumption; lia.
Qed.

Theorem ver_cmp_safe x y : ver_safe x = true -> ver_safe y = true -> ver_cmp x y = Ok (vcmp x y).
Proof.
  unfold ver_safe. intros Hx Hy. apply andb_true_iff in Hx, Hy. destruct Hx as [Hxu Hxr], Hy as [Hyu Hyr].
  unfold ver_cmp, vcmp.
  destruct (epoch_of x =? epoch_of y)%N eqn:E; cbn [negb].
  - apply N.eqb_eq in E. rewrite E, N.compare_refl.
    unfold part_fuel, part_cmp.
    rewrite (vcp_spec _ (upstream x) (upstream y)) by (assumption || lia).
    fold (ch (upstream x)) (ch (upstream y)).
    destruct (lexpad chunk_cmp chunk0 (ch (upstream x)) (ch (upstream y))); try reflexivity.
    rewrite (vcp_spec _ (revision_of x) (revision_of y)) by (assumption || lia). reflexivity.
  - apply N.eqb_neq in E. destruct (epoch_of x ?= epoch_of y)%N eqn:C; try reflexivity.
    apply N.compare_eq in C. congruence.
Qed.

Corollary ver_eq_safe x y : ver_safe x = true -> ver_safe y = true -> ver_eq x y = Ok (veq x y).
Proof. intros Hx Hy. unfold ver_eq, veq. rewrite (ver_cmp_safe x y Hx Hy). reflexivity. Qed.
