(* wrap_and_sort on the layouts of ALL error-free documents (XGrammar.v): what the reformatted
   tree's text is, line by line, as a well-formed layout again -- so, by ParseImageP, the strict
   reader accepts the printed result and re-reads the reported content; with the layout facts
   (indentation, one blank line between paragraphs) read off that layout. *)
From V.model Require Import Base Deb822Lex Deb822Parse Grammar XGrammar Deb822Edit Deb822Wrap WrapSpec XWrapSpec.
From V.proofs Require Import BaseP Deb822LexP Deb822ParseP Deb822EditP Deb822WrapP WrapTokP ParseTokP ParseImageP.

(* the field step x_ws_field (the specification of what rebuild_value makes of any accepted field)
   is in model/XWrapSpec.v *)

(* ---- the value tokens of a field ---- *)
Definition ctoks (c : xcont) : list token := (NEWLINE, [xc_nl c]) :: pay_toks (xc_pay c).
Definition T1 (f : xfield) : list token :=
  let cs := strip_conts (x_cont f) in
  if is_pnone (head_pay f) && is_nil cs then []
  else opt_tok WHITESPACE (x_w0 f) ++ opt_tok WHITESPACE (x_w1 f) ++ pay_toks (head_pay f) ++ flat_map ctoks cs.

Lemma pay_toks_head f : pay_toks (head_pay f) = opt_tok VALUE (x_first f).
Proof. unfold head_pay. destruct (x_first f); reflexivity. Qed.

Lemma toks_of_telems ts : toks_of (telems ts) = ts.
Proof. induction ts as [|[k s] r IH]; [reflexivity|]. cbn [telems map fst snd toks_of flat_map app]. f_equal. exact IH. Qed.
Lemma filter_cfilt_telems ts : filter cfilt (telems ts) = telems (filter is_ctok ts).
Proof.
  induction ts as [|[k s] r IH]; [reflexivity|]. cbn [telems map fst snd filter]. unfold cfilt at 1, is_ctok at 1. cbn [ekind fst].
  destruct (ckind k); [cbn [telems map fst snd]; f_equal; exact IH|exact IH].
Qed.
Lemma filter_ctok_opt k s : ckind k = true -> filter is_ctok (opt_tok k s) = opt_tok k s.
Proof. intros H. destruct s; [reflexivity|]. cbn. unfold is_ctok. cbn [fst]. rewrite H. reflexivity. Qed.
Lemma filter_ctok_pay p : filter is_ctok (pay_toks p) = pay_toks p.
Proof. destruct p; reflexivity. Qed.
Lemma filter_ctok_xtail cs o : filter is_ctok (xtail cs o) = flat_map ctoks cs ++ onl_toks o.
Proof.
  induction cs as [|c cs IH]; [destruct o; reflexivity|]. rewrite xtail_cons. cbn [filter is_ctok fst ckind flat_map ctoks app].
  rewrite filter_app, filter_ctok_pay, IH, <- app_assoc. reflexivity.
Qed.

Definition T0 (f : xfield) : list token :=
  opt_tok WHITESPACE (x_w0 f) ++ opt_tok WHITESPACE (x_w1 f) ++ opt_tok VALUE (x_first f) ++ flat_map ctoks (x_cont f) ++ onl_toks (x_nl f).

Lemma content_xfield f : toks_of (filter cfilt (telems (xfield_toks f))) = T0 f.
Proof.
  rewrite filter_cfilt_telems, toks_of_telems. unfold xfield_toks, T0. fold (xtail (x_cont f) (x_nl f)).
  cbn [filter is_ctok fst ckind]. rewrite filter_app, (filter_ctok_opt WHITESPACE _ eq_refl). f_equal.
  cbn [filter is_ctok fst ckind]. rewrite filter_app, (filter_ctok_opt WHITESPACE _ eq_refl). f_equal.
  rewrite filter_app, (filter_ctok_opt VALUE _ eq_refl), filter_ctok_xtail. reflexivity.
Qed.

(* ---- stripping ---- *)
Lemma stripT_app_strippable X S : forallb strippable S = true -> stripT (X ++ S) = stripT X.
Proof.
  intros H. unfold stripT. rewrite rev_app_distr. f_equal.
  assert (Hr : forallb strippable (rev S) = true).
  { rewrite forallb_forall in *. intros x Hx. apply H. apply in_rev. exact Hx. }
  induction (rev S) as [|x r IH]; [reflexivity|]. cbn [forallb] in Hr. apply andb_true_iff in Hr. destruct Hr as [Hx Hr].
  cbn [app drop_while]. unfold strippable in Hx. rewrite Hx. exact (IH Hr).
Qed.
Lemma stripT_all S : forallb strippable S = true -> stripT S = [].
Proof. intros H. rewrite <- (app_nil_l S), (stripT_app_strippable [] S H). reflexivity. Qed.

Lemma strip_conts_split cs : exists bl, cs = strip_conts cs ++ bl /\ forallb blank_cont bl = true.
Proof.
  destruct (drop_while_suffix blank_cont (rev cs)) as (a & Ha & E). exists (rev a). split.
  - unfold strip_conts. rewrite <- rev_app_distr, <- E, rev_involutive. reflexivity.
  - rewrite forallb_forall in *. intros x Hx. apply Ha. apply in_rev. exact Hx.
Qed.
Lemma drop_while_head {A} (p : A -> bool) l : match drop_while p l with [] => True | x :: _ => p x = false end.
Proof. induction l as [|x r IH]; [exact I|]. cbn [drop_while]. destruct (p x) eqn:E; [exact IH|exact E]. Qed.
Lemma strip_conts_last cs : strip_conts cs = [] \/ exists cs' c, strip_conts cs = cs' ++ [c] /\ blank_cont c = false.
Proof.
  unfold strip_conts. pose proof (drop_while_head blank_cont (rev cs)) as H. destruct (drop_while blank_cont (rev cs)) as [|c r]; [left; reflexivity|].
  right. exists (rev r), c. split; [reflexivity|exact H].
Qed.

Lemma blank_ctoks_strippable bl : forallb blank_cont bl = true -> forallb strippable (flat_map ctoks bl) = true.
Proof.
  induction bl as [|c r IH]; [reflexivity|]. cbn [forallb]. intros H. apply andb_true_iff in H. destruct H as [Hc Hr].
  cbn [flat_map]. rewrite forallb_app, (IH Hr), andb_true_r. unfold ctoks. unfold blank_cont in Hc. destruct (xc_pay c); try discriminate. reflexivity.
Qed.

Lemma stripped_snoc X t : strippable t = false -> stripped (X ++ [t]).
Proof. intros H. unfold stripped. rewrite rev_app_distr. cbn. exact H. Qed.

Lemma ctoks_snoc_stripped X cs' c : blank_cont c = false -> stripped (X ++ flat_map ctoks (cs' ++ [c])).
Proof.
  intros H. rewrite flat_map_app. cbn [flat_map]. rewrite app_nil_r. unfold ctoks at 2. unfold blank_cont in H.
  destruct (xc_pay c) as [t|cm|]; [| |discriminate]; cbn [pay_toks].
  - replace (X ++ flat_map ctoks cs' ++ [(NEWLINE, [xc_nl c]); (VALUE, t)]) with ((X ++ flat_map ctoks cs' ++ [(NEWLINE, [xc_nl c])]) ++ [(VALUE, t)])
      by (rewrite <- !app_assoc; reflexivity). apply stripped_snoc. reflexivity.
  - replace (X ++ flat_map ctoks cs' ++ [(NEWLINE, [xc_nl c]); (COMMENT, 35%N :: cm)]) with ((X ++ flat_map ctoks cs' ++ [(NEWLINE, [xc_nl c])]) ++ [(COMMENT, 35%N :: cm)])
      by (rewrite <- !app_assoc; reflexivity). apply stripped_snoc. reflexivity.
Qed.

Lemma opt_ws_strippable w : forallb strippable (opt_tok WHITESPACE w) = true.
Proof. destruct w; reflexivity. Qed.

Lemma entry_T_xfield f : entry_T (telems (xfield_toks f)) = T1 f.
Proof.
  unfold entry_T. rewrite content_xfield. unfold T0, T1.
  destruct (strip_conts_split (x_cont f)) as (bl & E & Hbl). set (cs := strip_conts (x_cont f)) in *.
  rewrite E at 1. rewrite flat_map_app.
  replace (opt_tok WHITESPACE (x_w0 f) ++ opt_tok WHITESPACE (x_w1 f) ++ opt_tok VALUE (x_first f) ++ (flat_map ctoks cs ++ flat_map ctoks bl) ++ onl_toks (x_nl f))
    with ((opt_tok WHITESPACE (x_w0 f) ++ opt_tok WHITESPACE (x_w1 f) ++ opt_tok VALUE (x_first f) ++ flat_map ctoks cs) ++ (flat_map ctoks bl ++ onl_toks (x_nl f)))
    by (rewrite <- !app_assoc; reflexivity).
  rewrite stripT_app_strippable.
  2:{ rewrite forallb_app, (blank_ctoks_strippable bl Hbl). destruct (x_nl f); reflexivity. }
  rewrite <- pay_toks_head.
  destruct (strip_conts_last (x_cont f)) as [Ec|(cs' & c & Ec & Hc)]; fold cs in Ec; rewrite Ec.
  - cbn [flat_map is_nil andb]. rewrite app_nil_r, andb_true_r. unfold head_pay. destruct (x_first f) as [|x t]; cbn [is_pnone pay_toks].
    + rewrite app_nil_r. apply stripT_all. rewrite forallb_app, !opt_ws_strippable. reflexivity.
    + apply stripT_id. rewrite !app_assoc. apply stripped_snoc. reflexivity.
  - assert (En : is_nil (cs' ++ [c]) = false) by (destruct cs'; reflexivity). rewrite En, andb_false_r.
    apply stripT_id. rewrite !app_assoc. apply ctoks_snoc_stripped. exact Hc.
Qed.

(* ---- the pieces of rebuild_value on these tokens ---- *)
Lemma existsb_app' {A} (p : A -> bool) a b : existsb p (a ++ b) = existsb p a || existsb p b.
Proof. apply existsb_app. Qed.

Lemma no_nl_opt k s : kind_eqb k NEWLINE = false -> existsb is_nl_tok (opt_tok k s) = false.
Proof. intros H. destruct s; [reflexivity|]. cbn. unfold is_nl_tok. cbn [fst]. rewrite H. reflexivity. Qed.
Lemma no_nl_pay p : existsb is_nl_tok (pay_toks p) = false.
Proof. destruct p; reflexivity. Qed.
Lemma nl_ctoks cs : existsb is_nl_tok (flat_map ctoks cs) = negb (is_nil cs).
Proof. destruct cs; reflexivity. Qed.

Lemma has_newline_T1 f : has_newline (T1 f) = negb (is_nil (strip_conts (x_cont f))).
Proof.
  unfold T1, has_newline. destruct (is_pnone (head_pay f) && is_nil (strip_conts (x_cont f))) eqn:E.
  - apply andb_true_iff in E. destruct E as [_ E]. rewrite E. reflexivity.
  - rewrite !existsb_app, (no_nl_opt WHITESPACE _ eq_refl), (no_nl_opt WHITESPACE _ eq_refl), no_nl_pay, nl_ctoks. reflexivity.
Qed.

Definition sz (ts : list token) : N := fold_right (fun t a => (utf8_size (snd t) + a)%N) 0%N ts.
Lemma sz_app a b : sz (a ++ b) = (sz a + sz b)%N.
Proof. induction a as [|t r IH]; [reflexivity|]. cbn [app sz fold_right] in *. fold (sz (r ++ b)). fold (sz r). rewrite IH. lia. Qed.
Lemma sz_opt k s : sz (opt_tok k s) = utf8_size s.
Proof. destruct s; [reflexivity|]. cbn [opt_tok sz fold_right snd]. lia. Qed.
Lemma take_while_all {A} (p : A -> bool) l : forallb p l = true -> take_while p l = l.
Proof. induction l as [|x r IH]; [reflexivity|]. cbn [forallb take_while]. intros H. apply andb_true_iff in H. destruct H as [Hx Hr]. rewrite Hx, (IH Hr). reflexivity. Qed.
Lemma forallb_negb_existsb {A} (p : A -> bool) l : existsb p l = false -> forallb (fun x => negb (p x)) l = true.
Proof. induction l as [|x r IH]; [reflexivity|]. cbn [existsb forallb]. intros H. apply orb_false_iff in H. destruct H as [Hx Hr]. rewrite Hx, (IH Hr). reflexivity. Qed.

Lemma fll_T1 f kl : strip_conts (x_cont f) = [] ->
  first_line_len (T1 f) kl =
  ((if is_pnone (head_pay f) then 0 else utf8_size (x_w0 f) + utf8_size (x_w1 f) + utf8_size (x_first f)) + kl + 2)%N.
Proof.
  intros E. unfold first_line_len. fold (sz (take_while (fun t => negb (is_nl_tok t)) (T1 f))).
  rewrite take_while_all by (apply forallb_negb_existsb; fold (has_newline (T1 f)); rewrite has_newline_T1, E; reflexivity).
  unfold T1. rewrite E. cbn [is_nil andb flat_map]. rewrite andb_true_r. destruct (is_pnone (head_pay f)) eqn:Ep; [reflexivity|].
  rewrite !sz_app, !sz_opt, pay_toks_head, sz_opt. cbn [sz fold_right]. lia.
Qed.

Lemma drop_blank_toks cs : forall p, drop_while is_nl_or_ws_tok (pay_toks p ++ flat_map ctoks cs) =
  pay_toks (fst (drop_blank p cs)) ++ flat_map ctoks (snd (drop_blank p cs)).
Proof.
  induction cs as [|c r IH]; intros p.
  - destruct p; reflexivity.
  - destruct p as [t|cm|]; try reflexivity. cbn [pay_toks app flat_map drop_blank]. unfold ctoks at 1. cbn [app drop_while is_nl_or_ws_tok fst kind_eqb kind_code N.eqb Pos.eqb orb].
    apply IH.
Qed.

Lemma drop_ws_opt w X : drop_while is_nl_or_ws_tok (opt_tok WHITESPACE w ++ X) = drop_while is_nl_or_ws_tok X.
Proof. destruct w; reflexivity. Qed.

Lemma drop_T1 f : drop_while is_nl_or_ws_tok (T1 f) =
  pay_toks (fst (drop_blank (head_pay f) (strip_conts (x_cont f)))) ++ flat_map ctoks (snd (drop_blank (head_pay f) (strip_conts (x_cont f)))).
Proof.
  unfold T1. destruct (is_pnone (head_pay f) && is_nil (strip_conts (x_cont f))) eqn:E.
  - apply andb_true_iff in E. destruct E as [E1 E2]. destruct (head_pay f); try discriminate. destruct (strip_conts (x_cont f)); [reflexivity|discriminate].
  - rewrite !drop_ws_opt. apply drop_blank_toks.
Qed.

Lemma drop_blank_none cs : forall p, fst (drop_blank p cs) = PNone -> snd (drop_blank p cs) = [].
Proof.
  induction cs as [|c r IH]; intros p H; [destruct p; reflexivity|]. destruct p; try discriminate. cbn [drop_blank] in *. apply IH, H.
Qed.

(* the last line holds something *)
Definition full_end (p : xpay) (cs : list xcont) : Prop := is_pnone (last (map xc_pay cs) p) = false.
Lemma last_cons {A} (a : A) l d : last (a :: l) d = last l a.
Proof. revert a d. induction l as [|b r IH]; intros a d; [reflexivity|]. change (last (a :: b :: r) d) with (last (b :: r) d). rewrite (IH b d), (IH b a). reflexivity. Qed.

Lemma drop_blank_full cs : forall p, full_end p cs -> full_end (fst (drop_blank p cs)) (snd (drop_blank p cs)).
Proof.
  induction cs as [|c r IH]; intros p H; [destruct p; exact H|]. destruct p; try exact H. cbn [drop_blank]. apply IH.
  unfold full_end in *. cbn [map] in H. rewrite last_cons in H. exact H.
Qed.

Lemma strip_conts_full p cs : strip_conts cs <> [] -> full_end p (strip_conts cs).
Proof.
  intros Hne. destruct (strip_conts_last cs) as [E|(cs' & c & E & Hc)]; [congruence|]. rewrite E. unfold full_end.
  rewrite map_app. cbn [map]. rewrite last_last. exact Hc.
Qed.

Lemma texts_tok_elem t : text (tok_elem t) = snd t.
Proof. destruct t; reflexivity. Qed.

Lemma tstr_xcont_reindent n c : tstr (xcont_toks (reindent n c)) = xc_nl c :: spaces n ++ tstr (pay_toks (xc_pay c)).
Proof. unfold xcont_toks, reindent. cbn [xc_nl xc_ind xc_pay]. rewrite !tstr_cons. reflexivity. Qed.

Lemma tstr_xcont_mk nl i p : tstr (xcont_toks (mk_xcont nl i p)) = nl :: i ++ tstr (pay_toks p).
Proof. unfold xcont_toks. cbn [xc_nl xc_ind xc_pay]. rewrite !tstr_cons. reflexivity. Qed.

Lemma emit_cons n lwn t r : emit_indented n lwn (t :: r) =
  ((if lwn then [Tok INDENT (spaces n)] else []) ++ tok_elem t :: fst (emit_indented n (is_nl_tok t) r), snd (emit_indented n (is_nl_tok t) r)).
Proof. cbn [emit_indented]. destruct (emit_indented n (is_nl_tok t) r). reflexivity. Qed.

Lemma emit_text n cs : forall p lwn, full_end p cs ->
  texts (fst (emit_indented n lwn (pay_toks p ++ flat_map ctoks cs))) =
    (if lwn then spaces n else []) ++ tstr (pay_toks p) ++ tstr (flat_map xcont_toks (map (reindent n) cs)) /\
  snd (emit_indented n lwn (pay_toks p ++ flat_map ctoks cs)) = false.
Proof.
  induction cs as [|c r IH]; intros p lwn H.
  - unfold full_end in H. cbn [map last] in H. cbn [flat_map map]. rewrite app_nil_r, tstr_nil, app_nil_r.
    destruct p as [t|cm|]; [| |discriminate]; cbn [pay_toks emit_indented fst snd]; rewrite texts_app, texts_cons, texts_nil, app_nil_r, tstr_cons, tstr_nil, app_nil_r;
      (split; [|reflexivity]); destruct lwn; cbn; rewrite ?app_nil_r; reflexivity.
  - assert (Hr : full_end (xc_pay c) r) by (unfold full_end in *; cbn [map] in H; rewrite last_cons in H; exact H).
    destruct (IH (xc_pay c) true Hr) as [IH1 IH2].
    cbn [flat_map map]. rewrite tstr_app, tstr_xcont_reindent. change (ctoks c) with ((NEWLINE, [xc_nl c]) :: pay_toks (xc_pay c)). cbn [app]. rewrite <- ?app_assoc.
    assert (Enl : forall lw, texts (fst (emit_indented n lw ((NEWLINE, [xc_nl c]) :: pay_toks (xc_pay c) ++ flat_map ctoks r))) =
                (if lw then spaces n else []) ++ xc_nl c :: spaces n ++ tstr (pay_toks (xc_pay c)) ++ tstr (flat_map xcont_toks (map (reindent n) r)) /\
                snd (emit_indented n lw ((NEWLINE, [xc_nl c]) :: pay_toks (xc_pay c) ++ flat_map ctoks r)) = false).
    { intros lw. rewrite emit_cons. change (is_nl_tok (NEWLINE, [xc_nl c])) with true. cbn [fst snd].
      split; [|exact IH2]. rewrite texts_app, texts_cons, IH1. destruct lw; cbn; rewrite ?app_nil_r; reflexivity. }
    destruct p as [t|cm|]; cbn [pay_toks app].
    + rewrite emit_cons. change (is_nl_tok (VALUE, t)) with false. destruct (Enl false) as [E1 E2]. cbn [fst snd].
      split; [|exact E2]. rewrite texts_app, texts_cons, E1, tstr_cons, tstr_nil. cbn [tok_elem fst snd text app]. rewrite <- ?app_assoc.
      destruct lwn; cbn [texts flat_map text app]; rewrite ?app_nil_r; reflexivity.
    + rewrite emit_cons. change (is_nl_tok (COMMENT, 35%N :: cm)) with false. destruct (Enl false) as [E1 E2]. cbn [fst snd].
      split; [|exact E2]. rewrite texts_app, texts_cons, E1, tstr_cons, tstr_nil. cbn [tok_elem fst snd text app]. rewrite <- ?app_assoc.
      destruct lwn; cbn [texts flat_map text app]; rewrite ?app_nil_r; reflexivity.
    + rewrite tstr_nil. cbn [app]. apply Enl.
Qed.

(* ---- the key, the colon, the indentation width ---- *)
Definition nokc (ts : list token) : bool :=
  forallb (fun t => negb (kind_eqb (fst t) KEY) && negb (kind_eqb (fst t) COLON)) ts.
Lemma nokc_built ts : nokc ts = true -> built_of (telems ts) = [] /\ forall ind, ind_after ind (telems ts) = ind.
Proof.
  induction ts as [|[k s] r IH]; intros H; [split; reflexivity|]. cbn [nokc forallb fst] in H. apply andb_true_iff in H. destruct H as [Hk Hr].
  destruct (IH Hr) as [A B]. rewrite telems_cons. split.
  - change (built_of (Tok k s :: telems r)) with ((match k with KEY => [Tok KEY s] | COLON => [Tok COLON [58%N]] | _ => [] end) ++ built_of (telems r)).
    rewrite A. destruct k; try reflexivity; discriminate.
  - intros ind. destruct k; try discriminate; cbn [ind_after]; apply B.
Qed.
Lemma nokc_opt k s : negb (kind_eqb k KEY) && negb (kind_eqb k COLON) = true -> nokc (opt_tok k s) = true.
Proof. intros H. destruct s; [reflexivity|]. cbn [opt_tok nokc forallb fst]. rewrite H. reflexivity. Qed.
Lemma nokc_xtail cs o : nokc (xtail cs o) = true.
Proof.
  induction cs as [|c r IH]; [destruct o; reflexivity|]. rewrite xtail_cons. unfold nokc in *. cbn [forallb fst kind_eqb kind_code N.eqb Pos.eqb negb andb].
  rewrite forallb_app, IH, andb_true_r. destruct (xc_pay c); reflexivity.
Qed.

Lemma xfield_shape ind f :
  built_of (telems (xfield_toks f)) = [Tok KEY (x_name f); Tok COLON [58%N]] /\
  entry_n ind (telems (xfield_toks f)) = xn ind f /\
  entry_kl (telems (xfield_toks f)) = utf8_size (x_name f).
Proof.
  unfold xfield_toks. fold (xtail (x_cont f) (x_nl f)).
  assert (N1 : nokc (opt_tok WHITESPACE (x_w0 f)) = true) by (apply nokc_opt; reflexivity).
  assert (N2 : nokc (opt_tok WHITESPACE (x_w1 f) ++ opt_tok VALUE (x_first f) ++ xtail (x_cont f) (x_nl f)) = true).
  { unfold nokc. rewrite !forallb_app. fold (nokc (opt_tok WHITESPACE (x_w1 f))). fold (nokc (opt_tok VALUE (x_first f))). fold (nokc (xtail (x_cont f) (x_nl f))).
    rewrite nokc_xtail, !nokc_opt; reflexivity. }
  destruct (nokc_built _ N1) as [A1 B1]. destruct (nokc_built _ N2) as [A2 B2].
  rewrite telems_cons, telems_app, telems_cons. split; [|split].
  - change (built_of (Tok KEY (x_name f) :: ?X)) with (Tok KEY (x_name f) :: built_of X). rewrite built_of_app, A1. cbn [app].
    change (built_of (Tok COLON [58%N] :: ?X)) with (Tok COLON [58%N] :: built_of X). rewrite A2. reflexivity.
  - unfold entry_n. cbn [ind_after]. rewrite ind_after_app, B1. cbn [ind_after]. rewrite B2. unfold xn. destruct ind; reflexivity.
  - reflexivity.
Qed.

Lemma xfield_text_eq f : tstr (xfield_toks f) =
  x_name f ++ x_w0 f ++ 58%N :: x_w1 f ++ x_first f ++ tstr (flat_map xcont_toks (x_cont f)) ++ tstr (onl_toks (x_nl f)).
Proof.
  rewrite <- (app_nil_r (tstr (xfield_toks f))), xfield_toks_text. unfold xtail. rewrite tstr_app, app_nil_r. reflexivity.
Qed.

Lemma texts_map_tok_elem T : texts (map tok_elem T) = tstr T.
Proof. induction T as [|[k s] r IH]; [reflexivity|]. cbn [map]. rewrite texts_cons, texts_tok_elem, tstr_cons, IH. reflexivity. Qed.

Lemma keep_first_pay p X : (p = PNone -> X = []) -> keep_first fixed (pay_toks p ++ X) = pay_hash p.
Proof. intros H. destruct p; try reflexivity. rewrite (H eq_refl). reflexivity. Qed.
Lemma comment_first_pay p X : (p = PNone -> X = []) -> comment_first fixed (pay_toks p ++ X) = is_pcom p.
Proof. intros H. destruct p; try reflexivity. rewrite (H eq_refl). reflexivity. Qed.

(* ---------------------------------------------------------------- the reformatted field, as text *)
Theorem e_out_xfield ind iel mll f :
  texts (children (e_out ind iel mll (xfield_tree f))) = tstr (xfield_toks (x_ws_field (xn ind f) iel mll f)).
Proof.
  unfold e_out, entry_out, xfield_tree. cbn [children].
  destruct (xfield_shape ind f) as (Eb & En & Ek). rewrite Eb, En, Ek, entry_T_xfield. set (n := xn ind f). set (kl := utf8_size (x_name f)).
  rewrite texts_app. cbn [texts flat_map text app].
  unfold rebuild_value, x_ws_field. rewrite has_newline_T1. set (cs := strip_conts (x_cont f)).
  (* the one-line test *)
  assert (Econd : (match mll with Some m => (first_line_len (T1 f) kl <=? m)%N | None => false end) && negb (negb (is_nil cs)) =
                  (match mll with Some m => ((if is_pnone (head_pay f) && is_nil cs then utf8_size (x_name f) + 2
                     else utf8_size (x_w0 f) + utf8_size (x_w1 f) + utf8_size (x_first f) + utf8_size (x_name f) + 2) <=? m)%N | None => false end) && is_nil cs).
  { rewrite negb_involutive. destruct (is_nil cs) eqn:Ec; [|rewrite !andb_false_r; reflexivity]. rewrite !andb_true_r.
    assert (cs = []) by (destruct cs; [reflexivity|discriminate]). rewrite (fll_T1 f kl H). destruct mll as [m|]; [|reflexivity].
    f_equal. unfold kl. destruct (is_pnone (head_pay f)); lia. }
  rewrite Econd. clear Econd.
  destruct ((match mll with Some m => _ | None => false end) && is_nil cs) eqn:Ec.
  - (* one line *)
    apply andb_true_iff in Ec. destruct Ec as [_ Ec]. assert (Ecs : cs = []) by (destruct cs; [reflexivity|discriminate]).
    rewrite texts_app, texts_map_tok_elem. unfold T1. fold cs. rewrite Ecs. cbn [is_nil andb flat_map]. rewrite andb_true_r.
    destruct (is_pnone (head_pay f)) eqn:Ep; rewrite xfield_text_eq; cbn [x_name x_w0 x_w1 x_first x_cont x_nl flat_map onl_toks].
    + cbn. rewrite <- app_assoc. reflexivity.
    + rewrite !tstr_app, !tstr_opt, pay_toks_head, tstr_opt, app_nil_r. cbn [app texts flat_map text tstr map concat snd]. rewrite <- !app_assoc. reflexivity.
  - (* several lines, or too long *)
    clear Ec. rewrite drop_T1. fold cs. destruct (drop_blank (head_pay f) cs) as [p1 rest] eqn:Ed. cbn [fst snd].
    assert (Hnone : p1 = PNone -> flat_map ctoks rest = []).
    { intros ->. pose proof (drop_blank_none cs (head_pay f)) as H. rewrite Ed in H. cbn [fst snd] in H. rewrite (H eq_refl). reflexivity. }
    rewrite (keep_first_pay p1 _ Hnone), (comment_first_pay p1 _ Hnone).
    set (down := (iel && negb (is_nil cs) && negb (pay_hash p1)) || is_pcom p1).
    assert (Hfull : cs <> [] \/ is_pnone (head_pay f) = false -> full_end p1 rest).
    { intros H. pose proof (drop_blank_full cs (head_pay f)) as Hd. rewrite Ed in Hd. cbn [fst snd] in Hd. apply Hd.
      destruct (is_nil cs) eqn:Ec; [|apply strip_conts_full; intros E; fold cs in E; rewrite E in Ec; discriminate].
      assert (cs = []) by (destruct cs; [reflexivity|discriminate]). destruct H as [H|H]; [congruence|]. rewrite H0. exact H. }
    destruct (is_pnone p1) eqn:Ep1.
    + (* nothing at all *)
      destruct p1; try discriminate. rewrite (Hnone eq_refl). cbn [pay_toks app emit_indented].
      assert (Ecs : cs = []).
      { destruct cs as [|c0 r0] eqn:Ecs'; [reflexivity|]. exfalso. assert (Hf : full_end PNone rest) by (apply Hfull; left; discriminate). 
        unfold full_end in Hf. pose proof (drop_blank_none (c0 :: r0) (head_pay f)) as H. rewrite Ed in H. cbn [fst snd] in H. rewrite (H eq_refl) in Hf. discriminate. }
      assert (Edown : down = false) by (unfold down; rewrite Ecs; cbn [is_nil negb]; rewrite andb_false_r; reflexivity).
      rewrite Edown. pose proof (drop_blank_none cs (head_pay f)) as H. rewrite Ed in H. cbn [fst snd] in H. rewrite (H eq_refl).
      rewrite xfield_text_eq. cbn. rewrite <- app_assoc. reflexivity.
    + assert (Hf : full_end p1 rest).
      { apply Hfull. destruct cs as [|c0 r0]; [right|left; discriminate]. cbn [drop_blank] in Ed.
        destruct (head_pay f); injection Ed as <- _; [reflexivity|reflexivity|discriminate]. }
      destruct (emit_text n rest p1 down Hf) as [Et El].
      destruct (emit_indented n down (pay_toks p1 ++ flat_map ctoks rest)) as [e l]. cbn [fst snd] in Et, El. subst l.
      rewrite !texts_app, Et, xfield_text_eq. destruct down eqn:Edown.
      * cbn [x_name x_w0 x_w1 x_first x_cont x_nl flat_map onl_toks app texts text].
        rewrite tstr_app, tstr_xcont_mk. cbn [app tstr map concat snd]. rewrite <- ?app_assoc. reflexivity.
      * assert (Ev : exists v, p1 = PVal v).
        { destruct p1 as [v|cm|]; [exists v; reflexivity| |discriminate]. unfold down in Edown. cbn [is_pcom] in Edown. rewrite orb_true_r in Edown. discriminate. }
        destruct Ev as [v ->]. cbn [x_name x_w0 x_w1 x_first x_cont x_nl flat_map onl_toks app texts text pay_toks].
        rewrite !tstr_cons, tstr_nil. cbn [app]. rewrite <- !app_assoc. reflexivity.
Qed.

(* ---------------------------------------------------------------- the reformatted field is well-formed, with the same name and value *)
Lemma spaces_ws n : ws_ok (spaces n) = true.
Proof. unfold spaces, ws_ok. induction (N.to_nat n) as [|k IH]; [reflexivity|]. cbn [repeat forallb]. rewrite IH. reflexivity. Qed.
Lemma spaces_nonempty n : (n =? 0)%N = false -> nonempty (spaces n) = true.
Proof.
  intros H. unfold spaces. apply N.eqb_neq in H. destruct (N.to_nat n) eqn:E; [lia|reflexivity].
Qed.

(* what is known of a payload wherever it stands: on the first line or on a continuation line *)
Definition pay_fok (p : xpay) : bool :=
  match p with PVal t => first_ok t && nonempty t | PCom c => no_eol c | PNone => true end.
Lemma pay_ok_fok p : pay_ok p = true -> pay_fok p = true.
Proof.
  destruct p as [t|c|]; cbn [pay_ok pay_fok]; try trivial. intros H. apply andb_true_iff in H. destruct H as [H1 H2].
  unfold first_ok. rewrite H1. destruct t as [|x t]; [discriminate|]. apply andb_true_iff in H2. destruct H2 as [H2 _]. rewrite H2. reflexivity.
Qed.

Lemma drop_blank_props cs : forall p, pay_fok p = true -> forallb xcont_ok cs = true ->
  pay_fok (fst (drop_blank p cs)) = true /\ forallb xcont_ok (snd (drop_blank p cs)) = true.
Proof.
  induction cs as [|c r IH]; intros p Hp Hcs; [destruct p; split; assumption|].
  destruct p; try (split; assumption). cbn [drop_blank]. cbn [forallb] in Hcs. apply andb_true_iff in Hcs. destruct Hcs as [Hc Hr].
  apply IH; [|exact Hr]. apply pay_ok_fok. unfold xcont_ok in Hc. apply andb_true_iff in Hc. apply Hc.
Qed.

Lemma strip_conts_ok cs : forallb xcont_ok cs = true -> forallb xcont_ok (strip_conts cs) = true.
Proof.
  intros H. destruct (strip_conts_split cs) as (bl & E & _). rewrite E, forallb_app in H. apply andb_true_iff in H. apply H.
Qed.

Lemma reindent_ok n c : (n =? 0)%N = false -> xcont_ok c = true -> xcont_ok (reindent n c) = true.
Proof.
  intros Hn H. unfold xcont_ok in *. cbn [reindent xc_nl xc_ind xc_pay]. rewrite (spaces_nonempty n Hn), spaces_ws.
  repeat (apply andb_true_iff in H; destruct H as [H ?]). rewrite H, H0. reflexivity.
Qed.

Lemma head_pay_fok f : first_ok (x_first f) = true -> pay_fok (head_pay f) = true.
Proof. unfold head_pay. destruct (x_first f) as [|x t] eqn:E; [reflexivity|]. intros H. cbn [pay_fok]. rewrite H. reflexivity. Qed.

Theorem x_ws_field_wf n iel mll f more : xwf_field f more = true -> (n =? 0)%N = false ->
  xwf_field (x_ws_field n iel mll f) true = true.
Proof.
  intros Hwf Hn. unfold xwf_field in Hwf.
  repeat (apply andb_true_iff in Hwf; let H := fresh "W" in destruct Hwf as [Hwf H]).
  unfold x_ws_field. set (cs := strip_conts (x_cont f)).
  destruct ((match mll with Some m => _ | None => false end) && is_nil cs).
  - destruct (is_pnone (head_pay f) && is_nil cs); unfold xwf_field; cbn [x_name x_w0 x_w1 x_first x_cont x_nl]; rewrite Hwf; [reflexivity|].
    unfold ws_ok in *. rewrite forallb_app, W3, W2, W1. reflexivity.
  - destruct (drop_blank_props cs (head_pay f) (head_pay_fok f W1) (strip_conts_ok _ W0)) as [P1 P2].
    destruct (drop_blank (head_pay f) cs) as [p1 rest]. cbn [fst snd] in P1, P2.
    assert (Hrest : forallb xcont_ok (map (reindent n) rest) = true).
    { rewrite forallb_forall in *. intros x Hx. apply in_map_iff in Hx. destruct Hx as (c & <- & Hc). apply reindent_ok; [exact Hn|apply P2, Hc]. }
    destruct ((iel && negb (is_nil cs) && negb (pay_hash p1)) || is_pcom p1) eqn:Ed; unfold xwf_field; cbn [x_name x_w0 x_w1 x_first x_cont x_nl]; rewrite Hwf.
    + cbn [ws_ok forallb first_ok no_eol andb]. rewrite Hrest, andb_true_r. unfold xcont_ok. cbn [xc_nl xc_ind xc_pay].
      rewrite (spaces_nonempty n Hn), spaces_ws. cbn [is_newline LF N.eqb Pos.eqb orb andb].
      destruct p1 as [t|c|]; cbn [pay_ok]; [|rewrite andb_true_r; exact P1|reflexivity].
      cbn [pay_fok] in P1. apply andb_true_iff in P1. destruct P1 as [P1 Pne]. unfold first_ok in P1. apply andb_true_iff in P1. destruct P1 as [P1 P1'].
      rewrite P1. destruct t as [|x t]; [discriminate|]. rewrite P1'. cbn [is_pcom pay_hash starts_with_hash] in Ed. rewrite orb_false_r in Ed.
      apply andb_true_iff in Ed. destruct Ed as [_ Ed]. rewrite Ed. reflexivity.
    + rewrite Hrest. cbn [ws_ok forallb is_indent N.eqb Pos.eqb orb andb]. rewrite andb_true_r.
      destruct p1 as [t|c|]; [|reflexivity|reflexivity]. cbn [pay_fok] in P1. apply andb_true_iff in P1. destruct P1 as [P1 _]. rewrite P1. reflexivity.
Qed.

Definition vals (p : xpay) (cs : list xcont) : list str := pay_values p ++ flat_map (fun c => pay_values (xc_pay c)) cs.
Lemma xfield_value_vals f : xfield_value f = join [LF] (vals (head_pay f) (x_cont f)).
Proof. unfold xfield_value, vals, head_pay. destruct (x_first f); reflexivity. Qed.

Lemma vals_blank bl : forallb blank_cont bl = true -> flat_map (fun c => pay_values (xc_pay c)) bl = [].
Proof.
  induction bl as [|c r IH]; [reflexivity|]. cbn [forallb flat_map]. intros H. apply andb_true_iff in H. destruct H as [Hc Hr]. rewrite (IH Hr).
  unfold blank_cont in Hc. destruct (xc_pay c); try discriminate. reflexivity.
Qed.
Lemma vals_strip p cs : vals p (strip_conts cs) = vals p cs.
Proof.
  destruct (strip_conts_split cs) as (bl & E & Hbl). unfold vals. rewrite E at 2. rewrite flat_map_app, (vals_blank bl Hbl), app_nil_r. reflexivity.
Qed.
Lemma vals_drop cs : forall p, vals (fst (drop_blank p cs)) (snd (drop_blank p cs)) = vals p cs.
Proof.
  induction cs as [|c r IH]; intros p; [destruct p; reflexivity|]. destruct p; try reflexivity. cbn [drop_blank]. rewrite IH. reflexivity.
Qed.
Lemma vals_reindent n cs : flat_map (fun c => pay_values (xc_pay c)) (map (reindent n) cs) = flat_map (fun c => pay_values (xc_pay c)) cs.
Proof. induction cs as [|c r IH]; [reflexivity|]. cbn [map flat_map reindent xc_pay]. rewrite IH. reflexivity. Qed.

Theorem x_ws_field_content n iel mll f more : xwf_field f more = true ->
  x_name (x_ws_field n iel mll f) = x_name f /\ xfield_value (x_ws_field n iel mll f) = xfield_value f.
Proof.
  intros Hwf. unfold xwf_field in Hwf.
  repeat (apply andb_true_iff in Hwf; let H := fresh "W" in destruct Hwf as [Hwf H]).
  rewrite !xfield_value_vals. rewrite <- (vals_strip (head_pay f) (x_cont f)).
  unfold x_ws_field. set (cs := strip_conts (x_cont f)).
  destruct ((match mll with Some m => _ | None => false end) && is_nil cs) eqn:Ec.
  - apply andb_true_iff in Ec. destruct Ec as [_ Ec]. assert (cs = []) by (destruct cs; [reflexivity|discriminate]). rewrite H.
    destruct (is_pnone (head_pay f) && is_nil []) eqn:Ee; cbn [x_name x_cont]; (split; [reflexivity|]).
    + apply andb_true_iff in Ee. destruct Ee as [Ee _]. destruct (head_pay f) eqn:Eh; try discriminate. reflexivity.
    + unfold head_pay. cbn [x_first]. reflexivity.
  - destruct (drop_blank_props cs (head_pay f) (head_pay_fok f W1) (strip_conts_ok _ W0)) as [P1 _].
    rewrite <- (vals_drop cs (head_pay f)).
    destruct (drop_blank (head_pay f) cs) as [p1 rest]. cbn [fst snd] in *.
    destruct ((iel && negb (is_nil cs) && negb (pay_hash p1)) || is_pcom p1) eqn:Ed; cbn [x_name x_cont]; (split; [reflexivity|]).
    + unfold vals, head_pay. cbn [x_first pay_values flat_map xc_pay app]. rewrite vals_reindent. reflexivity.
    + unfold vals at 1. rewrite vals_reindent. unfold head_pay. cbn [x_first].
      destruct p1 as [t|c|]; [|cbn [is_pcom] in Ed; rewrite orb_true_r in Ed; discriminate|reflexivity].
      cbn [pay_fok] in P1. apply andb_true_iff in P1. destruct P1 as [_ P1]. destruct t; [discriminate|reflexivity].
Qed.

(* every continuation line of the reformatted field is indented by the requested width, the field
   ends with LF, and nothing stands between the name and the colon *)
Theorem x_ws_field_canon n iel mll f : xfield_canon n (x_ws_field n iel mll f) = true.
Proof.
  assert (Hm : forall rest, forallb (fun c => str_eqb (xc_ind c) (spaces n)) (map (reindent n) rest) = true).
  { induction rest as [|c r IH]; [reflexivity|]. cbn [map forallb reindent xc_ind]. rewrite str_eqb_refl, IH. reflexivity. }
  unfold x_ws_field. destruct (_ && is_nil (strip_conts (x_cont f))).
  - destruct (_ && _); reflexivity.
  - destruct (drop_blank _ _) as [p1 rest]. destruct (_ || _); unfold xfield_canon; cbn [x_cont x_w0 x_nl forallb xc_ind]; rewrite ?str_eqb_refl, Hm; reflexivity.
Qed.

(* ================================================================ the paragraph *)
Notation xcom := (str * option N)%type.
Definition xcom_item (c : xcom) : xitem := XComment (fst c) (snd c).
Definition celems (c : xcom) : list tree := telems (xcomment_toks (fst c) (snd c)).
Definition comw (more : bool) (c : xcom) : bool := xwf_comment (fst c) (snd c) more.
Definition gtree (g : list xcom * xfield) : list tree * tree := (flat_map celems (fst g), xfield_tree (snd g)).
(* a tree list and the items it prints and reports *)
Definition den (X : list tree) (I : list xitem) : Prop :=
  texts X = tstr (flat_map xitem_toks I) /\ pitems X = flat_map xitem_pairs I.

Lemma den_nil : den [] [].
Proof. split; reflexivity. Qed.
Lemma den_app X1 I1 X2 I2 : den X1 I1 -> den X2 I2 -> den (X1 ++ X2) (I1 ++ I2).
Proof.
  intros [A1 B1] [A2 B2]. split.
  - rewrite texts_app, !flat_map_app, tstr_app, A1, A2. reflexivity.
  - rewrite pitems_app, flat_map_app, B1, B2. reflexivity.
Qed.

Lemma celems_loose c : forallb loose (celems c) = true.
Proof. destruct c as [c [nl|]]; reflexivity. Qed.
Lemma flat_celems_loose cs : forallb loose (flat_map celems cs) = true.
Proof. induction cs as [|c r IH]; [reflexivity|]. cbn [flat_map]. rewrite forallb_app, celems_loose, IH. reflexivity. Qed.

Lemma den_comments cs : den (flat_map celems cs) (map xcom_item cs).
Proof.
  split.
  - induction cs as [|c r IH]; [reflexivity|]. cbn [flat_map map]. rewrite texts_app, tstr_app, IH. f_equal. unfold celems, xcom_item. cbn [xitem_toks]. apply texts_telems.
  - rewrite (pitems_loose _ (flat_celems_loose cs)). induction cs as [|c r IH]; [reflexivity|]. cbn [map flat_map xcom_item xitem_pairs app]. exact IH.
Qed.

Definition tks (ts : list token) : bool := forallb (fun t => tkind (fst t)) ts.
Lemma tks_telems ts : tks ts = true -> forallb is_tok_elem (telems ts) = true.
Proof.
  induction ts as [|[k s] r IH]; [reflexivity|]. cbn [tks forallb fst]. intros H. apply andb_true_iff in H. destruct H as [Hk Hr].
  rewrite telems_cons. cbn [forallb is_tok_elem]. rewrite Hk. exact (IH Hr).
Qed.
Lemma tks_opt k s : tkind k = true -> tks (opt_tok k s) = true.
Proof. intros H. destruct s; [reflexivity|]. cbn [opt_tok tks forallb fst]. rewrite H. reflexivity. Qed.
Lemma tks_xtail cs o : tks (xtail cs o) = true.
Proof.
  induction cs as [|c r IH]; [destruct o; reflexivity|]. rewrite xtail_cons. unfold tks in *. cbn [forallb fst tkind ckind andb].
  rewrite forallb_app, IH, andb_true_r. destruct (xc_pay c); reflexivity.
Qed.
Lemma tks_xfield f : tks (xfield_toks f) = true.
Proof.
  unfold xfield_toks. fold (xtail (x_cont f) (x_nl f)). unfold tks. cbn [forallb fst tkind andb]. rewrite forallb_app. cbn [forallb fst tkind andb].
  rewrite !forallb_app. fold (tks (opt_tok WHITESPACE (x_w0 f))). fold (tks (opt_tok WHITESPACE (x_w1 f))). fold (tks (opt_tok VALUE (x_first f))). fold (tks (xtail (x_cont f) (x_nl f))).
  rewrite tks_xtail, !tks_opt; reflexivity.
Qed.

Lemma xfield_entry_ok ind f : (xn ind f =? 0)%N = false -> entry_ok ind (xfield_tree f) = true.
Proof.
  intros Hn. unfold entry_ok, token_entry, xfield_tree. cbn [children]. destruct (xfield_shape ind f) as (_ & En & _). rewrite En, Hn, andb_true_r.
  apply tks_telems, tks_xfield.
Qed.

Lemma xn_pos ind f : ind_pos ind -> valid_name (x_name f) = true -> (xn ind f =? 0)%N = false.
Proof.
  intros Hi Hv. unfold xn. destruct ind; [|exact Hi]. apply utf8_size_pos. destruct (x_name f); [discriminate|discriminate].
Qed.

(* one group: its comment lines and its field, reformatted *)
Lemma den_group ind iel mll g more : ind_pos ind -> xwf_field (snd g) more = true ->
  den (fst (gtree g) ++ [e_out ind iel mll (snd (gtree g))])
      (map xcom_item (fst g) ++ [XField (x_ws_field (xn ind (snd g)) iel mll (snd g))]).
Proof.
  intros Hi Hwf. apply den_app; [apply den_comments|]. destruct g as [pre fl]. cbn [gtree fst snd] in *.
  assert (Hv : valid_name (x_name fl) = true) by (unfold xwf_field in Hwf; repeat (apply andb_true_iff in Hwf; destruct Hwf as [Hwf ?]); exact Hwf).
  pose proof (xn_pos ind fl Hi Hv) as Hn. split.
  - cbn [flat_map xitem_toks]. rewrite app_nil_r, <- e_out_xfield. rewrite texts_cons, texts_nil, app_nil_r.
    unfold e_out, entry_out. rewrite text_node. reflexivity.
  - rewrite pitems_cons_entry by reflexivity. cbn [pitems flat_map xitem_pairs app].
    pose proof (epair_e_out ind iel mll (xfield_tree fl) (xfield_entry_ok ind fl Hn)) as Ep. unfold epair in Ep.
    rewrite entry_key_xfield, entry_value_xfield in Ep.
    destruct (x_ws_field_content (xn ind fl) iel mll fl more Hwf) as [E1 E2].
    destruct (entry_key (e_out ind iel mll (xfield_tree fl))) as [k|]; [|discriminate]. injection Ep as -> Ev.
    unfold xfield_pair. rewrite E1, E2, Ev. reflexivity.
Qed.

(* ---- the groups of a paragraph, abstractly ---- *)
Definition good_group (g : list xcom * xfield) : Prop :=
  forallb (comw true) (fst g) = true /\ exists m, xwf_field (snd g) m = true.
Definition itw (it : xitem) : bool :=
  match it with XField f => xwf_field f true | XComment c nl => xwf_comment c nl true end.
Lemma xwf_items_true I : xwf_items I true = forallb itw I.
Proof.
  induction I as [|it r IH]; [reflexivity|]. cbn [xwf_items forallb]. rewrite IH. f_equal.
  destruct r; destruct it; reflexivity.
Qed.
Lemma comw_items cur more : forallb (comw true) cur = true -> xwf_items (map xcom_item cur) more = true.
Proof.
  intros H. apply xwf_items_mono. rewrite xwf_items_true, forallb_forall. intros x Hx. apply in_map_iff in Hx. destruct Hx as (c & <- & Hc).
  rewrite forallb_forall in H. exact (H c Hc).
Qed.

Lemma p_groups_abs its : forall more cur, xwf_items its more = true -> forallb (comw true) cur = true ->
  exists AG tr, p_groups (flat_map xitem_elems its) (flat_map celems cur) = (map gtree AG, flat_map celems tr) /\
    Forall good_group AG /\ xwf_items (map xcom_item tr) more = true /\
    (match its with XField _ :: _ => AG <> [] | _ => True end).
Proof.
  induction its as [|it r IH]; intros more cur Hwf Hcur.
  - exists [], cur. cbn [flat_map p_groups map]. repeat split; [constructor|apply comw_items, Hcur].
  - cbn [xwf_items] in Hwf. apply andb_true_iff in Hwf. destruct Hwf as [Hit Hr]. destruct it as [fl|c nl]; cbn [flat_map xitem_elems].
    + cbn [app p_groups]. change (loose (xfield_tree fl)) with false. cbv iota.
      destruct (IH more [] Hr eq_refl) as (AG & tr & E & HG & Htr & _). cbn [flat_map] in E. rewrite E.
      exists ((cur, fl) :: AG), tr. cbn [map gtree fst snd]. split; [reflexivity|]. split; [|split; [exact Htr|discriminate]].
      constructor; [|exact HG]. split; [exact Hcur|]. eexists. exact Hit.
    + change (telems (xcomment_toks c nl)) with (celems (c, nl)). rewrite (p_groups_loose _ _ _ (celems_loose (c, nl))).
      assert (Ef : flat_map celems cur ++ celems (c, nl) = flat_map celems (cur ++ [(c, nl)])) by (rewrite flat_map_app; cbn [flat_map]; rewrite app_nil_r; reflexivity).
      rewrite Ef. destruct r as [|it2 r2].
      * exists [], (cur ++ [(c, nl)]). cbn [flat_map p_groups map]. split; [reflexivity|]. split; [constructor|]. split; [|exact I].
        rewrite map_app, xwf_items_app. cbn [map xcom_item fst snd xwf_items]. rewrite andb_true_r, Hit, andb_true_r. apply comw_items, Hcur.
      * destruct (IH more (cur ++ [(c, nl)]) Hr) as (AG & tr & E & HG & Htr & _).
        { rewrite forallb_app, Hcur. unfold comw. cbn [forallb fst snd]. rewrite Hit. reflexivity. }
        exists AG, tr. repeat split; assumption.
Qed.

Lemma in_map_list {A B} (h : A -> B) (P : A -> Prop) (L : list B) :
  (forall y, In y L -> exists a, y = h a /\ P a) -> exists AL, L = map h AL /\ Forall P AL.
Proof.
  induction L as [|y r IH]; intros H; [exists []; split; [reflexivity|constructor]|].
  destruct (H y (or_introl eq_refl)) as (a & -> & Pa). destruct (IH (fun z Hz => H z (or_intror Hz))) as (AL & -> & HP).
  exists (a :: AL). split; [reflexivity|constructor; assumption].
Qed.

(* ---- terminating the comment lines after the last field ---- *)
Definition term_abs (tr : list xcom) : list xcom :=
  match rev tr with (c, None) :: r => rev r ++ [(c, Some LF)] | _ => tr end.

Lemma flat_celems_snoc a x : flat_map celems (a ++ [x]) = flat_map celems a ++ celems x.
Proof. rewrite flat_map_app. cbn [flat_map]. rewrite app_nil_r. reflexivity. Qed.

Lemma term_tr_celems tr : term_tr (flat_map celems tr) = flat_map celems (term_abs tr).
Proof.
  unfold term_abs. destruct (rev tr) as [|[c nl] r] eqn:Er.
  - assert (tr = []) by (rewrite <- (rev_involutive tr), Er; reflexivity). subst tr. reflexivity.
  - assert (Et : tr = rev r ++ [(c, nl)]) by (rewrite <- (rev_involutive tr), Er; reflexivity).
    rewrite Et at 1. rewrite flat_celems_snoc. unfold term_tr. rewrite rev_app_distr.
    destruct nl as [x|].
    + cbn [celems fst snd xcomment_toks onl_toks telems map rev app]. rewrite Et, flat_celems_snoc. reflexivity.
    + cbn [celems fst snd xcomment_toks onl_toks telems map rev app]. rewrite flat_celems_snoc, <- app_assoc. reflexivity.
Qed.

Lemma term_abs_wf tr more : xwf_items (map xcom_item tr) more = true -> forallb (comw true) (term_abs tr) = true.
Proof.
  intros H. unfold term_abs. destruct (rev tr) as [|[c nl] r] eqn:Er.
  - assert (tr = []) by (rewrite <- (rev_involutive tr), Er; reflexivity). subst tr. reflexivity.
  - assert (Et : tr = rev r ++ [(c, nl)]) by (rewrite <- (rev_involutive tr), Er; reflexivity).
    rewrite Et, map_app, xwf_items_app in H. cbn [map xcom_item fst snd xwf_items] in H. apply andb_true_iff in H. destruct H as [H1 H2].
    rewrite andb_true_r in H2. rewrite xwf_items_true in H1.
    assert (Hr : forallb (comw true) (rev r) = true).
    { rewrite forallb_forall in *. intros x Hx. apply (H1 (xcom_item x)). apply in_map. exact Hx. }
    destruct nl as [x|].
    + rewrite Et, forallb_app, Hr. unfold comw. cbn [forallb fst snd]. unfold xwf_comment in *. apply andb_true_iff in H2. destruct H2 as [A B].
      rewrite A. cbn [onl_ok] in *. rewrite B. reflexivity.
    + rewrite forallb_app, Hr. unfold comw. cbn [forallb fst snd]. unfold xwf_comment in *. apply andb_true_iff in H2. destruct H2 as [A _]. rewrite A. reflexivity.
Qed.

Lemma enl_p_ungroup2 G tr : (forall g, In g G -> exists cs, snd g = Node ENTRY cs /\ ensure_nl (snd g) = snd g) -> forallb loose tr = true ->
  ensure_nl_list (p_ungroup G tr) = p_ungroup G (term_tr tr).
Proof.
  intros HG Htr. unfold p_ungroup, term_tr. destruct (rev tr) as [|x r] eqn:Er.
  - assert (tr = []) by (rewrite <- (rev_involutive tr), Er; reflexivity). subst tr. rewrite !app_nil_r.
    destruct G as [|g0 G0]; [reflexivity|]. assert (Hne : g0 :: G0 <> []) by discriminate.
    destruct (exists_last Hne) as (G' & g & E). rewrite E in *. rewrite map_app, concat_app. cbn [map concat]. rewrite app_nil_r, !app_assoc, enl_snoc.
    assert (Hin : In g (G' ++ [g])) by (apply in_or_app; right; left; reflexivity).
    destruct (HG g Hin) as (cs & Ecs & En). f_equal. rewrite Ecs in *. rewrite En. reflexivity.
  - assert (Et : tr = rev r ++ [x]) by (rewrite <- (rev_involutive tr), Er; reflexivity). rewrite Et at 1. rewrite app_assoc, enl_snoc, <- app_assoc.
    assert (Hx : loose x = true) by (rewrite forallb_forall in Htr; apply Htr; apply in_rev; rewrite Er; left; reflexivity).
    destruct x as [k s|]; [|discriminate]. destruct k; try discriminate.
    + rewrite Et. reflexivity.
    + rewrite Et, <- app_assoc. reflexivity.
Qed.

(* ---- the reformatted paragraph ---- *)
Definition out_items (ind : indentation) (iel : bool) (mll : option N) (AL : list (list xcom * xfield)) : list xitem :=
  flat_map (fun g => map xcom_item (fst g) ++ [XField (x_ws_field (xn ind (snd g)) iel mll (snd g))]) AL.

Lemma den_out_items ind iel mll AL : ind_pos ind -> Forall good_group AL ->
  den (concat (map (fun g => fst g ++ [snd g]) (map (fun g => (fst g, e_out ind iel mll (snd g))) (map gtree AL)))) (out_items ind iel mll AL) /\
  forallb itw (out_items ind iel mll AL) = true /\ items_canon ind (out_items ind iel mll AL) = true.
Proof.
  intros Hi H. induction H as [|g r Hg Hr IH]; [split; [apply den_nil|split; reflexivity]|].
  destruct IH as (D & W & C). destruct Hg as [Hpre (m & Hf)].
  assert (Hv : valid_name (x_name (snd g)) = true) by (unfold xwf_field in Hf; repeat (apply andb_true_iff in Hf; destruct Hf as [Hf ?]); exact Hf).
  cbn [map concat out_items flat_map fst snd]. split; [|split].
  - apply den_app; [|exact D]. apply (den_group ind iel mll g m Hi Hf).
  - fold (out_items ind iel mll r). rewrite !forallb_app, W, andb_true_r. cbn [forallb itw].
    rewrite (x_ws_field_wf _ iel mll (snd g) m Hf (xn_pos ind _ Hi Hv)), andb_true_r.
    rewrite forallb_forall in *. intros x Hx. apply in_map_iff in Hx. destruct Hx as (c & <- & Hc). exact (Hpre c Hc).
  - fold (out_items ind iel mll r). unfold items_canon in *. rewrite !forallb_app, C, andb_true_r. cbn [forallb].
    assert (En : xn ind (x_ws_field (xn ind (snd g)) iel mll (snd g)) = xn ind (snd g)).
    { unfold xn. destruct ind; [|reflexivity]. rewrite (proj1 (x_ws_field_content _ iel mll (snd g) m Hf)). reflexivity. }
    rewrite En, x_ws_field_canon, andb_true_r. rewrite forallb_forall. intros x Hx. apply in_map_iff in Hx. destruct Hx as (c & <- & _). reflexivity.
Qed.

Lemma term_abs_idem tr : term_abs (term_abs tr) = term_abs tr.
Proof.
  unfold term_abs at 2. destruct (rev tr) as [|[c [x|]] r] eqn:Er.
  - assert (tr = []) by (rewrite <- (rev_involutive tr), Er; reflexivity). subst tr. reflexivity.
  - unfold term_abs. rewrite Er. reflexivity.
  - unfold term_abs. rewrite Er, rev_app_distr. reflexivity.
Qed.

(* the reformatted paragraph, explicitly *)
Lemma pp_out_form ind iel mll esort f its more : xwf_items (XField f :: its) more = true ->
  exists AL tr, Forall good_group AL /\ AL <> [] /\ xwf_items (map xcom_item tr) more = true /\
    pp_out ind iel mll esort (xblock_tree (XPara f its)) =
    Node PARAGRAPH (p_ungroup (map (fun g => (fst g, e_out ind iel mll (snd g))) (map gtree AL)) (flat_map celems (term_abs tr))).
Proof.
  intros Hwf.
  destruct (p_groups_abs (XField f :: its) more [] Hwf eq_refl) as (AG & tr & Eg & HG & Htr & Hne).
  cbn [flat_map xitem_elems app] in Eg.
  unfold pp_out. cbn [xblock_tree children]. rewrite ensure_nl_node. unfold p_out. rewrite Eg. cbn [fst snd].
  set (L := sort_opt (option_map on_snd esort) (map gtree AG)).
  destruct (in_map_list gtree good_group L) as (AL & EL & HAL).
  { intros y Hy. apply sort_opt_In in Hy. apply in_map_iff in Hy. destruct Hy as (a & <- & Ha). exists a. split; [reflexivity|].
    rewrite Forall_forall in HG. exact (HG a Ha). }
  assert (HALne : AL <> []).
  { intros ->. assert (Hl : length L = length (map gtree AG)) by (apply Permutation.Permutation_length, sort_opt_perm).
    rewrite EL, map_length in Hl. cbn in Hl. destruct AG; [congruence|discriminate]. }
  exists AL, tr. split; [exact HAL|]. split; [exact HALne|]. split; [exact Htr|].
  rewrite EL. rewrite enl_p_ungroup2; [|intros g Hg|apply flat_celems_loose].
  2:{ apply in_map_iff in Hg. destruct Hg as (g0 & <- & _). cbn [snd]. eexists. split; [unfold e_out, entry_out; reflexivity|apply ensure_nl_e_out]. }
  rewrite term_tr_celems. reflexivity.
Qed.

Theorem pp_out_xpara ind iel mll esort f its more : ind_pos ind -> xwf_items (XField f :: its) more = true ->
  exists lead f1 I',
    den (children (pp_out ind iel mll esort (xblock_tree (XPara f its)))) (map xcom_item lead ++ XField f1 :: I') /\
    forallb (comw true) lead = true /\ xwf_field f1 true = true /\ xwf_items I' true = true /\
    xfield_canon (xn ind f1) f1 = true /\ items_canon ind I' = true /\
    (exists cs, pp_out ind iel mll esort (xblock_tree (XPara f its)) = Node PARAGRAPH cs) /\
    ensure_nl (pp_out ind iel mll esort (xblock_tree (XPara f its))) = pp_out ind iel mll esort (xblock_tree (XPara f its)).
Proof.
  intros Hi Hwf. destruct (pp_out_form ind iel mll esort f its more Hwf) as (AL & tr & HAL & HALne & Htr & Eform).
  rewrite Eform. cbn [children]. unfold p_ungroup at 1.
  destruct (den_out_items ind iel mll AL Hi HAL) as (D & W & C).
  pose proof (den_app _ _ _ _ D (den_comments (term_abs tr))) as Dall.
  pose proof (term_abs_wf tr more Htr) as Wtr.
  assert (Eenl : ensure_nl (Node PARAGRAPH (p_ungroup (map (fun g => (fst g, e_out ind iel mll (snd g))) (map gtree AL)) (flat_map celems (term_abs tr)))) =
                 Node PARAGRAPH (p_ungroup (map (fun g => (fst g, e_out ind iel mll (snd g))) (map gtree AL)) (flat_map celems (term_abs tr)))).
  { rewrite ensure_nl_node. f_equal. rewrite enl_p_ungroup2; [|intros g Hg|apply flat_celems_loose].
    2:{ apply in_map_iff in Hg. destruct Hg as (g0 & <- & _). cbn [snd]. eexists. split; [unfold e_out, entry_out; reflexivity|apply ensure_nl_e_out]. }
    rewrite term_tr_celems, term_abs_idem. reflexivity. }
  destruct AL as [|g1 AL']; [congruence|]. cbn [out_items flat_map] in *. fold (out_items ind iel mll AL') in *.
  rewrite <- !app_assoc in Dall. cbn [app] in Dall.
  exists (fst g1), (x_ws_field (xn ind (snd g1)) iel mll (snd g1)), (out_items ind iel mll AL' ++ map xcom_item (term_abs tr)).
  split; [exact Dall|].
  rewrite !forallb_app in W. cbn [forallb itw] in W. apply andb_true_iff in W. destruct W as [W12 W3]. apply andb_true_iff in W12. destruct W12 as [W1 W2].
  rewrite andb_true_r in W2.
  unfold items_canon in C. rewrite !forallb_app in C. cbn [forallb] in C. apply andb_true_iff in C. destruct C as [C12 C3]. apply andb_true_iff in C12. destruct C12 as [_ C2].
  rewrite andb_true_r in C2.
  inversion HAL as [|? ? Hg1 _]; subst. destruct Hg1 as [Hpre (m & Hf)].
  assert (En : xn ind (x_ws_field (xn ind (snd g1)) iel mll (snd g1)) = xn ind (snd g1)).
  { unfold xn. destruct ind; [|reflexivity]. rewrite (proj1 (x_ws_field_content _ iel mll (snd g1) m Hf)). reflexivity. }
  split; [exact Hpre|]. split; [exact W2|]. split.
  - rewrite xwf_items_true, forallb_app, W3. cbn [andb]. rewrite forallb_forall in *. intros x Hx. apply in_map_iff in Hx.
    destruct Hx as (c & <- & Hc). exact (Wtr c Hc).
  - split; [exact C2|]. split; [|split; [eexists; reflexivity|exact Eenl]]. unfold items_canon. rewrite forallb_app, C3. cbn [andb]. rewrite forallb_forall. intros x Hx.
    apply in_map_iff in Hx. destruct Hx as (c & <- & _). reflexivity.
Qed.

(* ================================================================ the document *)
Definition cline_tree (c : xcom) : tree := Node EMPTY_LINE (celems c).
Definition xbcom (c : xcom) : xblock := XBComment (fst c) (snd c).
Notation xpar := (xfield * list xitem)%type.
Definition ptree (p : xpar) : tree := xblock_tree (XPara (fst p) (snd p)).
Definition dgtree (g : list xcom * xpar) : list tree * tree := (map cline_tree (fst g), ptree (snd g)).
Definition good_dgroup (g : list xcom * xpar) : Prop :=
  forallb (comw true) (fst g) = true /\ exists more, xwf_items (XField (fst (snd g)) :: snd (snd g)) more = true.

Lemma cline_tree_cline c : cline (cline_tree c) = true.
Proof. destruct c as [c [nl|]]; reflexivity. Qed.
Lemma map_cline_snoc cur c : map cline_tree cur ++ [cline_tree c] = map cline_tree (cur ++ [c]).
Proof. rewrite map_app. reflexivity. Qed.

Lemma d_groups_abs d : forall cur, xwf_doc d = true -> forallb (comw true) cur = true ->
  exists AG tr, d_groups (map xblock_tree d) (map cline_tree cur) = (map dgtree AG, map cline_tree tr) /\
    Forall good_dgroup AG /\ xwf_items (map xcom_item tr) false = true.
Proof.
  induction d as [|b r IH]; intros cur Hwf Hcur.
  - exists [], cur. cbn [map d_groups]. repeat split; [constructor|apply comw_items, Hcur].
  - cbn [xwf_doc] in Hwf. apply andb_true_iff in Hwf. destruct Hwf as [Hb Hr]. destruct b as [nl|c nl|f its]; cbn [map xblock_tree].
    + cbn [d_groups is_para_node]. change (comment_line (Node EMPTY_LINE [Tok NEWLINE [nl]])) with false. cbv iota. apply IH; assumption.
    + change (Node EMPTY_LINE (telems (xcomment_toks c nl))) with (cline_tree (c, nl)).
      cbn [d_groups]. change (is_para_node (cline_tree (c, nl))) with false. cbv iota.
      assert (Ecl : comment_line (cline_tree (c, nl)) = true) by (destruct nl; reflexivity). rewrite Ecl, map_cline_snoc.
      destruct r as [|b2 r2].
      * exists [], (cur ++ [(c, nl)]). cbn [map d_groups]. split; [reflexivity|]. split; [constructor|].
        rewrite map_app, xwf_items_app. cbn [map xcom_item fst snd xwf_items]. rewrite andb_true_r, Hb, andb_true_r. apply comw_items, Hcur.
      * apply IH; [exact Hr|]. rewrite forallb_app, Hcur. unfold comw. cbn [forallb fst snd]. rewrite Hb. reflexivity.
    + cbn [d_groups]. change (is_para_node (Node PARAGRAPH (xfield_tree f :: flat_map xitem_elems its))) with true. cbv iota.
      destruct (IH [] Hr eq_refl) as (AG & tr & E & HG & Htr). cbn [map] in E. rewrite E.
      exists ((cur, (f, its)) :: AG), tr. cbn [map dgtree fst snd ptree]. split; [reflexivity|]. split; [|exact Htr].
      constructor; [|exact HG]. split; [exact Hcur|]. cbn [fst snd].
      exists (match r with [] => false | _ => true end). apply andb_true_iff in Hb. destruct Hb as [Hb _]. cbn [xwf_items]. exact Hb.
Qed.

(* ---- a list of root children and the blocks it prints and reports ---- *)
Definition dden (X : list tree) (D : xdoc) : Prop :=
  texts X = tstr (xdoc_toks D) /\ doc_items (Node ROOT X) = xcontent D.

Lemma doc_items_app a b : doc_items (Node ROOT (a ++ b)) = doc_items (Node ROOT a) ++ doc_items (Node ROOT b).
Proof. rewrite !doc_items_unfold, filter_app, map_app. reflexivity. Qed.
Lemma dden_nil : dden [] [].
Proof. split; reflexivity. Qed.
Lemma dden_app X1 D1 X2 D2 : dden X1 D1 -> dden X2 D2 -> dden (X1 ++ X2) (D1 ++ D2).
Proof.
  intros [A1 B1] [A2 B2]. split.
  - rewrite texts_app, xdoc_toks_app, tstr_app, A1, A2. reflexivity.
  - rewrite doc_items_app, B1, B2. unfold xcontent. rewrite flat_map_app. reflexivity.
Qed.

Lemma xbcom_toks l : flat_map xblock_toks (map xbcom l) = flat_map xitem_toks (map xcom_item l).
Proof. induction l as [|c r IH]; [reflexivity|]. cbn [map flat_map xbcom xcom_item xblock_toks xitem_toks]. rewrite IH. reflexivity. Qed.
Lemma xbcom_content l : flat_map xblock_content (map xbcom l) = [].
Proof. induction l as [|c r IH]; [reflexivity|]. cbn [map flat_map xbcom xblock_content app]. exact IH. Qed.
Lemma xcom_pairs l : flat_map xitem_pairs (map xcom_item l) = [].
Proof. induction l as [|c r IH]; [reflexivity|]. cbn [map flat_map xcom_item xitem_pairs app]. exact IH. Qed.

Lemma texts_clines cs : texts (map cline_tree cs) = tstr (flat_map xitem_toks (map xcom_item cs)).
Proof.
  rewrite <- (proj1 (den_comments cs)). induction cs as [|c r IH]; [reflexivity|]. cbn [map flat_map]. rewrite texts_cons, texts_app, IH.
  unfold cline_tree. rewrite text_node. reflexivity.
Qed.
Lemma clines_no_para cs : filter is_pnode (map cline_tree cs) = [].
Proof. induction cs as [|c r IH]; [reflexivity|]. cbn [map filter]. exact IH. Qed.

Lemma dden_clines cs : dden (map cline_tree cs) (map xbcom cs).
Proof.
  split.
  - rewrite texts_clines. unfold xdoc_toks. rewrite xbcom_toks. reflexivity.
  - rewrite doc_items_unfold, clines_no_para. unfold xcontent. rewrite xbcom_content. reflexivity.
Qed.
Lemma dden_blank : dden [blank_line] [XBlank LF].
Proof. split; reflexivity. Qed.

(* the reformatted paragraph with the comment lines that follow it at the end of the document: in
   the layout those belong to the paragraph, and the comment lines that lead it do not *)
Lemma dden_para P cs lead f1 I' tr : P = Node PARAGRAPH cs -> den cs (map xcom_item lead ++ XField f1 :: I') ->
  dden (P :: map cline_tree tr) (map xbcom lead ++ [XPara f1 (I' ++ map xcom_item tr)]).
Proof.
  intros -> [A B]. split.
  - rewrite texts_cons, text_node, A, texts_clines. unfold xdoc_toks. rewrite !flat_map_app, xbcom_toks. cbn [flat_map xblock_toks xitem_toks].
    rewrite app_nil_r, !tstr_app, flat_map_app, tstr_app, <- !app_assoc. reflexivity.
  - rewrite doc_items_unfold. cbn [filter]. change (is_pnode (Node PARAGRAPH cs)) with true. cbv iota. rewrite clines_no_para. cbn [map].
    change (items (Node PARAGRAPH cs)) with (pitems cs). rewrite B. unfold xcontent. rewrite (flat_map_app xblock_content), xbcom_content.
    cbn [flat_map xblock_content app]. rewrite (flat_map_app xitem_pairs), xcom_pairs. cbn [flat_map xitem_pairs app].
    rewrite (flat_map_app xitem_pairs I'), xcom_pairs, app_nil_r. reflexivity.
Qed.

(* ---- the reformatted document, as a layout ---- *)
Notation xres := (list xcom * xfield * list xitem)%type.      (* leading comment lines, first field, the other items *)
Definition zpre (z : (list xcom * xpar) * xres) : list xcom := fst (fst z).
Fixpoint build (first : bool) (ZL : list ((list xcom * xpar) * xres)) (tr : list xcom) : xdoc :=
  match ZL with
  | [] => if first then map xbcom tr else []
  | z :: r =>
    let '(lead, f, its) := snd z in
    (if first then [] else [XBlank LF]) ++ map xbcom (zpre z) ++ map xbcom lead ++
    match r with [] => [XPara f (its ++ map xcom_item tr)] | _ => XPara f its :: build false r tr end
  end.

Definition para_res (ind : indentation) (iel : bool) (mll : option N) (esort : option (tree -> tree -> comparison))
  (g : list xcom * xpar) (t : xres) : Prop :=
  let P := pp_out ind iel mll esort (ptree (snd g)) in
  let '(lead, f1, I') := t in
  den (children P) (map xcom_item lead ++ XField f1 :: I') /\
  forallb (comw true) (fst g) = true /\ forallb (comw true) lead = true /\ xwf_field f1 true = true /\ xwf_items I' true = true /\
  xfield_canon (xn ind f1) f1 = true /\ items_canon ind I' = true /\
  (exists cs, P = Node PARAGRAPH cs) /\ ensure_nl P = P.

Lemma para_res_exists ind iel mll esort g : ind_pos ind -> good_dgroup g -> exists t, para_res ind iel mll esort g t.
Proof.
  intros Hi [Hpre (more & Hwf)]. destruct g as [pre [f its]]. cbn [fst snd] in *.
  destruct (pp_out_xpara ind iel mll esort f its more Hi Hwf) as (lead & f1 & I' & A & B & C & D & E & F & G & H).
  exists (lead, f1, I'). unfold para_res, ptree. cbn [fst snd]. exact (conj A (conj Hpre (conj B (conj C (conj D (conj E (conj F (conj G H)))))))).
Qed.

Lemma forall_exists_list {A B} (Q : A -> B -> Prop) (l : list A) : Forall (fun a => exists b, Q a b) l ->
  exists ZL : list (A * B), map fst ZL = l /\ Forall (fun z => Q (fst z) (snd z)) ZL.
Proof.
  induction 1 as [|a r (b & Hb) Hr (ZL & E & HZ)]; [exists []; split; [reflexivity|constructor]|].
  exists ((a, b) :: ZL). split; [cbn; rewrite E; reflexivity|constructor; assumption].
Qed.

Definition emitted ind iel mll esort (ZL : list ((list xcom * xpar) * xres)) : list (list tree * tree) :=
  map (fun g => (fst g, pp_out ind iel mll esort (snd g))) (map dgtree (map fst ZL)).

Lemma dden_emit ind iel mll esort tr ZL : Forall (fun z => para_res ind iel mll esort (fst z) (snd z)) ZL -> ZL <> [] ->
  forall first, dden (d_emit first (emitted ind iel mll esort ZL) ++ map cline_tree tr) (build first ZL tr).
Proof.
  induction 1 as [|z r Hz Hr IH]; intros Hne first; [congruence|].
  destruct z as [[pre p] [[lead f1] I']]. unfold para_res in Hz. cbn [fst snd] in Hz.
  destruct Hz as (Hden & _ & _ & _ & _ & _ & _ & (cs & EP) & _). rewrite EP in Hden. cbn [children] in Hden.
  unfold emitted in *. cbn [map fst snd dgtree d_emit build zpre].
  assert (Hb : dden (if first then [] else [blank_line]) (if first then [] else [XBlank LF])) by (destruct first; [apply dden_nil|apply dden_blank]).
  rewrite <- !app_assoc. apply dden_app; [exact Hb|]. apply dden_app; [apply dden_clines|].
  destruct r as [|z2 r2].
  - cbn [map d_emit app]. apply (dden_para _ cs lead f1 I' tr EP Hden).
  - replace (map xbcom lead ++ XPara f1 I' :: build false (z2 :: r2) tr)
      with ((map xbcom lead ++ [XPara f1 (I' ++ map xcom_item [])]) ++ build false (z2 :: r2) tr)
      by (cbn [map]; rewrite app_nil_r, <- app_assoc; reflexivity).
    apply (dden_app [pp_out ind iel mll esort (ptree p)] (map xbcom lead ++ [XPara f1 (I' ++ map xcom_item [])]) _ (build false (z2 :: r2) tr)).
    + apply (dden_para _ cs lead f1 I' [] EP Hden).
    + apply IH. discriminate.
Qed.

(* ---- terminating the result ---- *)
Lemma enl_celems c : ensure_nl_list (celems c) = celems (fst c, Some (match snd c with Some nl => nl | None => LF end)).
Proof. destruct c as [c [nl|]]; reflexivity. Qed.

Lemma enl_root X tr : (X = [] \/ exists X' p, X = X' ++ [p] /\ is_node p = true /\ ensure_nl p = p) ->
  ensure_nl_list (X ++ map cline_tree tr) = X ++ map cline_tree (term_abs tr).
Proof.
  intros HX. unfold term_abs. destruct (rev tr) as [|[c nl] r] eqn:Er.
  - assert (tr = []) by (rewrite <- (rev_involutive tr), Er; reflexivity). subst tr. cbn [map]. rewrite app_nil_r.
    destruct HX as [->|(X' & p & -> & Hp & Ep)]; [reflexivity|]. rewrite enl_snoc. destruct p; [discriminate|]. rewrite Ep. reflexivity.
  - assert (Et : tr = rev r ++ [(c, nl)]) by (rewrite <- (rev_involutive tr), Er; reflexivity).
    rewrite Et at 1. rewrite map_app. cbn [map]. rewrite app_assoc, enl_snoc. change (cline_tree (c, nl)) with (Node EMPTY_LINE (celems (c, nl))). cbv iota.
    rewrite ensure_nl_node, enl_celems. cbn [fst snd].
    destruct nl as [x|].
    + rewrite Et, map_app, <- app_assoc. reflexivity.
    + rewrite map_app, <- app_assoc. reflexivity.
Qed.

Lemma emitted_last ind iel mll esort ZL : Forall (fun z => para_res ind iel mll esort (fst z) (snd z)) ZL ->
  let X := d_emit true (emitted ind iel mll esort ZL) in
  X = [] \/ exists X' p, X = X' ++ [p] /\ is_node p = true /\ ensure_nl p = p.
Proof.
  intros H X. destruct ZL as [|z0 r0]; [left; reflexivity|]. right.
  assert (Hne : z0 :: r0 <> []) by discriminate. destruct (exists_last Hne) as (ZL' & z & E). unfold X. clear X. rewrite E in *.
  unfold emitted. rewrite !map_app. cbn [map]. rewrite d_emit_snoc.
  rewrite Forall_forall in H. assert (Hz : para_res ind iel mll esort (fst z) (snd z)) by (apply H, in_or_app; right; left; reflexivity).
  destruct z as [g [[lead f1] I']]. unfold para_res in Hz. cbn [fst snd] in Hz. destruct Hz as (_ & _ & _ & _ & _ & _ & _ & (cs & EP) & Een).
  cbn [fst snd dgtree]. eexists _, (pp_out ind iel mll esort (ptree (snd g))). split; [rewrite !app_assoc; reflexivity|]. split; [rewrite EP; reflexivity|exact Een].
Qed.

(* ---- the layout is well-formed, canonical, separated by single empty lines, terminated ---- *)
Lemma xwf_comment_mono c nl m : xwf_comment c nl true = true -> xwf_comment c nl m = true.
Proof. unfold xwf_comment. intros H. apply andb_true_iff in H. destruct H as [A B]. rewrite A, (onl_ok_mono _ m B). reflexivity. Qed.
Lemma xwf_field_mono f m : xwf_field f true = true -> xwf_field f m = true.
Proof. unfold xwf_field. intros H. apply andb_true_iff in H. destruct H as [A B]. rewrite A, (onl_ok_mono _ m B). reflexivity. Qed.

Lemma blanks_wf_coms cs m : forallb (comw true) cs = true -> blanks_wf (map xbcom cs) m = true.
Proof.
  induction cs as [|c r IH]; [reflexivity|]. cbn [forallb]. intros H. apply andb_true_iff in H. destruct H as [Hc Hr].
  cbn [map blanks_wf xbcom]. rewrite (IH Hr), andb_true_r. apply xwf_comment_mono. exact Hc.
Qed.
Lemma xwf_doc_coms cs rest : forallb (comw true) cs = true -> xwf_doc rest = true -> xwf_doc (map xbcom cs ++ rest) = true.
Proof. intros H1 H2. apply xwf_doc_blanks; [apply blanks_wf_coms, H1|exact H2]. Qed.

Definition zgood (ind : indentation) (z : (list xcom * xpar) * xres) : Prop :=
  let '(lead, f, its) := snd z in
  forallb (comw true) (zpre z) = true /\ forallb (comw true) lead = true /\ xwf_field f true = true /\ xwf_items its true = true /\
  xfield_canon (xn ind f) f = true /\ items_canon ind its = true.

Lemma para_res_zgood ind iel mll esort z : para_res ind iel mll esort (fst z) (snd z) -> zgood ind z.
Proof.
  destruct z as [g [[lead f1] I']]. unfold para_res, zgood, zpre. cbn [fst snd]. intros (_ & A & B & C & D & E & F & _). repeat split; assumption.
Qed.

Lemma coms_items_true tr : forallb (comw true) tr = true -> forallb itw (map xcom_item tr) = true.
Proof. intros H. rewrite forallb_forall in *. intros x Hx. apply in_map_iff in Hx. destruct Hx as (c & <- & Hc). exact (H c Hc). Qed.

Lemma build_head_blank ZL tr : ZL <> [] -> exists r, build false ZL tr = XBlank LF :: r.
Proof. destruct ZL as [|[g [[lead f] its]] r]; [congruence|]. intros _. cbn [build snd app]. eexists. reflexivity. Qed.

Lemma build_wf ind ZL tr : Forall (zgood ind) ZL -> forallb (comw true) tr = true -> forall first, xwf_doc (build first ZL tr) = true.
Proof.
  intros H Htr. induction H as [|z r Hz Hr IH]; intros first.
  - cbn [build]. destruct first; [|reflexivity]. rewrite <- (app_nil_r (map xbcom tr)). apply xwf_doc_coms; [exact Htr|reflexivity].
  - destruct z as [g [[lead f] its]]. unfold zgood, zpre in Hz. cbn [fst snd] in Hz. destruct Hz as (A & B & C & D & _ & _).
    cbn [build snd zpre fst].
    assert (Hb : forall Y, xwf_doc Y = true -> xwf_doc ((if first then [] else [XBlank LF]) ++ Y) = true) by (intros Y HY; destruct first; [exact HY|cbn [app xwf_doc]; rewrite HY; reflexivity]).
    apply Hb. apply xwf_doc_coms; [exact A|]. apply xwf_doc_coms; [exact B|].
    destruct r as [|z2 r2].
    + cbn [xwf_doc]. rewrite (xwf_field_mono f _ C). rewrite andb_true_r. cbn [andb]. rewrite andb_true_r.
      apply xwf_items_mono. rewrite xwf_items_true, forallb_app, <- xwf_items_true, D. apply coms_items_true, Htr.
    + destruct (build_head_blank (z2 :: r2) tr ltac:(discriminate)) as (rr & Eb). specialize (IH false). rewrite Eb in *.
      cbn [xwf_doc] in *. rewrite (xwf_field_mono f _ C), (xwf_items_mono its true D). cbn [andb]. exact IH.
Qed.

Lemma canon_coms ind cs : xdoc_canon ind (map xbcom cs) = true.
Proof. induction cs as [|c r IH]; [reflexivity|]. cbn [map xdoc_canon forallb xbcom]. exact IH. Qed.
Lemma items_canon_coms ind cs : items_canon ind (map xcom_item cs) = true.
Proof. induction cs as [|c r IH]; [reflexivity|]. cbn [map items_canon forallb xcom_item]. exact IH. Qed.

Lemma xdoc_canon_app ind a b : xdoc_canon ind (a ++ b) = xdoc_canon ind a && xdoc_canon ind b.
Proof. apply forallb_app. Qed.
Lemma items_canon_app ind a b : items_canon ind (a ++ b) = items_canon ind a && items_canon ind b.
Proof. apply forallb_app. Qed.
Lemma xdoc_canon_cons ind f its r : xdoc_canon ind (XPara f its :: r) = xfield_canon (xn ind f) f && items_canon ind its && xdoc_canon ind r.
Proof. reflexivity. Qed.

Lemma build_canon ind ZL tr : Forall (zgood ind) ZL -> forall first, xdoc_canon ind (build first ZL tr) = true.
Proof.
  intros H. induction H as [|z r Hz Hr IH]; intros first.
  - cbn [build]. destruct first; [apply canon_coms|reflexivity].
  - destruct z as [g [[lead f] its]]. unfold zgood, zpre in Hz. cbn [fst snd] in Hz. destruct Hz as (_ & _ & _ & _ & E & F).
    cbn [build snd]. rewrite !xdoc_canon_app, !canon_coms.
    replace (xdoc_canon ind (if first then [] else [XBlank LF])) with true by (destruct first; reflexivity). cbn [andb].
    destruct r as [|z2 r2]; rewrite xdoc_canon_cons, E; cbn [andb].
    + rewrite items_canon_app, F, items_canon_coms. reflexivity.
    + rewrite F. cbn [andb]. apply IH.
Qed.

Lemma sb_coms st cs rest : st = SepStart \/ st = SepAfterBlank ->
  xsingle_blanks st (map xbcom cs ++ rest) = xsingle_blanks st rest.
Proof. intros H. induction cs as [|c r IH]; [reflexivity|]. cbn [map app xbcom xsingle_blanks]. destruct H as [-> | ->]; exact IH. Qed.

Lemma build_sb ind ZL tr : Forall (zgood ind) ZL -> forall first, (ZL <> [] \/ first = true) ->
  xsingle_blanks (if first then SepStart else SepAfterPara) (build first ZL tr) = true.
Proof.
  intros H. induction H as [|z r Hz Hr IH]; intros first Hf.
  - destruct Hf as [Hf| ->]; [congruence|]. cbn [build]. rewrite <- (app_nil_r (map xbcom tr)), sb_coms; [reflexivity|left; reflexivity].
  - destruct z as [g [[lead f] its]]. cbn [build snd zpre fst].
    assert (E : forall Y, xsingle_blanks (if first then SepStart else SepAfterPara) ((if first then [] else [XBlank LF]) ++ Y) =
                xsingle_blanks (if first then SepStart else SepAfterBlank) Y) by (intros Y; destruct first; reflexivity).
    assert (Hst : (if first then SepStart else SepAfterBlank) = SepStart \/ (if first then SepStart else SepAfterBlank) = SepAfterBlank) by (destruct first; [left|right]; reflexivity).
    rewrite E, (sb_coms _ (fst g) _ Hst), (sb_coms _ lead _ Hst).
    assert (E2 : forall Y, xsingle_blanks (if first then SepStart else SepAfterBlank) (XPara f Y :: nil) = true) by (intros Y; destruct first; reflexivity).
    destruct r as [|z2 r2]; cbv iota; [exact (E2 _)|].
    assert (Hne2 : z2 :: r2 <> []) by discriminate. specialize (IH false (or_introl Hne2)). destruct first; cbn [xsingle_blanks]; exact IH.
Qed.

Lemma comw_terminated c : comw true c = true -> match snd c with Some _ => true | None => false end = true.
Proof. unfold comw, xwf_comment. intros H. apply andb_true_iff in H. destruct H as [_ H]. destruct (snd c); [reflexivity|discriminate]. Qed.
Lemma itw_terminated it : itw it = true -> xitem_terminated it = true.
Proof.
  destruct it as [f|c nl]; cbn [itw xitem_terminated].
  - unfold xwf_field. intros H. apply andb_true_iff in H. destruct H as [_ H]. destruct (x_nl f); [reflexivity|discriminate].
  - unfold xwf_comment. intros H. apply andb_true_iff in H. destruct H as [_ H]. destruct nl; [reflexivity|discriminate].
Qed.
Lemma term_coms cs : forallb (comw true) cs = true -> xdoc_terminated (map xbcom cs) = true.
Proof.
  induction cs as [|c r IH]; [reflexivity|]. cbn [forallb]. intros H. apply andb_true_iff in H. destruct H as [Hc Hr].
  cbn [map xdoc_terminated forallb xbcom]. rewrite (comw_terminated c Hc). exact (IH Hr).
Qed.
Lemma items_terminated its : forallb itw its = true -> forallb xitem_terminated its = true.
Proof. intros H. rewrite forallb_forall in *. intros x Hx. apply itw_terminated, H, Hx. Qed.

Lemma xdoc_terminated_app a b : xdoc_terminated (a ++ b) = xdoc_terminated a && xdoc_terminated b.
Proof. apply forallb_app. Qed.
Lemma xdoc_terminated_cons f its r : xdoc_terminated (XPara f its :: r) = xitem_terminated (XField f) && forallb xitem_terminated its && xdoc_terminated r.
Proof. reflexivity. Qed.

Lemma build_term ind ZL tr : Forall (zgood ind) ZL -> forallb (comw true) tr = true -> forall first, xdoc_terminated (build first ZL tr) = true.
Proof.
  intros H Htr. induction H as [|z r Hz Hr IH]; intros first.
  - cbn [build]. destruct first; [apply term_coms, Htr|reflexivity].
  - destruct z as [g [[lead f] its]]. unfold zgood, zpre in Hz. cbn [fst snd] in Hz. destruct Hz as (A & B & C & D & _ & _).
    cbn [build snd]. unfold zpre. cbn [fst]. rewrite !xdoc_terminated_app, (term_coms _ A), (term_coms _ B).
    replace (xdoc_terminated (if first then [] else [XBlank LF])) with true by (destruct first; reflexivity). cbn [andb].
    rewrite xwf_items_true in D.
    destruct r as [|z2 r2]; rewrite xdoc_terminated_cons, (itw_terminated (XField f) C); cbn [andb].
    + rewrite forallb_app, (items_terminated its D), (items_terminated _ (coms_items_true tr Htr)). reflexivity.
    + rewrite (items_terminated its D). cbn [andb]. apply IH.
Qed.

(* ================================================================ Deb822::wrap_and_sort on the layout of an error-free document *)
Theorem xdoc_ws_reread ind iel mll psort esort d : ind_pos ind -> xwf_doc d = true ->
  let R := d_out ind iel mll psort esort (map xblock_tree d) in
  exists D, xwf_doc D = true /\ xrender D = text R /\ xcontent D = doc_items R /\
    xdoc_canon ind D = true /\ xsingle_blanks SepStart D = true /\ xdoc_terminated D = true.
Proof.
  intros Hi Hwf R.
  destruct (d_groups_abs d [] Hwf eq_refl) as (AG & tr & Eg & HG & Htr). cbn [map] in Eg.
  unfold R, d_out. rewrite Eg. cbn [fst snd].
  set (L := sort_opt (option_map on_snd psort) (map dgtree AG)).
  destruct (in_map_list dgtree good_dgroup L) as (AL & EL & HAL).
  { intros y Hy. apply sort_opt_In in Hy. apply in_map_iff in Hy. destruct Hy as (a & <- & Ha). exists a. split; [reflexivity|].
    rewrite Forall_forall in HG. exact (HG a Ha). }
  assert (HQ : Forall (fun g => exists t, para_res ind iel mll esort g t) AL).
  { rewrite Forall_forall in *. intros g Hg. apply para_res_exists; [exact Hi|exact (HAL g Hg)]. }
  destruct (forall_exists_list _ AL HQ) as (ZL & EZ & HZ).
  rewrite EL, <- EZ. fold (emitted ind iel mll esort ZL).
  rewrite ensure_nl_node, (enl_root _ tr (emitted_last ind iel mll esort ZL HZ)).
  pose proof (term_abs_wf tr false Htr) as Wtr.
  assert (HZg : Forall (zgood ind) ZL) by (rewrite Forall_forall in *; intros z Hz; apply (para_res_zgood ind iel mll esort z), HZ, Hz).
  exists (build true ZL (term_abs tr)).
  assert (Hd : dden (d_emit true (emitted ind iel mll esort ZL) ++ map cline_tree (term_abs tr)) (build true ZL (term_abs tr))).
  { destruct ZL as [|z0 r0]; [cbn [emitted map d_emit app build]; apply dden_clines|]. apply dden_emit; [exact HZ|discriminate]. }
  destruct Hd as [Ht Hc].
  split; [apply (build_wf ind ZL _ HZg Wtr)|]. split; [unfold xrender; rewrite text_node; symmetry; exact Ht|]. split; [symmetry; exact Hc|].
  split; [apply build_canon, HZg|]. split; [apply (build_sb ind ZL _ HZg true); right; reflexivity|apply (build_term ind ZL _ HZg Wtr)].
Qed.

(* ================================================================ every error-free document *)
(* the missing clauses of C07 for the documents outside Grammar.v: the printed result parses
   strictly, to a tree of the image with the reported content; its layout *)
Theorem error_free_reread s t ind iel mll psort esort : from_str s = Ok t -> ind_pos ind ->
  let R := d_out ind iel mll psort esort (children t) in
  doc_ws fixed psort (Some (para_ws fixed ind iel mll esort None)) t = Ok R /\
  exists D, xwf_doc D = true /\ xrender D = text R /\
    lex (text R) = Ok (xdoc_toks D) /\ from_str (text R) = Ok (xtree_of D) /\ doc_items (xtree_of D) = doc_items R /\
    xdoc_canon ind D = true /\ xsingle_blanks SepStart D = true /\ xdoc_terminated D = true.
Proof.
  intros Hs Hi R. pose proof (error_free_is_token_doc s t ind Hs Hi) as Ht.
  destruct (parse_image_complete s t Hs) as (d & Wd & _ & Ed). subst t. cbn [xtree_of children token_doc] in *.
  split; [apply doc_ws_tokens, Ht|].
  destruct (xdoc_ws_reread ind iel mll psort esort d Hi Wd) as (D & WD & Etext & Econt & Hc & Hb & Hterm). fold R in Etext, Econt.
  destruct (parse_image_accept D WD) as (A & B & _ & C).
  exists D. rewrite <- Etext. repeat split; try assumption. rewrite C. exact Econt.
Qed.

(* all clauses together (with error_free_ws: the content, the second application) *)
Theorem error_free_full s t ind iel mll psort esort : from_str s = Ok t -> ind_pos ind ->
  esort_ok ind iel mll esort -> psort_ok ind iel mll psort esort ->
  let W := doc_ws fixed psort (Some (para_ws fixed ind iel mll esort None)) in
  let R := d_out ind iel mll psort esort (children t) in
  W t = Ok R /\
  doc_items t = map (fun g => items (snd g)) (fst (d_groups (children t) [])) /\
  doc_items R = map (fun g => items (Node PARAGRAPH (p_out ind iel mll esort (children (snd g)))))
                    (sort_opt (option_map on_snd psort) (fst (d_groups (children t) []))) /\
  (exists D, xwf_doc D = true /\ xrender D = text R /\ from_str (text R) = Ok (xtree_of D) /\ doc_items (xtree_of D) = doc_items R /\
     xdoc_canon ind D = true /\ xsingle_blanks SepStart D = true /\ xdoc_terminated D = true) /\
  W R = Ok R.
Proof.
  intros Hs Hi Hes Hps W R. destruct (error_free_ws s t ind iel mll psort esort Hs Hi Hes Hps) as (A & B & C & D).
  destruct (error_free_reread s t ind iel mll psort esort Hs Hi) as (_ & D0 & W0 & E0 & _ & F0 & G0 & H0 & I0 & J0).
  split; [exact A|]. split; [exact B|]. split; [exact C|]. split; [|exact D].
  exists D0. repeat split; assumption.
Qed.
