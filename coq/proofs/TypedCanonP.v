(* C20, part 2: every value the strict lossless reader hands out - for ANY input text - is in
   ll_dom: lines without LF/CR, none empty, none starting with a blank, no line after the first
   starting with '#'; every field name is a valid name.

   Two steps.  (1) a checkable property [tchk] of the token list, proved for the lexer by following
   its state: KEY tokens are valid names, VALUE tokens are non-empty / end-of-line free / do not
   start with a blank, a VALUE token is followed by NEWLINE or nothing, and a VALUE token starting
   with '#' only occurs when the line started with a KEY.  (2) the parser routines, when they
   report no error, build ENTRY nodes whose VALUE tokens are one per line with only the first
   possibly from a KEY line. *)
From V.model Require Import Base Deb822Lex Deb822Parse Grammar Lossy LossySpec Derive TypedDocs.
From V.proofs Require Import BaseP Deb822LexP Deb822ParseP GrammarAccP LossyRtP DeriveP TypedCodecP.

Definition value_tok_ok (s : str) : bool :=
  no_eol s && match s with c :: _ => negb (is_indent c) | [] => false end.

Fixpoint tchk (sol : bool) (ts : list token) : bool :=
  match ts with
  | [] => true
  | (k, s) :: r =>
    match k with
    | KEY => valid_name s && tchk false r
    | VALUE => value_tok_ok s && (negb sol || negb (starts_hash s)) &&
               match r with [] => true | (k', _) :: _ => kind_eqb k' NEWLINE end && tchk sol r
    | NEWLINE | COMMENT => tchk true r
    | _ => tchk sol r
    end
  end.

(* ------------------------------------------------------------------ (1) the lexer *)
Lemma lex_step_tchk st c r k t st' r' :
  lex_step st c r = Ok ((k, t), st', r') ->
  sol st' = match k with KEY => false | NEWLINE | COMMENT => true | _ => sol st end /\
  match k with
  | KEY => valid_name t = true
  | VALUE => value_tok_ok t = true /\ (sol st = true -> starts_hash t = false) /\
             match r' with [] => True | x :: _ => is_newline x = true end
  | _ => True
  end.
Proof.
  unfold lex_step. intros H.
  destruct ((c =? 58)%N && negb (colon st) && negb (ind st)) eqn:B1; [inversion H; subst; cbn; auto|].
  destruct (is_newline c) eqn:B2; [inversion H; subst; cbn; auto|].
  destruct (is_indent c) eqn:B3.
  { destruct (span is_indent r) as [w rr]. destruct (sol st) eqn:Esol; inversion H; subst; cbn; rewrite ?Esol; auto. }
  destruct ((c =? 35)%N && sol st) eqn:B4.
  { destruct (span (fun x => negb (is_newline x)) r) as [w rr]. inversion H; subst; cbn; auto. }
  destruct (is_valid_initial_key_char c && sol st && negb (ind st)) eqn:B5.
  { destruct (span is_valid_key_char r) as [w rr] eqn:Es. inversion H; subst; clear H. cbn [sol]. split; [reflexivity|].
    apply andb_true_iff in B5. destruct B5 as [B5 _]. apply andb_true_iff in B5. destruct B5 as [Hi Hs].
    rewrite Hs, andb_true_r in B4. cbn [valid_name]. rewrite Hi, B4. cbn. eapply span_all. exact Es. }
  destruct (negb (sol st) || ind st) eqn:B6.
  { destruct (span (fun x => negb (is_newline x)) r) as [w rr] eqn:Es. inversion H; subst; clear H. split; [reflexivity|].
    split; [|split].
    - unfold value_tok_ok, no_eol. cbn [forallb]. rewrite B2, B3. cbn. rewrite andb_true_r. eapply span_all. exact Es.
    - intros Hs. rewrite Hs, andb_true_r in B4. unfold starts_hash. exact B4.
    - pose proof (span_stop _ _ _ _ Es) as Hst. destruct r' as [|x r'']; [exact I|]. apply negb_false_iff in Hst. exact Hst. }
  inversion H; subst. cbn. auto.
Qed.

Lemma lex_go_newline_first f st x r ts : lex_go f st (x :: r) = Ok ts -> is_newline x = true ->
  exists rest, ts = (NEWLINE, [x]) :: rest.
Proof.
  destruct f as [|f]; [discriminate|]. cbn [lex_go]. intros H Hx. unfold lex_step in H.
  assert (H58 : (x =? 58)%N = false).
  { unfold is_newline in Hx. apply orb_true_iff in Hx. destruct Hx as [Hx|Hx]; apply N.eqb_eq in Hx; subst x; reflexivity. }
  rewrite H58, Hx in H. cbn [andb] in H. destruct (lex_go f _ r) as [ts'| | |]; try discriminate.
  injection H as <-. eexists. reflexivity.
Qed.

Lemma lex_go_tchk fuel : forall st s ts, lex_go fuel st s = Ok ts -> tchk (sol st) ts = true.
Proof.
  induction fuel as [|f IH]; intros st s ts H.
  - destruct s; cbn in H; inversion H. reflexivity.
  - destruct s as [|c r]; cbn [lex_go] in H; [inversion H; reflexivity|].
    destruct (lex_step st c r) as [[[[k t] st'] r']| | |] eqn:Es; try discriminate.
    destruct (lex_go f st' r') as [ts'| | |] eqn:E2; try discriminate.
    injection H as <-. pose proof (IH _ _ _ E2) as Hrec. destruct (lex_step_tchk _ _ _ _ _ _ _ Es) as [Hsol Hk].
    rewrite Hsol in Hrec. cbn [tchk]. destruct k; try exact Hrec.
    + rewrite Hk. exact Hrec.
    + destruct Hk as (H1 & H2 & H3). rewrite H1, Hrec, andb_true_r. cbn [andb].
      assert (Hh : negb (sol st) || negb (starts_hash t) = true).
      { destruct (sol st); [rewrite (H2 eq_refl); reflexivity|reflexivity]. }
      rewrite Hh. cbn [andb]. destruct r' as [|x r''].
      * destruct f; cbn in E2; injection E2 as <-; reflexivity.
      * destruct (lex_go_newline_first _ _ _ _ _ E2 H3) as (rest & ->). reflexivity.
Qed.

Lemma lex_tchk s ts : lex s = Ok ts -> tchk true ts = true.
Proof. intros H. apply (lex_go_tchk _ _ _ _ H). Qed.

(* ------------------------------------------------------------------ (2) the parser *)
Definition no_hash (vs : list str) : bool := forallb (fun v => negb (starts_hash v)) vs.
(* elements that hold no KEY / VALUE token at top level *)
Definition plain (e : list tree) : Prop := tok_texts KEY e = [] /\ tok_texts VALUE e = [].

Lemma tok_texts_app K a b : tok_texts K (a ++ b) = tok_texts K a ++ tok_texts K b.
Proof. unfold tok_texts. apply flat_map_app. Qed.
Lemma plain_app a b : plain a -> plain b -> plain (a ++ b).
Proof. intros [A1 A2] [B1 B2]. split; rewrite tok_texts_app; [rewrite A1, B1|rewrite A2, B2]; reflexivity. Qed.
Lemma plain_nil : plain [].
Proof. split; reflexivity. Qed.

(* skip_ws from a state where '#' VALUE tokens are excluded, or from any state *)
Lemma skip_ws_tchk ts : forall sol e r, skip_ws ts = (e, r) -> tchk sol ts = true ->
  plain e /\ exists sol', tchk sol' r = true /\ (sol = true -> sol' = true).
Proof.
  unfold skip_ws. induction ts as [|[k s] ts IH]; intros sol e r H Ht; cbn [bump_while] in H.
  - injection H as <- <-. split; [apply plain_nil|]. exists sol. auto.
  - destruct (is_ws_or_comment k) eqn:Ek.
    + destruct (bump_while is_ws_or_comment ts) as [e' r'] eqn:Eb. injection H as <- <-.
      destruct k; try discriminate; cbn [tchk] in Ht.
      * destruct (IH sol e' r' eq_refl Ht) as (Hp & sol' & H1 & H2). split; [|exists sol'; auto].
        destruct Hp as [P1 P2]. split; cbn; assumption.
      * destruct (IH true e' r' eq_refl Ht) as (Hp & sol' & H1 & H2). split; [|exists sol'; split; [exact H1|intros _; apply H2; reflexivity]].
        destruct Hp as [P1 P2]. split; cbn; assumption.
    + injection H as <- <-. split; [apply plain_nil|]. exists sol. auto.
Qed.

(* the (WHITESPACE | VALUE)* run at the start of a value line: at most one VALUE, and it is last *)
Lemma bump_wsval_tchk ts : forall sol e r, bump_while is_ws_or_value ts = (e, r) -> tchk sol ts = true ->
  tchk sol r = true /\ tok_texts KEY e = [] /\
  (tok_texts VALUE e = [] \/ exists v, tok_texts VALUE e = [v] /\ value_tok_ok v = true /\ (sol = true -> starts_hash v = false)).
Proof.
  induction ts as [|[k s] ts IH]; intros sol e r H Ht; cbn [bump_while] in H.
  - injection H as <- <-. split; [reflexivity|]. split; [reflexivity|left; reflexivity].
  - destruct (is_ws_or_value k) eqn:Ek.
    + destruct (bump_while is_ws_or_value ts) as [e' r'] eqn:Eb. injection H as <- <-.
      destruct k; try discriminate; cbn [tchk] in Ht.
      * (* VALUE *)
        apply andb_true_iff in Ht. destruct Ht as [Ht Hrec]. apply andb_true_iff in Ht. destruct Ht as [Ht Hnext].
        apply andb_true_iff in Ht. destruct Ht as [Hv Hh].
        assert (He : e' = [] /\ r' = ts).
        { destruct ts as [|[k2 s2] ts2]; cbn [bump_while] in Eb; [injection Eb as <- <-; auto|].
          destruct k2; try discriminate. cbn in Eb. injection Eb as <- <-. auto. }
        destruct He as [-> ->]. split; [exact Hrec|]. split; [reflexivity|]. right. exists s. split; [reflexivity|]. split; [exact Hv|].
        intros ->. cbn in Hh. apply negb_true_iff in Hh. exact Hh.
      * (* WHITESPACE *)
        destruct (IH sol e' r' eq_refl Ht) as (H1 & H2 & H3). split; [exact H1|]. split; [exact H2|exact H3].
    + injection H as <- <-. split; [exact Ht|]. split; [reflexivity|left; reflexivity].
Qed.

Lemma no_hash_app a b : no_hash (a ++ b) = no_hash a && no_hash b.
Proof. apply forallb_app. Qed.

(* the value-lines loop: all VALUE tokens fine; only the first may start with '#', and not even it
   when the loop is entered at the start of a line *)
Lemma pe_lines_tchk fuel : forall ts sol e r, pe_lines fuel ts = Ok (e, r, 0) -> tchk sol ts = true ->
  tok_texts KEY e = [] /\ forallb value_tok_ok (tok_texts VALUE e) = true /\
  no_hash (tl (tok_texts VALUE e)) = true /\ (sol = true -> no_hash (tok_texts VALUE e) = true) /\
  exists sol', tchk sol' r = true.
Proof.
  induction fuel as [|f IH]; intros ts sol e r H Ht; [discriminate|]. cbn [pe_lines] in H.
  destruct (bump_while is_ws_or_value ts) as [e1 r1] eqn:Eb.
  destruct (bump_wsval_tchk _ _ _ _ Eb Ht) as (Ht1 & Hk1 & Hv1).
  assert (Hv1' : forallb value_tok_ok (tok_texts VALUE e1) = true /\ no_hash (tl (tok_texts VALUE e1)) = true /\
                 (sol = true -> no_hash (tok_texts VALUE e1) = true)).
  { destruct Hv1 as [->|(v & -> & Hv & Hh)]; [auto|]. cbn. rewrite Hv. split; [reflexivity|]. split; [reflexivity|].
    intros Hs. rewrite (Hh Hs). reflexivity. }
  destruct Hv1' as (Va & Vb & Vc).
  destruct r1 as [|[k s] r2].
  - injection H as <- <- . split; [exact Hk1|]. split; [exact Va|]. split; [exact Vb|]. split; [exact Vc|]. exists sol. reflexivity.
  - assert (Hk : k = NEWLINE).
    { destruct k; try reflexivity;
        (destruct r2 as [|[k3 s3] r3]; [|destruct k3]; try (injection H as _ _ Hn; discriminate);
         destruct (skip_ws r3) as [e3 r4]; destruct (pe_lines f r4) as [[[e5 r5] n5]| | |]; try discriminate;
         injection H as _ _ Hn; discriminate). }
    subst k. cbn [tchk] in Ht1.
    destruct r2 as [|[k3 s3] r3].
    + injection H as <- <-. rewrite !tok_texts_app. cbn. rewrite !app_nil_r. split; [exact Hk1|]. split; [exact Va|]. split; [exact Vb|]. split; [exact Vc|]. exists true. reflexivity.
    + destruct (kind_eqb k3 INDENT) eqn:Ek3.
      * assert (k3 = INDENT) by (destruct k3; try discriminate; reflexivity). subst k3. cbn [tchk] in Ht1.
        destruct (skip_ws r3) as [e3 r4] eqn:Esk.
        destruct (skip_ws_tchk _ _ _ _ Esk Ht1) as ([P1 P2] & sol4 & Ht4 & Hs4). rewrite (Hs4 eq_refl) in Ht4.
        destruct (pe_lines f r4) as [[[e5 r5] n5]| | |] eqn:Ep; try discriminate.
        injection H as <- <- Hn. cbn in Hn. subst n5.
        destruct (IH _ _ _ _ Ep Ht4) as (K5 & V5a & V5b & V5c & sol5 & Ht5). specialize (V5c eq_refl).
        rewrite !tok_texts_app. cbn [tok_texts flat_map app]. change (kind_eqb NEWLINE KEY) with false. change (kind_eqb NEWLINE VALUE) with false.
        change (kind_eqb INDENT KEY) with false. change (kind_eqb INDENT VALUE) with false. cbn [app].
        fold (tok_texts KEY (e3 ++ e5)). fold (tok_texts VALUE (e3 ++ e5)). rewrite !tok_texts_app, P1, P2, Hk1, K5. cbn [app].
        split; [reflexivity|]. split; [rewrite forallb_app, Va, V5a; reflexivity|].
        split.
        { destruct Hv1 as [->|(v & -> & _)]; cbn [app tl]; [|exact V5c].
          destruct (tok_texts VALUE e5); [reflexivity|]. cbn [tl]. unfold no_hash in *. cbn [forallb] in V5c. apply andb_true_iff in V5c. apply V5c. }
        split; [intros Hs; rewrite no_hash_app, (Vc Hs), V5c; reflexivity|]. exists sol5. exact Ht5.
      * assert (Hres : Ok (e1 ++ [Tok NEWLINE s], (k3, s3) :: r3, 0) = Ok (e, r, 0)) by (destruct k3; try discriminate; exact H).
        injection Hres as <- <-. rewrite !tok_texts_app. cbn. rewrite !app_nil_r. split; [exact Hk1|]. split; [exact Va|]. split; [exact Vb|]. split; [exact Vc|]. exists true. exact Ht1.
Qed.

(* an ENTRY child that items() reports carries a valid name and a value of ll_dom *)
Definition entry_good (c : tree) : bool :=
  forallb (fun kv => valid_name (fst kv) && ll_dom (snd kv)) (item_of c).

Lemma value_tok_facts v : value_tok_ok v = true -> v <> [] /\ no_eol v = true /\ match v with c :: _ => is_indent c = false | [] => True end.
Proof.
  unfold value_tok_ok. intros H. apply andb_true_iff in H. destruct H as [H1 H2]. destruct v as [|c v']; [discriminate|].
  split; [discriminate|]. split; [exact H1|]. apply negb_true_iff. exact H2.
Qed.

Lemma ll_dom_join vs : forallb value_tok_ok vs = true -> no_hash (tl vs) = true -> ll_dom (join [LF] vs) = true.
Proof.
  intros Hv Hh. destruct vs as [|v1 rest]; [reflexivity|].
  assert (Hnl : forallb no_lf (v1 :: rest) = true).
  { apply forallb_forall. intros v Hin. rewrite forallb_forall in Hv. apply no_eol_no_lf. apply (value_tok_facts _ (Hv v Hin)). }
  cbn [forallb] in Hv. apply andb_true_iff in Hv. destruct Hv as [H1 Hr]. cbn [tl] in Hh.
  destruct (value_tok_facts _ H1) as (Hne1 & Hn1 & Hi1).
  unfold ll_dom. rewrite (ll_norm_join _ _ Hne1 Hnl), str_eqb_refl, andb_true_r.
  unfold canon_value. rewrite split_lf_join_nolf by (discriminate || exact Hnl). apply andb_true_iff. split.
  - unfold canon_first. rewrite Hn1. destruct v1; [congruence|]. rewrite Hi1. reflexivity.
  - apply forallb_forall. intros v Hin. unfold no_hash in Hh. rewrite forallb_forall in Hr, Hh. specialize (Hr v Hin). specialize (Hh v Hin).
    destruct (value_tok_facts _ Hr) as (Hne & Hn & Hi). unfold canon_cont. rewrite Hn. destruct v as [|c v']; [congruence|].
    rewrite Hi. unfold starts_hash in Hh. rewrite Hh. reflexivity.
Qed.

Definition goods (e : list tree) : Prop := Forall (fun c => entry_good c = true) e.
Lemma goods_app a b : goods a -> goods b -> goods (a ++ b).
Proof. apply Forall_app_intro || (intros; apply Forall_app; split; assumption). Qed.
Lemma goods_tok k s : entry_good (Tok k s) = true.
Proof. reflexivity. Qed.

Lemma bump_while_goods p ts e r : bump_while p ts = (e, r) -> goods e.
Proof.
  revert e r. induction ts as [|[k s] ts IH]; intros e r H; cbn [bump_while] in H; [injection H as <- <-; constructor|].
  destruct (p k); [|injection H as <- <-; constructor].
  destruct (bump_while p ts) as [e' r']. injection H as <- <-. constructor; [reflexivity|eapply IH; reflexivity].
Qed.

(* the comment prologue of parse_entry *)
Lemma pe_comments_tchk_n m : forall ts sol e r b, length ts <= m -> pe_comments ts = (e, r, 0, b) -> tchk sol ts = true ->
  goods e /\ exists sol', tchk sol' r = true.
Proof.
  induction m as [|m IH]; intros ts sol e r b Hl H Ht.
  - destruct ts; [|cbn in Hl; lia]. cbn in H. injection H as <- <- _. split; [constructor|]. exists sol. reflexivity.
  - destruct ts as [|[k s] ts]; [cbn in H; injection H as <- <- _; split; [constructor|exists sol; reflexivity]|].
    destruct (kind_eqb k COMMENT) eqn:Ek.
    + assert (k = COMMENT) by (destruct k; try discriminate; reflexivity). subst k. cbn [pe_comments] in H. cbn [tchk] in Ht.
      destruct ts as [|[k2 s2] ts2].
      * injection H as <- <- _. split; [repeat constructor|]. exists true. reflexivity.
      * destruct (kind_eqb k2 NEWLINE) eqn:Ek2.
        -- assert (k2 = NEWLINE) by (destruct k2; try discriminate; reflexivity). subst k2. cbn [tchk] in Ht.
           destruct (pe_comments ts2) as [[[e' rest] n] early] eqn:Ep. injection H as <- <- -> <-.
           destruct (IH ts2 true e' rest early ltac:(cbn in Hl; lia) Ep Ht) as (Hg & sol' & Hs). split; [|exists sol'; exact Hs].
           constructor; [reflexivity|]. constructor; [reflexivity|exact Hg].
        -- exfalso. destruct k2; try discriminate; destruct (pe_comments ts2) as [[[e' rest] n] early]; injection H as _ _ Hn _; discriminate.
    + assert (Hres : (([] : list tree), (k, s) :: ts, 0, false) = (e, r, 0, b)) by (destruct k; try discriminate; exact H).
      injection Hres as <- <- _. split; [constructor|]. exists sol. exact Ht.
Qed.
Lemma pe_comments_tchk ts sol e r b : pe_comments ts = (e, r, 0, b) -> tchk sol ts = true ->
  goods e /\ exists sol', tchk sol' r = true.
Proof. apply (pe_comments_tchk_n (length ts)). lia. Qed.

Lemma entry_good_node (cs : list tree) k : tok_texts KEY cs = [k] -> valid_name k = true ->
  ll_dom (join [LF] (tok_texts VALUE cs)) = true -> entry_good (Node ENTRY cs) = true.
Proof.
  intros Hk Hv Hd. unfold entry_good, item_of. change (is_node (Node ENTRY cs) && is_kind ENTRY (Node ENTRY cs)) with true. cbv iota.
  unfold entry_key, entry_value. rewrite !token_texts_children. cbn [children]. rewrite Hk. cbn [forallb fst snd].
  change [10%N] with [LF]. rewrite Hv, Hd. reflexivity.
Qed.

Lemma add_zero a b : a + b = 0 -> a = 0 /\ b = 0.
Proof. lia. Qed.

Lemma parse_entry_tchk ts sol e r : parse_entry ts = Ok (e, r, 0) -> tchk sol ts = true ->
  goods e /\ exists sol', tchk sol' r = true.
Proof.
  unfold parse_entry. intros H Ht. destruct (pe_comments ts) as [[[e0 r0] n0] early] eqn:Ec.
  destruct early.
  - injection H as <- <- ->. eapply pe_comments_tchk; eassumption.
  - assert (Hcase : (cur r0 = None \/ cur r0 = Some NEWLINE) \/ (cur r0 <> None /\ cur r0 <> Some NEWLINE)).
    { destruct (cur r0) as [k|]; [|left; left; reflexivity]. destruct k; try (right; split; discriminate). left. right. reflexivity. }
    destruct Hcase as [Hc|[Hc1 Hc2]].
    + assert (Hres : Ok (e0, r0, n0) = Ok (e, r, 0)) by (destruct Hc as [Hc|Hc]; rewrite Hc in H; exact H).
      injection Hres as <- <- ->. eapply pe_comments_tchk; eassumption.
    + assert (Hbody : (let '(e1, r1, n1) := pe_expect KEY r0 in
                       let '(e2, r2, n2) := pe_expect COLON r1 in
                       match pe_lines (S (length r2)) r2 with
                       | Ok (e3, r3, n3) => Ok (e0 ++ [Node ENTRY (e1 ++ e2 ++ e3)], r3, n0 + n1 + n2 + n3)
                       | Err x => Err x | Panic x => Panic x | OutOfFuel => OutOfFuel
                       end) = Ok (e, r, 0)).
      { destruct (cur r0) as [k|]; [|congruence]. destruct k; try exact H. congruence. }
      clear H. destruct (pe_expect KEY r0) as [[e1 r1] n1] eqn:E1. destruct (pe_expect COLON r1) as [[e2 r2] n2] eqn:E2.
      destruct (pe_lines (S (length r2)) r2) as [[[e3 r3] n3]| | |] eqn:E3; try discriminate.
      injection Hbody as <- <- Hn. apply add_zero in Hn. destruct Hn as [Hn ->]. apply add_zero in Hn. destruct Hn as [Hn ->].
      apply add_zero in Hn. destruct Hn as [-> ->].
      destruct (pe_comments_tchk _ _ _ _ _ Ec Ht) as (Hg0 & sol0 & Ht0).
      (* KEY *)
      unfold pe_expect in E1. destruct r0 as [|[k s] r0']; [discriminate|].
      destruct (kind_eqb k KEY) eqn:Ek; [|discriminate].
      assert (k = KEY) by (destruct k; try discriminate; reflexivity). subst k. cbn [tchk] in Ht0.
      apply andb_true_iff in Ht0. destruct Ht0 as [Hname Ht0].
      destruct (skip_ws r0') as [ew1 r1'] eqn:Es1. injection E1 as <- <-.
      destruct (skip_ws_tchk _ _ _ _ Es1 Ht0) as ([P1k P1v] & sol1 & Ht1 & _).
      (* COLON *)
      unfold pe_expect in E2. destruct r1' as [|[k2 s2] r1'']; [discriminate|].
      destruct (kind_eqb k2 COLON) eqn:Ek2; [|discriminate].
      assert (k2 = COLON) by (destruct k2; try discriminate; reflexivity). subst k2. cbn [tchk] in Ht1.
      destruct (skip_ws r1'') as [ew2 r2'] eqn:Es2. injection E2 as <- <-.
      destruct (skip_ws_tchk _ _ _ _ Es2 Ht1) as ([P2k P2v] & sol2 & Ht2 & _).
      destruct (pe_lines_tchk _ _ _ _ _ E3 Ht2) as (K3 & V3a & V3b & _ & sol3 & Ht3).
      split; [|exists sol3; exact Ht3]. apply goods_app; [exact Hg0|]. constructor; [|constructor].
      apply (entry_good_node _ s).
      * cbn [app]. rewrite tok_texts_cons. change (kind_eqb KEY KEY) with true. cbv iota. rewrite !tok_texts_app, P1k. cbn [app].
        rewrite tok_texts_cons. change (kind_eqb COLON KEY) with false. cbv iota. rewrite !tok_texts_app, P2k, K3. reflexivity.
      * exact Hname.
      * cbn [app]. rewrite tok_texts_cons. change (kind_eqb KEY VALUE) with false. cbv iota. rewrite !tok_texts_app, P1v. cbn [app].
        rewrite tok_texts_cons. change (kind_eqb COLON VALUE) with false. cbv iota. rewrite !tok_texts_app, P2v. cbn [app].
        apply ll_dom_join; assumption.
Qed.

Lemma pp_entries_tchk fuel : forall ts sol e r, pp_entries fuel ts = Ok (e, r, 0) -> tchk sol ts = true ->
  goods e /\ exists sol', tchk sol' r = true.
Proof.
  induction fuel as [|f IH]; intros ts sol e r H Ht.
  - cbn [pp_entries] in H. destruct (cur ts) as [k|]; [destruct k|]; try discriminate;
      injection H as <- <-; (split; [constructor|exists sol; exact Ht]).
  - cbn [pp_entries] in H.
    assert (Hcase : (cur ts = None \/ cur ts = Some NEWLINE) \/ (cur ts <> None /\ cur ts <> Some NEWLINE)).
    { destruct (cur ts) as [k|]; [|left; left; reflexivity]. destruct k; try (right; split; discriminate). left. right. reflexivity. }
    destruct Hcase as [Hc|[Hc1 Hc2]].
    + assert (Hres : Ok (([] : list tree), ts, 0) = Ok (e, r, 0)) by (destruct Hc as [Hc|Hc]; rewrite Hc in H; exact H).
      injection Hres as <- <-. split; [constructor|exists sol; exact Ht].
    + assert (Hbody : match parse_entry ts with
                      | Ok (e1, r1, n1) => match pp_entries f r1 with
                                           | Ok (e2, r2, n2) => Ok (e1 ++ e2, r2, n1 + n2)
                                           | Err x => Err x | Panic x => Panic x | OutOfFuel => OutOfFuel end
                      | Err x => Err x | Panic x => Panic x | OutOfFuel => OutOfFuel end = Ok (e, r, 0)).
      { destruct (cur ts) as [k|]; [|congruence]. destruct k; try exact H. congruence. }
      clear H. destruct (parse_entry ts) as [[[e1 r1] n1]| | |] eqn:E1; try discriminate.
      destruct (pp_entries f r1) as [[[e2 r2] n2]| | |] eqn:E2; try discriminate.
      injection Hbody as <- <- Hn. apply add_zero in Hn. destruct Hn as [-> ->].
      destruct (parse_entry_tchk _ _ _ _ E1 Ht) as (G1 & sol1 & Ht1).
      destruct (IH _ _ _ _ E2 Ht1) as (G2 & sol2 & Ht2). split; [apply goods_app; assumption|exists sol2; exact Ht2].
Qed.

(* the children of the root: every PARAGRAPH node has good children *)
Definition para_good (c : tree) : Prop := goods (children c).
Definition paras_good (e : list tree) : Prop := Forall para_good e.

Lemma empty_line_tchk ts : forall sol e r, empty_line ts = (e, r) -> tchk sol ts = true -> exists sol', tchk sol' r = true.
Proof.
  induction ts as [|[k s] ts IH]; intros sol e r H Ht; cbn [empty_line] in H.
  - injection H as <- <-. exists sol. reflexivity.
  - destruct (kind_eqb k NEWLINE) eqn:Ek.
    + assert (k = NEWLINE) by (destruct k; try discriminate; reflexivity). subst k. injection H as <- <-. exists true. exact Ht.
    + assert (Hb : (let '(e0, r') := empty_line ts in (Tok k s :: e0, r')) = (e, r)) by (destruct k; try discriminate; exact H).
      destruct (empty_line ts) as [e0 r'] eqn:Ee. injection Hb as <- <-.
      assert (Hsub : exists sol1, tchk sol1 ts = true).
      { destruct k; cbn [tchk] in Ht; try (eexists; exact Ht).
        - apply andb_true_iff in Ht. destruct Ht as [_ Ht]. eexists; exact Ht.
        - apply andb_true_iff in Ht. destruct Ht as [_ Ht]. eexists; exact Ht. }
      destruct Hsub as (sol1 & Ht1). eapply IH; [reflexivity|exact Ht1].
Qed.

Lemma skip_wsnl_tchk fuel : forall ts sol e r, skip_wsnl fuel ts = Ok (e, r) -> tchk sol ts = true ->
  paras_good e /\ exists sol', tchk sol' r = true.
Proof.
  induction fuel as [|f IH]; intros ts sol e r H Ht; cbn [skip_wsnl] in H.
  - destruct (starts_blank ts); [discriminate|]. injection H as <- <-. split; [constructor|exists sol; exact Ht].
  - destruct (starts_blank ts); [|injection H as <- <-; split; [constructor|exists sol; exact Ht]].
    destruct (empty_line ts) as [e1 r1] eqn:Ee. destruct (skip_wsnl f r1) as [[e2 r2]| | |] eqn:Es; try discriminate.
    injection H as <- <-. destruct (empty_line_tchk _ _ _ _ Ee Ht) as (sol1 & Ht1).
    destruct (IH _ _ _ _ Es Ht1) as (G & sol2 & Ht2). split; [|exists sol2; exact Ht2].
    constructor; [|exact G]. unfold para_good. cbn [children].
    clear -Ee. revert e1 r1 Ee. induction ts as [|[k s] ts IH]; intros e1 r1 Ee; cbn [empty_line] in Ee; [injection Ee as <- <-; constructor|].
    destruct k; try (destruct (empty_line ts) as [e0 r']; injection Ee as <- <-; constructor; [reflexivity|eapply IH; reflexivity]).
    injection Ee as <- <-. constructor; [reflexivity|constructor].
Qed.

Lemma parse_root_tchk fuel : forall ts sol e, parse_root fuel ts = Ok (e, 0) -> tchk sol ts = true -> paras_good e.
Proof.
  induction fuel as [|f IH]; intros ts sol e H Ht; cbn [parse_root] in H.
  - destruct ts; [injection H as <-; constructor|discriminate].
  - destruct ts as [|t0 ts0]; [injection H as <-; constructor|]. set (ts := t0 :: ts0) in *.
    destruct (skip_wsnl (length ts) ts) as [[e1 r1]| | |] eqn:Es; try discriminate.
    destruct (skip_wsnl_tchk _ _ _ _ _ Es Ht) as (G1 & sol1 & Ht1).
    destruct r1 as [|t1 r1']; [injection H as <-; exact G1|]. set (r1 := t1 :: r1') in *.
    destruct (parse_paragraph r1) as [[[e2 r2] n2]| | |] eqn:Ep; try discriminate.
    destruct (parse_root f r2) as [[e3 n3]| | |] eqn:Er; try discriminate.
    injection H as <- Hn. apply add_zero in Hn. destruct Hn as [-> ->].
    unfold parse_paragraph in Ep. destruct (pp_entries (length r1) r1) as [[[e0 r0] n0]| | |] eqn:Epp; try discriminate.
    injection Ep as <- <- ->. destruct (pp_entries_tchk _ _ _ _ _ Epp Ht1) as (G2 & sol2 & Ht2).
    pose proof (IH _ _ _ Er Ht2) as G3. unfold paras_good in *. apply Forall_app. split; [exact G1|].
    constructor; [exact G2|exact G3].
Qed.

(* ------------------------------------------------------------------ the statement *)
(* every item of every paragraph of a strictly parsed document *)
Definition para_items_ok (p : tree) : bool :=
  forallb (fun kv => valid_name (fst kv) && ll_dom (snd kv)) (items p).

Lemma items_flat p : items p = flat_map item_of (children p).
Proof. exact (ll_items_flat (children p)). Qed.

Lemma para_good_items p : para_good p -> para_items_ok p = true.
Proof.
  unfold para_good, para_items_ok. rewrite items_flat. induction 1 as [|c cs Hc _ IH]; [reflexivity|].
  cbn [flat_map]. rewrite forallb_app, IH, andb_true_r. exact Hc.
Qed.

Theorem strict_parse_canonical s t : from_str s = Ok t -> Forall (fun p => para_items_ok p = true) (paragraphs t).
Proof.
  unfold from_str, parse. destruct (lex s) as [ts| | |] eqn:El; try discriminate.
  unfold parse_tokens. destruct (parse_root (length ts) ts) as [[e n]| | |] eqn:Er; try discriminate.
  destruct n; [|discriminate]. intros H. injection H as <-.
  pose proof (parse_root_tchk _ _ _ _ Er (lex_tchk _ _ El)) as G.
  unfold paragraphs, node_children_of_kind. cbn [children]. apply Forall_forall. intros p Hp. apply filter_In in Hp.
  destruct Hp as [Hp _]. apply para_good_items. unfold paras_good in G. rewrite Forall_forall in G. apply G. exact Hp.
Qed.

Lemma get_l_get p k : get p k = l_get (items p) k.
Proof. rewrite get_items, l_get_first. reflexivity. Qed.

Lemma l_get_In l k x : l_get l k = Some x -> In (k, x) l.
Proof.
  induction l as [|[n v] r IH]; cbn [l_get]; [discriminate|]. destruct (str_eqb n k) eqn:Ek.
  - apply str_eqb_eq in Ek. subst n. intros H. injection H as <-. left. reflexivity.
  - intros H. right. apply IH. exact H.
Qed.

(* the form used by the assembly proofs: whatever get returns is in ll_dom *)
Theorem strict_parse_get_dom s t p k x : from_str s = Ok t -> In p (paragraphs t) -> get p k = Some x -> ll_dom x = true.
Proof.
  intros Hs Hp Hg. pose proof (strict_parse_canonical _ _ Hs) as G. rewrite Forall_forall in G. specialize (G p Hp).
  unfold para_items_ok in G. rewrite forallb_forall in G. rewrite get_l_get in Hg. apply l_get_In in Hg.
  specialize (G _ Hg). cbn [fst snd] in G. apply andb_true_iff in G. apply G.
Qed.
