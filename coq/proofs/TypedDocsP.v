(* C20, part 3: the assembly code of the nine typed documents.
   - what both deb822 readers show for a printed canonical document (from C08);
   - the printers' paragraph order re-classifies to the same roles;
   - stability: parse_K s = TOk v -> print_K v = Some t /\ parse_K t = TOk v   (the SAME value,
     so that it prints identically again). *)
From Coq Require Import ZArith.
From V.model Require Import Base Deb822Lex Deb822Parse Grammar Lossy LossySpec Derive TypedDocs.
From V.gen Require Import Structs_gen.
From V.proofs Require Import BaseP Deb822LexP Deb822ParseP GrammarAccP LossyP LossyRtP DeriveP TypedCodecP TypedCanonP TypedLossyP.

(* ------------------------------------------------------------------ what the readers show for a printed document *)
Definition norm_pair (kv : str * str) : str * str := (fst kv, ll_norm (snd kv)).

Lemma field_value_layout f : field_value (layout_field f) = ll_norm (snd f).
Proof. unfold layout_field, ll_norm. destruct (split_lf (snd f)) as [|l1 rest]; [reflexivity|]. unfold field_value. cbn [f_first f_cont]. rewrite map_map. cbn [snd]. rewrite map_id. destruct l1; reflexivity. Qed.
Lemma field_name_layout f : f_name (layout_field f) = fst f.
Proof. unfold layout_field. destruct (split_lf (snd f)); reflexivity. Qed.
Lemma field_pair_layout f : field_pair (layout_field f) = norm_pair f.
Proof. unfold field_pair, norm_pair. rewrite field_value_layout, field_name_layout. reflexivity. Qed.

Lemma content_layout_para p : p <> [] -> content (layout_para p) = [map norm_pair p].
Proof.
  destruct p as [|f fs]; [congruence|]. intros _. unfold content. cbn [layout_para flat_map block_content app].
  rewrite field_pair_layout. f_equal. cbn [map]. f_equal.
  induction fs as [|g gs IH]; [reflexivity|]. cbn [map flat_map item_pairs app]. rewrite field_pair_layout, IH. reflexivity.
Qed.

Lemma content_app a b : content (a ++ b) = content a ++ content b.
Proof. unfold content. apply flat_map_app. Qed.

Lemma content_layout_doc d : canon_doc d = true -> content (layout_doc d) = map (map norm_pair) d.
Proof.
  induction d as [|p r IH]; [reflexivity|]. cbn [canon_doc forallb]. intros H.
  apply andb_true_iff in H. destruct H as [Hp Hr]. specialize (IH Hr).
  assert (Hne : p <> []) by (destruct p; [discriminate|discriminate]).
  destruct r as [|p2 r2].
  - cbn [layout_doc map]. rewrite (content_layout_para _ Hne). reflexivity.
  - change (layout_doc (p :: p2 :: r2)) with (layout_para p ++ BBlank :: layout_doc (p2 :: r2)).
    rewrite content_app, (content_layout_para _ Hne). change (content (BBlank :: layout_doc (p2 :: r2))) with (content (layout_doc (p2 :: r2))).
    rewrite IH. reflexivity.
Qed.

(* the lossless reader on a printed canonical document *)
Theorem ll_reread d : canon_doc d = true ->
  exists t, from_str (print_doc d) = Ok t /\ map items (paragraphs t) = map (map norm_pair) d.
Proof.
  intros H. destruct (C08_roundtrip d H) as (_ & _ & _ & t & Ht & Hi & _). exists t. split; [exact Ht|].
  unfold doc_items in Hi. rewrite Hi. apply content_layout_doc. exact H.
Qed.
(* the lossy reader *)
Theorem lossy_reread p : canon_para p = true -> lossy_paragraph_from_str (print_para p) = Ok p.
Proof.
  intros H. assert (Hd : canon_doc [p] = true) by (cbn; rewrite H; reflexivity).
  destruct (C08_roundtrip [p] Hd) as (Hl & _). unfold print_doc in Hl. cbn [print_doc_from app] in Hl. rewrite app_nil_r in Hl.
  unfold lossy_paragraph_from_str. rewrite Hl. reflexivity.
Qed.

Lemma l_get_map_norm (g : str -> str) l k : l_get (map (fun kv => (fst kv, g (snd kv))) l) k = option_map g (l_get l k).
Proof.
  induction l as [|[n v] r IH]; [reflexivity|]. cbn [map l_get fst snd]. destruct (str_eqb n k); [reflexivity|exact IH].
Qed.

(* [p] shows the printed items [its] as the lossless reader does *)
Definition ll_shows (its : lpara) (p : tree) : Prop := items p = map norm_pair its.
Lemma ll_shows_get its p k : ll_shows its p -> get p k = option_map ll_norm (l_get its k).
Proof. intros H. rewrite get_l_get, H. apply (l_get_map_norm ll_norm). Qed.

Lemma map_eq_Forall2 {A B C} (f : A -> C) (g : B -> C) la lb : map f la = map g lb -> Forall2 (fun a b => f a = g b) la lb.
Proof.
  revert lb. induction la as [|a la IH]; intros [|b lb] H; try discriminate; [constructor|].
  cbn [map] in H. injection H as H1 H2. constructor; [exact H1|apply IH; exact H2].
Qed.

Lemma Forall2_map_r {A B C} (R : A -> C -> Prop) (f : B -> C) l l' : Forall2 R l (map f l') -> Forall2 (fun a b => R a (f b)) l l'.
Proof.
  revert l. induction l' as [|b l' IH]; intros l H; inversion H; subst; constructor; [assumption|apply IH; assumption].
Qed.

Lemma Forall2_cons_inv_r {A B} (R : A -> B -> Prop) l b bs : Forall2 R l (b :: bs) ->
  exists a l', l = a :: l' /\ R a b /\ Forall2 R l' bs.
Proof. intros H. inversion H; subst. eexists; eexists; repeat split; eassumption. Qed.

Lemma print_doc_from_S i d : print_doc_from (S i) d = flat_map (fun q => 10%N :: print_para q) d.
Proof.
  revert i. induction d as [|p r IH]; intros i; [reflexivity|]. cbn [print_doc_from flat_map app]. rewrite IH. reflexivity.
Qed.
Lemma print_doc_cons p r : print_doc (p :: r) = print_para p ++ flat_map (fun q => 10%N :: print_para q) r.
Proof. unfold print_doc. cbn [print_doc_from app]. rewrite print_doc_from_S. reflexivity. Qed.
Lemma print_doc_join d : print_doc d = join [10%N] (map print_para d).
Proof.
  destruct d as [|p r]; [reflexivity|]. rewrite print_doc_cons. revert p. induction r as [|q r IH]; intros p.
  - cbn. rewrite app_nil_r. reflexivity.
  - change (map print_para (p :: q :: r)) with (print_para p :: map print_para (q :: r)).
    rewrite join_cons2 by discriminate. rewrite <- (IH q). reflexivity.
Qed.

Lemma get_ll_node p k : get (ll_node (children p)) k = get p k.
Proof. reflexivity. Qed.

Lemma starts_with_app p r : starts_with (p ++ r) p = true.
Proof. induction p as [|c p IH]; [destruct r; reflexivity|]. cbn [app starts_with]. rewrite N.eqb_refl, IH. reflexivity. Qed.
Lemma print_field_prefix n v : exists rest, print_field (n, v) = (n ++ [58%N]) ++ rest.
Proof.
  unfold print_field. destruct (Nat.ltb 1 (length (lines v))); eexists; rewrite <- app_assoc; cbn [app]; reflexivity.
Qed.

Lemma map_opt_map {A B} (f : A -> option B) (g : A -> B) l : (forall x, In x l -> f x = Some (g x)) -> map_opt f l = Some (map g l).
Proof.
  induction l as [|x r IH]; intros H; [reflexivity|]. cbn [map_opt map]. rewrite (H x (or_introl eq_refl)), IH; [reflexivity|].
  intros y Hy. apply H. right. exact Hy.
Qed.

(* ------------------------------------------------------------------ the generated tables, fact by fact *)
Lemma ok_S : ok_struct_stable fs_control_source = true. Proof. vm_compute. reflexivity. Qed.
Lemma ok_B : ok_struct_stable fs_control_binary = true. Proof. vm_compute. reflexivity. Qed.
Lemma ok_H : ok_struct_stable fs_header = true. Proof. vm_compute. reflexivity. Qed.
Lemma ok_F : ok_struct_stable fs_files = true. Proof. vm_compute. reflexivity. Qed.
Lemma ok_L : ok_struct_stable fs_license = true. Proof. vm_compute. reflexivity. Qed.
Lemma ok_release : ok_struct_stable fs_release = true. Proof. vm_compute. reflexivity. Qed.
Lemma ok_apt_source : ok_struct_stable fs_apt_source = true. Proof. vm_compute. reflexivity. Qed.
Lemma ok_apt_package : ok_struct_stable fs_apt_package = true. Proof. vm_compute. reflexivity. Qed.
Lemma ok_removal : ok_struct_stable fs_removal = true. Proof. vm_compute. reflexivity. Qed.
Lemma ok_buildinfo : ok_struct_stable fs_buildinfo = true. Proof. vm_compute. reflexivity. Qed.
Lemma ok_dep3 : ok_struct_stable fs_dep3 = true. Proof. vm_compute. reflexivity. Qed.
Lemma ok_repository : ok_struct_stable fs_repository = true. Proof. vm_compute. reflexivity. Qed.

Definition no_hash_pairs (fs : list fieldspec) : bool := forallb (fun f => negb (hash_pair (f_ser f) (f_de f))) fs.
Lemma nh_S : no_hash_pairs fs_control_source = true. Proof. vm_compute. reflexivity. Qed.
Lemma nh_B : no_hash_pairs fs_control_binary = true. Proof. vm_compute. reflexivity. Qed.
Lemma nh_L : no_hash_pairs fs_license = true. Proof. vm_compute. reflexivity. Qed.
Lemma nh_release : no_hash_pairs fs_release = true. Proof. vm_compute. reflexivity. Qed.
Lemma nh_apt_source : no_hash_pairs fs_apt_source = true. Proof. vm_compute. reflexivity. Qed.
Lemma nh_apt_package : no_hash_pairs fs_apt_package = true. Proof. vm_compute. reflexivity. Qed.
Lemma nh_removal : no_hash_pairs fs_removal = true. Proof. vm_compute. reflexivity. Qed.
Lemma nh_buildinfo : no_hash_pairs fs_buildinfo = true. Proof. vm_compute. reflexivity. Qed.
Lemma nh_dep3 : no_hash_pairs fs_dep3 = true. Proof. vm_compute. reflexivity. Qed.
Lemma nh_repository : no_hash_pairs fs_repository = true. Proof. vm_compute. reflexivity. Qed.

Definition has_mandatory (fs : list fieldspec) : bool := existsb (fun f => negb (f_opt f)) fs.
Lemma mand_S_Source : mandatory_key fs_control_source k_Source = true. Proof. vm_compute. reflexivity. Qed.
Lemma mand_B_Package : mandatory_key fs_control_binary k_Package = true. Proof. vm_compute. reflexivity. Qed.
Lemma S_no_Package : has_key fs_control_source k_Package = false. Proof. vm_compute. reflexivity. Qed.
Lemma mand_F_Files : mandatory_key fs_files k_Files = true. Proof. vm_compute. reflexivity. Qed.
Lemma mand_L_License : mandatory_key fs_license k_License = true. Proof. vm_compute. reflexivity. Qed.
Lemma L_no_Files : has_key fs_license k_Files = false. Proof. vm_compute. reflexivity. Qed.
Definition k_Format : str := [70; 111; 114; 109; 97; 116]%N.
Lemma header_first : exists f r, fs_header = f :: r /\ f_key f = k_Format /\ f_opt f = false. Proof. vm_compute. eexists; eexists; repeat split. Qed.
Lemma dep3_no_From : has_key fs_dep3 k_From = false. Proof. vm_compute. reflexivity. Qed.
Lemma dep3_no_Subject : has_key fs_dep3 k_Subject = false. Proof. vm_compute. reflexivity. Qed.
Definition plain_opt_string (fs : list fieldspec) (k : str) : bool :=
  forallb (fun f => negb (str_eqb (f_key f) k) || match f_de f with DStr => f_opt f | _ => false end) fs.
Lemma dep3_Author : plain_opt_string fs_dep3 k_Author = true. Proof. vm_compute. reflexivity. Qed.
Lemma dep3_Description : plain_opt_string fs_dep3 k_Description = true. Proof. vm_compute. reflexivity. Qed.
Lemma hm_release : has_mandatory fs_release = true. Proof. vm_compute. reflexivity. Qed.
Lemma hm_apt_source : has_mandatory fs_apt_source = true. Proof. vm_compute. reflexivity. Qed.
Lemma hm_apt_package : has_mandatory fs_apt_package = true. Proof. vm_compute. reflexivity. Qed.
Lemma hm_removal : has_mandatory fs_removal = true. Proof. vm_compute. reflexivity. Qed.
Lemma hm_buildinfo : has_mandatory fs_buildinfo = true. Proof. vm_compute. reflexivity. Qed.
Lemma hm_repository : has_mandatory fs_repository = true. Proof. vm_compute. reflexivity. Qed.
Lemma hm_H : has_mandatory fs_header = true. Proof. vm_compute. reflexivity. Qed.

Lemma has_mandatory_key fs : has_mandatory fs = true -> exists k, mandatory_key fs k = true.
Proof.
  unfold has_mandatory, mandatory_key. intros H. apply existsb_exists in H. destruct H as (f & Hf & Ho).
  exists (f_key f). apply existsb_exists. exists f. split; [exact Hf|]. rewrite str_eqb_refl, Ho. reflexivity.
Qed.

Opaque fs_control_source fs_control_binary fs_header fs_files fs_license fs_release fs_apt_source fs_apt_package
       fs_removal fs_buildinfo fs_dep3 fs_repository.

Section Ext.
Variable E : Type.
Variable ext_print : N -> E -> str.
Variable ext_parse : N -> str -> option E.
(* the guard of the external codecs' known classes ((fun _ _ => true) when they are left abstract) *)
Variable G : N -> str -> bool.
Notation sval := (list (option (uval E))).
Notation good := (good E ext_print ext_parse).
Notation ext_stable := (ext_stable_on E ext_print ext_parse G).
Notation eguard := (ext_guard G).
Notation items_of := (present_items E ext_print).
Notation from_ll := (from_ll E ext_parse).
Notation from_lossy := (from_lossy E ext_parse).
Notation to_lossy := (to_lossy E ext_print).
Notation print_struct := (print_struct E ext_print).
Notation from_fields := (from_fields E ext_parse).

(* ------------------------------------------------------------------ struct level, both readers *)
Lemma from_ll_fields fs p : from_ll fs p = from_fields (get p) fs.
Proof. reflexivity. Qed.
Lemma from_lossy_fields fs p : from_lossy fs p = from_fields (l_get p) fs.
Proof. reflexivity. Qed.

Lemma good_to_lossy ll fs v : good ll fs v -> to_lossy fs v = Some (items_of fs v).
Proof. intros (H & _). unfold TypedDocs.to_lossy, to_paragraph. rewrite H. reflexivity. Qed.
Lemma good_print ll fs v : good ll fs v -> print_struct fs v = Some (print_para (items_of fs v)).
Proof. intros H. unfold TypedDocs.print_struct. rewrite (good_to_lossy _ _ _ H). reflexivity. Qed.
Lemma good_canon fs v : good true fs v -> forallb canon_field (items_of fs v) = true.
Proof. intros (_ & H & _). exact H. Qed.

Lemma good_nonempty fs v k : good true fs v -> In k (present_keys E fs v) -> canon_para (items_of fs v) = true.
Proof.
  intros Hg Hin. unfold canon_para. pose proof (good_canon _ _ Hg) as Hc.
  destruct (items_of fs v) eqn:Ei; [|exact Hc]. destruct Hg as (_ & _ & Hk & _). rewrite Ei in Hk. cbn in Hk. rewrite <- Hk in Hin. contradiction.
Qed.
Lemma good_nonempty_l fs v k : good false fs v -> In k (present_keys E fs v) -> lcanon_para (items_of fs v) = true.
Proof.
  intros Hg Hin. unfold lcanon_para. assert (Hc : forallb lcanon_field (items_of fs v) = true) by (destruct Hg as (_ & H & _); exact H).
  destruct (items_of fs v) eqn:Ei; [|exact Hc]. destruct Hg as (_ & _ & Hk & _). rewrite Ei in Hk. cbn in Hk. rewrite <- Hk in Hin. contradiction.
Qed.

(* reading the printed items back through the lossless reader *)
Lemma reread_ll fs v p : good true fs v -> ll_shows (items_of fs v) p -> from_ll fs p = DOk v.
Proof.
  intros Hg Hs. rewrite from_ll_fields. destruct Hg as (_ & _ & _ & Hr). rewrite <- Hr. apply from_fields_ext.
  intros k _. apply (ll_shows_get _ _ _ Hs).
Qed.
Lemma reread_ll_absent fs v p k : good true fs v -> ll_shows (items_of fs v) p -> has_key fs k = false -> get p k = None.
Proof. intros Hg Hs Hk. rewrite (ll_shows_get _ _ _ Hs), (good_get_absent _ _ _ _ _ _ _ Hg Hk). reflexivity. Qed.
Lemma reread_ll_present fs v p k : good true fs v -> ll_shows (items_of fs v) p -> In k (present_keys E fs v) -> exists y, get p k = Some y.
Proof.
  intros Hg Hs Hk. rewrite (ll_shows_get _ _ _ Hs). destruct (good_get_present _ _ _ _ _ _ _ Hg Hk) as (y & ->). eexists. reflexivity.
Qed.
(* ... and through the lossy reader *)
Lemma reread_lossy fs v : good false fs v -> from_lossy fs (items_of fs v) = DOk v.
Proof.
  intros (_ & _ & _ & Hr). rewrite from_lossy_fields, <- Hr. apply from_fields_ext. intros k _.
  destruct (l_get (items_of fs v) k); reflexivity.
Qed.

(* values read from a strictly parsed paragraph *)
Definition para_dom (p : tree) : Prop := forall k x, get p k = Some x -> dom true x.

Lemma read_ll_good fs p v : ok_struct_stable fs = true -> ext_stable true (ext_ids fs) -> eguard fs (get p) = true ->
  hash_guard fs (get p) = true -> para_dom p -> from_ll fs p = DOk v -> good true fs v.
Proof. intros Hok Hext HG Hg Hd Hv. eapply read_value_good; eassumption. Qed.

(* the guards a control paragraph has to satisfy: those of the role it is read as *)
Definition control_guard (p : tree) : bool :=
  match get p k_Package with
  | Some _ => eguard fs_control_binary (get p)
  | None => match get p k_Source with Some _ => eguard fs_control_source (get p) | None => true end
  end.
Definition copyright_guard (p : tree) : bool :=
  match get p k_Files with
  | Some _ => eguard fs_files (get p)
  | None => match get p k_License with Some _ => eguard fs_license (get p) | None => true end
  end.

(* ================================================================== control *)
Definition goodS (s : sval) : Prop := good true fs_control_source s /\ In k_Source (present_keys E fs_control_source s).
Definition goodB (b : sval) : Prop := good true fs_control_binary b /\ In k_Package (present_keys E fs_control_binary b).

Lemma control_loop_good ps : forall src bins c,
  ext_stable true (ext_ids fs_control_source) -> ext_stable true (ext_ids fs_control_binary) ->
  (forall p, In p ps -> para_dom p /\ control_guard p = true) ->
  control_loop E ext_parse ps src bins = TOk c ->
  (forall s0, src = Some s0 -> goodS s0) -> Forall goodB bins ->
  goodS (c_source c) /\ Forall goodB (c_binaries c).
Proof.
  induction ps as [|p r IH]; intros src bins c HeS HeB Hd H Hsrc Hb; cbn [control_loop] in H.
  - destruct src as [s0|]; [|discriminate]. injection H as <-. cbn [c_source c_binaries]. split; [apply Hsrc; reflexivity|exact Hb].
  - destruct (Hd p (or_introl eq_refl)) as [Hdp Hgp]. unfold control_guard in Hgp.
    assert (Hdr : forall q, In q r -> para_dom q /\ control_guard q = true) by (intros q Hq; apply Hd; right; exact Hq).
    destruct (get p k_Package) as [pk|] eqn:Ep.
    + destruct (from_ll fs_control_binary p) as [b|e] eqn:Eb; [|discriminate]. cbn [of_dres] in H.
      apply (IH _ _ _ HeS HeB Hdr H Hsrc). apply Forall_app. split; [exact Hb|]. constructor; [|constructor].
      split; [eapply read_ll_good; [apply ok_B|exact HeB|exact Hgp|apply no_hash_guard, nh_B|exact Hdp|exact Eb]|].
      eapply read_mandatory_present; [exact Eb|apply mand_B_Package].
    + destruct (get p k_Source) as [sk|] eqn:Es; [|discriminate]. destruct src as [s0|]; [discriminate|].
      destruct (from_ll fs_control_source p) as [s1|e] eqn:E1; [|discriminate]. cbn [of_dres] in H.
      apply (IH _ _ _ HeS HeB Hdr H); [|exact Hb]. intros s0 Hs0. injection Hs0 as <-.
      split; [eapply read_ll_good; [apply ok_S|exact HeS|exact Hgp|apply no_hash_guard, nh_S|exact Hdp|exact E1]|].
      eapply read_mandatory_present; [exact E1|apply mand_S_Source].
Qed.

(* the printer's order: the source first, then the binaries - re-classified to the same roles *)
Lemma control_reloop_binaries ps : forall bs s acc,
  Forall2 (fun p b => ll_shows (items_of fs_control_binary b) p) ps bs -> Forall goodB bs ->
  control_loop E ext_parse ps (Some s) acc = TOk (mk_control s (acc ++ bs)).
Proof.
  induction ps as [|p r IH]; intros bs s acc H2 Hg; inversion H2 as [|? b ? bs' Hp Hr]; subst.
  - cbn [control_loop]. rewrite app_nil_r. reflexivity.
  - inversion Hg as [|? ? [Hgb Hkb] Hgr]; subst. cbn [control_loop].
    destruct (reread_ll_present _ _ _ _ Hgb Hp Hkb) as (y & ->).
    rewrite (reread_ll _ _ _ Hgb Hp). cbn [of_dres]. rewrite (IH bs' s (acc ++ [b]) Hr Hgr), <- app_assoc. reflexivity.
Qed.

Theorem control_stable s c :
  ext_stable true (ext_ids fs_control_source) -> ext_stable true (ext_ids fs_control_binary) ->
  (forall t, from_str s = Ok t -> forallb control_guard (paragraphs t) = true) ->
  parse_control E ext_parse s = TOk c ->
  exists t, print_control E ext_print c = Some t /\ parse_control E ext_parse t = TOk c.
Proof.
  intros HeS HeB HG H. unfold parse_control in H. destruct (from_str s) as [t0| | |] eqn:Es; try discriminate. cbn [of_res] in H.
  specialize (HG t0 eq_refl).
  assert (Hd : forall p, In p (paragraphs t0) -> para_dom p /\ control_guard p = true).
  { intros p Hp. split; [intros k x Hg; cbn [dom]; eapply strict_parse_get_dom; eassumption|]. rewrite forallb_forall in HG. apply HG. exact Hp. }
  destruct (control_loop_good _ _ _ _ HeS HeB Hd H) as [[HgS HkS] HgB]; [discriminate|constructor|].
  destruct c as [cs cb]. cbn [c_source c_binaries] in *.
  set (D := items_of fs_control_source cs :: map (items_of fs_control_binary) cb).
  assert (Hprint : print_control E ext_print (mk_control cs cb) = Some (print_doc D)).
  { unfold print_control. cbn [c_source c_binaries]. rewrite (good_print _ _ _ HgS).
    rewrite (map_opt_map _ (fun b => print_para (items_of fs_control_binary b))).
    - unfold D. rewrite print_doc_cons, !flat_map_concat_map, !map_map. reflexivity.
    - intros b Hb. rewrite Forall_forall in HgB. apply (good_print true). apply (HgB b Hb). }
  assert (Hcanon : canon_doc D = true).
  { unfold D. cbn [canon_doc forallb]. rewrite (good_nonempty _ _ _ HgS HkS). cbn [andb].
    rewrite forallb_map'. apply forallb_forall. intros b Hb. rewrite Forall_forall in HgB. destruct (HgB b Hb) as [Gd K].
    eapply good_nonempty; eassumption. }
  destruct (ll_reread D Hcanon) as (t' & Ht' & Hitems).
  exists (print_doc D). split; [exact Hprint|]. unfold parse_control. rewrite Ht'. cbn [of_res].
  unfold D in Hitems. apply map_eq_Forall2 in Hitems.
  destruct (Forall2_cons_inv_r _ _ _ _ Hitems) as (p0 & psb & -> & Hp0 & Hpb).
  assert (Hb2 : Forall2 (fun p b => ll_shows (items_of fs_control_binary b) p) psb cb) by (apply Forall2_map_r in Hpb; exact Hpb).
  cbn [control_loop]. rewrite (reread_ll_absent _ _ _ _ HgS Hp0 S_no_Package).
  destruct (reread_ll_present _ _ _ _ HgS Hp0 HkS) as (y & ->). rewrite (reread_ll _ _ _ HgS Hp0). cbn [of_dres].
  apply (control_reloop_binaries psb cb cs [] Hb2 HgB).
Qed.

(* ================================================================== copyright *)
Definition goodF (f : sval) : Prop := good true fs_files f /\ In k_Files (present_keys E fs_files f).
Definition goodL (l : sval) : Prop := good true fs_license l /\ In k_License (present_keys E fs_license l).
(* the guard of the known class, on a paragraph *)
Definition para_hash_free (p : tree) : bool := hash_guard fs_header (get p) && hash_guard fs_files (get p).

Lemma copyright_loop_good ps : forall files licenses fl,
  ext_stable true (ext_ids fs_files) -> ext_stable true (ext_ids fs_license) ->
  (forall p, In p ps -> para_dom p /\ para_hash_free p = true /\ copyright_guard p = true) ->
  copyright_loop E ext_parse ps files licenses = TOk fl ->
  Forall goodF files -> Forall goodL licenses ->
  Forall goodF (fst fl) /\ Forall goodL (snd fl).
Proof.
  induction ps as [|p r IH]; intros files licenses fl HeF HeL Hd H HF HL; cbn [copyright_loop] in H.
  - injection H as <-. cbn [fst snd]. auto.
  - destruct (Hd p (or_introl eq_refl)) as (Hdp & Hhp & Hgp). unfold copyright_guard in Hgp.
    assert (Hdr : forall q, In q r -> para_dom q /\ para_hash_free q = true /\ copyright_guard q = true) by (intros q Hq; apply Hd; right; exact Hq).
    destruct (get p k_Files) as [fk|] eqn:Ef.
    + destruct (from_ll fs_files p) as [f|e] eqn:E1; [|discriminate]. cbn [of_dres] in H.
      apply (IH _ _ _ HeF HeL Hdr H); [|exact HL]. apply Forall_app. split; [exact HF|]. constructor; [|constructor].
      split; [eapply read_ll_good; [apply ok_F|exact HeF|exact Hgp| |exact Hdp|exact E1]|].
      * unfold para_hash_free in Hhp. apply andb_true_iff in Hhp. apply Hhp.
      * eapply read_mandatory_present; [exact E1|apply mand_F_Files].
    + destruct (get p k_License) as [lk|] eqn:El; [|discriminate].
      destruct (from_ll fs_license p) as [l|e] eqn:E1; [|discriminate]. cbn [of_dres] in H.
      apply (IH _ _ _ HeF HeL Hdr H); [exact HF|]. apply Forall_app. split; [exact HL|]. constructor; [|constructor].
      split; [eapply read_ll_good; [apply ok_L|exact HeL|exact Hgp|apply no_hash_guard, nh_L|exact Hdp|exact E1]|].
      eapply read_mandatory_present; [exact E1|apply mand_L_License].
Qed.

Lemma copyright_reloop_licenses ps : forall ls accF accL,
  Forall2 (fun p l => ll_shows (items_of fs_license l) p) ps ls -> Forall goodL ls ->
  copyright_loop E ext_parse ps accF accL = TOk (accF, accL ++ ls).
Proof.
  induction ps as [|p r IH]; intros ls accF accL H2 Hg; inversion H2 as [|? l ? ls' Hp Hr]; subst.
  - cbn [copyright_loop]. rewrite app_nil_r. reflexivity.
  - inversion Hg as [|? ? [Hgl Hkl] Hgr]; subst. cbn [copyright_loop].
    rewrite (reread_ll_absent _ _ _ _ Hgl Hp L_no_Files). destruct (reread_ll_present _ _ _ _ Hgl Hp Hkl) as (y & ->).
    rewrite (reread_ll _ _ _ Hgl Hp). cbn [of_dres]. rewrite (IH ls' accF (accL ++ [l]) Hr Hgr), <- app_assoc. reflexivity.
Qed.
Lemma copyright_reloop_files ps : forall fl psl ls accF,
  Forall2 (fun p f => ll_shows (items_of fs_files f) p) ps fl -> Forall goodF fl ->
  Forall2 (fun p l => ll_shows (items_of fs_license l) p) psl ls -> Forall goodL ls ->
  copyright_loop E ext_parse (ps ++ psl) accF [] = TOk (accF ++ fl, ls).
Proof.
  induction ps as [|p r IH]; intros fl psl ls accF H2 Hg HL HgL; inversion H2 as [|? f ? fl' Hp Hr]; subst.
  - cbn [app]. rewrite app_nil_r. apply (copyright_reloop_licenses psl ls accF [] HL HgL).
  - inversion Hg as [|? ? [Hgf Hkf] Hgr]; subst. cbn [app copyright_loop].
    destruct (reread_ll_present _ _ _ _ Hgf Hp Hkf) as (y & ->).
    rewrite (reread_ll _ _ _ Hgf Hp). cbn [of_dres]. rewrite (IH fl' psl ls (accF ++ [f]) Hr Hgr HL HgL), <- app_assoc. reflexivity.
Qed.

Lemma Forall2_app_inv_r' {A B} (R : A -> B -> Prop) l l1 l2 : Forall2 R l (l1 ++ l2) ->
  exists a b, l = a ++ b /\ Forall2 R a l1 /\ Forall2 R b l2.
Proof.
  revert l. induction l1 as [|x l1 IH]; intros l H; cbn [app] in H.
  - exists [], l. repeat split; [constructor|exact H].
  - inversion H as [|y ? l' ? Hy Hr]; subst. destruct (IH _ Hr) as (a & b & -> & Ha & Hb).
    exists (y :: a), b. repeat split; [constructor; assumption|exact Hb].
Qed.

Theorem copyright_stable s c :
  ext_stable true (ext_ids fs_header) -> ext_stable true (ext_ids fs_files) -> ext_stable true (ext_ids fs_license) ->
  (forall t, from_str s = Ok t -> forallb para_hash_free (paragraphs t) = true) ->
  (forall t, from_str s = Ok t -> eguard fs_header (get (hd (Tok ROOT []) (paragraphs t))) = true /\
                                  forallb copyright_guard (tl (paragraphs t)) = true) ->
  parse_copyright E ext_parse s = TOk c ->
  exists t, print_copyright E ext_print c = Some t /\ parse_copyright E ext_parse t = TOk c.
Proof.
  intros HeH HeF HeL Hhash HG H. unfold parse_copyright in H. destruct (negb (starts_with s s_Format_colon)); [discriminate|].
  destruct (from_str s) as [t0| | |] eqn:Es; try discriminate. cbn [of_res] in H. specialize (Hhash t0 eq_refl). destruct (HG t0 eq_refl) as [HGh HGr].
  assert (Hd0 : forall p, In p (paragraphs t0) -> para_dom p /\ para_hash_free p = true).
  { intros p Hp. split; [intros k x Hg; cbn [dom]; eapply strict_parse_get_dom; eassumption|]. rewrite forallb_forall in Hhash. apply Hhash. exact Hp. }
  destruct (paragraphs t0) as [|first rest]; [discriminate|]. cbn [hd tl] in HGh, HGr.
  assert (Hd : forall p, In p rest -> para_dom p /\ para_hash_free p = true /\ copyright_guard p = true).
  { intros p Hp. destruct (Hd0 p (or_intror Hp)) as [A B]. split; [exact A|]. split; [exact B|]. rewrite forallb_forall in HGr. apply HGr. exact Hp. }
  destruct (from_ll fs_header first) as [h|e] eqn:Eh; [|discriminate]. cbn [of_dres] in H.
  destruct (copyright_loop E ext_parse rest [] []) as [fl| | |] eqn:El; try discriminate. cbn [tbind] in H. injection H as <-.
  destruct (Hd0 first (or_introl eq_refl)) as [Hdf Hhf].
  assert (HgH : good true fs_header h).
  { eapply read_ll_good; [apply ok_H|exact HeH|exact HGh| |exact Hdf|exact Eh]. unfold para_hash_free in Hhf. apply andb_true_iff in Hhf. apply Hhf. }
  destruct (copyright_loop_good rest [] [] fl HeF HeL Hd El) as [HgF HgL]; [constructor|constructor|].
  destruct fl as [cf cl]. cbn [fst snd cr_header cr_files cr_licenses] in *.
  destruct header_first as (f0 & r0 & Efs & Ek0 & Eo0).
  assert (Hfmt : exists y rest, items_of fs_header h = (k_Format, y) :: rest).
  { pose proof (from_fields_reads _ _ _ _ _ Eh) as Hr. rewrite from_ll_fields in Eh. apply from_fields_reads in Eh. rewrite Efs in Eh.
    inversion Eh as [|? x ? xs Hx Hxs]; subst. unfold field_reads_as in Hx. destruct HgH as (Ht & _). rewrite Efs in Ht |- *.
    destruct (get first (f_key f0)) as [sv|].
    - destruct Hx as (u & -> & _). cbn [present_items fprint] in *. cbn [Derive.to_items] in Ht.
      destruct (ser E ext_print (f_ser f0) u) as [y|]; [|discriminate]. rewrite Ek0. eexists; eexists; reflexivity.
    - destruct Hx as [_ Ho]. congruence. }
  destruct Hfmt as (yf & restf & Efmt).
  assert (HkH : In k_Format (present_keys E fs_header h)).
  { destruct HgH as (_ & _ & Hk & _). rewrite <- Hk, Efmt. left. reflexivity. }
  set (D := items_of fs_header h :: map (items_of fs_files) cf ++ map (items_of fs_license) cl).
  assert (Hprint : print_copyright E ext_print (mk_copyright h cf cl) = Some (print_doc D)).
  { unfold print_copyright. cbn [cr_header cr_files cr_licenses]. rewrite (good_print _ _ _ HgH).
    rewrite (map_opt_map _ (fun b => print_para (items_of fs_files b))) by (intros b Hb; rewrite Forall_forall in HgF; apply (good_print true); apply (HgF b Hb)).
    rewrite (map_opt_map _ (fun b => print_para (items_of fs_license b))) by (intros b Hb; rewrite Forall_forall in HgL; apply (good_print true); apply (HgL b Hb)).
    unfold D. rewrite print_doc_cons, flat_map_app, !flat_map_concat_map, !map_map. reflexivity. }
  assert (Hcanon : canon_doc D = true).
  { unfold D. cbn [canon_doc forallb]. rewrite (good_nonempty _ _ _ HgH HkH). cbn [andb]. rewrite forallb_app, !forallb_map'.
    apply andb_true_iff. split; apply forallb_forall; intros b Hb.
    - rewrite Forall_forall in HgF. destruct (HgF b Hb) as [Gd K]. eapply good_nonempty; eassumption.
    - rewrite Forall_forall in HgL. destruct (HgL b Hb) as [Gd K]. eapply good_nonempty; eassumption. }
  destruct (ll_reread D Hcanon) as (t' & Ht' & Hitems).
  exists (print_doc D). split; [exact Hprint|]. unfold parse_copyright.
  assert (Hgate : starts_with (print_doc D) s_Format_colon = true).
  { unfold D. rewrite print_doc_cons, Efmt. unfold print_para. cbn [flat_map]. destruct (print_field_prefix k_Format yf) as (pfx & ->).
    change (k_Format ++ [58%N]) with s_Format_colon. rewrite <- !app_assoc. apply starts_with_app. }
  rewrite Hgate. cbn [negb]. rewrite Ht'. cbn [of_res].
  unfold D in Hitems. apply map_eq_Forall2 in Hitems.
  destruct (Forall2_cons_inv_r _ _ _ _ Hitems) as (p0 & psr & -> & Hp0 & Hpr).
  destruct (Forall2_app_inv_r' _ _ _ _ Hpr) as (psf & psl & -> & Hff & Hll).
  apply Forall2_map_r in Hff. apply Forall2_map_r in Hll.
  rewrite (reread_ll _ _ _ HgH Hp0). cbn [of_dres].
  rewrite (copyright_reloop_files psf cf psl cl [] Hff HgF Hll HgL). reflexivity.
Qed.

(* ================================================================== one paragraph through the lossless reader *)
Lemma parse_ll1_inv fs s v : parse_ll1 E ext_parse fs s = TOk v ->
  exists t p r, from_str s = Ok t /\ paragraphs t = p :: r /\ from_ll fs p = DOk v.
Proof.
  unfold parse_ll1, paragraph_from_str. destruct (from_str s) as [t|e| |] eqn:Es; cbn [of_res_para]; try discriminate.
  - destruct (paragraphs t) as [|p r] eqn:Ep; cbn [of_res_para]; [intros H; cbn in H; discriminate|].
    destruct (from_ll fs p) as [v'|] eqn:Ev; cbn [of_dres]; [|discriminate]. intros H. injection H as <-. exists t, p, r. auto.
  - intros H. destruct (e =? 2)%N; discriminate.
Qed.

Lemma paragraph_reread its : canon_para its = true ->
  exists p, paragraph_from_str (print_para its) = Ok p /\ ll_shows its p.
Proof.
  intros Hc. assert (Hd : canon_doc [its] = true) by (cbn; rewrite Hc; reflexivity).
  destruct (ll_reread [its] Hd) as (t' & Ht' & Hitems). unfold print_doc in Ht'. cbn [print_doc_from app] in Ht'. rewrite app_nil_r in Ht'.
  cbn [map] in Hitems. destruct (paragraphs t') as [|p [|q r]] eqn:Ep; cbn [map] in Hitems; try discriminate.
  injection Hitems as Hi. exists p. unfold paragraph_from_str. rewrite Ht', Ep. split; [reflexivity|exact Hi].
Qed.

Theorem ll1_stable fs s v :
  ok_struct_stable fs = true -> no_hash_pairs fs = true -> has_mandatory fs = true -> ext_stable true (ext_ids fs) ->
  (forall t, from_str s = Ok t -> eguard fs (get (hd (Tok ROOT []) (paragraphs t))) = true) ->
  parse_ll1 E ext_parse fs s = TOk v ->
  exists t, print_struct fs v = Some t /\ parse_ll1 E ext_parse fs t = TOk v.
Proof.
  intros Hok Hnh Hm He HG H. destruct (parse_ll1_inv _ _ _ H) as (t0 & p & r & Es & Ep & Ev).
  specialize (HG t0 Es). rewrite Ep in HG. cbn [hd] in HG.
  assert (Hd : para_dom p).
  { intros k x Hg. cbn [dom]. eapply strict_parse_get_dom; [exact Es|rewrite Ep; left; reflexivity|exact Hg]. }
  pose proof (read_ll_good _ _ _ Hok He HG (no_hash_guard _ _ Hnh) Hd Ev) as Hg.
  destruct (has_mandatory_key _ Hm) as (k & Hk). rewrite from_ll_fields in Ev. pose proof (read_mandatory_present _ _ _ _ _ _ Ev Hk) as Hin.
  pose proof (good_nonempty _ _ _ Hg Hin) as Hc. destruct (paragraph_reread _ Hc) as (p' & Hp' & Hs).
  exists (print_para (items_of fs v)). split; [apply (good_print true); exact Hg|].
  unfold parse_ll1. rewrite Hp'. cbn [of_res_para]. rewrite (reread_ll _ _ _ Hg Hs). reflexivity.
Qed.

(* ================================================================== DEP-3 header *)
Lemma fallback_fields fs get target alt v :
  plain_opt_string fs target = true -> from_fields get fs = DOk v ->
  from_fields (fun k => if str_eqb k target then match get k with Some x => Some x | None => alt end else get k) fs
  = DOk (fallback E fs v target alt).
Proof.
  revert v. induction fs as [|f r IH]; intros v Hp Hv; cbn [Derive.from_fields] in Hv |- *.
  - injection Hv as <-. reflexivity.
  - cbn [plain_opt_string forallb] in Hp. apply andb_true_iff in Hp. destruct Hp as [Hf Hr].
    destruct (Derive.from_field E ext_parse get f) as [x|] eqn:Ef; [|discriminate].
    destruct (from_fields get r) as [xs|] eqn:Er; [|discriminate]. injection Hv as <-.
    cbn [fallback]. rewrite (IH xs Hr eq_refl). unfold Derive.from_field in *.
    destruct (str_eqb (f_key f) target) eqn:Ek.
    + cbn [negb orb] in Hf. destruct (f_de f) eqn:Ed; try discriminate.
      destruct (get (f_key f)) as [sv|].
      * cbn [Derive.de] in *. injection Ef as <-. reflexivity.
      * rewrite Hf in Ef. injection Ef as <-. destruct alt as [a|]; cbn [option_map Derive.de]; [reflexivity|rewrite Hf; reflexivity].
    + rewrite Ef. reflexivity.
Qed.

Lemma fallback_none fs v target : fallback E fs v target None = v.
Proof.
  revert v. induction fs as [|f r IH]; intros [|x xs]; cbn [fallback]; try reflexivity.
  rewrite IH. destruct (str_eqb (f_key f) target); [destruct x; reflexivity|reflexivity].
Qed.

Lemma fb_dom (P : str -> Prop) (g : str -> option str) target alt :
  (forall k x, g k = Some x -> P x) -> (forall a, alt = Some a -> P a) ->
  forall k x, (if str_eqb k target then match g k with Some y => Some y | None => alt end else g k) = Some x -> P x.
Proof.
  intros Hg Ha k x H. destruct (str_eqb k target); [|eapply Hg; exact H].
  destruct (g k) eqn:E1; [injection H as <-; eapply Hg; exact E1|apply Ha; exact H].
Qed.

Theorem dep3_stable s v :
  ext_stable true (ext_ids fs_dep3) ->
  (forall t, from_str s = Ok t -> eguard fs_dep3 (get (hd (Tok ROOT []) (paragraphs t))) = true) ->
  parse_dep3 E ext_parse s = TOk v -> present_keys E fs_dep3 v <> [] ->
  exists t, print_dep3 E ext_print v = Some t /\ parse_dep3 E ext_parse t = TOk v.
Proof.
  intros He HG H Hne. unfold parse_dep3, paragraph_from_str in H. destruct (from_str s) as [t0| | |] eqn:Es; cbn [of_res_para] in H; try discriminate;
    [|destruct (e =? 2)%N; discriminate].
  destruct (paragraphs t0) as [|p r] eqn:Ep; cbn [of_res_para] in H; [discriminate|].
  destruct (from_ll fs_dep3 p) as [h|] eqn:Eh; cbn [of_dres] in H; [|discriminate]. injection H as <-.
  specialize (HG t0 eq_refl). rewrite Ep in HG. cbn [hd] in HG.
  assert (Hd : para_dom p).
  { intros k x Hg. cbn [dom]. eapply strict_parse_get_dom; [exact Es|rewrite Ep; left; reflexivity|exact Hg]. }
  rewrite from_ll_fields in Eh.
  pose proof (fallback_fields _ _ k_Author (get p k_From) _ dep3_Author Eh) as H1.
  pose proof (fallback_fields _ _ k_Description (get p k_Subject) _ dep3_Description H1) as H2.
  set (v := fallback E fs_dep3 (fallback E fs_dep3 h k_Author (get p k_From)) k_Description (get p k_Subject)) in *.
  assert (Hg : good true fs_dep3 v).
  { eapply read_value_good; [apply ok_dep3|exact He| |apply no_hash_guard, nh_dep3| |exact H2].
    { (* the fallback getter answers like get p on every key of the struct (From / Subject are not fields) *)
      unfold ext_guard in *. rewrite forallb_forall in *. intros f Hf. specialize (HG f Hf). destruct (f_de f) eqn:Ed; try reflexivity.
      assert (Hpo : forall k, plain_opt_string fs_dep3 k = true -> str_eqb (f_key f) k = false).
      { intros k Hk. unfold plain_opt_string in Hk. rewrite forallb_forall in Hk. specialize (Hk f Hf). rewrite Ed in Hk.
        destruct (str_eqb (f_key f) k); [discriminate|reflexivity]. }
      rewrite (Hpo _ dep3_Description), (Hpo _ dep3_Author). exact HG. }
    assert (Hany : forall k' x', get p k' = Some x' -> dom true x') by (intros k' x' Hg'; apply (Hd k' x' Hg')).
    apply fb_dom; [apply fb_dom; [exact Hany|]|]; intros a Ha; eapply Hany; exact Ha. }
  assert (Hin : exists k, In k (present_keys E fs_dep3 v)) by (destruct (present_keys E fs_dep3 v) as [|k ?]; [congruence|exists k; left; reflexivity]).
  destruct Hin as (k & Hin). pose proof (good_nonempty _ _ _ Hg Hin) as Hc. destruct (paragraph_reread _ Hc) as (p' & Hp' & Hs).
  exists (print_para (items_of fs_dep3 v)). split; [apply (good_print true); exact Hg|].
  unfold parse_dep3. rewrite Hp'. cbn [of_res_para]. rewrite (reread_ll _ _ _ Hg Hs). cbn [of_dres].
  rewrite (reread_ll_absent _ _ _ _ Hg Hs dep3_no_From), (reread_ll_absent _ _ _ _ Hg Hs dep3_no_Subject), !fallback_none. reflexivity.
Qed.

(* ================================================================== one paragraph through the lossy reader *)
Theorem lossy1_stable fs s p v :
  ok_struct_stable fs = true -> no_hash_pairs fs = true -> has_mandatory fs = true -> ext_stable false (ext_ids fs) ->
  lossy_paragraph_from_str s = Ok p -> lcanon_para p = true -> eguard fs (l_get p) = true ->
  parse_lossy1 E ext_parse fs s = TOk v ->
  exists t, print_struct fs v = Some t /\ parse_lossy1 E ext_parse fs t = TOk v.
Proof.
  intros Hok Hnh Hm He Hp Hc HG H. unfold parse_lossy1 in H. rewrite Hp in H. cbn [of_res] in H.
  destruct (from_lossy fs p) as [v'|] eqn:Ev; cbn [of_dres] in H; [|discriminate]. injection H as <-.
  rewrite from_lossy_fields in Ev.
  assert (Hg : good false fs v').
  { eapply read_value_good; [exact Hok|exact He|exact HG|apply no_hash_guard; exact Hnh| |exact Ev].
    intros k x Hx. cbn [dom]. apply l_get_In in Hx. unfold lcanon_para in Hc. destruct p; [discriminate|].
    rewrite forallb_forall in Hc. specialize (Hc _ Hx). unfold lcanon_field in Hc. apply andb_true_iff in Hc. apply Hc. }
  destruct (has_mandatory_key _ Hm) as (k & Hk). pose proof (read_mandatory_present _ _ _ _ _ _ Ev Hk) as Hin.
  pose proof (good_nonempty_l _ _ _ Hg Hin) as Hcp.
  exists (print_para (items_of fs v')). split; [apply (good_print false); exact Hg|].
  unfold parse_lossy1. rewrite (lossy_reread_l _ Hcp). cbn [of_res]. rewrite (reread_lossy _ _ Hg). reflexivity.
Qed.

(* ================================================================== APT sources list *)
Definition goodR (r : sval) : Prop := good true fs_repository r /\ exists k, In k (present_keys E fs_repository r).

Lemma collect_good ps : forall vs, ext_stable true (ext_ids fs_repository) ->
  (forall p, In p ps -> para_dom p /\ eguard fs_repository (get p) = true) ->
  collect_paras E ext_parse fs_repository ps = TOk vs -> Forall goodR vs.
Proof.
  induction ps as [|p r IH]; intros vs He Hd H; cbn [collect_paras] in H.
  - injection H as <-. constructor.
  - destruct (from_ll fs_repository p) as [v|] eqn:Ev; cbn [of_dres] in H; [|discriminate].
    destruct (collect_paras E ext_parse fs_repository r) as [vs'| | |] eqn:Er; cbn [tbind] in H; try discriminate. injection H as <-.
    constructor; [|apply IH; [exact He|intros q Hq; apply Hd; right; exact Hq|reflexivity]].
    split; [eapply read_ll_good; [apply ok_repository|exact He|apply (Hd p); left; reflexivity|apply no_hash_guard, nh_repository|apply (Hd p); left; reflexivity|exact Ev]|].
    destruct (has_mandatory_key _ hm_repository) as (k & Hk). exists k. rewrite from_ll_fields in Ev. eapply read_mandatory_present; eassumption.
Qed.
Lemma collect_reread ps : forall vs, Forall2 (fun p v => ll_shows (items_of fs_repository v) p) ps vs -> Forall goodR vs ->
  collect_paras E ext_parse fs_repository ps = TOk vs.
Proof.
  induction ps as [|p r IH]; intros vs H2 Hg; inversion H2 as [|? v ? vs' Hp Hr]; subst; [reflexivity|].
  inversion Hg as [|? ? [Hgv _] Hgr]; subst. cbn [collect_paras]. rewrite (reread_ll _ _ _ Hgv Hp). cbn [of_dres].
  rewrite (IH vs' Hr Hgr). reflexivity.
Qed.

Theorem repositories_stable s rs :
  ext_stable true (ext_ids fs_repository) ->
  (forall t, from_str s = Ok t -> forallb (fun p => eguard fs_repository (get p)) (paragraphs t) = true) ->
  parse_repositories E ext_parse s = TOk rs ->
  exists t, print_repositories E ext_print rs = Some t /\ parse_repositories E ext_parse t = TOk rs.
Proof.
  intros He HG H. unfold parse_repositories in H. destruct (from_str s) as [t0| | |] eqn:Es; try discriminate. cbn [of_res] in H.
  specialize (HG t0 eq_refl).
  assert (Hd : forall p, In p (paragraphs t0) -> para_dom p /\ eguard fs_repository (get p) = true).
  { intros p Hp. split; [intros k x Hg; cbn [dom]; eapply strict_parse_get_dom; eassumption|]. rewrite forallb_forall in HG. apply HG. exact Hp. }
  pose proof (collect_good _ _ He Hd H) as Hg.
  set (D := map (items_of fs_repository) rs).
  assert (Hprint : print_repositories E ext_print rs = Some (print_doc D)).
  { unfold print_repositories. rewrite (map_opt_map _ (fun b => print_para (items_of fs_repository b))).
    - unfold D. rewrite print_doc_join, map_map. reflexivity.
    - intros b Hb. rewrite Forall_forall in Hg. apply (good_print true). apply (Hg b Hb). }
  assert (Hcanon : canon_doc D = true).
  { unfold D, canon_doc. rewrite forallb_map'. apply forallb_forall. intros b Hb. rewrite Forall_forall in Hg.
    destruct (Hg b Hb) as [Gd (k & K)]. eapply good_nonempty; eassumption. }
  destruct (ll_reread D Hcanon) as (t' & Ht' & Hitems).
  exists (print_doc D). split; [exact Hprint|]. unfold parse_repositories. rewrite Ht'. cbn [of_res].
  unfold D in Hitems. apply map_eq_Forall2 in Hitems. apply Forall2_map_r in Hitems. apply collect_reread; [exact Hitems|exact Hg].
Qed.

End Ext.

(* without guards *)
Lemma control_guard_true p : control_guard (fun _ _ => true) p = true.
Proof. unfold control_guard. destruct (get p k_Package); [apply ext_guard_true|]. destruct (get p k_Source); [apply ext_guard_true|reflexivity]. Qed.
Lemma copyright_guard_true p : copyright_guard (fun _ _ => true) p = true.
Proof. unfold copyright_guard. destruct (get p k_Files); [apply ext_guard_true|]. destruct (get p k_License); [apply ext_guard_true|reflexivity]. Qed.
Lemma forallb_all {A} (f : A -> bool) l : (forall x, f x = true) -> forallb f l = true.
Proof. intros H. apply forallb_forall. intros x _. apply H. Qed.
