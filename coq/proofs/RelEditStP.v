(* Lemmas about RelEdit.v (C11), part 2: the operations on the store. *)
From V.model Require Import Base RelLex RelParse RelEdit RelEditSpec RelEditTree.
From V.proofs Require Import BaseP RelEditP.

Lemma nth_error_set_nth_eq {A} i (x : A) l : i < length l -> nth_error (set_nth i x l) i = Some x.
Proof.
  unfold set_nth. revert i; induction l as [|y r IH]; intros [|i] H; cbn in *; try lia; auto.
  apply IH. lia.
Qed.
Lemma nth_error_set_nth_neq {A} i j (x : A) l : i <> j -> nth_error (set_nth i x l) j = nth_error l j.
Proof. unfold set_nth. apply nth_error_upd_nth_neq. Qed.
Lemma set_nth_length {A} i (x : A) l : length (set_nth i x l) = length l.
Proof. unfold set_nth. apply upd_nth_length. Qed.
Lemma nth_error_Some_lt {A} (l : list A) i x : nth_error l i = Some x -> i < length l.
Proof. intros H. apply nth_error_Some. congruence. Qed.
Lemma nth_error_app_l {A} (l r : list A) i x : nth_error l i = Some x -> nth_error (l ++ r) i = Some x.
Proof. intros H. rewrite nth_error_app1; [exact H|]. now apply nth_error_Some_lt in H. Qed.
Lemma nth_error_app_at {A} (l : list A) x : nth_error (l ++ [x]) (length l) = Some x.
Proof. rewrite nth_error_app2 by lia. now rewrite Nat.sub_diag. Qed.

(* ------------------------------------------------------------------ running monadic code *)
Definition runs {A} (m : M A) (st : state) (a : A) (st' : state) : Prop := m st = Ok (a, st').

Lemma runs_bind {A B} (m : M A) (f : A -> M B) st a st1 b st2 :
  runs m st a st1 -> runs (f a) st1 b st2 -> runs (mbind m f) st b st2.
Proof. unfold runs, mbind. intros -> H. exact H. Qed.
Lemma runs_ret {A} (a : A) st : runs (ret a) st a st.
Proof. reflexivity. Qed.
Lemma runs_eq {A} (m : M A) st a st' a' st'' : runs m st a st' -> a = a' -> st' = st'' -> runs m st a' st''.
Proof. intros H -> ->. exact H. Qed.

Ltac rbind := eapply runs_bind.
Ltac rdone := apply runs_ret.

Lemma runs_reg_opt ts rs r :
  runs (reg_opt r) (mk_state ts rs) (match nth_error rs r with Some o => o | None => None end) (mk_state ts rs).
Proof. reflexivity. Qed.
Lemma runs_get_reg ts rs r h : nth_error rs r = Some (Some h) ->
  runs (get_reg r) (mk_state ts rs) h (mk_state ts rs).
Proof. intros H. unfold runs, get_reg, mbind, reg_opt. cbn [regs]. rewrite H. reflexivity. Qed.
Lemma runs_has_reg ts rs r :
  runs (has_reg r) (mk_state ts rs)
       (match nth_error rs r with Some (Some _) => true | _ => false end) (mk_state ts rs).
Proof. unfold runs, has_reg, mbind, reg_opt. cbn [regs]. destruct (nth_error rs r) as [[h|]|]; reflexivity. Qed.
Lemma runs_set_reg ts rs r o :
  runs (set_reg r o) (mk_state ts rs) tt (mk_state ts (set_reg_l r o rs)).
Proof. reflexivity. Qed.
Lemma runs_push_tmp ts rs h :
  runs (push_tmp h) (mk_state ts rs) (length rs) (mk_state ts (rs ++ [Some h])).
Proof. reflexivity. Qed.
Lemma runs_scoped {A} (m : M A) ts rs a ts' rs' :
  runs m (mk_state ts rs) a (mk_state ts' rs') ->
  runs (scoped m) (mk_state ts rs) a (mk_state ts' (firstn (length rs) rs')).
Proof. unfold runs, scoped. intros ->. reflexivity. Qed.
Lemma runs_get_slot ts rs tid sl : nth_error ts tid = Some sl ->
  runs (get_slot tid) (mk_state ts rs) sl (mk_state ts rs).
Proof. intros H. unfold runs, get_slot. cbn [trees]. now rewrite H. Qed.
Lemma runs_node_of ts rs tid p sl n : nth_error ts tid = Some sl -> get_path (s_tree sl) p = Some n ->
  runs (node_of (mk_hnd tid p)) (mk_state ts rs) n (mk_state ts rs).
Proof.
  intros H G. unfold node_of. cbn [h_path h_tid]. rbind; [eapply runs_get_slot; exact H|]. cbn beta. rewrite G. rdone.
Qed.
Lemma runs_children_of ts rs tid p sl n : nth_error ts tid = Some sl -> get_path (s_tree sl) p = Some n ->
  runs (children_of (mk_hnd tid p)) (mk_state ts rs) (children n) (mk_state ts rs).
Proof. intros H G. unfold children_of. rbind; [eapply runs_node_of; eauto|]. rdone. Qed.
Lemma runs_alloc ts rs m t :
  runs (alloc m t) (mk_state ts rs) (mk_hnd (length ts) []) (mk_state (ts ++ [mk_slot m 0 t]) rs).
Proof. reflexivity. Qed.
Lemma runs_replace_with_root ts rs tid sl g : nth_error ts tid = Some sl ->
  runs (replace_with (mk_hnd tid []) g) (mk_state ts rs) g (mk_state ts rs).
Proof. intros H. unfold replace_with. cbn [h_path h_tid]. rbind; [eapply runs_get_slot; exact H|]. rdone. Qed.

(* a state seen through its root register *)
Definition st5 (ts : list slot) (r0 : hnd) (a b c d : option hnd) : state :=
  mk_state ts [Some r0; a; b; c; d].

(* ------------------------------------------------------------------ detach / attach *)
Lemma parent_h_app tid p i : parent_h (mk_hnd tid (p ++ [i])) = Some (mk_hnd tid p, i).
Proof. unfold parent_h. cbn [h_path h_tid]. now rewrite split_last_app. Qed.

Lemma detach_h_spec ts rs tid ri T p i n :
  nth_error ts tid = Some (mk_slot true ri T) -> get_path T (p ++ [i]) = Some n ->
  exists ts',
    runs (detach_h (mk_hnd tid (p ++ [i]))) (mk_state ts rs) (mk_hnd (length ts) [])
         (mk_state ts' (map (option_map (rebase_detach tid p i (length ts))) rs)) /\
    length ts' = S (length ts) /\
    nth_error ts' tid = Some (mk_slot true ri (upd_path T p (fun q => set_children (remove_nth i (children q)) q))) /\
    nth_error ts' (length ts) = Some (mk_slot true i n) /\
    (forall k, k <> tid -> k < length ts -> nth_error ts' k = nth_error ts k).
Proof.
  intros HT HG. pose proof (nth_error_Some_lt _ _ _ HT) as Hlt.
  eexists. split; [|split; [|split; [|split]]].
  - unfold detach_h. cbn [h_tid]. rbind; [eapply runs_get_slot; exact HT|]. cbn [s_mut negb].
    rewrite parent_h_app. rbind; [eapply runs_node_of; [exact HT|exact HG]|].
    cbn [s_tree s_ridx h_tid h_path]. unfold runs. cbn [trees regs]. reflexivity.
  - rewrite app_length, set_nth_length. cbn. lia.
  - apply nth_error_app_l. now apply nth_error_set_nth_eq.
  - rewrite <- (set_nth_length tid (mk_slot true ri (upd_path T p (fun q => set_children (remove_nth i (children q)) q))) ts) at 1.
    apply nth_error_app_at.
  - intros k Hk Hl. rewrite nth_error_app1 by (rewrite set_nth_length; exact Hl).
    apply nth_error_set_nth_neq. congruence.
Qed.

Lemma detach_h_root ts rs tid ri T :
  nth_error ts tid = Some (mk_slot true ri T) ->
  runs (detach_h (mk_hnd tid [])) (mk_state ts rs) (mk_hnd tid []) (mk_state ts rs).
Proof.
  intros HT. unfold detach_h. cbn [h_tid]. rbind; [eapply runs_get_slot; exact HT|]. cbn [s_mut negb].
  unfold parent_h. cbn [h_path split_last]. rdone.
Qed.

Lemma attach_h_spec ts rs tidp rip Tp pp k cs idx tidc ric C :
  nth_error ts tidp = Some (mk_slot true rip Tp) -> get_path Tp pp = Some (Node k cs) ->
  nth_error ts tidc = Some (mk_slot true ric C) -> tidp <> tidc -> idx <= length cs ->
  exists ts',
    runs (attach_h (mk_hnd tidp pp) idx (mk_hnd tidc [])) (mk_state ts rs) tt
         (mk_state ts' (map (option_map (rebase_attach tidp pp idx tidc)) rs)) /\
    length ts' = length ts /\
    nth_error ts' tidp = Some (mk_slot true rip (upd_path Tp pp (fun q => set_children (insert_at idx [C] (children q)) q))) /\
    (forall j, j <> tidp -> j <> tidc -> nth_error ts' j = nth_error ts j).
Proof.
  intros HP HG HC Hne Hidx.
  pose proof (nth_error_Some_lt _ _ _ HP) as Hlp. pose proof (nth_error_Some_lt _ _ _ HC) as Hlc.
  eexists. split; [|split; [|split]].
  - unfold attach_h. cbn [h_tid h_path]. rbind; [eapply runs_get_slot; exact HP|].
    rbind; [eapply runs_get_slot; exact HC|]. cbn [s_mut andb negb].
    assert (tidp =? tidc = false) as -> by now apply Nat.eqb_neq.
    rbind; [eapply runs_node_of; [exact HP|exact HG]|]. cbn [is_node negb children].
    assert (length cs <? idx = false) as -> by (apply Nat.ltb_ge; lia).
    unfold runs. cbn [trees regs s_tree s_ridx]. reflexivity.
  - now rewrite !set_nth_length.
  - rewrite nth_error_set_nth_neq by congruence. apply nth_error_set_nth_eq. exact Hlp.
  - intros j H1 H2. rewrite !nth_error_set_nth_neq by congruence. reflexivity.
Qed.

(* the root register and registers into other trees are not moved by a detach/attach elsewhere *)
Lemma rebase_detach_root tid p i new t' : rebase_detach tid p i new (mk_hnd t' []) = mk_hnd t' [].
Proof.
  unfold rebase_detach. cbn [h_tid h_path]. destruct (t' =? tid); [|reflexivity].
  destruct p; reflexivity.
Qed.
Lemma rebase_detach_other tid p i new g : h_tid g <> tid -> rebase_detach tid p i new g = g.
Proof. intros H. unfold rebase_detach. apply Nat.eqb_neq in H. now rewrite H. Qed.
Lemma rebase_attach_root ptid pp idx ctid t' : t' <> ctid ->
  rebase_attach ptid pp idx ctid (mk_hnd t' []) = mk_hnd t' [].
Proof.
  intros H. unfold rebase_attach. cbn [h_tid h_path]. apply Nat.eqb_neq in H. rewrite H.
  destruct (t' =? ptid); [|reflexivity]. destruct pp; reflexivity.
Qed.
Lemma rebase_attach_child ptid pp idx ctid : 
  rebase_attach ptid pp idx ctid (mk_hnd ctid []) = mk_hnd ptid (pp ++ [idx]).
Proof. unfold rebase_attach. cbn [h_tid h_path]. now rewrite Nat.eqb_refl. Qed.
(* a handle at or below the parent path, but not below one of its children, stays *)
Lemma rebase_detach_self tid p i new : rebase_detach tid p i new (mk_hnd tid p) = mk_hnd tid p.
Proof.
  unfold rebase_detach. cbn [h_tid h_path]. rewrite Nat.eqb_refl.
  rewrite <- (app_nil_r p) at 2. now rewrite strip_prefix_app.
Qed.
Lemma rebase_attach_self ptid pp idx ctid : ptid <> ctid ->
  rebase_attach ptid pp idx ctid (mk_hnd ptid pp) = mk_hnd ptid pp.
Proof.
  intros H. unfold rebase_attach. cbn [h_tid h_path]. apply Nat.eqb_neq in H. rewrite H, Nat.eqb_refl.
  rewrite <- (app_nil_r pp) at 2. now rewrite strip_prefix_app.
Qed.

(* ------------------------------------------------------------------ handles that a mutation below path p leaves alone:
   every handle that is not STRICTLY below (tid, p) -- in another tree, on the path to p, p itself, or in a
   different subtree of the same tree *)
Definition above (tid : nat) (p : list nat) (g : hnd) : Prop :=
  h_tid g <> tid \/ forall j rest, strip_prefix p (h_path g) <> Some (j :: rest).

Lemma strip_prefix_shorter q rest : rest <> [] -> strip_prefix (q ++ rest) q = None.
Proof.
  intros H. induction q as [|x r IH]; cbn.
  - destruct rest; [congruence|reflexivity].
  - now rewrite Nat.eqb_refl.
Qed.
Lemma strip_prefix_app_inv pp q : forall path x, strip_prefix (pp ++ q) path = Some x -> strip_prefix pp path = Some (q ++ x).
Proof.
  induction pp as [|a pp IH]; intros path x H; cbn [app strip_prefix] in *.
  - revert path H. induction q as [|b q IHq]; intros path H; cbn [strip_prefix app] in *; [congruence|].
    destruct path as [|c path]; [discriminate|]. destruct (b =? c) eqn:E; [|discriminate]. apply Nat.eqb_eq in E. subst c.
    f_equal. f_equal. specialize (IHq _ H). congruence.
  - destruct path as [|c path]; [discriminate|]. destruct (a =? c); [|discriminate]. now apply IH.
Qed.

Lemma rebase_detach_above tid p i new g : above tid p g -> rebase_detach tid p i new g = g.
Proof.
  intros [H|H]; unfold rebase_detach.
  - apply Nat.eqb_neq in H. now rewrite H.
  - destruct (h_tid g =? tid); [|reflexivity]. destruct (strip_prefix p (h_path g)) as [[|j rest]|] eqn:E; try reflexivity.
    exfalso. exact (H _ _ eq_refl).
Qed.
Lemma rebase_attach_above ptid pp idx ctid g : h_tid g <> ctid -> above ptid pp g ->
  rebase_attach ptid pp idx ctid g = g.
Proof.
  intros Hc H. unfold rebase_attach. apply Nat.eqb_neq in Hc. rewrite Hc. destruct H as [H|H].
  - apply Nat.eqb_neq in H. now rewrite H.
  - destruct (h_tid g =? ptid); [|reflexivity]. destruct (strip_prefix pp (h_path g)) as [[|j rest]|] eqn:E; try reflexivity.
    exfalso. exact (H _ _ eq_refl).
Qed.
Lemma above_root tid p t' : above tid p (mk_hnd t' []).
Proof. right. intros j rest. cbn [h_path]. destruct p; cbn; discriminate. Qed.
Lemma above_self tid p : above tid p (mk_hnd tid p).
Proof. right. intros j rest. cbn [h_path]. rewrite <- (app_nil_r p) at 2. rewrite strip_prefix_app. discriminate. Qed.
Lemma above_other tid p g : h_tid g <> tid -> above tid p g.
Proof. now left. Qed.
Lemma above_deeper tid p q g : above tid p g -> above tid (p ++ q) g.
Proof.
  intros [H|H]; [now left|]. right. intros j rest E. apply strip_prefix_app_inv in E.
  destruct q as [|b q]; cbn [app] in E; eapply H; exact E.
Qed.
Lemma above_prefix tid q rest : above tid (q ++ rest) (mk_hnd tid q).
Proof. apply above_deeper, above_self. Qed.
Lemma strip_prefix_neq a b p q : a <> b -> strip_prefix (a :: p) (b :: q) = None.
Proof. intros H. cbn. apply Nat.eqb_neq in H. now rewrite H. Qed.
(* a handle into a different child subtree *)
Lemma above_sibling tid p a b qa qb : a <> b -> above tid (p ++ a :: qa) (mk_hnd tid (p ++ b :: qb)).
Proof.
  intros H. right. intros j rest. cbn [h_path]. induction p as [|x p IH]; cbn [app].
  - rewrite strip_prefix_neq by exact H. discriminate.
  - cbn [strip_prefix]. now rewrite Nat.eqb_refl.
Qed.

(* a sibling in front of the detached one stays; one behind it moves down by one *)
Lemma rebase_detach_before tid p i new j rest : j < i ->
  rebase_detach tid p i new (mk_hnd tid (p ++ j :: rest)) = mk_hnd tid (p ++ j :: rest).
Proof.
  intros H. unfold rebase_detach. cbn [h_tid h_path]. rewrite Nat.eqb_refl, strip_prefix_app.
  assert (j =? i = false) as -> by (apply Nat.eqb_neq; lia).
  assert (i <? j = false) as -> by (apply Nat.ltb_ge; lia). reflexivity.
Qed.
Lemma rebase_detach_after tid p i new j rest : i < j ->
  rebase_detach tid p i new (mk_hnd tid (p ++ j :: rest)) = mk_hnd tid (p ++ (j - 1) :: rest).
Proof.
  intros H. unfold rebase_detach. cbn [h_tid h_path]. rewrite Nat.eqb_refl, strip_prefix_app.
  assert (j =? i = false) as -> by (apply Nat.eqb_neq; lia).
  assert (i <? j = true) as -> by (apply Nat.ltb_lt; lia). reflexivity.
Qed.
Lemma rebase_detach_at tid p i new rest :
  rebase_detach tid p i new (mk_hnd tid (p ++ i :: rest)) = mk_hnd new rest.
Proof.
  unfold rebase_detach. cbn [h_tid h_path]. rewrite Nat.eqb_refl, strip_prefix_app.
  now rewrite Nat.eqb_refl.
Qed.
Lemma rebase_attach_after ptid pp idx ctid j rest : ptid <> ctid -> idx <= j ->
  rebase_attach ptid pp idx ctid (mk_hnd ptid (pp ++ j :: rest)) = mk_hnd ptid (pp ++ S j :: rest).
Proof.
  intros Hne H. unfold rebase_attach. cbn [h_tid h_path]. apply Nat.eqb_neq in Hne. rewrite Hne.
  rewrite Nat.eqb_refl, strip_prefix_app.
  assert (idx <=? j = true) as -> by (apply Nat.leb_le; lia). reflexivity.
Qed.
Lemma rebase_attach_before ptid pp idx ctid j rest : ptid <> ctid -> j < idx ->
  rebase_attach ptid pp idx ctid (mk_hnd ptid (pp ++ j :: rest)) = mk_hnd ptid (pp ++ j :: rest).
Proof.
  intros Hne H. unfold rebase_attach. cbn [h_tid h_path]. apply Nat.eqb_neq in Hne. rewrite Hne.
  rewrite Nat.eqb_refl, strip_prefix_app.
  assert (idx <=? j = false) as -> by (apply Nat.leb_gt; lia). reflexivity.
Qed.

Lemma map_option_map_id {A} (l : list (option A)) : map (option_map (fun g => g)) l = l.
Proof. induction l as [|[x|] r IH]; cbn; now rewrite ?IH. Qed.
Lemma map_option_map_comp {A} (f g : A -> A) (l : list (option A)) :
  map (option_map g) (map (option_map f) l) = map (option_map (fun x => g (f x))) l.
Proof. induction l as [|[x|] r IH]; cbn; now rewrite ?IH. Qed.
Lemma nth_error_map_reg (F : hnd -> hnd) rs r h :
  nth_error rs r = Some (Some h) -> nth_error (map (option_map F) rs) r = Some (Some (F h)).
Proof. intros H. rewrite nth_error_map, H. reflexivity. Qed.

Lemma upd_path_same t p n : get_path t p = Some n -> upd_path t p (fun _ => n) = t.
Proof.
  intros H. rewrite <- (upd_path_id t p n H) at 2. eapply upd_path_ext; [exact H|reflexivity].
Qed.
Lemma upd_path_const2 t p n a b :
  get_path t p = Some n -> upd_path (upd_path t p (fun _ => a)) p (fun _ => b) = upd_path t p (fun _ => b).
Proof. intros H. now rewrite (upd_path_upd_path _ _ _ _ _ H). Qed.

(* ------------------------------------------------------------------ the cleanup loops *)
Lemma get_path_child T p kd cs i c :
  get_path T p = Some (Node kd cs) -> nth_error cs i = Some c -> get_path T (p ++ [i]) = Some c.
Proof. intros H E. rewrite get_path_app, H. cbn [get_path children]. now rewrite E. Qed.

(* what the removal of the children [lo, hi) of the node (tid, p) does to the handles of its other
   children (and below): those in front stay, those behind move down *)
Definition cut_map (F : hnd -> hnd) (tid : nat) (p : list nat) (lo hi : nat) : Prop :=
  (forall c rest, c < lo -> F (mk_hnd tid (p ++ c :: rest)) = mk_hnd tid (p ++ c :: rest)) /\
  (forall c rest, hi <= c -> F (mk_hnd tid (p ++ c :: rest)) = mk_hnd tid (p ++ (c - (hi - lo)) :: rest)).
Lemma cut_map_id tid p k : cut_map (fun g => g) tid p k k.
Proof. split; intros c rest H; [reflexivity|]. now rewrite Nat.sub_diag, Nat.sub_0_r. Qed.
Lemma cut_map_detach tid p i new : cut_map (rebase_detach tid p i new) tid p i (S i).
Proof.
  split; intros c rest H.
  - now apply rebase_detach_before.
  - rewrite rebase_detach_after by lia. replace (S i - i) with 1 by lia. reflexivity.
Qed.
Lemma cut_map_bounds F tid p lo hi lo' hi' : lo = lo' -> hi = hi' -> cut_map F tid p lo hi -> cut_map F tid p lo' hi'.
Proof. now intros -> ->. Qed.
(* two cuts, the second one (in the new positions) around the seam the first one left *)
Lemma cut_map_comp F1 F2 tid p lo hi lo2 hi2 : cut_map F1 tid p lo hi -> cut_map F2 tid p lo2 hi2 ->
  lo2 <= lo -> lo <= hi2 -> lo <= hi -> cut_map (fun g => F2 (F1 g)) tid p lo2 (hi2 + (hi - lo)).
Proof.
  intros [A1 B1] [A2 B2] H1 H2 H3. split; intros c rest H.
  - rewrite A1 by lia. now apply A2.
  - rewrite B1 by lia. rewrite B2 by lia. f_equal. f_equal. f_equal. lia.
Qed.

(* `while let Some(n) = self.0.next_sibling_or_token() { n.detach() }`, k times *)
Lemma detach_next_repeat_x k : forall ts rs r tid ri T p kd pre x post,
  nth_error rs r = Some (Some (mk_hnd tid (p ++ [length pre]))) ->
  nth_error ts tid = Some (mk_slot true ri T) ->
  get_path T p = Some (Node kd (pre ++ x :: post)) -> k <= length post ->
  exists ts' F,
    runs (m_repeat k (m_detach_next r)) (mk_state ts rs) tt (mk_state ts' (map (option_map F) rs)) /\
    length ts <= length ts' /\
    nth_error ts' tid = Some (mk_slot true ri (upd_path T p (fun _ => Node kd (pre ++ x :: skipn k post)))) /\
    (forall j, j <> tid -> j < length ts -> nth_error ts' j = nth_error ts j) /\
    F (mk_hnd tid (p ++ [length pre])) = mk_hnd tid (p ++ [length pre]) /\
    (forall g, above tid p g -> F g = g) /\
    cut_map F tid p (S (length pre)) (S (length pre) + k).
Proof.
  induction k as [|k IH]; intros ts rs r tid ri T p kd pre x post Hr HT HG Hk.
  - exists ts, (fun g => g). rewrite map_option_map_id. cbn [m_repeat skipn].
    rewrite (upd_path_same _ _ _ HG). split; [rdone|split; [|split; [|split; [|split; [|split]]]]]; auto.
    eapply cut_map_bounds; [| |apply (cut_map_id tid p (S (length pre)))]; lia.
  - destruct post as [|y post']; [cbn in Hk; lia|]. cbn in Hk.
    assert (HGy : get_path T (p ++ [S (length pre)]) = Some y).
    { eapply get_path_child; [exact HG|]. rewrite nth_error_app2 by lia.
      replace (S (length pre) - length pre) with 1 by lia. reflexivity. }
    destruct (detach_h_spec ts rs tid ri T p (S (length pre)) y HT HGy) as (ts1 & R1 & L1 & T1 & N1 & O1).
    set (F1 := rebase_detach tid p (S (length pre)) (length ts)) in *.
    assert (ET1 : upd_path T p (fun q => set_children (remove_nth (S (length pre)) (children q)) q)
                  = upd_path T p (fun _ => Node kd (pre ++ x :: post'))).
    { eapply upd_path_ext; [exact HG|]. cbn [children set_children ekind]. f_equal.
      replace (pre ++ x :: y :: post') with ((pre ++ [x]) ++ y :: post') by (now rewrite <- app_assoc).
      replace (S (length pre)) with (length (pre ++ [x])) by (rewrite app_length; cbn; lia).
      rewrite remove_nth_app_len. now rewrite <- app_assoc. }
    rewrite ET1 in T1.
    assert (Hr1 : nth_error (map (option_map F1) rs) r = Some (Some (mk_hnd tid (p ++ [length pre])))).
    { rewrite (nth_error_map_reg F1 _ _ _ Hr). unfold F1. rewrite rebase_detach_before by lia. reflexivity. }
    assert (HG1 : get_path (upd_path T p (fun _ => Node kd (pre ++ x :: post'))) p = Some (Node kd (pre ++ x :: post')))
      by (now apply get_path_upd_path with (n := Node kd (pre ++ x :: y :: post'))).
    destruct (IH ts1 (map (option_map F1) rs) r tid ri _ p kd pre x post' Hr1 T1 HG1 ltac:(lia))
      as (ts' & F2 & R2 & L2 & T2 & O2 & S2 & A2 & C2).
    exists ts', (fun g => F2 (F1 g)). rewrite <- map_option_map_comp.
    split; [|split; [|split; [|split; [|split; [|split]]]]].
    + cbn [m_repeat]. rbind; [|exact R2].
      unfold m_detach_next. rbind; [apply runs_get_reg; exact Hr|]. rewrite parent_h_app.
      unfold child_h. cbn [h_tid h_path]. rbind; [exact R1|]. rdone.
    + lia.
    + rewrite T2. f_equal. f_equal. now rewrite (upd_path_const2 _ _ _ _ _ HG).
    + intros j Hj Hl. rewrite O2 by lia. now apply O1.
    + unfold F1 at 1. rewrite rebase_detach_before by lia. exact S2.
    + intros g Hg. unfold F1. rewrite rebase_detach_above by exact Hg. now apply A2.
    + eapply cut_map_bounds; [reflexivity| |eapply cut_map_comp; [apply cut_map_detach|exact C2|..]]; lia.
Qed.
Lemma detach_next_repeat k : forall ts rs r tid ri T p kd pre x post,
  nth_error rs r = Some (Some (mk_hnd tid (p ++ [length pre]))) ->
  nth_error ts tid = Some (mk_slot true ri T) ->
  get_path T p = Some (Node kd (pre ++ x :: post)) -> k <= length post ->
  exists ts' F,
    runs (m_repeat k (m_detach_next r)) (mk_state ts rs) tt (mk_state ts' (map (option_map F) rs)) /\
    length ts <= length ts' /\
    nth_error ts' tid = Some (mk_slot true ri (upd_path T p (fun _ => Node kd (pre ++ x :: skipn k post)))) /\
    (forall j, j <> tid -> j < length ts -> nth_error ts' j = nth_error ts j) /\
    F (mk_hnd tid (p ++ [length pre])) = mk_hnd tid (p ++ [length pre]) /\
    (forall g, above tid p g -> F g = g).
Proof.
  intros ts rs r tid ri T p kd pre x post Hr HT HG Hk.
  destruct (detach_next_repeat_x k ts rs r tid ri T p kd pre x post Hr HT HG Hk) as (ts' & F & R & L & T' & O & S & A & _).
  exists ts', F. auto 10.
Qed.

(* `while let Some(n) = self.0.prev_sibling_or_token() { n.detach() }`, once per element of [gone] *)
Lemma detach_prev_repeat_x gone : forall ts rs r tid ri T p kd pre0 x post,
  nth_error rs r = Some (Some (mk_hnd tid (p ++ [length pre0 + length gone]))) ->
  nth_error ts tid = Some (mk_slot true ri T) ->
  get_path T p = Some (Node kd (pre0 ++ gone ++ x :: post)) ->
  exists ts' F,
    runs (m_repeat (length gone) (m_detach_prev r)) (mk_state ts rs) tt (mk_state ts' (map (option_map F) rs)) /\
    length ts <= length ts' /\
    nth_error ts' tid = Some (mk_slot true ri (upd_path T p (fun _ => Node kd (pre0 ++ x :: post)))) /\
    (forall j, j <> tid -> j < length ts -> nth_error ts' j = nth_error ts j) /\
    F (mk_hnd tid (p ++ [length pre0 + length gone])) = mk_hnd tid (p ++ [length pre0]) /\
    (forall g, above tid p g -> F g = g) /\
    cut_map F tid p (length pre0) (length pre0 + length gone).
Proof.
  induction gone as [|y gone' IH] using rev_ind; intros ts rs r tid ri T p kd pre0 x post Hr HT HG.
  - exists ts, (fun g => g). rewrite map_option_map_id. cbn [m_repeat length app] in *.
    rewrite (upd_path_same _ _ _ HG). rewrite Nat.add_0_r. split; [rdone|split; [|split; [|split; [|split; [|split]]]]]; auto.
    apply cut_map_id.
  - rewrite app_length in *. cbn [length] in *.
    replace (length pre0 + (length gone' + 1)) with (S (length pre0 + length gone')) in * by lia.
    replace (length gone' + 1) with (S (length gone')) by lia.
    assert (Ecs : pre0 ++ (gone' ++ [y]) ++ x :: post = (pre0 ++ gone') ++ y :: x :: post)
      by (now rewrite <- !app_assoc).
    rewrite Ecs in HG.
    assert (HGy : get_path T (p ++ [length pre0 + length gone']) = Some y).
    { eapply get_path_child; [exact HG|]. rewrite <- app_length. apply nth_error_app_len. }
    destruct (detach_h_spec ts rs tid ri T p _ y HT HGy) as (ts1 & R1 & L1 & T1 & N1 & O1).
    set (F1 := rebase_detach tid p (length pre0 + length gone') (length ts)) in *.
    assert (ET1 : upd_path T p (fun q => set_children (remove_nth (length pre0 + length gone') (children q)) q)
                  = upd_path T p (fun _ => Node kd (pre0 ++ gone' ++ x :: post))).
    { eapply upd_path_ext; [exact HG|]. cbn [children set_children ekind]. f_equal.
      rewrite <- app_length. rewrite remove_nth_app_len. now rewrite <- app_assoc. }
    rewrite ET1 in T1.
    assert (Hr1 : nth_error (map (option_map F1) rs) r = Some (Some (mk_hnd tid (p ++ [length pre0 + length gone'])))).
    { rewrite (nth_error_map_reg F1 _ _ _ Hr). unfold F1. rewrite rebase_detach_after by lia.
      replace (S (length pre0 + length gone') - 1) with (length pre0 + length gone') by lia. reflexivity. }
    assert (HG1 : get_path (upd_path T p (fun _ => Node kd (pre0 ++ gone' ++ x :: post))) p
                  = Some (Node kd (pre0 ++ gone' ++ x :: post)))
      by (now apply get_path_upd_path with (n := Node kd ((pre0 ++ gone') ++ y :: x :: post))).
    destruct (IH ts1 (map (option_map F1) rs) r tid ri _ p kd pre0 x post Hr1 T1 HG1)
      as (ts' & F2 & R2 & L2 & T2 & O2 & S2 & A2 & C2).
    exists ts', (fun g => F2 (F1 g)). rewrite <- map_option_map_comp.
    split; [|split; [|split; [|split; [|split; [|split]]]]].
    + cbn [m_repeat]. rbind; [|exact R2].
      unfold m_detach_prev. rbind; [apply runs_get_reg; exact Hr|]. rewrite parent_h_app.
      unfold child_h. cbn [h_tid h_path]. rbind; [exact R1|]. rdone.
    + lia.
    + rewrite T2. f_equal. f_equal. now rewrite (upd_path_const2 _ _ _ _ _ HG).
    + intros j Hj Hl. rewrite O2 by lia. now apply O1.
    + unfold F1 at 1. rewrite rebase_detach_after by lia.
      replace (S (length pre0 + length gone') - 1) with (length pre0 + length gone') by lia. exact S2.
    + intros g Hg. unfold F1. rewrite rebase_detach_above by exact Hg. now apply A2.
    + eapply cut_map_bounds; [reflexivity| |eapply cut_map_comp; [apply cut_map_detach|exact C2|..]]; lia.
Qed.
Lemma detach_prev_repeat gone : forall ts rs r tid ri T p kd pre0 x post,
  nth_error rs r = Some (Some (mk_hnd tid (p ++ [length pre0 + length gone]))) ->
  nth_error ts tid = Some (mk_slot true ri T) ->
  get_path T p = Some (Node kd (pre0 ++ gone ++ x :: post)) ->
  exists ts' F,
    runs (m_repeat (length gone) (m_detach_prev r)) (mk_state ts rs) tt (mk_state ts' (map (option_map F) rs)) /\
    length ts <= length ts' /\
    nth_error ts' tid = Some (mk_slot true ri (upd_path T p (fun _ => Node kd (pre0 ++ x :: post)))) /\
    (forall j, j <> tid -> j < length ts -> nth_error ts' j = nth_error ts j) /\
    F (mk_hnd tid (p ++ [length pre0 + length gone])) = mk_hnd tid (p ++ [length pre0]) /\
    (forall g, above tid p g -> F g = g).
Proof.
  intros ts rs r tid ri T p kd pre0 x post Hr HT HG.
  destruct (detach_prev_repeat_x gone ts rs r tid ri T p kd pre0 x post Hr HT HG) as (ts' & F & R & L & T' & O & S & A & _).
  exists ts', F. auto 10.
Qed.

(* self.0.detach() of a node that has a parent *)
Lemma detach_reg_spec ts rs r tid ri T p kd pre x post :
  nth_error rs r = Some (Some (mk_hnd tid (p ++ [length pre]))) ->
  nth_error ts tid = Some (mk_slot true ri T) ->
  get_path T p = Some (Node kd (pre ++ x :: post)) ->
  exists ts' F,
    runs (m_detach r) (mk_state ts rs) tt (mk_state ts' (map (option_map F) rs)) /\
    length ts' = S (length ts) /\
    nth_error ts' tid = Some (mk_slot true ri (upd_path T p (fun _ => Node kd (pre ++ post)))) /\
    nth_error ts' (length ts) = Some (mk_slot true (length pre) x) /\
    (forall j, j <> tid -> j < length ts -> nth_error ts' j = nth_error ts j) /\
    F (mk_hnd tid (p ++ [length pre])) = mk_hnd (length ts) [] /\
    (forall g, above tid p g -> F g = g).
Proof.
  intros Hr HT HG.
  assert (HGx : get_path T (p ++ [length pre]) = Some x)
    by (eapply get_path_child; [exact HG|apply nth_error_app_len]).
  destruct (detach_h_spec ts rs tid ri T p _ x HT HGx) as (ts1 & R1 & L1 & T1 & N1 & O1).
  exists ts1, (rebase_detach tid p (length pre) (length ts)). repeat split; auto.
  - unfold m_detach. rbind; [apply runs_get_reg; exact Hr|]. rbind; [exact R1|]. rdone.
  - rewrite T1. f_equal. f_equal. eapply upd_path_ext; [exact HG|].
    cbn [children set_children ekind]. now rewrite remove_nth_app_len.
  - replace (p ++ [length pre]) with (p ++ length pre :: []) by reflexivity. now rewrite rebase_detach_at.
  - intros g Hg. now apply rebase_detach_above.
Qed.
Lemma detach_reg_spec_x ts rs r tid ri T p kd pre x post :
  nth_error rs r = Some (Some (mk_hnd tid (p ++ [length pre]))) ->
  nth_error ts tid = Some (mk_slot true ri T) ->
  get_path T p = Some (Node kd (pre ++ x :: post)) ->
  exists ts' F,
    runs (m_detach r) (mk_state ts rs) tt (mk_state ts' (map (option_map F) rs)) /\
    length ts' = S (length ts) /\
    nth_error ts' tid = Some (mk_slot true ri (upd_path T p (fun _ => Node kd (pre ++ post)))) /\
    nth_error ts' (length ts) = Some (mk_slot true (length pre) x) /\
    (forall j, j <> tid -> j < length ts -> nth_error ts' j = nth_error ts j) /\
    F (mk_hnd tid (p ++ [length pre])) = mk_hnd (length ts) [] /\
    (forall g, above tid p g -> F g = g) /\
    cut_map F tid p (length pre) (S (length pre)).
Proof.
  intros Hr HT HG.
  assert (HGx : get_path T (p ++ [length pre]) = Some x)
    by (eapply get_path_child; [exact HG|apply nth_error_app_len]).
  destruct (detach_h_spec ts rs tid ri T p _ x HT HGx) as (ts1 & R1 & L1 & T1 & N1 & O1).
  exists ts1, (rebase_detach tid p (length pre) (length ts)).
  split; [|split; [|split; [|split; [|split; [|split; [|split]]]]]]; auto.
  - unfold m_detach. rbind; [apply runs_get_reg; exact Hr|]. rbind; [exact R1|]. rdone.
  - rewrite T1. f_equal. f_equal. eapply upd_path_ext; [exact HG|].
    cbn [children set_children ekind]. now rewrite remove_nth_app_len.
  - replace (p ++ [length pre]) with (p ++ length pre :: []) by reflexivity. now rewrite rebase_detach_at.
  - intros g Hg. now apply rebase_detach_above.
  - apply cut_map_detach.
Qed.

(* ------------------------------------------------------------------ splice_children with one new child *)
Lemma attach_child_spec ts rs pr cr tid ri T p kd cs idx tc rc C :
  nth_error rs pr = Some (Some (mk_hnd tid p)) -> nth_error rs cr = Some (Some (mk_hnd tc [])) ->
  nth_error ts tid = Some (mk_slot true ri T) -> get_path T p = Some (Node kd cs) ->
  nth_error ts tc = Some (mk_slot true rc C) -> tid <> tc -> idx <= length cs ->
  exists ts',
    runs (m_attach_child pr idx cr) (mk_state ts rs) tt
         (mk_state ts' (map (option_map (rebase_attach tid p idx tc)) rs)) /\
    length ts' = length ts /\
    nth_error ts' tid = Some (mk_slot true ri (upd_path T p (fun _ => Node kd (insert_at idx [C] cs)))) /\
    (forall j, j <> tid -> j <> tc -> nth_error ts' j = nth_error ts j).
Proof.
  intros Hp Hc HT HG HC Hne Hidx.
  destruct (attach_h_spec ts rs tid ri T p kd cs idx tc rc C HT HG HC Hne Hidx) as (ts' & R & L & T' & O).
  exists ts'. repeat split; auto.
  - unfold m_attach_child. rbind; [apply runs_get_reg; exact Hc|].
    rbind; [eapply detach_h_root; exact HC|].
    rbind; [apply runs_get_reg; exact Hp|]. rbind; [apply runs_get_reg; exact Hc|]. exact R.
  - rewrite T'. f_equal. f_equal. eapply upd_path_ext; [exact HG|]. reflexivity.
Qed.

Lemma splice_insert_spec ts rs pr cr tid ri T p kd cs idx tc rc C :
  nth_error rs pr = Some (Some (mk_hnd tid p)) -> nth_error rs cr = Some (Some (mk_hnd tc [])) ->
  nth_error ts tid = Some (mk_slot true ri T) -> get_path T p = Some (Node kd cs) ->
  nth_error ts tc = Some (mk_slot true rc C) -> tid <> tc -> idx <= length cs ->
  exists ts',
    runs (m_splice pr idx idx [cr]) (mk_state ts rs) tt
         (mk_state ts' (map (option_map (rebase_attach tid p idx tc)) rs)) /\
    length ts' = length ts /\
    nth_error ts' tid = Some (mk_slot true ri (upd_path T p (fun _ => Node kd (insert_at idx [C] cs)))) /\
    (forall j, j <> tid -> j <> tc -> nth_error ts' j = nth_error ts j).
Proof.
  intros Hp Hc HT HG HC Hne Hidx.
  destruct (attach_child_spec ts rs pr cr tid ri T p kd cs idx tc rc C Hp Hc HT HG HC Hne Hidx) as (ts' & R & L & T' & O).
  exists ts'. repeat split; auto.
  unfold m_splice. rbind; [apply runs_get_reg; exact Hp|]. cbn [h_tid].
  rbind; [eapply runs_get_slot; exact HT|]. cbn [s_mut negb].
  rbind; [eapply runs_children_of; [exact HT|exact HG]|].
  rewrite Nat.ltb_irrefl. cbn [andb]. rbind; [rdone|].
  cbn [m_attach_all]. rbind; [exact R|]. rdone.
Qed.

Lemma splice_replace_spec_x ts rs pr cr tid ri T p kd pre x post tc rc C :
  nth_error rs pr = Some (Some (mk_hnd tid p)) -> nth_error rs cr = Some (Some (mk_hnd tc [])) ->
  nth_error ts tid = Some (mk_slot true ri T) -> get_path T p = Some (Node kd (pre ++ x :: post)) ->
  nth_error ts tc = Some (mk_slot true rc C) -> tid <> tc ->
  exists ts' F,
    runs (m_splice pr (length pre) (S (length pre)) [cr]) (mk_state ts rs) tt
         (mk_state ts' (map (option_map F) rs)) /\
    length ts' = S (length ts) /\
    nth_error ts' tid = Some (mk_slot true ri (upd_path T p (fun _ => Node kd (pre ++ C :: post)))) /\
    nth_error ts' (length ts) = Some (mk_slot true (length pre) x) /\
    (forall j, j <> tid -> j <> tc -> j < length ts -> nth_error ts' j = nth_error ts j) /\
    F (mk_hnd tid (p ++ [length pre])) = mk_hnd (length ts) [] /\
    F (mk_hnd tc []) = mk_hnd tid (p ++ [length pre]) /\
    (forall g, h_tid g <> tc -> above tid p g -> F g = g) /\
    (forall c rest, c <> length pre -> F (mk_hnd tid (p ++ c :: rest)) = mk_hnd tid (p ++ c :: rest)).
Proof.
  intros Hp Hc HT HG HC Hne.
  pose proof (nth_error_Some_lt _ _ _ HC) as Hlc. pose proof (nth_error_Some_lt _ _ _ HT) as Hlt.
  assert (HGx : get_path T (p ++ [length pre]) = Some x)
    by (eapply get_path_child; [exact HG|apply nth_error_app_len]).
  destruct (detach_h_spec ts rs tid ri T p _ x HT HGx) as (ts1' & R1 & L1' & T1' & N1' & O1').
  set (F1 := rebase_detach tid p (length pre) (length ts)) in *.
  assert (ET : upd_path T p (fun q => set_children (remove_nth (length pre) (children q)) q)
               = upd_path T p (fun _ => Node kd (pre ++ post))).
  { eapply upd_path_ext; [exact HG|]. cbn [children set_children ekind]. now rewrite remove_nth_app_len. }
  rewrite ET in T1'.
  assert (Hp1 : nth_error (map (option_map F1) rs) pr = Some (Some (mk_hnd tid p))).
  { rewrite (nth_error_map_reg F1 _ _ _ Hp). unfold F1. now rewrite rebase_detach_self. }
  assert (Hc1 : nth_error (map (option_map F1) rs) cr = Some (Some (mk_hnd tc []))).
  { rewrite (nth_error_map_reg F1 _ _ _ Hc). unfold F1. now rewrite rebase_detach_root. }
  assert (HC1 : nth_error ts1' tc = Some (mk_slot true rc C)) by (rewrite O1' by (auto; lia); exact HC).
  assert (HG1 : get_path (upd_path T p (fun _ => Node kd (pre ++ post))) p = Some (Node kd (pre ++ post)))
    by (now apply get_path_upd_path with (n := Node kd (pre ++ x :: post))).
  destruct (attach_child_spec ts1' (map (option_map F1) rs) pr cr tid ri _ p kd (pre ++ post) (length pre) tc rc C
              Hp1 Hc1 T1' HG1 HC1 Hne ltac:(rewrite app_length; lia)) as (ts2 & R2 & L2 & T2 & O2).
  exists ts2, (fun g => rebase_attach tid p (length pre) tc (F1 g)).
  rewrite <- map_option_map_comp. split; [|split; [|split; [|split; [|split; [|split; [|split; [|split]]]]]]].
  - unfold m_splice. rbind; [apply runs_get_reg; exact Hp|]. cbn [h_tid].
    rbind; [eapply runs_get_slot; exact HT|]. cbn [s_mut negb].
    rbind; [eapply runs_children_of; [exact HT|exact HG]|]. cbn [children].
    assert (length pre <? S (length pre) = true) as -> by (apply Nat.ltb_lt; lia).
    assert (length pre <? length (pre ++ x :: post) = true) as ->
      by (apply Nat.ltb_lt; rewrite app_length; cbn; lia).
    cbn [andb]. unfold child_h. cbn [h_tid h_path].
    rbind; [rbind; [exact R1|]; rdone|].
    cbn [m_attach_all]. rbind; [exact R2|]. rdone.
  - lia.
  - rewrite T2. f_equal. f_equal. rewrite (upd_path_const2 _ _ _ _ _ HG).
    eapply upd_path_ext; [exact HG|]. now rewrite insert_at_app_len.
  - rewrite O2 by lia. exact N1'.
  - intros j H1 H2 H3. rewrite O2 by auto. now apply O1'.
  - unfold F1. replace (p ++ [length pre]) with (p ++ length pre :: []) by reflexivity.
    rewrite rebase_detach_at. apply rebase_attach_root. lia.
  - unfold F1. rewrite rebase_detach_root. apply rebase_attach_child.
  - intros g Hg Ha. unfold F1. rewrite rebase_detach_above by exact Ha. now apply rebase_attach_above.
  - intros c rest Hcn. unfold F1. destruct (Nat.lt_ge_cases c (length pre)) as [Hl|Hl].
    + rewrite rebase_detach_before by exact Hl. now apply rebase_attach_before.
    + rewrite rebase_detach_after by lia. rewrite rebase_attach_after by (auto; lia).
      replace (S (c - 1)) with c by lia. reflexivity.
Qed.
Lemma splice_replace_spec ts rs pr cr tid ri T p kd pre x post tc rc C :
  nth_error rs pr = Some (Some (mk_hnd tid p)) -> nth_error rs cr = Some (Some (mk_hnd tc [])) ->
  nth_error ts tid = Some (mk_slot true ri T) -> get_path T p = Some (Node kd (pre ++ x :: post)) ->
  nth_error ts tc = Some (mk_slot true rc C) -> tid <> tc ->
  exists ts' F,
    runs (m_splice pr (length pre) (S (length pre)) [cr]) (mk_state ts rs) tt
         (mk_state ts' (map (option_map F) rs)) /\
    length ts' = S (length ts) /\
    nth_error ts' tid = Some (mk_slot true ri (upd_path T p (fun _ => Node kd (pre ++ C :: post)))) /\
    nth_error ts' (length ts) = Some (mk_slot true (length pre) x) /\
    (forall j, j <> tid -> j <> tc -> j < length ts -> nth_error ts' j = nth_error ts j) /\
    F (mk_hnd tid (p ++ [length pre])) = mk_hnd (length ts) [] /\
    F (mk_hnd tc []) = mk_hnd tid (p ++ [length pre]) /\
    (forall g, h_tid g <> tc -> above tid p g -> F g = g).
Proof.
  intros Hp Hc HT HG HC Hne.
  destruct (splice_replace_spec_x ts rs pr cr tid ri T p kd pre x post tc rc C Hp Hc HT HG HC Hne)
    as (ts' & F & R & L & T' & N & O & S1 & S2 & A & _).
  exists ts', F. auto 10.
Qed.

(* ------------------------------------------------------------------ splice_children(idx..idx, freshly built elements) *)
Lemma runs_push_tmps hs : forall ts rs,
  runs (push_tmps hs) (mk_state ts rs) (seq (length rs) (length hs)) (mk_state ts (rs ++ map Some hs)).
Proof.
  induction hs as [|h r IH]; intros ts rs; cbn [push_tmps length seq map].
  - rewrite app_nil_r. rdone.
  - rbind; [apply runs_push_tmp|]. rbind; [apply IH|]. rewrite app_length. cbn [length]. rewrite Nat.add_1_r.
    eapply runs_eq; [rdone|reflexivity|]. now rewrite <- app_assoc.
Qed.
Lemma nth_error_map_seq {A} (f : nat -> A) n : forall a j, j < n -> nth_error (map f (seq a n)) j = Some (f (a + j)).
Proof.
  induction n as [|n IH]; intros a j H; [lia|]. destruct j as [|j]; cbn [seq map nth_error].
  - now rewrite Nat.add_0_r.
  - rewrite IH by lia. f_equal. f_equal. lia.
Qed.
Lemma insert_at_step {A} (idx : nat) (x : A) (tl : list A) : forall cs, idx <= length cs ->
  insert_at (S idx) tl (insert_at idx [x] cs) = insert_at idx (x :: tl) cs.
Proof.
  induction idx as [|idx IH]; intros cs H.
  - reflexivity.
  - destruct cs as [|y r]; [cbn in H; lia|]. rewrite !insert_at_S. f_equal. apply IH. cbn in H. lia.
Qed.

(* the tokens that detached_tokens made: the children of the throw-away node (tt, []), in registers crs *)
Lemma attach_tokens : forall (toks : list rtree) crs ts rs pr tid ri T p kd cs idx tk rt,
  nth_error rs pr = Some (Some (mk_hnd tid p)) ->
  nth_error ts tid = Some (mk_slot true ri T) -> get_path T p = Some (Node kd cs) -> idx <= length cs ->
  nth_error ts tk = Some (mk_slot true rt (Node ROOT toks)) -> tid <> tk ->
  length crs = length toks ->
  (forall m cr, nth_error crs m = Some cr -> nth_error rs cr = Some (Some (mk_hnd tk ([] ++ [m])))) ->
  exists ts' F,
    runs (m_attach_all pr idx crs) (mk_state ts rs) tt (mk_state ts' (map (option_map F) rs)) /\
    length ts <= length ts' /\
    nth_error ts' tid = Some (mk_slot true ri (upd_path T p (fun _ => Node kd (insert_at idx toks cs)))) /\
    (forall j, j <> tid -> j <> tk -> j < length ts -> nth_error ts' j = nth_error ts j) /\
    (forall g, h_tid g < length ts -> h_tid g <> tk -> above tid p g -> F g = g) /\
    (forall c rest, F (mk_hnd tid (p ++ c :: rest)) = mk_hnd tid (p ++ (if idx <=? c then c + length toks else c) :: rest)).
Proof.
  induction toks as [|x toks' IH]; intros crs ts rs pr tid ri T p kd cs idx tk rt Hpr HT HG Hidx HTt Hne Hlen Hcrs.
  - destruct crs; [|discriminate]. exists ts, (fun g => g). rewrite map_option_map_id.
    split; [cbn [m_attach_all]; rdone|]. split; [lia|]. split.
    { unfold insert_at. cbn [app]. rewrite firstn_skipn. now rewrite (upd_path_same _ _ _ HG). }
    split; [auto|]. split; [auto|]. intros c rest. cbn [length]. rewrite Nat.add_0_r. now destruct (idx <=? c).
  - destruct crs as [|cr crs']; [discriminate|]. cbn [length] in Hlen.
    pose proof (nth_error_Some_lt _ _ _ HT) as Hlt. pose proof (nth_error_Some_lt _ _ _ HTt) as Hltt.
    pose proof (Hcrs 0 cr eq_refl) as Hcr.
    assert (HGx : get_path (Node ROOT (x :: toks')) ([] ++ [0]) = Some x) by reflexivity.
    destruct (detach_h_spec ts rs tk rt (Node ROOT (x :: toks')) [] 0 x HTt HGx) as (ts1 & R1 & L1 & T1 & N1 & O1).
    set (F1 := rebase_detach tk [] 0 (length ts)) in *. cbn [upd_path children set_children ekind remove_nth firstn skipn app] in T1.
    assert (HT1 : nth_error ts1 tid = Some (mk_slot true ri T)) by (rewrite O1 by (auto; lia); exact HT).
    destruct (attach_h_spec ts1 (map (option_map F1) rs) tid ri T p kd cs idx (length ts) 0 x HT1 HG N1 ltac:(lia) Hidx)
      as (ts2 & R2 & L2 & T2 & O2).
    set (F2 := rebase_attach tid p idx (length ts)) in *.
    assert (ET2 : upd_path T p (fun q => set_children (insert_at idx [x] (children q)) q) = upd_path T p (fun _ => Node kd (insert_at idx [x] cs))).
    { eapply upd_path_ext; [exact HG|]. reflexivity. }
    rewrite ET2 in T2. set (T' := upd_path T p (fun _ => Node kd (insert_at idx [x] cs))) in *.
    assert (HG' : get_path T' p = Some (Node kd (insert_at idx [x] cs))) by (unfold T'; now apply get_path_upd_path with (n := Node kd cs)).
    assert (HTt2 : nth_error ts2 tk = Some (mk_slot true rt (Node ROOT toks'))) by (rewrite O2 by lia; exact T1).
    assert (Hpr2 : nth_error (map (option_map F2) (map (option_map F1) rs)) pr = Some (Some (mk_hnd tid p))).
    { rewrite (nth_error_map_reg F2 _ _ (F1 (mk_hnd tid p))) by (now apply nth_error_map_reg).
      f_equal. f_equal. unfold F1. rewrite rebase_detach_other by (cbn; congruence). unfold F2. apply rebase_attach_self. lia. }
    assert (Hcrs2 : forall m cr', nth_error crs' m = Some cr' ->
              nth_error (map (option_map F2) (map (option_map F1) rs)) cr' = Some (Some (mk_hnd tk ([] ++ [m])))).
    { intros m cr' Hm. pose proof (Hcrs (S m) cr' Hm) as Hc.
      rewrite (nth_error_map_reg F2 _ _ (F1 (mk_hnd tk ([] ++ [S m])))) by (now apply nth_error_map_reg).
      f_equal. f_equal. unfold F1. rewrite (rebase_detach_after tk [] 0 _ (S m) []) by lia. unfold F2.
      rewrite rebase_attach_above; [cbn [app]; do 2 f_equal; f_equal; lia|cbn; lia|apply above_other; cbn; congruence]. }
    assert (Hidx' : S idx <= length (insert_at idx [x] cs)) by (rewrite insert_at_length; cbn; lia).
    destruct (IH crs' ts2 (map (option_map F2) (map (option_map F1) rs)) pr tid ri T' p kd (insert_at idx [x] cs) (S idx) tk rt
                Hpr2 T2 HG' Hidx' HTt2 Hne ltac:(lia) Hcrs2)
      as (ts3 & F3 & R3 & L3 & T3 & O3 & A3 & B3).
    exists ts3, (fun g => F3 (F2 (F1 g))).
    replace (map (option_map (fun g => F3 (F2 (F1 g)))) rs)
      with (map (option_map F3) (map (option_map F2) (map (option_map F1) rs))) by (now rewrite !map_option_map_comp).
    split; [|split; [|split; [|split; [|split]]]].
    + cbn [m_attach_all]. rbind; [|exact R3]. unfold m_attach_child.
      rbind; [apply runs_get_reg; exact Hcr|]. rbind; [exact R1|].
      rbind; [apply runs_get_reg; apply (nth_error_map_reg F1 _ _ _ Hpr)|].
      unfold F1 at 1. rewrite rebase_detach_other by (cbn; congruence).
      rbind; [apply runs_get_reg; apply (nth_error_map_reg F1 _ _ _ Hcr)|].
      unfold F1 at 1. rewrite (rebase_detach_at tk [] 0 _ []). exact R2.
    + lia.
    + rewrite T3. unfold T'. rewrite (upd_path_const2 _ _ _ _ _ HG). f_equal. f_equal.
      eapply upd_path_ext; [exact HG|]. now rewrite insert_at_step.
    + intros j H1 H2 H3. rewrite O3 by lia. rewrite O2 by lia. now apply O1.
    + intros g Hg Ht Ha. unfold F1. rewrite rebase_detach_other by exact Ht. unfold F2.
      rewrite rebase_attach_above by (auto; lia). apply A3; [lia|exact Ht|exact Ha].
    + intros c rest. unfold F1. rewrite rebase_detach_other by (cbn; congruence). unfold F2.
      destruct (idx <=? c) eqn:E.
      * apply Nat.leb_le in E. rewrite rebase_attach_after by (auto; lia). rewrite B3.
        assert (S idx <=? S c = true) as -> by (apply Nat.leb_le; lia). do 3 f_equal. cbn [length]. lia.
      * apply Nat.leb_gt in E. rewrite rebase_attach_before by (auto; lia). rewrite B3.
        assert (S idx <=? c = false) as -> by (apply Nat.leb_gt; lia). reflexivity.
Qed.

(* the elements of a splice, as they were made: each phase is one call of detached_tokens (the
   children of a throw-away node) or one fresh node (a root of its own) *)
Record phase := mk_phase { ph_tree : nat; ph_root : bool; ph_elems : list rtree; ph_regs : list nat }.
Definition phase_ok (ts : list slot) (rs : list (option hnd)) (ph : phase) : Prop :=
  if ph_root ph then
    exists N cr rc, ph_elems ph = [N] /\ ph_regs ph = [cr] /\
                    nth_error rs cr = Some (Some (mk_hnd (ph_tree ph) [])) /\
                    nth_error ts (ph_tree ph) = Some (mk_slot true rc N)
  else
    length (ph_regs ph) = length (ph_elems ph) /\
    (forall m cr, nth_error (ph_regs ph) m = Some cr -> nth_error rs cr = Some (Some (mk_hnd (ph_tree ph) ([] ++ [m])))) /\
    exists rt, nth_error ts (ph_tree ph) = Some (mk_slot true rt (Node ROOT (ph_elems ph))).
Lemma phase_ok_lt ts rs ph : phase_ok ts rs ph -> ph_tree ph < length ts.
Proof.
  unfold phase_ok. destruct (ph_root ph).
  - intros (N & cr & rc & _ & _ & _ & H). now apply nth_error_Some_lt in H.
  - intros (_ & _ & rt & H). now apply nth_error_Some_lt in H.
Qed.

Lemma m_attach_all_app pr a : forall idx b st st1 st2,
  runs (m_attach_all pr idx a) st tt st1 -> runs (m_attach_all pr (idx + length a) b) st1 tt st2 ->
  runs (m_attach_all pr idx (a ++ b)) st tt st2.
Proof.
  induction a as [|x r IH]; intros idx b st st1 st2 H1 H2.
  - cbn [m_attach_all] in H1. unfold runs, ret in H1. injection H1 as <-. cbn [length app] in *. now rewrite Nat.add_0_r in H2.
  - cbn [app m_attach_all] in *. unfold runs, mbind in H1 |- *. destruct (m_attach_child pr idx x st) as [[u s']| | |]; try discriminate.
    apply (IH (S idx) b s' st1 st2 H1). cbn [length] in H2. now rewrite Nat.add_succ_r in H2.
Qed.
Lemma insert_at_app2 {A} (X Y : list A) : forall idx cs, idx <= length cs ->
  insert_at (idx + length X) Y (insert_at idx X cs) = insert_at idx (X ++ Y) cs.
Proof.
  induction X as [|x X IH]; intros idx cs H.
  - cbn [length app]. rewrite Nat.add_0_r. unfold insert_at at 2. cbn [app]. now rewrite firstn_skipn.
  - cbn [length app]. rewrite <- (insert_at_step idx x X cs H), <- (insert_at_step idx x (X ++ Y) cs H).
    rewrite Nat.add_succ_r, <- Nat.add_succ_l. apply IH. rewrite insert_at_length. cbn. lia.
Qed.

Lemma attach_phases : forall (phs : list phase) ts rs pr tid ri T p kd cs idx,
  nth_error rs pr = Some (Some (mk_hnd tid p)) ->
  nth_error ts tid = Some (mk_slot true ri T) -> get_path T p = Some (Node kd cs) -> idx <= length cs ->
  Forall (phase_ok ts rs) phs -> NoDup (map ph_tree phs) -> ~ In tid (map ph_tree phs) ->
  exists ts' F,
    runs (m_attach_all pr idx (flat_map ph_regs phs)) (mk_state ts rs) tt (mk_state ts' (map (option_map F) rs)) /\
    length ts <= length ts' /\
    nth_error ts' tid = Some (mk_slot true ri (upd_path T p (fun _ => Node kd (insert_at idx (flat_map ph_elems phs) cs)))) /\
    (forall j, j <> tid -> ~ In j (map ph_tree phs) -> j < length ts -> nth_error ts' j = nth_error ts j) /\
    (forall g, h_tid g < length ts -> ~ In (h_tid g) (map ph_tree phs) -> above tid p g -> F g = g) /\
    (forall c rest, F (mk_hnd tid (p ++ c :: rest)) =
                    mk_hnd tid (p ++ (if idx <=? c then c + length (flat_map ph_elems phs) else c) :: rest)).
Proof.
  induction phs as [|ph phs IH]; intros ts rs pr tid ri T p kd cs idx Hpr HT HG Hidx Hok Hnd Hnin.
  - exists ts, (fun g => g). rewrite map_option_map_id. split; [cbn [flat_map m_attach_all]; rdone|]. split; [lia|]. split.
    { cbn [flat_map]. unfold insert_at. cbn [app]. rewrite firstn_skipn. now rewrite (upd_path_same _ _ _ HG). }
    split; [auto|]. split; [auto|]. intros c rest. cbn [flat_map length]. rewrite Nat.add_0_r. now destruct (idx <=? c).
  - inversion Hok as [|? ? Hph Hrest]; subst. cbn [map] in Hnd, Hnin. inversion Hnd as [|? ? Hni Hnd']; subst.
    pose proof (nth_error_Some_lt _ _ _ HT) as Hlt. pose proof (phase_ok_lt _ _ _ Hph) as Hltk.
    assert (Hne : tid <> ph_tree ph) by (intros E; apply Hnin; now left).
    (* the first phase *)
    assert (H1 : exists ts1 F1,
              runs (m_attach_all pr idx (ph_regs ph)) (mk_state ts rs) tt (mk_state ts1 (map (option_map F1) rs)) /\
              length ts <= length ts1 /\
              nth_error ts1 tid = Some (mk_slot true ri (upd_path T p (fun _ => Node kd (insert_at idx (ph_elems ph) cs)))) /\
              (forall j, j <> tid -> j <> ph_tree ph -> j < length ts -> nth_error ts1 j = nth_error ts j) /\
              (forall g, h_tid g < length ts -> h_tid g <> ph_tree ph -> above tid p g -> F1 g = g) /\
              (forall c rest, F1 (mk_hnd tid (p ++ c :: rest)) = mk_hnd tid (p ++ (if idx <=? c then c + length (ph_elems ph) else c) :: rest))).
    { unfold phase_ok in Hph. destruct (ph_root ph).
      - destruct Hph as (N & cr & rc & -> & -> & Hcr & HN).
        destruct (attach_child_spec ts rs pr cr tid ri T p kd cs idx (ph_tree ph) rc N Hpr Hcr HT HG HN Hne Hidx) as (ts1 & R1 & L1 & T1 & O1).
        exists ts1, (rebase_attach tid p idx (ph_tree ph)). split; [cbn [m_attach_all]; rbind; [exact R1|rdone]|].
        split; [lia|]. split; [exact T1|]. split; [intros j H1 H2 H3; now apply O1|]. split.
        + intros g Hg Ht Ha. now apply rebase_attach_above.
        + intros c rest. cbn [length]. destruct (idx <=? c) eqn:E.
          * apply Nat.leb_le in E. rewrite rebase_attach_after by (auto; lia). do 3 f_equal. lia.
          * apply Nat.leb_gt in E. now rewrite rebase_attach_before by (auto; lia).
      - destruct Hph as (Hlen & Hregs & rt & HTk).
        exact (attach_tokens (ph_elems ph) (ph_regs ph) ts rs pr tid ri T p kd cs idx (ph_tree ph) rt Hpr HT HG Hidx HTk Hne Hlen Hregs). }
    destruct H1 as (ts1 & F1 & R1 & L1 & T1 & O1 & A1 & B1).
    set (X := ph_elems ph) in *. set (T' := upd_path T p (fun _ => Node kd (insert_at idx X cs))) in *.
    assert (HG' : get_path T' p = Some (Node kd (insert_at idx X cs))) by (unfold T'; now apply get_path_upd_path with (n := Node kd cs)).
    assert (Hpr1 : nth_error (map (option_map F1) rs) pr = Some (Some (mk_hnd tid p))).
    { rewrite (nth_error_map_reg F1 _ _ _ Hpr). f_equal. f_equal. apply A1; [cbn; lia|cbn; congruence|apply above_self]. }
    assert (Hok1 : Forall (phase_ok ts1 (map (option_map F1) rs)) phs).
    { rewrite Forall_forall in *. intros q Hq. specialize (Hrest q Hq). pose proof (phase_ok_lt _ _ _ Hrest) as Hlq.
      assert (Hq1 : ph_tree q <> ph_tree ph) by (intros E; apply Hni; rewrite <- E; now apply in_map).
      assert (Hq2 : ph_tree q <> tid) by (intros E; apply Hnin; right; rewrite <- E; now apply in_map).
      unfold phase_ok in *. destruct (ph_root q).
      - destruct Hrest as (N & cr & rc & E1 & E2 & Hcr & HN). exists N, cr, rc. split; [exact E1|]. split; [exact E2|]. split.
        + rewrite (nth_error_map_reg F1 _ _ _ Hcr). f_equal. f_equal. apply A1; [cbn; lia|cbn; congruence|apply above_other; cbn; congruence].
        + rewrite O1 by (auto; lia). exact HN.
      - destruct Hrest as (Hlen & Hregs & rt & HTk). split; [exact Hlen|]. split.
        + intros m cr Hm. rewrite (nth_error_map_reg F1 _ _ _ (Hregs m cr Hm)). f_equal. f_equal.
          apply A1; [cbn; lia|cbn; congruence|apply above_other; cbn; congruence].
        + exists rt. rewrite O1 by (auto; lia). exact HTk. }
    assert (Hidx' : idx + length X <= length (insert_at idx X cs)) by (rewrite insert_at_length; lia).
    destruct (IH ts1 (map (option_map F1) rs) pr tid ri T' p kd (insert_at idx X cs) (idx + length X) Hpr1 T1 HG' Hidx' Hok1 Hnd'
                ltac:(intros Hin; apply Hnin; now right)) as (ts2 & F2 & R2 & L2 & T2 & O2 & A2 & B2).
    exists ts2, (fun g => F2 (F1 g)). rewrite <- map_option_map_comp.
    split; [|split; [lia|split; [|split; [|split]]]].
    + cbn [flat_map]. eapply m_attach_all_app; [exact R1|].
      assert (length (ph_regs ph) = length X) as ->.
      { unfold phase_ok in Hph. unfold X. destruct (ph_root ph).
        - destruct Hph as (N & cr & rc & -> & -> & _). reflexivity.
        - now destruct Hph as (Hlen & _). }
      exact R2.
    + rewrite T2. unfold T'. rewrite (upd_path_const2 _ _ _ _ _ HG). f_equal. f_equal.
      eapply upd_path_ext; [exact HG|]. cbn [flat_map]. fold X. now rewrite insert_at_app2.
    + intros j H1 H2 H3. cbn [map] in H2. rewrite O2; [apply O1; [exact H1|intros E; apply H2; now left|exact H3]|exact H1|intros Hin; apply H2; now right|lia].
    + intros g Hg Ht Ha. cbn [map] in Ht. rewrite A1; [apply A2; [lia|intros Hin; apply Ht; now right|exact Ha]|exact Hg|intros E; apply Ht; now left|exact Ha].
    + intros c rest. rewrite B1, B2. cbn [flat_map]. fold X. rewrite app_length. do 3 f_equal.
      destruct (idx <=? c) eqn:E.
      * apply Nat.leb_le in E. assert (idx + length X <=? c + length X = true) as -> by (apply Nat.leb_le; lia). lia.
      * apply Nat.leb_gt in E. assert (idx + length X <=? c = false) as -> by (apply Nat.leb_gt; lia). reflexivity.
Qed.

(* what alloc_fresh leaves behind: the phases, in order *)
Lemma token_run_spec l : let '(a, b) := token_run l in
  l = a ++ b /\ Forall (fun x => is_node x = false) a /\ match b with Tok _ _ :: _ => False | _ => True end.
Proof.
  induction l as [|x r IH]; [cbn; auto|]. destruct x as [k s|k cs]; cbn [token_run].
  - destruct (token_run r) as [a b]. destruct IH as (-> & Ha & Hb). repeat split; auto.
  - repeat split; auto.
Qed.
Lemma phase_ok_mono ts rs ts2 rs2 ph : phase_ok ts rs ph -> phase_ok (ts ++ ts2) (rs ++ rs2) ph.
Proof.
  unfold phase_ok. destruct (ph_root ph).
  - intros (N & cr & rc & E1 & E2 & H1 & H2). exists N, cr, rc. repeat split; auto using nth_error_app_l.
  - intros (Hl & Hr & rt & Ht). split; [exact Hl|]. split; [intros m cr Hm; apply nth_error_app_l; now apply Hr|].
    exists rt. now apply nth_error_app_l.
Qed.

Lemma alloc_fresh_spec : forall fuel new ts rs, length new <= fuel ->
  exists phs ts2 rs2,
    runs (alloc_fresh fuel new) (mk_state ts rs) (flat_map ph_regs phs) (mk_state (ts ++ ts2) (rs ++ rs2)) /\
    flat_map ph_elems phs = new /\
    Forall (phase_ok (ts ++ ts2) (rs ++ rs2)) phs /\
    NoDup (map ph_tree phs) /\ Forall (fun ph => length ts <= ph_tree ph) phs.
Proof.
  induction fuel as [|fuel IH]; intros new ts rs Hf.
  - destruct new; [|cbn in Hf; lia]. exists [], [], []. rewrite !app_nil_r. split; [cbn; rdone|]. repeat split; constructor.
  - destruct new as [|x rest].
    + exists [], [], []. rewrite !app_nil_r. split; [cbn; rdone|]. repeat split; constructor.
    + destruct x as [k s|k cs].
      * (* a run of tokens *)
        pose proof (token_run_spec (Tok k s :: rest)) as Hsp. cbn [alloc_fresh].
        destruct (token_run (Tok k s :: rest)) as [toks rest'] eqn:Etr. destruct Hsp as (Enew & Htoks & Hrest').
        assert (Hne : toks <> []).
        { cbn [token_run] in Etr. destruct (token_run rest). injection Etr as <- <-. discriminate. }
        set (tk := length ts). set (ts1 := ts ++ [mk_slot true 0 (Node ROOT toks)]).
        set (hs := map (child_h (mk_hnd tk [])) (seq 0 (length toks))). set (rs1 := rs ++ map Some hs).
        assert (Lr : length rest' <= fuel).
        { assert (length (Tok k s :: rest) = length toks + length rest') by (rewrite Enew at 1; apply app_length).
          destruct toks; [congruence|]. cbn [length] in *. lia. }
        destruct (IH rest' ts1 rs1 Lr) as (phs & ts2 & rs2 & R & Eel & Hok & Hnd & Hge).
        exists (mk_phase tk false toks (seq (length rs) (length toks)) :: phs), ([mk_slot true 0 (Node ROOT toks)] ++ ts2), (map Some hs ++ rs2).
        rewrite !app_assoc. fold ts1 rs1. split; [|split; [|split; [|split]]].
        -- rbind; [apply runs_alloc|]. fold ts1 tk. rbind; [apply runs_push_tmps|]. fold hs rs1.
           unfold hs at 1. rewrite map_length, seq_length. rbind; [exact R|]. cbn [flat_map ph_regs]. rdone.
        -- cbn [flat_map ph_elems]. now rewrite Eel.
        -- constructor; [|exact Hok]. apply phase_ok_mono. unfold phase_ok. cbn [ph_root ph_regs ph_elems ph_tree].
           split; [now rewrite seq_length|]. split.
           ++ intros m cr Hm. assert (Hml : m < length toks) by (apply nth_error_Some_lt in Hm; now rewrite seq_length in Hm).
              rewrite <- (map_id (seq (length rs) (length toks))) in Hm. rewrite nth_error_map_seq in Hm by exact Hml. injection Hm as <-. unfold rs1.
              rewrite nth_error_app2 by lia. replace (length rs + m - length rs) with m by lia. rewrite nth_error_map.
              unfold hs. rewrite nth_error_map_seq by exact Hml. reflexivity.
           ++ exists 0. unfold ts1, tk. apply nth_error_app_at.
        -- cbn [map ph_tree]. constructor; [|exact Hnd]. intros Hin. apply in_map_iff in Hin as (q & Eq & Hq).
           rewrite Forall_forall in Hge. specialize (Hge q Hq). unfold ts1 in Hge. rewrite app_length in Hge. cbn in Hge. unfold tk in Eq. lia.
        -- constructor; [cbn; unfold tk; lia|]. eapply Forall_impl; [|exact Hge]. intros q Hq. unfold ts1 in Hq. rewrite app_length in Hq. cbn in Hq. lia.
      * (* a node *)
        cbn [alloc_fresh]. set (tk := length ts). set (ts1 := ts ++ [mk_slot true 0 (Node k cs)]). set (rs1 := rs ++ [Some (mk_hnd tk [])]).
        destruct (IH rest ts1 rs1 ltac:(cbn in Hf; lia)) as (phs & ts2 & rs2 & R & Eel & Hok & Hnd & Hge).
        exists (mk_phase tk true [Node k cs] [length rs] :: phs), ([mk_slot true 0 (Node k cs)] ++ ts2), ([Some (mk_hnd tk [])] ++ rs2).
        rewrite !app_assoc. fold ts1 rs1. split; [|split; [|split; [|split]]].
        -- rbind; [apply runs_alloc|]. fold ts1 tk. rbind; [apply runs_push_tmp|]. fold rs1. rbind; [exact R|]. cbn [flat_map ph_regs app]. rdone.
        -- cbn [flat_map ph_elems app]. now rewrite Eel.
        -- constructor; [|exact Hok]. apply phase_ok_mono. unfold phase_ok. cbn [ph_root ph_regs ph_elems ph_tree].
           exists (Node k cs), (length rs), 0. repeat split; [unfold rs1; apply nth_error_app_at|unfold ts1, tk; apply nth_error_app_at].
        -- cbn [map ph_tree]. constructor; [|exact Hnd]. intros Hin. apply in_map_iff in Hin as (q & Eq & Hq).
           rewrite Forall_forall in Hge. specialize (Hge q Hq). unfold ts1 in Hge. rewrite app_length in Hge. cbn in Hge. unfold tk in Eq. lia.
        -- constructor; [cbn; unfold tk; lia|]. eapply Forall_impl; [|exact Hge]. intros q Hq. unfold ts1 in Hq. rewrite app_length in Hq. cbn in Hq. lia.
Qed.

(* splice_children(idx..idx, new) with freshly built elements, on ANY node of ANY tree: the node's
   children get [new] at idx; nothing else in the store changes; handles at or above the node stay,
   handles to its children (and below) move with their child *)
Theorem m_insert_fresh_spec new ts rs r tid ri T p kd cs idx :
  nth_error rs r = Some (Some (mk_hnd tid p)) -> nth_error ts tid = Some (mk_slot true ri T) ->
  get_path T p = Some (Node kd cs) -> idx <= length cs ->
  exists ts' F,
    runs (m_insert_fresh r idx new) (mk_state ts rs) tt (mk_state ts' (map (option_map F) rs)) /\
    length ts <= length ts' /\
    nth_error ts' tid = Some (mk_slot true ri (upd_path T p (fun _ => Node kd (insert_at idx new cs)))) /\
    (forall j, j <> tid -> j < length ts -> nth_error ts' j = nth_error ts j) /\
    (forall g, h_tid g < length ts -> above tid p g -> F g = g) /\
    (forall c rest, F (mk_hnd tid (p ++ c :: rest)) = mk_hnd tid (p ++ (if idx <=? c then c + length new else c) :: rest)).
Proof.
  intros Hr HT HG Hidx. pose proof (nth_error_Some_lt _ _ _ HT) as Hlt.
  destruct (alloc_fresh_spec (length new) new ts rs (le_n _)) as (phs & ts2 & rs2 & Ra & Eel & Hok & Hnd & Hge).
  assert (Hnin : ~ In tid (map ph_tree phs)).
  { intros Hin. apply in_map_iff in Hin as (q & Eq & Hq). rewrite Forall_forall in Hge. specialize (Hge q Hq). lia. }
  destruct (attach_phases phs (ts ++ ts2) (rs ++ rs2) r tid ri T p kd cs idx (nth_error_app_l _ _ _ _ Hr) (nth_error_app_l _ _ _ _ HT) HG Hidx Hok Hnd Hnin)
    as (ts' & F & R & L & T' & O & A & B).
  exists ts', F. rewrite Eel in *. split; [|split; [|split; [|split; [|split]]]].
  - unfold m_insert_fresh. eapply runs_eq; [apply runs_scoped|reflexivity|].
    + rbind; [exact Ra|]. unfold m_splice. rbind; [apply runs_get_reg; apply nth_error_app_l; exact Hr|]. cbn [h_tid].
      rbind; [eapply runs_get_slot; apply nth_error_app_l; exact HT|]. cbn [s_mut negb].
      rbind; [eapply runs_children_of; [apply nth_error_app_l; exact HT|exact HG]|].
      rewrite Nat.ltb_irrefl. cbn [andb]. rbind; [rdone|]. exact R.
    + f_equal. rewrite map_app. rewrite <- (map_length (option_map F) rs). apply firstn_app_len.
  - rewrite app_length in L. lia.
  - exact T'.
  - intros j H1 H2. rewrite O; [now rewrite nth_error_app1 by lia|exact H1| |rewrite app_length; lia].
    intros Hin. apply in_map_iff in Hin as (q & Eq & Hq). rewrite Forall_forall in Hge. specialize (Hge q Hq). lia.
  - intros g Hg Ha. apply A; [rewrite app_length; lia| |exact Ha].
    intros Hin. apply in_map_iff in Hin as (q & Eq & Hq). rewrite Forall_forall in Hge. specialize (Hge q Hq). lia.
  - exact B.
Qed.

(* ------------------------------------------------------------------ building operands with the constructors *)
Lemma set_reg_l_app_len (rs : list (option hnd)) x o : set_reg_l (length rs) o (rs ++ [x]) = rs ++ [o].
Proof. induction rs as [|y r IH]; cbn; [reflexivity|]. now rewrite IH. Qed.

Lemma crel_tree_new r : new_only r = true -> relation_new (rr_name r) (rr_ver r) = crel_tree r.
Proof.
  unfold new_only. destruct r as [n [q|] v ar pr]; cbn [rr_qual rr_name rr_ver]; intros H.
  - now rewrite andb_false_r in H.
  - reflexivity.
Qed.
Lemma rel_spec_new r : new_only r = true -> rel_spec r = RSNew (rr_name r) (rr_ver r).
Proof.
  unfold new_only, plain. destruct r as [n [q|] v ar pr]; cbn [rr_qual rr_name rr_ver rr_archs rr_profs]; intros H; [now rewrite andb_false_r in H|].
  destruct ar; [discriminate|]. destruct pr; [reflexivity|discriminate].
Qed.

Lemma build_relation_greens_new e : forallb new_only e = true -> forall ts rs,
  exists junk, runs (build_relation_greens fixed (map rel_spec e)) (mk_state ts rs)
                    (map crel_tree e) (mk_state (ts ++ junk) rs).
Proof.
  induction e as [|r e IH]; intros H ts rs.
  - exists []. rewrite app_nil_r. apply runs_ret.
  - cbn [forallb] in H. apply andb_prop in H. destruct H as [Hr He].
    destruct (IH He (ts ++ [mk_slot true 0 (crel_tree r)]) rs) as (junk & R).
    exists (mk_slot true 0 (crel_tree r) :: junk).
    cbn [map build_relation_greens]. rewrite (rel_spec_new _ Hr).
    rbind.
    { eapply runs_eq; [apply runs_scoped|reflexivity|].
      - rbind; [apply runs_push_tmp|]. cbn [build_relation].
        rbind; [rbind; [apply runs_alloc|]; apply runs_set_reg|].
        rewrite set_reg_l_app_len. rewrite (crel_tree_new _ Hr).
        unfold node_of_reg. rbind; [apply runs_get_reg; apply nth_error_app_at|].
        eapply runs_node_of; [apply nth_error_app_at|reflexivity].
      - now rewrite firstn_app_len. }
    rbind; [exact R|]. rewrite <- app_assoc. rdone.
Qed.

(* ------------------------------------------------------------------ states of the register machine *)
(* the root register holds the root of tree T (mutable); four more registers *)
Definition holds (st : state) (T : rtree) : Prop :=
  exists ts tid ri a b c d,
    st = st5 ts (mk_hnd tid []) a b c d /\ nth_error ts tid = Some (mk_slot true ri T).

Lemma holds_state_with_root st T : holds st T <-> state_with_root st T.
Proof.
  split.
  - intros (ts & tid & ri & a & b & c & d & -> & H). exists tid, ri, a, b, c, d. now split.
  - intros (tid & ri & a & b & c & d & E & H). destruct st as [ts rs]. cbn in *. subst rs.
    now exists ts, tid, ri, a, b, c, d.
Qed.
Lemma holds_start T : holds (start_state T) T.
Proof. now exists [mk_slot true 0 T], 0, 0, None, None, None, None. Qed.

Lemma runs_try_build dst (m : M unit) st st' t st'' :
  runs m st tt st' -> runs (reg_text dst) st' t st'' -> runs (try_build dst m) st (4%N, t) st''.
Proof.
  unfold runs, try_build. intros -> H. unfold mbind. now rewrite H.
Qed.

(* ONewEntry 1 (entry built by the constructors): register 3 then holds a new tree *)
Lemma new_entry_runs e ts tid ri T a b c d : forallb new_only e = true ->
  nth_error ts tid = Some (mk_slot true ri T) ->
  exists ts' te txt,
    runs (run_op fixed (ONewEntry 1 (entry_spec e))) (st5 ts (mk_hnd tid []) a b c d) (4%N, txt)
         (st5 ts' (mk_hnd tid []) a b (Some (mk_hnd te [])) d) /\
    nth_error ts' tid = Some (mk_slot true ri T) /\
    nth_error ts' te = Some (mk_slot true 0 (centry_tree e)) /\ te <> tid.
Proof.
  intros He HT. unfold st5.
  destruct (build_relation_greens_new e He ts [Some (mk_hnd tid []); a; b; c; d]) as (junk & R).
  exists ((ts ++ junk) ++ [mk_slot true 0 (centry_tree e)]), (length (ts ++ junk)), (Some (text (centry_tree e))).
  pose proof (nth_error_Some_lt _ _ _ HT) as Hlt.
  repeat split.
  - cbn [run_op]. eapply runs_try_build.
    + unfold build_entry, entry_spec. rbind; [exact R|].
      rbind; [apply runs_alloc|]. apply runs_set_reg.
    + cbn [ereg Nat.mul Nat.add set_reg_l]. unfold reg_text, node_of_reg.
      rbind; [rbind; [apply runs_get_reg; reflexivity|]; eapply runs_node_of; [apply nth_error_app_at|reflexivity]|].
      rdone.
  - apply nth_error_app_l. now apply nth_error_app_l.
  - apply nth_error_app_at.
  - rewrite app_length. lia.
Qed.

Lemma runs_with_reg_some r (m : M (N * option str)) ts rs h x st' :
  nth_error rs r = Some (Some h) -> runs m (mk_state ts rs) x st' ->
  runs (with_reg r m) (mk_state ts rs) x st'.
Proof.
  intros H R. unfold with_reg. rbind; [apply runs_has_reg|]. now rewrite H.
Qed.

(* OInsert i 1 / OPush 1 (in place, proposed_fixes/C11-10): the operand may be a node of any tree
   (a copy of it is spliced in); the root register keeps its handle *)
Lemma relations_insert_runs ts tid ri kd cs a b d te pe sl G idx :
  nth_error ts tid = Some (mk_slot true ri (Node kd cs)) ->
  nth_error ts te = Some sl -> get_path (s_tree sl) pe = Some G ->
  exists ts' a' b' d',
    runs (relations_insert fixed 0 idx 3) (st5 ts (mk_hnd tid []) a b (Some (mk_hnd te pe)) d) tt
         (st5 ts' (mk_hnd tid []) a' b' None d') /\
    nth_error ts' tid = Some (mk_slot true ri (relations_insert_green fixed (Node kd cs) idx G)).
Proof.
  intros HT HE HG. set (T := Node kd cs) in *. pose proof (nth_error_Some_lt _ _ _ HT) as Hlt.
  unfold relations_insert_green. cbn [children T]. pose proof (insert_plan_frame fixed cs idx G) as Hpl.
  destruct (insert_plan fixed cs idx G) as [pos new] eqn:Epl. destruct Hpl as [Hpos _].
  set (rs := [Some (mk_hnd tid []); a; b; Some (mk_hnd te pe); d]).
  destruct (m_insert_fresh_spec new ts rs 0 tid ri T [] kd cs pos eq_refl HT eq_refl Hpos) as (ts' & F & R & L & T' & O & A & B).
  exists ts', (option_map F a), (option_map F b), (option_map F d). split.
  - unfold relations_insert, st5. fold rs.
    rbind; [apply runs_get_reg; reflexivity|].
    rbind; [eapply runs_node_of; [exact HT|reflexivity]|].
    rbind; [unfold node_of_reg; rbind; [apply runs_get_reg; reflexivity|]; eapply runs_node_of; [exact HE|exact HG]|].
    cbn [fx_in_place fixed s_tree children T]. rewrite Epl.
    rbind; [exact R|]. unfold rs. cbn [map option_map].
    rewrite (A (mk_hnd tid [])) by (auto using above_root).
    eapply runs_eq; [apply runs_set_reg|reflexivity|]. reflexivity.
  - exact T'.
Qed.
Lemma insert_runs idx ts tid ri kd cs a b d te pe sl G :
  nth_error ts tid = Some (mk_slot true ri (Node kd cs)) -> nth_error ts te = Some sl -> get_path (s_tree sl) pe = Some G ->
  exists ts' a' b' d',
    runs (run_op fixed (OInsert idx 1)) (st5 ts (mk_hnd tid []) a b (Some (mk_hnd te pe)) d) (0%N, None)
         (st5 ts' (mk_hnd tid []) a' b' None d') /\
    nth_error ts' tid = Some (mk_slot true ri (relations_insert_green fixed (Node kd cs) idx G)).
Proof.
  intros HT HE HG. destruct (relations_insert_runs ts tid ri kd cs a b d te pe sl G idx HT HE HG) as (ts' & a' & b' & d' & R & T').
  exists ts', a', b', d'. split; [|exact T'].
  cbn [run_op]. unfold st5. eapply runs_with_reg_some; [reflexivity|]. rbind; [exact R|]. rdone.
Qed.
Lemma push_runs ts tid ri kd cs a b d te pe sl G :
  nth_error ts tid = Some (mk_slot true ri (Node kd cs)) -> nth_error ts te = Some sl -> get_path (s_tree sl) pe = Some G ->
  exists ts' a' b' d',
    runs (run_op fixed (OPush 1)) (st5 ts (mk_hnd tid []) a b (Some (mk_hnd te pe)) d) (0%N, None)
         (st5 ts' (mk_hnd tid []) a' b' None d') /\
    nth_error ts' tid = Some (mk_slot true ri (relations_insert_green fixed (Node kd cs) (count_if is_entry cs) G)).
Proof.
  intros HT HE HG. destruct (relations_insert_runs ts tid ri kd cs a b d te pe sl G (count_if is_entry cs) HT HE HG) as (ts' & a' & b' & d' & R & T').
  exists ts', a', b', d'. split; [|exact T'].
  cbn [run_op]. unfold st5. eapply runs_with_reg_some; [reflexivity|].
  rbind; [|rdone]. unfold relations_push.
  rbind; [apply runs_get_reg; reflexivity|].
  rbind; [eapply runs_children_of; [exact HT|reflexivity]|]. exact R.
Qed.

(* ------------------------------------------------------------------ Relations::replace *)
(* the field's children around its i-th entry *)
Lemma cfield_children_split fa e0 fb :
  children (cfield_tree (fa ++ e0 :: fb)) =
  preE (map centry_tree fa) ++ centry_tree e0 :: sepE (map centry_tree fb) /\
  length (preE (map centry_tree fa)) = 3 * length fa.
Proof.
  unfold cfield_tree, relations_from_entries. cbn [children]. rewrite map_app. cbn [map].
  rewrite join_entries_split. split; [reflexivity|]. now rewrite preE_length, map_length.
Qed.

Lemma replace_runs fa e0 fb e ts tid ri a b d te re :
  nth_error ts tid = Some (mk_slot true ri (cfield_tree (fa ++ e0 :: fb))) ->
  nth_error ts te = Some (mk_slot true re (centry_tree e)) -> tid <> te ->
  exists ts' tid' ri' a' b' d',
    runs (run_op fixed (OReplace (length fa) 1)) (st5 ts (mk_hnd tid []) a b (Some (mk_hnd te [])) d) (0%N, None)
         (st5 ts' (mk_hnd tid' []) a' b' None d') /\
    nth_error ts' tid' = Some (mk_slot true ri' (cfield_tree (l_replace (length fa) e (fa ++ e0 :: fb)))).
Proof.
  intros HT HE Hne. destruct (cfield_children_split fa e0 fb) as [Ecs Lpre].
  set (T := cfield_tree (fa ++ e0 :: fb)) in *.
  assert (HG : get_path T [] = Some (Node ROOT (preE (map centry_tree fa) ++ centry_tree e0 :: sepE (map centry_tree fb)))).
  { cbn [get_path]. f_equal. unfold T at 1. unfold cfield_tree, relations_from_entries. f_equal.
    exact Ecs. }
  destruct (splice_replace_spec ts [Some (mk_hnd tid []); a; b; Some (mk_hnd te []); d] 0 3 tid ri T []
              ROOT _ _ _ te re (centry_tree e) eq_refl eq_refl HT HG HE Hne)
    as (ts' & F & R & L & T' & N & O & S1 & S2 & A).
  exists ts', tid, ri, (option_map F a), (option_map F b), (option_map F d).
  split.
  - cbn [run_op]. unfold st5. eapply runs_with_reg_some; [reflexivity|].
    rbind; [|rdone]. unfold relations_replace.
    rbind; [apply runs_get_reg; reflexivity|].
    rbind; [eapply runs_children_of; [exact HT|reflexivity]|].
    cbn [s_tree].
    assert (nth_index is_entry (length fa) (children T) = Some (3 * length fa)) as Hn.
    { unfold T, cfield_tree, relations_from_entries. cbn [children].
      rewrite nth_index_join_entries by apply Forall_entryish_map. rewrite map_length, app_length. cbn [length].
      assert (length fa <? length fa + S (length fb) = true) as -> by (apply Nat.ltb_lt; lia). reflexivity. }
    rewrite Hn. rewrite <- Lpre. cbn [ereg Nat.mul Nat.add].
    rbind; [exact R|]. cbn [map option_map].
    rewrite (A (mk_hnd tid [])) by (cbn [h_tid]; auto using above_root).
    eapply runs_eq; [apply runs_set_reg|reflexivity|]. reflexivity.
  - rewrite T'. f_equal. f_equal. cbn [upd_path].
    rewrite replace_join_entries with (x := centry_tree e0). rewrite map_length.
    unfold cfield_tree, relations_from_entries. f_equal. f_equal.
    rewrite map_l_replace, map_app. reflexivity.
Qed.

(* ------------------------------------------------------------------ Entry::remove *)
Lemma entry_remove_spec_x ts rs r tid ri T p kd pre x post cs' :
  nth_error rs r = Some (Some (mk_hnd tid (p ++ [length pre]))) ->
  nth_error ts tid = Some (mk_slot true ri T) ->
  get_path T p = Some (Node kd (pre ++ x :: post)) ->
  entry_remove_cs fixed (pre ++ x :: post) (length pre) = Ok cs' ->
  exists ts' F,
    runs (entry_remove fixed r) (mk_state ts rs) tt (mk_state ts' (map (option_map F) rs)) /\
    length ts <= length ts' /\
    nth_error ts' tid = Some (mk_slot true ri (upd_path T p (fun _ => Node kd cs'))) /\
    (forall j, j <> tid -> j < length ts -> nth_error ts' j = nth_error ts j) /\
    (exists tn rn, F (mk_hnd tid (p ++ [length pre])) = mk_hnd tn [] /\
                   nth_error ts' tn = Some (mk_slot true rn x)) /\
    (forall g, above tid p g -> F g = g) /\
    cut_map F tid p (fst (entry_remove_range fixed (pre ++ x :: post) (length pre)))
                    (snd (entry_remove_range fixed (pre ++ x :: post) (length pre))) /\
    fst (entry_remove_range fixed (pre ++ x :: post) (length pre)) <= length pre /\
    length pre < snd (entry_remove_range fixed (pre ++ x :: post) (length pre)).
Proof.
  intros Hr HT HG Hcs. unfold entry_remove_cs in Hcs.
  rewrite firstn_app_len, skipn_S_app_len in Hcs.
  destruct (entry_remove_scan_next post) as [[k1 rc]| | |] eqn:Esc; try discriminate.
  pose proof (entry_remove_scan_next_le _ _ _ Esc) as Hk1.
  (* first loop *)
  destruct (detach_next_repeat_x k1 ts rs r tid ri T p kd pre x post Hr HT HG Hk1)
    as (ts1 & F1 & R1 & L1 & T1 & O1 & S1 & A1 & C1).
  set (T1' := upd_path T p (fun _ => Node kd (pre ++ x :: skipn k1 post))) in *.
  assert (HG1 : get_path T1' p = Some (Node kd (pre ++ x :: skipn k1 post)))
    by (now apply get_path_upd_path with (n := Node kd (pre ++ x :: post))).
  assert (Hr1 : nth_error (map (option_map F1) rs) r = Some (Some (mk_hnd tid (p ++ [length pre]))))
    by (rewrite (nth_error_map_reg F1 _ _ _ Hr); now rewrite S1).
  assert (Hhead : forall (m : M unit) st',
            runs (m_repeat k1 (m_detach_next r) ;;
                  (if negb (existsb (fun c => is_entry c || (fx_first_substvar fixed && node_is SUBSTVAR c)) pre)
                   then m_repeat (ws_prefix_len (skipn k1 post)) (m_detach_next r)
                   else m_repeat (entry_remove_scan_prev rc pre) (m_detach_prev r)) ;; m_detach r)
                 (mk_state ts rs) tt st' ->
            runs (entry_remove fixed r) (mk_state ts rs) tt st').
  { intros _ st' H. unfold entry_remove. rbind; [apply runs_get_reg; exact Hr|]. rewrite parent_h_app.
    rbind; [eapply runs_children_of; [exact HT|exact HG]|]. cbn [children].
    rewrite firstn_app_len, skipn_S_app_len. rewrite Esc. exact H. }
  destruct (negb (existsb (fun c => is_entry c || (fx_first_substvar fixed && node_is SUBSTVAR c)) pre)) eqn:Efirst.
  - (* the first item: the white space that follows goes as well *)
    inversion Hcs; subst cs'; clear Hcs.
    set (k3 := ws_prefix_len (skipn k1 post)) in *.
    assert (Hk3 : k3 <= length (skipn k1 post)) by apply ws_prefix_len_le.
    destruct (detach_next_repeat_x k3 ts1 _ r tid ri T1' p kd pre x (skipn k1 post) Hr1 T1 HG1 Hk3)
      as (ts2 & F2 & R2 & L2 & T2 & O2 & S2 & A2 & C2).
    set (T2' := upd_path T1' p (fun _ => Node kd (pre ++ x :: skipn k3 (skipn k1 post)))) in *.
    assert (HG2 : get_path T2' p = Some (Node kd (pre ++ x :: skipn k3 (skipn k1 post))))
      by (now apply get_path_upd_path with (n := Node kd (pre ++ x :: skipn k1 post))).
    assert (Hr2 : nth_error (map (option_map F2) (map (option_map F1) rs)) r = Some (Some (mk_hnd tid (p ++ [length pre]))))
      by (rewrite (nth_error_map_reg F2 _ _ _ Hr1); now rewrite S2).
    destruct (detach_reg_spec_x ts2 _ r tid ri T2' p kd pre x _ Hr2 T2 HG2)
      as (ts3 & F3 & R3 & L3 & T3 & N3 & O3 & S3 & A3 & C3).
    exists ts3, (fun g => F3 (F2 (F1 g))).
    replace (map (option_map (fun g => F3 (F2 (F1 g)))) rs)
      with (map (option_map F3) (map (option_map F2) (map (option_map F1) rs)))
      by (now rewrite !map_option_map_comp).
    assert (Erange := eq_refl (entry_remove_range fixed (pre ++ x :: post) (length pre))).
    unfold entry_remove_range at 2 in Erange. rewrite firstn_app_len, skipn_S_app_len, Esc, Efirst in Erange.
    rewrite Erange. cbn [fst snd].
    split; [|split; [|split; [|split; [|split; [|split; [|split; [|split]]]]]]].
    + apply (Hhead (ret tt)). rbind; [exact R1|]. rbind; [exact R2|]. exact R3.
    + lia.
    + rewrite T3. f_equal. f_equal. unfold T2', T1'. rewrite (upd_path_const2 _ _ _ _ _ HG).
      now rewrite (upd_path_const2 _ _ _ _ _ HG).
    + intros j Hj Hl. rewrite O3 by lia. rewrite O2 by lia. now apply O1.
    + exists (length ts2), (length pre). split; [now rewrite S1, S2, S3|exact N3].
    + intros g Hg. rewrite A1, A2, A3; auto.
    + eapply cut_map_bounds; [reflexivity| |apply (cut_map_comp (fun g => F2 (F1 g)) F3 tid p (S (length pre)) (S (length pre) + k3 + k1) (length pre) (S (length pre)))]; try lia.
      eapply cut_map_bounds; [reflexivity| |apply (cut_map_comp F1 F2 tid p _ _ _ _ C1 C2)]; try lia. exact C3.
    + lia.
    + lia.
  - (* not the first: white space in front, and the comma if none was removed after *)
    inversion Hcs; subst cs'; clear Hcs.
    set (k2 := entry_remove_scan_prev rc pre) in *.
    assert (Hk2 : k2 <= length pre) by apply entry_remove_scan_prev_le.
    set (pre0 := firstn (length pre - k2) pre) in *. set (gone := skipn (length pre - k2) pre).
    assert (Epre : pre = pre0 ++ gone) by (symmetry; apply firstn_skipn).
    assert (Lgone : length gone = k2) by (unfold gone; rewrite skipn_length; lia).
    assert (Lpre0 : length pre = length pre0 + length gone) by (rewrite Epre at 1; apply app_length).
    assert (Hr1' : nth_error (map (option_map F1) rs) r = Some (Some (mk_hnd tid (p ++ [length pre0 + length gone]))))
      by (now rewrite <- Lpre0).
    assert (HG1' : get_path T1' p = Some (Node kd (pre0 ++ gone ++ x :: skipn k1 post)))
      by (rewrite app_assoc, <- Epre; exact HG1).
    destruct (detach_prev_repeat_x gone ts1 _ r tid ri T1' p kd pre0 x (skipn k1 post) Hr1' T1 HG1')
      as (ts2 & F2 & R2 & L2 & T2 & O2 & S2 & A2 & C2).
    set (T2' := upd_path T1' p (fun _ => Node kd (pre0 ++ x :: skipn k1 post))) in *.
    assert (HG2 : get_path T2' p = Some (Node kd (pre0 ++ x :: skipn k1 post)))
      by (now apply get_path_upd_path with (n := Node kd (pre ++ x :: skipn k1 post))).
    assert (Hr2 : nth_error (map (option_map F2) (map (option_map F1) rs)) r = Some (Some (mk_hnd tid (p ++ [length pre0]))))
      by (rewrite (nth_error_map_reg F2 _ _ _ Hr1'); now rewrite S2).
    destruct (detach_reg_spec_x ts2 _ r tid ri T2' p kd pre0 x _ Hr2 T2 HG2)
      as (ts3 & F3 & R3 & L3 & T3 & N3 & O3 & S3 & A3 & C3).
    exists ts3, (fun g => F3 (F2 (F1 g))).
    replace (map (option_map (fun g => F3 (F2 (F1 g)))) rs)
      with (map (option_map F3) (map (option_map F2) (map (option_map F1) rs)))
      by (now rewrite !map_option_map_comp).
    assert (Erange := eq_refl (entry_remove_range fixed (pre ++ x :: post) (length pre))).
    unfold entry_remove_range at 2 in Erange. rewrite firstn_app_len, skipn_S_app_len, Esc, Efirst in Erange.
    rewrite Erange. cbn [fst snd].
    split; [|split; [|split; [|split; [|split; [|split; [|split; [|split]]]]]]].
    + apply (Hhead (ret tt)). rbind; [exact R1|]. fold k2. rewrite <- Lgone.
      rbind; [exact R2|]. exact R3.
    + lia.
    + rewrite T3. f_equal. f_equal. unfold T2', T1'. rewrite (upd_path_const2 _ _ _ _ _ HG).
      rewrite (upd_path_const2 _ _ _ _ _ HG). reflexivity.
    + intros j Hj Hl. rewrite O3 by lia. rewrite O2 by lia. now apply O1.
    + exists (length ts2), (length pre0). split; [|exact N3].
      rewrite S1. rewrite Lpre0. now rewrite S2, S3.
    + intros g Hg. rewrite A1, A2, A3; auto.
    + fold k2. eapply cut_map_bounds; [| |apply (cut_map_comp F1 (fun g => F3 (F2 g)) tid p (S (length pre)) (S (length pre) + k1) (length pre0) (S (length pre0) + length gone) C1)]; try lia.
      eapply cut_map_bounds; [reflexivity| |apply (cut_map_comp F2 F3 tid p _ _ _ _ C2 C3)]; try lia.
    + fold k2. lia.
    + lia.
Qed.

Lemma entry_remove_spec ts rs r tid ri T p kd pre x post cs' :
  nth_error rs r = Some (Some (mk_hnd tid (p ++ [length pre]))) ->
  nth_error ts tid = Some (mk_slot true ri T) ->
  get_path T p = Some (Node kd (pre ++ x :: post)) ->
  entry_remove_cs fixed (pre ++ x :: post) (length pre) = Ok cs' ->
  exists ts' F,
    runs (entry_remove fixed r) (mk_state ts rs) tt (mk_state ts' (map (option_map F) rs)) /\
    length ts <= length ts' /\
    nth_error ts' tid = Some (mk_slot true ri (upd_path T p (fun _ => Node kd cs'))) /\
    (forall j, j <> tid -> j < length ts -> nth_error ts' j = nth_error ts j) /\
    (exists tn rn, F (mk_hnd tid (p ++ [length pre])) = mk_hnd tn [] /\
                   nth_error ts' tn = Some (mk_slot true rn x)) /\
    (forall g, above tid p g -> F g = g).
Proof.
  intros Hr HT HG Hcs.
  destruct (entry_remove_spec_x ts rs r tid ri T p kd pre x post cs' Hr HT HG Hcs) as (ts' & F & R & L & T' & O & S & A & _).
  exists ts', F. auto 10.
Qed.

(* ------------------------------------------------------------------ Relations::remove_entry *)
Lemma nth_index_entry_cfield fa e0 fb :
  nth_index is_entry (length fa) (children (cfield_tree (fa ++ e0 :: fb))) = Some (3 * length fa).
Proof.
  unfold cfield_tree, relations_from_entries. cbn [children].
  rewrite nth_index_join_entries by apply Forall_entryish_map. rewrite map_length, app_length. cbn [length].
  assert (length fa <? length fa + S (length fb) = true) as -> by (apply Nat.ltb_lt; lia). reflexivity.
Qed.

Lemma remove_entry_runs fa e0 fb ts tid ri a b c d :
  nth_error ts tid = Some (mk_slot true ri (cfield_tree (fa ++ e0 :: fb))) ->
  exists ts' a' b' c' d' txt,
    runs (run_op fixed (ORemoveEntry (length fa))) (st5 ts (mk_hnd tid []) a b c d) (0%N, Some txt)
         (st5 ts' (mk_hnd tid []) a' b' c' d') /\
    nth_error ts' tid = Some (mk_slot true ri (cfield_tree (l_remove (length fa) (fa ++ e0 :: fb)))).
Proof.
  intros HT. destruct (cfield_children_split fa e0 fb) as [Ecs Lpre].
  set (T := cfield_tree (fa ++ e0 :: fb)) in *.
  set (pre := preE (map centry_tree fa)) in *. set (post := sepE (map centry_tree fb)) in *.
  assert (HG : get_path T [] = Some (Node ROOT (pre ++ centry_tree e0 :: post))).
  { cbn [get_path]. f_equal. unfold T at 1. unfold cfield_tree, relations_from_entries. f_equal. exact Ecs. }
  assert (Hcs : entry_remove_cs fixed (pre ++ centry_tree e0 :: post) (length pre)
                = Ok (join_entries 0 (l_remove (length fa) (map centry_tree (fa ++ e0 :: fb))))).
  { rewrite <- Ecs, Lpre. unfold T, cfield_tree, relations_from_entries. cbn [children].
    apply entry_remove_cs_canon; [apply Forall_entryish_map|]. rewrite map_length, app_length. cbn [length]. lia. }
  set (rs6 := [Some (mk_hnd tid []); a; b; c; d; Some (mk_hnd tid ([] ++ [length pre]))]).
  destruct (entry_remove_spec ts rs6 5 tid ri T [] ROOT pre (centry_tree e0) post _ eq_refl HT HG Hcs)
    as (ts' & F & R & L & T' & O & (tn & rn & S1 & N1) & A).
  exists ts', (option_map F a), (option_map F b), (option_map F c), (option_map F d), (text (centry_tree e0)).
  split.
  - cbn [run_op]. unfold st5. rbind; [|rdone]. unfold relations_remove_entry.
    eapply runs_eq; [apply runs_scoped|reflexivity|].
    + rbind.
      { unfold nth_child_handle. rbind; [apply runs_get_reg; reflexivity|].
        rbind; [eapply runs_children_of; [exact HT|reflexivity]|]. rdone. }
      cbn [s_tree]. fold T. unfold T at 1. rewrite nth_index_entry_cfield. cbn [option_map].
      unfold child_h. cbn [h_tid h_path]. rewrite <- Lpre.
      rbind; [apply runs_push_tmp|]. cbn [length app].
      rbind; [exact R|].
      unfold node_of_reg. rbind.
      { rbind; [apply runs_get_reg; unfold rs6; cbn [map nth_error option_map]; rewrite S1; reflexivity|].
        eapply runs_node_of; [exact N1|reflexivity]. }
      rdone.
    + unfold rs6. cbn [map option_map length firstn].
      rewrite (A (mk_hnd tid [])) by apply above_root. reflexivity.
  - rewrite T'. f_equal. f_equal. cbn [upd_path]. rewrite <- map_l_remove. reflexivity.
Qed.

(* ------------------------------------------------------------------ obtaining handles from the current root *)
Lemma get_entry_runs fa e0 fb ts tid ri a b c d :
  nth_error ts tid = Some (mk_slot true ri (cfield_tree (fa ++ e0 :: fb))) ->
  runs (run_op fixed (OGetEntry 0 (length fa))) (st5 ts (mk_hnd tid []) a b c d) (2%N, None)
       (st5 ts (mk_hnd tid []) (Some (mk_hnd tid [3 * length fa])) b c d).
Proof.
  intros HT. cbn [run_op]. unfold st5, get_entry. cbn [ereg Nat.mul Nat.add].
  rbind.
  { rbind.
    { unfold nth_child_handle. rbind; [apply runs_get_reg; reflexivity|].
      rbind; [eapply runs_children_of; [exact HT|reflexivity]|]. rdone. }
    cbn [s_tree]. rewrite nth_index_entry_cfield. cbn [option_map child_h h_tid h_path app].
    rbind; [apply runs_set_reg|]. rdone. }
  rdone.
Qed.

Lemma nth_index_rel_centry ra r0 rb :
  nth_index is_relation (length ra) (children (centry_tree (ra ++ r0 :: rb))) = Some (4 * length ra).
Proof.
  unfold centry_tree, entry_from_relations. cbn [children].
  rewrite nth_index_join_relations by apply Forall_relationish_map. rewrite map_length, app_length. cbn [length].
  assert (length ra <? length ra + S (length rb) = true) as -> by (apply Nat.ltb_lt; lia). reflexivity.
Qed.

Lemma get_rel_runs fa ra r0 rb fb ts tid ri b c d :
  nth_error ts tid = Some (mk_slot true ri (cfield_tree (fa ++ (ra ++ r0 :: rb) :: fb))) ->
  runs (run_op fixed (OGetRel 0 0 (length ra)))
       (st5 ts (mk_hnd tid []) (Some (mk_hnd tid [3 * length fa])) b c d) (2%N, None)
       (st5 ts (mk_hnd tid []) (Some (mk_hnd tid [3 * length fa])) (Some (mk_hnd tid [3 * length fa; 4 * length ra])) c d).
Proof.
  intros HT. cbn [run_op]. unfold st5. cbn [ereg rreg Nat.mul Nat.add].
  rbind; [apply runs_has_reg|]. cbn [nth_error].
  unfold get_relation.
  rbind.
  { rbind.
    { unfold nth_child_handle. rbind; [apply runs_get_reg; reflexivity|].
      rbind; [eapply runs_children_of; [exact HT|apply get_path_cfield_entry]|]. rdone. }
    rewrite nth_index_rel_centry. cbn [option_map child_h h_tid h_path app].
    rbind; [apply runs_set_reg|]. rdone. }
  rdone.
Qed.

(* an operation on one node (through the register that holds it) with a purely local effect *)
Definition node_op (m : nat -> M unit) (N N' : rtree) : Prop :=
  forall ts rs r tid ri T pp i,
    nth_error rs r = Some (Some (mk_hnd tid (pp ++ [i]))) ->
    nth_error ts tid = Some (mk_slot true ri T) ->
    get_path T (pp ++ [i]) = Some N ->
    exists ts' F,
      runs (m r) (mk_state ts rs) tt (mk_state ts' (map (option_map F) rs)) /\
      nth_error ts' tid = Some (mk_slot true ri (upd_path T (pp ++ [i]) (fun _ => N'))) /\
      (forall g, h_tid g < length ts -> above tid (pp ++ [i]) g -> F g = g) /\
      (forall j, j <> tid -> j < length ts -> nth_error ts' j = nth_error ts j).
(* read on the registers: the register keeps its handle, every handle that is not strictly below
   the node stays *)
Lemma node_op_regs m N N' : node_op m N N' ->
  forall ts rs r tid ri T pp i,
    nth_error rs r = Some (Some (mk_hnd tid (pp ++ [i]))) ->
    nth_error ts tid = Some (mk_slot true ri T) ->
    get_path T (pp ++ [i]) = Some N ->
    exists ts' rs',
      runs (m r) (mk_state ts rs) tt (mk_state ts' rs') /\
      length rs' = length rs /\
      nth_error ts' tid = Some (mk_slot true ri (upd_path T (pp ++ [i]) (fun _ => N'))) /\
      nth_error rs' r = Some (Some (mk_hnd tid (pp ++ [i]))) /\
      (forall q g, q <> r -> nth_error rs q = Some (Some g) -> h_tid g < length ts -> above tid (pp ++ [i]) g ->
                   nth_error rs' q = Some (Some g)).
Proof.
  intros H ts rs r tid ri T pp i Hr HT HG.
  pose proof (nth_error_Some_lt _ _ _ HT) as Hlt.
  destruct (H ts rs r tid ri T pp i Hr HT HG) as (ts' & F & R & T' & A & O).
  exists ts', (map (option_map F) rs). repeat split; auto.
  - apply map_length.
  - rewrite nth_error_map, Hr. cbn [option_map]. rewrite A; [reflexivity|exact Hlt|apply above_self].
  - intros q g _ Hq Hg Ha. rewrite nth_error_map, Hq. cbn [option_map]. rewrite A; auto.
Qed.

Lemma list5 {A} (l : list A) : length l = 5 -> exists x0 x1 x2 x3 x4, l = [x0; x1; x2; x3; x4].
Proof.
  destruct l as [|x0 [|x1 [|x2 [|x3 [|x4 [|x5 r]]]]]]; cbn; intros H; try discriminate.
  now exists x0, x1, x2, x3, x4.
Qed.

(* a local operation on the relation in register 2, after [OGetEntry 0 i; OGetRel 0 0 j] *)
Lemma rel_node_op_runs m r0' fa ra r0 rb fb ts tid ri c d :
  node_op m (crel_tree r0) (crel_tree r0') ->
  nth_error ts tid = Some (mk_slot true ri (cfield_tree (fa ++ (ra ++ r0 :: rb) :: fb))) ->
  exists ts' a' c' d',
    runs (m 2) (st5 ts (mk_hnd tid []) (Some (mk_hnd tid [3 * length fa]))
                    (Some (mk_hnd tid [3 * length fa; 4 * length ra])) c d) tt
         (st5 ts' (mk_hnd tid []) a' (Some (mk_hnd tid [3 * length fa; 4 * length ra])) c' d') /\
    nth_error ts' tid = Some (mk_slot true ri (cfield_tree (fa ++ (ra ++ r0' :: rb) :: fb))).
Proof.
  intros Hop HT.
  pose proof (nth_error_Some_lt _ _ _ HT) as Hlt.
  destruct (node_op_regs _ _ _ Hop ts [Some (mk_hnd tid []); Some (mk_hnd tid [3 * length fa]); Some (mk_hnd tid [3 * length fa; 4 * length ra]); c; d]
                2 tid ri _ [3 * length fa] (4 * length ra) eq_refl HT (get_path_cfield_rel fa ra r0 rb fb))
    as (ts' & rs' & R3 & L3 & T3 & S3 & A3).
  destruct (list5 rs' L3) as (x0 & x1 & x2 & x3 & x4 & ->).
  pose proof (A3 0 (mk_hnd tid []) ltac:(lia) eq_refl Hlt (above_root _ _ _)) as E0.
  cbn [nth_error] in E0, S3. inversion E0; subst x0. inversion S3; subst x2.
  exists ts', x1, x3, x4. split; [exact R3|].
  rewrite T3. f_equal. f_equal. apply upd_cfield_rel.
Qed.

(* ------------------------------------------------------------------ splicing a freshly built node *)
Lemma above_extend tid pp i g : above tid pp g -> above tid (pp ++ [i]) g.
Proof. apply above_deeper. Qed.

Lemma firstn_map_app_len {A B} (F : A -> B) (l : list A) x : firstn (length l) (map F (l ++ [x])) = map F l.
Proof. rewrite map_app. rewrite <- (map_length F l). apply firstn_app_len. Qed.

Lemma splice_new_replace_spec ts rs r tid ri T p kd pre x post n :
  nth_error rs r = Some (Some (mk_hnd tid p)) -> nth_error ts tid = Some (mk_slot true ri T) ->
  get_path T p = Some (Node kd (pre ++ x :: post)) ->
  exists ts' F,
    runs (splice_new r (length pre) (S (length pre)) n) (mk_state ts rs) tt (mk_state ts' (map (option_map F) rs)) /\
    nth_error ts' tid = Some (mk_slot true ri (upd_path T p (fun _ => Node kd (pre ++ n :: post)))) /\
    (forall g, h_tid g < length ts -> above tid p g -> F g = g) /\
    (forall j, j <> tid -> j < length ts -> nth_error ts' j = nth_error ts j).
Proof.
  intros Hr HT HG. pose proof (nth_error_Some_lt _ _ _ HT) as Hlt.
  destruct (splice_replace_spec (ts ++ [mk_slot true 0 n]) (rs ++ [Some (mk_hnd (length ts) [])]) r (length rs)
              tid ri T p kd pre x post (length ts) 0 n
              (nth_error_app_l _ _ _ _ Hr) (nth_error_app_at _ _) (nth_error_app_l _ _ _ _ HT) HG
              (nth_error_app_at _ _) ltac:(lia))
    as (ts' & F & R & L & T' & N & O & S1 & S2 & A).
  exists ts', F. split; [|split; [|split]].
  - unfold splice_new. eapply runs_eq; [apply runs_scoped|reflexivity|].
    + rbind; [apply runs_alloc|]. rbind; [apply runs_push_tmp|]. exact R.
    + now rewrite firstn_map_app_len.
  - exact T'.
  - intros g Hg Ha. apply A; [lia|exact Ha].
  - intros j Hj Hl. rewrite O; [|exact Hj|lia|rewrite app_length; cbn; lia]. now apply nth_error_app1.
Qed.

Lemma splice_new_insert_spec_o ts rs r tid ri T p kd cs idx n :
  nth_error rs r = Some (Some (mk_hnd tid p)) -> nth_error ts tid = Some (mk_slot true ri T) ->
  get_path T p = Some (Node kd cs) -> idx <= length cs ->
  exists ts' F,
    runs (splice_new r idx idx n) (mk_state ts rs) tt (mk_state ts' (map (option_map F) rs)) /\
    nth_error ts' tid = Some (mk_slot true ri (upd_path T p (fun _ => Node kd (insert_at idx [n] cs)))) /\
    (forall g, h_tid g < length ts -> above tid p g -> F g = g) /\
    (forall j, j <> tid -> j < length ts -> nth_error ts' j = nth_error ts j).
Proof.
  intros Hr HT HG Hidx. pose proof (nth_error_Some_lt _ _ _ HT) as Hlt.
  destruct (splice_insert_spec (ts ++ [mk_slot true 0 n]) (rs ++ [Some (mk_hnd (length ts) [])]) r (length rs)
              tid ri T p kd cs idx (length ts) 0 n
              (nth_error_app_l _ _ _ _ Hr) (nth_error_app_at _ _) (nth_error_app_l _ _ _ _ HT) HG
              (nth_error_app_at _ _) ltac:(lia) Hidx)
    as (ts' & R & L & T' & O).
  exists ts', (rebase_attach tid p idx (length ts)). split; [|split; [|split]].
  - unfold splice_new. eapply runs_eq; [apply runs_scoped|reflexivity|].
    + rbind; [apply runs_alloc|]. rbind; [apply runs_push_tmp|]. exact R.
    + now rewrite firstn_map_app_len.
  - exact T'.
  - intros g Hg Ha. apply rebase_attach_above; [lia|exact Ha].
  - intros j Hj Hl. rewrite O; [|exact Hj|lia]. now apply nth_error_app1.
Qed.

(* from "children replaced under F" to the node_op form *)
Lemma node_op_from_F (m : nat -> M unit) N N' :
  (forall ts rs r tid ri T p, nth_error rs r = Some (Some (mk_hnd tid p)) ->
     nth_error ts tid = Some (mk_slot true ri T) -> get_path T p = Some N ->
     exists ts' F, runs (m r) (mk_state ts rs) tt (mk_state ts' (map (option_map F) rs)) /\
       nth_error ts' tid = Some (mk_slot true ri (upd_path T p (fun _ => N'))) /\
       (forall g, h_tid g < length ts -> above tid p g -> F g = g) /\
       (forall j, j <> tid -> j < length ts -> nth_error ts' j = nth_error ts j)) ->
  node_op m N N'.
Proof. intros H ts rs r tid ri T pp i Hr HT HG. exact (H ts rs r tid ri T (pp ++ [i]) Hr HT HG). Qed.

(* an operation that is one splice of freshly built elements into the node itself *)
Lemma insert_fresh_node_op (m : nat -> M unit) k cs idx new : idx <= length cs ->
  (forall ts rs r tid ri T p, nth_error rs r = Some (Some (mk_hnd tid p)) ->
     nth_error ts tid = Some (mk_slot true ri T) -> get_path T p = Some (Node k cs) ->
     forall st', runs (m_insert_fresh r idx new) (mk_state ts rs) tt st' -> runs (m r) (mk_state ts rs) tt st') ->
  node_op m (Node k cs) (Node k (insert_at idx new cs)).
Proof.
  intros Hidx Hm. apply node_op_from_F. intros ts rs r tid ri T p Hr HT HG.
  destruct (m_insert_fresh_spec new ts rs r tid ri T p k cs idx Hr HT HG Hidx) as (ts' & F & R & L & T' & O & A & B).
  exists ts', F. split; [now apply (Hm ts rs r tid ri T p Hr HT HG)|]. split; [exact T'|split; [exact A|exact O]].
Qed.

(* ------------------------------------------------------------------ Relation::set_archqual *)
Lemma plain_inv r : plain r = true -> exists n q v, r = mk_relrec n q v None [].
Proof.
  unfold plain. destruct r as [n q v [ar|] [|g pr]]; cbn; try discriminate. intros _. now exists n, q, v.
Qed.
Lemma plain_ver_ok r : plain r = true -> ver_ok (rr_ver r) = true.
Proof. unfold plain. destruct (rr_archs r); [discriminate|]. destruct (rr_profs r); [auto|discriminate]. Qed.

Lemma set_archqual_node_op q r0 : plain r0 = true ->
  node_op (fun r => relation_set_archqual r q) (crel_tree r0) (crel_tree (rr_set_qual q r0)).
Proof.
  intros Hp. destruct (plain_inv _ Hp) as (n & q0 & v & ->). apply node_op_from_F.
  intros ts rs r tid ri T p Hr HT HG.
  assert (Hhead : forall k st', runs k (mk_state ts rs) tt st' ->
            k = (match find_index (node_is ARCHQUAL) (children (crel_tree (mk_relrec n q0 v None []))) with
                 | Some i => splice_new r i (S i) (archqual_node q)
                 | None => let idx := after_name (children (crel_tree (mk_relrec n q0 v None []))) in
                           splice_new r idx idx (archqual_node q)
                 end) ->
            runs (relation_set_archqual r q) (mk_state ts rs) tt st').
  { intros k st' H ->. unfold relation_set_archqual. rbind; [apply runs_get_reg; exact Hr|].
    rbind; [eapply runs_children_of; [exact HT|exact HG]|]. exact H. }
  destruct q0 as [q0|].
  - (* replace the qualifier *)
    destruct (splice_new_replace_spec ts rs r tid ri T p RELATION [Tok IDENT n] (archqual_node q0)
                (match v with Some (vc, ver) => [t_space; version_node vc ver] | None => [] end)
                (archqual_node q) Hr HT HG) as (ts' & F & R & T' & A).
    exists ts', F. split; [|split; [exact T'|exact A]].
    eapply Hhead; [exact R|]. destruct v as [[vc ver]|]; reflexivity.
  - (* insert it after the name *)
    destruct (splice_new_insert_spec_o ts rs r tid ri T p RELATION _ 1 (archqual_node q) Hr HT HG) as (ts' & F & R & T' & A).
    { destruct v as [[vc ver]|]; cbn; lia. }
    exists ts', F. split; [|split; [|exact A]].
    + eapply Hhead; [exact R|]. destruct v as [[vc ver]|]; reflexivity.
    + rewrite T'. destruct v as [[vc ver]|]; reflexivity.
Qed.

Lemma through_runs (m : M unit) ts a b c d tid0 ts' a' h c' d' sl n :
  runs m (st5 ts (mk_hnd tid0 []) a (Some b) c d) tt (st5 ts' (mk_hnd tid0 []) a' (Some h) c' d') ->
  nth_error ts' (h_tid h) = Some sl -> get_path (s_tree sl) (h_path h) = Some n ->
  runs (through 2 m) (st5 ts (mk_hnd tid0 []) a (Some b) c d) (0%N, Some (text n))
       (st5 ts' (mk_hnd tid0 []) a' (Some h) c' d').
Proof.
  intros R Hs Hg. unfold through, st5 in *. eapply runs_with_reg_some; [reflexivity|].
  rbind; [exact R|]. unfold reg_text, node_of_reg.
  rbind.
  { rbind.
    { rbind; [apply runs_get_reg; reflexivity|]. destruct h as [ht hp]. eapply runs_node_of; [exact Hs|exact Hg]. }
    rdone. }
  rdone.
Qed.

(* ------------------------------------------------------------------ re-rooting through the parent *)
Lemma set_reg_l_length r o l : r < length l -> length (set_reg_l r o l) = length l.
Proof.
  revert r; induction l as [|x t IH]; intros [|r] H; cbn in *; try lia. f_equal. apply IH. lia.
Qed.
Lemma nth_error_set_reg_l_eq r o l : nth_error (set_reg_l r o l) r = Some o.
Proof.
  revert l; induction r as [|r IH]; intros [|x t]; cbn; auto.
Qed.
Lemma nth_error_set_reg_l_neq r q o l : q <> r -> r < length l -> nth_error (set_reg_l r o l) q = nth_error l q.
Proof.
  revert q l; induction r as [|r IH]; intros [|q] [|x t] Hq Hl; cbn in *; try lia; auto.
  apply IH; lia.
Qed.
Lemma firstn_map_app_len2 {A B} (F : A -> B) (l : list A) x y :
  firstn (length l) (map F (l ++ [x; y])) = map F l.
Proof. rewrite map_app. rewrite <- (map_length F l). apply firstn_app_len. Qed.
Lemma nth_error_app_at2 {A} (l : list A) x y : nth_error (l ++ [x; y]) (S (length l)) = Some y.
Proof. rewrite nth_error_app2 by lia. replace (S (length l) - length l) with 1 by lia. reflexivity. Qed.
Lemma nth_error_app_at1 {A} (l : list A) x y : nth_error (l ++ [x; y]) (length l) = Some x.
Proof. rewrite nth_error_app2 by lia. now rewrite Nat.sub_diag. Qed.

Lemma reroot_spec ts rs r tid ri T pp kd pre N post g :
  nth_error rs r = Some (Some (mk_hnd tid (pp ++ [length pre]))) ->
  nth_error ts tid = Some (mk_slot true ri T) ->
  get_path T pp = Some (Node kd (pre ++ N :: post)) -> is_node g = true ->
  exists ts' rs',
    runs (reroot r true g) (mk_state ts rs) tt (mk_state ts' rs') /\
    length rs' = length rs /\
    nth_error ts' tid = Some (mk_slot true ri (upd_path T pp (fun _ => Node kd (pre ++ g :: post)))) /\
    nth_error rs' r = Some (Some (mk_hnd tid (pp ++ [length pre]))) /\
    (forall q g0, q <> r -> nth_error rs q = Some (Some g0) -> h_tid g0 < length ts -> above tid pp g0 ->
                  nth_error rs' q = Some (Some g0)).
Proof.
  intros Hr HT HG Hnode.
  pose proof (nth_error_Some_lt _ _ _ HT) as Hlt. pose proof (nth_error_Some_lt _ _ _ Hr) as Hrl.
  set (ts1 := ts ++ [mk_slot true 0 g]).
  set (rs2 := rs ++ [Some (mk_hnd (length ts) []); Some (mk_hnd tid pp)]).
  assert (Hr2 : nth_error rs2 r = Some (Some (mk_hnd tid (pp ++ [length pre])))) by (now apply nth_error_app_l).
  destruct (splice_replace_spec ts1 rs2 (S (length rs)) (length rs) tid ri T pp kd pre N post (length ts) 0 g
              (nth_error_app_at2 _ _ _) (nth_error_app_at1 _ _ _) (nth_error_app_l _ _ _ _ HT) HG
              (nth_error_app_at _ _) ltac:(lia))
    as (ts' & F & R & L & T' & N' & O & S1 & S2 & A).
  assert (Lts1 : length ts1 = S (length ts)) by (unfold ts1; rewrite app_length; cbn; lia).
  assert (HG' : get_path (upd_path T pp (fun _ => Node kd (pre ++ g :: post))) pp = Some (Node kd (pre ++ g :: post)))
    by (now apply get_path_upd_path with (n := Node kd (pre ++ N :: post))).
  exists ts', (set_reg_l r (Some (mk_hnd tid (pp ++ [length pre]))) (map (option_map F) rs)).
  split; [|split; [|split; [|split]]].
  - unfold reroot. rbind; [apply runs_get_reg; exact Hr|]. rewrite parent_h_app.
    rbind; [|apply runs_set_reg].
    eapply runs_eq; [apply runs_scoped|reflexivity|].
    + rbind; [apply runs_alloc|]. rbind; [apply runs_push_tmp|]. rbind; [apply runs_push_tmp|].
      rewrite <- app_assoc. cbn [app]. rewrite app_length. cbn [length].
      replace (length rs + 1) with (S (length rs)) by lia.
      rbind; [exact R|].
      rbind; [apply runs_get_reg; rewrite (nth_error_map_reg F _ _ _ Hr2); rewrite S1; reflexivity|].
      rbind.
      { unfold index_of, parent_h. cbn [h_path split_last h_tid]. rbind; [eapply runs_get_slot; exact N'|]. rdone. }
      cbn [s_ridx].
      rbind.
      { apply runs_get_reg. unfold rs2. rewrite (nth_error_map_reg F _ _ _ (nth_error_app_at2 _ _ _)).
        rewrite A; [reflexivity|cbn [h_tid]; lia|apply above_self]. }
      rbind; [eapply runs_children_of; [exact T'|exact HG']|]. cbn [children s_tree].
      rewrite nth_error_app_len. rewrite Hnode. rdone.
    + unfold rs2. now rewrite firstn_map_app_len2.
  - rewrite set_reg_l_length; rewrite map_length; auto.
  - exact T'.
  - apply nth_error_set_reg_l_eq.
  - intros q g0 Hq Hq0 Hg0 Ha. rewrite nth_error_set_reg_l_neq by (rewrite ?map_length; auto).
    rewrite (nth_error_map_reg F _ _ _ Hq0). rewrite A; [reflexivity|lia|exact Ha].
Qed.

(* ------------------------------------------------------------------ Relation::set_version / drop_constraint *)
Definition qual_elems (q : option str) : list rtree :=
  match q with Some q => [archqual_node q] | None => [] end.
Lemma crel_tree_shape n q v :
  crel_tree (mk_relrec n q v None []) =
  Node RELATION ((Tok IDENT n :: qual_elems q) ++
                 match v with Some (vc, ver) => [t_space; version_node vc ver] | None => [] end).
Proof. destruct q; reflexivity. Qed.

Lemma drop_constraint_spec n q vc0 ver0 ts rs r tid ri T p :
  nth_error rs r = Some (Some (mk_hnd tid p)) -> nth_error ts tid = Some (mk_slot true ri T) ->
  get_path T p = Some (crel_tree (mk_relrec n q (Some (vc0, ver0)) None [])) ->
  exists ts' F,
    runs (relation_drop_constraint r) (mk_state ts rs) true (mk_state ts' (map (option_map F) rs)) /\
    nth_error ts' tid = Some (mk_slot true ri (upd_path T p (fun _ => crel_tree (mk_relrec n q None None [])))) /\
    (forall g, h_tid g < length ts -> above tid p g -> F g = g) /\
    (forall j, j <> tid -> j < length ts -> nth_error ts' j = nth_error ts j).
Proof.
  intros Hr HT HG. pose proof (nth_error_Some_lt _ _ _ HT) as Hlt.
  set (pre0 := Tok IDENT n :: qual_elems q).
  assert (Ecs : crel_tree (mk_relrec n q (Some (vc0, ver0)) None [])
                = Node RELATION (pre0 ++ [t_space] ++ version_node vc0 ver0 :: [])).
  { rewrite crel_tree_shape. reflexivity. }
  rewrite Ecs in HG.
  set (rs1 := rs ++ [Some (mk_hnd tid (p ++ [length pre0 + length [t_space]]))]).
  destruct (detach_prev_repeat [t_space] ts rs1 (length rs) tid ri T p RELATION pre0 (version_node vc0 ver0) []
              (nth_error_app_at _ _) HT HG) as (ts1 & F1 & R1 & L1 & T1 & O1 & S1 & A1).
  set (T1' := upd_path T p (fun _ => Node RELATION (pre0 ++ [version_node vc0 ver0]))) in *.
  assert (HG1 : get_path T1' p = Some (Node RELATION (pre0 ++ [version_node vc0 ver0])))
    by (now apply get_path_upd_path with (n := Node RELATION (pre0 ++ [t_space] ++ [version_node vc0 ver0]))).
  assert (Hr1 : nth_error (map (option_map F1) rs1) (length rs) = Some (Some (mk_hnd tid (p ++ [length pre0]))))
    by (unfold rs1; rewrite (nth_error_map_reg F1 _ _ _ (nth_error_app_at _ _)); now rewrite S1).
  destruct (detach_reg_spec ts1 _ (length rs) tid ri T1' p RELATION pre0 (version_node vc0 ver0) [] Hr1 T1 HG1)
    as (ts2 & F2 & R2 & L2 & T2 & N2 & O2 & S2 & A2).
  exists ts2, (fun g => F2 (F1 g)). split; [|split; [|split]].
  4:{ intros j Hj Hl. rewrite O2 by lia. now apply O1. }
  - unfold relation_drop_constraint. rbind; [apply runs_get_reg; exact Hr|].
    rbind; [eapply runs_children_of; [exact HT|exact HG]|]. cbn [children].
    assert (Efi : find_index (node_is VERSION) (pre0 ++ [t_space] ++ [version_node vc0 ver0]) = Some (length pre0 + 1))
      by (destruct q; reflexivity).
    rewrite Efi.
    rbind; [|rdone].
    eapply runs_eq; [apply runs_scoped|reflexivity|].
    + rbind; [apply runs_push_tmp|]. unfold child_h. cbn [h_tid h_path].
      assert (Ews : ws_prefix_len (rev (firstn (length pre0 + 1) (pre0 ++ [t_space] ++ [version_node vc0 ver0]))) = 1)
        by (destruct q; reflexivity).
      rewrite Ews. change 1 with (length [t_space]) at 2.
      rbind; [exact R1|]. exact R2.
    + rewrite map_option_map_comp. unfold rs1. now rewrite firstn_map_app_len.
  - rewrite T2. f_equal. f_equal. unfold T1'. rewrite (upd_path_const2 _ _ _ _ _ HG).
    eapply upd_path_ext; [exact HG|]. rewrite crel_tree_shape. now rewrite !app_nil_r.
  - intros g Hg Ha. rewrite A1 by exact Ha. now apply A2.
Qed.

Lemma set_version_none_node_op r0 : plain r0 = true ->
  node_op (fun r => relation_set_version fixed r None) (crel_tree r0) (crel_tree (rr_set_version None r0)).
Proof.
  intros Hp. destruct (plain_inv _ Hp) as (n & q & v & ->). apply node_op_from_F.
  intros ts rs r tid ri T p Hr HT HG. cbn [relation_set_version].
  destruct v as [[vc0 ver0]|].
  - destruct (drop_constraint_spec n q vc0 ver0 ts rs r tid ri T p Hr HT HG) as (ts' & F & R & T' & A).
    exists ts', F. split; [|split; [exact T'|exact A]]. rbind; [exact R|]. rdone.
  - exists ts, (fun g => g). rewrite map_option_map_id. split; [|split; [|auto]].
    + rbind; [|rdone]. unfold relation_drop_constraint. rbind; [apply runs_get_reg; exact Hr|].
      rbind; [eapply runs_children_of; [exact HT|exact HG]|].
      assert (find_index (node_is VERSION) (children (crel_tree (mk_relrec n q None None []))) = None) as ->
        by (destruct q; reflexivity).
      rdone.
    + unfold rr_set_version. cbn [rr_name rr_qual rr_archs rr_profs]. now rewrite (upd_path_same _ _ _ HG).
Qed.

Lemma set_version_some_node_op vc ver r0 : plain r0 = true ->
  node_op (fun r => relation_set_version fixed r (Some (vc, ver)))
          (crel_tree r0) (crel_tree (rr_set_version (Some (vc, ver)) r0)).
Proof.
  intros Hp. destruct (plain_inv _ Hp) as (n & q & v & ->).
  unfold rr_set_version. cbn [rr_name rr_qual rr_archs rr_profs].
  destruct v as [[vc0 ver0]|].
  - (* replace the VERSION node *)
    apply node_op_from_F. intros ts rs r tid ri T p Hr HT HG.
    set (pre := (Tok IDENT n :: qual_elems q) ++ [t_space]).
    assert (Ecs : crel_tree (mk_relrec n q (Some (vc0, ver0)) None []) = Node RELATION (pre ++ version_node vc0 ver0 :: []))
      by (rewrite crel_tree_shape; unfold pre; now rewrite <- app_assoc).
    rewrite Ecs in HG.
    destruct (splice_new_replace_spec ts rs r tid ri T p RELATION pre _ [] (version_node vc ver) Hr HT HG)
      as (ts' & F & R & T' & A).
    exists ts', F. split; [|split; [|exact A]].
    + cbn [relation_set_version]. rbind; [apply runs_get_reg; exact Hr|].
      rbind; [eapply runs_node_of; [exact HT|exact HG]|]. cbn [children].
      assert (find_index (node_is VERSION) (pre ++ [version_node vc0 ver0]) = Some (length pre)) as ->
        by (destruct q; reflexivity).
      exact R.
    + rewrite T'. f_equal. f_equal. eapply upd_path_ext; [exact HG|].
      rewrite crel_tree_shape. unfold pre. now rewrite <- app_assoc.
  - (* insert " (op ver)" after the qualifier, in place *)
    set (cs := children (crel_tree (mk_relrec n q None None []))).
    assert (Eo : crel_tree (mk_relrec n q None None []) = Node RELATION cs) by reflexivity.
    assert (En : crel_tree (mk_relrec n q (Some (vc, ver)) None []) = Node RELATION (insert_at (version_pos fixed cs) [t_space; version_node vc ver] cs))
      by (unfold cs; destruct q; reflexivity).
    rewrite Eo, En. apply insert_fresh_node_op; [unfold cs; destruct q; cbn; lia|].
    intros ts rs r tid ri T p Hr HT HG st' R.
    cbn [relation_set_version]. rbind; [apply runs_get_reg; exact Hr|].
    rbind; [eapply runs_node_of; [exact HT|exact HG]|]. cbn [children].
    assert (find_index (node_is VERSION) cs = None) as -> by (unfold cs; destruct q; reflexivity).
    cbn [fx_in_place fixed]. exact R.
Qed.

Lemma runs_bind_inv {A B} (m : M A) (f : A -> M B) st b st2 :
  runs (mbind m f) st b st2 -> exists a st1, runs m st a st1 /\ runs (f a) st1 b st2.
Proof.
  unfold runs, mbind. destruct (m st) as [[a st1]| | |]; try discriminate. intros H. now exists a, st1.
Qed.
Lemma runs_ret_inv {A} (a b : A) st st' : runs (ret a) st b st' -> a = b /\ st = st'.
Proof. unfold runs, ret. intros [= -> ->]. now split. Qed.

(* the wrappers of run_op around an operation through relation register 0 *)
Definition wraps (X : op) (m : nat -> M unit) : Prop :=
  forall ts a b c d tid0 ts' a' h c' d' sl n,
    runs (m 2) (st5 ts (mk_hnd tid0 []) a (Some b) c d) tt (st5 ts' (mk_hnd tid0 []) a' (Some h) c' d') ->
    nth_error ts' (h_tid h) = Some sl -> get_path (s_tree sl) (h_path h) = Some n ->
    exists x, runs (run_op fixed X) (st5 ts (mk_hnd tid0 []) a (Some b) c d) x
                   (st5 ts' (mk_hnd tid0 []) a' (Some h) c' d').

Lemma wraps_through X m : run_op fixed X = through 2 (m 2) -> wraps X m.
Proof.
  intros E ts a b c d tid0 ts' a' h c' d' sl n R Hs Hg. eexists. rewrite E. eapply through_runs; eauto.
Qed.
Lemma wraps_drop_constraint : wraps (ODropConstraint 0) (fun r => relation_set_version fixed r None).
Proof.
  intros ts a b c d tid0 ts' a' h c' d' sl n R Hs Hg. cbn [relation_set_version] in R.
  destruct (runs_bind_inv _ _ _ _ _ R) as (bb & st1 & R1 & R2).
  apply runs_ret_inv in R2. destruct R2 as [_ ->].
  eexists. cbn [run_op rreg Nat.mul Nat.add]. unfold st5 in *.
  eapply runs_with_reg_some; [reflexivity|].
  rbind; [exact R1|]. unfold reg_text, node_of_reg.
  rbind.
  { rbind.
    { rbind; [apply runs_get_reg; reflexivity|]. destruct h as [ht hp]. eapply runs_node_of; [exact Hs|exact Hg]. }
    rdone. }
  rdone.
Qed.

(* ------------------------------------------------------------------ Relation::remove *)
(* the cleanup loops of Relation::remove *)
Lemma relation_remove_phase1_x ts rs r tid ri T p kd pre x post cs' :
  nth_error rs r = Some (Some (mk_hnd tid (p ++ [length pre]))) ->
  nth_error ts tid = Some (mk_slot true ri T) ->
  get_path T p = Some (Node kd (pre ++ x :: post)) ->
  relation_remove_cs (pre ++ x :: post) (length pre) = Ok cs' ->
  exists ts1 F1 pre1 post1,
    runs (if negb (existsb is_relation pre) then
            match relation_remove_scan_next post with
            | Ok k => m_repeat k (m_detach_next r)
            | Panic n => m_repeat (ws_prefix_len post) (m_detach_next r) ;; mpanic n
            | Err e => merr e
            | OutOfFuel => merr 96
            end
          else m_repeat (relation_remove_scan_prev pre) (m_detach_prev r))
         (mk_state ts rs) tt (mk_state ts1 (map (option_map F1) rs)) /\
    cs' = pre1 ++ post1 /\
    length ts <= length ts1 /\
    nth_error ts1 tid = Some (mk_slot true ri (upd_path T p (fun _ => Node kd (pre1 ++ x :: post1)))) /\
    (forall j, j <> tid -> j < length ts -> nth_error ts1 j = nth_error ts j) /\
    F1 (mk_hnd tid (p ++ [length pre])) = mk_hnd tid (p ++ [length pre1]) /\
    (forall g, above tid p g -> F1 g = g) /\
    (forall F2, cut_map F2 tid p (length pre1) (S (length pre1)) ->
       cut_map (fun g => F2 (F1 g)) tid p (fst (relation_remove_range (pre ++ x :: post) (length pre)))
                                          (snd (relation_remove_range (pre ++ x :: post) (length pre)))) /\
    fst (relation_remove_range (pre ++ x :: post) (length pre)) <= length pre /\
    length pre < snd (relation_remove_range (pre ++ x :: post) (length pre)).
Proof.
  intros Hr HT HG Hcs. unfold relation_remove_cs in Hcs.
  rewrite firstn_app_len, skipn_S_app_len in Hcs.
  destruct (negb (existsb is_relation pre)) eqn:Efirst.
  - destruct (relation_remove_scan_next post) as [k| | |] eqn:Esc; try discriminate.
    inversion Hcs; subst cs'; clear Hcs.
    pose proof (relation_remove_scan_next_le _ _ Esc) as Hk.
    destruct (detach_next_repeat_x k ts rs r tid ri T p kd pre x post Hr HT HG Hk)
      as (ts1 & F1 & R1 & L1 & T1 & O1 & S1 & A1 & C1).
    assert (Erange := eq_refl (relation_remove_range (pre ++ x :: post) (length pre))).
    unfold relation_remove_range at 2 in Erange. rewrite firstn_app_len, skipn_S_app_len, Efirst, Esc in Erange.
    rewrite Erange. cbn [fst snd].
    exists ts1, F1, pre, (skipn k post). split; [|split; [|split; [|split; [|split; [|split; [|split; [|split; [|split]]]]]]]]; auto; try lia.
    intros F2 C2. eapply cut_map_bounds; [reflexivity| |apply (cut_map_comp F1 F2 tid p _ _ _ _ C1 C2)]; lia.
  - inversion Hcs; subst cs'; clear Hcs.
    set (k2 := relation_remove_scan_prev pre) in *.
    assert (Hk2 : k2 <= length pre) by apply relation_remove_scan_prev_le.
    set (pre0 := firstn (length pre - k2) pre) in *. set (gone := skipn (length pre - k2) pre).
    assert (Epre : pre = pre0 ++ gone) by (symmetry; apply firstn_skipn).
    assert (Lgone : length gone = k2) by (unfold gone; rewrite skipn_length; lia).
    assert (Lpre0 : length pre = length pre0 + length gone) by (rewrite Epre at 1; apply app_length).
    assert (Hr' : nth_error rs r = Some (Some (mk_hnd tid (p ++ [length pre0 + length gone]))))
      by (now rewrite <- Lpre0).
    assert (HG' : get_path T p = Some (Node kd (pre0 ++ gone ++ x :: post)))
      by (rewrite app_assoc, <- Epre; exact HG).
    destruct (detach_prev_repeat_x gone ts rs r tid ri T p kd pre0 x post Hr' HT HG')
      as (ts1 & F1 & R1 & L1 & T1 & O1 & S1 & A1 & C1).
    assert (Erange := eq_refl (relation_remove_range (pre ++ x :: post) (length pre))).
    unfold relation_remove_range at 2 in Erange. rewrite firstn_app_len, skipn_S_app_len, Efirst in Erange.
    rewrite Erange. cbn [fst snd]. fold k2.
    exists ts1, F1, pre0, post. split; [|split; [|split; [|split; [|split; [|split; [|split; [|split; [|split]]]]]]]]; auto; try lia.
    + rewrite <- Lgone. exact R1.
    + rewrite Lpre0. exact S1.
    + intros F2 C2. eapply cut_map_bounds; [| |apply (cut_map_comp F1 F2 tid p _ _ _ _ C1 C2)]; lia.
Qed.

Lemma relation_remove_phase1 ts rs r tid ri T p kd pre x post cs' :
  nth_error rs r = Some (Some (mk_hnd tid (p ++ [length pre]))) ->
  nth_error ts tid = Some (mk_slot true ri T) ->
  get_path T p = Some (Node kd (pre ++ x :: post)) ->
  relation_remove_cs (pre ++ x :: post) (length pre) = Ok cs' ->
  exists ts1 F1 pre1 post1,
    runs (if negb (existsb is_relation pre) then
            match relation_remove_scan_next post with
            | Ok k => m_repeat k (m_detach_next r)
            | Panic n => m_repeat (ws_prefix_len post) (m_detach_next r) ;; mpanic n
            | Err e => merr e
            | OutOfFuel => merr 96
            end
          else m_repeat (relation_remove_scan_prev pre) (m_detach_prev r))
         (mk_state ts rs) tt (mk_state ts1 (map (option_map F1) rs)) /\
    cs' = pre1 ++ post1 /\
    length ts <= length ts1 /\
    nth_error ts1 tid = Some (mk_slot true ri (upd_path T p (fun _ => Node kd (pre1 ++ x :: post1)))) /\
    (forall j, j <> tid -> j < length ts -> nth_error ts1 j = nth_error ts j) /\
    F1 (mk_hnd tid (p ++ [length pre])) = mk_hnd tid (p ++ [length pre1]) /\
    (forall g, above tid p g -> F1 g = g).
Proof.
  intros Hr HT HG Hcs.
  destruct (relation_remove_phase1_x ts rs r tid ri T p kd pre x post cs' Hr HT HG Hcs)
    as (ts1 & F1 & pre1 & post1 & R1 & Ecs & L1 & T1 & O1 & S1 & A1 & _).
  exists ts1, F1, pre1, post1. auto 10.
Qed.

Lemma relation_remove_spec_x ts rs r tid ri T ppe kd epre epost pre x post cs' ecs' :
  nth_error rs r = Some (Some (mk_hnd tid ((ppe ++ [length epre]) ++ [length pre]))) ->
  nth_error ts tid = Some (mk_slot true ri T) ->
  get_path T ppe = Some (Node kd (epre ++ Node ENTRY (pre ++ x :: post) :: epost)) ->
  relation_remove_cs (pre ++ x :: post) (length pre) = Ok cs' ->
  (if count_if is_relation cs' =? 0
   then entry_remove_cs fixed (epre ++ Node ENTRY cs' :: epost) (length epre)
   else Ok (epre ++ Node ENTRY cs' :: epost)) = Ok ecs' ->
  exists ts' F,
    runs (relation_remove fixed r) (mk_state ts rs) tt (mk_state ts' (map (option_map F) rs)) /\
    length ts <= length ts' /\
    nth_error ts' tid = Some (mk_slot true ri (upd_path T ppe (fun _ => Node kd ecs'))) /\
    (forall j, j <> tid -> j < length ts -> nth_error ts' j = nth_error ts j) /\
    (exists tn rn, F (mk_hnd tid ((ppe ++ [length epre]) ++ [length pre])) = mk_hnd tn [] /\
                   nth_error ts' tn = Some (mk_slot true rn x)) /\
    (exists sl, nth_error ts' (h_tid (F (mk_hnd tid (ppe ++ [length epre])))) = Some sl /\
                get_path (s_tree sl) (h_path (F (mk_hnd tid (ppe ++ [length epre])))) = Some (Node ENTRY cs')) /\
    (forall g, above tid ppe g -> F g = g) /\
    (if count_if is_relation cs' =? 0
     then cut_map F tid ppe (fst (entry_remove_range fixed (epre ++ Node ENTRY cs' :: epost) (length epre)))
                            (snd (entry_remove_range fixed (epre ++ Node ENTRY cs' :: epost) (length epre))) /\
          fst (entry_remove_range fixed (epre ++ Node ENTRY cs' :: epost) (length epre)) <= length epre /\
          length epre < snd (entry_remove_range fixed (epre ++ Node ENTRY cs' :: epost) (length epre))
     else cut_map F tid (ppe ++ [length epre]) (fst (relation_remove_range (pre ++ x :: post) (length pre)))
                                               (snd (relation_remove_range (pre ++ x :: post) (length pre))) /\
          fst (relation_remove_range (pre ++ x :: post) (length pre)) <= length pre /\
          length pre < snd (relation_remove_range (pre ++ x :: post) (length pre)) /\
          (forall g, above tid (ppe ++ [length epre]) g -> F g = g)).
Proof.
  intros Hr HT HGp Hcs Hecs.
  set (pe := ppe ++ [length epre]) in *.
  pose proof (nth_error_Some_lt _ _ _ HT) as Hlt.
  assert (HG : get_path T pe = Some (Node ENTRY (pre ++ x :: post)))
    by (eapply get_path_child; [exact HGp|apply nth_error_app_len]).
  destruct (relation_remove_phase1_x ts rs r tid ri T pe ENTRY pre x post cs' Hr HT HG Hcs)
    as (ts1 & F1 & pre1 & post1 & R1 & Ecs & L1 & T1 & O1 & S1 & A1 & C1 & B1lo & B1hi).
  set (T1' := upd_path T pe (fun _ => Node ENTRY (pre1 ++ x :: post1))) in *.
  assert (HG1 : get_path T1' pe = Some (Node ENTRY (pre1 ++ x :: post1)))
    by (now apply get_path_upd_path with (n := Node ENTRY (pre ++ x :: post))).
  (* push_tmp ph, then self.0.detach() *)
  set (rs1 := map (option_map F1) rs ++ [Some (mk_hnd tid pe)]).
  assert (Hr1 : nth_error rs1 r = Some (Some (mk_hnd tid (pe ++ [length pre1]))))
    by (unfold rs1; apply nth_error_app_l; rewrite (nth_error_map_reg F1 _ _ _ Hr); now rewrite S1).
  destruct (detach_reg_spec_x ts1 rs1 r tid ri T1' pe ENTRY pre1 x post1 Hr1 T1 HG1)
    as (ts2 & F2 & R2 & L2 & T2 & N2 & O2 & S2 & A2 & C2).
  assert (ET2 : upd_path T1' pe (fun _ => Node ENTRY (pre1 ++ post1))
                = upd_path T ppe (fun _ => Node kd (epre ++ Node ENTRY cs' :: epost))).
  { unfold T1'. rewrite (upd_path_const2 _ _ _ _ _ HG). rewrite <- Ecs. unfold pe.
    apply (upd_path_snoc _ _ _ _ _ _ _ HGp). }
  rewrite ET2 in T2.
  set (T2' := upd_path T ppe (fun _ => Node kd (epre ++ Node ENTRY cs' :: epost))) in *.
  assert (HG2p : get_path T2' ppe = Some (Node kd (epre ++ Node ENTRY cs' :: epost)))
    by (now apply get_path_upd_path with (n := Node kd (epre ++ Node ENTRY (pre ++ x :: post) :: epost))).
  assert (HG2 : get_path T2' pe = Some (Node ENTRY cs'))
    by (eapply get_path_child; [exact HG2p|apply nth_error_app_len]).
  assert (Hrp2 : nth_error (map (option_map F2) rs1) (length rs) = Some (Some (mk_hnd tid pe))).
  { unfold rs1. rewrite <- (map_length (option_map F1) rs).
    rewrite (nth_error_map_reg F2 _ _ _ (nth_error_app_at _ _)). now rewrite A2 by apply above_self. }
  assert (Hrun : forall (tail : M unit) ts3 rs3,
     runs tail (mk_state ts2 (map (option_map F2) rs1)) tt (mk_state ts3 rs3) ->
     tail = (pcs' <- (ph' <- get_reg (length rs) ;; children_of ph') ;;
             if count_if is_relation pcs' =? 0 then entry_remove fixed (length rs) else ret tt) ->
     runs (relation_remove fixed r) (mk_state ts rs) tt (mk_state ts3 (firstn (length rs) rs3))).
  { intros tail ts3 rs3 Rt ->. unfold relation_remove.
    rbind; [apply runs_get_reg; exact Hr|]. fold pe. rewrite parent_h_app.
    apply runs_scoped.
    rbind; [eapply runs_children_of; [exact HT|exact HG]|]. cbn [children].
    rewrite firstn_app_len, skipn_S_app_len.
    rbind; [exact R1|].
    rbind; [eapply runs_node_of; [exact T1|exact HG1]|].
    change (kind_is ENTRY (Node ENTRY (pre1 ++ x :: post1))) with true. cbn iota.
    rbind; [apply runs_push_tmp|]. rewrite map_length. cbn [fx_remove_last fixed].
    rbind; [exact R2|]. exact Rt. }
  destruct (count_if is_relation cs' =? 0) eqn:Ecount.
  - (* the entry has no alternative left: it is removed as well *)
    destruct (entry_remove_spec_x ts2 (map (option_map F2) rs1) (length rs) tid ri T2' ppe kd epre (Node ENTRY cs') epost ecs'
                Hrp2 T2 HG2p Hecs) as (ts3 & F3 & R3 & L3 & T3 & O3 & (tn3 & rn3 & S3 & N3) & A3 & C3 & B3lo & B3hi).
    exists ts3, (fun g => F3 (F2 (F1 g))).
    assert (Eregs : firstn (length rs) (map (option_map F3) (map (option_map F2) rs1))
                    = map (option_map (fun g => F3 (F2 (F1 g)))) rs).
    { unfold rs1. rewrite !map_app. rewrite <- (map_length (option_map F1) rs) at 1.
      rewrite <- (map_length (option_map F2) (map (option_map F1) rs)).
      rewrite <- (map_length (option_map F3) (map (option_map F2) (map (option_map F1) rs))).
      rewrite firstn_app_len. now rewrite !map_option_map_comp. }
    rewrite <- Eregs. split; [|split; [|split; [|split; [|split; [|split; [|split]]]]]].
    + eapply Hrun; [|reflexivity].
      rbind; [rbind; [apply runs_get_reg; exact Hrp2|]; eapply runs_children_of; [exact T2|exact HG2]|].
      cbn [children]. rewrite Ecount. exact R3.
    + lia.
    + rewrite T3. f_equal. f_equal. unfold T2'. now rewrite (upd_path_const2 _ _ _ _ _ HGp).
    + intros j Hj Hl. rewrite O3 by lia. rewrite O2 by lia. now apply O1.
    + exists (length ts1), (length pre1). split.
      * rewrite S1, S2. apply A3. left. cbn [h_tid]. lia.
      * rewrite O3; [exact N2|lia|lia].
    + rewrite (A1 (mk_hnd tid pe)) by apply above_self. rewrite (A2 (mk_hnd tid pe)) by apply above_self.
      unfold pe. rewrite S3. cbn [h_tid h_path]. eexists. split; [exact N3|reflexivity].
    + intros g Hg. rewrite A1 by (unfold pe; now apply above_deeper).
      rewrite A2 by (unfold pe; now apply above_deeper).
      now apply A3.
    + split; [|split; [exact B3lo|exact B3hi]]. destruct C3 as [C3a C3b]. split; intros c rest Hc.
      * rewrite A1 by (unfold pe; apply (above_sibling tid ppe (length epre) c [] rest); lia).
        rewrite A2 by (unfold pe; apply (above_sibling tid ppe (length epre) c [] rest); lia). now apply C3a.
      * rewrite A1 by (unfold pe; apply (above_sibling tid ppe (length epre) c [] rest); lia).
        rewrite A2 by (unfold pe; apply (above_sibling tid ppe (length epre) c [] rest); lia). now apply C3b.
  - (* alternatives remain *)
    inversion Hecs; subst ecs'; clear Hecs.
    exists ts2, (fun g => F2 (F1 g)).
    assert (Eregs : firstn (length rs) (map (option_map F2) rs1) = map (option_map (fun g => F2 (F1 g))) rs).
    { unfold rs1. rewrite !map_app. rewrite <- (map_length (option_map F1) rs) at 1.
      rewrite <- (map_length (option_map F2) (map (option_map F1) rs)).
      rewrite firstn_app_len. now rewrite map_option_map_comp. }
    rewrite <- Eregs. split; [|split; [|split; [|split; [|split; [|split; [|split]]]]]].
    + eapply Hrun; [|reflexivity].
      rbind; [rbind; [apply runs_get_reg; exact Hrp2|]; eapply runs_children_of; [exact T2|exact HG2]|].
      cbn [children]. rewrite Ecount. rdone.
    + lia.
    + exact T2.
    + intros j Hj Hl. rewrite O2 by lia. now apply O1.
    + exists (length ts1), (length pre1). split; [now rewrite S1, S2|exact N2].
    + rewrite (A1 (mk_hnd tid pe)) by apply above_self. rewrite (A2 (mk_hnd tid pe)) by apply above_self.
      cbn [h_tid h_path]. eexists. split; [exact T2|exact HG2].
    + intros g Hg. rewrite A1 by (unfold pe; now apply above_deeper).
      apply A2. unfold pe; now apply above_deeper.
    + split; [apply C1; exact C2|]. split; [exact B1lo|]. split; [exact B1hi|].
      intros g Hg. rewrite A1 by exact Hg. now apply A2.
Qed.

Lemma relation_remove_spec ts rs r tid ri T ppe kd epre epost pre x post cs' ecs' :
  nth_error rs r = Some (Some (mk_hnd tid ((ppe ++ [length epre]) ++ [length pre]))) ->
  nth_error ts tid = Some (mk_slot true ri T) ->
  get_path T ppe = Some (Node kd (epre ++ Node ENTRY (pre ++ x :: post) :: epost)) ->
  relation_remove_cs (pre ++ x :: post) (length pre) = Ok cs' ->
  (if count_if is_relation cs' =? 0
   then entry_remove_cs fixed (epre ++ Node ENTRY cs' :: epost) (length epre)
   else Ok (epre ++ Node ENTRY cs' :: epost)) = Ok ecs' ->
  exists ts' F,
    runs (relation_remove fixed r) (mk_state ts rs) tt (mk_state ts' (map (option_map F) rs)) /\
    length ts <= length ts' /\
    nth_error ts' tid = Some (mk_slot true ri (upd_path T ppe (fun _ => Node kd ecs'))) /\
    (forall j, j <> tid -> j < length ts -> nth_error ts' j = nth_error ts j) /\
    (exists tn rn, F (mk_hnd tid ((ppe ++ [length epre]) ++ [length pre])) = mk_hnd tn [] /\
                   nth_error ts' tn = Some (mk_slot true rn x)) /\
    (exists sl, nth_error ts' (h_tid (F (mk_hnd tid (ppe ++ [length epre])))) = Some sl /\
                get_path (s_tree sl) (h_path (F (mk_hnd tid (ppe ++ [length epre])))) = Some (Node ENTRY cs')) /\
    (forall g, above tid ppe g -> F g = g).
Proof.
  intros Hr HT HGp Hcs Hecs.
  destruct (relation_remove_spec_x ts rs r tid ri T ppe kd epre epost pre x post cs' ecs' Hr HT HGp Hcs Hecs)
    as (ts' & F & R & L & T' & O & S & E & A & _).
  exists ts', F. auto 10.
Qed.

(* [OGetEntry 0 i; OERemoveRel 0 j] on a constructor-built field *)
Lemma l_remove_app_len {A} (a : list A) x b : l_remove (length a) (a ++ x :: b) = a ++ b.
Proof. unfold l_remove. now rewrite firstn_app_len, skipn_S_app_len. Qed.
Lemma l_replace_app_len {A} (a : list A) x y b : l_replace (length a) y (a ++ x :: b) = a ++ y :: b.
Proof. unfold l_replace. now rewrite firstn_app_len, skipn_S_app_len. Qed.

Lemma l_remove_relation_split (fa : lfield) ra r0 rb fb :
  l_remove_relation (length fa) (length ra) (fa ++ (ra ++ r0 :: rb) :: fb) =
  match ra ++ rb with [] => fa ++ fb | e' => fa ++ e' :: fb end.
Proof.
  unfold l_remove_relation. rewrite nth_error_app_len. rewrite l_remove_app_len.
  destruct (ra ++ rb) eqn:E.
  - apply l_remove_app_len.
  - apply l_replace_app_len.
Qed.

Lemma remove_relation_runs fa ra r0 rb fb ts tid ri b c d :
  nth_error ts tid = Some (mk_slot true ri (cfield_tree (fa ++ (ra ++ r0 :: rb) :: fb))) ->
  exists ts' a' b' c' d' x,
    runs (run_op fixed (OERemoveRel 0 (length ra)))
         (st5 ts (mk_hnd tid []) (Some (mk_hnd tid [3 * length fa])) b c d) x
         (st5 ts' (mk_hnd tid []) a' b' c' d') /\
    nth_error ts' tid = Some (mk_slot true ri
      (cfield_tree (l_remove_relation (length fa) (length ra) (fa ++ (ra ++ r0 :: rb) :: fb)))).
Proof.
  intros HT.
  destruct (cfield_children_split fa (ra ++ r0 :: rb) fb) as [Ecs Lpre].
  destruct (centry_children_split ra r0 rb) as [Ercs Lrpre].
  set (T := cfield_tree (fa ++ (ra ++ r0 :: rb) :: fb)) in *.
  set (epre := preE (map centry_tree fa)) in *. set (epost := sepE (map centry_tree fb)) in *.
  set (pre := preR (map crel_tree ra)) in *. set (post := sepR (map crel_tree rb)) in *.
  assert (HGp : get_path T [] = Some (Node ROOT (epre ++ Node ENTRY (pre ++ crel_tree r0 :: post) :: epost))).
  { cbn [get_path]. f_equal. unfold T at 1. unfold cfield_tree, relations_from_entries. f_equal.
    change (join_entries 0 (map centry_tree (fa ++ (ra ++ r0 :: rb) :: fb))) with (children T).
    rewrite Ecs. f_equal. f_equal. unfold centry_tree, entry_from_relations. f_equal.
    unfold centry_tree, entry_from_relations in Ercs. cbn [children] in Ercs. exact Ercs. }
  set (cs' := join_relations fixed 0 (map crel_tree (ra ++ rb))).
  assert (Hcs : relation_remove_cs (pre ++ crel_tree r0 :: post) (length pre) = Ok cs').
  { rewrite <- Ercs, Lrpre. unfold centry_tree, entry_from_relations. cbn [children].
    rewrite relation_remove_cs_canon; [|apply Forall_relationish_map|rewrite map_length, app_length; cbn [length]; lia].
    unfold cs'. rewrite <- map_l_remove. now rewrite l_remove_app_len. }
  assert (Ecount : count_if is_relation cs' = length (ra ++ rb)).
  { unfold cs'. rewrite count_relations_join by apply Forall_relationish_map. apply map_length. }
  assert (Ecs'entry : Node ENTRY cs' = centry_tree (ra ++ rb)) by reflexivity.
  set (ecs' := children (cfield_tree (match ra ++ rb with [] => fa ++ fb | e' => fa ++ e' :: fb end))).
  assert (Hecs : (if count_if is_relation cs' =? 0
                  then entry_remove_cs fixed (epre ++ Node ENTRY cs' :: epost) (length epre)
                  else Ok (epre ++ Node ENTRY cs' :: epost)) = Ok ecs').
  { rewrite Ecount, Ecs'entry. unfold ecs'.
    destruct (cfield_children_split fa (ra ++ rb) fb) as [Ecs2 Lpre2]. fold epre epost in Ecs2, Lpre2.
    destruct (ra ++ rb) as [|y e'] eqn:Eab.
    - cbn [length Nat.eqb]. rewrite <- Ecs2, Lpre2.
      unfold cfield_tree, relations_from_entries. cbn [children].
      rewrite entry_remove_cs_canon; [|apply Forall_entryish_map|rewrite map_length, app_length; cbn [length]; lia].
      rewrite <- map_l_remove. now rewrite l_remove_app_len.
    - cbn [length Nat.eqb]. now rewrite Ecs2. }
  set (rs6 := [Some (mk_hnd tid []); Some (mk_hnd tid ([] ++ [length epre])); b; c; d;
               Some (mk_hnd tid (([] ++ [length epre]) ++ [length pre]))]).
  destruct (relation_remove_spec ts rs6 5 tid ri T [] ROOT epre epost pre (crel_tree r0) post cs' ecs'
              eq_refl HT HGp Hcs Hecs)
    as (ts' & F & R & L & T' & O & (tn & rn & S1 & N1) & (sl & Se1 & Se2) & A).
  destruct (F (mk_hnd tid ([] ++ [length epre]))) as [ht hp] eqn:EF. cbn [h_tid h_path] in Se1, Se2.
  exists ts', (Some (mk_hnd ht hp)), (option_map F b), (option_map F c), (option_map F d).
  eexists. split.
  - cbn [run_op]. change (ereg 0) with 1. unfold through, st5.
    eapply runs_with_reg_some; [reflexivity|].
    rbind.
    { rbind; [|rdone]. unfold entry_remove_relation.
      eapply runs_eq; [apply runs_scoped|reflexivity|].
      + rbind.
        { unfold nth_child_handle. rbind; [apply runs_get_reg; reflexivity|].
          rbind; [eapply runs_children_of; [exact HT|apply get_path_cfield_entry]|]. rdone. }
        rewrite nth_index_rel_centry. cbn [option_map child_h h_tid h_path].
        rewrite <- Lrpre. fold pre. rewrite <- Lpre. fold epre.
        rbind; [apply runs_push_tmp|]. cbn [length app].
        rbind; [exact R|].
        unfold node_of_reg. rbind.
        { rbind; [apply runs_get_reg; unfold rs6; cbn [map nth_error option_map]; rewrite S1; reflexivity|].
          eapply runs_node_of; [exact N1|reflexivity]. }
        rdone.
      + unfold rs6. cbn [map option_map length firstn].
        rewrite (A (mk_hnd tid [])) by apply above_root. rewrite EF. reflexivity. }
    unfold reg_text, node_of_reg.
    rbind.
    { rbind.
      { rbind; [apply runs_get_reg; reflexivity|]. eapply runs_node_of; [exact Se1|exact Se2]. }
      rdone. }
    rdone.
  - rewrite T'. f_equal. f_equal. cbn [upd_path]. rewrite l_remove_relation_split.
    unfold ecs', cfield_tree, relations_from_entries. reflexivity.
Qed.

(* ------------------------------------------------------------------ Relations::from(vec![Entry::from(vec![Relation::new(..)])]) *)
Lemma build_entry_greens_new f : forallb (forallb new_only) f = true -> forall ts rs,
  exists junk, runs (build_entry_greens fixed (map entry_spec f)) (mk_state ts rs)
                    (map centry_tree f) (mk_state (ts ++ junk) rs).
Proof.
  induction f as [|e f IH]; intros H ts rs.
  - exists []. rewrite app_nil_r. apply runs_ret.
  - cbn [forallb] in H. apply andb_prop in H. destruct H as [He Hf].
    destruct (build_relation_greens_new e He ts (rs ++ [Some (mk_hnd 0 [])])) as (junk1 & R1).
    destruct (IH Hf ((ts ++ junk1) ++ [mk_slot true 0 (centry_tree e)]) rs) as (junk2 & R2).
    exists (junk1 ++ mk_slot true 0 (centry_tree e) :: junk2).
    cbn [map build_entry_greens].
    rbind.
    { eapply runs_eq; [apply runs_scoped|reflexivity|].
      - rbind; [apply runs_push_tmp|]. unfold entry_spec at 1. cbn [build_entry].
        rbind; [rbind; [exact R1|]; rbind; [apply runs_alloc|]; apply runs_set_reg|].
        rewrite set_reg_l_app_len.
        unfold node_of_reg. rbind; [apply runs_get_reg; apply nth_error_app_at|].
        eapply runs_node_of; [apply nth_error_app_at|reflexivity].
      - now rewrite firstn_app_len. }
    rbind; [exact R2|]. rewrite <- !app_assoc. cbn [app]. rdone.
Qed.

Lemma init_from_vec f : forallb (forallb new_only) f = true ->
  exists st, init_state fixed (IFromVec (map entry_spec f)) = Ok st /\ holds st (cfield_tree f).
Proof.
  intros H. destruct (build_entry_greens_new f H [] [None; None; None; None; None]) as (junk & R).
  exists (st5 (junk ++ [mk_slot true 0 (cfield_tree f)]) (mk_hnd (length junk) []) None None None None).
  split.
  - unfold init_state, empty_state.
    assert (R' : runs (build_init fixed (IFromVec (map entry_spec f))) (mk_state [] [None; None; None; None; None]) tt
                      (st5 (junk ++ [mk_slot true 0 (cfield_tree f)]) (mk_hnd (length junk) []) None None None None)).
    { cbn [build_init]. rbind; [exact R|]. cbn [app]. rbind; [apply runs_alloc|]. apply runs_set_reg. }
    unfold runs in R'. now rewrite R'.
  - do 7 eexists. split; [reflexivity|]. apply nth_error_app_at.
Qed.
Lemma init_new : exists st, init_state fixed INew = Ok st /\ holds st (cfield_tree []).
Proof.
  eexists. split; [reflexivity|]. now exists [mk_slot true 0 (cfield_tree [])], 0, 0, None, None, None, None.
Qed.

(* ------------------------------------------------------------------ Entry::push and Entry::replace through a fresh handle *)
(* ONewRel 1 (Relation::new): register 4 then holds a new tree *)
Lemma new_rel_runs r ts tid ri T a b c d : new_only r = true ->
  nth_error ts tid = Some (mk_slot true ri T) ->
  exists txt,
    runs (run_op fixed (ONewRel 1 (rel_spec r))) (st5 ts (mk_hnd tid []) a b c d) (4%N, txt)
         (st5 (ts ++ [mk_slot true 0 (crel_tree r)]) (mk_hnd tid []) a b c (Some (mk_hnd (length ts) []))) /\
    length ts <> tid.
Proof.
  intros Hr HT. pose proof (nth_error_Some_lt _ _ _ HT) as Hlt. eexists. split; [|lia].
  cbn [run_op]. rewrite (rel_spec_new _ Hr). rewrite <- (crel_tree_new _ Hr). unfold st5. eapply runs_try_build.
  - cbn [build_relation]. rbind; [apply runs_alloc|]. apply runs_set_reg.
  - change (rreg 1) with 4. cbn [set_reg_l]. unfold reg_text, node_of_reg.
    rbind; [rbind; [apply runs_get_reg; reflexivity|]; eapply runs_node_of; [apply nth_error_app_at|reflexivity]|].
    rdone.
Qed.

Lemma entry_push_plan_pos cs rg : fst (entry_push_plan cs rg) <= length cs.
Proof.
  unfold entry_push_plan. destruct (last_index is_relation cs) as [ci|] eqn:E; cbn [fst]; [|lia].
  clear -E. revert ci E. induction cs as [|x r IH]; intros ci E; [discriminate|]. cbn [last_index] in E.
  destruct (last_index is_relation r) as [j|]; [injection E as <-; specialize (IH j eq_refl); cbn [length]; lia|].
  destruct (is_relation x); [injection E as <-; cbn; lia|discriminate].
Qed.

(* Entry::push through an entry handle into any ROOT, in place: the operand may be a node of any
   tree (a copy is spliced in) *)
Lemma epush_runs_gen k epre ke ecs epost G ts tid ri b c tr pr sl :
  nth_error ts tid = Some (mk_slot true ri (Node k (epre ++ Node ke ecs :: epost))) ->
  nth_error ts tr = Some sl -> get_path (s_tree sl) pr = Some G ->
  exists ts' a' b' c' x,
    runs (run_op fixed (OEPush 0 1))
         (st5 ts (mk_hnd tid []) (Some (mk_hnd tid [length epre])) b c (Some (mk_hnd tr pr))) x
         (st5 ts' (mk_hnd tid []) a' b' c' None) /\
    nth_error ts' tid = Some (mk_slot true ri (Node k (epre ++ entry_push_green (Node ke ecs) G :: epost))).
Proof.
  intros HT HR HGr. set (E := Node ke ecs) in *. set (T := Node k (epre ++ E :: epost)) in *.
  assert (HGe : get_path T [length epre] = Some E) by (cbn [get_path T children]; now rewrite nth_error_app_len).
  pose proof (nth_error_Some_lt _ _ _ HT) as Hlt.
  unfold entry_push_green. cbn [children E]. pose proof (entry_push_plan_pos ecs G) as Hpos.
  destruct (entry_push_plan ecs G) as [pos new] eqn:Epl. cbn [fst] in Hpos.
  set (rs := [Some (mk_hnd tid []); Some (mk_hnd tid [length epre]); b; c; Some (mk_hnd tr pr)]).
  destruct (m_insert_fresh_spec new ts rs 1 tid ri T [length epre] ke ecs pos eq_refl HT HGe Hpos) as (ts' & F & R & L & T' & O & A & B).
  assert (F0 : F (mk_hnd tid []) = mk_hnd tid []) by (apply A; [exact Hlt|apply above_root]).
  assert (F1 : F (mk_hnd tid [length epre]) = mk_hnd tid [length epre]) by (apply A; [exact Hlt|apply above_self]).
  assert (ET : upd_path T [length epre] (fun _ => Node ke (insert_at pos new ecs)) = Node k (epre ++ Node ke (insert_at pos new ecs) :: epost)).
  { unfold T. cbn [upd_path]. now rewrite upd_nth_app_r. }
  rewrite ET in T'.
  exists ts', (Some (mk_hnd tid [length epre])), (option_map F b), (option_map F c). eexists. split.
  - cbn [run_op]. change (rreg 1) with 4. change (ereg 0) with 1. unfold st5. fold rs.
    eapply runs_with_reg_some; [reflexivity|].
    rbind; [apply runs_has_reg|]. cbn [nth_error rs].
    rbind.
    { unfold entry_push. rbind; [apply runs_get_reg; reflexivity|].
      rbind; [eapply runs_node_of; [exact HT|exact HGe]|].
      rbind; [unfold node_of_reg; rbind; [apply runs_get_reg; reflexivity|]; eapply runs_node_of; [exact HR|exact HGr]|].
      cbn [fx_in_place fixed children E]. rewrite Epl.
      rbind; [exact R|]. apply runs_set_reg. }
    unfold rs. cbn [map option_map set_reg_l]. rewrite F0, F1. unfold reg_text, node_of_reg.
    rbind.
    { rbind.
      { rbind; [apply runs_get_reg; reflexivity|]. eapply runs_node_of; [exact T'|].
        cbn [s_tree get_path children]. rewrite nth_error_app_len. reflexivity. }
      rdone. }
    rdone.
  - exact T'.
Qed.

Lemma epush_runs fa e0 fb r ts tid ri b c tr rr :
  nth_error ts tid = Some (mk_slot true ri (cfield_tree (fa ++ e0 :: fb))) ->
  nth_error ts tr = Some (mk_slot true rr (crel_tree r)) ->
  exists ts' a' b' c' x,
    runs (run_op fixed (OEPush 0 1))
         (st5 ts (mk_hnd tid []) (Some (mk_hnd tid [3 * length fa])) b c (Some (mk_hnd tr []))) x
         (st5 ts' (mk_hnd tid []) a' b' c' None) /\
    nth_error ts' tid = Some (mk_slot true ri (cfield_tree (fa ++ (e0 ++ [r]) :: fb))).
Proof.
  intros HT HR. destruct (cfield_children_split fa e0 fb) as [Ecs Lpre].
  set (pre := preE (map centry_tree fa)) in *. set (post := sepE (map centry_tree fb)) in *.
  assert (ET : cfield_tree (fa ++ e0 :: fb) = Node ROOT (pre ++ centry_tree e0 :: post)).
  { unfold cfield_tree, relations_from_entries in *. cbn [children] in Ecs. now rewrite Ecs. }
  rewrite ET in HT. assert (Ece : exists ecs, centry_tree e0 = Node ENTRY ecs) by (eexists; reflexivity).
  destruct Ece as (ecs & Ece). rewrite Ece in HT.
  destruct (epush_runs_gen ROOT pre ENTRY ecs post (crel_tree r) ts tid ri b c tr [] _ HT HR eq_refl) as (ts' & a' & b' & c' & x & R & T').
  exists ts', a', b', c', x. rewrite <- Lpre. split; [exact R|].
  rewrite T', <- Ece, entry_push_green_canon. f_equal. f_equal.
  destruct (cfield_children_split fa (e0 ++ [r]) fb) as [Ecs2 _]. fold pre post in Ecs2.
  unfold cfield_tree, relations_from_entries in *. cbn [children] in Ecs2. now rewrite Ecs2.
Qed.

(* m_splice with nothing to delete and nothing to insert *)
Lemma splice_nil_runs ts rs r tid p sl n lo :
  nth_error rs r = Some (Some (mk_hnd tid p)) -> nth_error ts tid = Some sl -> s_mut sl = true ->
  get_path (s_tree sl) p = Some n ->
  runs (m_splice r lo lo []) (mk_state ts rs) tt (mk_state ts rs).
Proof.
  intros Hr HT Hm HG. unfold m_splice. rbind; [apply runs_get_reg; exact Hr|]. cbn [h_tid].
  rbind; [eapply runs_get_slot; exact HT|]. rewrite Hm. cbn [negb].
  rbind; [eapply runs_children_of; [exact HT|exact HG]|].
  rewrite Nat.ltb_irrefl. cbn [andb]. rbind; [rdone|]. rdone.
Qed.

Lemma ereplace_runs fa ra r0 rb fb r ts tid ri b c tr rr :
  nth_error ts tid = Some (mk_slot true ri (cfield_tree (fa ++ (ra ++ r0 :: rb) :: fb))) ->
  nth_error ts tr = Some (mk_slot true rr (crel_tree r)) -> tid <> tr ->
  exists ts' a' b' c' x,
    runs (run_op fixed (OEReplace 0 (length ra) 1))
         (st5 ts (mk_hnd tid []) (Some (mk_hnd tid [3 * length fa])) b c (Some (mk_hnd tr []))) x
         (st5 ts' (mk_hnd tid []) a' b' c' None) /\
    nth_error ts' tid = Some (mk_slot true ri (cfield_tree (fa ++ (ra ++ r :: rb) :: fb))).
Proof.
  intros HT HR Hne.
  destruct (centry_children_split ra r0 rb) as [Ercs Lrpre].
  set (T := cfield_tree (fa ++ (ra ++ r0 :: rb) :: fb)) in *.
  set (pre := preR (map crel_tree ra)) in *. set (post := sepR (map crel_tree rb)) in *.
  pose proof (get_path_cfield_entry fa (ra ++ r0 :: rb) fb) as HGe. fold T in HGe.
  assert (HG : get_path T [3 * length fa] = Some (Node ENTRY (pre ++ crel_tree r0 :: post))).
  { rewrite HGe. f_equal. unfold centry_tree, entry_from_relations. f_equal.
    unfold centry_tree, entry_from_relations in Ercs. cbn [children] in Ercs. exact Ercs. }
  destruct (crel_no_ws r) as [Wh Wt]. destruct (crel_no_ws r0) as [Wh0 Wt0].
  set (rs6 := [Some (mk_hnd tid []); Some (mk_hnd tid [3 * length fa]); b; c; Some (mk_hnd tr []);
               Some (mk_hnd tid ([3 * length fa] ++ [length pre]))]).
  destruct (splice_replace_spec ts rs6 1 4 tid ri T [3 * length fa] ENTRY pre (crel_tree r0) post tr rr (crel_tree r)
              eq_refl eq_refl HT HG HR Hne) as (ts' & F & R & L & T' & N & O & S1 & S2 & A).
  pose proof (nth_error_Some_lt _ _ _ HT) as Hlt.
  assert (A0 : F (mk_hnd tid []) = mk_hnd tid []) by (apply A; [cbn [h_tid]; auto|apply above_root]).
  assert (A1 : F (mk_hnd tid [3 * length fa]) = mk_hnd tid [3 * length fa]) by (apply A; [cbn [h_tid]; auto|apply above_self]).
  exists ts', (Some (mk_hnd tid [3 * length fa])), (option_map F b), (option_map F c). eexists. split.
  - cbn [run_op]. change (rreg 1) with 4. change (ereg 0) with 1. unfold st5.
    eapply runs_with_reg_some; [reflexivity|].
    rbind; [apply runs_has_reg|]. cbn [nth_error].
    rbind.
    { unfold entry_replace. cbn [fx_replace_ws fixed]. unfold entry_replace_fixed.
      rbind; [|apply runs_set_reg].
      eapply runs_eq; [apply runs_scoped|reflexivity|].
      + rbind; [apply runs_get_reg; reflexivity|].
        rbind; [eapply runs_children_of; [exact HT|exact HGe]|].
        rewrite nth_index_rel_centry. unfold child_h. cbn [h_tid h_path]. rewrite <- Lrpre. fold pre.
        rbind; [apply runs_push_tmp|]. cbn [length app].
        rbind; [rbind; [apply runs_get_reg; reflexivity|]; eapply runs_children_of; [exact HR|reflexivity]|].
        cbn [s_tree]. rewrite Wh. cbn [m_repeat skipn]. rbind; [rdone|]. rewrite Wt. cbn [m_repeat]. rbind; [rdone|].
        rbind; [apply runs_get_reg; reflexivity|].
        assert (HGr : get_path T ([3 * length fa] ++ [length pre]) = Some (crel_tree r0))
          by (eapply get_path_child; [exact HG|apply nth_error_app_len]).
        rbind; [eapply runs_children_of; [exact HT|exact HGr]|].
        unfold ws_head_handles, ws_tail_handles. rewrite Wh0, Wt0. cbn [seq map push_tmps].
        rbind; [rdone|]. rbind; [rdone|].
        rbind; [eapply splice_nil_runs; [reflexivity|exact HR|reflexivity|reflexivity]|].
        rbind; [rbind; [apply runs_get_reg; reflexivity|]; eapply runs_children_of; [exact HR|reflexivity]|].
        cbn [rev]. rbind; [eapply splice_nil_runs; [reflexivity|exact HR|reflexivity|reflexivity]|].
        rbind; [rbind; [apply runs_get_reg; reflexivity|]; unfold index_of;
                change [3 * length fa; length pre] with ([3 * length fa] ++ [length pre]);
                rewrite parent_h_app; rdone|].
        exact R.
      + unfold rs6. cbn [map option_map length firstn]. rewrite A0, A1. reflexivity. }
    cbn [set_reg_l]. unfold reg_text, node_of_reg.
    rbind.
    { rbind.
      { rbind; [apply runs_get_reg; reflexivity|].
        eapply runs_node_of; [exact T'|].
        apply get_path_upd_path with (n := Node ENTRY (pre ++ crel_tree r0 :: post)). exact HG. }
      rdone. }
    rdone.
  - rewrite T'. f_equal. f_equal.
    assert (Ee : Node ENTRY (pre ++ crel_tree r :: post) = centry_tree (ra ++ r :: rb)).
    { destruct (centry_children_split ra r rb) as [E2 _]. fold pre post in E2.
      unfold centry_tree, entry_from_relations in *. cbn [children] in E2. now rewrite E2. }
    rewrite Ee. apply upd_cfield_entry.
Qed.
