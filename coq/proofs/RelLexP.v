(* Relations lexer: partition and totality. *)
From V.model Require Import Base RelLex.
From V.proofs Require Import BaseP.

Definition rttext (ts : list rtoken) : str := concat (map snd ts).

Lemma rlex_step_spec c r t r' :
  rlex_step c r = (t, r') -> snd t ++ r' = c :: r /\ snd t <> [] /\ length r' <= length r.
Proof.
  unfold rlex_step. intros H.
  destruct (single_char_kind c).
  - inversion H; subst. cbn. repeat split; [congruence|lia].
  - destruct (is_rel_ws c).
    + destruct (span is_rel_ws r) as [w rr] eqn:E. inversion H; subst.
      pose proof (span_app _ _ _ _ E). pose proof (span_length _ _ _ _ E). cbn. repeat split; [congruence|congruence|lia].
    + destruct (is_ident_char c).
      * destruct (span is_ident_char r) as [w rr] eqn:E. inversion H; subst.
        pose proof (span_app _ _ _ _ E). pose proof (span_length _ _ _ _ E). cbn. repeat split; [congruence|congruence|lia].
      * inversion H; subst. cbn. repeat split; [congruence|lia].
Qed.

Lemma rlex_go_spec fuel : forall s, length s <= fuel ->
  exists ts, rlex_go fuel s = Ok ts /\ rttext ts = s /\ Forall (fun t => snd t <> []) ts /\ length ts <= length s.
Proof.
  induction fuel as [|f IH]; intros s Hl.
  - destruct s; [|cbn in Hl; lia]. exists []. cbn. repeat split; [constructor|lia].
  - destruct s as [|c r]; [exists []; cbn; repeat split; [constructor|lia]|].
    cbn [rlex_go]. destruct (rlex_step c r) as [t r'] eqn:E.
    apply rlex_step_spec in E. destruct E as (Ha & Hn & Hr).
    destruct (IH r') as (ts & E2 & Ht & Hf & Hc); [cbn in Hl; lia|]. rewrite E2.
    exists (t :: ts). repeat split.
    + unfold rttext in *. cbn. rewrite Ht. exact Ha.
    + constructor; assumption.
    + cbn. lia.
Qed.

Theorem rlex_total_partition s :
  exists ts, rlex s = Ok ts /\ rttext ts = s /\ Forall (fun t => snd t <> []) ts /\ length ts <= length s.
Proof. apply rlex_go_spec. lia. Qed.
