(* C07, the control-file wrappers with the REAL relations branch: the [rel] parameter of
   Deb822Wrap.format_field instantiated with C13's model RelWrap.ctl_rel (parse_relaxed +
   Relations::wrap_and_sort + to_string), on control files whose relationship fields are
   well-formed fields of C10's grammar in C13's safe domain. *)
From V.model Require Import Base Deb822Lex Deb822Parse Grammar Lossy LossySpec Deb822Edit LiveDoc Deb822Wrap WrapSpec.
From V.model Require RelLex RelParse RelAcc RelGrammar RelWrap RelWrapSpec.
From V.proofs Require Import BaseP GrammarLexP GrammarParseP GrammarAccP Deb822EditP LiveDocP LiveParaP Deb822WrapP Deb822WrapInstP.
From V.proofs Require RelGrammarLexP RelWrapP RelWrapGrammarP.
Set Default Timeout 60.

(* ---------------------------------------------------------------- the canonical text is one line *)
Module RelShape.
  Import RelLex RelParse RelAcc RelGrammar RelWrap RelWrapSpec RelGrammarLexP RelWrapGrammarP.
  Notation ne := Grammar.no_eol.

  Lemma ne_app a b : ne (a ++ b) = ne a && ne b.
  Proof. apply forallb_app. Qed.
  Lemma ne_flat_map {A} (f : A -> str) l : (forall x, In x l -> ne (f x) = true) -> ne (flat_map f l) = true.
  Proof.
    induction l as [|x r IH]; intros H; [reflexivity|]. cbn [flat_map]. rewrite ne_app, (H x (or_introl eq_refl)), IH; [reflexivity|].
    intros y Hy. apply H. right. exact Hy.
  Qed.
  Lemma ident_char_ne c : is_ident_char c = true -> negb (Deb822Lex.is_newline c) = true.
  Proof.
    unfold Deb822Lex.is_newline. intros H.
    destruct (c =? 10)%N eqn:E1; [apply N.eqb_eq in E1; subst; discriminate|].
    destruct (c =? 13)%N eqn:E2; [apply N.eqb_eq in E2; subst; discriminate|]. reflexivity.
  Qed.
  Lemma ident_char_not_indent c : is_ident_char c = true -> Deb822Lex.is_indent c = false.
  Proof.
    unfold Deb822Lex.is_indent. intros H.
    destruct (c =? 32)%N eqn:E1; [apply N.eqb_eq in E1; subst; discriminate|].
    destruct (c =? 9)%N eqn:E2; [apply N.eqb_eq in E2; subst; discriminate|]. reflexivity.
  Qed.
  Lemma ne_idents s : forallb is_ident_char s = true -> ne s = true.
  Proof.
    unfold Grammar.no_eol. induction s as [|c r IH]; [reflexivity|]. cbn [forallb]. intros H. apply andb_true_iff in H. destruct H as [H1 H2].
    rewrite (ident_char_ne c H1), (IH H2). reflexivity.
  Qed.
  Lemma ne_ident s : ident_ok s = true -> ne s = true.
  Proof. unfold ident_ok. intros H. apply andb_true_iff in H. apply ne_idents, H. Qed.
  Lemma ne_digits s : forallb is_digit s = true -> ne s = true.
  Proof.
    intros H. apply ne_idents. rewrite forallb_forall in *. intros c Hc. specialize (H c Hc).
    unfold is_ident_char, is_ascii_alnum. unfold is_digit in H. rewrite H. reflexivity.
  Qed.

  Lemma ne_vtext v : vclause_ok v = true -> ne (vtext v) = true.
  Proof.
    intros H. unfold vclause_ok in H. andb_split H. unfold vtext. rewrite !ne_app, (ne_ident (v_ver v)) by assumption.
    assert (Hm : forallb ident_ok (v_more v) = true) by assumption.
    rewrite ne_flat_map.
    - destruct (v_epoch v) as [e|]; [|reflexivity].
      assert (He : epoch_ok e = true) by assumption. unfold epoch_ok in He. andb_split He.
      rewrite ne_app, (ne_digits e) by assumption. reflexivity.
    - intros p Hp. rewrite forallb_forall in Hm. change (ne (58%N :: p)) with (negb (Deb822Lex.is_newline 58%N) && ne p).
      rewrite (ne_ident _ (Hm p Hp)). reflexivity.
  Qed.

  Lemma ne_terms b l : forallb (fun t => ident_ok (t_name t)) l = true -> ne (flat_map term_text (canon_terms b l)) = true.
  Proof.
    revert b. induction l as [|t r IH]; intros b H; [reflexivity|]. cbn [forallb] in H. apply andb_true_iff in H. destruct H as [H1 H2].
    cbn [canon_terms flat_map]. rewrite ne_app, (IH false H2), andb_true_r. unfold term_text. cbn [t_ws t_neg t_name].
    rewrite !ne_app, (ne_ident _ H1). destruct b, (t_neg t); reflexivity.
  Qed.

  Lemma ne_group o c g : negb (Deb822Lex.is_newline o) = true -> negb (Deb822Lex.is_newline c) = true ->
    group_ok g = true -> ne (group_text o c (canon_group g)) = true.
  Proof.
    intros Ho Hc H. unfold group_ok in H. andb_split H. unfold group_text, group_body_text, canon_group. cbn [g_ws0 g_terms g_ws1].
    cbn [app]. change (ne (32%N :: o :: ?x)) with (negb (Deb822Lex.is_newline 32%N) && (negb (Deb822Lex.is_newline o) && ne x)).
    rewrite Ho. cbn [negb andb Deb822Lex.is_newline N.eqb Pos.eqb orb]. rewrite !ne_app, (ne_terms true _ (terms_names_ok _ W0)).
    cbn [app andb]. unfold Grammar.no_eol. cbn [forallb]. rewrite Hc. reflexivity.
  Qed.

  Lemma ne_rel_canon t r : ne t = true -> wf_rel r = true -> ne (rel_text (canon_r t r)) = true.
  Proof.
    intros Ht H. unfold wf_rel in H. andb_split H. unfold rel_text, canon_r. cbn [r_name r_qual r_ver r_archs r_profs r_trail].
    assert (Hq : opt_ok qual_ok (r_qual r) = true) by assumption. assert (Hv : opt_ok vclause_ok (r_ver r) = true) by assumption.
    assert (Ha : opt_ok group_ok (r_archs r) = true) by assumption. assert (Hp : forallb group_ok (r_profs r) = true) by assumption.
    rewrite !ne_app, (ne_ident (r_name r)) by assumption. rewrite Ht, andb_true_r. cbn [andb].
    apply andb_true_iff. split; [|apply andb_true_iff; split; [|apply andb_true_iff; split]].
    - destruct (r_qual r) as [q|]; [|reflexivity]. cbn [option_map opt_text opt_ok] in *. unfold qual_ok in Hq. andb_split Hq.
      unfold qual_text, canon_qual. cbn [q_ws0 q_ws1 q_name app]. change (ne (58%N :: ?x)) with (negb (Deb822Lex.is_newline 58%N) && ne x).
      rewrite (ne_ident (q_name q)) by assumption. reflexivity.
    - destruct (r_ver r) as [v|]; [|reflexivity]. cbn [option_map opt_text opt_ok] in *.
      unfold vclause_text, vbody_text. rewrite vtext_canon. cbn [canon_vclause v_ws0 v_ws1 v_ws2 v_ws3 v_op app].
      change (ne (32%N :: 40%N :: ?x)) with (negb (Deb822Lex.is_newline 32%N) && (negb (Deb822Lex.is_newline 40%N) && ne x)).
      change (32%N :: vtext v ++ [41%N]) with ([32%N] ++ vtext v ++ [41%N]). rewrite !ne_app, (ne_vtext v Hv). destruct (v_op v); reflexivity.
    - destruct (r_archs r) as [g|]; [|reflexivity]. cbn [option_map opt_text opt_ok] in *. apply ne_group; [reflexivity|reflexivity|exact Ha].
    - apply ne_flat_map. intros g Hg. apply in_map_iff in Hg. destruct Hg as (g0 & <- & Hg0). rewrite forallb_forall in Hp.
      apply ne_group; [reflexivity|reflexivity|apply Hp, Hg0].
  Qed.

  Lemma ne_rels_canon l : forall r, Forall (fun x => wf_rel x = true) (r :: l) ->
    ne (rels_text (canon_r (tr l) r) (canon_alts l)) = true.
  Proof.
    induction l as [|r' l IH]; intros r H; inversion H as [|? ? Hr Hl]; subst.
    - cbn [canon_alts rels_text tr]. rewrite app_nil_r. apply ne_rel_canon; [reflexivity|exact Hr].
    - rewrite canon_alts_cons. cbn [rels_text tr]. rewrite ne_app, (ne_rel_canon [32%N] r eq_refl Hr).
      change (ne (124%N :: [32%N] ++ ?x)) with (ne x). apply IH, Hl.
  Qed.

  Lemma ne_item_canon e : entry_wf e -> ne (item_text (canon_item e)) = true /\
    match item_text (canon_item e) with [] => False | c :: _ => Deb822Lex.is_indent c = false end.
  Proof.
    intros [Hne H]. destruct e as [|r l]; [congruence|]. rewrite canon_item_cons. cbn [item_text]. split; [apply ne_rels_canon, H|].
    inversion H as [|? ? Hr _]; subst. unfold wf_rel in Hr. andb_split Hr.
    assert (Hi : ident_ok (r_name r) = true) by assumption. unfold ident_ok in Hi. apply andb_true_iff in Hi. destruct Hi as [Hn Hi].
    assert (Hh : match r_name r with [] => False | c :: _ => Deb822Lex.is_indent c = false end).
    { destruct (r_name r) as [|c s]; [discriminate|]. cbn [forallb] in Hi. apply andb_true_iff in Hi. apply ident_char_not_indent, Hi. }
    assert (E : exists rest, rels_text (canon_r (tr l) r) (canon_alts l) = r_name r ++ rest).
    { destruct (canon_alts l) as [|[w x] al]; cbn [rels_text]; unfold rel_text at 1; cbn [canon_r r_name]; rewrite <- !app_assoc; eexists; reflexivity. }
    destruct E as [rest E]. rewrite E. destruct (r_name r); [contradiction|exact Hh].
  Qed.

  Lemma ne_subst a s : subst_wf a s -> ne (subst_text (fst s) (snd s)) = true.
  Proof.
    intros (_ & H1 & H2). unfold subst_text. change (ne (36%N :: 123%N :: ?x)) with (ne x). rewrite !ne_app, (ne_ident _ H1).
    rewrite ne_flat_map; [reflexivity|]. intros p Hp. rewrite forallb_forall in H2. change (ne (58%N :: p)) with (ne p). apply ne_ident, H2, Hp.
  Qed.

  Lemma ne_join sep l : ne sep = true -> (forall x, In x l -> ne x = true) -> ne (join sep l) = true.
  Proof.
    intros Hs. induction l as [|x r IH]; intros H; [reflexivity|]. destruct r as [|y r']; [apply H; left; reflexivity|].
    change (join sep (x :: y :: r')) with (x ++ sep ++ join sep (y :: r')). rewrite !ne_app, Hs, (H x (or_introl eq_refl)), IH; [reflexivity|].
    intros z Hz. apply H. right. exact Hz.
  Qed.

  Lemma join_head sep x r : match x with [] => False | c :: _ => Deb822Lex.is_indent c = false end ->
    match join sep (x :: r) with [] => False | c :: _ => Deb822Lex.is_indent c = false end.
  Proof. destruct x as [|c s]; [contradiction|]. intros H. destruct r; cbn [join app]; exact H. Qed.

  (* the text wrap_and_sort gives a well-formed field: one line, not starting with a blank *)
  Theorem canon_single_line a f : wf_rfield a f = true ->
    ne (rrender (canon_field f)) = true /\
    match rrender (canon_field f) with [] => True | c :: _ => Deb822Lex.is_indent c = false end.
  Proof.
    intros H. unfold canon_field. rewrite rrender_mk_field, map_app, !map_map.
    pose proof (sorted_rels_wf a f H) as Hr. pose proof (sorted_substs_wf a f H) as Hs. rewrite Forall_forall in Hr, Hs.
    split.
    - apply ne_join; [reflexivity|]. intros x Hx. apply in_app_or in Hx. destruct Hx as [Hx|Hx].
      + apply in_map_iff in Hx. destruct Hx as (e & <- & He). apply (ne_item_canon e (Hr e He)).
      + apply in_map_iff in Hx. destruct Hx as (s & <- & Hs'). cbn [item_text fst snd]. rewrite app_nil_r. apply (ne_subst a s (Hs s Hs')).
    - destruct (sorted_rels f) as [|e es] eqn:Er.
      + cbn [map app]. destruct (sorted_substs f) as [|s ss]; [exact I|]. cbn [map]. 
        assert (Hh : match join [44; 32]%N (item_text (ISubst (fst s) (snd s) []) :: map (fun x => item_text (ISubst (fst x) (snd x) [])) ss)
                     with [] => False | c :: _ => Deb822Lex.is_indent c = false end) by (apply join_head; reflexivity).
        destruct (join _ _); [contradiction|exact Hh].
      + cbn [map app].
        assert (Hh : match join [44; 32]%N (item_text (canon_item e) :: (map (fun x => item_text (canon_item x)) es ++ map (fun x => item_text (ISubst (fst x) (snd x) [])) (sorted_substs f)))
                     with [] => False | c :: _ => Deb822Lex.is_indent c = false end).
        { apply join_head. apply (ne_item_canon e). apply Hr. left. reflexivity. }
        destruct (join _ _); [contradiction|exact Hh].
  Qed.
End RelShape.
