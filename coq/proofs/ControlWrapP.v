(* C07, the control-file wrappers with the REAL relations branch: the [rel] parameter of
   Deb822Wrap.format_field instantiated with C13's model RelWrap.ctl_rel (parse_relaxed +
   Relations::wrap_and_sort + to_string), on control files whose relationship fields are
   well-formed fields of C10's grammar in C13's safe domain. *)
From V.model Require Import Base Deb822Lex Deb822Parse Grammar Lossy LossySpec Deb822Edit LiveDoc Deb822Wrap WrapSpec ControlSpec.
From V.model Require RelLex RelParse RelAcc RelGrammar RelWrap RelWrapSpec.
From V.proofs Require Import BaseP GrammarLexP GrammarParseP GrammarAccP Deb822EditP LiveDocP LiveParaP Deb822WrapP Deb822WrapInstP.
From V.proofs Require RelGrammarLexP RelWrapP RelWrapGrammarP.

(* ---------------------------------------------------------------- the canonical text is one line *)
Module RelShape.
  Import RelLex RelParse RelAcc RelGrammar RelWrap RelWrapSpec RelGrammarLexP RelWrapGrammarP.
  Notation ne := Grammar.no_eol.

  Lemma ne_app a b : ne (a ++ b) = ne a && ne b.
  Proof. apply forallb_app. Qed.
  Lemma ne_flat_map {A} (f : A -> str) l : (forall x, In x l -> ne (f x) = true) -> ne (flat_map f l) = true.
  Proof.
    induction l as [|x r IH]; intros H; [reflexivity|]. cbn [flat_map]. rewrite ne_app, (H x (or_introl eq_refl)), IH; [reflexivity|].
    intros y Hy. apply H. right. exact Hy.
  Qed.
  Lemma ident_char_ne c : is_ident_char c = true -> negb (Deb822Lex.is_newline c) = true.
  Proof.
    unfold Deb822Lex.is_newline. intros H.
    destruct (c =? 10)%N eqn:E1; [apply N.eqb_eq in E1; subst; discriminate|].
    destruct (c =? 13)%N eqn:E2; [apply N.eqb_eq in E2; subst; discriminate|]. reflexivity.
  Qed.
  Lemma ident_char_not_indent c : is_ident_char c = true -> Deb822Lex.is_indent c = false.
  Proof.
    unfold Deb822Lex.is_indent. intros H.
    destruct (c =? 32)%N eqn:E1; [apply N.eqb_eq in E1; subst; discriminate|].
    destruct (c =? 9)%N eqn:E2; [apply N.eqb_eq in E2; subst; discriminate|]. reflexivity.
  Qed.
  Lemma ne_idents s : forallb is_ident_char s = true -> ne s = true.
  Proof.
    unfold Grammar.no_eol. induction s as [|c r IH]; [reflexivity|]. cbn [forallb]. intros H. apply andb_true_iff in H. destruct H as [H1 H2].
    rewrite (ident_char_ne c H1), (IH H2). reflexivity.
  Qed.
  Lemma ne_ident s : ident_ok s = true -> ne s = true.
  Proof. unfold ident_ok. intros H. apply andb_true_iff in H. apply ne_idents, H. Qed.
  Lemma ne_digits s : forallb is_digit s = true -> ne s = true.
  Proof.
    intros H. apply ne_idents. rewrite forallb_forall in *. intros c Hc. specialize (H c Hc).
    unfold is_ident_char, is_ascii_alnum. unfold is_digit in H. rewrite H. reflexivity.
  Qed.

  Lemma ne_vtext v : vclause_ok v = true -> ne (vtext v) = true.
  Proof.
    intros H. unfold vclause_ok in H. andb_split H. unfold vtext. rewrite !ne_app, (ne_ident (v_ver v)) by assumption.
    assert (Hm : forallb ident_ok (v_more v) = true) by assumption.
    rewrite ne_flat_map.
    - destruct (v_epoch v) as [e|]; [|reflexivity].
      assert (He : epoch_ok e = true) by assumption. unfold epoch_ok in He. andb_split He.
      rewrite ne_app, (ne_digits e) by assumption. reflexivity.
    - intros p Hp. rewrite forallb_forall in Hm. change (ne (58%N :: p)) with (negb (Deb822Lex.is_newline 58%N) && ne p).
      rewrite (ne_ident _ (Hm p Hp)). reflexivity.
  Qed.

  Lemma ne_terms b l : forallb (fun t => ident_ok (t_name t)) l = true -> ne (flat_map term_text (canon_terms b l)) = true.
  Proof.
    revert b. induction l as [|t r IH]; intros b H; [reflexivity|]. cbn [forallb] in H. apply andb_true_iff in H. destruct H as [H1 H2].
    cbn [canon_terms flat_map]. rewrite ne_app, (IH false H2), andb_true_r. unfold term_text. cbn [t_ws t_neg t_name].
    rewrite !ne_app, (ne_ident _ H1). destruct b, (t_neg t); reflexivity.
  Qed.

  Lemma ne_group o c g : negb (Deb822Lex.is_newline o) = true -> negb (Deb822Lex.is_newline c) = true ->
    group_ok g = true -> ne (group_text o c (canon_group g)) = true.
  Proof.
    intros Ho Hc H. unfold group_ok in H. andb_split H. unfold group_text, group_body_text, canon_group. cbn [g_ws0 g_terms g_ws1].
    cbn [app]. change (ne (32%N :: o :: ?x)) with (negb (Deb822Lex.is_newline 32%N) && (negb (Deb822Lex.is_newline o) && ne x)).
    rewrite Ho. cbn [negb andb Deb822Lex.is_newline N.eqb Pos.eqb orb]. rewrite !ne_app, (ne_terms true _ (terms_names_ok _ W0)).
    cbn [app andb]. unfold Grammar.no_eol. cbn [forallb]. rewrite Hc. reflexivity.
  Qed.

  Lemma ne_rel_canon t r : ne t = true -> wf_rel r = true -> ne (rel_text (canon_r t r)) = true.
  Proof.
    intros Ht H. unfold wf_rel in H. andb_split H. unfold rel_text, canon_r. cbn [r_name r_qual r_ver r_archs r_profs r_trail].
    assert (Hq : opt_ok qual_ok (r_qual r) = true) by assumption. assert (Hv : opt_ok vclause_ok (r_ver r) = true) by assumption.
    assert (Ha : opt_ok group_ok (r_archs r) = true) by assumption. assert (Hp : forallb group_ok (r_profs r) = true) by assumption.
    rewrite !ne_app, (ne_ident (r_name r)) by assumption. rewrite Ht, andb_true_r. cbn [andb].
    apply andb_true_iff. split; [|apply andb_true_iff; split; [|apply andb_true_iff; split]].
    - destruct (r_qual r) as [q|]; [|reflexivity]. cbn [option_map opt_text opt_ok] in *. unfold qual_ok in Hq. andb_split Hq.
      unfold qual_text, canon_qual. cbn [q_ws0 q_ws1 q_name app]. change (ne (58%N :: ?x)) with (negb (Deb822Lex.is_newline 58%N) && ne x).
      rewrite (ne_ident (q_name q)) by assumption. reflexivity.
    - destruct (r_ver r) as [v|]; [|reflexivity]. cbn [option_map opt_text opt_ok] in *.
      unfold vclause_text, vbody_text. rewrite vtext_canon. cbn [canon_vclause v_ws0 v_ws1 v_ws2 v_ws3 v_op app].
      change (ne (32%N :: 40%N :: ?x)) with (negb (Deb822Lex.is_newline 32%N) && (negb (Deb822Lex.is_newline 40%N) && ne x)).
      change (32%N :: vtext v ++ [41%N]) with ([32%N] ++ vtext v ++ [41%N]). rewrite !ne_app, (ne_vtext v Hv). destruct (v_op v); reflexivity.
    - destruct (r_archs r) as [g|]; [|reflexivity]. cbn [option_map opt_text opt_ok] in *. apply ne_group; [reflexivity|reflexivity|exact Ha].
    - apply ne_flat_map. intros g Hg. apply in_map_iff in Hg. destruct Hg as (g0 & <- & Hg0). rewrite forallb_forall in Hp.
      apply ne_group; [reflexivity|reflexivity|apply Hp, Hg0].
  Qed.

  Lemma ne_rels_canon l : forall r, Forall (fun x => wf_rel x = true) (r :: l) ->
    ne (rels_text (canon_r (tr l) r) (canon_alts l)) = true.
  Proof.
    induction l as [|r' l IH]; intros r H; inversion H as [|? ? Hr Hl]; subst.
    - cbn [canon_alts rels_text tr]. rewrite app_nil_r. apply ne_rel_canon; [reflexivity|exact Hr].
    - rewrite canon_alts_cons. cbn [rels_text tr]. rewrite ne_app, (ne_rel_canon [32%N] r eq_refl Hr).
      change (ne (124%N :: [32%N] ++ ?x)) with (ne x). apply IH, Hl.
  Qed.

  Lemma ne_item_canon e : entry_wf e -> ne (item_text (canon_item e)) = true /\
    match item_text (canon_item e) with [] => False | c :: _ => Deb822Lex.is_indent c = false end.
  Proof.
    intros [Hne H]. destruct e as [|r l]; [congruence|]. rewrite canon_item_cons. cbn [item_text]. split; [apply ne_rels_canon, H|].
    inversion H as [|? ? Hr _]; subst. unfold wf_rel in Hr. andb_split Hr.
    assert (Hi : ident_ok (r_name r) = true) by assumption. unfold ident_ok in Hi. apply andb_true_iff in Hi. destruct Hi as [Hn Hi].
    assert (Hh : match r_name r with [] => False | c :: _ => Deb822Lex.is_indent c = false end).
    { destruct (r_name r) as [|c s]; [discriminate|]. cbn [forallb] in Hi. apply andb_true_iff in Hi. apply ident_char_not_indent, Hi. }
    assert (E : exists rest, rels_text (canon_r (tr l) r) (canon_alts l) = r_name r ++ rest).
    { destruct (canon_alts l) as [|[w x] al]; cbn [rels_text]; unfold rel_text at 1; cbn [canon_r r_name]; rewrite <- !app_assoc; eexists; reflexivity. }
    destruct E as [rest E]. rewrite E. destruct (r_name r); [contradiction|exact Hh].
  Qed.

  Lemma ne_subst a s : subst_wf a s -> ne (subst_text (fst s) (snd s)) = true.
  Proof.
    intros (_ & H1 & H2). unfold subst_text. change (ne (36%N :: 123%N :: ?x)) with (ne x). rewrite !ne_app, (ne_ident _ H1).
    rewrite ne_flat_map; [reflexivity|]. intros p Hp. rewrite forallb_forall in H2. change (ne (58%N :: p)) with (ne p). apply ne_ident, H2, Hp.
  Qed.

  Lemma ne_join sep l : ne sep = true -> (forall x, In x l -> ne x = true) -> ne (join sep l) = true.
  Proof.
    intros Hs. induction l as [|x r IH]; intros H; [reflexivity|]. destruct r as [|y r']; [apply H; left; reflexivity|].
    change (join sep (x :: y :: r')) with (x ++ sep ++ join sep (y :: r')). rewrite !ne_app, Hs, (H x (or_introl eq_refl)), IH; [reflexivity|].
    intros z Hz. apply H. right. exact Hz.
  Qed.

  Lemma join_head sep x r : match x with [] => False | c :: _ => Deb822Lex.is_indent c = false end ->
    match join sep (x :: r) with [] => False | c :: _ => Deb822Lex.is_indent c = false end.
  Proof. destruct x as [|c s]; [contradiction|]. intros H. destruct r; cbn [join app]; exact H. Qed.

  (* the text wrap_and_sort gives a well-formed field: one line, not starting with a blank *)
  Theorem canon_single_line a f : wf_rfield a f = true ->
    ne (rrender (canon_field f)) = true /\
    match rrender (canon_field f) with [] => True | c :: _ => Deb822Lex.is_indent c = false end.
  Proof.
    intros H. unfold canon_field. rewrite rrender_mk_field, map_app, !map_map.
    pose proof (sorted_rels_wf a f H) as Hr. pose proof (sorted_substs_wf a f H) as Hs. rewrite Forall_forall in Hr, Hs.
    split.
    - apply ne_join; [reflexivity|]. intros x Hx. apply in_app_or in Hx. destruct Hx as [Hx|Hx].
      + apply in_map_iff in Hx. destruct Hx as (e & <- & He). apply (ne_item_canon e (Hr e He)).
      + apply in_map_iff in Hx. destruct Hx as (s & <- & Hs'). cbn [item_text fst snd]. rewrite app_nil_r. apply (ne_subst a s (Hs s Hs')).
    - destruct (sorted_rels f) as [|e es] eqn:Er.
      + cbn [map app]. destruct (sorted_substs f) as [|s ss]; [exact I|]. cbn [map]. 
        assert (Hh : match join [44; 32]%N (item_text (ISubst (fst s) (snd s) []) :: map (fun x => item_text (ISubst (fst x) (snd x) [])) ss)
                     with [] => False | c :: _ => Deb822Lex.is_indent c = false end) by (apply join_head; reflexivity).
        destruct (join _ _); [contradiction|exact Hh].
      + cbn [map app].
        assert (Hh : match join [44; 32]%N (item_text (canon_item e) :: (map (fun x => item_text (canon_item x)) es ++ map (fun x => item_text (ISubst (fst x) (snd x) [])) (sorted_substs f)))
                     with [] => False | c :: _ => Deb822Lex.is_indent c = false end).
        { apply join_head. apply (ne_item_canon e). apply Hr. left. reflexivity. }
        destruct (join _ _); [contradiction|exact Hh].
  Qed.
End RelShape.

(* ---------------------------------------------------------------- the relations branch, from C13 *)
Lemma lead_char_fws lead : forallb lead_char lead = true -> RelGrammar.ws_ok lead = true.
Proof. intros H. exact H. Qed.

(* the relations formatter on a well-formed safe field, and on its own output behind blanks / line breaks *)
Theorem real_rel_field rf : RelGrammar.wf_rfield true rf = true -> RelWrapSpec.field_safe rf = true ->
  let o := text (RelWrapGrammarP.ws_tree rf) in
  real_rel (RelGrammar.rrender rf) = Ok o /\
  (forall lead, forallb lead_char lead = true -> real_rel (lead ++ o) = Ok o) /\
  no_eol o = true /\ match o with [] => True | ch :: _ => is_indent ch = false end.
Proof.
  intros Hwf Hs o. destruct (RelWrapGrammarP.ctl_rel_wf rf Hwf Hs) as [E1 E2]. fold o in E1, E2.
  destruct (RelWrapGrammarP.text_ws_tree true rf Hwf) as [_ Et]. fold o in Et.
  pose proof (RelWrapGrammarP.canon_field_wf true rf Hwf) as Hc.
  pose proof (RelWrapGrammarP.field_safe_canon true rf Hwf Hs) as Hsc.
  split; [exact (rel_arm_ok _ _ _ E1)|]. split; [|rewrite Et; apply (RelShape.canon_single_line true rf Hwf)].
  intros lead Hl. set (fc := RelWrapSpec.canon_field rf) in *.
  set (fl := RelGrammar.mk_rfield lead (RelGrammar.f_first fc) (RelGrammar.f_rest fc)).
  assert (Elead : RelGrammar.f_lead fc = []).
  { unfold fc, RelWrapSpec.canon_field, RelWrapSpec.mk_field. destruct (_ ++ _); reflexivity. }
  assert (Er : RelGrammar.rrender fl = lead ++ o).
  { rewrite Et. unfold RelGrammar.rrender, fl. cbn [RelGrammar.f_lead RelGrammar.f_first RelGrammar.f_rest]. rewrite Elead. reflexivity. }
  assert (Hwl : RelGrammar.wf_rfield true fl = true).
  { unfold RelGrammar.wf_rfield in *. cbn [RelGrammar.f_lead RelGrammar.f_first RelGrammar.f_rest fl].
    apply andb_true_iff in Hc. destruct Hc as [Hc1 Hc2]. apply andb_true_iff in Hc1. destruct Hc1 as [_ Hc1].
    rewrite (lead_char_fws lead Hl), Hc1, Hc2. reflexivity. }
  destruct (RelWrapGrammarP.ctl_rel_wf fl Hwl Hsc) as [F1 _]. rewrite Er in F1.
  destruct (RelWrapGrammarP.ctl_rel_wf fc Hc Hsc) as [G1 _]. rewrite <- Et, E2 in G1. injection G1 as G1.
  unfold real_rel. apply rel_arm_ok. rewrite F1. f_equal. change (RelWrapGrammarP.ws_tree fl) with (RelWrapGrammarP.ws_tree fc). symmetry. exact G1.
Qed.


Lemma real_ff_uploaders name v : str_eqb name Lit.k_Uploaders = true -> real_format_field name v = Ok (fmt_uploaders_h v).
Proof. intros H. unfold real_format_field, format_field. rewrite H. reflexivity. Qed.
Lemma real_ff_rel name v : str_eqb name Lit.k_Uploaders = false -> is_rel_field name = true -> real_format_field name v = real_rel v.
Proof. intros H1 H2. unfold real_format_field, format_field. cbn [v_typo fixed]. unfold is_rel_field in H2. rewrite H1, H2. reflexivity. Qed.
Lemma real_ff_other name v : str_eqb name Lit.k_Uploaders = false -> is_rel_field name = false -> real_format_field name v = Ok v.
Proof. intros H1 H2. unfold real_format_field, format_field. cbn [v_typo fixed]. unfold is_rel_field in H2. rewrite H1, H2. reflexivity. Qed.

(* C07-22: a relationship field the relations parser rejects comes back as it is *)
Lemma real_ff_unparsable name v : str_eqb name Lit.k_Uploaders = false -> is_rel_field name = true ->
  RelWrap.ctl_rel RelWrap.fixed v = Panic 20 -> real_format_field name v = Ok v.
Proof. intros H1 H2 H3. rewrite (real_ff_rel name v H1 H2). unfold real_rel. apply rel_arm_kept. exact H3. Qed.

Lemma ctl_total_ok name v o : real_format_field name v = Ok o -> ctl_total name v = o.
Proof. intros H. unfold ctl_total. rewrite H. reflexivity. Qed.

(* ---------------------------------------------------------------- formatters that agree where they are used *)
Lemma res_map_ext_in {A B} (f g : A -> res B) l : (forall x, In x l -> f x = g x) -> res_map f l = res_map g l.
Proof.
  induction l as [|x r IH]; intros H; [reflexivity|]. cbn [res_map]. rewrite (H x (or_introl eq_refl)), IH; [reflexivity|].
  intros y Hy. apply H. right. exact Hy.
Qed.

Lemma entry_ws_agree ind iel mll (F : str -> str -> res str) g f :
  F (f_name f) (field_input f) = Ok (g (f_name f) (field_input f)) ->
  entry_ws fixed ind iel mll (Some F) (field_tree f) = entry_ws fixed ind iel mll (Some (pure_fmt g)) (field_tree f).
Proof.
  intros H. unfold entry_ws. rewrite ews_scan_field. cbn [bind]. destruct (_ =? 0)%N; [reflexivity|].
  rewrite strip_trailing_field. unfold entry_tokens. rewrite no_err_comment_triple, entry_key_field, token_text_triple.
  fold (field_input f). rewrite H. reflexivity.
Qed.

Lemma para_ws_agree c esort (F : str -> str -> res str) g its :
  (forall f, In (IField f) its -> F (f_name f) (field_input f) = Ok (g (f_name f) (field_input f))) ->
  para_ws fixed (c_ind c) (c_iel c) (c_mll c) esort (Some F) (lblock_tree (LPara its))
  = para_ws fixed (c_ind c) (c_iel c) (c_mll c) esort (Some (pure_fmt g)) (lblock_tree (LPara its)).
Proof.
  intros H. unfold para_ws. cbn [lblock_tree children]. change (@nil tree) with (pre_elems []) at 1 3. rewrite !pws_scan_items. cbn [bind app].
  pose proof (group_items_In its []) as HIn. destruct (group_items its []) as [gs tr]. cbn [fst snd] in *.
  set (L := sort_opt (option_map on_snd esort) (map group_tree gs)).
  assert (HL : forall pe, In pe L -> exists g0, In g0 gs /\ pe = group_tree g0).
  { intros pe Hpe. apply sort_opt_In in Hpe. apply in_map_iff in Hpe. destruct Hpe as (g0 & <- & Hg). exists g0. split; [exact Hg|reflexivity]. }
  rewrite (res_map_ext_in _ (fun pe : list tree * tree =>
             bind (res_map emit_token (fst pe)) (fun pre => bind (entry_ws fixed (c_ind c) (c_iel c) (c_mll c) (Some (pure_fmt g)) (snd pe)) (fun e' => Ok (pre ++ [e'])))) L).
  - reflexivity.
  - intros pe Hpe. destruct (HL pe Hpe) as (g0 & Hg0 & ->). unfold group_tree. cbn [fst snd].
    destruct (res_map emit_token (pre_elems (fst g0))); try reflexivity. cbn [bind].
    rewrite (entry_ws_agree _ _ _ F g (snd g0) (H (snd g0) (HIn g0 Hg0))). reflexivity.
Qed.

Lemma dws_emit_agree (p1 p2 : tree -> res tree) ps : (forall pre p, In (pre, p) ps -> p1 p = p2 p) -> forall first,
  dws_emit fixed (Some p1) first ps = dws_emit fixed (Some p2) first ps.
Proof.
  induction ps as [|[pre p] r IH]; intros H first; [reflexivity|]. cbn [dws_emit]. rewrite (H pre p (or_introl eq_refl)).
  destruct (res_map (emit_current fixed) pre); try reflexivity. cbn [bind]. destruct (p2 p); try reflexivity. cbn [bind].
  rewrite (IH (fun pre' p' Hin => H pre' p' (or_intror Hin)) false). reflexivity.
Qed.

Lemma doc_ws_agree psort (p1 p2 : tree -> res tree) l :
  (forall its, In (LPara its) l -> p1 (lblock_tree (LPara its)) = p2 (lblock_tree (LPara its))) ->
  doc_ws fixed psort (Some p1) (ltree_of l) = doc_ws fixed psort (Some p2) (ltree_of l).
Proof.
  intros H. unfold doc_ws, ltree_of. cbn [children]. change (@nil tree) with (map comment_node []) at 1 2. rewrite !dws_scan_blocks. cbn [bind app].
  pose proof (group_blocks_In l []) as HIn. destruct (group_blocks l []) as [gs tr]. cbn [fst snd] in *.
  rewrite (dws_emit_agree p1 p2); [reflexivity|].
  intros pre p Hin. apply sort_opt_In in Hin. apply in_map_iff in Hin. destruct Hin as (g0 & E & Hg). unfold dgroup_tree in E. injection E as _ <-.
  apply H. apply HIn. exact Hg.
Qed.

(* ---------------------------------------------------------------- stability of one field, from local facts *)
Theorem absorbing_stable_local c g f :
  (forall lead, forallb lead_char lead = true -> g (f_name f) (lead ++ g (f_name f) (field_input f)) = g (f_name f) (field_input f)) ->
  match g (f_name f) (field_input f) with [] => True | ch :: _ => lead_char ch = false end ->
  conts_nonempty f = true -> fmt_shaped_on (Some g) f = true ->
  field_stable c (Some g) f /\ fmt_lexes (Some g) (a_ws_field c (Some g) f).
Proof.
  intros Ha Hn Hcn Hs. pose proof (shaped_lexes (Some g) f Hs) as Hl.
  unfold field_input in Ha.
  set (v := value_text (field_ws0 f) (f_first f) (map snd (f_cont f))) in *.
  set (o := g (f_name f) v) in *.
  assert (Hkey : g (f_name f) (value_text (field_ws0 (a_ws_field c (Some g) f)) (f_first (a_ws_field c (Some g) f))
                                   (map snd (f_cont (a_ws_field c (Some g) f)))) = o).
  { unfold a_ws_field. fold v. fold o. unfold field_input in Hn. fold v in Hn. fold o in Hn.
    cbn [fmt_lexes] in Hl. cbv zeta in Hl. fold v in Hl. fold o in Hl.
    destruct (parse_value o) as [[w first] conts] eqn:Ep. destruct Hl as [_ Hne].
    destruct (parse_value_no_lead o w first conts Hn Ep) as [-> Hfirst].
    pose proof (parse_value_text o [] first conts Ep) as Ho. unfold value_text in Ho. cbn [app] in Ho.
    unfold rebuild_field. destruct (fits c (f_name f) [] first && is_nil conts) eqn:Efit.
    - apply andb_true_iff in Efit. destruct Efit as [_ En]. destruct conts; [|discriminate].
      cbn [f_first f_cont f_ws map flat_map] in *. rewrite app_nil_r in Ho.
      replace (field_ws0 (mk_field (f_name f) [] first [] true)) with (@nil N) by (unfold field_ws0; cbn; destruct first; reflexivity).
      unfold value_text. cbn [app flat_map]. rewrite app_nil_r, <- Ho. apply (Ha []). reflexivity.
    - destruct (value_lines first conts) as [|l1 rest] eqn:El.
      + assert (first = [] /\ conts = []) as [-> ->] by (unfold value_lines in El; destruct first; [split; [reflexivity|exact El]|discriminate]).
        cbn [flat_map app] in Ho. unfold field_ws0, value_text. cbn [f_first f_cont f_ws map flat_map app].
        rewrite <- Ho. apply (Ha []). reflexivity.
      + assert (Hl1 : first = l1 /\ conts = rest).
        { unfold value_lines in El. destruct first as [|b first']; [|injection El as <- <-; split; reflexivity].
          destruct (Hfirst eq_refl) as [-> _]. discriminate. }
        destruct Hl1 as [-> ->].
        assert (Hl1ne : l1 <> []) by (apply (value_lines_head_nonempty l1 rest l1 rest Hne El)).
        destruct (c_iel c && negb (is_nil rest) && negb (starts_with_hash l1)).
        * unfold field_ws0, value_text. cbn [f_first f_cont f_ws]. rewrite map_snd_indent.
          replace (match indent_lines (width c (f_name f)) (l1 :: rest) with [] => [] | _ :: _ => @nil N end) with (@nil N) by reflexivity.
          cbn [app flat_map]. change (LF :: l1 ++ flat_map (fun t : str => LF :: t) rest) with ([LF] ++ (l1 ++ flat_map (fun t : str => LF :: t) rest)).
          rewrite <- Ho. apply (Ha [LF]). reflexivity.
        * unfold value_text. cbn [f_first f_cont]. rewrite map_snd_indent.
          replace (field_ws0 (mk_field (f_name f) [32%N] l1 (indent_lines (width c (f_name f)) rest) true)) with [32%N]
            by (unfold field_ws0; cbn [f_first f_cont f_ws]; destruct l1; [contradiction|reflexivity]).
          rewrite <- Ho. apply (Ha [32%N]). reflexivity. }
  assert (Hname : f_name (a_ws_field c (Some g) f) = f_name f).
  { unfold a_ws_field. destruct (parse_value _) as [[w first] conts]. apply rebuild_field_name. }
  split; [split|].
  - unfold a_ws_field at 1. rewrite Hname, Hkey. unfold a_ws_field. fold v. fold o. reflexivity.
  - apply a_ws_field_pair; [exact Hcn|exact Hl].
  - cbn [fmt_lexes]. cbv zeta. rewrite Hname, Hkey. exact Hl.
Qed.

(* ---------------------------------------------------------------- one field of a control file *)
Lemma parse_single_line o : no_eol o = true -> match o with [] => True | ch :: _ => is_indent ch = false end ->
  parse_value o = ([], o, []).
Proof.
  intros Hn Hh. unfold parse_value.
  assert (Es : span is_indent o = ([], o)) by (destruct o as [|ch r]; [reflexivity|]; cbn [span]; rewrite Hh; reflexivity).
  rewrite Es. pose proof (split_lf_lines [] o Hn eq_refl) as E. cbn [flat_map] in E. rewrite app_nil_r in E. rewrite E. reflexivity.
Qed.

Lemma field_input_single c name o : exists lead, forallb lead_char lead = true /\
  field_input (rebuild_field c name [] o []) = lead ++ o.
Proof.
  unfold rebuild_field. destruct (fits c name [] o && is_nil []).
  - exists []. split; [reflexivity|]. unfold field_input, field_ws0, value_text. cbn [f_first f_cont f_ws map flat_map app].
    destruct o; rewrite ?app_nil_r; reflexivity.
  - destruct o as [|ch r].
    + exists []. split; reflexivity.
    + cbn [value_lines is_nil negb andb]. rewrite andb_false_r. exists [32%N]. split; [reflexivity|].
      unfold field_input, field_ws0, value_text. cbn [f_first f_cont f_ws indent_lines map flat_map app]. rewrite app_nil_r. reflexivity.
Qed.

(* a formatter that leaves the fields of this name alone *)
Lemma id_at_name c g f m : (forall v, g (f_name f) v = v) -> wf_field f m = true ->
  a_ws_field c (Some g) f = a_ws_field c None f /\ fmt_shaped_on (Some g) f = true /\ a_value (Some g) f = field_value f.
Proof.
  intros Hid Hwf. destruct (wf_field_parts f m Hwf) as (_ & Hw & Hf & Hc).
  pose proof (parse_value_of_text (field_ws0 f) (f_first f) (map snd (f_cont f)) (ws_ok_field_ws0 f Hw) Hf Hc) as E.
  unfold a_ws_field, fmt_shaped_on, shaped, a_value. rewrite Hid, E. split; [reflexivity|]. split; [|symmetry; apply field_value_lines].
  rewrite Hf, Hc. cbn [andb]. unfold field_ws0. destruct (f_first f); [|reflexivity]. destruct (f_cont f); reflexivity.
Qed.

Lemma id_at_name_stable c g f m : ind_ok c = true -> (forall v, g (f_name f) v = v) -> wf_field f m = true ->
  field_stable c (Some g) f /\ fmt_lexes (Some g) (a_ws_field c (Some g) f).
Proof.
  intros Hi Hid Hwf. destruct (id_at_name c g f m Hid Hwf) as (E & Hs & _).
  pose proof (wf_a_ws_field c None f m true Hi Hwf eq_refl) as HwF.
  assert (HnF : f_name (a_ws_field c None f) = f_name f) by apply rebuild_field_name.
  assert (HidF : forall v, g (f_name (a_ws_field c None f)) v = v) by (intros v; rewrite HnF; apply Hid).
  destruct (id_at_name c g (a_ws_field c None f) true HidF HwF) as (EF & HsF & _).
  destruct (wf_field_ok None f m Hwf eq_refl) as (_ & Hc & _).
  split; [split|].
  - rewrite E, EF. apply a_ws_field_idem_nofmt. exact Hc.
  - apply a_ws_field_pair; [exact Hc|apply shaped_lexes; exact Hs].
  - rewrite E. apply shaped_lexes. exact HsF.
Qed.


Theorem ctl_field_facts c f m : ind_ok c = true -> wf_field f m = true -> ctl_field_ok f -> field_facts c f.
Proof.
  intros Hi Hwf Hok. unfold ctl_field_ok in Hok. unfold field_facts.
  destruct (wf_field_ok None f m Hwf eq_refl) as (_ & Hcn & _).
  destruct (str_eqb (f_name f) Lit.k_Uploaders) eqn:Eu.
  - (* Uploaders *)
    assert (Hg : forall v, ctl_total (f_name f) v = fmt_uploaders_h v) by (intros v; apply ctl_total_ok, real_ff_uploaders, Eu).
    assert (Hs : fmt_shaped_on (Some ctl_total) f = true) by (cbn [fmt_shaped_on]; fold (field_input f); rewrite Hg; exact Hok).
    split; [rewrite Hg; apply real_ff_uploaders, Eu|]. split; [exact Hs|].
    assert (Hst : field_stable c (Some ctl_total) f /\ fmt_lexes (Some ctl_total) (a_ws_field c (Some ctl_total) f)).
    { apply absorbing_stable_local; [| |exact Hcn|exact Hs].
      - intros lead Hl. rewrite !Hg. apply (uploaders_h_absorbing [] (field_input f) lead Hl).
      - rewrite Hg. apply (uploaders_h_no_lead [] (field_input f)). }
    destruct Hst as [H1 H2]. split; [exact H1|]. split; [exact H2|]. split; [rewrite Hg; apply real_ff_uploaders, Eu|discriminate].
  - destruct (is_rel_field (f_name f)) eqn:Er; unfold is_rel_field in Er; rewrite Er in Hok.
    + (* a relationship field *)
      destruct Hok as (rf & Hrw & Hrs & Hin).
      destruct (real_rel_field rf Hrw Hrs) as (R1 & R2 & Rn & Rh). set (o := text (RelWrapGrammarP.ws_tree rf)) in *.
      assert (Hff : forall v, real_format_field (f_name f) v = real_rel v) by (intros v; apply real_ff_rel; [exact Eu|exact Er]).
      assert (Ho : ctl_total (f_name f) (field_input f) = o) by (apply ctl_total_ok; rewrite Hff, Hin; exact R1).
      assert (Hlead : forall lead, forallb lead_char lead = true -> ctl_total (f_name f) (lead ++ o) = o)
        by (intros lead Hl; apply ctl_total_ok; rewrite Hff; apply R2, Hl).
      assert (Hp : parse_value o = ([], o, [])) by (apply parse_single_line; assumption).
      assert (Hs : fmt_shaped_on (Some ctl_total) f = true).
      { cbn [fmt_shaped_on]. fold (field_input f). rewrite Ho. unfold shaped. rewrite Hp. unfold first_ok. rewrite Rn. cbn [andb forallb].
        destruct o as [|ch r]; [reflexivity|]. rewrite Rh. reflexivity. }
      split; [rewrite Ho, Hff, Hin; exact R1|]. split; [exact Hs|].
      assert (Hst : field_stable c (Some ctl_total) f /\ fmt_lexes (Some ctl_total) (a_ws_field c (Some ctl_total) f)).
      { apply absorbing_stable_local; [| |exact Hcn|exact Hs].
        - intros lead Hl. rewrite Ho. apply Hlead, Hl.
        - rewrite Ho. destruct o as [|ch r]; [exact I|]. unfold lead_char. rewrite Rh. cbn [orb].
          unfold no_eol in Rn. cbn [forallb] in Rn. apply andb_true_iff in Rn. destruct Rn as [Rn _]. apply negb_true_iff in Rn.
          unfold is_newline in Rn. apply orb_false_iff in Rn. apply Rn. }
      destruct Hst as [H1 H2]. split; [exact H1|]. split; [exact H2|]. split; [|intros _ Hx; discriminate].
      assert (EF : a_ws_field c (Some ctl_total) f = rebuild_field c (f_name f) [] o []).
      { unfold a_ws_field. fold (field_input f). rewrite Ho, Hp. reflexivity. }
      rewrite EF. destruct (field_input_single c (f_name f) o) as (lead & Hl & E). rewrite E, (Hlead lead Hl), Hff. apply R2, Hl.
    + (* any other field: left as it is *)
      assert (Hg : forall v, ctl_total (f_name f) v = v) by (intros v; apply ctl_total_ok, real_ff_other; [exact Eu|exact Er]).
      destruct (id_at_name c ctl_total f m Hg Hwf) as (E & Hs & Hv).
      destruct (id_at_name_stable c ctl_total f m Hi Hg Hwf) as [H1 H2].
      split; [rewrite Hg; apply real_ff_other; [exact Eu|exact Er]|]. split; [exact Hs|]. split; [exact H1|]. split; [exact H2|].
      split; [rewrite Hg; apply real_ff_other; [exact Eu|exact Er]|intros _ _; exact Hv].
Qed.

(* ---------------------------------------------------------------- Source::wrap_and_sort / Binary::wrap_and_sort *)
Lemma str_eqb_true a b : str_eqb a b = true -> a = b.
Proof.
  unfold str_eqb. revert b. induction a as [|x a IH]; intros b H; destruct b as [|y b]; try discriminate; [reflexivity|].
  cbn [list_eqb] in H. apply andb_true_iff in H. destruct H as [H1 H2]. apply N.eqb_eq in H1. subst y. f_equal. apply IH, H2.
Qed.

Lemma In_a_ws_items0 c ecmp fmt its f : In (IField f) (a_ws_items c ecmp fmt its) ->
  exists f0, In (IField f0) its /\ f = a_ws_field c fmt f0.
Proof.
  unfold a_ws_items. pose proof (group_items_In its []) as HIn. destruct (group_items its []) as [gs tr]. cbn [fst] in HIn.
  intros H. apply In_ungroup in H. destruct H as (g & Hg & ->). apply in_map_iff in Hg. destruct Hg as (g0 & <- & Hg0).
  exists (snd g0). split; [apply HIn; apply (sort_opt_In _ _ _ Hg0)|reflexivity].
Qed.

Lemma a_ws_field_name c fmt f : f_name (a_ws_field c fmt f) = f_name f.
Proof.
  unfold a_ws_field. destruct fmt as [g|]; [|apply rebuild_field_name].
  destruct (parse_value _) as [[w first] conts]. apply rebuild_field_name.
Qed.

Lemma items_facts c its more : ind_ok c = true -> wf_items its more = true -> ctl_items_ok its ->
  forall f, In (IField f) its -> field_facts c f.
Proof.
  intros Hi Hwf Hok f Hf. destruct (wf_items_In its more f Hwf Hf) as [m Hm]. apply (ctl_field_facts c f m Hi Hm (Hok f Hf)).
Qed.

Lemma items_ok_from_facts c its more : wf_items its more = true -> (forall f, In (IField f) its -> field_facts c f) ->
  items_ok (Some ctl_total) its /\ items_shaped (Some ctl_total) its.
Proof.
  intros Hwf Hfa. split; intros f Hf; destruct (Hfa f Hf) as (_ & Hs & _).
  - destruct (wf_items_In its more f Hwf Hf) as [m Hm]. apply (wf_field_ok (Some ctl_total) f m Hm Hs).
  - exact Hs.
Qed.

(* the fields of the reformatted paragraph are again fields the transcription handles, and the
   formatter answers on them *)
Lemma result_items_ok c its more : ind_ok c = true -> wf_items its more = true -> (forall f, In (IField f) its -> field_facts c f) ->
  items_ok (Some ctl_total) (a_ws_items c None (Some ctl_total) its) /\
  (forall f, In (IField f) (a_ws_items c None (Some ctl_total) its) ->
     real_format_field (f_name f) (field_input f) = Ok (ctl_total (f_name f) (field_input f))).
Proof.
  intros Hi Hwf Hfa. destruct (items_ok_from_facts c its more Hwf Hfa) as [Hok _]. split; intros f Hf;
    apply In_a_ws_items0 in Hf; destruct Hf as (f0 & Hf0 & ->); destruct (Hfa f0 Hf0) as (_ & _ & _ & Hl & Hd & _).
  - destruct (Hok f0 Hf0) as (Hn & Hc & Hl0). split; [rewrite a_ws_field_name; exact Hn|]. split; [|exact Hl].
    unfold a_ws_field. cbn [fmt_lexes] in Hl0. cbv zeta in Hl0.
    destruct (parse_value (ctl_total (f_name f0) (value_text (field_ws0 f0) (f_first f0) (map snd (f_cont f0))))) as [[w first] conts].
    apply conts_nonempty_rebuild. apply Hl0.
  - rewrite a_ws_field_name. exact Hd.
Qed.

Theorem real_para_proof c its more : ind_ok c = true -> wf_items its more = true -> ctl_items_ok its ->
  let its1 := a_ws_items c None (Some ctl_total) its in
  real_control_para_ws c (lblock_tree (LPara its)) = Ok (lblock_tree (LPara its1)) /\
  flat_map item_pairs its1 = map (a_pair (Some ctl_total)) (fields_of its) /\
  wf_items its1 more = true /\ items_indented c its1 = true /\
  real_control_para_ws c (lblock_tree (LPara its1)) = Ok (lblock_tree (LPara its1)).
Proof.
  intros Hi Hwf Hok its1. pose proof (items_facts c its more Hi Hwf Hok) as Hfa.
  destruct (items_ok_from_facts c its more Hwf Hfa) as [Hiok Hsh].
  destruct (result_items_ok c its more Hi Hwf Hfa) as [Hiok1 Hag1].
  assert (E1 : real_control_para_ws c (lblock_tree (LPara its)) = Ok (lblock_tree (LPara its1))).
  { unfold real_control_para_ws, control_para_ws. change (format_field fixed (rel_arm fixed (RelWrap.ctl_rel RelWrap.fixed))) with real_format_field.
    rewrite (para_ws_agree c None real_format_field ctl_total its) by (intros f Hf; apply (Hfa f Hf)).
    apply (para_ws_items c None None (Some ctl_total) its Hi I Hiok). }
  split; [exact E1|]. split; [apply (a_ws_items_pairs c None (Some ctl_total) its Hiok)|].
  split; [apply wf_a_ws_items; assumption|]. split; [apply a_ws_items_indented|].
  unfold real_control_para_ws, control_para_ws. change (format_field fixed (rel_arm fixed (RelWrap.ctl_rel RelWrap.fixed))) with real_format_field.
  rewrite (para_ws_agree c None real_format_field ctl_total its1 Hag1).
  change (Some (pure_fmt ctl_total)) with (option_map pure_fmt (Some ctl_total)). cbn [lblock_tree].
  rewrite (para_ws_items c None None (Some ctl_total) its1 Hi I Hiok1). f_equal. f_equal. f_equal. unfold its1.
  apply a_ws_items_idem; [exact I| |intros f g _ _; exact I].
  intros f Hf. apply (Hfa f Hf).
Qed.

(* ---------------------------------------------------------------- Control::wrap_and_sort *)
Lemma spec_get_pairs fmt fs k :
  (forall f, In f fs -> f_name f = k -> a_value fmt f = field_value f) ->
  spec_get (map (a_pair fmt) fs) k = spec_get (map field_pair fs) k.
Proof.
  unfold spec_get. induction fs as [|f r IH]; intros H; [reflexivity|]. cbn [map filter a_pair field_pair fst].
  destruct (str_eqb (f_name f) k) eqn:E.
  - unfold a_pair, field_pair. cbn [snd]. rewrite (H f (or_introl eq_refl) (str_eqb_true _ _ E)). reflexivity.
  - apply IH. intros g Hg. apply H. right. exact Hg.
Qed.

Lemma fields_of_pairs its : flat_map item_pairs its = map field_pair (fields_of its).
Proof. induction its as [|it r IH]; [reflexivity|]. destruct it; cbn [fields_of flat_map item_pairs app map]; [f_equal|]; exact IH. Qed.
Lemma fields_of_In its f : In f (fields_of its) -> In (IField f) its.
Proof.
  unfold fields_of. intros H. apply in_flat_map in H. destruct H as (it & Hit & H). destruct it; [destruct H as [<-|[]]; exact Hit|contradiction].
Qed.

Lemma control_cmp_invariant c its its' :
  (forall f, In (IField f) its -> field_facts c f) -> (forall f, In (IField f) its' -> field_facts c f) ->
  control_cmp (spec_para None (Some ctl_total) its) (spec_para None (Some ctl_total) its')
  = control_cmp (flat_map item_pairs its) (flat_map item_pairs its').
Proof.
  intros H H'. unfold spec_para. cbn [option_map sort_opt]. rewrite !fields_of_pairs.
  assert (E : forall x k, (forall f, In (IField f) x -> field_facts c f) ->
              str_eqb k Lit.k_Uploaders = false -> is_rel_field k = false ->
              spec_get (map (a_pair (Some ctl_total)) (fields_of x)) k = spec_get (map field_pair (fields_of x)) k).
  { intros x k Hx Hu Hr. apply spec_get_pairs. intros f Hf Hn. destruct (Hx f (fields_of_In x f Hf)) as (_ & _ & _ & _ & _ & Hv).
    apply Hv; rewrite Hn; assumption. }
  unfold control_cmp.
  rewrite (E its Lit.k_Source H eq_refl eq_refl), (E its' Lit.k_Source H' eq_refl eq_refl),
          (E its Lit.k_Package H eq_refl eq_refl), (E its' Lit.k_Package H' eq_refl eq_refl). reflexivity.
Qed.

Theorem real_control_proof c d : ind_ok c = true -> wf_doc d = true -> ctl_doc_ok (lift d) ->
  let l1 := a_ws_doc (Some control_cmp) (a_ws_items c None (Some ctl_total)) (lift d) in
  real_control_ws c (tree_of d) = Ok (ltree_of l1) /\
  doc_items (ltree_of l1) = map (fun its => map (a_pair (Some ctl_total)) (fields_of its))
                                (sort_by (on_items control_cmp) (paras_of (lift d))) /\
  (exists t', from_str (text (ltree_of l1)) = Ok t' /\ doc_items t' = doc_items (ltree_of l1)) /\
  doc_indented c l1 = true /\ single_blanks SepStart l1 = true /\
  real_control_ws c (ltree_of l1) = Ok (ltree_of l1).
Proof.
  intros Hi Hwf Hok l1.
  assert (Hl : lwf (lift d) = true) by (apply lwf_lift; exact Hwf).
  assert (Hfa : forall its, In (LPara its) (lift d) -> forall f, In (IField f) its -> field_facts c f).
  { intros its Hin. destruct (lwf_para_wf (lift d) its Hl Hin) as [m Hm]. apply (items_facts c its m Hi Hm (Hok its Hin)). }
  assert (Hsh : doc_shaped (Some ctl_total) (lift d)) by (intros its f Hin Hf; apply (Hfa its Hin f Hf)).
  (* Control::wrap_and_sort is the standard reformatting with the total formatter, on this document ... *)
  assert (E1 : real_control_ws c (tree_of d) = std_ws fixed c (Some control_order) None (Some (pure_fmt ctl_total)) (tree_of d)).
  { unfold real_control_ws, control_ws, std_ws. rewrite <- ltree_of_lift. apply doc_ws_agree. intros its Hin.
    unfold control_para_ws. change (format_field fixed (rel_arm fixed (RelWrap.ctl_rel RelWrap.fixed))) with real_format_field. apply para_ws_agree. intros f Hf. apply (Hfa its Hin f Hf). }
  destruct (formatter_proof c (Some control_order) (Some control_cmp) None None ctl_total d Hi control_order_agrees I Hwf Hsh)
    as (F1 & F2 & F3 & F4 & F5). fold l1 in F1, F2, F3, F4, F5.
  split; [rewrite E1; exact F1|]. split; [exact F2|]. split; [exact F3|]. split; [exact F4|]. split; [exact F5|].
  (* ... and on its result *)
  assert (E2 : real_control_ws c (ltree_of l1) = std_ws fixed c (Some control_order) None (Some (pure_fmt ctl_total)) (ltree_of l1)).
  { unfold real_control_ws, control_ws, std_ws. apply doc_ws_agree. intros x Hx.
    apply (In_a_ws_doc (Some control_cmp)) in Hx. destruct Hx as (its & Hin & ->).
    destruct (lwf_para_wf (lift d) its Hl Hin) as [m Hm].
    destruct (result_items_ok c its m Hi Hm (Hfa its Hin)) as [_ Hag].
    unfold control_para_ws. change (format_field fixed (rel_arm fixed (RelWrap.ctl_rel RelWrap.fixed))) with real_format_field. apply para_ws_agree. intros f Hf.
    apply In_a_ws_items in Hf. destruct Hf as (f0 & Hf0 & ->). rewrite a_ws_field_name.
    destruct (Hfa its Hin f0 Hf0) as (_ & _ & _ & _ & Hd & _). exact Hd. }
  rewrite E2. apply (formatter_idem_proof c (Some control_order) (Some control_cmp) None None ctl_total d Hi control_order_agrees I Hwf Hsh).
  - intros its f Hin Hf. destruct (Hfa its Hin f Hf) as (_ & _ & H1 & H2 & _). split; assumption.
  - exact I.
  - exact control_cmp_consistent.
  - intros its f g _ _ _. exact I.
  - intros a b Ha Hb. apply (control_cmp_invariant c a b (Hfa a Ha) (Hfa b Hb)).
Qed.


Theorem absorbs_on_idem_proof c psort pcmp esort ecmp g d :
  ind_ok c = true -> pcmp_agrees psort pcmp -> ecmp_agrees esort ecmp -> wf_doc d = true ->
  doc_shaped (Some g) (lift d) -> absorbs_on g (lift d) ->
  pair_cmp_consistent ecmp -> para_cmp_consistent pcmp ->
  ecmp_invariant_on ecmp (Some g) (lift d) -> pcmp_invariant_on pcmp ecmp (Some g) (lift d) ->
  let l1 := a_ws_doc pcmp (a_ws_items c ecmp (Some g)) (lift d) in
  std_ws fixed c psort esort (Some (pure_fmt g)) (ltree_of l1) = Ok (ltree_of l1).
Proof.
  intros Hind Hp He Hwf Hsh Ha Hce Hcp Hie Hip.
  assert (Hl : lwf (lift d) = true) by (apply lwf_lift; exact Hwf).
  pose proof (lwf_fields_ok (Some g) (lift d) Hl Hsh) as Hok.
  apply formatter_idem_proof; try assumption.
  intros its f Hi Hf. destruct (Hok its f Hi Hf) as (_ & Hc & _). destruct (Ha its f Hi Hf) as [A1 A2].
  apply absorbing_stable_local; [exact A1|exact A2|exact Hc|apply (Hsh its f Hi Hf)].
Qed.

Lemma bang_not_idempotent :
  doc_shaped (Some WF.bang) (lift WF.d_bang) /\
  exists t1 t2, std_ws fixed WF.c2 None None (Some (pure_fmt WF.bang)) (tree_of WF.d_bang) = Ok t1 /\ text t1 = WF.once /\
                std_ws fixed WF.c2 None None (Some (pure_fmt WF.bang)) t1 = Ok t2 /\ text t2 = WF.twice.
Proof.
  split.
  - intros its f Hin Hf. cbn in Hin. destruct Hin as [E|[]]. injection E as <-. cbn in Hf. destruct Hf as [E|[]]. injection E as <-.
    vm_compute. reflexivity.
  - eexists. eexists. split; [vm_compute; reflexivity|]. split; [vm_compute; reflexivity|]. split; vm_compute; reflexivity.
Qed.

(* ---------------------------------------------------------------- (4) the comparator by name, for token documents *)
From V.proofs Require Import WrapTokP.
Lemma by_name_esort_ok ind iel mll : esort_ok ind iel mll (Some by_name).
Proof.
  split; [intros a b H; unfold by_name in *; apply opt_cmp_consistent; exact H|].
  intros a b Ha Hb. unfold by_name. rewrite !e_out_key by assumption. reflexivity.
Qed.

(* paragraph comparators that look at the fields only (by first value, control order) do not see the
   re-layout when the fields are not sorted: the paragraph step keeps items() as it is *)
From V.proofs Require Import ParseTokP.
Lemma pp_out_items_nosort ind iel mll p : para_ok ind p = true -> items (pp_out ind iel mll None p) = items p.
Proof.
  intros H. destruct p as [|k ps]; [discriminate|]. destruct k; try discriminate. cbn [para_ok] in H.
  unfold pp_out. cbn [children]. rewrite items_ensure_nl_para. destruct (p_out_items ind iel mll None ps H) as [A B].
  rewrite B, A. reflexivity.
Qed.

Lemma by_first_value_psort_ok ind iel mll : psort_ok ind iel mll (Some by_first_value) None.
Proof.
  split; [intros a b H; unfold by_first_value in *; apply opt_cmp_consistent; exact H|].
  intros a b Ha Hb. unfold by_first_value, first_value. rewrite !pp_out_items_nosort by assumption. reflexivity.
Qed.

Lemma control_order_psort_ok ind iel mll : psort_ok ind iel mll (Some control_order) None.
Proof.
  split.
  - intros a b. unfold control_order.
    destruct (is_some (get a Lit.k_Source)), (is_some (get b Lit.k_Source)); cbn [andb negb]; intros H; try discriminate; apply opt_cmp_consistent; exact H.
  - intros a b Ha Hb. unfold control_order. rewrite !GrammarAccP.get_items, !pp_out_items_nosort by assumption. reflexivity.
Qed.
