(* Lemmas about model/Copyright.v (the [fixed] variant unless said otherwise). *)
From V.model Require Import Base Deb822Lex Deb822Parse Glob Copyright CopyrightSpec.
From V.proofs Require Import BaseP Deb822ParseP GlobP.

(* ---------------------------------------------------------------- strings *)
Lemma list_eqb_N_eq (a : str) : forall b, str_eqb a b = true <-> a = b.
Proof.
  unfold str_eqb. induction a as [|x a IH]; intros [|y b]; cbn [list_eqb]; split; intro H;
    try reflexivity; try discriminate.
  - apply andb_true_iff in H. destruct H as [H1 H2]. apply N.eqb_eq in H1. apply IH in H2. congruence.
  - injection H as -> ->. rewrite N.eqb_refl. cbn. apply IH. reflexivity.
Qed.

Lemma str_eqb_refl (a : str) : str_eqb a a = true.
Proof. apply list_eqb_N_eq. reflexivity. Qed.

Lemma opt_str_eqb_eq (o : option str) (b : str) : opt_str_eqb o b = true <-> o = Some b.
Proof.
  destruct o as [a|]; cbn [opt_str_eqb].
  - rewrite list_eqb_N_eq. split; congruence.
  - split; discriminate.
Qed.

Lemma starts_with_iff pre : forall s, starts_with pre s = true <-> exists t, s = pre ++ t.
Proof.
  induction pre as [|c pre IH]; intro s; cbn [starts_with].
  - split; [intros _; exists s; reflexivity|reflexivity].
  - destruct s as [|x s].
    + split; [discriminate|]. intros [t H]. discriminate.
    + rewrite andb_true_iff, N.eqb_eq, IH. split.
      * intros [-> [t ->]]. exists t. reflexivity.
      * intros [t H]. cbn in H. injection H as -> ->. split; [reflexivity|]. exists t. reflexivity.
Qed.

(* ---------------------------------------------------------------- split_whitespace *)
Definition no_ws (w : str) : Prop := forallb (fun c => negb (is_whitespace c)) w = true.

Lemma split_ws_word : forall a acc, no_ws a -> (acc <> [] \/ a <> []) ->
  split_ws acc a = [rev acc ++ a].
Proof.
  induction a as [|c a IH]; intros acc Hn Hne.
  - cbn [split_ws]. destruct acc as [|x acc]; [destruct Hne; congruence|].
    rewrite app_nil_r. reflexivity.
  - unfold no_ws in Hn. cbn [forallb] in Hn. apply andb_true_iff in Hn. destruct Hn as [Hc Hn].
    apply negb_true_iff in Hc. cbn [split_ws]. rewrite Hc.
    rewrite IH; [|exact Hn|left; discriminate].
    cbn [rev]. rewrite <- app_assoc. reflexivity.
Qed.

Lemma split_ws_sep w b : is_whitespace w = true -> forall a acc,
  split_ws acc (a ++ w :: b) = split_ws acc a ++ split_ws [] b.
Proof.
  intro Hw. induction a as [|c a IH]; intro acc.
  - cbn [app split_ws]. rewrite Hw. destruct acc; reflexivity.
  - cbn [app split_ws]. destruct (is_whitespace c).
    + destruct acc; cbn [app]; rewrite IH; reflexivity.
    + apply IH.
Qed.

Lemma split_ws_pieces : forall s acc, no_ws acc ->
  Forall (fun w => w <> [] /\ no_ws w) (split_ws acc s).
Proof.
  assert (Hrev : forall acc x, no_ws (x :: acc) -> rev (x :: acc) <> [] /\ no_ws (rev (x :: acc))).
  { intros acc x H. split.
    - cbn [rev]. intro E. apply app_eq_nil in E. destruct E as [_ E]. discriminate.
    - unfold no_ws in *. rewrite forallb_forall in *. intros c Hc. apply H. apply in_rev. exact Hc. }
  induction s as [|c s IH]; intros acc Ha.
  - cbn [split_ws]. destruct acc as [|x acc]; [constructor|].
    constructor; [apply Hrev; exact Ha|constructor].
  - cbn [split_ws]. destruct (is_whitespace c) eqn:Ec.
    + destruct acc as [|x acc]; [apply IH; reflexivity|].
      constructor; [apply Hrev; exact Ha|apply IH; reflexivity].
    + apply IH. unfold no_ws. cbn [forallb]. rewrite Ec. exact Ha.
Qed.

(* the three equations that determine split_whitespace *)
Lemma split_whitespace_nil : split_whitespace [] = [].
Proof. reflexivity. Qed.
Lemma split_whitespace_word a : a <> [] -> no_ws a -> split_whitespace a = [a].
Proof. intros Hne Hn. unfold split_whitespace. rewrite split_ws_word; auto. Qed.
Lemma split_whitespace_sep a w b : is_whitespace w = true ->
  split_whitespace (a ++ w :: b) = split_whitespace a ++ split_whitespace b.
Proof. intro Hw. unfold split_whitespace. apply split_ws_sep. exact Hw. Qed.
Lemma split_whitespace_pieces s : Forall (fun w => w <> [] /\ no_ws w) (split_whitespace s).
Proof. apply split_ws_pieces. reflexivity. Qed.

(* ---------------------------------------------------------------- paragraphs *)
Lemma has_true p k : has p k = true <-> exists x, pget p k = Some x.
Proof.
  unfold has. destruct (pget p k) as [x|]; split; intro H; try discriminate; eauto.
  destruct H as [x H]. discriminate.
Qed.
Lemma has_false p k : has p k = false <-> pget p k = None.
Proof. unfold has. destruct (pget p k); split; intro H; congruence. Qed.

(* Paragraph::get on the parsed tree is [pget] on its items *)
Lemma get_items (p : tree) (key : str) : Deb822Parse.get p key = pget (items p) key.
Proof.
  unfold Deb822Parse.get, items. induction (entries p) as [|e es IH]; [reflexivity|].
  cbn [filter flat_map]. destruct (entry_key e) as [k|] eqn:Ek; cbn [opt_str_eqb app].
  - cbn [pget]. destruct (str_eqb k key); [reflexivity|exact IH].
  - exact IH.
Qed.

(* ---------------------------------------------------------------- licences *)
Lemma ll_lp_name_fixed p :
  ll_lp_name fixed p = match para_licence p with Some l => lic_name l | None => None end.
Proof.
  unfold ll_lp_name, para_licence, license_of_str. cbn [v_lp_name fixed].
  destruct (pget p k_License) as [x|]; cbn [option_map]; [|reflexivity].
  destruct (split_once_lf x) as [[n t]|]; [|reflexivity]. destruct n; reflexivity.
Qed.

Lemma ll_fp_license_spec p : ll_fp_license p = para_licence p.
Proof. reflexivity. Qed.

Lemma lic_text_none l : lic_text l = None -> exists n, l = LName n.
Proof. destruct l; cbn; intro H; try discriminate. eexists. reflexivity. Qed.

(* ---------------------------------------------------------------- any_match *)
Lemma any_match_valid fs path : Forall (fun g => valid_escapes g = true) fs ->
  any_match true fs path = Ok (existsb (fun g => spec_match g path) fs).
Proof.
  induction 1 as [|g fs V _ IH]; [reflexivity|].
  cbn [any_match existsb]. destruct (glob_correct g V) as [r [_ H]].
  destruct (H path) as [_ ->]. destruct (spec_match g path); [reflexivity|exact IH].
Qed.

Lemma existsb_glob_matches fs path : Forall (fun g => valid_escapes g = true) fs ->
  (existsb (fun g => spec_match g path) fs = true <-> exists g, In g fs /\ glob_matches g path).
Proof.
  intro V. rewrite existsb_exists. rewrite Forall_forall in V. split; intros [g [Hi Hm]]; exists g; split; auto.
  - apply spec_match_iff; auto.
  - apply spec_match_iff; auto.
Qed.

(* any_match only ever answers or panics *)
Lemma any_match_shape d fs path :
  (exists b, any_match d fs path = Ok b) \/ (exists k, any_match d fs path = Panic k).
Proof.
  induction fs as [|g fs IH]; [left; exists false; reflexivity|].
  cbn [any_match]. destruct (glob_match_shape d g path) as [[b E]|[k E]]; rewrite E.
  - destruct b; [left; exists true; reflexivity|exact IH].
  - right. exists k. reflexivity.
Qed.

(* ---------------------------------------------------------------- filter(..).last() *)
Lemma last_match_spec_gen {A} (pred : A -> res bool) (P : A -> Prop) : forall l i acc,
  (forall x, In x l -> exists b, pred x = Ok b /\ (b = true <-> P x)) ->
  exists r, last_match pred l i acc = Ok r /\
    match r with
    | None => acc = None /\ forall x, In x l -> ~ P x
    | Some (j, x) =>
        (acc = Some (j, x) /\ forall y, In y l -> ~ P y) \/
        (exists pre post, l = pre ++ x :: post /\ j = i + length pre /\ P x /\
                          forall y, In y post -> ~ P y)
    end.
Proof.
  induction l as [|x l IH]; intros i acc H.
  - exists acc. split; [reflexivity|]. destruct acc as [[j y]|].
    + left. split; [reflexivity|]. intros y0 [].
    + split; [reflexivity|]. intros y0 [].
  - cbn [last_match]. destruct (H x (or_introl eq_refl)) as [b [Eb Hb]]. rewrite Eb.
    assert (H' : forall y, In y l -> exists b, pred y = Ok b /\ (b = true <-> P y))
      by (intros y Hy; apply H; right; exact Hy).
    destruct b.
    + destruct (IH (S i) (Some (i, x)) H') as [r [Er Hr]]. exists r. split; [exact Er|].
      destruct r as [[j y]|].
      * destruct Hr as [[Ea Hall]|[pre [post [El [Ej [Hp Hpost]]]]]].
        -- injection Ea as <- <-. right. exists [], l. split; [reflexivity|]. split; [cbn; lia|].
           split; [apply Hb; reflexivity|exact Hall].
        -- right. exists (x :: pre), post. subst l. split; [reflexivity|]. split; [cbn; lia|]. auto.
      * destruct Hr as [Ea _]. discriminate.
    + assert (Hx : ~ P x) by (intro Px; apply Hb in Px; discriminate).
      destruct (IH (S i) acc H') as [r [Er Hr]]. exists r. split; [exact Er|].
      destruct r as [[j y]|].
      * destruct Hr as [[Ea Hall]|[pre [post [El [Ej [Hp Hpost]]]]]].
        -- left. split; [exact Ea|]. intros z [<-|Hz]; auto.
        -- right. exists (x :: pre), post. subst l. split; [reflexivity|]. split; [cbn; lia|]. auto.
      * destruct Hr as [Ea Hall]. split; [exact Ea|]. intros z [<-|Hz]; auto.
Qed.

Lemma last_match_spec {A} (pred : A -> res bool) (P : A -> Prop) l :
  (forall x, In x l -> exists b, pred x = Ok b /\ (b = true <-> P x)) ->
  exists r, last_match pred l 0 None = Ok r /\ is_last_such P l r.
Proof.
  intro H. destruct (last_match_spec_gen pred P l 0 None H) as [r [Er Hr]].
  exists r. split; [exact Er|]. unfold is_last_such. destruct r as [[j x]|].
  - destruct Hr as [[Ea _]|[pre [post [El [Ej [Hp Hpost]]]]]]; [discriminate|].
    exists pre, post. cbn in Ej. auto.
  - destruct Hr as [_ Hall]. exact Hall.
Qed.

Lemma find_first_such {A} (f : A -> bool) (P : A -> Prop) : forall l,
  (forall x, In x l -> (f x = true <-> P x)) -> is_first_such P l (find f l).
Proof.
  induction l as [|x l IH]; intro H; cbn [find].
  - intros y [].
  - destruct (f x) eqn:Fx.
    + exists [], l. split; [reflexivity|]. split; [apply H; [left; reflexivity|exact Fx]|]. intros y [].
    + assert (Hx : ~ P x) by (intro Px; apply H in Px; [congruence|left; reflexivity]).
      assert (H' : forall y, In y l -> (f y = true <-> P y)) by (intros y Hy; apply H; right; exact Hy).
      specialize (IH H'). unfold is_first_such in *. destruct (find f l) as [y|].
      * destruct IH as [pre [post [El [Py Hpre]]]]. exists (x :: pre), post. subst l.
        split; [reflexivity|]. split; [exact Py|]. intros z [<-|Hz]; auto.
      * intros z [<-|Hz]; auto.
Qed.

(* two filter-last runs over related lists with pointwise equal predicates *)
Lemma last_match_rel {A B} (pa : A -> res bool) (pb : B -> res bool) (R : A -> B -> Prop) :
  forall la lb, Forall2 R la lb -> (forall a b, R a b -> pa a = pb b) ->
  forall i acca accb,
    match acca, accb with
    | None, None => True
    | Some (j, a), Some (j', b) => j = j' /\ R a b
    | _, _ => False
    end ->
    found_rel R (last_match pa la i acca) (last_match pb lb i accb).
Proof.
  induction 1 as [|a b la lb Rab _ IH]; intros Hp i acca accb Hacc.
  - cbn [last_match found_rel]. destruct acca as [[j x]|], accb as [[j' y]|]; auto.
  - cbn [last_match]. rewrite (Hp a b Rab). destruct (pb b) as [[|]|e|n|]; cbn [found_rel]; auto; apply IH; auto.
Qed.

Lemma find_rel {A B} (fa : A -> bool) (fb : B -> bool) (R : A -> B -> Prop) :
  forall la lb, Forall2 R la lb -> (forall a b, R a b -> fa a = fb b) ->
  match find fa la, find fb lb with
  | None, None => True
  | Some a, Some b => R a b
  | _, _ => False
  end.
Proof.
  induction 1 as [|a b la lb Rab _ IH]; intro Hp; cbn [find]; [exact I|].
  rewrite (Hp a b Rab). destruct (fb b); [exact Rab|apply IH; exact Hp].
Qed.

(* ---------------------------------------------------------------- lossless lookups *)
Lemma ll_iter_files_fixed d : ll_iter_files fixed d = files_paragraphs d.
Proof. reflexivity. Qed.
Lemma ll_iter_licenses_fixed d : ll_iter_licenses fixed d = licence_paragraphs d.
Proof. reflexivity. Qed.

Lemma ll_matches_spec p path : has p k_Files = true ->
  Forall (fun g => valid_escapes g = true) (patterns p) ->
  exists b, ll_matches fixed p path = Ok b /\ (b = true <-> para_matches p path).
Proof.
  intros Hf V. apply has_true in Hf. destruct Hf as [x Ex].
  unfold ll_matches, ll_files, para_matches, patterns in *. rewrite Ex in *. cbn [bind v_dotall fixed].
  rewrite (any_match_valid _ path V). eexists. split; [reflexivity|].
  apply existsb_glob_matches. exact V.
Qed.

Theorem ll_find_files_last d path : doc_valid d ->
  exists r, ll_find_files fixed d path = Ok r /\
            is_last_such (fun p => para_matches p path) (files_paragraphs d) r.
Proof.
  intro V. unfold ll_find_files. change (ll_iter_files fixed d) with (files_paragraphs d).
  apply last_match_spec. intros p Hp. apply ll_matches_spec.
  - unfold files_paragraphs in Hp. apply filter_In in Hp. tauto.
  - apply Forall_forall. intros g Hg. exact (V p g Hp Hg).
Qed.

Lemma named_iff n p : opt_str_eqb (ll_lp_name fixed p) n = true <-> named n p.
Proof.
  rewrite opt_str_eqb_eq, ll_lp_name_fixed. unfold named. destruct (para_licence p) as [l|].
  - split; [intro H; exists l; auto|]. intros [l' [E H]]. injection E as <-. exact H.
  - split; [discriminate|]. intros [l' [E _]]. discriminate.
Qed.

Theorem ll_find_license_by_name_first d n :
  exists q, is_first_such (named n) (licence_paragraphs d) q /\
    ll_find_license_by_name fixed d n =
      Ok (match q with Some q' => para_licence q' | None => None end).
Proof.
  unfold ll_find_license_by_name. change (ll_iter_licenses fixed d) with (licence_paragraphs d).
  pose proof (find_first_such (fun p => opt_str_eqb (ll_lp_name fixed p) n) (named n)
                (licence_paragraphs d) (fun p _ => named_iff n p)) as F.
  exists (find (fun p => opt_str_eqb (ll_lp_name fixed p) n) (licence_paragraphs d)).
  split; [exact F|].
  destruct (find _ (licence_paragraphs d)) as [q|] eqn:Eq; [|reflexivity].
  apply find_some in Eq. destruct Eq as [Hin _].
  unfold licence_paragraphs in Hin. apply filter_In in Hin. destruct Hin as [_ Hl].
  apply andb_true_iff in Hl. destruct Hl as [_ Hl]. apply has_true in Hl. destruct Hl as [x Ex].
  unfold ll_lp_license, para_licence. rewrite Ex. reflexivity.
Qed.

Theorem ll_license_rule d path : doc_valid d ->
  exists r ans, ll_find_files fixed d path = Ok r /\
                is_last_such (fun p => para_matches p path) (files_paragraphs d) r /\
                ll_find_license_for_file fixed d path = Ok ans /\
                licence_answer d r ans.
Proof.
  intro V. destruct (ll_find_files_last d path V) as [r [Er Hr]].
  exists r. unfold ll_find_license_for_file. rewrite Er. cbn [bind].
  destruct r as [[j p]|]; cbn [licence_answer]; [|exists None; auto].
  rewrite ll_fp_license_spec.
  destruct (para_licence p) as [own|] eqn:Eo; [|exists None; auto].
  destruct (lic_text own) as [t|] eqn:Et.
  - exists (Some own). auto.
  - destruct (lic_text_none own Et) as [n ->]. cbn [lic_name].
    destruct (ll_find_license_by_name_first d n) as [q [Fq Eq]].
    eexists. split; [reflexivity|]. split; [exact Hr|]. split; [exact Eq|]. exists n, q. auto.
Qed.

(* ---------------------------------------------------------------- lossy reader *)

Lemma ly_body_rel v : forall body fl, ly_body v body = Ok fl ->
  Forall2 (files_conv v) (filter (fun p => has p k_Files) body) (fst fl) /\
  Forall2 licence_conv (filter (fun p => negb (has p k_Files) && has p k_License) body) (snd fl).
Proof.
  induction body as [|p body IH]; intros fl E.
  - cbn in E. injection E as <-. split; constructor.
  - cbn [ly_body] in E. cbn [filter].
    destruct (pget p k_Files) as [x|] eqn:Ef.
    + assert (Hf : has p k_Files = true) by (unfold has; rewrite Ef; reflexivity).
      rewrite Hf. cbn [negb andb].
      destruct (ly_files_para v p) as [fp| | |] eqn:Efp; cbn [bind] in E; try discriminate.
      destruct (ly_body v body) as [fl'| | |] eqn:Eb; cbn [bind] in E; try discriminate.
      injection E as <-. destruct (IH fl' eq_refl) as [H1 H2]. cbn [fst snd]. split; [|exact H2].
      constructor; [exact Efp|exact H1].
    + assert (Hf : has p k_Files = false) by (unfold has; rewrite Ef; reflexivity).
      rewrite Hf. cbn [negb andb].
      destruct (pget p k_License) as [y|] eqn:El; [|discriminate].
      assert (Hl : has p k_License = true) by (unfold has; rewrite El; reflexivity).
      rewrite Hl.
      destruct (ly_license_para p) as [lp| | |] eqn:Elp; cbn [bind] in E; try discriminate.
      destruct (ly_body v body) as [fl'| | |] eqn:Eb; cbn [bind] in E; try discriminate.
      injection E as <-. destruct (IH fl' eq_refl) as [H1 H2]. cbn [fst snd]. split; [exact H1|].
      constructor; [exact Elp|exact H2].
Qed.

Lemma ly_of_doc_rel v d c : ly_of_doc v d = Ok c ->
  Forall2 (files_conv v) (filter (fun p => has p k_Files) (tl d)) (c_files c) /\
  Forall2 licence_conv (filter (fun p => negb (has p k_Files) && has p k_License) (tl d)) (c_licenses c).
Proof.
  unfold ly_of_doc. destruct d as [|h body]; [discriminate|].
  destruct (ly_header v h) as [hd| | |]; cbn [bind]; try discriminate.
  destruct (ly_body v body) as [fl| | |] eqn:Eb; cbn [bind]; try discriminate.
  intro E. injection E as <-. cbn [tl c_files c_licenses]. apply ly_body_rel. exact Eb.
Qed.

Lemma files_conv_inv v p fp : files_conv v p fp ->
  exists fl li co, pget p k_Files = Some fl /\ pget p k_License = Some li /\ pget p k_Copyright = Some co /\
    fp = mk_lfiles (ly_file_list v fl) (license_of_str li) (split_lf co) (pget p k_Comment).
Proof.
  unfold files_conv, ly_files_para, req.
  destruct (pget p k_Files) as [fl|]; cbn [bind]; [|discriminate].
  destruct (pget p k_License) as [li|]; cbn [bind]; [|discriminate].
  destruct (pget p k_Copyright) as [co|]; cbn [bind]; [|discriminate].
  intro E. injection E as <-. exists fl, li, co. auto.
Qed.

Lemma licence_conv_inv p lp : licence_conv p lp ->
  exists li, pget p k_License = Some li /\ lp = mk_llicense (license_of_str li) (pget p k_Comment).
Proof.
  unfold licence_conv, ly_license_para, req.
  destruct (pget p k_License) as [li|]; cbn [bind]; [|discriminate].
  intro E. injection E as <-. exists li. auto.
Qed.

Lemma matches_agree p fp path : files_conv fixed p fp ->
  ll_matches fixed p path = ly_matches fixed fp path.
Proof.
  intro H. destruct (files_conv_inv _ _ _ H) as [fl [li [co [Ef [_ [_ ->]]]]]].
  unfold ll_matches, ly_matches, ll_files. rewrite Ef. reflexivity.
Qed.

Theorem find_files_agree d c path : ly_of_doc fixed d = Ok c ->
  found_rel (files_conv fixed) (ll_find_files fixed d path) (ly_find_files fixed c path).
Proof.
  intro E. destruct (ly_of_doc_rel _ _ _ E) as [HF _].
  unfold ll_find_files, ly_find_files. apply last_match_rel; [exact HF| |exact I].
  intros p fp R. apply matches_agree. exact R.
Qed.

Theorem find_license_by_name_agree d c n : ly_of_doc fixed d = Ok c ->
  ll_find_license_by_name fixed d n = Ok (ly_find_license_by_name c n).
Proof.
  intro E. destruct (ly_of_doc_rel _ _ _ E) as [_ HL].
  unfold ll_find_license_by_name, ly_find_license_by_name.
  pose proof (find_rel (fun p => opt_str_eqb (ll_lp_name fixed p) n)
                       (fun lp => opt_str_eqb (lic_name (lp_license lp)) n) licence_conv _ _ HL) as F.
  assert (Hp : forall a b, licence_conv a b ->
            opt_str_eqb (ll_lp_name fixed a) n = opt_str_eqb (lic_name (lp_license b)) n).
  { intros a b R. destruct (licence_conv_inv _ _ R) as [li [El ->]].
    rewrite ll_lp_name_fixed. unfold para_licence. rewrite El. reflexivity. }
  specialize (F Hp). unfold ll_iter_licenses. cbn [v_skip_header fixed ll_body].
  destruct (find _ (filter _ (tl d))) as [q|]; destruct (find _ (c_licenses c)) as [lp|]; try contradiction.
  - destruct (licence_conv_inv _ _ F) as [li [El ->]].
    unfold ll_lp_license. rewrite El. reflexivity.
  - reflexivity.
Qed.

Theorem find_license_for_file_agree d c path : ly_of_doc fixed d = Ok c ->
  ll_find_license_for_file fixed d path = ly_find_license_for_file fixed c path.
Proof.
  intro E. pose proof (find_files_agree d c path E) as F.
  unfold ll_find_license_for_file, ly_find_license_for_file.
  destruct (ll_find_files fixed d path) as [[[i p]|]|e|n|];
    destruct (ly_find_files fixed c path) as [[[j fp]|]|e'|n'|]; cbn [found_rel] in F; try contradiction;
    cbn [bind]; try reflexivity; try congruence.
  destruct F as [_ R]. destruct (files_conv_inv _ _ _ R) as [fl [li [co [_ [El [_ ->]]]]]].
  unfold ll_fp_license. rewrite El. cbn [option_map lf_license].
  destruct (lic_text (license_of_str li)) as [t|] eqn:Et; [reflexivity|].
  destruct (lic_text_none _ Et) as [n ->]. cbn [lic_name].
  apply find_license_by_name_agree. exact E.
Qed.

Theorem wf_doc_accepted v d : wf_doc d -> exists c, ly_of_doc v d = Ok c.
Proof.
  destruct d as [|h body]; [intros []|]. intros [Hh Hb].
  unfold ly_of_doc, ly_header, req. apply has_true in Hh. destruct Hh as [f Ef]. rewrite Ef. cbn [bind].
  assert (Hbody : exists fl, ly_body v body = Ok fl).
  { induction body as [|p body IH]; [eexists; reflexivity|].
    cbn [forallb] in Hb. apply andb_true_iff in Hb. destruct Hb as [Hp Hb].
    destruct (IH Hb) as [fl Efl]. cbn [ly_body]. unfold wf_body_para in Hp.
    apply orb_true_iff in Hp. destruct Hp as [Hp|Hp].
    - apply andb_true_iff in Hp. destruct Hp as [Hp Hc]. apply andb_true_iff in Hp. destruct Hp as [Hf Hl].
      apply has_true in Hf, Hl, Hc. destruct Hf as [x Ex], Hl as [y Ey], Hc as [z Ez].
      rewrite Ex. unfold ly_files_para, req. rewrite Ex, Ey, Ez. cbn [bind]. rewrite Efl. cbn [bind].
      eexists. reflexivity.
    - apply andb_true_iff in Hp. destruct Hp as [Hf Hl]. apply negb_true_iff in Hf. apply has_false in Hf.
      apply has_true in Hl. destruct Hl as [y Ey]. rewrite Hf, Ey.
      unfold ly_license_para, req. rewrite Ey. cbn [bind]. rewrite Efl. cbn [bind]. eexists. reflexivity. }
  destruct Hbody as [fl Efl]. rewrite Efl. cbn [bind]. eexists. reflexivity.
Qed.

(* the lossy reader's own "last match wins", directly on its paragraphs *)
Theorem ly_find_files_last c path :
  Forall (fun fp => Forall (fun g => valid_escapes g = true) (lf_files fp)) (c_files c) ->
  exists r, ly_find_files fixed c path = Ok r /\
    is_last_such (fun fp => exists g, In g (lf_files fp) /\ glob_matches g path) (c_files c) r.
Proof.
  intro V. unfold ly_find_files. apply last_match_spec. intros fp Hfp.
  rewrite Forall_forall in V. specialize (V fp Hfp).
  unfold ly_matches. cbn [v_dotall fixed]. rewrite (any_match_valid _ path V).
  eexists. split; [reflexivity|]. apply existsb_glob_matches. exact V.
Qed.

(* ---------------------------------------------------------------- text entry points *)
Theorem format_gate_refuses v s : format_gate s = false ->
  ll_from_str s = Err 2%N /\ ll_from_str_relaxed s = Err 2%N /\ ly_from_str v s = Err 2%N.
Proof.
  intro G. unfold ll_from_str, ll_from_str_relaxed, ly_from_str. rewrite G. cbn [negb]. auto.
Qed.

Lemma ly_of_doc_not_nmr v d : ly_of_doc v d <> Err 2%N.
Proof.
  assert (Hb : forall body, ly_body v body <> Err 2%N).
  { induction body as [|p body IH]; [discriminate|]. cbn [ly_body].
    destruct (pget p k_Files) eqn:Ef.
    - unfold ly_files_para, req. rewrite Ef. cbn [bind].
      destruct (pget p k_License); cbn [bind]; [|discriminate].
      destruct (pget p k_Copyright); cbn [bind]; [|discriminate].
      destruct (ly_body v body) as [fl|e| |]; cbn [bind]; try discriminate. congruence.
    - destruct (pget p k_License) eqn:El; [|discriminate].
      unfold ly_license_para, req. rewrite El. cbn [bind].
      destruct (ly_body v body) as [fl|e| |]; cbn [bind]; try discriminate. congruence. }
  unfold ly_of_doc, ly_header, req. destruct d as [|h body]; [discriminate|].
  destruct (pget h k_Format); cbn [bind]; [|discriminate].
  specialize (Hb body). destruct (ly_body v body) as [fl|e| |]; cbn [bind]; try discriminate. congruence.
Qed.

Theorem format_gate_accepts v s : format_gate s = true ->
  (exists t, Deb822Parse.from_str s = Ok t /\ ll_from_str s = Ok (doc_items t) /\
             ly_from_str v s = ly_of_doc v (doc_items t) /\
             ll_from_str_relaxed s = Ok (doc_items t, 0)) \/
  (Deb822Parse.from_str s = Err 1%N /\ ll_from_str s = Err 1%N /\ ly_from_str v s = Err 1%N /\
   exists t n, n <> 0 /\ ll_from_str_relaxed s = Ok (doc_items t, n)).
Proof.
  intro G. unfold ll_from_str, ll_from_str_relaxed, ly_from_str. rewrite G. cbn [negb].
  destruct (C01_all s) as [t [n [Er [_ [H0 Hn]]]]]. rewrite Er. destruct n as [|n].
  - left. exists t. rewrite (H0 eq_refl). auto.
  - right. rewrite (Hn (Nat.neq_succ_0 n)). repeat split; auto. exists t, (S n). auto.
Qed.

Theorem not_machine_readable_iff v s :
  (ll_from_str s = Err 2%N <-> format_gate s = false) /\
  (ll_from_str_relaxed s = Err 2%N <-> format_gate s = false) /\
  (ly_from_str v s = Err 2%N <-> format_gate s = false).
Proof.
  destruct (format_gate s) eqn:G.
  - destruct (format_gate_accepts v s G) as [[t [_ [E1 [E2 E3]]]]|[_ [E1 [E2 [t [n [_ E3]]]]]]];
      rewrite E1, E2, E3; repeat split; intro H; try discriminate.
    exfalso. exact (ly_of_doc_not_nmr v _ H).
  - destruct (format_gate_refuses v s G) as [E1 [E2 E3]]. rewrite E1, E2, E3. repeat split; auto.
Qed.

(* ---------------------------------------------------------------- the property, assembled *)
Lemma glob_clause_fixed : glob_clause true.
Proof.
  intros g V p. destruct (glob_correct g V) as [r [_ H]]. destruct (H p) as [_ E].
  exists (spec_match g p). split; [exact E|]. apply spec_match_iff. exact V.
Qed.

Lemma lookup_clause_fixed : lookup_clause fixed.
Proof. intros d path V. apply ll_license_rule. exact V. Qed.

Lemma agree_clause_fixed : agree_clause fixed.
Proof.
  intros d c E path. split; [apply find_files_agree; exact E|].
  split; [apply find_license_for_file_agree; exact E|].
  intro n. apply find_license_by_name_agree. exact E.
Qed.

Lemma gate_clause_any v : gate_clause v.
Proof. intro s. apply not_machine_readable_iff. Qed.

Theorem C17_all : C17_full fixed.
Proof.
  split; [exact glob_clause_fixed|]. split; [exact lookup_clause_fixed|].
  split; [exact agree_clause_fixed|]. split; [exact (wf_doc_accepted fixed)|exact (gate_clause_any fixed)].
Qed.

(* ---------------------------------------------------------------- totality (any variant, any document) *)
Definition ok_or_panic {A} (r : res A) : Prop := (exists a, r = Ok a) \/ (exists k, r = Panic k).

Lemma last_match_shape {A} (pred : A -> res bool) : forall l,
  (forall x, In x l -> ok_or_panic (pred x)) ->
  forall i acc, ok_or_panic (last_match pred l i acc).
Proof.
  induction l as [|x l IH]; intros H i acc; cbn [last_match].
  - left. eexists. reflexivity.
  - assert (H' : forall y, In y l -> ok_or_panic (pred y)) by (intros y Hy; apply H; right; exact Hy).
    destruct (H x (or_introl eq_refl)) as [[b E]|[k E]]; rewrite E.
    + destruct b; apply IH; exact H'.
    + right. eexists. reflexivity.
Qed.

Lemma ll_iter_files_has v d p : In p (ll_iter_files v d) -> has p k_Files = true.
Proof. unfold ll_iter_files. intro H. apply filter_In in H. tauto. Qed.
Lemma ll_iter_licenses_has v d p : In p (ll_iter_licenses v d) -> has p k_License = true.
Proof.
  unfold ll_iter_licenses. intro H. apply filter_In in H. destruct H as [_ H].
  apply andb_true_iff in H. tauto.
Qed.

Lemma ll_find_files_shape v d path : ok_or_panic (ll_find_files v d path).
Proof.
  unfold ll_find_files. apply last_match_shape. intros p Hp.
  apply ll_iter_files_has in Hp. apply has_true in Hp. destruct Hp as [x Ex].
  unfold ll_matches, ll_files. rewrite Ex. cbn [bind]. apply any_match_shape.
Qed.

Lemma ll_find_license_by_name_ok v d n : exists a, ll_find_license_by_name v d n = Ok a.
Proof.
  unfold ll_find_license_by_name.
  destruct (find _ (ll_iter_licenses v d)) as [q|] eqn:Eq; [|eexists; reflexivity].
  apply find_some in Eq. destruct Eq as [Hin _]. apply ll_iter_licenses_has in Hin.
  apply has_true in Hin. destruct Hin as [x Ex]. unfold ll_lp_license. rewrite Ex. eexists. reflexivity.
Qed.

Lemma ll_find_license_for_file_shape v d path : ok_or_panic (ll_find_license_for_file v d path).
Proof.
  unfold ll_find_license_for_file.
  destruct (ll_find_files_shape v d path) as [[r E]|[k E]]; rewrite E; cbn [bind];
    [|right; eexists; reflexivity].
  destruct r as [[j p]|]; [|left; eexists; reflexivity].
  destruct (ll_fp_license p) as [l|]; [|left; eexists; reflexivity].
  destruct (lic_text l); [left; eexists; reflexivity|].
  destruct (lic_name l) as [n|]; [|left; eexists; reflexivity].
  left. apply ll_find_license_by_name_ok.
Qed.

Lemma ly_find_files_shape v c path : ok_or_panic (ly_find_files v c path).
Proof.
  unfold ly_find_files. apply last_match_shape. intros fp _. unfold ly_matches. apply any_match_shape.
Qed.

Lemma ly_find_license_for_file_shape v c path :
  ok_or_panic (ly_find_license_for_file v c path) /\ ly_find_license_for_file v c path <> Panic 12%N.
Proof.
  unfold ly_find_license_for_file.
  destruct (ly_find_files_shape v c path) as [[r E]|[k E]]; rewrite E; cbn [bind].
  - destruct r as [[j fp]|]; [|split; [left; eexists; reflexivity|discriminate]].
    destruct (lf_license fp); cbn [lic_text lic_name]; (split; [left; eexists; reflexivity|discriminate]).
  - split; [right; eexists; reflexivity|].
    (* the only panics find_files can propagate are those of glob_to_regex: sites 1 and 2 *)
    intro H. injection H as ->.
    unfold ly_find_files in E. clear -E.
    revert E. generalize 0 (@None (nat * lfiles)). induction (c_files c) as [|fp l IH]; intros i acc E.
    + discriminate.
    + cbn [last_match] in E. destruct (ly_matches v fp path) as [[|]| |k|] eqn:Em; try discriminate.
      * exact (IH _ _ E).
      * exact (IH _ _ E).
      * injection E as ->. unfold ly_matches in Em. clear -Em.
        induction (lf_files fp) as [|g fs IHf]; [discriminate|].
        cbn [any_match] in Em. unfold glob_match in Em.
        destruct (glob_to_regex g) as [r| |k|] eqn:Eg; cbn [bind] in Em.
        -- destruct (rmatch (v_dotall v) r path); [discriminate|exact (IHf Em)].
        -- discriminate.
        -- injection Em as ->. clear -Eg.
           assert (Hs : forall n g, (length g <= n)%nat -> glob_to_regex g <> Panic 12%N).
           { clear. induction n as [|n IH]; intros g Hl.
             - destruct g; [discriminate|cbn in Hl; lia].
             - destruct g as [|c g]; [discriminate|]. cbn [length] in Hl. cbn [glob_to_regex].
               assert (Hr : forall a g', (length g' <= n)%nat -> rcons a (glob_to_regex g') <> Panic 12%N).
               { intros a g' Hg'. specialize (IH g' Hg'). unfold rcons, rmap, bind.
                 destruct (glob_to_regex g'); congruence. }
               destruct (c =? 42)%N; [apply Hr; lia|]. destruct (c =? 63)%N; [apply Hr; lia|].
               destruct (c =? 92)%N; [|apply Hr; lia].
               destruct g as [|x g']; [discriminate|]. cbn [length] in Hl.
               destruct (is_glob_special x); [apply Hr; lia|discriminate]. }
           exact (Hs (length g) g (le_n _) Eg).
        -- discriminate.
Qed.

(* ---------------------------------------------------------------- the lossy reader against the document *)
Theorem ly_lookup d c path : ly_of_doc fixed d = Ok c -> doc_valid d ->
  exists r ans,
    is_last_such (fun p => para_matches p path) (files_paragraphs d) r /\
    licence_answer d r ans /\
    rmap (option_map fst) (ly_find_files fixed c path) = Ok (option_map fst r) /\
    (forall j fp, ly_find_files fixed c path = Ok (Some (j, fp)) ->
                  exists p, r = Some (j, p) /\ files_conv fixed p fp) /\
    ly_find_license_for_file fixed c path = Ok ans.
Proof.
  intros E V. destruct (ll_license_rule d path V) as [r [ans [Er [Hr [Ea Hl]]]]].
  exists r, ans. split; [exact Hr|]. split; [exact Hl|].
  pose proof (find_files_agree d c path E) as F. rewrite Er in F.
  rewrite <- (find_license_for_file_agree d c path E).
  destruct (ly_find_files fixed c path) as [[[j fp]|]|e|n|]; destruct r as [[i p]|]; cbn [found_rel] in F;
    try contradiction.
  - destruct F as [-> R]. split; [reflexivity|]. split; [|exact Ea].
    intros j' fp' H. injection H as <- <-. exists p. auto.
  - split; [reflexivity|]. split; [|exact Ea]. intros j fp H. discriminate.
Qed.
