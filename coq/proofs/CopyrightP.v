(* Lemmas about model/Copyright.v (the [fixed] variant unless said otherwise). *)
From V.model Require Import Base Deb822Lex Deb822Parse Glob Copyright CopyrightSpec.
From V.proofs Require Import BaseP Deb822ParseP GlobP.

(* ---------------------------------------------------------------- strings *)
Lemma list_eqb_N_eq (a : str) : forall b, str_eqb a b = true <-> a = b.
Proof.
  unfold str_eqb. induction a as [|x a IH]; intros [|y b]; cbn [list_eqb]; split; intro H;
    try reflexivity; try discriminate.
  - apply andb_true_iff in H. destruct H as [H1 H2]. apply N.eqb_eq in H1. apply IH in H2. congruence.
  - injection H as -> ->. rewrite N.eqb_refl. cbn. apply IH. reflexivity.
Qed.

Lemma str_eqb_refl (a : str) : str_eqb a a = true.
Proof. apply list_eqb_N_eq. reflexivity. Qed.

Lemma opt_str_eqb_eq (o : option str) (b : str) : opt_str_eqb o b = true <-> o = Some b.
Proof.
  destruct o as [a|]; cbn [opt_str_eqb].
  - rewrite list_eqb_N_eq. split; congruence.
  - split; discriminate.
Qed.

Lemma starts_with_iff pre : forall s, starts_with pre s = true <-> exists t, s = pre ++ t.
Proof.
  induction pre as [|c pre IH]; intro s; cbn [starts_with].
  - split; [intros _; exists s; reflexivity|reflexivity].
  - destruct s as [|x s].
    + split; [discriminate|]. intros [t H]. discriminate.
    + rewrite andb_true_iff, N.eqb_eq, IH. split.
      * intros [-> [t ->]]. exists t. reflexivity.
      * intros [t H]. cbn in H. injection H as -> ->. split; [reflexivity|]. exists t. reflexivity.
Qed.

(* ---------------------------------------------------------------- split_whitespace *)
Lemma frev_rev (l : str) : frev l = rev l.
Proof. unfold frev. symmetry. apply rev_alt. Qed.

Definition no_ws (w : str) : Prop := forallb (fun c => negb (is_whitespace c)) w = true.

Lemma split_ws_word : forall a acc, no_ws a -> (acc <> [] \/ a <> []) ->
  split_ws acc a = [rev acc ++ a].
Proof.
  induction a as [|c a IH]; intros acc Hn Hne.
  - cbn [split_ws]. destruct acc as [|x acc]; [destruct Hne; congruence|].
    rewrite app_nil_r, frev_rev. reflexivity.
  - unfold no_ws in Hn. cbn [forallb] in Hn. apply andb_true_iff in Hn. destruct Hn as [Hc Hn].
    apply negb_true_iff in Hc. cbn [split_ws]. rewrite Hc.
    rewrite IH; [|exact Hn|left; discriminate].
    cbn [rev]. rewrite <- app_assoc. reflexivity.
Qed.

Lemma split_ws_sep w b : is_whitespace w = true -> forall a acc,
  split_ws acc (a ++ w :: b) = split_ws acc a ++ split_ws [] b.
Proof.
  intro Hw. induction a as [|c a IH]; intro acc.
  - cbn [app split_ws]. rewrite Hw. destruct acc; reflexivity.
  - cbn [app split_ws]. destruct (is_whitespace c).
    + destruct acc; cbn [app]; rewrite IH; reflexivity.
    + apply IH.
Qed.

Lemma split_ws_pieces : forall s acc, no_ws acc ->
  Forall (fun w => w <> [] /\ no_ws w) (split_ws acc s).
Proof.
  assert (Hrev : forall acc x, no_ws (x :: acc) -> frev (x :: acc) <> [] /\ no_ws (frev (x :: acc))).
  { intros acc x H. rewrite frev_rev. split.
    - cbn [rev]. intro E. apply app_eq_nil in E. destruct E as [_ E]. discriminate.
    - unfold no_ws in *. rewrite forallb_forall in *. intros c Hc. apply H. apply in_rev. exact Hc. }
  induction s as [|c s IH]; intros acc Ha.
  - cbn [split_ws]. destruct acc as [|x acc]; [constructor|].
    constructor; [apply Hrev; exact Ha|constructor].
  - cbn [split_ws]. destruct (is_whitespace c) eqn:Ec.
    + destruct acc as [|x acc]; [apply IH; reflexivity|].
      constructor; [apply Hrev; exact Ha|apply IH; reflexivity].
    + apply IH. unfold no_ws. cbn [forallb]. rewrite Ec. exact Ha.
Qed.

(* the three equations that determine split_whitespace *)
Lemma split_whitespace_nil : split_whitespace [] = [].
Proof. reflexivity. Qed.
Lemma split_whitespace_word a : a <> [] -> no_ws a -> split_whitespace a = [a].
Proof. intros Hne Hn. unfold split_whitespace. rewrite split_ws_word; auto. Qed.
Lemma split_whitespace_sep a w b : is_whitespace w = true ->
  split_whitespace (a ++ w :: b) = split_whitespace a ++ split_whitespace b.
Proof. intro Hw. unfold split_whitespace. apply split_ws_sep. exact Hw. Qed.
Lemma split_whitespace_pieces s : Forall (fun w => w <> [] /\ no_ws w) (split_whitespace s).
Proof. apply split_ws_pieces. reflexivity. Qed.

(* ---------------------------------------------------------------- paragraphs *)
Lemma has_true p k : has p k = true <-> exists x, pget p k = Some x.
Proof.
  unfold has. destruct (pget p k) as [x|]; split; intro H; try discriminate; eauto.
  destruct H as [x H]. discriminate.
Qed.
Lemma has_false p k : has p k = false <-> pget p k = None.
Proof. unfold has. destruct (pget p k); split; intro H; congruence. Qed.

(* Paragraph::get on the parsed tree is [pget] on its items *)
Lemma get_items (p : tree) (key : str) : Deb822Parse.get p key = pget (items p) key.
Proof.
  unfold Deb822Parse.get, items. induction (entries p) as [|e es IH]; [reflexivity|].
  cbn [filter flat_map]. destruct (entry_key e) as [k|] eqn:Ek; cbn [opt_str_eqb app].
  - cbn [pget]. destruct (str_eqb k key); [reflexivity|exact IH].
  - exact IH.
Qed.

(* ---------------------------------------------------------------- variants *)
(* the four fixes that are in /repo are applied; the two proposed ones may or may not be *)
Definition good (v : variant) : Prop :=
  v_dotall v = true /\ v_lossy_ws v = true /\ v_lp_name v = true /\ v_skip_header v = true.
Ltac norm v G :=
  destruct v as [? ? ? ? vl vq]; destruct G as (Gd & Gw & Gn & Gs);
  cbn [v_dotall v_lossy_ws v_lp_name v_skip_header] in Gd, Gw, Gn, Gs; subst.
Lemma good_fixed : good fixed.
Proof. repeat split. Qed.
Lemma good_committed : good committed.
Proof. repeat split. Qed.

(* the exact-case instances of the specification vocabulary: what the code computes *)
Notation xfiles := (files_paragraphs_w pget).
Notation xlicences := (licence_paragraphs_w pget).
Notation xpatterns := (patterns_w pget).
Notation xmatches := (para_matches_w pget).
Notation xlicence := (para_licence_w pget).
Notation xnamed := (named_w pget).
Notation xvalid := (doc_valid_w pget).
Notation xanswer := (licence_answer_w pget).
Notation xwf := (wf_doc_w pget).

(* ---------------------------------------------------------------- licences *)
Lemma ll_lp_name_good v p : good v ->
  ll_lp_name v p = match xlicence p with Some l => lic_name l | None => None end.
Proof.
  intro G. norm v G.
  unfold ll_lp_name, para_licence_w, license_of_str. cbn [v_lp_name].
  destruct (pget p k_License) as [x|]; cbn [option_map]; [|reflexivity].
  destruct (split_once_lf x) as [[n t]|]; [|reflexivity]. destruct n; reflexivity.
Qed.

Lemma ll_fp_license_spec p : ll_fp_license p = xlicence p.
Proof. reflexivity. Qed.

Lemma lic_text_none l : lic_text l = None -> exists n, l = LName n.
Proof. destruct l; cbn; intro H; try discriminate. eexists. reflexivity. Qed.

(* ---------------------------------------------------------------- any_match *)
Definition ok_or_panic {A} (r : res A) : Prop := (exists a, r = Ok a) \/ (exists k, r = Panic k).

Lemma glob_is_match_iff g p : glob_is_match true g p = true <-> glob_matches g p.
Proof.
  unfold glob_is_match, try_glob_to_regex.
  destruct (glob_to_regex_cases g) as [[V [r E]]|[V [k E]]]; rewrite E.
  - rewrite (rmatch_spec g r E p). apply spec_match_iff. exact V.
  - split; [discriminate|]. intro H. apply glob_matches_valid in H. congruence.
Qed.

Lemma any_match_lenient d fs path :
  any_match d true fs path = Ok (existsb (fun g => glob_is_match d g path) fs).
Proof.
  induction fs as [|g fs IH]; [reflexivity|]. cbn [any_match existsb].
  destruct (glob_is_match d g path); [reflexivity|exact IH].
Qed.

Lemma any_match_valid fs path : Forall (fun g => valid_escapes g = true) fs ->
  any_match true false fs path = Ok (existsb (fun g => spec_match g path) fs).
Proof.
  induction 1 as [|g fs V _ IH]; [reflexivity|].
  cbn [any_match existsb]. destruct (glob_correct g V) as [r [_ H]].
  destruct (H path) as [_ ->]. destruct (spec_match g path); [reflexivity|exact IH].
Qed.

Lemma existsb_glob_matches fs path : Forall (fun g => valid_escapes g = true) fs ->
  (existsb (fun g => spec_match g path) fs = true <-> exists g, In g fs /\ glob_matches g path).
Proof.
  intro V. rewrite existsb_exists. rewrite Forall_forall in V. split; intros [g [Hi Hm]]; exists g; split; auto.
  - apply spec_match_iff; auto.
  - apply spec_match_iff; auto.
Qed.

(* with the lenient matcher for every pattern list; without it for valid ones *)
Lemma any_match_spec l fs path : l = true \/ Forall (fun g => valid_escapes g = true) fs ->
  exists b, any_match true l fs path = Ok b /\ (b = true <-> exists g, In g fs /\ glob_matches g path).
Proof.
  intros [->|V].
  - rewrite any_match_lenient. eexists. split; [reflexivity|].
    rewrite existsb_exists. split; intros [g [Hi Hm]]; exists g; split; auto; apply glob_is_match_iff; exact Hm.
  - destruct l.
    + rewrite any_match_lenient. eexists. split; [reflexivity|].
      rewrite existsb_exists. split; intros [g [Hi Hm]]; exists g; split; auto; apply glob_is_match_iff; exact Hm.
    + rewrite (any_match_valid _ path V). eexists. split; [reflexivity|].
      apply existsb_glob_matches. exact V.
Qed.

(* any_match only ever answers or panics; with the lenient matcher it always answers *)
Lemma any_match_shape d l fs path : ok_or_panic (any_match d l fs path).
Proof.
  destruct l; [left; rewrite any_match_lenient; eexists; reflexivity|].
  induction fs as [|g fs IH]; [left; exists false; reflexivity|].
  cbn [any_match]. destruct (glob_match_shape d g path) as [[b E]|[k E]]; rewrite E.
  - destruct b; [left; exists true; reflexivity|exact IH].
  - right. exists k. reflexivity.
Qed.

(* ---------------------------------------------------------------- filter(..).last() *)
Lemma last_match_spec_gen {A} (pred : A -> res bool) (P : A -> Prop) : forall l i acc,
  (forall x, In x l -> exists b, pred x = Ok b /\ (b = true <-> P x)) ->
  exists r, last_match pred l i acc = Ok r /\
    match r with
    | None => acc = None /\ forall x, In x l -> ~ P x
    | Some (j, x) =>
        (acc = Some (j, x) /\ forall y, In y l -> ~ P y) \/
        (exists pre post, l = pre ++ x :: post /\ j = i + length pre /\ P x /\
                          forall y, In y post -> ~ P y)
    end.
Proof.
  induction l as [|x l IH]; intros i acc H.
  - exists acc. split; [reflexivity|]. destruct acc as [[j y]|].
    + left. split; [reflexivity|]. intros y0 [].
    + split; [reflexivity|]. intros y0 [].
  - cbn [last_match]. destruct (H x (or_introl eq_refl)) as [b [Eb Hb]]. rewrite Eb.
    assert (H' : forall y, In y l -> exists b, pred y = Ok b /\ (b = true <-> P y))
      by (intros y Hy; apply H; right; exact Hy).
    destruct b.
    + destruct (IH (S i) (Some (i, x)) H') as [r [Er Hr]]. exists r. split; [exact Er|].
      destruct r as [[j y]|].
      * destruct Hr as [[Ea Hall]|[pre [post [El [Ej [Hp Hpost]]]]]].
        -- injection Ea as <- <-. right. exists [], l. split; [reflexivity|]. split; [cbn; lia|].
           split; [apply Hb; reflexivity|exact Hall].
        -- right. exists (x :: pre), post. subst l. split; [reflexivity|]. split; [cbn; lia|]. auto.
      * destruct Hr as [Ea _]. discriminate.
    + assert (Hx : ~ P x) by (intro Px; apply Hb in Px; discriminate).
      destruct (IH (S i) acc H') as [r [Er Hr]]. exists r. split; [exact Er|].
      destruct r as [[j y]|].
      * destruct Hr as [[Ea Hall]|[pre [post [El [Ej [Hp Hpost]]]]]].
        -- left. split; [exact Ea|]. intros z [<-|Hz]; auto.
        -- right. exists (x :: pre), post. subst l. split; [reflexivity|]. split; [cbn; lia|]. auto.
      * destruct Hr as [Ea Hall]. split; [exact Ea|]. intros z [<-|Hz]; auto.
Qed.

Lemma last_match_spec {A} (pred : A -> res bool) (P : A -> Prop) l :
  (forall x, In x l -> exists b, pred x = Ok b /\ (b = true <-> P x)) ->
  exists r, last_match pred l 0 None = Ok r /\ is_last_such P l r.
Proof.
  intro H. destruct (last_match_spec_gen pred P l 0 None H) as [r [Er Hr]].
  exists r. split; [exact Er|]. unfold is_last_such. destruct r as [[j x]|].
  - destruct Hr as [[Ea _]|[pre [post [El [Ej [Hp Hpost]]]]]]; [discriminate|].
    exists pre, post. cbn in Ej. auto.
  - destruct Hr as [_ Hall]. exact Hall.
Qed.

Lemma find_first_such {A} (f : A -> bool) (P : A -> Prop) : forall l,
  (forall x, In x l -> (f x = true <-> P x)) -> is_first_such P l (find f l).
Proof.
  induction l as [|x l IH]; intro H; cbn [find].
  - intros y [].
  - destruct (f x) eqn:Fx.
    + exists [], l. split; [reflexivity|]. split; [apply H; [left; reflexivity|exact Fx]|]. intros y [].
    + assert (Hx : ~ P x) by (intro Px; apply H in Px; [congruence|left; reflexivity]).
      assert (H' : forall y, In y l -> (f y = true <-> P y)) by (intros y Hy; apply H; right; exact Hy).
      specialize (IH H'). unfold is_first_such in *. destruct (find f l) as [y|].
      * destruct IH as [pre [post [El [Py Hpre]]]]. exists (x :: pre), post. subst l.
        split; [reflexivity|]. split; [exact Py|]. intros z [<-|Hz]; auto.
      * intros z [<-|Hz]; auto.
Qed.

(* two filter-last runs over related lists with pointwise equal predicates *)
Lemma last_match_rel {A B} (pa : A -> res bool) (pb : B -> res bool) (R : A -> B -> Prop) :
  forall la lb, Forall2 R la lb -> (forall a b, R a b -> pa a = pb b) ->
  forall i acca accb,
    match acca, accb with
    | None, None => True
    | Some (j, a), Some (j', b) => j = j' /\ R a b
    | _, _ => False
    end ->
    found_rel R (last_match pa la i acca) (last_match pb lb i accb).
Proof.
  induction 1 as [|a b la lb Rab _ IH]; intros Hp i acca accb Hacc.
  - cbn [last_match found_rel]. destruct acca as [[j x]|], accb as [[j' y]|]; auto.
  - cbn [last_match]. rewrite (Hp a b Rab). destruct (pb b) as [[|]|e|n|]; cbn [found_rel]; auto; apply IH; auto.
Qed.

Lemma find_rel {A B} (fa : A -> bool) (fb : B -> bool) (R : A -> B -> Prop) :
  forall la lb, Forall2 R la lb -> (forall a b, R a b -> fa a = fb b) ->
  match find fa la, find fb lb with
  | None, None => True
  | Some a, Some b => R a b
  | _, _ => False
  end.
Proof.
  induction 1 as [|a b la lb Rab _ IH]; intro Hp; cbn [find]; [exact I|].
  rewrite (Hp a b Rab). destruct (fb b); [exact Rab|apply IH; exact Hp].
Qed.

(* ---------------------------------------------------------------- lossless lookups *)
Lemma ll_iter_files_good v d : good v -> ll_iter_files v d = xfiles d.
Proof. intro G. norm v G. reflexivity. Qed.
Lemma ll_iter_licenses_good v d : good v -> ll_iter_licenses v d = xlicences d.
Proof. intro G. norm v G. reflexivity. Qed.

Lemma ll_matches_spec v p path : good v -> has p k_Files = true ->
  v_lenient v = true \/ Forall (fun g => valid_escapes g = true) (xpatterns p) ->
  exists b, ll_matches v p path = Ok b /\ (b = true <-> xmatches p path).
Proof.
  intros G Hf V. norm v G. cbn [v_lenient] in V. apply has_true in Hf. destruct Hf as [x Ex].
  unfold ll_matches, ll_files, para_matches_w, patterns_w in *. rewrite Ex in *.
  cbn [bind v_dotall v_lenient]. apply any_match_spec. exact V.
Qed.

Theorem ll_find_files_last v d path : good v -> v_lenient v = true \/ xvalid d ->
  exists r, ll_find_files v d path = Ok r /\ is_last_such (fun p => xmatches p path) (xfiles d) r.
Proof.
  intros G V. unfold ll_find_files. rewrite (ll_iter_files_good v d G).
  apply last_match_spec. intros p Hp. apply ll_matches_spec; [exact G| |].
  - unfold files_paragraphs_w in Hp. apply filter_In in Hp. tauto.
  - destruct V as [V|V]; [left; exact V|right].
    apply Forall_forall. intros g Hg. exact (V p g Hp Hg).
Qed.

Lemma named_iff v n p : good v -> (opt_str_eqb (ll_lp_name v p) n = true <-> xnamed n p).
Proof.
  intro G. rewrite opt_str_eqb_eq, (ll_lp_name_good v p G). unfold named_w.
  destruct (xlicence p) as [l|].
  - split; [intro H; exists l; auto|]. intros [l' [E H]]. injection E as <-. exact H.
  - split; [discriminate|]. intros [l' [E _]]. discriminate.
Qed.

Theorem ll_find_license_by_name_first v d n : good v ->
  exists q, is_first_such (xnamed n) (xlicences d) q /\
    ll_find_license_by_name v d n =
      Ok (match q with Some q' => xlicence q' | None => None end).
Proof.
  intro G. unfold ll_find_license_by_name. rewrite (ll_iter_licenses_good v d G).
  pose proof (find_first_such (fun p => opt_str_eqb (ll_lp_name v p) n) (xnamed n)
                (xlicences d) (fun p _ => named_iff v n p G)) as F.
  exists (find (fun p => opt_str_eqb (ll_lp_name v p) n) (xlicences d)).
  split; [exact F|].
  destruct (find _ (xlicences d)) as [q|] eqn:Eq; [|reflexivity].
  apply find_some in Eq. destruct Eq as [Hin _].
  unfold licence_paragraphs_w in Hin. apply filter_In in Hin. destruct Hin as [_ Hl].
  apply andb_true_iff in Hl. destruct Hl as [_ Hl]. apply has_true in Hl. destruct Hl as [x Ex].
  unfold ll_lp_license, para_licence_w. rewrite Ex. reflexivity.
Qed.

Theorem ll_license_rule v d path : good v -> v_lenient v = true \/ xvalid d ->
  exists r ans, ll_find_files v d path = Ok r /\
                is_last_such (fun p => xmatches p path) (xfiles d) r /\
                ll_find_license_for_file v d path = Ok ans /\
                xanswer d r ans.
Proof.
  intros G V. destruct (ll_find_files_last v d path G V) as [r [Er Hr]].
  exists r. unfold ll_find_license_for_file. rewrite Er. cbn [bind].
  destruct r as [[j p]|]; cbn [licence_answer_w]; [|exists None; auto].
  rewrite ll_fp_license_spec.
  destruct (xlicence p) as [own|] eqn:Eo; [|exists None; auto].
  destruct (lic_text own) as [t|] eqn:Et.
  - exists (Some own). auto.
  - destruct (lic_text_none own Et) as [n ->]. cbn [lic_name].
    destruct (ll_find_license_by_name_first v d n G) as [q [Fq Eq]].
    eexists. split; [reflexivity|]. split; [exact Hr|]. split; [exact Eq|]. exists n, q. auto.
Qed.

(* ---------------------------------------------------------------- lossy reader *)
Lemma ly_body_rel v : forall body fl, ly_body v body = Ok fl ->
  Forall2 (files_conv v) (filter (fun p => has p k_Files) body) (fst fl) /\
  Forall2 licence_conv (filter (fun p => negb (has p k_Files) && has p k_License) body) (snd fl).
Proof.
  induction body as [|p body IH]; intros fl E.
  - cbn in E. injection E as <-. split; constructor.
  - cbn [ly_body] in E. cbn [filter].
    destruct (pget p k_Files) as [x|] eqn:Ef.
    + assert (Hf : has p k_Files = true) by (unfold has; rewrite Ef; reflexivity).
      rewrite Hf. cbn [negb andb].
      destruct (ly_files_para v p) as [fp| | |] eqn:Efp; cbn [bind] in E; try discriminate.
      destruct (ly_body v body) as [fl'| | |] eqn:Eb; cbn [bind] in E; try discriminate.
      injection E as <-. destruct (IH fl' eq_refl) as [H1 H2]. cbn [fst snd]. split; [|exact H2].
      constructor; [exact Efp|exact H1].
    + assert (Hf : has p k_Files = false) by (unfold has; rewrite Ef; reflexivity).
      rewrite Hf. cbn [negb andb].
      destruct (pget p k_License) as [y|] eqn:El; [|discriminate].
      assert (Hl : has p k_License = true) by (unfold has; rewrite El; reflexivity).
      rewrite Hl.
      destruct (ly_license_para p) as [lp| | |] eqn:Elp; cbn [bind] in E; try discriminate.
      destruct (ly_body v body) as [fl'| | |] eqn:Eb; cbn [bind] in E; try discriminate.
      injection E as <-. destruct (IH fl' eq_refl) as [H1 H2]. cbn [fst snd]. split; [exact H1|].
      constructor; [exact Elp|exact H2].
Qed.

Lemma ly_of_doc_rel v d c : ly_of_doc v d = Ok c ->
  Forall2 (files_conv v) (xfiles d) (c_files c) /\ Forall2 licence_conv (xlicences d) (c_licenses c).
Proof.
  unfold ly_of_doc. destruct d as [|h body]; [discriminate|].
  destruct (ly_header v h) as [hd| | |]; cbn [bind]; try discriminate.
  destruct (ly_body v body) as [fl| | |] eqn:Eb; cbn [bind]; try discriminate.
  intro E. injection E as <-. cbn [tl c_files c_licenses].
  unfold files_paragraphs_w, licence_paragraphs_w. cbn [tl]. apply ly_body_rel. exact Eb.
Qed.

Lemma files_conv_inv v p fp : files_conv v p fp ->
  exists fl li co, pget p k_Files = Some fl /\ pget p k_License = Some li /\ pget p k_Copyright = Some co /\
    fp = mk_lfiles (ly_file_list v fl) (license_of_str li) (split_lf co) (pget p k_Comment).
Proof.
  unfold files_conv, ly_files_para, req.
  destruct (pget p k_Files) as [fl|]; cbn [bind]; [|discriminate].
  destruct (pget p k_License) as [li|]; cbn [bind]; [|discriminate].
  destruct (pget p k_Copyright) as [co|]; cbn [bind]; [|discriminate].
  intro E. injection E as <-. exists fl, li, co. auto.
Qed.

Lemma licence_conv_inv p lp : licence_conv p lp ->
  exists li, pget p k_License = Some li /\ lp = mk_llicense (license_of_str li) (pget p k_Comment).
Proof.
  unfold licence_conv, ly_license_para, req.
  destruct (pget p k_License) as [li|]; cbn [bind]; [|discriminate].
  intro E. injection E as <-. exists li. auto.
Qed.

Lemma matches_agree v p fp path : good v -> files_conv v p fp ->
  ll_matches v p path = ly_matches v fp path.
Proof.
  intros G H. destruct (files_conv_inv _ _ _ H) as [fl [li [co [Ef [_ [_ ->]]]]]].
  norm v G. unfold ll_matches, ly_matches, ll_files. rewrite Ef. reflexivity.
Qed.

Theorem find_files_agree v d c path : good v -> ly_of_doc v d = Ok c ->
  found_rel (files_conv v) (ll_find_files v d path) (ly_find_files v c path).
Proof.
  intros G E. destruct (ly_of_doc_rel _ _ _ E) as [HF _].
  unfold ll_find_files, ly_find_files. rewrite (ll_iter_files_good v d G).
  apply last_match_rel; [exact HF| |exact I].
  intros p fp R. apply matches_agree; assumption.
Qed.

Theorem find_license_by_name_agree v d c n : good v -> ly_of_doc v d = Ok c ->
  ll_find_license_by_name v d n = Ok (ly_find_license_by_name c n).
Proof.
  intros G E. destruct (ly_of_doc_rel _ _ _ E) as [_ HL].
  unfold ll_find_license_by_name, ly_find_license_by_name.
  pose proof (find_rel (fun p => opt_str_eqb (ll_lp_name v p) n)
                       (fun lp => opt_str_eqb (lic_name (lp_license lp)) n) licence_conv _ _ HL) as F.
  assert (Hp : forall a b, licence_conv a b ->
            opt_str_eqb (ll_lp_name v a) n = opt_str_eqb (lic_name (lp_license b)) n).
  { intros a b R. destruct (licence_conv_inv _ _ R) as [li [El ->]].
    rewrite (ll_lp_name_good v a G). unfold para_licence_w. rewrite El. reflexivity. }
  specialize (F Hp). rewrite (ll_iter_licenses_good v d G).
  destruct (find _ (xlicences d)) as [q|]; destruct (find _ (c_licenses c)) as [lp|]; try contradiction.
  - destruct (licence_conv_inv _ _ F) as [li [El ->]].
    unfold ll_lp_license. rewrite El. reflexivity.
  - reflexivity.
Qed.

Theorem find_license_for_file_agree v d c path : good v -> ly_of_doc v d = Ok c ->
  ll_find_license_for_file v d path = ly_find_license_for_file v c path.
Proof.
  intros G E. pose proof (find_files_agree v d c path G E) as F.
  unfold ll_find_license_for_file, ly_find_license_for_file.
  destruct (ll_find_files v d path) as [[[i p]|]|e|n|];
    destruct (ly_find_files v c path) as [[[j fp]|]|e'|n'|]; cbn [found_rel] in F; try contradiction;
    cbn [bind]; try reflexivity; try congruence.
  destruct F as [_ R]. destruct (files_conv_inv _ _ _ R) as [fl [li [co [_ [El [_ ->]]]]]].
  unfold ll_fp_license. rewrite El. cbn [option_map lf_license].
  destruct (lic_text (license_of_str li)) as [t|] eqn:Et; [reflexivity|].
  destruct (lic_text_none _ Et) as [n ->]. cbn [lic_name].
  apply find_license_by_name_agree; assumption.
Qed.

Theorem wf_doc_accepted v d : xwf d -> exists c, ly_of_doc v d = Ok c.
Proof.
  destruct d as [|h body]; [intros []|]. intros [Hh Hb].
  unfold ly_of_doc, ly_header, req. apply has_true in Hh. destruct Hh as [f Ef]. rewrite Ef. cbn [bind].
  assert (Hbody : exists fl, ly_body v body = Ok fl).
  { induction body as [|p body IH]; [eexists; reflexivity|].
    cbn [forallb] in Hb. apply andb_true_iff in Hb. destruct Hb as [Hp Hb].
    destruct (IH Hb) as [fl Efl]. cbn [ly_body]. unfold wf_body_para_w in Hp.
    apply orb_true_iff in Hp. destruct Hp as [Hp|Hp].
    - apply andb_true_iff in Hp. destruct Hp as [Hp Hc]. apply andb_true_iff in Hp. destruct Hp as [Hf Hl].
      apply has_true in Hf, Hl, Hc. destruct Hf as [x Ex], Hl as [y Ey], Hc as [z Ez].
      rewrite Ex. unfold ly_files_para, req. rewrite Ex, Ey, Ez. cbn [bind]. rewrite Efl. cbn [bind].
      eexists. reflexivity.
    - apply andb_true_iff in Hp. destruct Hp as [Hf Hl]. apply negb_true_iff in Hf. apply has_false in Hf.
      apply has_true in Hl. destruct Hl as [y Ey]. rewrite Hf, Ey.
      unfold ly_license_para, req. rewrite Ey. cbn [bind]. rewrite Efl. cbn [bind]. eexists. reflexivity. }
  destruct Hbody as [fl Efl]. rewrite Efl. cbn [bind]. eexists. reflexivity.
Qed.

(* the lossy reader's own "last match wins", directly on its paragraphs *)
Theorem ly_find_files_last v c path : good v ->
  v_lenient v = true \/ Forall (fun fp => Forall (fun g => valid_escapes g = true) (lf_files fp)) (c_files c) ->
  exists r, ly_find_files v c path = Ok r /\
    is_last_such (fun fp => exists g, In g (lf_files fp) /\ glob_matches g path) (c_files c) r.
Proof.
  intros G V. unfold ly_find_files. apply last_match_spec. intros fp Hfp.
  norm v G. unfold ly_matches. cbn [v_dotall v_lenient] in *. apply any_match_spec.
  destruct V as [V|V]; [left; exact V|right]. rewrite Forall_forall in V. exact (V fp Hfp).
Qed.

(* ---------------------------------------------------------------- text entry points *)
Theorem format_gate_refuses v s : format_gate s = false ->
  ll_from_str s = Err 2%N /\ ll_from_str_relaxed s = Err 2%N /\ ly_from_str v s = Err 2%N.
Proof.
  intro G. unfold ll_from_str, ll_from_str_relaxed, ly_from_str. rewrite G. cbn [negb]. auto.
Qed.

Lemma ly_of_doc_not_nmr v d : ly_of_doc v d <> Err 2%N.
Proof.
  assert (Hb : forall body, ly_body v body <> Err 2%N).
  { induction body as [|p body IH]; [discriminate|]. cbn [ly_body].
    destruct (pget p k_Files) eqn:Ef.
    - unfold ly_files_para, req. rewrite Ef. cbn [bind].
      destruct (pget p k_License); cbn [bind]; [|discriminate].
      destruct (pget p k_Copyright); cbn [bind]; [|discriminate].
      destruct (ly_body v body) as [fl|e| |]; cbn [bind]; try discriminate. congruence.
    - destruct (pget p k_License) eqn:El; [|discriminate].
      unfold ly_license_para, req. rewrite El. cbn [bind].
      destruct (ly_body v body) as [fl|e| |]; cbn [bind]; try discriminate. congruence. }
  unfold ly_of_doc, ly_header, req. destruct d as [|h body]; [discriminate|].
  destruct (pget h k_Format); cbn [bind]; [|discriminate].
  specialize (Hb body). destruct (ly_body v body) as [fl|e| |]; cbn [bind]; try discriminate. congruence.
Qed.

Theorem format_gate_accepts v s : format_gate s = true ->
  (exists t, Deb822Parse.from_str s = Ok t /\ ll_from_str s = Ok (doc_items t) /\
             ly_from_str v s = ly_of_doc v (doc_items t) /\
             ll_from_str_relaxed s = Ok (doc_items t, 0)) \/
  (Deb822Parse.from_str s = Err 1%N /\ ll_from_str s = Err 1%N /\ ly_from_str v s = Err 1%N /\
   exists t n, n <> 0 /\ ll_from_str_relaxed s = Ok (doc_items t, n)).
Proof.
  intro G. unfold ll_from_str, ll_from_str_relaxed, ly_from_str. rewrite G. cbn [negb].
  destruct (C01_all s) as [t [n [Er [_ [H0 Hn]]]]]. rewrite Er. destruct n as [|n].
  - left. exists t. rewrite (H0 eq_refl). auto.
  - right. rewrite (Hn (Nat.neq_succ_0 n)). repeat split; auto. exists t, (S n). auto.
Qed.

Theorem not_machine_readable_iff v s :
  (ll_from_str s = Err 2%N <-> format_gate s = false) /\
  (ll_from_str_relaxed s = Err 2%N <-> format_gate s = false) /\
  (ly_from_str v s = Err 2%N <-> format_gate s = false).
Proof.
  destruct (format_gate s) eqn:G.
  - destruct (format_gate_accepts v s G) as [[t [_ [E1 [E2 E3]]]]|[_ [E1 [E2 [t [n [_ E3]]]]]]];
      rewrite E1, E2, E3; repeat split; intro H; try discriminate.
    exfalso. exact (ly_of_doc_not_nmr v _ H).
  - destruct (format_gate_refuses v s G) as [E1 [E2 E3]]. rewrite E1, E2, E3. repeat split; auto.
Qed.

(* ---------------------------------------------------------------- field names: exact case vs any case *)
Lemma ci_eqb_refl k : ci_eqb k k = true.
Proof. unfold ci_eqb. apply str_eqb_refl. Qed.

Lemma exact_case_name_eq k K : In K special_names -> exact_case_name k = true ->
  ci_eqb k K = str_eqb k K.
Proof.
  intros HK H. unfold exact_case_name in H. rewrite forallb_forall in H. specialize (H K HK).
  destruct (str_eqb k K) eqn:Es.
  - apply list_eqb_N_eq in Es. subst. apply ci_eqb_refl.
  - destruct (ci_eqb k K); [discriminate|reflexivity].
Qed.

Lemma sget_pget p K : In K special_names -> exact_case_para p = true -> sget p K = pget p K.
Proof.
  intros HK. induction p as [|[k x] p IH]; intro H; [reflexivity|].
  cbn [exact_case_para forallb fst] in H. apply andb_true_iff in H. destruct H as [Hk Hp].
  cbn [sget pget]. rewrite (exact_case_name_eq k K HK Hk). destruct (str_eqb k K); [reflexivity|].
  apply IH. exact Hp.
Qed.

Lemma exact_case_in d p : exact_case d -> In p d -> exact_case_para p = true.
Proof. unfold exact_case. rewrite forallb_forall. auto. Qed.
Lemma in_tl {A} (x : A) l : In x (tl l) -> In x l.
Proof. destruct l; [intros []|]. cbn. auto. Qed.

Lemma special_Files : In k_Files special_names. Proof. cbn. auto. Qed.
Lemma special_License : In k_License special_names. Proof. cbn. auto. Qed.
Lemma special_Copyright : In k_Copyright special_names. Proof. cbn. auto 6. Qed.
Lemma special_Format : In k_Format special_names. Proof. cbn. auto 6. Qed.

Section Exact.
  Variable p : para.
  Hypothesis Hp : exact_case_para p = true.
  Lemma x_has K : In K special_names -> has_w sget p K = has_w pget p K.
  Proof. intro HK. unfold has_w. rewrite (sget_pget p K HK Hp). reflexivity. Qed.
  Lemma x_patterns : patterns_w sget p = xpatterns p.
  Proof. unfold patterns_w. rewrite (sget_pget p _ special_Files Hp). reflexivity. Qed.
  Lemma x_licence : para_licence_w sget p = xlicence p.
  Proof. unfold para_licence_w. rewrite (sget_pget p _ special_License Hp). reflexivity. Qed.
  Lemma x_matches path : para_matches_w sget p path <-> xmatches p path.
  Proof. unfold para_matches_w. rewrite x_patterns. reflexivity. Qed.
  Lemma x_named n : named_w sget n p <-> xnamed n p.
  Proof. unfold named_w. rewrite x_licence. reflexivity. Qed.
  Lemma x_wf_body : wf_body_para_w sget p = wf_body_para_w pget p.
  Proof.
    unfold wf_body_para_w.
    rewrite (x_has _ special_Files), (x_has _ special_License), (x_has _ special_Copyright). reflexivity.
  Qed.
End Exact.

Lemma x_files d : exact_case d -> files_paragraphs d = xfiles d.
Proof.
  intro H. unfold files_paragraphs, files_paragraphs_w. apply filter_ext_in. intros p Hp.
  apply x_has; [|exact special_Files]. apply (exact_case_in d p H). apply in_tl. exact Hp.
Qed.
Lemma x_licences d : exact_case d -> licence_paragraphs d = xlicences d.
Proof.
  intro H. unfold licence_paragraphs, licence_paragraphs_w. apply filter_ext_in. intros p Hp.
  assert (Ep : exact_case_para p = true) by (apply (exact_case_in d p H); apply in_tl; exact Hp).
  rewrite (x_has p Ep _ special_Files), (x_has p Ep _ special_License). reflexivity.
Qed.
Lemma xfiles_in d p : In p (xfiles d) -> In p d.
Proof. unfold files_paragraphs_w. intro H. apply filter_In in H. apply in_tl. tauto. Qed.
Lemma xlicences_in d p : In p (xlicences d) -> In p d.
Proof. unfold licence_paragraphs_w. intro H. apply filter_In in H. apply in_tl. tauto. Qed.

Lemma x_valid d : exact_case d -> (doc_valid d <-> xvalid d).
Proof.
  intro H. unfold doc_valid, doc_valid_w. fold (files_paragraphs d). rewrite (x_files d H).
  split; intros V p g Hp Hg; apply (V p g Hp);
    pose proof (exact_case_in d p H (xfiles_in d p Hp)) as Ep.
  - rewrite (x_patterns p Ep). exact Hg.
  - rewrite <- (x_patterns p Ep). exact Hg.
Qed.

Lemma x_wf d : exact_case d -> wf_doc d -> xwf d.
Proof.
  intro H. destruct d as [|h body]; [intros []|]. intros [Hh Hb]. split.
  - rewrite <- (x_has h (exact_case_in _ h H (or_introl eq_refl)) _ special_Format). exact Hh.
  - rewrite forallb_forall in *. intros p Hp.
    rewrite <- (x_wf_body p (exact_case_in _ p H (or_intror Hp))). apply Hb. exact Hp.
Qed.

Lemma is_last_such_ext {A} (P Q : A -> Prop) l r : (forall x, In x l -> (P x <-> Q x)) ->
  is_last_such P l r -> is_last_such Q l r.
Proof.
  intro E. unfold is_last_such. destruct r as [[j x]|].
  - intros [pre [post [El [Ej [Px Hpost]]]]]. exists pre, post. subst l.
    split; [reflexivity|]. split; [exact Ej|]. split.
    + apply E; [apply in_or_app; right; left; reflexivity|exact Px].
    + intros y Hy Qy. apply (Hpost y Hy). apply E; [apply in_or_app; right; right; exact Hy|exact Qy].
  - intros H x Hx Qx. apply (H x Hx). apply E; assumption.
Qed.
Lemma is_first_such_ext {A} (P Q : A -> Prop) l r : (forall x, In x l -> (P x <-> Q x)) ->
  is_first_such P l r -> is_first_such Q l r.
Proof.
  intro E. unfold is_first_such. destruct r as [x|].
  - intros [pre [post [El [Px Hpre]]]]. exists pre, post. subst l.
    split; [reflexivity|]. split.
    + apply E; [apply in_or_app; right; left; reflexivity|exact Px].
    + intros y Hy Qy. apply (Hpre y Hy). apply E; [apply in_or_app; left; exact Hy|exact Qy].
  - intros H x Hx Qx. apply (H x Hx). apply E; assumption.
Qed.
Lemma is_last_such_in {A} (P : A -> Prop) l j x : is_last_such P l (Some (j, x)) -> In x l.
Proof. intros [pre [post [-> _]]]. apply in_or_app. right. left. reflexivity. Qed.
Lemma is_first_such_in {A} (P : A -> Prop) l x : is_first_such P l (Some x) -> In x l.
Proof. intros [pre [post [-> _]]]. apply in_or_app. right. left. reflexivity. Qed.

(* the code's answers, read in the specification's (case-insensitive) vocabulary *)
Lemma x_lookup d path r ans : exact_case d ->
  is_last_such (fun p => xmatches p path) (xfiles d) r -> xanswer d r ans ->
  is_last_such (fun p => para_matches p path) (files_paragraphs d) r /\ licence_answer d r ans.
Proof.
  intros H Hr Ha. split.
  - rewrite (x_files d H). apply (is_last_such_ext (fun p => xmatches p path)); [|exact Hr].
    intros p Hp. symmetry. apply x_matches. apply (exact_case_in d p H). apply xfiles_in. exact Hp.
  - unfold licence_answer, licence_answer_w in *. destruct r as [[j p]|]; [|exact Ha].
    assert (Ep : exact_case_para p = true)
      by (apply (exact_case_in d p H); apply xfiles_in; apply (is_last_such_in _ _ _ _ Hr)).
    rewrite (x_licence p Ep). destruct (xlicence p) as [own|]; [|exact Ha].
    destruct (lic_text own); [exact Ha|].
    destruct Ha as [n [q [En [Hq Ea]]]]. exists n, q. split; [exact En|].
    fold (licence_paragraphs d). rewrite (x_licences d H). split.
    + apply (is_first_such_ext (xnamed n)); [|exact Hq].
      intros p' Hp'. symmetry. apply x_named. apply (exact_case_in d p' H). apply xlicences_in. exact Hp'.
    + destruct q as [q'|]; [|exact Ea]. rewrite Ea. symmetry. apply x_licence.
      apply (exact_case_in d q' H). apply xlicences_in. apply (is_first_such_in _ _ _ Hq).
Qed.

(* ---------------------------------------------------------------- the property, assembled *)
Lemma glob_clause_fixed : glob_clause true.
Proof.
  intros g V p. destruct (glob_correct g V) as [r [_ H]]. destruct (H p) as [_ E].
  exists (spec_match g p). split; [exact E|]. apply spec_match_iff. exact V.
Qed.

(* with C17-invalid-glob-escape: every document outside field-name-case, valid patterns or not *)
Lemma lookup_clause_lenient v : good v -> v_lenient v = true -> lookup_clause v.
Proof.
  intros G L d path H.
  destruct (ll_license_rule v d path G (or_introl L)) as [r [ans [Er [Hr [Ea Hl]]]]].
  exists r, ans. destruct (x_lookup d path r ans H Hr Hl) as [H1 H2]. auto.
Qed.
(* without it: documents whose patterns all have valid escapes *)
Lemma lookup_clause_valid_good v : good v -> lookup_clause_valid v.
Proof.
  intros G d path H V. apply (x_valid d H) in V.
  destruct (ll_license_rule v d path G (or_intror V)) as [r [ans [Er [Hr [Ea Hl]]]]].
  exists r, ans. destruct (x_lookup d path r ans H Hr Hl) as [H1 H2]. auto.
Qed.

Lemma agree_clause_good v : good v -> agree_clause v.
Proof.
  intros G d c E path. split; [apply find_files_agree; assumption|].
  split; [apply find_license_for_file_agree; assumption|].
  intro n. apply find_license_by_name_agree; assumption.
Qed.

Lemma accept_clause_any v : accept_clause v.
Proof. intros d H W. apply wf_doc_accepted. apply x_wf; assumption. Qed.

Lemma gate_clause_any v : gate_clause v.
Proof. intro s. apply not_machine_readable_iff. Qed.

Theorem C17_all : C17_full fixed.
Proof.
  split; [exact glob_clause_fixed|]. split; [exact (lookup_clause_lenient fixed good_fixed eq_refl)|].
  split; [exact (agree_clause_good fixed good_fixed)|].
  split; [exact (accept_clause_any fixed)|exact (gate_clause_any fixed)].
Qed.

(* iter_files / iter_licenses against the specification *)
Lemma iter_spec v d : good v -> exact_case d ->
  ll_iter_files v d = files_paragraphs d /\ ll_iter_licenses v d = licence_paragraphs d.
Proof.
  intros G H. rewrite (ll_iter_files_good v d G), (ll_iter_licenses_good v d G), (x_files d H), (x_licences d H).
  split; reflexivity.
Qed.

Theorem find_license_by_name_spec v d n : good v -> exact_case d ->
  exists q, is_first_such (named n) (licence_paragraphs d) q /\
    ll_find_license_by_name v d n =
      Ok (match q with Some q' => para_licence q' | None => None end).
Proof.
  intros G H. destruct (ll_find_license_by_name_first v d n G) as [q [Hq E]]. exists q. split.
  - rewrite (x_licences d H). apply (is_first_such_ext (xnamed n)); [|exact Hq].
    intros p Hp. symmetry. apply x_named. apply (exact_case_in d p H). apply xlicences_in. exact Hp.
  - rewrite E. destruct q as [q'|]; [|reflexivity]. unfold para_licence.
    rewrite (x_licence q'); [reflexivity|].
    apply (exact_case_in d q' H). apply xlicences_in. apply (is_first_such_in _ _ _ Hq).
Qed.

(* ---------------------------------------------------------------- totality (any variant, any document) *)
Lemma last_match_shape {A} (pred : A -> res bool) : forall l,
  (forall x, In x l -> ok_or_panic (pred x)) ->
  forall i acc, ok_or_panic (last_match pred l i acc).
Proof.
  induction l as [|x l IH]; intros H i acc; cbn [last_match].
  - left. eexists. reflexivity.
  - assert (H' : forall y, In y l -> ok_or_panic (pred y)) by (intros y Hy; apply H; right; exact Hy).
    destruct (H x (or_introl eq_refl)) as [[b E]|[k E]]; rewrite E.
    + destruct b; apply IH; exact H'.
    + right. eexists. reflexivity.
Qed.

(* a panic of filter-last is a panic of the predicate on some element *)
Lemma last_match_panic {A} (pred : A -> res bool) k : forall l i acc,
  last_match pred l i acc = Panic k -> exists x, In x l /\ pred x = Panic k.
Proof.
  induction l as [|x l IH]; intros i acc E; cbn [last_match] in E; [discriminate|].
  destruct (pred x) as [[|]| |k'|] eqn:Ex; try discriminate.
  - destruct (IH _ _ E) as [y [Hy Ey]]. exists y. split; [right; exact Hy|exact Ey].
  - destruct (IH _ _ E) as [y [Hy Ey]]. exists y. split; [right; exact Hy|exact Ey].
  - injection E as ->. exists x. split; [left; reflexivity|exact Ex].
Qed.

Lemma ll_iter_files_has v d p : In p (ll_iter_files v d) -> has p k_Files = true.
Proof. unfold ll_iter_files. intro H. apply filter_In in H. tauto. Qed.
Lemma ll_iter_licenses_has v d p : In p (ll_iter_licenses v d) -> has p k_License = true.
Proof.
  unfold ll_iter_licenses. intro H. apply filter_In in H. destruct H as [_ H].
  apply andb_true_iff in H. tauto.
Qed.

Lemma ll_find_files_shape v d path : ok_or_panic (ll_find_files v d path).
Proof.
  unfold ll_find_files. apply last_match_shape. intros p Hp.
  apply ll_iter_files_has in Hp. apply has_true in Hp. destruct Hp as [x Ex].
  unfold ll_matches, ll_files. rewrite Ex. cbn [bind]. apply any_match_shape.
Qed.

Lemma ll_find_license_by_name_ok v d n : exists a, ll_find_license_by_name v d n = Ok a.
Proof.
  unfold ll_find_license_by_name.
  destruct (find _ (ll_iter_licenses v d)) as [q|] eqn:Eq; [|eexists; reflexivity].
  apply find_some in Eq. destruct Eq as [Hin _]. apply ll_iter_licenses_has in Hin.
  apply has_true in Hin. destruct Hin as [x Ex]. unfold ll_lp_license. rewrite Ex. eexists. reflexivity.
Qed.

Lemma ll_find_license_for_file_shape v d path : ok_or_panic (ll_find_license_for_file v d path).
Proof.
  unfold ll_find_license_for_file.
  destruct (ll_find_files_shape v d path) as [[r E]|[k E]]; rewrite E; cbn [bind];
    [|right; eexists; reflexivity].
  destruct r as [[j p]|]; [|left; eexists; reflexivity].
  destruct (ll_fp_license p) as [l|]; [|left; eexists; reflexivity].
  destruct (lic_text l); [left; eexists; reflexivity|].
  destruct (lic_name l) as [n|]; [|left; eexists; reflexivity].
  left. apply ll_find_license_by_name_ok.
Qed.

Lemma ly_find_files_shape v c path : ok_or_panic (ly_find_files v c path).
Proof.
  unfold ly_find_files. apply last_match_shape. intros fp _. unfold ly_matches. apply any_match_shape.
Qed.

(* the only panics the pattern matching can produce are those of glob_to_regex: sites 1 and 2 *)
Lemma glob_to_regex_site g k : glob_to_regex g = Panic k -> k = 1%N \/ k = 2%N.
Proof.
  assert (Hs : forall n g, (length g <= n)%nat -> forall k, glob_to_regex g = Panic k -> k = 1%N \/ k = 2%N).
  { clear. induction n as [|n IH]; intros g Hl k.
    - destruct g; [discriminate|cbn in Hl; lia].
    - destruct g as [|c g]; [discriminate|]. cbn [length] in Hl. cbn [glob_to_regex].
      assert (Hr : forall a g', (length g' <= n)%nat -> rcons a (glob_to_regex g') = Panic k -> k = 1%N \/ k = 2%N).
      { intros a g' Hg'. specialize (IH g' Hg' k). unfold rcons, rmap, bind.
        destruct (glob_to_regex g'); try discriminate. intro E. injection E as ->. apply IH. reflexivity. }
      destruct (c =? 42)%N; [apply Hr; lia|]. destruct (c =? 63)%N; [apply Hr; lia|].
      destruct (c =? 92)%N; [|apply Hr; lia].
      destruct g as [|x g']; [intro E; injection E as <-; auto|]. cbn [length] in Hl.
      destruct (is_glob_special x); [apply Hr; lia|intro E; injection E as <-; auto]. }
  exact (Hs (length g) g (le_n _) k).
Qed.

Lemma any_match_site d l fs path k : any_match d l fs path = Panic k -> k = 1%N \/ k = 2%N.
Proof.
  destruct l; [rewrite any_match_lenient; discriminate|].
  induction fs as [|g fs IH]; [discriminate|]. cbn [any_match]. unfold glob_match.
  destruct (glob_to_regex g) as [r| |k'|] eqn:Eg; cbn [bind]; try discriminate.
  - destruct (rmatch d r path); [discriminate|exact IH].
  - intro E. injection E as ->. exact (glob_to_regex_site g k Eg).
Qed.

Lemma ly_find_license_for_file_shape v c path :
  ok_or_panic (ly_find_license_for_file v c path) /\ ly_find_license_for_file v c path <> Panic 12%N.
Proof.
  unfold ly_find_license_for_file.
  destruct (ly_find_files_shape v c path) as [[r E]|[k E]]; rewrite E; cbn [bind].
  - destruct r as [[j fp]|]; [|split; [left; eexists; reflexivity|discriminate]].
    destruct (lf_license fp); cbn [lic_text lic_name]; (split; [left; eexists; reflexivity|discriminate]).
  - split; [right; eexists; reflexivity|].
    intro H. injection H as ->. unfold ly_find_files in E.
    destruct (last_match_panic _ _ _ _ _ E) as [fp [_ Ep]]. unfold ly_matches in Ep.
    destruct (any_match_site _ _ _ _ _ Ep); discriminate.
Qed.

(* with C17-invalid-glob-escape nothing panics at all *)
Lemma lookups_ok_lenient v d c path : v_lenient v = true ->
  (exists r, ll_find_files v d path = Ok r) /\ (exists a, ll_find_license_for_file v d path = Ok a) /\
  (exists r, ly_find_files v c path = Ok r) /\ (exists a, ly_find_license_for_file v c path = Ok a).
Proof.
  intro L.
  assert (H1 : exists r, ll_find_files v d path = Ok r).
  { destruct (ll_find_files_shape v d path) as [H|[k E]]; [exact H|exfalso].
    unfold ll_find_files in E. destruct (last_match_panic _ _ _ _ _ E) as [p [Hp Ep]].
    apply ll_iter_files_has in Hp. apply has_true in Hp. destruct Hp as [x Ex].
    unfold ll_matches, ll_files in Ep. rewrite Ex, L in Ep. cbn [bind] in Ep.
    rewrite any_match_lenient in Ep. discriminate. }
  assert (H3 : exists r, ly_find_files v c path = Ok r).
  { destruct (ly_find_files_shape v c path) as [H|[k E]]; [exact H|exfalso].
    unfold ly_find_files in E. destruct (last_match_panic _ _ _ _ _ E) as [fp [_ Ep]].
    unfold ly_matches in Ep. rewrite L, any_match_lenient in Ep. discriminate. }
  split; [exact H1|]. split.
  - destruct (ll_find_license_for_file_shape v d path) as [H|[k E]]; [exact H|exfalso].
    unfold ll_find_license_for_file in E. destruct H1 as [r Er]. rewrite Er in E. cbn [bind] in E.
    destruct r as [[j p]|]; [|discriminate]. destruct (ll_fp_license p) as [l|]; [|discriminate].
    destruct (lic_text l); [discriminate|]. destruct (lic_name l) as [n|]; [|discriminate].
    destruct (ll_find_license_by_name_ok v d n) as [a Ea]. congruence.
  - split; [exact H3|].
    destruct (ly_find_license_for_file_shape v c path) as [[H|[k E]] _]; [exact H|exfalso].
    unfold ly_find_license_for_file in E. destruct H3 as [r Er]. rewrite Er in E. cbn [bind] in E.
    destruct r as [[j fp]|]; [|discriminate].
    destruct (lf_license fp); cbn [lic_text lic_name] in E; discriminate.
Qed.

(* ---------------------------------------------------------------- the lossy reader against the document *)
Theorem ly_lookup v d c path : good v -> exact_case d -> v_lenient v = true \/ doc_valid d ->
  ly_of_doc v d = Ok c ->
  exists r ans,
    is_last_such (fun p => para_matches p path) (files_paragraphs d) r /\
    licence_answer d r ans /\
    rmap (option_map fst) (ly_find_files v c path) = Ok (option_map fst r) /\
    (forall j fp, ly_find_files v c path = Ok (Some (j, fp)) ->
                  exists p, r = Some (j, p) /\ files_conv v p fp) /\
    ly_find_license_for_file v c path = Ok ans.
Proof.
  intros G H V E.
  assert (V' : v_lenient v = true \/ xvalid d) by (destruct V as [V|V]; [left; exact V|right; apply (x_valid d H); exact V]).
  destruct (ll_license_rule v d path G V') as [r [ans [Er [Hr [Ea Hl]]]]].
  exists r, ans. destruct (x_lookup d path r ans H Hr Hl) as [H1 H2].
  split; [exact H1|]. split; [exact H2|].
  pose proof (find_files_agree v d c path G E) as F. rewrite Er in F.
  rewrite <- (find_license_for_file_agree v d c path G E).
  destruct (ly_find_files v c path) as [[[j fp]|]|e|n|]; destruct r as [[i p]|]; cbn [found_rel] in F;
    try contradiction.
  - destruct F as [-> R]. split; [reflexivity|]. split; [|exact Ea].
    intros j' fp' Hj. injection Hj as <- <-. exists p. auto.
  - split; [reflexivity|]. split; [|exact Ea]. intros j fp Hj. discriminate.
Qed.
