(* Relations parser: text conservation, totality (no panic, fuel suffices). *)
From V.model Require Import Base RelLex RelParse.
From V.proofs Require Import BaseP RelLexP.

(* what a parser routine may do to the state: keep all text in order, never un-consume,
   never drop errors *)
Definition step (s s' : pst) : Prop :=
  texts (out s') ++ rttext (toks s') = texts (out s) ++ rttext (toks s) /\
  length (toks s') <= length (toks s) /\
  nerr s <= nerr s'.

Lemma step_refl s : step s s.
Proof. unfold step. repeat split; lia. Qed.

Lemma step_trans a b c : step a b -> step b c -> step a c.
Proof. unfold step. intros (H1 & L1 & N1) (H2 & L2 & N2). repeat split; try lia. congruence. Qed.

Lemma rttext_cons k s r : rttext ((k, s) :: r) = s ++ rttext r.
Proof. reflexivity. Qed.

Lemma step_bump s : step s (bump s).
Proof.
  unfold step, bump. destruct (toks s) as [|[k t] r]; cbn [toks out nerr length].
  - repeat split; lia.
  - rewrite texts_app, rttext_cons, <- app_assoc. cbn [texts flat_map text app]. rewrite app_nil_r.
    repeat split; lia.
Qed.

Lemma skip_ws_l_spec ts : forall e r, skip_ws_l ts = (e, r) ->
  texts e ++ rttext r = rttext ts /\ length r <= length ts.
Proof.
  induction ts as [|[k s] t IH]; intros e r H; cbn [skip_ws_l] in H.
  - inversion H; subst. split; [reflexivity|lia].
  - destruct (is_ws_kind k).
    + destruct (skip_ws_l t) as [e' r'] eqn:E. inversion H; subst.
      destruct (IH _ _ eq_refl) as [Ha Hl]. split; [|cbn; lia].
      rewrite texts_cons, text_tok, rttext_cons, <- app_assoc, Ha. reflexivity.
    + inversion H; subst. split; [reflexivity|lia].
Qed.

Lemma step_skip_ws s : step s (skip_ws s).
Proof.
  unfold step, skip_ws. destruct (skip_ws_l (toks s)) as [e r] eqn:E.
  apply skip_ws_l_spec in E. destruct E as [Ha Hl]. cbn [toks out nerr].
  rewrite texts_app, <- app_assoc, Ha. repeat split; lia.
Qed.

Lemma step_out_of_fuel s : step s (out_of_fuel s).
Proof. unfold step, out_of_fuel. cbn. repeat split; lia. Qed.

Definition reset (s : pst) : pst := mk_pst (toks s) [] (nerr s) (flag s).

Lemma step_in_node k body s : step (reset s) (body (reset s)) -> step s (in_node k body s).
Proof.
  unfold step, in_node, reset. cbn [toks out nerr]. intros (H & L & N).
  rewrite texts_app. cbn [texts flat_map]. rewrite text_node, app_nil_r, <- app_assoc.
  cbn [texts flat_map app] in H. unfold texts in *. rewrite H. repeat split; lia.
Qed.

(* a routine preserves the invariant from every state *)
Definition pres (f : pst -> pst) : Prop := forall s, step s (f s).

Lemma pres_in_node k body : pres body -> pres (in_node k body).
Proof. intros H s. apply step_in_node. apply H. Qed.

(* the ERROR node of fn error / parse_entry: one more error, at most one token *)
Definition err_body (s : pst) : pst := match current s with Some _ => bump s | None => s end.
Definition with_err (s : pst) : pst := mk_pst (toks s) (out s) (S (nerr s)) (flag s).

Lemma error_unfold s : error s = in_node ERROR err_body (with_err s).
Proof. reflexivity. Qed.

Lemma pres_err_body : pres err_body.
Proof. intros s. unfold err_body. destruct (current s); [apply step_bump|apply step_refl]. Qed.

Lemma step_with_err s : step s (with_err s).
Proof. unfold step, with_err. cbn. repeat split; lia. Qed.

Lemma step_error s : step s (error s).
Proof.
  rewrite error_unfold. eapply step_trans; [apply step_with_err|]. apply pres_in_node, pres_err_body.
Qed.

Lemma step_expect k s : step s (expect k s).
Proof. unfold expect. destruct (cur_is s k); [apply step_bump|apply step_error]. Qed.

Lemma step_version_run fuel : forall s, step s (version_run fuel s).
Proof.
  induction fuel as [|f IH]; intros s; cbn [version_run]; destruct (cur_is_vtok s); try apply step_refl.
  - apply step_out_of_fuel.
  - eapply step_trans; [apply step_bump|apply IH].
Qed.
Lemma step_version_text s : step s (version_text s).
Proof. unfold version_text. destruct (cur_is_vtok s); [apply step_version_run|apply step_error]. Qed.

Opaque bump skip_ws error expect in_node out_of_fuel version_text.

Ltac stp :=
  repeat match goal with
  | |- step ?s ?s => apply step_refl
  | |- step _ (if ?b then _ else _) => destruct b
  | |- step _ (match ?x with _ => _ end) =>
      lazymatch x with Some _ => fail | None => fail | _ => destruct x end
  | |- step ?s (bump ?t) => apply (step_trans s t); [|apply step_bump]
  | |- step ?s (skip_ws ?t) => apply (step_trans s t); [|apply step_skip_ws]
  | |- step ?s (error ?t) => apply (step_trans s t); [|apply step_error]
  | |- step ?s (expect ?k ?t) => apply (step_trans s t); [|apply step_expect]
  | |- step ?s (version_text ?t) => apply (step_trans s t); [|apply step_version_text]
  | |- step ?s (out_of_fuel ?t) => apply (step_trans s t); [|apply step_out_of_fuel]
  end.

Lemma pres_substvar_loop fuel : pres (substvar_loop fuel).
Proof.
  induction fuel as [|f IH]; intros s; cbn [substvar_loop]; [stp|].
  destruct (current s) as [k|]; [|stp].
  destruct k; try (eapply step_trans; [|apply IH]; stp); stp.
Qed.

Lemma pres_parse_substvar : pres parse_substvar.
Proof.
  apply pres_in_node. intros s. cbv zeta.
  match goal with |- step _ (if _ then bump ?t else error ?t) => apply (step_trans s t) end; [|stp].
  eapply step_trans; [|apply pres_substvar_loop]. stp.
Qed.

Lemma bump_constraint_spec ts : forall e r, bump_constraint ts = (e, r) ->
  texts e ++ rttext r = rttext ts /\ length r <= length ts.
Proof.
  induction ts as [|[k s] t IH]; intros e r H; cbn [bump_constraint] in H.
  - inversion H; subst. split; [reflexivity|lia].
  - destruct k; try (inversion H; subst; split; [reflexivity|lia]);
    (destruct (bump_constraint t) as [e' r'] eqn:E; inversion H; subst;
     destruct (IH _ _ eq_refl) as [Ha Hl]; split; [|cbn; lia];
     rewrite texts_cons, text_tok, rttext_cons, <- app_assoc, Ha; reflexivity).
Qed.

Lemma pres_constraint_node : pres constraint_node.
Proof.
  apply pres_in_node. intros s. destruct (bump_constraint (toks s)) as [e r] eqn:E.
  apply bump_constraint_spec in E. destruct E as [Ha Hl].
  unfold step. cbn [toks out nerr]. rewrite texts_app, <- app_assoc, Ha. repeat split; lia.
Qed.

Lemma pres_arch_loop fuel : pres (arch_loop fuel).
Proof.
  induction fuel as [|f IH]; intros s; cbn [arch_loop]; [stp|]. cbv zeta.
  destruct (current (skip_ws s)) as [k|]; [|stp].
  destruct k; try (eapply step_trans; [|apply IH]; stp); stp.
Qed.

Lemma pres_profile_loop fuel : pres (profile_loop fuel).
Proof.
  induction fuel as [|f IH]; intros s; cbn [profile_loop]; [stp|]. cbv zeta.
  destruct (current (skip_ws s)) as [k|]; [|stp].
  destruct k; try (eapply step_trans; [|apply IH]; stp); stp.
Qed.

Lemma pres_profiles_while fuel : pres (profiles_while fuel).
Proof.
  induction fuel as [|f IH]; intros s; cbn [profiles_while]; destruct (peek_is s L_ANGLE); try (stp; fail).
  cbv zeta. eapply step_trans; [|apply IH].
  eapply step_trans; [apply step_skip_ws|]. apply pres_in_node. intros t. cbv zeta.
  eapply step_trans; [|apply pres_profile_loop]. stp.
Qed.

Lemma pres_parse_relation : pres parse_relation.
Proof.
  apply pres_in_node. intros s. cbv zeta.
  eapply step_trans; [|apply pres_profiles_while].
  (* architectures *)
  match goal with |- step _ (if peek_is ?t _ then _ else _) => apply (step_trans s t) end.
  2:{ match goal with |- step ?t (if ?b then _ else _) => destruct b end; [|stp].
      eapply step_trans; [apply step_skip_ws|]. apply pres_in_node. intros u. cbv zeta.
      eapply step_trans; [|apply pres_arch_loop]. stp. }
  (* version *)
  match goal with |- step _ (if peek_is ?t _ then _ else _) => apply (step_trans s t) end.
  2:{ match goal with |- step ?t (if ?b then _ else _) => destruct b end; [|stp].
      eapply step_trans; [apply step_skip_ws|]. apply pres_in_node. intros u. cbv zeta.
      match goal with |- step _ (expect _ (skip_ws (version_text (skip_ws (constraint_node ?v))))) =>
        apply (step_trans u (constraint_node v)); [|stp] end.
      eapply step_trans; [|apply pres_constraint_node]. stp. }
  (* archqual *)
  destruct (peek_past_ws (expect IDENT s)) as [k|]; [|stp].
  destruct k; try (stp; fail).
  eapply step_trans; [|apply step_skip_ws].
  eapply step_trans with (b := skip_ws (expect IDENT s)); [stp|].
  apply pres_in_node. intros u. cbv zeta. stp.
Qed.

Lemma pres_entry_loop fuel : pres (entry_loop fuel).
Proof.
  induction fuel as [|f IH]; intros s; cbn [entry_loop]; [stp|]. cbv zeta.
  pose proof (pres_parse_relation s) as HR.
  destruct (peek_past_ws (parse_relation s)) as [k|]; [|eapply step_trans; [exact HR|stp]].
  destruct k; try (eapply step_trans; [|apply IH]; eapply step_trans; [exact HR|];
                   first [ stp; fail
                         | eapply step_trans; [apply step_skip_ws|];
                           eapply step_trans; [apply step_with_err|]; apply pres_in_node, pres_err_body ]).
  exact HR.
Qed.

Lemma pres_parse_entry : pres parse_entry.
Proof.
  intros s. unfold parse_entry. cbv zeta. eapply step_trans; [apply step_skip_ws|].
  apply pres_in_node. intros u. apply pres_entry_loop.
Qed.

Lemma pres_root_loop a fuel : pres (root_loop a fuel).
Proof.
  induction fuel as [|f IH]; intros s; cbn [root_loop]; destruct (current s) as [c|]; try (stp; fail).
  cbv zeta.
  match goal with |- step _ (match current (skip_ws ?t) with _ => _ end) => assert (HT : step s t) end.
  { destruct c; try (stp; fail); try apply pres_parse_entry. destruct a; [apply pres_parse_substvar|stp]. }
  match goal with |- step _ (match current (skip_ws ?t) with _ => _ end) =>
    destruct (current (skip_ws t)) as [k|]; [|eapply step_trans; [exact HT|stp]] end.
  destruct k; (eapply step_trans; [|apply IH]); (eapply step_trans; [exact HT|]); stp.
Qed.

(* ======================= totality: no panic, fuel suffices ======================= *)
Transparent bump skip_ws error expect in_node out_of_fuel version_text.

Definition ltoks (s : pst) : nat := length (toks s).

Lemma flag_bump s : current s <> None -> flag (bump s) = flag s.
Proof. unfold current, bump. destruct (toks s) as [|[k t] r]; [congruence|reflexivity]. Qed.
Lemma ltoks_bump s : current s <> None -> ltoks (bump s) < ltoks s.
Proof. unfold current, bump, ltoks. destruct (toks s) as [|[k t] r]; [congruence|cbn; lia]. Qed.
Lemma flag_skip_ws s : flag (skip_ws s) = flag s.
Proof. unfold skip_ws. destruct (skip_ws_l (toks s)). reflexivity. Qed.
Lemma ltoks_skip_ws s : ltoks (skip_ws s) <= ltoks s.
Proof. apply step_skip_ws. Qed.
Lemma flag_in_node k body s : flag (in_node k body s) = flag (body (reset s)).
Proof. reflexivity. Qed.
Lemma toks_in_node k body s : toks (in_node k body s) = toks (body (reset s)).
Proof. reflexivity. Qed.
Lemma ltoks_in_node k body s : ltoks (in_node k body s) = ltoks (body (reset s)).
Proof. reflexivity. Qed.
Lemma current_in_node k body s : current (in_node k body s) = current (body (reset s)).
Proof. reflexivity. Qed.
Lemma current_reset s : current (reset s) = current s.
Proof. reflexivity. Qed.
Lemma flag_reset s : flag (reset s) = flag s.
Proof. reflexivity. Qed.
Lemma ltoks_reset s : ltoks (reset s) = ltoks s.
Proof. reflexivity. Qed.
Lemma peek_reset s : peek_past_ws (reset s) = peek_past_ws s.
Proof. reflexivity. Qed.

Lemma flag_error s : flag (error s) = flag s.
Proof.
  rewrite error_unfold, flag_in_node. unfold err_body.
  destruct (current (reset (with_err s))) eqn:E; [|reflexivity].
  rewrite flag_bump; [reflexivity|congruence].
Qed.
Lemma ltoks_error s : ltoks (error s) <= ltoks s.
Proof. apply step_error. Qed.
Lemma ltoks_error_lt s : current s <> None -> ltoks (error s) < ltoks s.
Proof.
  intros H. rewrite error_unfold, ltoks_in_node. unfold err_body.
  change (current (reset (with_err s))) with (current s).
  destruct (current s) eqn:E; [|congruence].
  apply (ltoks_bump (reset (with_err s))). change (current (reset (with_err s))) with (current s). congruence.
Qed.

Lemma cur_is_some s k : cur_is s k = true -> current s <> None.
Proof. unfold cur_is. destruct (current s); congruence. Qed.
Lemma flag_expect k s : flag (expect k s) = flag s.
Proof.
  unfold expect. destruct (cur_is s k) eqn:E; [|apply flag_error].
  apply flag_bump. eapply cur_is_some; exact E.
Qed.
Lemma ltoks_expect k s : ltoks (expect k s) <= ltoks s.
Proof. apply step_expect. Qed.
Lemma ltoks_expect_lt k s : current s <> None -> ltoks (expect k s) < ltoks s.
Proof. intros H. unfold expect. destruct (cur_is s k); [apply ltoks_bump|apply ltoks_error_lt]; exact H. Qed.

Lemma ltoks_version_text s : ltoks (version_text s) <= ltoks s.
Proof. apply step_version_text. Qed.

Lemma peek_skip_ws_l ts : peek_past_ws_l ts = match snd (skip_ws_l ts) with [] => None | (k, _) :: _ => Some k end.
Proof.
  induction ts as [|[k s] t IH]; cbn [peek_past_ws_l skip_ws_l]; [reflexivity|].
  destruct (is_ws_kind k) eqn:E.
  - destruct (skip_ws_l t) as [e r]. cbn [snd] in *. exact IH.
  - cbn [snd]. reflexivity.
Qed.
Lemma current_skip_ws s : current (skip_ws s) = peek_past_ws s.
Proof.
  unfold current, skip_ws, peek_past_ws. rewrite peek_skip_ws_l.
  destruct (skip_ws_l (toks s)) as [e r]. reflexivity.
Qed.
Lemma peek_is_current s k : peek_is s k = true -> current (skip_ws s) <> None.
Proof. unfold peek_is. rewrite current_skip_ws. destruct (peek_past_ws s); congruence. Qed.

Opaque bump skip_ws error expect in_node out_of_fuel version_text.

Definition ok (s : pst) : Prop := flag s = 0%N.

Lemma ok_substvar_loop fuel : forall s, ok s -> ltoks s < fuel ->
  ok (substvar_loop fuel s) /\ ltoks (substvar_loop fuel s) <= ltoks s.
Proof.
  induction fuel as [|f IH]; intros s Hok Hl; [lia|]. cbn [substvar_loop].
  destruct (current s) as [k|] eqn:E; [|split; [exact Hok|lia]].
  assert (Hne : current s <> None) by congruence.
  assert (Hb : ok (bump s) /\ ltoks (bump s) < ltoks s)
    by (split; [unfold ok; rewrite flag_bump; assumption|apply ltoks_bump; assumption]).
  assert (He : ok (error s) /\ ltoks (error s) < ltoks s)
    by (split; [unfold ok; rewrite flag_error; assumption|apply ltoks_error_lt; assumption]).
  destruct k;
    try (destruct (IH (error s)) as [A B]; [apply He|lia|]; split; [exact A|lia]);
    try (destruct (IH (bump s)) as [A B]; [apply Hb|lia|]; split; [exact A|lia]).
  split; [exact Hok|lia].
Qed.

Lemma ok_parse_substvar s : ok s -> current s <> None ->
  ok (parse_substvar s) /\ ltoks (parse_substvar s) < ltoks s.
Proof.
  intros Hok Hne. unfold parse_substvar. unfold ok. rewrite flag_in_node, ltoks_in_node. cbv zeta.
  set (s0 := reset s). assert (H0 : ok s0 /\ ltoks s0 = ltoks s /\ current s0 <> None) by (repeat split; assumption).
  destruct H0 as (O0 & L0 & C0).
  set (s1 := bump s0). assert (O1 : ok s1) by (unfold ok, s1; rewrite flag_bump; assumption).
  assert (L1 : ltoks s1 < ltoks s) by (unfold s1; rewrite <- L0; apply ltoks_bump; assumption).
  set (s2 := if cur_is s1 L_CURLY then bump s1 else error s1).
  assert (O2 : ok s2 /\ ltoks s2 <= ltoks s1).
  { unfold s2. destruct (cur_is s1 L_CURLY) eqn:E.
    - split; [unfold ok; rewrite flag_bump; [exact O1|eapply cur_is_some; exact E]|].
      apply Nat.lt_le_incl, ltoks_bump. eapply cur_is_some; exact E.
    - split; [unfold ok; rewrite flag_error; exact O1|apply ltoks_error]. }
  destruct O2 as [O2 L2].
  destruct (ok_substvar_loop (loop_fuel s2) s2 O2) as [O3 L3]; [unfold loop_fuel, ltoks; lia|].
  set (s3 := substvar_loop (loop_fuel s2) s2) in *.
  destruct (cur_is s3 R_CURLY) eqn:E.
  - split; [rewrite flag_bump; [exact O3|eapply cur_is_some; exact E]|].
    pose proof (ltoks_bump s3 (cur_is_some _ _ E)). lia.
  - split; [rewrite flag_error; exact O3|]. pose proof (ltoks_error s3). lia.
Qed.

Definition good (s s' : pst) : Prop := ok s' /\ ltoks s' <= ltoks s.
Definition goodlt (s s' : pst) : Prop := ok s' /\ ltoks s' < ltoks s.

Lemma good_refl s : ok s -> good s s.
Proof. intros H. split; [exact H|lia]. Qed.
Lemma good_trans a b c : good a b -> good b c -> good a c.
Proof. intros [O1 L1] [O2 L2]. split; [exact O2|lia]. Qed.
Lemma goodlt_good a b : goodlt a b -> good a b.
Proof. intros [O L]. split; [exact O|lia]. Qed.
Lemma good_goodlt a b c : good a b -> goodlt b c -> goodlt a c.
Proof. intros [O1 L1] [O2 L2]. split; [exact O2|lia]. Qed.
Lemma goodlt_good_trans a b c : goodlt a b -> good b c -> goodlt a c.
Proof. intros [O1 L1] [O2 L2]. split; [exact O2|lia]. Qed.

Lemma good_skip_ws s : ok s -> good s (skip_ws s).
Proof. intros H. split; [unfold ok; rewrite flag_skip_ws; exact H|apply ltoks_skip_ws]. Qed.
Lemma good_error s : ok s -> good s (error s).
Proof. intros H. split; [unfold ok; rewrite flag_error; exact H|apply ltoks_error]. Qed.
Lemma goodlt_error s : ok s -> current s <> None -> goodlt s (error s).
Proof. intros H C. split; [unfold ok; rewrite flag_error; exact H|apply ltoks_error_lt; exact C]. Qed.
Lemma good_expect k s : ok s -> good s (expect k s).
Proof. intros H. split; [unfold ok; rewrite flag_expect; exact H|apply ltoks_expect]. Qed.
Lemma goodlt_bump s : ok s -> current s <> None -> goodlt s (bump s).
Proof. intros H C. split; [unfold ok; rewrite flag_bump; assumption|apply ltoks_bump; exact C]. Qed.
Lemma good_in_node k body s : good (reset s) (body (reset s)) -> good s (in_node k body s).
Proof. intros [O L]. split; [unfold ok; rewrite flag_in_node; exact O|rewrite ltoks_in_node; exact L]. Qed.
Lemma goodlt_in_node k body s : goodlt (reset s) (body (reset s)) -> goodlt s (in_node k body s).
Proof. intros [O L]. split; [unfold ok; rewrite flag_in_node; exact O|rewrite ltoks_in_node; exact L]. Qed.

Transparent version_text.
Lemma cur_is_vtok_some s : cur_is_vtok s = true -> current s <> None.
Proof.
  unfold cur_is_vtok. intros H. apply orb_true_iff in H. destruct H as [H|H]; eapply cur_is_some; exact H.
Qed.
Lemma good_version_run fuel : forall s, ok s -> ltoks s < fuel -> good s (version_run fuel s).
Proof.
  induction fuel as [|f IH]; intros s Hok Hl; [lia|]. cbn [version_run].
  destruct (cur_is_vtok s) eqn:E; [|apply good_refl; exact Hok].
  pose proof (goodlt_bump s Hok (cur_is_vtok_some _ E)) as [Ob Lb].
  destruct (IH _ Ob) as [A B]; [lia|]. split; [exact A|lia].
Qed.
Lemma good_version_text s : ok s -> good s (version_text s).
Proof.
  intros H. unfold version_text. destruct (cur_is_vtok s) eqn:E; [|apply good_error; exact H].
  apply good_version_run; [exact H|unfold loop_fuel, ltoks; lia].
Qed.
Opaque version_text.

Lemma good_arch_loop fuel : forall s, ok s -> ltoks s < fuel -> good s (arch_loop fuel s).
Proof.
  induction fuel as [|f IH]; intros s Hok Hl; [lia|]. cbn [arch_loop]. cbv zeta.
  pose proof (good_skip_ws s Hok) as G. set (s1 := skip_ws s) in *. destruct G as [O1 L1].
  destruct (current s1) as [k|] eqn:E.
  2:{ eapply good_trans; [split; [exact O1|exact L1]|apply good_error; exact O1]. }
  assert (Hne : current s1 <> None) by congruence.
  pose proof (goodlt_bump s1 O1 Hne) as [Ob Lb]. pose proof (goodlt_error s1 O1 Hne) as [Oe Le].
  destruct k;
    try (destruct (IH (error s1) Oe) as [A B]; [lia|]; split; [exact A|lia]);
    try (destruct (IH (bump s1) Ob) as [A B]; [lia|]; split; [exact A|lia]).
  split; [exact Ob|lia].
Qed.

Lemma good_profile_loop fuel : forall s, ok s -> ltoks s < fuel -> good s (profile_loop fuel s).
Proof.
  induction fuel as [|f IH]; intros s Hok Hl; [lia|]. cbn [profile_loop]. cbv zeta.
  pose proof (good_skip_ws s Hok) as G. set (s1 := skip_ws s) in *. destruct G as [O1 L1].
  destruct (current s1) as [k|] eqn:E.
  2:{ eapply good_trans; [split; [exact O1|exact L1]|apply good_error; exact O1]. }
  assert (Hne : current s1 <> None) by congruence.
  pose proof (goodlt_bump s1 O1 Hne) as [Ob Lb]. pose proof (goodlt_error s1 O1 Hne) as [Oe Le].
  destruct k;
    try (destruct (IH (error s1) Oe) as [A B]; [lia|]; split; [exact A|lia]);
    try (destruct (IH (bump s1) Ob) as [A B]; [lia|]; split; [exact A|lia]).
  - (* NOT *)
    pose proof (good_skip_ws (bump s1) Ob) as [O2 L2].
    pose proof (good_expect IDENT (skip_ws (bump s1)) O2) as [O3 L3].
    destruct (IH _ O3) as [A B]; [lia|]. split; [exact A|lia].
  - (* R_ANGLE *) split; [exact Ob|lia].
Qed.

Lemma good_profiles_while fuel : forall s, ok s -> ltoks s < fuel -> good s (profiles_while fuel s).
Proof.
  induction fuel as [|f IH]; intros s Hok Hl; [lia|]. cbn [profiles_while].
  destruct (peek_is s L_ANGLE) eqn:P; [|apply good_refl; exact Hok]. cbv zeta.
  pose proof (good_skip_ws s Hok) as [O1 L1]. pose proof (peek_is_current _ _ P) as C1.
  set (s1 := skip_ws s) in *.
  assert (G2 : goodlt s1 (in_node PROFILES (fun st => profile_loop (loop_fuel (bump st)) (bump st)) s1)).
  { apply goodlt_in_node.
    pose proof (goodlt_bump (reset s1) O1 C1) as [Ob Lb].
    destruct (good_profile_loop (loop_fuel (bump (reset s1))) (bump (reset s1)) Ob) as [A B];
      [unfold loop_fuel, ltoks; lia|].
    split; [exact A|lia]. }
  destruct G2 as [O2 L2].
  destruct (IH _ O2) as [A B]; [lia|]. split; [exact A|lia].
Qed.

Lemma goodlt_expect k s : ok s -> current s <> None -> goodlt s (expect k s).
Proof. intros H C. split; [unfold ok; rewrite flag_expect; exact H|apply ltoks_expect_lt; exact C]. Qed.

Lemma good_constraint_node s : ok s -> good s (constraint_node s).
Proof.
  intros H. unfold constraint_node. apply good_in_node.
  destruct (bump_constraint (toks (reset s))) as [e r] eqn:E.
  apply bump_constraint_spec in E. destruct E as [_ L]. split; [exact H|exact L].
Qed.

Lemma peek_current_skip s k : peek_past_ws s = Some k -> current (skip_ws s) <> None.
Proof. intros H. rewrite current_skip_ws, H. congruence. Qed.

(* the part of parse_relation after the name: archqual / separator handling *)
Definition rel_after_name (st : pst) : pst :=
  match peek_past_ws st with
  | Some COLON =>
      let st := skip_ws st in
      let st := in_node ARCHQUAL (fun st =>
                  let st := bump st in
                  let st := skip_ws st in
                  expect IDENT st) st in
      skip_ws st
  | Some PIPE | Some COMMA => st
  | None | Some L_PARENS | Some L_BRACKET | Some L_ANGLE => skip_ws st
  | _ => error (skip_ws st)
  end.
Definition rel_version (st : pst) : pst :=
  if peek_is st L_PARENS then
    let st := skip_ws st in
    in_node VERSION (fun st =>
      let st := bump st in
      let st := skip_ws st in
      let st := constraint_node st in
      let st := skip_ws st in
      let st := version_text st in
      let st := skip_ws st in
      expect R_PARENS st) st
  else st.
Definition rel_archs (st : pst) : pst :=
  if peek_is st L_BRACKET then
    let st := skip_ws st in
    in_node ARCHITECTURES (fun st => let st := bump st in arch_loop (loop_fuel st) st) st
  else st.

Lemma parse_relation_unfold s :
  parse_relation s =
  in_node RELATION (fun st =>
    let st := rel_archs (rel_version (rel_after_name (expect IDENT st))) in
    profiles_while (loop_fuel st) st) s.
Proof. reflexivity. Qed.

Lemma good_rel_after_name s : ok s -> good s (rel_after_name s).
Proof.
  intros H. unfold rel_after_name.
  destruct (peek_past_ws s) as [k|] eqn:P; [|apply good_skip_ws; exact H].
  pose proof (good_skip_ws s H) as G1.
  destruct k; try (apply good_refl; exact H); try exact G1;
    try (eapply good_trans; [exact G1|apply good_error; apply G1]).
  (* COLON *)
  cbv zeta. destruct G1 as [O1 L1]. pose proof (peek_current_skip _ _ P) as C1. set (s1 := skip_ws s) in *.
  assert (G2 : good s1 (in_node ARCHQUAL (fun st => expect IDENT (skip_ws (bump st))) s1)).
  { apply good_in_node. pose proof (goodlt_bump (reset s1) O1 C1) as [Ob Lb].
    pose proof (good_skip_ws _ Ob) as [O2 L2]. pose proof (good_expect IDENT _ O2) as [O3 L3].
    split; [exact O3|lia]. }
  destruct G2 as [O2 L2]. pose proof (good_skip_ws _ O2) as [O3 L3]. split; [exact O3|lia].
Qed.

Lemma good_rel_version s : ok s -> good s (rel_version s).
Proof.
  intros H. unfold rel_version. destruct (peek_is s L_PARENS) eqn:P; [|apply good_refl; exact H].
  cbv zeta. pose proof (good_skip_ws s H) as [O1 L1]. pose proof (peek_is_current _ _ P) as C1.
  set (s1 := skip_ws s) in *.
  eapply good_trans; [split; [exact O1|exact L1]|]. apply good_in_node.
  pose proof (goodlt_bump (reset s1) O1 C1) as [Ob Lb].
  pose proof (good_skip_ws _ Ob) as [O2 L2].
  pose proof (good_constraint_node _ O2) as [O3 L3].
  pose proof (good_skip_ws _ O3) as [O4 L4].
  pose proof (good_version_text _ O4) as [O5 L5].
  pose proof (good_skip_ws _ O5) as [O5' L5'].
  pose proof (good_expect R_PARENS _ O5') as [O6 L6].
  split; [exact O6|lia].
Qed.

Lemma good_rel_archs s : ok s -> good s (rel_archs s).
Proof.
  intros H. unfold rel_archs. destruct (peek_is s L_BRACKET) eqn:P; [|apply good_refl; exact H].
  cbv zeta. pose proof (good_skip_ws s H) as [O1 L1]. pose proof (peek_is_current _ _ P) as C1.
  set (s1 := skip_ws s) in *.
  eapply good_trans; [split; [exact O1|exact L1]|]. apply good_in_node.
  pose proof (goodlt_bump (reset s1) O1 C1) as [Ob Lb].
  destruct (good_arch_loop (loop_fuel (bump (reset s1))) _ Ob) as [A B]; [unfold loop_fuel, ltoks; lia|].
  split; [exact A|lia].
Qed.

Lemma good_parse_relation s : ok s ->
  good s (parse_relation s) /\ (current s <> None -> ltoks (parse_relation s) < ltoks s).
Proof.
  intros H. rewrite parse_relation_unfold. cbv zeta.
  set (s0 := reset s).
  assert (G1 : good s0 (expect IDENT s0)) by (apply good_expect; exact H).
  assert (G1' : current s <> None -> ltoks (expect IDENT s0) < ltoks s)
    by (intros C; apply (goodlt_expect IDENT s0 H C)).
  set (s1 := expect IDENT s0) in *. destruct G1 as [O1 L1].
  pose proof (good_rel_after_name s1 O1) as [O2 L2]. set (s2 := rel_after_name s1) in *.
  pose proof (good_rel_version s2 O2) as [O3 L3]. set (s3 := rel_version s2) in *.
  pose proof (good_rel_archs s3 O3) as [O4 L4]. set (s4 := rel_archs s3) in *.
  destruct (good_profiles_while (loop_fuel s4) s4 O4) as [O5 L5]; [unfold loop_fuel, ltoks; lia|].
  split.
  - apply good_in_node. split; [exact O5|]. change (ltoks (profiles_while (loop_fuel s4) s4) <= ltoks s0). lia.
  - intros C. rewrite ltoks_in_node. change (ltoks (profiles_while (loop_fuel s4) s4) < ltoks s0).
    specialize (G1' C). change (ltoks s) with (ltoks s0) in G1'. lia.
Qed.

Transparent error.
Lemma good_entry_loop fuel : forall s, ok s -> ltoks s < fuel ->
  good s (entry_loop fuel s) /\ (current s <> None -> ltoks (entry_loop fuel s) < ltoks s).
Proof.
  induction fuel as [|f IH]; intros s Hok Hl; [lia|]. cbn [entry_loop]. cbv zeta.
  destruct (good_parse_relation s Hok) as [[O1 L1] LT]. set (s1 := parse_relation s) in *.
  destruct (peek_past_ws s1) as [k|] eqn:P.
  2:{ pose proof (good_skip_ws s1 O1) as [O2 L2]. split; [split; [exact O2|lia]|intros C; specialize (LT C); lia]. }
  pose proof (good_skip_ws s1 O1) as [O2 L2]. pose proof (peek_current_skip _ _ P) as C2.
  set (s2 := skip_ws s1) in *.
  assert (GE : goodlt s2 (in_node ERROR (fun s => match current s with Some _ => bump s | None => s end)
                           (mk_pst (toks s2) (out s2) (S (nerr s2)) (flag s2)))).
  { exact (goodlt_error s2 O2 C2). }
  destruct GE as [OE LE].
  destruct k; try (destruct (IH _ OE) as [[A B] _]; [lia|]; split; [split; [exact A|lia]|intros C; lia]).
  - (* PIPE *)
    pose proof (goodlt_bump s2 O2 C2) as [Ob Lb]. pose proof (good_skip_ws _ Ob) as [O3 L3].
    destruct (IH _ O3) as [[A B] _]; [lia|]. split; [split; [exact A|lia]|intros C; lia].
  - (* COMMA *) split; [split; [exact O1|exact L1]|exact LT].
Qed.

Lemma goodlt_parse_entry s : ok s -> current s = Some IDENT -> goodlt s (parse_entry s).
Proof.
  intros H C. unfold parse_entry. cbv zeta.
  pose proof (good_skip_ws s H) as [O1 L1].
  assert (C1 : current (skip_ws s) = Some IDENT).
  { rewrite current_skip_ws. unfold peek_past_ws, current in *. destruct (toks s) as [|[k t] r]; [discriminate|].
    inversion C; subst. reflexivity. }
  set (s1 := skip_ws s) in *.
  eapply good_goodlt; [split; [exact O1|exact L1]|]. apply goodlt_in_node.
  destruct (good_entry_loop (S (S (length (toks (reset s1))))) (reset s1) O1) as [[A B] LT]; [unfold ltoks; lia|].
  split; [exact A|]. apply LT. change (current (reset s1)) with (current s1). congruence.
Qed.
Opaque error.

Lemma good_root_loop a fuel : forall s, ok s -> ltoks s < fuel ->
  ok (root_loop a fuel s) /\ toks (root_loop a fuel s) = [].
Proof.
  induction fuel as [|f IH]; intros s Hok Hl; [lia|]. cbn [root_loop].
  destruct (current s) as [c|] eqn:C.
  2:{ split; [exact Hok|]. unfold current in C. destruct (toks s) as [|[k t] r]; [reflexivity|discriminate]. }
  cbv zeta.
  assert (Hne : current s <> None) by congruence.
  (* the dispatch on the first token *)
  set (s1 := match c with
             | IDENT => parse_entry s
             | COMMA => s
             | DOLLAR => if a then parse_substvar s else error s
             | _ => error s
             end).
  assert (G1 : good s s1 /\ (c <> COMMA -> ltoks s1 < ltoks s)).
  { unfold s1. pose proof (goodlt_error s Hok Hne) as GE.
    destruct c; try (split; [apply goodlt_good; exact GE|intros _; apply GE]).
    - pose proof (goodlt_parse_entry s Hok C) as GP. split; [apply goodlt_good; exact GP|intros _; apply GP].
    - split; [apply good_refl; exact Hok|congruence].
    - destruct a.
      + pose proof (ok_parse_substvar s Hok Hne) as GP. split; [apply goodlt_good; exact GP|intros _; apply GP].
      + split; [apply goodlt_good; exact GE|intros _; apply GE]. }
  destruct G1 as [[O1 L1] LT1].
  pose proof (good_skip_ws s1 O1) as [O2 L2].
  assert (CC : c = COMMA -> current (skip_ws s1) = Some COMMA).
  { intros ->. unfold s1. rewrite current_skip_ws. unfold peek_past_ws, current in *.
    destruct (toks s) as [|[k t] r]; [discriminate|]. inversion C; subst. reflexivity. }
  set (s2 := skip_ws s1) in *.
  destruct (current s2) as [k|] eqn:C2.
  2:{ split; [exact O2|]. unfold current in C2. destruct (toks s2) as [|[k t] r]; [reflexivity|discriminate]. }
  assert (Hne2 : current s2 <> None) by congruence.
  pose proof (goodlt_bump s2 O2 Hne2) as [Ob Lb]. pose proof (goodlt_error s2 O2 Hne2) as [Oe Le].
  pose proof (good_skip_ws _ Ob) as [O3 L3]. pose proof (good_skip_ws _ Oe) as [O4 L4].
  destruct k; try (apply IH; [exact O4|lia]).
  apply IH; [exact O3|lia].
Qed.

Theorem rparse_tokens_total a ts : exists t n, parse_tokens a ts = Ok (t, n) /\ text t = rttext ts.
Proof.
  unfold parse_tokens. set (s0 := mk_pst ts [] 0 0%N).
  set (body := fun st : pst => root_loop a (loop_fuel (skip_ws st)) (skip_ws st)).
  change (in_node ROOT _ s0) with (in_node ROOT body s0).
  assert (O0 : ok (reset s0)) by reflexivity.
  pose proof (good_skip_ws _ O0) as [O1 L1].
  destruct (good_root_loop a (loop_fuel (skip_ws (reset s0))) (skip_ws (reset s0)) O1) as [O2 T2];
    [unfold loop_fuel, ltoks; lia|].
  assert (P : step (reset s0) (body (reset s0))).
  { unfold body. eapply step_trans; [apply step_skip_ws|apply pres_root_loop]. }
  Transparent in_node.
  unfold in_node. cbn [flag out toks nerr]. fold (reset s0).
  Opaque in_node.
  unfold body at 1. unfold ok in O2. rewrite O2. cbn [N.eqb app].
  do 2 eexists. split; [reflexivity|].
  rewrite text_node. destruct P as (P & _ & _). unfold body in P. rewrite T2 in P.
  cbn in P. rewrite app_nil_r in P. exact P.
Qed.

Theorem rparse_total s a : exists t n, RelParse.parse s a = Ok (t, n) /\ text t = s.
Proof.
  unfold RelParse.parse. destruct (rlex_total_partition s) as (ts & E & Ht & _). rewrite E.
  destruct (rparse_tokens_total a ts) as (t & n & Ep & Hx). exists t, n. split; [exact Ep|congruence].
Qed.

(* the text of a child is a contiguous piece of the text of the parent *)
Lemma texts_In {K} (e : elem K) cs : In e cs -> exists a b, texts cs = a ++ text e ++ b.
Proof.
  induction cs as [|x r IH]; intros H; [contradiction|]. destruct H as [->|H].
  - exists [], (texts r). reflexivity.
  - destruct (IH H) as (a & b & E). exists (text x ++ a), b. rewrite texts_cons, E, <- app_assoc. reflexivity.
Qed.

Lemma child_substring {K} (t e : elem K) : In e (children t) -> exists a b, text t = a ++ text e ++ b.
Proof.
  destruct t as [k s|k cs]; cbn [children]; [contradiction|]. rewrite text_node. apply texts_In.
Qed.

Theorem C09_all s :
  (forall a, exists t n, parse_relaxed s a = Ok (t, n) /\ text t = s) /\
  (exists t n, parse_relaxed s false = Ok (t, n) /\
     (n = 0 -> relations_from_str s = Ok t) /\ (n <> 0 -> relations_from_str s = Err 1%N)) /\
  (forall e, entry_from_str s = Ok e -> exists a b, s = a ++ text e ++ b) /\
  (forall r, relation_from_str s = Ok r -> exists a b, s = a ++ text r ++ b).
Proof.
  assert (Hstrict : forall t, relations_from_str s = Ok t -> text t = s).
  { intros t H. unfold relations_from_str in H. destruct (rparse_total s false) as (t' & n & E & Ht).
    rewrite E in H. destruct n; [|discriminate]. injection H as <-. exact Ht. }
  assert (Hentry : forall e, entry_from_str s = Ok e -> exists a b, s = a ++ text e ++ b).
  { intros e H. unfold entry_from_str in H. destruct (relations_from_str s) as [t| | |] eqn:E; try discriminate.
    destruct (r_entries t) as [|e1 [|e2 l]] eqn:Er; try discriminate. injection H as ->.
    assert (Hin : In e (children t)).
    { unfold r_entries, rnodes_of_kind in Er. assert (Hf : In e (filter (fun e0 => is_node e0 && rkind_eqb (ekind e0) ENTRY) (children t))) by (rewrite Er; left; reflexivity).
      apply filter_In in Hf. apply Hf. }
    destruct (child_substring t e Hin) as (a & b & Hab). exists a, b. rewrite <- (Hstrict t eq_refl). exact Hab. }
  split; [intros a; apply rparse_total|]. split.
  - destruct (rparse_total s false) as (t & n & E & Ht). exists t, n. unfold parse_relaxed, relations_from_str. rewrite E.
    split; [reflexivity|]. split; intros H; destruct n; congruence.
  - split; [exact Hentry|].
    intros r H. unfold relation_from_str in H. destruct (entry_from_str s) as [e| | |] eqn:E; try discriminate.
    destruct (r_relations e) as [|r1 [|r2 l]] eqn:Er; try discriminate. injection H as ->.
    assert (Hin : In r (children e)).
    { unfold r_relations, rnodes_of_kind in Er. assert (Hf : In r (filter (fun e0 => is_node e0 && rkind_eqb (ekind e0) RELATION) (children e))) by (rewrite Er; left; reflexivity).
      apply filter_In in Hf. apply Hf. }
    destruct (child_substring e r Hin) as (a & b & Hab). destruct (Hentry e eq_refl) as (a' & b' & Hs).
    exists (a' ++ a), (b ++ b'). rewrite Hs, Hab, <- !app_assoc. reflexivity.
Qed.

(* ================= nesting depth (the stack clause of C02 for relationship fields) ================= *)
Transparent bump skip_ws error expect in_node out_of_fuel version_text.

Definition rdle (k : nat) (l : list rtree) : Prop := Forall (fun e => depth e <= k) l.

Lemma rdepth_node k cs d : rdle d cs -> depth (Node k cs) <= S d.
Proof. intros H. cbn [depth]. apply le_n_S. induction H as [|x l Hx Hl IH]; [lia|]. cbn. lia. Qed.
Lemma rdle_app k a b : rdle k a -> rdle k b -> rdle k (a ++ b).
Proof. intros Ha Hb. apply Forall_app. split; assumption. Qed.
Lemma rdle_mono k k' l : k <= k' -> rdle k l -> rdle k' l.
Proof. intros Hk H. eapply Forall_impl; [|exact H]. cbn. intros; lia. Qed.
Lemma rdle_tok k kk s : rdle k [Tok kk s].
Proof. constructor; [cbn; lia|constructor]. Qed.

(* a routine keeps the output of the current node at depth <= k *)
Definition keeps (k : nat) (f : pst -> pst) : Prop := forall s, rdle k (out s) -> rdle k (out (f s)).

Lemma keeps_bump k : keeps k bump.
Proof. intros s H. unfold bump. destruct (toks s) as [|[kk t] r]; cbn [out]; [exact H|]. apply rdle_app; [exact H|apply rdle_tok]. Qed.
Lemma skip_ws_l_depth ts e r : skip_ws_l ts = (e, r) -> rdle 0 e.
Proof.
  revert e r. induction ts as [|[k s] t IH]; intros e r H; cbn [skip_ws_l] in H; [inversion H; constructor|].
  destruct (is_ws_kind k); [|inversion H; constructor].
  destruct (skip_ws_l t) as [e' r'] eqn:E. inversion H; subst. constructor; [cbn; lia|eapply IH; reflexivity].
Qed.
Lemma keeps_skip_ws k : keeps k skip_ws.
Proof.
  intros s H. unfold skip_ws. destruct (skip_ws_l (toks s)) as [e r] eqn:E. cbn [out].
  apply rdle_app; [exact H|]. eapply rdle_mono; [|eapply skip_ws_l_depth; exact E]. lia.
Qed.
Lemma keeps_out_of_fuel k : keeps k out_of_fuel.
Proof. intros s H. exact H. Qed.
(* opening a node whose body stays at depth <= j adds one element of depth <= S j *)
Lemma keeps_in_node k j kk body : S j <= k -> keeps j body -> keeps k (in_node kk body).
Proof.
  intros Hk Hb s H. unfold in_node. cbn [out]. apply rdle_app; [exact H|].
  constructor; [|constructor]. eapply Nat.le_trans; [apply rdepth_node; apply Hb; constructor|exact Hk].
Qed.
Lemma keeps_error k : 1 <= k -> keeps k error.
Proof.
  intros Hk s H. unfold error. apply (keeps_in_node k 0 ERROR); [exact Hk| |exact H].
  intros s' H'. destruct (current s'); [apply keeps_bump|]; exact H'.
Qed.
Lemma keeps_expect k kk : 1 <= k -> keeps k (expect kk).
Proof. intros Hk s H. unfold expect. destruct (cur_is s kk); [apply keeps_bump|apply keeps_error]; assumption. Qed.
Lemma keeps_comp k f g : keeps k f -> keeps k g -> keeps k (fun s => g (f s)).
Proof. intros Hf Hg s H. apply Hg, Hf, H. Qed.

Lemma keeps_substvar_loop k fuel : 1 <= k -> keeps k (substvar_loop fuel).
Proof.
  intros Hk. induction fuel as [|f IH]; intros s H; cbn [substvar_loop]; [exact H|].
  destruct (current s) as [kk|]; [|exact H].
  destruct kk; try (apply IH, keeps_error; assumption); try (apply IH, keeps_bump; assumption). exact H.
Qed.
Lemma keeps_parse_substvar k : 2 <= k -> keeps k parse_substvar.
Proof.
  intros Hk. unfold parse_substvar. apply (keeps_in_node k 1); [exact Hk|]. intros s H. cbv zeta.
  assert (H1 : rdle 1 (out (bump s))) by (apply keeps_bump; exact H).
  assert (H2 : rdle 1 (out (if cur_is (bump s) L_CURLY then bump (bump s) else error (bump s))))
    by (destruct (cur_is (bump s) L_CURLY); [apply keeps_bump|apply keeps_error; [lia|]]; exact H1).
  match goal with |- rdle 1 (out (if cur_is ?t R_CURLY then _ else _)) =>
    assert (H3 : rdle 1 (out t)) by (apply keeps_substvar_loop; [lia|exact H2]);
    destruct (cur_is t R_CURLY); [apply keeps_bump|apply keeps_error; [lia|]]; exact H3 end.
Qed.

Lemma bump_constraint_depth ts e r : bump_constraint ts = (e, r) -> rdle 0 e.
Proof.
  revert e r. induction ts as [|[k s] t IH]; intros e r H; cbn [bump_constraint] in H; [inversion H; constructor|].
  destruct k; try (inversion H; constructor);
    (destruct (bump_constraint t) as [e' r'] eqn:E; inversion H; subst; constructor; [cbn; lia|eapply IH; reflexivity]).
Qed.
Lemma keeps_constraint_node k : 1 <= k -> keeps k constraint_node.
Proof.
  intros Hk. unfold constraint_node. apply (keeps_in_node k 0); [exact Hk|]. intros s H.
  destruct (bump_constraint (toks s)) as [e r] eqn:E. cbn [out]. apply rdle_app; [exact H|eapply bump_constraint_depth; exact E].
Qed.

Lemma keeps_arch_loop k fuel : 1 <= k -> keeps k (arch_loop fuel).
Proof.
  intros Hk. induction fuel as [|f IH]; intros s H; cbn [arch_loop]; [exact H|]. cbv zeta.
  pose proof (keeps_skip_ws k s H) as H1.
  destruct (current (skip_ws s)) as [kk|]; [|apply keeps_error; assumption].
  destruct kk; try (apply IH, keeps_error; assumption); try (apply IH, keeps_bump; assumption). apply keeps_bump; exact H1.
Qed.
Lemma keeps_profile_loop k fuel : 1 <= k -> keeps k (profile_loop fuel).
Proof.
  intros Hk. induction fuel as [|f IH]; intros s H; cbn [profile_loop]; [exact H|]. cbv zeta.
  pose proof (keeps_skip_ws k s H) as H1.
  destruct (current (skip_ws s)) as [kk|]; [|apply keeps_error; assumption].
  destruct kk; try (apply IH, keeps_error; assumption); try (apply IH, keeps_bump; assumption).
  - apply IH, keeps_expect; [exact Hk|]. apply keeps_skip_ws, keeps_bump. exact H1.
  - apply keeps_bump; exact H1.
Qed.
Lemma keeps_profiles_while k fuel : 2 <= k -> keeps k (profiles_while fuel).
Proof.
  intros Hk. induction fuel as [|f IH]; intros s H; cbn [profiles_while]; destruct (peek_is s L_ANGLE); try exact H.
  cbv zeta. apply IH. apply (keeps_in_node k 1); [exact Hk| |apply keeps_skip_ws; exact H].
  intros t Ht. cbv zeta. apply keeps_profile_loop; [lia|]. apply keeps_bump. exact Ht.
Qed.

Lemma keeps_version_run k fuel : keeps k (version_run fuel).
Proof.
  induction fuel as [|f IH]; intros s H; cbn [version_run]; destruct (cur_is_vtok s); try exact H.
  apply IH. apply keeps_bump. exact H.
Qed.
Lemma keeps_version_text k : 1 <= k -> keeps k version_text.
Proof.
  intros Hk s H. unfold version_text. destruct (cur_is_vtok s); [apply keeps_version_run; exact H|apply keeps_error; [lia|exact H]].
Qed.
Lemma keeps_parse_relation k : 3 <= k -> keeps k parse_relation.
Proof.
  intros Hk. rewrite (ltac:(reflexivity) : parse_relation = in_node RELATION (fun st =>
      let st := rel_archs (rel_version (rel_after_name (expect IDENT st))) in profiles_while (loop_fuel st) st)).
  apply (keeps_in_node k 2); [exact Hk|]. intros s H. cbv zeta.
  apply keeps_profiles_while; [lia|].
  assert (H1 : rdle 2 (out (expect IDENT s))) by (apply keeps_expect; [lia|exact H]).
  assert (H2 : rdle 2 (out (rel_after_name (expect IDENT s)))).
  { unfold rel_after_name. destruct (peek_past_ws (expect IDENT s)) as [kk|]; [|apply keeps_skip_ws; exact H1].
    destruct kk; try exact H1; try (apply keeps_skip_ws; exact H1); try (apply keeps_error; [lia|]; apply keeps_skip_ws; exact H1).
    cbv zeta. apply keeps_skip_ws. apply (keeps_in_node 2 1); [lia| |apply keeps_skip_ws; exact H1].
    intros t Ht. cbv zeta. apply keeps_expect; [lia|]. apply keeps_skip_ws, keeps_bump. exact Ht. }
  assert (H3 : rdle 2 (out (rel_version (rel_after_name (expect IDENT s))))).
  { unfold rel_version. destruct (peek_is _ L_PARENS); [|exact H2]. cbv zeta.
    apply (keeps_in_node 2 1); [lia| |apply keeps_skip_ws; exact H2].
    intros t Ht. cbv zeta. apply keeps_expect; [lia|]. apply keeps_skip_ws. apply keeps_version_text; [lia|]. apply keeps_skip_ws.
    apply keeps_constraint_node; [lia|]. apply keeps_skip_ws, keeps_bump. exact Ht. }
  unfold rel_archs. destruct (peek_is _ L_BRACKET); [|exact H3]. cbv zeta.
  apply (keeps_in_node 2 1); [lia| |apply keeps_skip_ws; exact H3].
  intros t Ht. cbv zeta. apply keeps_arch_loop; [lia|]. apply keeps_bump. exact Ht.
Qed.

Lemma keeps_entry_loop k fuel : 3 <= k -> keeps k (entry_loop fuel).
Proof.
  intros Hk. induction fuel as [|f IH]; intros s H; cbn [entry_loop]; [exact H|]. cbv zeta.
  pose proof (keeps_parse_relation k Hk s H) as H1.
  destruct (peek_past_ws (parse_relation s)) as [kk|]; [|apply keeps_skip_ws; exact H1].
  destruct kk; try (apply IH; apply (keeps_in_node k 0); [lia| |apply keeps_skip_ws; exact H1];
                    intros t Ht; destruct (current t); [apply keeps_bump|]; exact Ht).
  - apply IH. apply keeps_skip_ws, keeps_bump, keeps_skip_ws. exact H1.
  - exact H1.
Qed.
Lemma keeps_parse_entry k : 4 <= k -> keeps k parse_entry.
Proof.
  intros Hk s H. unfold parse_entry. cbv zeta. apply (keeps_in_node k 3); [exact Hk| |apply keeps_skip_ws; exact H].
  intros t Ht. apply keeps_entry_loop; [lia|exact Ht].
Qed.
Lemma keeps_root_loop a k fuel : 4 <= k -> keeps k (root_loop a fuel).
Proof.
  intros Hk. induction fuel as [|f IH]; intros s H; cbn [root_loop]; destruct (current s) as [c|]; try exact H.
  cbv zeta.
  match goal with |- rdle k (out (match current (skip_ws ?t) with _ => _ end)) => assert (HT : rdle k (out t)) end.
  { destruct c; try (apply keeps_error; [lia|exact H]); try exact H; [apply keeps_parse_entry; assumption|].
    destruct a; [apply keeps_parse_substvar; [lia|exact H]|apply keeps_error; [lia|exact H]]. }
  match goal with |- rdle k (out (match current (skip_ws ?t) with _ => _ end)) =>
    pose proof (keeps_skip_ws k t HT) as H2; destruct (current (skip_ws t)) as [kk|]; [|exact H2] end.
  destruct kk; try (apply IH, keeps_skip_ws, keeps_error; [lia|assumption]).
  apply IH, keeps_skip_ws, keeps_bump. assumption.
Qed.

Theorem rparse_depth s a t n : RelParse.parse s a = Ok (t, n) -> depth t <= 5.
Proof.
  unfold RelParse.parse. destruct (rlex s) as [ts| | |]; try discriminate. unfold parse_tokens.
  set (body := fun st : pst => root_loop a (loop_fuel (skip_ws st)) (skip_ws st)).
  set (s0 := mk_pst ts [] 0 0%N).
  assert (Hk : rdle 5 (out (in_node ROOT body s0))).
  { apply (keeps_in_node 5 4); [lia| |constructor]. intros st Hst. unfold body. apply keeps_root_loop; [lia|]. apply keeps_skip_ws. exact Hst. }
  change (in_node ROOT (fun st : pst => let st0 := skip_ws st in root_loop a (loop_fuel st0) st0) s0) with (in_node ROOT body s0).
  destruct (flag (in_node ROOT body s0) =? 0)%N; [|destruct (flag (in_node ROOT body s0) =? 1)%N; discriminate].
  destruct (out (in_node ROOT body s0)) as [|x [|y l]] eqn:Eo; try discriminate.
  intros H. inversion H; subst. inversion Hk; assumption.
Qed.
Opaque bump skip_ws error expect in_node out_of_fuel version_text.
