(* The parser on the token lists of well-formed documents:
   parse_tokens (doc_toks d) = Ok (tree_of d, 0). *)
From V.model Require Import Base Deb822Lex Deb822Parse Grammar.
From V.proofs Require Import BaseP Deb822LexP Deb822ParseP.

(* what follows a complete line: nothing, or the start of another line *)
Definition starts_line (ts : list token) : Prop :=
  match ts with
  | [] => True
  | (k, _) :: _ => k = KEY \/ k = COMMENT \/ k = NEWLINE
  end.

Lemma bump_while_stop p ts : match ts with [] => True | (k, _) :: _ => p k = false end ->
  bump_while p ts = ([], ts).
Proof. destruct ts as [|[k s] r]; [reflexivity|]. cbn. intros ->. reflexivity. Qed.

Lemma bump_while_opt p k s ts :
  p k = true -> match ts with [] => True | (k', _) :: _ => p k' = false end ->
  bump_while p (opt_tok k s ++ ts) = (opt_elem k s, ts).
Proof.
  intros Hk Hs. destruct s as [|c w]; cbn [opt_tok opt_elem app].
  - apply bump_while_stop. exact Hs.
  - cbn [bump_while]. rewrite Hk. rewrite (bump_while_stop p ts Hs). reflexivity.
Qed.

(* the head of the token list after the value of a line: NEWLINE, or nothing at all *)
Definition line_tail (cs : list (str * str)) (b : bool) (rest : list token) : list token :=
  flat_map cont_toks cs ++ nl_tok b ++ rest.

Lemma line_tail_head cs b rest : (b = false -> rest = []) ->
  match line_tail cs b rest with [] => True | (k, _) :: _ => k = NEWLINE end.
Proof.
  intros Hb. unfold line_tail. destruct cs as [|c cs]; cbn [flat_map app].
  - destruct b; cbn; [reflexivity|]. rewrite (Hb eq_refl). exact I.
  - reflexivity.
Qed.

Definition cont_nonempty (c : str * str) : bool := match snd c with [] => false | _ => true end.

Lemma pe_lines_field cs : forall fuel v b rest,
  length cs < fuel -> forallb cont_nonempty cs = true ->
  (b = false -> rest = []) -> cur rest <> Some INDENT ->
  pe_lines fuel (opt_tok VALUE v ++ line_tail cs b rest) =
  Ok (opt_elem VALUE v ++ flat_map cont_elems cs ++ nl_elem b, rest, 0).
Proof.
  induction cs as [|[i t] cs IH]; intros fuel v b rest Hf Hne Hb Hi;
    (destruct fuel as [|f]; [cbn in Hf; lia|]); cbn [pe_lines].
  - rewrite (bump_while_opt is_ws_or_value VALUE v (line_tail [] b rest) eq_refl).
    2:{ pose proof (line_tail_head [] b rest Hb) as H. destruct (line_tail [] b rest) as [|[k s] r]; [exact I|]. subst k. reflexivity. }
    unfold line_tail. cbn [flat_map app]. destruct b; cbn [nl_tok nl_elem app].
    + destruct rest as [|[k s] r]; [reflexivity|]. destruct k; try reflexivity. cbn in Hi. congruence.
    + rewrite (Hb eq_refl). rewrite app_nil_r. reflexivity.
  - rewrite (bump_while_opt is_ws_or_value VALUE v (line_tail ((i, t) :: cs) b rest) eq_refl); [|reflexivity].
    unfold line_tail. cbn [flat_map app cont_toks fst snd].
    cbn [forallb] in Hne. apply andb_true_iff in Hne. destruct Hne as [Ht Hne].
    destruct t as [|x t']; [discriminate|].
    unfold skip_ws. cbn [bump_while is_ws_or_comment].
    change ((VALUE, x :: t') :: flat_map cont_toks cs ++ nl_tok b ++ rest)
      with (opt_tok VALUE (x :: t') ++ line_tail cs b rest).
    rewrite (IH f (x :: t') b rest); [|cbn in Hf; lia|exact Hne|exact Hb|exact Hi].
    cbn [cont_elems fst snd flat_map app opt_elem Nat.add]. rewrite <- ?app_assoc. cbn [app]. reflexivity.
Qed.

Lemma cont_ok_nonempty cs : forallb cont_ok cs = true -> forallb cont_nonempty cs = true.
Proof.
  induction cs as [|[i t] cs IH]; [reflexivity|]. cbn [forallb]. intros H.
  apply andb_true_iff in H. destruct H as [Hc Hcs]. rewrite (IH Hcs), andb_true_r.
  unfold cont_ok in Hc. apply andb_true_iff in Hc. destruct Hc as [_ Ht].
  unfold cont_nonempty. cbn [snd]. destruct t; [discriminate|reflexivity].
Qed.

Lemma pe_comments_noncomment ts :
  match ts with (COMMENT, _) :: _ => False | _ => True end -> pe_comments ts = ([], ts, 0, false).
Proof. destruct ts as [|[k s] r]; [reflexivity|]. destruct k; try reflexivity. contradiction. Qed.

Lemma conts_len cs : length cs <= length (flat_map cont_toks cs).
Proof. induction cs as [|c cs IH]; cbn [flat_map length]; [lia|]. rewrite app_length. cbn. lia. Qed.

(* parse_entry on the tokens of one field *)
Lemma parse_entry_field f more rest :
  wf_field f more = true -> (more = false -> rest = []) -> cur rest <> Some INDENT ->
  parse_entry (field_toks f ++ rest) = Ok ([field_tree f], rest, 0).
Proof.
  intros Hwf Hm Hi. unfold wf_field in Hwf.
  repeat (apply andb_true_iff in Hwf; let H := fresh "W" in destruct Hwf as [Hwf H]).
  assert (Hb : f_nl f = false -> rest = []).
  { intros E. rewrite E in W. cbn in W. apply negb_true_iff in W. exact (Hm W). }
  unfold parse_entry, field_toks. cbn [app pe_comments cur].
  cbn [pe_expect kind_eqb kind_code N.eqb Pos.eqb].
  rewrite <- !app_assoc.
  (* skip_ws after KEY: next token is COLON *)
  unfold skip_ws at 1. cbn [bump_while is_ws_or_comment].
  cbn [pe_expect kind_eqb kind_code N.eqb Pos.eqb].
  (* skip_ws after COLON: the optional WHITESPACE *)
  unfold skip_ws.
  rewrite (bump_while_opt is_ws_or_comment WHITESPACE (f_ws f) _ eq_refl).
  2:{ destruct (f_first f) as [|x t]; cbn [opt_tok app].
      - pose proof (line_tail_head (f_cont f) (f_nl f) rest Hb) as H. unfold line_tail in H.
        destruct (flat_map cont_toks (f_cont f) ++ nl_tok (f_nl f) ++ rest) as [|[k s] r]; [exact I|]. subst k. reflexivity.
      - reflexivity. }
  change (opt_tok VALUE (f_first f) ++ flat_map cont_toks (f_cont f) ++ nl_tok (f_nl f) ++ rest)
    with (opt_tok VALUE (f_first f) ++ line_tail (f_cont f) (f_nl f) rest).
  rewrite pe_lines_field.
  - unfold field_tree. cbn [app Nat.add]. reflexivity.
  - pose proof (conts_len (f_cont f)) as HL.
    unfold line_tail. rewrite !app_length. lia.
  - apply cont_ok_nonempty. exact W0.
  - exact Hb.
  - exact Hi.
Qed.

(* a terminated comment line in front of anything is emitted in front of whatever parse_entry
   does with the rest *)
Definition prefix3 (p : list tree) (r : res (list tree * list token * nat)) :=
  match r with Ok (e, ts, n) => Ok (p ++ e, ts, n) | x => x end.

Lemma parse_entry_comment s s' X :
  parse_entry ((COMMENT, s) :: (NEWLINE, s') :: X) = prefix3 [Tok COMMENT s; Tok NEWLINE s'] (parse_entry X).
Proof.
  unfold parse_entry. cbn [pe_comments].
  destruct (pe_comments X) as [[[e0 r0] n0] early]. destruct early; [reflexivity|].
  destruct (cur r0) as [k|]; [|reflexivity].
  destruct k; try reflexivity;
    (destruct (pe_expect KEY r0) as [[e1 r1] n1]; destruct (pe_expect COLON r1) as [[e2 r2] n2];
     destruct (pe_lines (S (length r2)) r2) as [[[e3 r3] n3]| | |]; reflexivity).
Qed.

Lemma parse_entry_stop X : match cur X with None | Some NEWLINE => True | _ => False end ->
  parse_entry X = Ok ([], X, 0).
Proof.
  intros H. unfold parse_entry. destruct X as [|[k s] r]; [reflexivity|].
  cbn in H. destruct k; try contradiction. reflexivity.
Qed.

Lemma pp_entries_comment f s s' X :
  pp_entries (S f) ((COMMENT, s) :: (NEWLINE, s') :: X) = prefix3 [Tok COMMENT s; Tok NEWLINE s'] (pp_entries (S f) X).
Proof.
  cbn [pp_entries cur]. rewrite parse_entry_comment.
  destruct (cur X) as [k|] eqn:Ec.
  - destruct k; try (destruct (parse_entry X) as [[[e1 r1] n1]| | |]; cbn [prefix3]; try reflexivity;
                     destruct (pp_entries f r1) as [[[e2 r2] n2]| | |]; cbn [prefix3]; try reflexivity;
                     rewrite <- app_assoc; reflexivity).
    (* NEWLINE *)
    rewrite parse_entry_stop by (rewrite Ec; exact I). cbn [prefix3 app].
    destruct f; cbn [pp_entries]; rewrite Ec; reflexivity.
  - rewrite parse_entry_stop by (rewrite Ec; exact I). cbn [prefix3 app].
    destruct f; cbn [pp_entries]; rewrite Ec; reflexivity.
Qed.

Definition para_end (rest : list token) : Prop :=
  match cur rest with None | Some NEWLINE => True | _ => False end.

Lemma items_starts_line its rest : starts_line rest -> starts_line (flat_map item_toks its ++ rest).
Proof.
  intros H. destruct its as [|it r]; [exact H|]. cbn [flat_map].
  destruct it as [f|c nl]; cbn; [left; reflexivity|right; left; reflexivity].
Qed.

Lemma starts_line_not_indent ts : starts_line ts -> cur ts <> Some INDENT.
Proof. destruct ts as [|[k s] r]; cbn; [congruence|]. intros [->|[->| ->]]; congruence. Qed.

Lemma para_end_starts_line rest : para_end rest -> starts_line rest.
Proof. unfold para_end. destruct rest as [|[k s] r]; cbn; [trivial|]. destruct k; try contradiction. tauto. Qed.

Lemma pp_items its : forall fuel more rest,
  length its <= fuel -> wf_items its more = true -> (more = false -> rest = []) -> para_end rest ->
  pp_entries fuel (flat_map item_toks its ++ rest) = Ok (flat_map item_elems its, rest, 0).
Proof.
  induction its as [|it r IH]; intros fuel more rest Hf Hwf Hm He.
  - cbn [flat_map app]. unfold para_end in He. destruct fuel; cbn [pp_entries];
      destruct (cur rest) as [k|]; try reflexivity; destruct k; try contradiction; reflexivity.
  - destruct fuel as [|f]; [cbn in Hf; lia|].
    cbn [wf_items] in Hwf. apply andb_true_iff in Hwf. destruct Hwf as [Hit Hr].
    cbn [flat_map]. rewrite <- app_assoc.
    assert (Hm' : (match r with [] => more | _ => true end) = false -> flat_map item_toks r ++ rest = []).
    { destruct r; [intros E; rewrite (Hm E); reflexivity|discriminate]. }
    assert (Hsl : starts_line (flat_map item_toks r ++ rest)) by (apply items_starts_line, para_end_starts_line, He).
    destruct it as [fl|c nl]; cbn [item_toks item_elems].
    + unfold field_toks at 1. cbn [app pp_entries cur]. fold (field_toks fl).
      change ((KEY, f_name fl) :: (COLON, [58%N]) :: (opt_tok WHITESPACE (f_ws fl) ++ opt_tok VALUE (f_first fl) ++ flat_map cont_toks (f_cont fl) ++ nl_tok (f_nl fl)) ++ flat_map item_toks r ++ rest)
        with (field_toks fl ++ flat_map item_toks r ++ rest).
      rewrite (parse_entry_field fl _ _ Hit Hm' (starts_line_not_indent _ Hsl)).
      rewrite (IH f more rest); [reflexivity|cbn in Hf; lia|exact Hr|exact Hm|exact He].
    + unfold wf_comment in Hit. apply andb_true_iff in Hit. destruct Hit as [Hc Hn].
      destruct nl.
      * unfold comment_toks, comment_elems. cbn [nl_tok nl_elem app].
        rewrite pp_entries_comment. rewrite (IH (S f) more rest); [reflexivity|cbn in Hf; lia|exact Hr|exact Hm|exact He].
      * cbn in Hn. apply negb_true_iff in Hn. specialize (Hm' Hn).
        unfold comment_toks, comment_elems. cbn [nl_tok nl_elem app]. rewrite Hm'.
        apply app_eq_nil in Hm'. destruct Hm' as [Hr0 Hrest]. subst rest.
        destruct r; [|destruct i; discriminate].
        cbn [pp_entries cur parse_entry pe_comments flat_map]. destruct f; reflexivity.
Qed.

Lemma items_len its : length its <= length (flat_map item_toks its).
Proof.
  induction its as [|it r IH]; cbn [flat_map length]; [lia|]. rewrite app_length.
  destruct it as [f|c nl]; cbn; lia.
Qed.

Lemma parse_paragraph_para f its more rest :
  wf_field f (match its with [] => more | _ => true end) = true -> wf_items its more = true ->
  (more = false -> rest = []) -> para_end rest ->
  parse_paragraph (field_toks f ++ flat_map item_toks its ++ rest) =
  Ok ([Node PARAGRAPH (field_tree f :: flat_map item_elems its)], rest, 0).
Proof.
  intros Hf Hits Hm He. unfold parse_paragraph.
  assert (E : field_toks f ++ flat_map item_toks its ++ rest = flat_map item_toks (IField f :: its) ++ rest).
  { cbn [flat_map item_toks]. rewrite <- app_assoc. reflexivity. }
  rewrite E. rewrite (pp_items (IField f :: its) _ more rest).
  - reflexivity.
  - pose proof (items_len (IField f :: its)). rewrite app_length. lia.
  - cbn [wf_items]. rewrite Hf, Hits. reflexivity.
  - exact Hm.
  - exact He.
Qed.

(* ---- blank / comment blocks at the top level ---- *)
Definition blankish (b : block) : bool := match b with BPara _ _ => false | _ => true end.

(* every comment block but possibly the last is terminated; an unterminated one ends the input *)
Fixpoint blanks_ok (l : list block) (rest : list token) : Prop :=
  match l with
  | [] => True
  | BComment _ false :: r => r = [] /\ rest = []
  | _ :: r => blanks_ok r rest
  end.

Lemma skip_wsnl_blanks bs : forall fuel rest,
  length bs <= fuel -> forallb blankish bs = true -> blanks_ok bs rest ->
  starts_blank rest = false ->
  skip_wsnl fuel (flat_map block_toks bs ++ rest) = Ok (map block_tree bs, rest).
Proof.
  induction bs as [|b r IH]; intros fuel rest Hf Hbl Hok Hsb.
  - cbn [flat_map app map]. destruct fuel; cbn [skip_wsnl]; rewrite Hsb; reflexivity.
  - destruct fuel as [|f]; [cbn in Hf; lia|].
    cbn [forallb] in Hbl. apply andb_true_iff in Hbl. destruct Hbl as [Hb Hbl].
    cbn [flat_map map]. rewrite <- app_assoc.
    destruct b as [|c nl|fl its]; [| |discriminate].
    + cbn [block_toks block_tree app skip_wsnl starts_blank cur empty_line].
      rewrite (IH f rest); [reflexivity|cbn in Hf; lia|exact Hbl|exact Hok|exact Hsb].
    + destruct nl.
      * cbn [block_toks block_tree comment_toks comment_elems nl_tok nl_elem app skip_wsnl starts_blank cur empty_line].
        rewrite (IH f rest); [reflexivity|cbn in Hf; lia|exact Hbl|exact Hok|exact Hsb].
      * destruct Hok as [-> ->].
        cbn [block_toks block_tree comment_toks comment_elems nl_tok nl_elem app flat_map map skip_wsnl starts_blank cur empty_line].
        destruct f; reflexivity.
Qed.

Lemma wf_doc_tail b r : wf_doc (b :: r) = true -> wf_doc r = true.
Proof. cbn [wf_doc]. intros H. apply andb_true_iff in H. apply H. Qed.

Lemma wf_doc_suffix a b : wf_doc (a ++ b) = true -> wf_doc b = true.
Proof. induction a as [|x a IH]; [trivial|]. cbn [app]. intros H. apply IH. eapply wf_doc_tail. exact H. Qed.

Lemma doc_toks_app a b : doc_toks (a ++ b) = doc_toks a ++ doc_toks b.
Proof. unfold doc_toks. apply flat_map_app. Qed.

Lemma block_toks_nonempty b : block_toks b <> [].
Proof. destruct b as [|c nl|f its]; cbn; discriminate. Qed.

Lemma doc_len d : length d <= length (doc_toks d).
Proof.
  induction d as [|b r IH]; [cbn; lia|]. unfold doc_toks in *. cbn [flat_map length]. rewrite app_length.
  pose proof (block_toks_nonempty b). destruct (block_toks b); [congruence|cbn; lia].
Qed.

Lemma blanks_ok_wf bl d2 : forallb blankish bl = true -> wf_doc (bl ++ d2) = true -> blanks_ok bl (doc_toks d2).
Proof.
  induction bl as [|b r IH]; intros Hb Hwf; [exact I|].
  cbn [forallb] in Hb. apply andb_true_iff in Hb. destruct Hb as [_ Hb].
  pose proof (IH Hb (wf_doc_tail _ _ Hwf)) as Hr.
  destruct b as [|c nl|f its]; cbn [blanks_ok]; try exact Hr.
  destruct nl; [exact Hr|].
  cbn [app wf_doc] in Hwf. apply andb_true_iff in Hwf. destruct Hwf as [Hc _].
  unfold wf_comment in Hc. apply andb_true_iff in Hc. destruct Hc as [_ Hm]. cbn in Hm.
  destruct (r ++ d2) eqn:E; [|discriminate]. apply app_eq_nil in E. destruct E as [-> ->]. split; reflexivity.
Qed.

Lemma parse_root_doc n : forall d fuel, length d <= n -> length d <= fuel -> wf_doc d = true ->
  parse_root fuel (doc_toks d) = Ok (map block_tree d, 0).
Proof.
  induction n as [|n IH]; intros d fuel Hn Hf Hwf.
  - destruct d; [|cbn in Hn; lia]. destruct fuel; reflexivity.
  - destruct d as [|b0 r0]; [destruct fuel; reflexivity|].
    destruct fuel as [|f]; [cbn in Hf; lia|].
    remember (b0 :: r0) as d eqn:Ed.
    destruct (span blankish d) as [bl d2] eqn:Es.
    pose proof (span_app _ _ _ _ Es) as Hd. pose proof (span_all _ _ _ _ Es) as Hbl.
    pose proof (span_stop _ _ _ _ Es) as Hst.
    assert (Hne : doc_toks d <> []).
    { subst d. unfold doc_toks. cbn [flat_map]. pose proof (block_toks_nonempty b0).
      destruct (block_toks b0); [congruence|discriminate]. }
    cbn [parse_root]. destruct (doc_toks d) as [|t0 ts0] eqn:Et; [congruence|]. rewrite <- Et. clear Hne.
    rewrite <- Hd in Hwf. rewrite <- Hd. rewrite doc_toks_app.
    assert (Hsb : starts_blank (doc_toks d2) = false).
    { destruct d2 as [|b2 r2]; [reflexivity|]. destruct b2 as [|c nl|f2 its2]; try discriminate. reflexivity. }
    rewrite (skip_wsnl_blanks bl _ (doc_toks d2)).
    + destruct d2 as [|b2 d3].
      * cbn [doc_toks flat_map]. rewrite app_nil_r. reflexivity.
      * destruct b2 as [|c nl|f2 its2]; try discriminate.
        pose proof (wf_doc_suffix _ _ Hwf) as Hwf2.
        cbn [wf_doc] in Hwf2. apply andb_true_iff in Hwf2. destruct Hwf2 as [Hp Hwf3].
        apply andb_true_iff in Hp. destruct Hp as [Hp Hnext]. apply andb_true_iff in Hp. destruct Hp as [Hfld Hits].
        assert (Etoks : doc_toks (BPara f2 its2 :: d3) = field_toks f2 ++ flat_map item_toks its2 ++ doc_toks d3).
        { unfold doc_toks. cbn [flat_map block_toks]. rewrite <- app_assoc. reflexivity. }
        rewrite Etoks.
        assert (Hnn : field_toks f2 ++ flat_map item_toks its2 ++ doc_toks d3 <> []) by (unfold field_toks; discriminate).
        destruct (field_toks f2 ++ flat_map item_toks its2 ++ doc_toks d3) as [|t1 r1] eqn:Er1; [congruence|]. rewrite <- Er1. clear Hnn.
        rewrite (parse_paragraph_para f2 its2 (match d3 with [] => false | _ => true end) (doc_toks d3) Hfld Hits).
        -- rewrite (IH d3 f).
           ++ rewrite map_app. cbn [map app Nat.add]. reflexivity.
           ++ assert (length d = length bl + S (length d3)) by (rewrite <- Hd, app_length; reflexivity). lia.
           ++ assert (length d = length bl + S (length d3)) by (rewrite <- Hd, app_length; reflexivity). lia.
           ++ exact Hwf3.
        -- destruct d3; [reflexivity|discriminate].
        -- unfold para_end. destruct d3 as [|b3 d4]; [exact I|]. destruct b3; try discriminate. exact I.
    + rewrite app_length. pose proof (doc_len bl). lia.
    + exact Hbl.
    + apply blanks_ok_wf; assumption.
    + exact Hsb.
Qed.

Theorem parse_doc_toks d : wf_doc d = true -> parse_tokens (doc_toks d) = Ok (tree_of d, 0).
Proof.
  intros Hwf. unfold parse_tokens. rewrite (parse_root_doc (length d) d); [reflexivity|lia| |exact Hwf].
  apply doc_len.
Qed.
