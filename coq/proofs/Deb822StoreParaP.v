(* Lemmas about Deb822Store.v (C04H), part 3: Paragraph::{insert, set, rename, remove} through a
   handle at ANY path of ANY tree compute Deb822Edit.para_* on the children of the node the handle
   points at, leave every other tree alone and move no handle outside that node. *)
From V.model Require Import Base Deb822Lex Deb822Parse Deb822Edit Deb822Store.
From V.proofs Require Import BaseP Deb822EditP Deb822StoreP Deb822StoreOpsP.

(* ------------------------------------------------------------------ finding the first entry with a key *)
Lemma find_index_replace_first (P : tree -> bool) (f : tree -> tree) cs :
  match find_index P cs with
  | Some i => exists pre x post, cs = pre ++ x :: post /\ length pre = i /\ P x = true /\
                                 replace_first P f cs = Some (pre ++ f x :: post)
  | None => replace_first P f cs = None
  end.
Proof.
  induction cs as [|y r IH]; [reflexivity|]. cbn [find_index replace_first]. destruct (P y) eqn:Py.
  - exists [], y, r. auto.
  - destruct (find_index P r) as [i|]; cbn [option_map].
    + destruct IH as (pre & x & post & -> & <- & Px & E). exists (y :: pre), x, post. rewrite E. auto.
    + now rewrite IH.
Qed.

(* the common frame of the four operations *)
Definition para_frame (ts ts' : list slot) (F : hnd -> hnd) (tid : nat) (p : list nat) : Prop :=
  length ts <= length ts' /\
  (forall j, j <> tid -> j < length ts -> nth_error ts' j = nth_error ts j) /\
  (forall g, h_tid g < length ts -> outside tid p g -> F g = g).

Lemma scoped_regs (F : hnd -> hnd) (rs : list (option hnd)) (tmps : list (option hnd)) :
  firstn (length rs) (map (option_map F) (rs ++ tmps)) = map (option_map F) rs.
Proof. rewrite map_app. rewrite <- (map_length (option_map F) rs). apply firstn_app_len. Qed.

(* appending a new entry: the tail of insert and of set *)
Lemma append_entry_spec ts rs r tid ri T p k cs key v :
  nth_error rs r = Some (Some (mk_hnd tid p)) ->
  nth_error ts tid = Some (mk_slot ri T) -> get_path T p = Some (Node k cs) ->
  exists ts' F,
    runs (ensure_trailing_newline r ;; h <- get_reg r ;; cs' <- children_of h ;; m_splice r (length cs') (length cs') [length rs])
         (mk_state (ts ++ [mk_slot 0 (entry_new key v)]) (rs ++ [Some (mk_hnd (length ts) [])])) tt
         (mk_state ts' (map (option_map F) (rs ++ [Some (mk_hnd (length ts) [])]))) /\
    nth_error ts' tid = Some (mk_slot ri (upd_path T p (fun _ => Node k (para_insert cs key v)))) /\
    para_frame ts ts' F tid p.
Proof.
  intros Hr HT HG. pose proof (nth_error_Some_lt _ _ _ HT) as Hlt.
  set (ts1 := ts ++ [mk_slot 0 (entry_new key v)]). set (rs1 := rs ++ [Some (mk_hnd (length ts) [])]).
  assert (Hr1 : nth_error rs1 r = Some (Some (mk_hnd tid p))) by (unfold rs1; now apply nth_error_app_l).
  assert (HT1 : nth_error ts1 tid = Some (mk_slot ri T)) by (unfold ts1; now apply nth_error_app_l).
  assert (L1 : length ts1 = S (length ts)) by (unfold ts1; rewrite app_length; cbn; lia).
  destruct (ensure_trailing_newline_spec ts1 rs1 r tid ri T p k cs Hr1 HT1 HG) as (ts2 & F1 & R1 & L2 & T2 & O2 & A2).
  set (cs1 := ensure_nl_list cs) in *. set (T1 := upd_path T p (fun _ => Node k cs1)) in *.
  assert (HG1 : get_path T1 p = Some (Node k cs1)) by (unfold T1; now apply get_path_upd_path with (n := Node k cs)).
  assert (Hr2 : nth_error (map (option_map F1) rs1) r = Some (Some (mk_hnd tid p))).
  { rewrite (nth_error_map_reg F1 _ _ _ Hr1). f_equal. f_equal. apply A2; [cbn; lia|left; apply outside_self]. }
  assert (He2 : nth_error (map (option_map F1) rs1) (length rs) = Some (Some (mk_hnd (length ts) []))).
  { rewrite (nth_error_map_reg F1 _ _ (mk_hnd (length ts) [])) by (unfold rs1; apply nth_error_app_at).
    f_equal. f_equal. apply A2; [cbn; lia|left; apply outside_other; cbn; lia]. }
  assert (HE2 : nth_error ts2 (length ts) = Some (mk_slot 0 (entry_new key v))).
  { rewrite O2 by lia. unfold ts1. apply nth_error_app_at. }
  destruct (splice_insert_roots_spec [length rs] [length ts] [entry_new key v] (length cs1) ts2 (map (option_map F1) rs1) r tid ri T1 p k cs1
              Hr2 T2 HG1 (le_n _) eq_refl eq_refl ltac:(repeat constructor; intros []) ltac:(intros [E|[]]; lia))
    as (ts3 & F2 & R2 & L3 & T3 & O3 & S3 & A3 & _).
  { intros j cr tc C H1 H2 H3. destruct j as [|[|j]]; try discriminate. cbn in H1, H2, H3. injection H1 as <-. injection H2 as <-. injection H3 as <-.
    split; [exact He2|]. now exists 0. }
  exists ts3, (fun g => F2 (F1 g)). rewrite <- map_option_map_comp. split; [|split].
  - rbind; [exact R1|]. rbind; [apply runs_get_reg; exact Hr2|].
    rbind; [eapply runs_children_of; [exact T2|exact HG1]|]. cbn [children]. exact R2.
  - rewrite T3. unfold T1. rewrite (upd_path_upd_path _ _ _ _ _ HG). f_equal. f_equal.
    eapply upd_path_ext; [exact HG|]. unfold para_insert. fold cs1. now rewrite insert_at_end.
  - split; [lia|]. split.
    + intros j H1 H2. rewrite O3; [rewrite O2 by lia; unfold ts1; now rewrite nth_error_app1 by lia|exact H1|intros [E|[]]; lia].
    + intros g Hg Ho. rewrite A2 by (try lia; now left). apply A3; [intros [E|[]]; lia|exact Ho].
Qed.

Theorem paragraph_insert_spec ts rs r tid ri T p k cs key v :
  nth_error rs r = Some (Some (mk_hnd tid p)) ->
  nth_error ts tid = Some (mk_slot ri T) -> get_path T p = Some (Node k cs) ->
  exists ts' F,
    runs (paragraph_insert r key v) (mk_state ts rs) tt (mk_state ts' (map (option_map F) rs)) /\
    nth_error ts' tid = Some (mk_slot ri (upd_path T p (fun _ => Node k (para_insert cs key v)))) /\
    para_frame ts ts' F tid p.
Proof.
  intros Hr HT HG. destruct (append_entry_spec ts rs r tid ri T p k cs key v Hr HT HG) as (ts' & F & R & T' & Fr).
  exists ts', F. split; [|split; assumption].
  unfold paragraph_insert. eapply runs_eq; [apply runs_scoped|reflexivity|].
  - unfold entry_new_m. rbind; [apply runs_alloc|]. rbind; [apply runs_push_tmp|]. exact R.
  - f_equal. apply scoped_regs.
Qed.

Theorem paragraph_set_spec ts rs r tid ri T p k cs key v :
  nth_error rs r = Some (Some (mk_hnd tid p)) ->
  nth_error ts tid = Some (mk_slot ri T) -> get_path T p = Some (Node k cs) ->
  exists ts' F,
    runs (paragraph_set r key v) (mk_state ts rs) tt (mk_state ts' (map (option_map F) rs)) /\
    nth_error ts' tid = Some (mk_slot ri (upd_path T p (fun _ => Node k (para_set cs key v)))) /\
    para_frame ts ts' F tid p.
Proof.
  intros Hr HT HG. pose proof (nth_error_Some_lt _ _ _ HT) as Hlt.
  pose proof (find_index_replace_first (entry_has_key key) (fun _ => entry_new key v) cs) as Hf.
  unfold para_set. destruct (find_index (entry_has_key key) cs) as [i|] eqn:Ef.
  - destruct Hf as (pre & x & post & -> & <- & Px & ->).
    set (ts1 := ts ++ [mk_slot 0 (entry_new key v)]). set (rs1 := rs ++ [Some (mk_hnd (length ts) [])]).
    assert (Hr1 : nth_error rs1 r = Some (Some (mk_hnd tid p))) by (unfold rs1; now apply nth_error_app_l).
    assert (He1 : nth_error rs1 (length rs) = Some (Some (mk_hnd (length ts) []))) by (unfold rs1; apply nth_error_app_at).
    assert (HT1 : nth_error ts1 tid = Some (mk_slot ri T)) by (unfold ts1; now apply nth_error_app_l).
    assert (HE1 : nth_error ts1 (length ts) = Some (mk_slot 0 (entry_new key v))) by (unfold ts1; apply nth_error_app_at).
    assert (L1 : length ts1 = S (length ts)) by (unfold ts1; rewrite app_length; cbn; lia).
    destruct (splice_replace_root_spec ts1 rs1 r (length rs) tid ri T p k pre x post (length ts) 0 (entry_new key v)
                Hr1 He1 HT1 HG HE1 ltac:(lia)) as (ts2 & F & R & L2 & T2 & N2 & O2 & A2).
    exists ts2, F. split; [|split; [exact T2|]].
    + unfold paragraph_set. eapply runs_eq; [apply runs_scoped|reflexivity|].
      * unfold entry_new_m. rbind; [apply runs_alloc|]. rbind; [apply runs_push_tmp|]. fold ts1 rs1.
        rbind; [apply runs_get_reg; exact Hr1|]. rbind; [eapply runs_children_of; [exact HT1|exact HG]|].
        cbn [children]. rewrite Ef. exact R.
      * f_equal. apply scoped_regs.
    + split; [lia|]. split.
      * intros j H1 H2. rewrite O2 by lia. unfold ts1. now rewrite nth_error_app1 by lia.
      * intros g Hg Ho. apply A2; [lia|lia|exact Ho].
  - rewrite Hf. destruct (append_entry_spec ts rs r tid ri T p k cs key v Hr HT HG) as (ts' & F & R & T' & Fr).
    exists ts', F. split; [|split; assumption].
    unfold paragraph_set. eapply runs_eq; [apply runs_scoped|reflexivity|].
    + unfold entry_new_m. rbind; [apply runs_alloc|]. rbind; [apply runs_push_tmp|].
      rbind; [apply runs_get_reg; apply nth_error_app_l; exact Hr|].
      rbind; [eapply runs_children_of; [apply nth_error_app_l; exact HT|exact HG]|]. cbn [children]. rewrite Ef. exact R.
    + f_equal. apply scoped_regs.
Qed.

Theorem paragraph_rename_spec ts rs r tid ri T p k cs old new :
  nth_error rs r = Some (Some (mk_hnd tid p)) ->
  nth_error ts tid = Some (mk_slot ri T) -> get_path T p = Some (Node k cs) ->
  exists ts' F,
    runs (paragraph_rename r old new) (mk_state ts rs) (snd (para_rename cs old new)) (mk_state ts' (map (option_map F) rs)) /\
    nth_error ts' tid = Some (mk_slot ri (upd_path T p (fun _ => Node k (fst (para_rename cs old new))))) /\
    para_frame ts ts' F tid p.
Proof.
  intros Hr HT HG. pose proof (nth_error_Some_lt _ _ _ HT) as Hlt.
  pose proof (find_index_replace_first (entry_has_key old) (fun e => entry_new new (entry_value e)) cs) as Hf.
  unfold para_rename. destruct (find_index (entry_has_key old) cs) as [i|] eqn:Ef.
  - destruct Hf as (pre & x & post & -> & <- & Px & ->). cbn [fst snd].
    set (ts1 := ts ++ [mk_slot 0 (entry_new new (entry_value x))]). set (rs1 := rs ++ [Some (mk_hnd (length ts) [])]).
    assert (Hr1 : nth_error rs1 r = Some (Some (mk_hnd tid p))) by (unfold rs1; now apply nth_error_app_l).
    assert (He1 : nth_error rs1 (length rs) = Some (Some (mk_hnd (length ts) []))) by (unfold rs1; apply nth_error_app_at).
    assert (HT1 : nth_error ts1 tid = Some (mk_slot ri T)) by (unfold ts1; now apply nth_error_app_l).
    assert (HE1 : nth_error ts1 (length ts) = Some (mk_slot 0 (entry_new new (entry_value x)))) by (unfold ts1; apply nth_error_app_at).
    assert (L1 : length ts1 = S (length ts)) by (unfold ts1; rewrite app_length; cbn; lia).
    destruct (splice_replace_root_spec ts1 rs1 r (length rs) tid ri T p k pre x post (length ts) 0 _
                Hr1 He1 HT1 HG HE1 ltac:(lia)) as (ts2 & F & R & L2 & T2 & N2 & O2 & A2).
    exists ts2, F. split; [|split; [exact T2|]].
    + unfold paragraph_rename. eapply runs_eq; [apply runs_scoped|reflexivity|].
      * rbind; [apply runs_get_reg; exact Hr|]. rbind; [eapply runs_children_of; [exact HT|exact HG]|].
        cbn [children]. rewrite Ef, nth_error_app_len.
        unfold entry_new_m. rbind; [apply runs_alloc|]. rbind; [apply runs_push_tmp|]. fold ts1 rs1.
        rbind; [exact R|]. rdone.
      * f_equal. apply scoped_regs.
    + split; [lia|]. split.
      * intros j H1 H2. rewrite O2 by lia. unfold ts1. now rewrite nth_error_app1 by lia.
      * intros g Hg Ho. apply A2; [lia|lia|exact Ho].
  - rewrite Hf. cbn [fst snd]. exists ts, (fun g => g). rewrite map_option_map_id. split; [|split].
    + unfold paragraph_rename. eapply runs_eq; [apply runs_scoped|reflexivity|].
      * rbind; [apply runs_get_reg; exact Hr|]. rbind; [eapply runs_children_of; [exact HT|exact HG]|].
        cbn [children]. rewrite Ef. rdone.
      * f_equal. apply firstn_all.
    + now rewrite (upd_path_same _ _ _ HG).
    + repeat split; auto.
Qed.

(* ------------------------------------------------------------------ Paragraph::remove *)
Lemma indices_of_shift {A} (P : A -> bool) l : forall b, indices_of P l (S b) = map S (indices_of P l b).
Proof. induction l as [|x r IH]; intros b; [reflexivity|]. cbn [indices_of]. destruct (P x); cbn [map]; now rewrite IH. Qed.

Lemma detach_regs_spec (P : tree -> bool) : forall (l pre : list tree) tmps ts rs tid ri T p k,
  nth_error ts tid = Some (mk_slot ri T) -> get_path T p = Some (Node k (pre ++ l)) ->
  Forall2 (fun t i => nth_error rs t = Some (Some (mk_hnd tid (p ++ [length pre + i])))) tmps (indices_of P l 0) ->
  exists ts' F,
    runs (detach_regs tmps) (mk_state ts rs) tt (mk_state ts' (map (option_map F) rs)) /\
    nth_error ts' tid = Some (mk_slot ri (upd_path T p (fun _ => Node k (pre ++ filter (fun e => negb (P e)) l)))) /\
    para_frame ts ts' F tid p.
Proof.
  induction l as [|x l IH]; intros pre tmps ts rs tid ri T p k HT HG HF.
  - cbn [indices_of] in HF. inversion HF; subst. exists ts, (fun g => g). rewrite map_option_map_id.
    split; [cbn [detach_regs]; rdone|]. split; [cbn [filter]; now rewrite (upd_path_same _ _ _ HG)|]. repeat split; auto.
  - cbn [indices_of filter] in *. destruct (P x) eqn:Px; cbn [negb].
    + inversion HF as [|t0 i0 tmps' is' Ht0 HF' E1 E2]; subst. rewrite Nat.add_0_r in Ht0.
      assert (HGx : get_path T (p ++ [length pre]) = Some x) by (eapply get_path_child; [exact HG|apply nth_error_app_len]).
      destruct (detach_h_spec ts rs tid ri T p _ x HT HGx) as (ts1 & R1 & L1 & T1 & N1 & O1).
      set (F1 := rebase_detach tid p (length pre) (length ts)) in *.
      assert (ET : upd_path T p (fun q => set_children (delete_at (length pre) (children q)) q)
                   = upd_path T p (fun _ => Node k (pre ++ l))).
      { eapply upd_path_ext; [exact HG|]. cbn [children set_children ekind]. now rewrite delete_at_app_len. }
      rewrite ET in T1. set (T' := upd_path T p (fun _ => Node k (pre ++ l))) in *.
      assert (HG' : get_path T' p = Some (Node k (pre ++ l))) by (unfold T'; now apply get_path_upd_path with (n := Node k (pre ++ x :: l))).
      assert (HF1 : Forall2 (fun t i => nth_error (map (option_map F1) rs) t = Some (Some (mk_hnd tid (p ++ [length pre + i]))))
                            tmps' (indices_of P l 0)).
      { rewrite indices_of_shift in HF'. clear -HF'. remember (indices_of P l 0) as is0. clear Heqis0.
        revert tmps' HF'. induction is0 as [|i is0 IHi]; intros tmps' HF'; cbn [map] in HF';
          inversion HF' as [|a b c d Hh Ht]; subst; constructor.
        - rewrite (nth_error_map_reg F1 _ _ _ Hh). unfold F1. rewrite rebase_detach_after by lia. do 3 f_equal. f_equal. f_equal. lia.
        - now apply IHi. }
      destruct (IH pre tmps' ts1 (map (option_map F1) rs) tid ri T' p k T1 HG' HF1) as (ts2 & F2 & R2 & T2 & L2 & O2 & A2).
      exists ts2, (fun g => F2 (F1 g)). rewrite <- map_option_map_comp. split; [|split].
      * cbn [detach_regs]. rbind; [|exact R2]. unfold m_detach. rbind; [apply runs_get_reg; exact Ht0|]. rbind; [exact R1|]. rdone.
      * rewrite T2. unfold T'. now rewrite (upd_path_upd_path _ _ _ _ _ HG).
      * split; [lia|]. split.
        -- intros j H1 H2. rewrite O2 by lia. now apply O1.
        -- intros g Hg Ho. unfold F1. rewrite rebase_detach_outside by exact Ho. apply A2; [lia|exact Ho].
    + rewrite indices_of_shift in HF.
      assert (HG' : get_path T p = Some (Node k ((pre ++ [x]) ++ l))) by (now rewrite <- app_assoc).
      assert (HF1 : Forall2 (fun t i => nth_error rs t = Some (Some (mk_hnd tid (p ++ [length (pre ++ [x]) + i]))))
                            tmps (indices_of P l 0)).
      { remember (indices_of P l 0) as is0. clear -HF. revert tmps HF. induction is0 as [|i is0 IHi]; intros tmps HF; cbn [map] in HF;
          inversion HF as [|a b c d Hh Ht]; subst; constructor.
        - rewrite Hh. do 3 f_equal. f_equal. f_equal. rewrite app_length. cbn. lia.
        - now apply IHi. }
      destruct (IH (pre ++ [x]) tmps ts rs tid ri T p k HT HG' HF1) as (ts2 & F2 & R2 & T2 & Fr).
      exists ts2, F2. split; [exact R2|]. split; [|exact Fr]. rewrite T2. now rewrite <- app_assoc.
Qed.

Theorem paragraph_remove_spec ts rs r tid ri T p k cs key :
  nth_error rs r = Some (Some (mk_hnd tid p)) ->
  nth_error ts tid = Some (mk_slot ri T) -> get_path T p = Some (Node k cs) ->
  exists ts' F,
    runs (paragraph_remove r key) (mk_state ts rs) tt (mk_state ts' (map (option_map F) rs)) /\
    nth_error ts' tid = Some (mk_slot ri (upd_path T p (fun _ => Node k (para_remove cs key)))) /\
    para_frame ts ts' F tid p.
Proof.
  intros Hr HT HG.
  set (hs := map (child_h (mk_hnd tid p)) (indices_of (entry_has_key key) cs 0)).
  assert (HF : Forall2 (fun t i => nth_error (rs ++ map Some hs) t = Some (Some (mk_hnd tid (p ++ [length (@nil tree) + i]))))
                       (seq (length rs) (length hs)) (indices_of (entry_has_key key) cs 0)).
  { unfold hs. rewrite map_length. generalize (indices_of (entry_has_key key) cs 0) as is0. intros is0.
    assert (Hgen : forall (front : list (option hnd)), Forall2 (fun t i => nth_error (front ++ map Some (map (child_h (mk_hnd tid p)) is0)) t = Some (Some (mk_hnd tid (p ++ [i]))))
                       (seq (length front) (length is0)) is0).
    { induction is0 as [|i is0 IHi]; intros front; cbn [length seq map]; constructor.
      - now rewrite nth_error_app_len.
      - specialize (IHi (front ++ [Some (child_h (mk_hnd tid p) i)])). rewrite app_length in IHi. cbn [length] in IHi.
        rewrite Nat.add_1_r, <- app_assoc in IHi. exact IHi. }
    exact (Hgen rs). }
  destruct (detach_regs_spec (entry_has_key key) cs [] (seq (length rs) (length hs)) ts (rs ++ map Some hs) tid ri T p k HT HG HF)
    as (ts' & F & R & T' & Fr).
  exists ts', F. split; [|split; [exact T'|exact Fr]].
  unfold paragraph_remove. eapply runs_eq; [apply runs_scoped|reflexivity|].
  - rbind; [apply runs_get_reg; exact Hr|]. rbind; [eapply runs_children_of; [exact HT|exact HG]|]. cbn [children].
    fold hs. rbind; [apply runs_push_tmps|]. exact R.
  - f_equal. apply scoped_regs.
Qed.
